(* C04: RankSelectSE256 (separated.rs) rank1/rank0/get/count_ones/select1/select0 equal the definition for every
   bit list, every position / index and both select-cache settings.  Same proof structure as SE512 (ProofsRank,
   ProofsSelect, ProofsSelect0) with 256-bit lines, four words and byte-wide sub-block ranks; the binary search and
   the select caches are the generic ones of ProofsGen.v. *)
From Coq Require Import List Arith NArith Lia Bool ZifyBool ZifyNat ZifyN.
From ZV.Common Require Import Base.
From ZV.C04 Require Import Spec Model ModelGen ModelSE256 ProofsRank ProofsSelect ProofsSelect0 ProofsGen.
Import ListNotations.
Ltac Zify.zify_post_hook ::= Z.div_mod_to_equations.
Close Scope N_scope.
Open Scope nat_scope.

Section Extra.
Variable extra : nat.

Lemma word_past bs wi : nwords (length bs) <= wi -> word bs wi = [].
Proof.
  intros H. unfold word, nwords in *. rewrite skipn_all2 by lia. apply firstn_nil.
Qed.

(* whether or not the word exists, the running count grows by the ones of its 64-bit segment *)
Lemma se256_word_step bs wi r :
  (if wi <? (nwords (length bs) + extra) then r + popcount (word bs wi) else r) = r + seg bs (64 * wi) 64.
Proof.
  destruct (Nat.ltb_spec wi ((nwords (length bs) + extra))) as [Hlt|Hge].
  - rewrite word_count. reflexivity.
  - rewrite <- word_count, word_past by lia. cbn [popcount count1]. lia.
Qed.

Lemma se256_line_cons bs line j t r :
  se256_line bs ((nwords (length bs) + extra)) line (j :: t) r =
  let '(l2, tot) := se256_line bs ((nwords (length bs) + extra)) line t (r + seg bs (64 * (line * 4 + j)) 64) in
  ((r mod 256) :: l2, tot).
Proof. cbn [se256_line]. unfold WPL256. rewrite se256_word_step. reflexivity. Qed.

Lemma se256_line_unfold bs line :
  let c := fun j => seg bs (256 * line) (64 * j) in
  se256_line bs ((nwords (length bs) + extra)) line (seq 0 WPL256) 0 =
  ([c 0 mod 256; c 1 mod 256; c 2 mod 256; c 3 mod 256], c 4).
Proof.
  intros c.
  assert (Hc : forall j, c j + seg bs (64 * (line * 4 + j)) 64 = c (S j)).
  { intros j. unfold c. replace (64 * S j) with (64 * j + 64) by lia.
    rewrite seg_add. f_equal. f_equal. lia. }
  assert (Hc0 : c 0 = 0) by reflexivity.
  unfold WPL256. cbn [seq].
  replace (se256_line bs ((nwords (length bs) + extra)) line [0; 1; 2; 3] 0)
    with (se256_line bs ((nwords (length bs) + extra)) line [0; 1; 2; 3] (c 0)) by (rewrite Hc0; reflexivity).
  do 4 (rewrite se256_line_cons, Hc). cbn [se256_line]. reflexivity.
Qed.

Lemma se256_lines_spec bs : forall n i cum,
  cum = rank1 bs (256 * i) ->
  let '(lines, total) := se256_lines bs ((nwords (length bs) + extra)) n i cum in
  length lines = n /\ total = rank1 bs (256 * (i + n)) /\
  forall k, k < n ->
    lev1 (nth k lines dflt256) = rank1 bs (256 * (i + k)) /\
    forall j, j <= 3 -> nth j (lev2 (nth k lines dflt256)) 0 = seg bs (256 * (i + k)) (64 * j).
Proof.
  induction n as [|n IH]; intros i cum Hcum; cbn [se256_lines].
  - split; [reflexivity|]. split; [rewrite Hcum; f_equal; lia|]. intros k Hk. lia.
  - pose proof (se256_line_unfold bs i) as Hl. cbv zeta in Hl. rewrite Hl.
    specialize (IH (S i) (cum + seg bs (256 * i) (64 * 4))).
    destruct (se256_lines bs ((nwords (length bs) + extra)) n (S i) (cum + seg bs (256 * i) (64 * 4))) as [rest total].
    destruct IH as (Hlen & Htot & Hks).
    { rewrite Hcum. replace (256 * S i) with (256 * i + 64 * 4) by lia. rewrite rank1_seg. reflexivity. }
    split; [cbn [length]; lia|]. split; [rewrite Htot; f_equal; lia|].
    intros k Hlt. destruct k as [|k].
    + cbn [nth lev1 lev2]. replace (i + 0) with i by lia. split; [exact Hcum|].
      intros j Hj.
      pose proof (seg_le bs (256 * i) (64 * 0)); pose proof (seg_le bs (256 * i) (64 * 1));
      pose proof (seg_le bs (256 * i) (64 * 2)); pose proof (seg_le bs (256 * i) (64 * 3)).
      do 4 (destruct j as [|j]; [cbn [nth]; apply Nat.mod_small; lia|]). lia.
    + cbn [nth]. assert (Hk' : k < n) by lia. specialize (Hks k Hk'). replace (i + S k) with (S i + k) by lia. exact Hks.
Qed.

Lemma nlines256_bounds n : 256 * nlines256 n >= n /\ (n > 0 -> 256 * (nlines256 n - 1) < n).
Proof. unfold nlines256, LINE256. split; [|intros]; lia. Qed.

(* everything the proofs need to know about the built structure *)
Lemma se256_build_spec bs sp0 sp1 :
  let s := se256_build bs extra sp0 sp1 in
  let nl := nlines256 (length bs) in
  bits256 s = bs /\ size256 s = length bs /\ nw256 s = (nwords (length bs) + extra) /\
  mr1_256 s = count1 bs /\ mr0_256 s = length bs - count1 bs /\
  length (cache256 s) = S nl /\
  (forall i, i <= nl -> lev1 (nth i (cache256 s) dflt256) = rank1 bs (256 * i)) /\
  (forall i j, i < nl -> j <= 3 -> nth j (lev2 (nth i (cache256 s) dflt256)) 0 = seg bs (256 * i) (64 * j)) /\
  lev2 (nth nl (cache256 s) dflt256) = [0; 0; 0; 0] /\
  s1c256 s = (if sp1 && (0 <? count1 bs)
              then Some (build_sel_cache_g (fun k => lev1 (nth k (cache256 s) dflt256)) false 256 (count1 bs) nl) else None) /\
  s0c256 s = (if sp0 && (0 <? length bs - count1 bs)
              then Some (build_sel_cache_g (fun k => k * 256 - lev1 (nth k (cache256 s) dflt256)) true 256 (length bs - count1 bs) nl) else None).
Proof.
  cbv zeta. unfold se256_build.
  pose proof (se256_lines_spec bs (nlines256 (length bs)) 0 0 eq_refl) as Hb.
  destruct (se256_lines bs ((nwords (length bs) + extra)) (nlines256 (length bs)) 0 0) as [lines cum].
  destruct Hb as (Hlen & Htot & Hk). cbn [Nat.add] in *.
  pose proof (nlines256_bounds (length bs)) as [Hn1 Hn2].
  assert (Hcum : cum = count1 bs) by (rewrite Htot; apply rank1_all; lia).
  cbn [bits256 size256 nw256 cache256 s0c256 s1c256 mr0_256 mr1_256]. unfold LINE256, dflt256.
  rewrite Hcum in *. clear Hcum.
  split; [reflexivity|]. split; [reflexivity|]. split; [reflexivity|]. split; [reflexivity|]. split; [reflexivity|].
  split; [rewrite app_length; cbn [length]; lia|].
  split.
  { intros i Hi. destruct (Nat.eq_dec i (nlines256 (length bs))) as [->|Hne].
    - rewrite app_nth2 by lia. rewrite Hlen, Nat.sub_diag. cbn [nth rc256_new lev1]. exact Htot.
    - rewrite app_nth1 by lia. apply Hk. lia. }
  split.
  { intros i j Hi Hj. rewrite app_nth1 by lia. apply Hk; assumption. }
  split.
  { rewrite app_nth2 by lia. rewrite Hlen, Nat.sub_diag. reflexivity. }
  split; reflexivity.
Qed.

Theorem se256_rank1_correct_proof bs sp0 sp1 p :
  p <= length bs -> se256_rank1 (se256_build bs extra sp0 sp1) p = Some (rank1 bs p).
Proof.
  intros Hp. destruct (se256_build_spec bs sp0 sp1) as (Hbits & Hsize & Hnw & _ & _ & Hclen & Hbase & Hrel & Hsent & _).
  pose proof (nlines256_bounds (length bs)) as [Hn1 Hn2].
  unfold se256_rank1. rewrite Hsize, Hnw, Hbits.
  replace (length bs <? p) with false by (symmetry; apply Nat.ltb_ge; lia).
  destruct (Nat.eqb_spec p 0) as [->|Hp0]; [reflexivity|]. f_equal.
  unfold LINE256, WPL256.
  set (nl := nlines256 (length bs)) in *.
  assert (Hw : p / 64 = (p / 256) * 4 + p mod 256 / 64) by lia.
  assert (Hwb : (p / 64) mod 4 = p mod 256 / 64) by lia.
  rewrite Hwb.
  assert (Hword : (if p / 64 <? (nwords (length bs) + extra) then word bs (p / 64) else []) = word bs (p / 64)).
  { destruct (Nat.ltb_spec (p / 64) ((nwords (length bs) + extra))); [reflexivity|]. rewrite word_past by lia. reflexivity. }
  rewrite Hword.
  assert (Htrail : popcount_trail (word bs (p / 64)) (p mod 64) = seg bs (256 * (p / 256) + 64 * (p mod 256 / 64)) (p mod 64)).
  { unfold popcount_trail, word, seg.
    destruct (Nat.eqb_spec (p mod 64) 0) as [H0|H0]; [rewrite H0; reflexivity|].
    replace (64 <=? p mod 64) with false by (symmetry; apply Nat.leb_gt; lia).
    rewrite firstn_firstn. replace (Init.Nat.min (p mod 64) 64) with (p mod 64) by lia.
    f_equal. f_equal. f_equal. lia. }
  rewrite Htrail, Hbase by lia.
  destruct (Nat.lt_ge_cases (p / 256) nl) as [Hin|Hout].
  - rewrite Hrel by lia. rewrite <- Nat.add_assoc, <- seg_add, <- rank1_seg. f_equal. lia.
  - assert (Hq : p / 256 = nl) by lia. rewrite Hq, Hsent.
    replace (p mod 256 / 64) with 0 by lia. cbn [nth].
    replace (p mod 64) with 0 by lia. unfold seg. cbn [firstn count1].
    replace (rank1 bs p) with (rank1 bs (256 * nl)) by (f_equal; lia). lia.
Qed.

Theorem se256_rank0_correct_proof bs sp0 sp1 p :
  p <= length bs -> se256_rank0 (se256_build bs extra sp0 sp1) p = Some (rank0 bs p).
Proof.
  intros Hp. unfold se256_rank0. rewrite se256_rank1_correct_proof by exact Hp.
  pose proof (rank0_rank1 bs p Hp). f_equal. lia.
Qed.

Theorem se256_rank1_refuses_proof bs sp0 sp1 p :
  length bs < p -> se256_rank1 (se256_build bs extra sp0 sp1) p = None.
Proof.
  intros Hp. destruct (se256_build_spec bs sp0 sp1) as (_ & Hsize & _).
  unfold se256_rank1. rewrite Hsize. replace (length bs <? p) with true by (symmetry; apply Nat.ltb_lt; lia). reflexivity.
Qed.

Theorem se256_get_correct_proof bs sp0 sp1 i :
  se256_get (se256_build bs extra sp0 sp1) i = if length bs <=? i then None else Some (nth i bs false).
Proof.
  destruct (se256_build_spec bs sp0 sp1) as (Hbits & Hsize & Hnw & _).
  unfold se256_get. rewrite Hsize, Hnw, Hbits. destruct (Nat.leb_spec (length bs) i) as [|Hlt]; [reflexivity|].
  replace (i / 64 <? (nwords (length bs) + extra)) with true by (symmetry; apply Nat.ltb_lt; unfold nwords; lia).
  f_equal. unfold word. rewrite nth_firstn by (apply Nat.mod_upper_bound; lia).
  rewrite nth_skipn. f_equal. pose proof (Nat.div_mod i 64). lia.
Qed.

Theorem se256_count_ones_proof bs sp0 sp1 :
  mr1_256 (se256_build bs extra sp0 sp1) = count1 bs /\ size256 (se256_build bs extra sp0 sp1) = length bs.
Proof. destruct (se256_build_spec bs sp0 sp1) as (_ & Hsize & _ & Hmr1 & _). split; assumption. Qed.

(* ---- the descending scans ---- *)
Lemma descending_split4 j0 : j0 <= 3 ->
  exists pre post, rev (seq 0 WPL256) = pre ++ j0 :: post /\ forall j, In j pre -> j0 < j <= 3.
Proof.
  intros H. unfold WPL256. cbn [seq rev app].
  destruct j0 as [|[|[|[|j0]]]]; [| | | |lia].
  - exists [3;2;1], []. split; [reflexivity|cbn [In]; intros; lia].
  - exists [3;2], [0]. split; [reflexivity|cbn [In]; intros; lia].
  - exists [3], [1;0]. split; [reflexivity|cbn [In]; intros; lia].
  - exists [], [2;1;0]. split; [reflexivity|cbn [In]; intros; lia].
Qed.

Lemma se256_scan1_skip s block target c pre j0 post :
  (forall j, In j pre -> target < nth j (lev2 c) 0) ->
  nth j0 (lev2 c) 0 <= target ->
  block * WPL256 + j0 < nw256 s ->
  se256_scan1 s block target c (pre ++ j0 :: post) =
  Some (block * LINE256 + j0 * 64 + select_in_word (word (bits256 s) (block * WPL256 + j0)) (target - nth j0 (lev2 c) 0)).
Proof.
  induction pre as [|j pre IH]; intros Hpre Hhit Hex; cbn [app se256_scan1].
  - replace (nth j0 (lev2 c) 0 <=? target) with true by (symmetry; apply Nat.leb_le; exact Hhit).
    replace (block * WPL256 + j0 <? nw256 s) with true by (symmetry; apply Nat.ltb_lt; exact Hex).
    reflexivity.
  - assert (Hj : target < nth j (lev2 c) 0) by (apply Hpre; left; reflexivity).
    replace (nth j (lev2 c) 0 <=? target) with false by (symmetry; apply Nat.leb_gt; exact Hj).
    apply IH; [|exact Hhit|exact Hex]. intros j' Hj'. apply Hpre. right. exact Hj'.
Qed.

Lemma se256_scan0_skip s block target c pre j0 post :
  (forall j, In j pre -> target < j * 64 - nth j (lev2 c) 0) ->
  j0 * 64 - nth j0 (lev2 c) 0 <= target ->
  se256_scan0 s block target c (pre ++ j0 :: post) =
  Some (block * LINE256 + j0 * 64 +
        select_in_word (map negb ((if block * WPL256 + j0 <? nw256 s then word (bits256 s) (block * WPL256 + j0) else []) ++
                                  repeat false (64 - length (if block * WPL256 + j0 <? nw256 s then word (bits256 s) (block * WPL256 + j0) else []))))
                       (target - (j0 * 64 - nth j0 (lev2 c) 0))).
Proof.
  induction pre as [|j pre IH]; intros Hpre Hhit; cbn [app se256_scan0].
  - replace (j0 * 64 - nth j0 (lev2 c) 0 <=? target) with true by (symmetry; apply Nat.leb_le; exact Hhit).
    reflexivity.
  - assert (Hj : target < j * 64 - nth j (lev2 c) 0) by (apply Hpre; left; reflexivity).
    replace (j * 64 - nth j (lev2 c) 0 <=? target) with false by (symmetry; apply Nat.leb_gt; exact Hj).
    apply IH; [|exact Hhit]. intros j' Hj'. apply Hpre. right. exact Hj'.
Qed.

(* ---- select1 ---- *)
Theorem se256_select1_correct_proof bs sp0 sp1 k :
  se256_select1 (se256_build bs extra sp0 sp1) k = select1 bs k.
Proof.
  destruct (se256_build_spec bs sp0 sp1) as (Hbits & Hsize & Hnw & Hmr1 & Hmr0 & Hclen & Hbase & Hrel & Hsent & Hs1 & Hs0).
  pose proof (nlines256_bounds (length bs)) as [Hn1 Hn2].
  set (s := se256_build bs extra sp0 sp1) in *. set (nl := nlines256 (length bs)) in *.
  unfold se256_select1. rewrite Hmr1.
  destruct (Nat.leb_spec (count1 bs) k) as [Hge|Hlt].
  { destruct (select1 bs k) as [p|] eqn:E; [|reflexivity].
    assert (k < count1 bs) by (apply select1_some_iff; eauto). lia. }
  set (f := fun i => lev1 (nth i (cache256 s) dflt256)).
  assert (Hmono : forall i j, i <= j <= nl -> f i <= f j).
  { intros i j Hij. unfold f. rewrite !Hbase by lia. apply rank1_mono. lia. }
  assert (Hend : f nl = count1 bs) by (unfold f; rewrite Hbase by lia; apply rank1_all; lia).
  (* the initial bracket, with or without the select cache *)
  assert (Hbr : exists lo0 hi0,
     match s1c256 s with
     | Some c => (nth (k / LINE256) c 0, nth (S (k / LINE256)) c 0)
     | None => (0, length (cache256 s) - 1)
     end = (lo0, hi0) /\ lo0 <= hi0 <= nl /\
     (forall i, i < lo0 -> f i <= k) /\ (forall i, hi0 <= i <= nl -> k < f i)).
  { rewrite Hs1. destruct (sp1 && (0 <? count1 bs)) eqn:Esel.
    - assert (Hpos : 0 < count1 bs) by lia. unfold LINE256. fold f.
      assert (Hslot : S (k / 256) <= (count1 bs + 256 - 1) / 256) by lia.
      destruct (sel_cache_g1_spec f 256 nl ltac:(lia) (count1 bs) Hpos (k / 256)) as (A1 & B1 & C1); [lia|].
      destruct (sel_cache_g1_spec f 256 nl ltac:(lia) (count1 bs) Hpos (S (k / 256))) as (A2 & B2 & C2); [lia|].
      set (e1 := nth (k / 256) (build_sel_cache_g f false 256 (count1 bs) nl) 0) in *.
      set (e2 := nth (S (k / 256)) (build_sel_cache_g f false 256 (count1 bs) nl) 0) in *.
      exists e1, e2. split; [reflexivity|].
      assert (Hlow : forall i, i < e1 -> f i <= k).
      { intros i Hi. assert (f i < 256 * (k / 256)) by (apply B1; lia). lia. }
      assert (Hup : forall i, e2 <= i <= nl -> k < f i).
      { intros i Hi. destruct (Nat.eq_dec e2 nl) as [He|He].
        - assert (i = nl) by lia. subst i. rewrite Hend. lia.
        - assert (256 * S (k / 256) <= f e2) by (apply C2; lia).
          assert (f e2 <= f i) by (apply Hmono; lia). lia. }
      repeat split; try lia; try assumption.
      destruct (Nat.le_gt_cases e1 e2) as [Hle|Hgt]; [exact Hle|exfalso].
      assert (f e2 <= k) by (apply Hlow; lia).
      assert (k < f e2) by (apply Hup; lia). lia.
    - exists 0, nl. rewrite Hclen. split; [f_equal; lia|]. repeat split; try lia.
      intros i Hi. assert (i = nl) by lia. subst i. rewrite Hend. lia. }
  destruct Hbr as (lo0 & hi0 & Hmatch & Hlh & Hlow0 & Hup0).
  unfold se256_upper_bound. rewrite Hmatch, Hclen. cbv iota.
  set (right := fun mid => lev1 (nth mid (cache256 s) dflt256) <=? k).
  destruct (bsearch_spec mid_avg right (S nl) mid_avg_between) with (fuel := S (S nl)) (lo := lo0) (hi := hi0)
    as (Hr1 & Hr2 & Hr3); [|lia|lia| | |].
  { intros i j Hij Hj. unfold right in *. apply Nat.leb_le in Hj. apply Nat.leb_le.
    assert (f i <= f j) by (apply Hmono; lia). unfold f in *. lia. }
  { intros i Hi. unfold right. apply Nat.leb_le. apply Hlow0. exact Hi. }
  { intros i Hi. unfold right. apply Nat.leb_gt. apply Hup0. lia. }
  set (r := bsearch mid_avg right (S (S nl)) lo0 hi0) in *.
  assert (Hlt_r : forall i, i < r -> f i <= k).
  { intros i Hi. specialize (Hr2 i Hi). unfold right in Hr2. apply Nat.leb_le in Hr2. exact Hr2. }
  assert (Hge_r : forall i, r <= i <= nl -> k < f i).
  { intros i Hi. assert (H : right i = false) by (apply Hr3; lia). unfold right in H. apply Nat.leb_gt in H. exact H. }
  destruct (Nat.eqb_spec r 0) as [Hr0|Hr0].
  { exfalso. assert (H0 : k < f 0) by (apply Hge_r; lia).
    unfold f in H0. rewrite Hbase in H0 by lia. change (rank1 bs (256 * 0)) with 0 in H0. lia. }
  assert (Hblk : r - 1 < nl) by lia.
  set (block := r - 1) in *.
  assert (Hlo : rank1 bs (256 * block) <= k) by (rewrite <- Hbase by lia; apply Hlt_r; lia).
  assert (Hhi : k < rank1 bs (256 * block + 256)).
  { replace (256 * block + 256) with (256 * r) by lia. rewrite <- Hbase by lia. apply Hge_r. lia. }
  rewrite Hbase by lia.
  set (c := nth block (cache256 s) dflt256).
  assert (Hrelc : forall j, j <= 3 -> nth j (lev2 c) 0 = seg bs (256 * block) (64 * j)) by (intros j Hj; apply Hrel; lia).
  set (target := k - rank1 bs (256 * block)).
  rewrite rank1_seg in Hhi.
  destruct (find_bracket (fun j => seg bs (256 * block) (64 * j)) 4 target) as (j0 & Hj0 & Hbr).
  { split; [cbv beta; change (64 * 0) with 0; rewrite seg_0; lia|]. change (64 * 4) with 256. subst target. lia. }
  destruct (descending_split4 j0) as (pre & post & Hsplit & Hpre); [lia|].
  rewrite Hsplit.
  assert (Hrank : rank1 bs (256 * block + 64 * j0) = rank1 bs (256 * block) + seg bs (256 * block) (64 * j0))
    by apply rank1_seg.
  assert (Hwin : k - rank1 bs (256 * block + 64 * j0) < seg bs (256 * block + 64 * j0) 64).
  { rewrite Hrank. replace (64 * S j0) with (64 * j0 + 64) in Hbr by lia. rewrite seg_add in Hbr. subst target. lia. }
  destruct (select1_window bs (256 * block + 64 * j0) k) as (Hsel & Hin); [lia|exact Hwin|].
  rewrite se256_scan1_skip.
  - rewrite Hsel. f_equal. unfold LINE256, WPL256. rewrite Hrelc by lia.
    unfold word. rewrite Hbits.
    replace (64 * (block * 4 + j0)) with (256 * block + 64 * j0) by lia.
    replace (target - seg bs (256 * block) (64 * j0)) with (k - rank1 bs (256 * block + 64 * j0)) by (subst target; lia).
    lia.
  - intros j Hj. specialize (Hpre j Hj). rewrite Hrelc by lia.
    assert (seg bs (256 * block) (64 * S j0) <= seg bs (256 * block) (64 * j)) by (apply seg_mono; lia). lia.
  - rewrite Hrelc by lia. lia.
  - rewrite Hnw. unfold WPL256, nwords. lia.
Qed.
End Extra.
