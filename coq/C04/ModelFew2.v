(* C04 mechanism model of the rest of src/succinct/rank_select/few.rs as written:
   - RankSelectFewOne::rank0 (pos - rank1(pos)) and select0 (binary search over positions 0..size for the first
     position with more than k zeros before it; the answer is that position minus one);
   - RankSelectFewZero (the dual): sorted positions of the zero bits, rank0 by partition point (with the assert),
     rank1 = pos - rank0, select0 by index, select1 by the same binary search, get = "not in the list",
     count_ones = size - number of positions.
   partition_point on the sorted list is Model.lower_bound; binary_search(..).is_ok() is membership.
   Not modelled: u32 truncation of positions.  Definitions only. *)
From Coq Require Import List Arith Lia Bool.
From ZV.C04 Require Import Spec Model ModelGen.
Import ListNotations.

(* shared by FewOne::select0 and FewZero::select1:
   let mut lo = 0; let mut hi = size; while lo < hi { mid; if mid - lower_bound(mid) <= k { lo = mid+1 } else { hi = mid } }
   if lo > 0 { Ok(lo - 1) } else { Err } *)
Definition few_other_select (ps : list nat) (sz k : nat) : option nat :=
  if sz - length ps <=? k then None else
  let lo := bsearch mid_avg (fun mid => mid - lower_bound ps mid <=? k) (S sz) 0 sz in
  if 0 <? lo then Some (lo - 1) else None.

Definition few_rank0 (f : fewone) (p : nat) : option nat :=
  match few_rank1 f p with Some r => Some (p - r) | None => None end.
Definition few_select0 (f : fewone) (k : nat) : option nat := few_other_select (positions f) (fsize f) k.
Definition few_count_ones (f : fewone) : nat := length (positions f).

(* from_bitvector: for i in 0..len { if bv.get(i) == Some(false) { positions.push(i) } } *)
Fixpoint positions0_from (bs : list bool) (i : nat) : list nat :=
  match bs with
  | [] => []
  | b :: t => if b then positions0_from t (S i) else i :: positions0_from t (S i)
  end.
Record fewzero := { zpositions : list nat; zsize : nat }.
Definition fz_build (bs : list bool) : fewzero := {| zpositions := positions0_from bs 0; zsize := length bs |}.
Definition fz_rank0 (f : fewzero) (p : nat) : option nat :=
  if zsize f <? p then None else Some (lower_bound (zpositions f) p).
Definition fz_rank1 (f : fewzero) (p : nat) : option nat :=
  match fz_rank0 f p with Some r => Some (p - r) | None => None end.
Definition fz_select0 (f : fewzero) (k : nat) : option nat := nth_error (zpositions f) k.
Definition fz_select1 (f : fewzero) (k : nat) : option nat := few_other_select (zpositions f) (zsize f) k.
Definition fz_get (f : fewzero) (i : nat) : option bool :=
  if zsize f <=? i then None else Some (negb (existsb (Nat.eqb i) (zpositions f))).
Definition fz_count_ones (f : fewzero) : nat := zsize f - length (zpositions f).
