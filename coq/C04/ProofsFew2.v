(* C04: RankSelectFewOne rank0/select0 and RankSelectFewZero (all operations) equal the definition. *)
From Coq Require Import List Arith NArith Lia Bool ZifyBool ZifyNat ZifyN.
From ZV.Common Require Import Base.
From ZV.C04 Require Import Spec Model ModelGen ModelFew2 ProofsRank ProofsSelect ProofsSelect0 ProofsFew ProofsGen.
Import ListNotations.
Ltac Zify.zify_post_hook ::= Z.div_mod_to_equations.
Close Scope N_scope.
Open Scope nat_scope.

Lemma positions_length bs : forall i, length (positions_from bs i) = count1 bs.
Proof.
  induction bs as [|b t IH]; intros i; cbn [positions_from count1 length]; [reflexivity|].
  destruct b; cbn [length]; rewrite IH; reflexivity.
Qed.

Lemma negb_negb_list bs : map negb (map negb bs) = bs.
Proof. induction bs as [|b t IH]; cbn [map]; [reflexivity|]. rewrite IH, Bool.negb_involutive. reflexivity. Qed.

(* the binary search of the "other" select: ps are the positions of the ones of X; the answer is the k-th zero of X *)
Lemma few_other_select_correct X k :
  few_other_select (positions_from X 0) (length X) k = select1 (map negb X) k.
Proof.
  unfold few_other_select. rewrite positions_length.
  set (Z := map negb X).
  assert (HZlen : length Z = length X) by (subst Z; apply map_length).
  assert (Hc0 : count1 Z = length X - count1 X) by apply count1_negb.
  destruct (Nat.leb_spec (length X - count1 X) k) as [Hge|Hlt].
  { destruct (select1 Z k) as [p|] eqn:E; [|reflexivity].
    assert (k < count1 Z) by (apply select1_some_iff; eauto). lia. }
  assert (Hk : k < count1 Z) by lia.
  destruct (select1_lt_count Z k Hk) as (p & Hp & Hplen).
  set (right := fun mid => mid - lower_bound (positions_from X 0) mid <=? k).
  assert (Hr : forall i, i <= length X -> right i = (rank1 Z i <=? k)).
  { intros i Hi. unfold right. pose proof (lower_bound_positions X 0 i) as E. cbn [Nat.add] in E. rewrite E. subst Z. rewrite rank1_negb by exact Hi. reflexivity. }
  destruct (bsearch_spec mid_avg right (length X) mid_avg_between) with (fuel := S (length X)) (lo := 0) (hi := length X)
    as (Hb1 & Hb2 & Hb3); [|lia|lia|intros; lia|intros; lia|].
  { intros i j Hij Hj. rewrite Hr in * by lia. apply Nat.leb_le in Hj. apply Nat.leb_le.
    assert (rank1 Z i <= rank1 Z j) by (apply rank1_mono; lia). lia. }
  set (lo := bsearch mid_avg right (S (length X)) 0 (length X)) in *.
  pose proof (select1_spec Z k p Hp) as (Hpl & Hpb & Hpr).
  assert (Hlo : lo = p + 1).
  { destruct (Nat.lt_trichotomy lo (p + 1)) as [Hl|[He|Hg]]; [exfalso|exact He|exfalso].
    - assert (H : right p = false) by (apply Hb3; lia). rewrite Hr in H by lia. apply Nat.leb_gt in H. lia.
    - assert (H : right (p + 1) = true) by (apply Hb2; lia). rewrite Hr in H by lia. apply Nat.leb_le in H.
      replace (p + 1) with (S p) in H by lia. rewrite rank1_S, Hpb in H. lia. }
  rewrite Hlo. replace (0 <? p + 1) with true by (symmetry; apply Nat.ltb_lt; lia).
  rewrite Hp. f_equal. lia.
Qed.

(* ---- FewOne: rank0, select0, count_ones ---- *)
Theorem few_rank0_correct_proof bs p :
  few_rank0 (few_build bs) p = if length bs <? p then None else Some (rank0 bs p).
Proof.
  unfold few_rank0. rewrite few_rank1_correct_proof.
  destruct (Nat.ltb_spec (length bs) p) as [|Hle]; [reflexivity|].
  pose proof (rank0_rank1 bs p Hle). f_equal. lia.
Qed.

Theorem few_select0_correct_proof bs k : few_select0 (few_build bs) k = select0 bs k.
Proof. unfold few_select0, few_build. cbn [positions fsize]. apply few_other_select_correct. Qed.

Theorem few_count_ones_proof bs : few_count_ones (few_build bs) = count1 bs /\ fsize (few_build bs) = length bs.
Proof. unfold few_count_ones, few_build. cbn [positions fsize]. split; [apply positions_length|reflexivity]. Qed.

(* ---- FewZero is FewOne of the negated list ---- *)
Lemma positions0_negb bs : forall i, positions0_from bs i = positions_from (map negb bs) i.
Proof.
  induction bs as [|b t IH]; intros i; cbn [positions0_from positions_from map]; [reflexivity|].
  destruct b; cbn [negb]; rewrite IH; reflexivity.
Qed.

Lemma rank1_negb_rank0 bs p : rank1 (map negb bs) p = rank0 bs p.
Proof. unfold rank1, rank0. rewrite firstn_map. reflexivity. Qed.

Theorem fz_rank0_correct_proof bs p :
  fz_rank0 (fz_build bs) p = if length bs <? p then None else Some (rank0 bs p).
Proof.
  unfold fz_rank0, fz_build. cbn [zsize zpositions]. destruct (length bs <? p); [reflexivity|].
  f_equal. rewrite positions0_negb. pose proof (lower_bound_positions (map negb bs) 0 p) as E. cbn [Nat.add] in E. rewrite E. apply rank1_negb_rank0.
Qed.

Theorem fz_rank1_correct_proof bs p :
  fz_rank1 (fz_build bs) p = if length bs <? p then None else Some (rank1 bs p).
Proof.
  unfold fz_rank1. rewrite fz_rank0_correct_proof.
  destruct (Nat.ltb_spec (length bs) p) as [|Hle]; [reflexivity|].
  pose proof (rank0_rank1 bs p Hle). f_equal. lia.
Qed.

Theorem fz_select0_correct_proof bs k : fz_select0 (fz_build bs) k = select0 bs k.
Proof.
  unfold fz_select0, fz_build, select0. cbn [zpositions]. rewrite positions0_negb, nth_error_positions.
  destruct (select1 (map negb bs) k); reflexivity.
Qed.

Theorem fz_select1_correct_proof bs k : fz_select1 (fz_build bs) k = select1 bs k.
Proof.
  unfold fz_select1, fz_build. cbn [zpositions zsize]. rewrite positions0_negb.
  rewrite <- (map_length negb bs). rewrite few_other_select_correct, negb_negb_list. reflexivity.
Qed.

Theorem fz_get_correct_proof bs i :
  fz_get (fz_build bs) i = if length bs <=? i then None else Some (nth i bs false).
Proof.
  unfold fz_get, fz_build. cbn [zsize zpositions]. destruct (Nat.leb_spec (length bs) i) as [|Hlt]; [reflexivity|].
  f_equal. rewrite positions0_negb. pose proof (existsb_positions (map negb bs) 0 i) as E. cbn [Nat.add] in E. rewrite E.
  rewrite <- (Bool.negb_involutive (nth i bs false)). f_equal.
  change false with (negb true) at 1. rewrite map_nth.
  rewrite (nth_indep bs true false) by exact Hlt. reflexivity.
Qed.

Theorem fz_count_ones_proof bs : fz_count_ones (fz_build bs) = count1 bs /\ zsize (fz_build bs) = length bs.
Proof.
  unfold fz_count_ones, fz_build. cbn [zsize zpositions]. split; [|reflexivity].
  rewrite positions0_negb, positions_length, count1_negb. pose proof (count1_le bs). lia.
Qed.
