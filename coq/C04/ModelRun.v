(* C04 correspondence runner: evaluates every modelled structure on one bit string and a list of queries.
   Bits are given run-length encoded; a query is (op, arg); the observation is a Z, -1 for None/Err.
   op 0..10: as in Model.run_queries (SE512 rank1 rank0 select1 select0 get, FewOne rank1 select1 get,
             interleaved-256 rank1 rank0 get);
   op 11 interleaved-256 select1 (select cache on, the given sample rate), 12 interleaved-256 select0,
      13 interleaved-256 select1 with the select cache disabled,
      14 select1_hardware_accelerated, 15 select1_adaptive (cache on), 16 select1_optimized (cache off),
      17 select1_bulk(&[k]) (cache on), 18 select1_bulk_optimized(&[0, k]) (cache off; the answer for k).
   Definitions only. *)
From Coq Require Import List Arith NArith ZArith Bool.
From ZV.C04 Require Import Spec Model ModelIL ModelGen ModelILSel.
Import ListNotations.

Definition run_queries2 (bs : list bool) (sp0 sp1 : bool) (rate : N) (qs : list (N * N)) : list Z :=
  let s := build bs sp0 sp1 in
  let f := few_build bs in
  let il := il_build bs in
  let ila := ils_build bs true (N.to_nat rate) in
  let ilb := ils_build bs false (N.to_nat rate) in
  map (fun '(op, a) =>
    let n := N.to_nat a in
    match op with
    | 0 => obs (se_rank1 s n)
    | 1 => obs (se_rank0 s n)
    | 2 => obs (se_select1 s n)
    | 3 => obs (se_select0 s n)
    | 4 => obsb (se_get s n)
    | 5 => obs (few_rank1 f n)
    | 6 => obs (few_select1 f n)
    | 7 => obsb (few_get f n)
    | 8 => Z.of_nat (il_rank1 il n)
    | 9 => Z.of_nat (il_rank0 il n)
    | 10 => obsb (il_get il n)
    | 11 => obs (ils_select1 ila n)
    | 12 => obs (ils_select0 ila n)
    | 13 => obs (ils_select1 ilb n)
    | 14 => obs (ils_select1 ila n)
    | 15 => obs (ils_select1 ila n)
    | 16 => obs (ils_select1 ilb n)
    | 17 => obs (option_map (fun l => nth O l O) (ils_select1_bulk ila [n]))
    | 18 => obs (option_map (fun l => nth (S O) l O) (ils_select1_bulk ilb [O; n]))
    | _ => (-9)%Z
    end%N) qs.
