(* C04 correspondence runner: evaluates every modelled structure on one bit string and a list of queries, and the
   BitVector state machine on an operation history.
   Bits are given run-length encoded; `extra` = number of storage words beyond ceil(len/64) (all zero: left behind by pop); a query is (op, arg); the observation is a Z, -1 for None/Err.
   op 0..10: as in Model.run_queries (SE512 rank1 rank0 select1 select0 get, FewOne rank1 select1 get,
             interleaved-256 rank1 rank0 get);
   op 11 interleaved-256 select1 (select cache on, the given sample rate), 12 interleaved-256 select0,
      13 interleaved-256 select1 with the select cache disabled,
      14 select1_hardware_accelerated, 15 select1_adaptive (cache on), 16 select1_optimized (cache off),
      17 select1_bulk(&[k]) (cache on), 18 select1_bulk_optimized(&[0, k]) (cache off; the answer for k);
   op 20..24 SE256 rank1 rank0 select1 select0 get (the same two select-cache flags as SE512);
   op 30..34 Simple rank1 rank0 select1 select0 get;
   op 40..44 FewZero rank1 rank0 select1 select0 get; 45 FewOne rank0, 46 FewOne select0;
   op 50..55 count_ones of SE512, SE256, Simple, FewZero, FewOne, interleaved-256 (argument ignored);
   op 56..59 interleaved-256 rank1_hardware_accelerated, rank1_adaptive, rank1_optimized, rank1_bulk(&[p])[0];
   op 60..65 AdaptiveRankSelect rank1 rank0 select1 select0 get count_ones;
   op 70..74 RankSelectMixedIL256 with this string as dimension 0 and a second dimension of `olen` bits: rank1 rank0
             select1 get count_ones of dim0; 75..79 the same with this string as dimension 1;
   op 80..85 RankSelectAllZero(len) rank1 rank0 select1 select0 get count_ones; 86..91 RankSelectAllOne(len);
   op 92..95 MultiDimRankSelect<2> over [this string; its negation]: bulk_rank_multidim([p, p])[0] and [1],
             bulk_select_multidim([k, 0])[0] and ([0, k])[1] (-1 when the call fails).
   Definitions only. *)
From Coq Require Import List Arith NArith ZArith Bool.
From ZV.Common Require Import Run.
From ZV.C04 Require Import Spec Model ModelIL ModelGen ModelILSel ModelSE256 ModelSimple ModelFew2 ModelBV ModelTrivial ModelMixed.
Import ListNotations.

Definition run_queries2 (bs : list bool) (sp0 sp1 : bool) (rate olen extra : N) (qs : list (N * N)) : list Z :=
  let s := build bs sp0 sp1 in
  let f := few_build bs in
  let il := il_build bs in
  let ila := ils_build bs true (N.to_nat rate) in
  let ilb := ils_build bs false (N.to_nat rate) in
  let ex := N.to_nat extra in
  let s2 := se256_build bs ex sp0 sp1 in
  let sm := simple_build bs ex in
  let fz := fz_build bs in
  let ad := adaptive_build bs in
  let mx := mx_build bs ex (N.to_nat olen) in
  let sz := length bs in
  let md := md_build [bs; map negb bs] in
  let md_rank := fun (i p : nat) => match md with Some m => Z.of_nat (nth i (md_bulk_rank m [p; p]) O) | None => (-1)%Z end in
  let md_sel := fun (i : nat) (ks : list nat) =>
    match md with Some m => obs (option_map (fun l => nth i l O) (md_bulk_select m ks)) | None => (-1)%Z end in
  map (fun '(op, a) =>
    let n := N.to_nat a in
    match op with
    | 0 => obs (se_rank1 s n)
    | 1 => obs (se_rank0 s n)
    | 2 => obs (se_select1 s n)
    | 3 => obs (se_select0 s n)
    | 4 => obsb (se_get s n)
    | 5 => obs (few_rank1 f n)
    | 6 => obs (few_select1 f n)
    | 7 => obsb (few_get f n)
    | 8 => Z.of_nat (il_rank1 il n)
    | 9 => Z.of_nat (il_rank0 il n)
    | 10 => obsb (il_get il n)
    | 11 => obs (ils_select1 ila n)
    | 12 => obs (ils_select0 ila n)
    | 13 => obs (ils_select1 ilb n)
    | 14 => obs (ils_select1 ila n)
    | 15 => obs (ils_select1 ila n)
    | 16 => obs (ils_select1 ilb n)
    | 17 => obs (option_map (fun l => nth O l O) (ils_select1_bulk ila [n]))
    | 18 => obs (option_map (fun l => nth (S O) l O) (ils_select1_bulk ilb [O; n]))
    | 20 => obs (se256_rank1 s2 n)
    | 21 => obs (se256_rank0 s2 n)
    | 22 => obs (se256_select1 s2 n)
    | 23 => obs (se256_select0 s2 n)
    | 24 => obsb (se256_get s2 n)
    | 30 => obs (simple_rank1 sm n)
    | 31 => obs (simple_rank0 sm n)
    | 32 => obs (simple_select1 sm n)
    | 33 => obs (simple_select0 sm n)
    | 34 => obsb (simple_get sm n)
    | 40 => obs (fz_rank1 fz n)
    | 41 => obs (fz_rank0 fz n)
    | 42 => obs (fz_select1 fz n)
    | 43 => obs (fz_select0 fz n)
    | 44 => obsb (fz_get fz n)
    | 45 => obs (few_rank0 f n)
    | 46 => obs (few_select0 f n)
    | 50 => Z.of_nat (max_rank1 s)
    | 51 => Z.of_nat (mr1_256 s2)
    | 52 => Z.of_nat (sm_mr1 sm)
    | 53 => Z.of_nat (fz_count_ones fz)
    | 54 => Z.of_nat (few_count_ones f)
    | 55 => Z.of_nat (il_ones il)
    | 56 => Z.of_nat (il_rank1 il n)
    | 57 => Z.of_nat (il_rank1 il n)
    | 58 => Z.of_nat (il_rank1 il n)
    | 59 => Z.of_nat (il_rank1 il n)
    | 60 => Z.of_nat (adaptive_rank1 ad n)
    | 61 => Z.of_nat (adaptive_rank0 ad n)
    | 62 => obs (adaptive_select1 ad n)
    | 63 => obs (adaptive_select0 ad n)
    | 64 => obsb (adaptive_get ad n)
    | 65 => Z.of_nat (adaptive_count_ones ad)
    | 70 => obs (mx_rank1 mx n)
    | 71 => obs (mx_rank0 mx n)
    | 72 => obs (mx_select1 mx n)
    | 73 => obsb (mx_get mx n)
    | 74 => Z.of_nat (mx_max_rank1 mx)
    | 75 => obs (mx_rank1 mx n)
    | 76 => obs (mx_rank0 mx n)
    | 77 => obs (mx_select1 mx n)
    | 78 => obsb (mx_get mx n)
    | 79 => Z.of_nat (mx_max_rank1 mx)
    | 80 => obs (az_rank1 sz n)
    | 81 => obs (az_rank0 sz n)
    | 82 => obs (az_select1 sz n)
    | 83 => obs (az_select0 sz n)
    | 84 => obsb (az_get sz n)
    | 85 => Z.of_nat (az_count_ones sz)
    | 86 => obs (ao_rank1 sz n)
    | 87 => obs (ao_rank0 sz n)
    | 88 => obs (ao_select1 sz n)
    | 89 => obs (ao_select0 sz n)
    | 90 => obsb (ao_get sz n)
    | 91 => Z.of_nat (ao_count_ones sz)
    | 92 => md_rank O n
    | 93 => md_rank (S O) n
    | 94 => md_sel O [n; O]
    | 95 => md_sel (S O) [O; n]
    | _ => (-9)%Z
    end%N) qs.

(* one generated case: either a bit string with queries, or a BitVector history
   (start: new or with_size(n, v); ops (opcode, index, bit); expected observations, final blocks(), final len()) *)
Inductive c04case :=
  | RS (runs : list (bool * N)) (sp0 sp1 : bool) (rate olen extra : N) (qs : list (N * N)) (expect : list Z)
  | BV (init_size : N) (init_val use_init : bool) (ops : list (N * N * N))
       (expect : list Z) (expect_blocks : list N) (expect_len : N).

Definition case_ok (c : c04case) : bool :=
  match c with
  | RS runs sp0 sp1 rate olen extra qs expect => eqb_lz (run_queries2 (expand runs) sp0 sp1 rate olen extra qs) expect
  | BV n v u ops expect eb el =>
      let '(o, bl, ln) := bv_run_case n v u ops in
      eqb_lz o expect && eqb_ln bl eb && N.eqb ln el
  end.
