(* C04: RankSelectAllZero / RankSelectAllOne equal the definition on the all-zero / all-one bit list; AdaptiveRankSelect
   and the multi-dimensional wrappers forward to interleaved-256 and inherit its theorems. *)
From Coq Require Import List Arith NArith Lia Bool ZifyBool ZifyNat ZifyN.
From ZV.Common Require Import Base.
From ZV.C04 Require Import Spec Model ModelIL ModelGen ModelILSel ModelTrivial ProofsRank ProofsSelect ProofsSelect0 ProofsIL ProofsGen ProofsILSel.
Import ListNotations.
Ltac Zify.zify_post_hook ::= Z.div_mod_to_equations.
Close Scope N_scope.
Open Scope nat_scope.

Lemma rank1_repeat_false n p : rank1 (repeat false n) p = 0.
Proof. unfold rank1. rewrite firstn_repeat. apply count1_repeat_false. Qed.
Lemma rank1_repeat_true n p : rank1 (repeat true n) p = Nat.min p n.
Proof. unfold rank1. rewrite firstn_repeat. apply count1_repeat_true. Qed.
Lemma map_negb_repeat b n : map negb (repeat b n) = repeat (negb b) n.
Proof. induction n as [|n IH]; cbn [repeat map]; [reflexivity|]. rewrite IH. reflexivity. Qed.
Lemma rank0_repeat b n p : rank0 (repeat b n) p = rank1 (repeat (negb b) n) p.
Proof. unfold rank0, rank1. rewrite <- firstn_map, map_negb_repeat. reflexivity. Qed.
Lemma select1_repeat_true n : forall k, select1 (repeat true n) k = if k <? n then Some k else None.
Proof.
  induction n as [|n IH]; intros k; cbn [repeat select1]; [reflexivity|].
  destruct k as [|k]; [reflexivity|]. rewrite IH.
  change (S k <? S n) with (k <? n). destruct (k <? n); reflexivity.
Qed.
Lemma select1_repeat_false n k : select1 (repeat false n) k = None.
Proof.
  destruct (select1 (repeat false n) k) as [p|] eqn:E; [|reflexivity].
  assert (H : k < count1 (repeat false n)) by (apply select1_some_iff; eauto).
  rewrite count1_repeat_false in H. lia.
Qed.
Lemma nth_repeat_lt {A} (x d : A) n i : i < n -> nth i (repeat x n) d = x.
Proof. revert i; induction n as [|n IH]; intros i Hi; [lia|]. destruct i as [|i]; cbn [repeat nth]; [reflexivity|]. apply IH. lia. Qed.

Theorem allzero_correct_proof n p k i :
  az_rank1 n p = (if n <? p then None else Some (rank1 (repeat false n) p)) /\
  az_rank0 n p = (if n <? p then None else Some (rank0 (repeat false n) p)) /\
  az_select1 n k = select1 (repeat false n) k /\
  az_select0 n k = select0 (repeat false n) k /\
  az_get n i = (if n <=? i then None else Some (nth i (repeat false n) false)) /\
  az_count_ones n = count1 (repeat false n).
Proof.
  unfold az_rank1, az_rank0, az_select1, az_select0, az_get, az_count_ones, select0.
  rewrite rank1_repeat_false, rank0_repeat, rank1_repeat_true, select1_repeat_false, map_negb_repeat,
          select1_repeat_true, count1_repeat_false. cbn [negb].
  repeat split.
  - destruct (Nat.ltb_spec n p); [reflexivity|]. f_equal. lia.
  - destruct (Nat.ltb_spec i n) as [Hl|Hg].
    + replace (n <=? i) with false by (symmetry; apply Nat.leb_gt; lia). rewrite nth_repeat_lt by exact Hl. reflexivity.
    + replace (n <=? i) with true by (symmetry; apply Nat.leb_le; lia). reflexivity.
Qed.

Theorem allone_correct_proof n p k i :
  ao_rank1 n p = (if n <? p then None else Some (rank1 (repeat true n) p)) /\
  ao_rank0 n p = (if n <? p then None else Some (rank0 (repeat true n) p)) /\
  ao_select1 n k = select1 (repeat true n) k /\
  ao_select0 n k = select0 (repeat true n) k /\
  ao_get n i = (if n <=? i then None else Some (nth i (repeat true n) false)) /\
  ao_count_ones n = count1 (repeat true n).
Proof.
  unfold ao_rank1, ao_rank0, ao_select1, ao_select0, ao_get, ao_count_ones, select0.
  rewrite rank1_repeat_true, rank0_repeat, rank1_repeat_false, select1_repeat_true, map_negb_repeat,
          select1_repeat_false, count1_repeat_true. cbn [negb].
  repeat split.
  - destruct (Nat.ltb_spec n p); [reflexivity|]. f_equal. lia.
  - destruct (Nat.ltb_spec i n) as [Hl|Hg].
    + replace (n <=? i) with false by (symmetry; apply Nat.leb_gt; lia). rewrite nth_repeat_lt by exact Hl. reflexivity.
    + replace (n <=? i) with true by (symmetry; apply Nat.leb_le; lia). reflexivity.
Qed.

(* ---- adaptive: whatever the analysis says, the structure is interleaved-256 and every call forwards ---- *)
Theorem adaptive_correct_proof bs p k i :
  adaptive_rank1 (adaptive_build bs) p = rank1 bs (Nat.min p (length bs)) /\
  adaptive_rank0 (adaptive_build bs) p = rank0 bs (Nat.min p (length bs)) /\
  adaptive_select1 (adaptive_build bs) k = select1 bs k /\
  adaptive_select0 (adaptive_build bs) k = select0 bs k /\
  adaptive_get (adaptive_build bs) i = (if length bs <=? i then None else Some (nth i bs false)) /\
  adaptive_count_ones (adaptive_build bs) = count1 bs /\ adaptive_len (adaptive_build bs) = length bs.
Proof.
  unfold adaptive_rank1, adaptive_rank0, adaptive_select1, adaptive_select0, adaptive_get, adaptive_count_ones,
         adaptive_len, adaptive_build.
  rewrite ils_select1_correct_proof, ils_select0_correct_proof.
  unfold ils_build. cbn [ils].
  rewrite il_rank1_correct_proof, il_rank0_correct_proof, il_get_correct_proof.
  destruct (il_count_ones_proof bs) as [H1 H2]. rewrite H1, H2. repeat split; reflexivity.
Qed.

(* ---- multi-dimensional: one interleaved-256 per dimension ---- *)
Definition md_rank_spec (total : nat) (bvs : list (list bool)) (positions : list nat) : list nat :=
  map (fun '(bs, p) => if p <=? total then rank1 bs p else 0) (combine bvs positions).
Fixpoint md_select_spec (bvs : list (list bool)) (ranks : list nat) : option (list nat) :=
  match bvs, ranks with
  | bs :: bvs', r :: rs' =>
      match select1 bs r with
      | None => None
      | Some p => match md_select_spec bvs' rs' with None => None | Some l => Some (p :: l) end
      end
  | _, _ => Some []
  end.

Lemma forallb_same_length (bvs : list (list bool)) n :
  forallb (fun b => length b =? n) bvs = true -> forall b, In b bvs -> length b = n.
Proof.
  intros H b Hb. rewrite forallb_forall in H. specialize (H b Hb). apply Nat.eqb_eq. exact H.
Qed.

Lemma md_rank_go total : forall bvs positions,
  (forall b, In b bvs -> length b = total) ->
  map (fun '(d, p) => if p <=? total then il_rank1 (ils d) p else 0) (combine (map adaptive_build bvs) positions) =
  md_rank_spec total bvs positions.
Proof.
  unfold md_rank_spec. induction bvs as [|bs t IH]; intros positions Hlen; [reflexivity|].
  destruct positions as [|p ps]; [reflexivity|]. cbn [map combine].
  rewrite IH by (intros b Hb; apply Hlen; right; exact Hb). f_equal.
  destruct (Nat.leb_spec p total) as [Hp|]; [|reflexivity].
  unfold adaptive_build, ils_build. cbn [ils]. rewrite il_rank1_correct_proof.
  rewrite Nat.min_l by (rewrite (Hlen bs) by (left; reflexivity); exact Hp). reflexivity.
Qed.

Lemma md_select_go_spec : forall bvs ranks,
  md_select_go (map adaptive_build bvs) ranks = md_select_spec bvs ranks.
Proof.
  induction bvs as [|bs t IH]; intros ranks; [reflexivity|].
  destruct ranks as [|r rs]; [reflexivity|]. cbn [map md_select_go md_select_spec].
  unfold adaptive_build at 1. rewrite ils_select1_correct_proof, IH. reflexivity.
Qed.

Theorem multidim_correct_proof bvs m positions ranks :
  md_build bvs = Some m ->
  md_bulk_rank m positions = md_rank_spec (md_total_bits m) bvs positions /\
  md_bulk_select m ranks = md_select_spec bvs ranks /\
  (forall b, In b bvs -> length b = md_total_bits m).
Proof.
  unfold md_build. destruct bvs as [|b0 rest]; [discriminate|].
  set (bvs := b0 :: rest) in *. clearbody bvs.
  destruct (forallb (fun b => length b =? length b0) bvs) eqn:Hall; [|discriminate].
  intros H. inversion H; subst m. clear H.
  pose proof (forallb_same_length _ _ Hall) as Hlen.
  unfold md_bulk_rank, md_bulk_select. cbn [md_total_bits md_dims].
  split; [apply md_rank_go; exact Hlen|]. split; [apply md_select_go_spec|exact Hlen].
Qed.
