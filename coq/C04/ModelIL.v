(* C04 mechanism model of RankSelectInterleaved256 (src/succinct/rank_select/interleaved.rs) as written:
   256-bit lines, each with rlev1 (cumulative ones before the line, u32), rlev2[4] (ones before each
   64-bit word inside the line, stored as u8 = `line_rank as u8`) and the four data words; rank1 clamps the
   position to the length, uses total_ones past the last line.  A data word is the window of the bit list
   that extract_word_from_blocks returns for a 64-aligned start (its "simple case"; the shift/mask code is
   not modelled, the differential check covers it).  Not modelled: u32 wrap of rlev1 (>= 2^32 ones).
   Definitions only. *)
From Coq Require Import List Arith Lia Bool.
From ZV.C04 Require Import Spec.
Import ListNotations.

Record il_line := { rlev1 : nat; rlev2 : list nat; w64 : list (list bool) }.

(* for word_idx in 0..4 *)
Fixpoint il_words (bs : list bool) (total line_start line_end : nat) (ws : list nat) (line_rank : nat)
  : list nat * list (list bool) * nat :=
  match ws with
  | [] => ([], [], line_rank)
  | w :: t =>
      let s := line_start + w * 64 in
      let e := Nat.min (s + 64) line_end in
      let word := if s <? total then firstn (e - s) (skipn s bs) else [] in
      let '(r2, wd, r) := il_words bs total line_start line_end t (line_rank + count1 word) in
      ((line_rank mod 256) :: r2, word :: wd, r)      (* `line_rank as u8` *)
  end.

Fixpoint il_lines (bs : list bool) (total n i cum : nat) : list il_line * nat :=
  match n with
  | O => ([], cum)
  | S n' =>
      let line_start := i * 256 in
      let line_end := Nat.min ((i + 1) * 256) total in
      let '(r2, wd, r) := il_words bs total line_start line_end [0; 1; 2; 3] 0 in
      let '(rest, tot) := il_lines bs total n' (S i) (cum + r) in
      ({| rlev1 := cum; rlev2 := r2; w64 := wd |} :: rest, tot)
  end.

Record il256 := { il_bits : nat; il_ones : nat; il_ls : list il_line }.

Definition il_build (bs : list bool) : il256 :=
  let total := length bs in
  if total =? 0 then {| il_bits := 0; il_ones := 0; il_ls := [] |}
  else let '(ls, tot) := il_lines bs total ((total + 255) / 256) 0 0 in
       {| il_bits := total; il_ones := tot; il_ls := ls |}.

Definition il_dflt : il_line := {| rlev1 := 0; rlev2 := []; w64 := [] |}.

Definition il_rank1_within_line (l : il_line) (bit_offset : nat) : nat :=
  let word_idx := bit_offset / 64 in
  let bit_in_word := bit_offset mod 64 in
  let rank := nth word_idx (rlev2 l) 0 in
  if 0 <? bit_in_word then rank + count1 (firstn bit_in_word (nth word_idx (w64 l) [])) else rank.

Definition il_rank1 (s : il256) (pos : nat) : nat :=
  if (pos =? 0) || (il_bits s =? 0) then 0 else
  let pos := Nat.min pos (il_bits s) in
  let line_idx := pos / 256 in
  if length (il_ls s) <=? line_idx then il_ones s else
  let l := nth line_idx (il_ls s) il_dflt in
  rlev1 l + il_rank1_within_line l (pos mod 256).

Definition il_rank0 (s : il256) (pos : nat) : nat :=
  if (pos =? 0) || (il_bits s =? 0) then 0 else
  let pos := Nat.min pos (il_bits s) in pos - il_rank1 s pos.

Definition il_get (s : il256) (i : nat) : option bool :=
  if il_bits s <=? i then None else
  let l := nth (i / 256) (il_ls s) il_dflt in
  Some (nth ((i mod 256) mod 64) (nth ((i mod 256) / 64) (w64 l) []) false).
