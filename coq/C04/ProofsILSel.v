(* C04: RankSelectInterleaved256 select1 (with any select cache / sample rate, and without a cache) and select0
   return the position of the k-th one / zero for every bit list and every k, and refuse exactly when k is not
   below the number of ones / zeros. *)
From Coq Require Import List Arith NArith Lia Bool ZifyBool ZifyNat ZifyN.
From ZV.Common Require Import Base.
From ZV.C04 Require Import Spec Model ModelIL ModelGen ModelILSel ProofsRank ProofsSelect ProofsSelect0 ProofsIL ProofsGen.
Import ListNotations.
Ltac Zify.zify_post_hook ::= Z.div_mod_to_equations.
Close Scope N_scope.
Open Scope nat_scope.

(* ---- what il_build produces ---- *)
Lemma il_lines_w64 bs : forall n i cum,
  let '(lines, _) := il_lines bs (length bs) n i cum in
  forall k, k < n ->
    w64 (nth k lines il_dflt) =
    [il_word bs (256 * (i + k)) 0; il_word bs (256 * (i + k)) 1; il_word bs (256 * (i + k)) 2; il_word bs (256 * (i + k)) 3].
Proof.
  induction n as [|n IH]; intros i cum; cbn [il_lines].
  - intros k Hk. lia.
  - replace (i * 256) with (256 * i) by lia. replace ((i + 1) * 256) with (256 * i + 256) by lia.
    pose proof (il_words_unfold bs (256 * i)) as Hl. cbv zeta in Hl. rewrite Hl.
    specialize (IH (S i) (cum + seg bs (256 * i) (64 * 4))).
    destruct (il_lines bs (length bs) n (S i) (cum + seg bs (256 * i) (64 * 4))) as [rest total].
    intros k Hk. destruct k as [|k].
    + cbn [nth w64]. replace (i + 0) with i by lia. reflexivity.
    + cbn [nth]. replace (i + S k) with (S i + k) by lia. apply IH. lia.
Qed.

Definition il_nl (bs : list bool) : nat := (length bs + 255) / 256.

Lemma il_build_spec bs :
  let s := il_build bs in
  il_bits s = length bs /\ il_ones s = count1 bs /\ length (il_ls s) = il_nl bs /\
  forall k, k < il_nl bs ->
    let l := nth k (il_ls s) il_dflt in
    rlev1 l = rank1 bs (256 * k) /\
    w64 l = [il_word bs (256 * k) 0; il_word bs (256 * k) 1; il_word bs (256 * k) 2; il_word bs (256 * k) 3].
Proof.
  cbv zeta. pose proof (il_count_ones_proof bs) as [Hones Hbits].
  split; [exact Hbits|]. split; [exact Hones|].
  unfold il_nl. clear Hones Hbits. unfold il_build. destruct (Nat.eqb_spec (length bs) 0) as [H0|H0].
  { cbn [il_ls length]. rewrite H0. split; [reflexivity|]. intros k Hk. cbn in Hk. lia. }
  pose proof (il_lines_spec bs ((length bs + 255) / 256) 0 0 eq_refl) as Hb.
  pose proof (il_lines_w64 bs ((length bs + 255) / 256) 0 0) as Hw.
  destruct (il_lines bs (length bs) ((length bs + 255) / 256) 0 0) as [lines tot].
  destruct Hb as (Hlen & _ & Hk). cbn [il_ls Nat.add] in *.
  split; [exact Hlen|]. intros k Hlt. destruct (Hk k Hlt) as (H1 & _ & _). split; [exact H1|]. apply Hw. exact Hlt.
Qed.

Lemma il_nl_bounds bs : 256 * il_nl bs >= length bs /\ (length bs > 0 -> 256 * (il_nl bs - 1) < length bs).
Proof. unfold il_nl. split; [|intros]; lia. Qed.

(* the stored word is the 64-bit window of the list (empty past the end) *)
Lemma il_word_is_word bs line j : j <= 3 -> il_word bs (256 * line) j = word bs (line * 4 + j).
Proof.
  intros Hj. unfold word. replace (64 * (line * 4 + j)) with (256 * line + j * 64) by lia.
  destruct (il_word_window bs (256 * line) j Hj) as [E|[Hge E]]; rewrite E; [reflexivity|].
  rewrite skipn_all2 by exact Hge. rewrite firstn_nil. reflexivity.
Qed.

Lemma il_get_bit_internal_correct bs pos :
  il_get_bit_internal (il_build bs) (N.of_nat (length bs)) pos = nth (N.to_nat pos) bs false.
Proof.
  destruct (il_build_spec bs) as (Hbits & _ & Hlen & Hk).
  unfold il_get_bit_internal. rewrite Hlen.
  destruct (N.leb_spec (N.of_nat (length bs)) pos) as [Hge|Hlt]; [rewrite nth_overflow by lia; reflexivity|].
  pose proof (il_nl_bounds bs) as [Hn1 _].
  set (q := N.to_nat pos).
  assert (Hq : q < length bs) by lia.
  replace (N.to_nat (pos / 256)%N) with (q / 256) by (subst q; lia).
  replace (N.to_nat (pos mod 256)%N) with (q mod 256) by (subst q; lia).
  assert (Hin : q / 256 < il_nl bs) by lia.
  replace (q / 256 <? il_nl bs) with true by (symmetry; apply Nat.ltb_lt; exact Hin).
  destruct (Hk (q / 256) Hin) as (_ & Hw).
  unfold il_line_get_bit. rewrite Hw.
  assert (Hj : q mod 256 / 64 <= 3) by lia.
  replace (q mod 256 / 64 <? 4) with true by (symmetry; apply Nat.ltb_lt; lia).
  assert (Hnth : nth (q mod 256 / 64)
            [il_word bs (256 * (q / 256)) 0; il_word bs (256 * (q / 256)) 1;
             il_word bs (256 * (q / 256)) 2; il_word bs (256 * (q / 256)) 3] [] =
          il_word bs (256 * (q / 256)) (q mod 256 / 64)).
  { destruct (q mod 256 / 64) as [|[|[|[|j]]]]; try reflexivity. lia. }
  rewrite Hnth, il_word_is_word by exact Hj.
  unfold word. rewrite nth_firstn by lia. rewrite nth_skipn. f_equal. lia.
Qed.

(* ---- the linear search ---- *)
Lemma il_linear_spec bs k : forall fuel start,
  rank1 bs (N.to_nat start) <= k ->
  il_linear (il_build bs) (N.of_nat (length bs)) (N.of_nat k + 1) fuel start (N.of_nat (rank1 bs (N.to_nat start))) =
  match select1 bs k with Some p => if p <? N.to_nat start + fuel then Some (N.of_nat p) else None | None => None end.
Proof.
  induction fuel as [|n IH]; intros start Hr.
  - cbn [il_linear]. destruct (select1 bs k) as [p|] eqn:E; [|reflexivity].
    destruct (Nat.ltb_spec p (N.to_nat start + 0)) as [Hlt|]; [|reflexivity]. exfalso.
    assert (k < rank1 bs (N.to_nat start)) by (eapply select1_rank_gt; [exact E|lia]). lia.
  - cbn [il_linear]. rewrite il_get_bit_internal_correct.
    set (st := N.to_nat start) in *.
    assert (Hsucc : N.to_nat (N.succ start) = S st) by (subst st; lia).
    pose proof (rank1_S bs st) as HS.
    destruct (nth st bs false) eqn:Eb.
    + destruct (N.eqb_spec (N.succ (N.of_nat (rank1 bs st))) (N.of_nat k + 1)) as [Heq|Hne].
      * assert (Hsel : select1 bs k = Some st).
        { apply select1_unique; [apply nth_true_lt; exact Eb|exact Eb|lia]. }
        rewrite Hsel. replace (st <? st + S n) with true by (symmetry; apply Nat.ltb_lt; lia).
        f_equal. subst st. lia.
      * replace (N.succ (N.of_nat (rank1 bs st))) with (N.of_nat (rank1 bs (N.to_nat (N.succ start)))) by (rewrite Hsucc; lia).
        rewrite IH by (rewrite Hsucc; lia). rewrite Hsucc. replace (S st + n) with (st + S n) by lia. reflexivity.
    + replace (N.of_nat (rank1 bs st)) with (N.of_nat (rank1 bs (N.to_nat (N.succ start)))) by (rewrite Hsucc; f_equal; lia).
      rewrite IH by (rewrite Hsucc; lia). rewrite Hsucc. replace (S st + n) with (st + S n) by lia. reflexivity.
Qed.

Lemma il_linear_search_spec bs k start stop :
  rank1 bs (N.to_nat start) <= k ->
  il_linear_search (il_build bs) (N.of_nat (length bs)) start stop (N.of_nat k + 1) =
  match select1 bs k with
  | Some p => if p <? N.to_nat start + N.to_nat (stop - start) then Some (N.of_nat p) else None
  | None => None
  end.
Proof.
  intros Hr. unfold il_linear_search. rewrite il_rank1_correct_proof, rank1_min. apply il_linear_spec. exact Hr.
Qed.

(* whatever the hint is, select1_from_hint finds the k-th one *)
Lemma il_select1_from_hint_correct bs k hint : k < count1 bs ->
  option_map N.to_nat (il_select1_from_hint (il_build bs) (N.of_nat (length bs)) k hint) = select1 bs k.
Proof.
  intros Hk. destruct (select1_lt_count bs k Hk) as (p & Hp & Hlen).
  unfold il_select1_from_hint. rewrite il_rank1_correct_proof, rank1_min.
  set (h := N.to_nat hint).
  replace (N.to_nat (hint + 1)) with (h + 1) by (subst h; lia).
  destruct (N.leb_spec (N.of_nat k + 1) (N.of_nat (rank1 bs (h + 1)))) as [Hhi|Hlo].
  - rewrite il_linear_search_spec by (change (N.to_nat 0) with 0; unfold rank1; cbn [firstn count1]; lia). rewrite Hp.
    destruct (Nat.ltb_spec p (N.to_nat 0 + N.to_nat (hint + 1 - 0))) as [|Hge].
    + cbn [option_map]. f_equal. lia.
    + exfalso. assert (rank1 bs (h + 1) <= k) by (eapply select1_rank_lt; [exact Hp|subst h; lia]). lia.
  - assert (Hh : rank1 bs h <= k).
    { assert (rank1 bs h <= rank1 bs (h + 1)) by (apply rank1_mono; lia). lia. }
    rewrite il_linear_search_spec by exact Hh. rewrite Hp.
    destruct (Nat.ltb_spec p (N.to_nat hint + N.to_nat (N.of_nat (length bs) - hint))) as [|Hge].
    + cbn [option_map]. f_equal. lia.
    + exfalso. lia.
Qed.

(* ---- the in-line scans ---- *)
Lemma uint_select1_hit w r : 1 <= r <= popcount w -> uint_select1 w r = select_in_word w (r - 1).
Proof.
  intros H. unfold uint_select1.
  replace (r =? 0) with false by (symmetry; apply Nat.eqb_neq; lia).
  replace (popcount w <? r) with false by (symmetry; apply Nat.ltb_ge; lia). reflexivity.
Qed.

Lemma il_within_line1_spec bs line k : forall n j rem,
  j + n = 4 -> rank1 bs (256 * line) + rem = k + 1 ->
  seg bs (256 * line) (64 * j) < rem -> rem <= seg bs (256 * line) 256 ->
  il_within_line1 (line * 256) rem (map (il_word bs (256 * line)) (seq j n)) j (seg bs (256 * line) (64 * j)) =
  select1 bs k.
Proof.
  induction n as [|n IH]; intros j rem Hjn Hk Hlo Hhi.
  - assert (j = 4) by lia. subst j. change (64 * 4) with 256 in Hlo. lia.
  - cbn [seq map il_within_line1]. unfold popcount at 1 2. rewrite il_word_count by lia.
    set (a := 256 * line) in *. set (found := seg bs a (64 * j)) in *.
    assert (Hnext : found + seg bs (a + j * 64) 64 = seg bs a (64 * S j)).
    { subst found. replace (64 * S j) with (64 * j + 64) by lia. rewrite seg_add. f_equal. f_equal. lia. }
    destruct (Nat.leb_spec rem (found + seg bs (a + j * 64) 64)) as [Hin|Hout].
    + assert (Hrk : rank1 bs (a + j * 64) = rank1 bs a + found).
      { subst found. replace (j * 64) with (64 * j) by lia. apply rank1_seg. }
      destruct (select1_window bs (a + j * 64) k) as (Hsel & Hlt); [lia|lia|].
      assert (Hw : il_word bs a j = firstn 64 (skipn (a + j * 64) bs)).
      { destruct (il_word_window bs a j) as [E|[Hge _]]; [lia|exact E|lia]. }
      rewrite uint_select1_hit by (unfold popcount; rewrite il_word_count by lia; lia).
      rewrite Hw.
      assert (Hb : select_in_word (firstn 64 (skipn (a + j * 64) bs)) (rem - found - 1) < 64).
      { pose proof (select_in_word_lt (firstn 64 (skipn (a + j * 64) bs)) (rem - found - 1)) as Hs.
        unfold seg in Hin. rewrite firstn_length in Hs. lia. }
      replace (select_in_word (firstn 64 (skipn (a + j * 64) bs)) (rem - found - 1) <? 64) with true
        by (symmetry; apply Nat.ltb_lt; exact Hb).
      rewrite Hsel. f_equal. replace (k - rank1 bs (a + j * 64)) with (rem - found - 1) by lia. lia.
    + rewrite Hnext. apply IH; [lia|exact Hk|lia|exact Hhi].
Qed.

Lemma four_words {A} (f : nat -> A) : [f 0; f 1; f 2; f 3] = map f (seq 0 4).
Proof. reflexivity. Qed.

(* ---- select1 ---- *)
Theorem ils_select1_any_cache bs c rate k :
  ils_select1 {| ils := il_build bs; il_nbits := N.of_nat (length bs); il_cache := c; il_rate := rate |} k = select1 bs k.
Proof.
  destruct (il_build_spec bs) as (Hbits & Hones & Hlen & Hk).
  pose proof (il_nl_bounds bs) as [Hn1 Hn2].
  unfold ils_select1. cbn [ils il_cache il_rate il_nbits]. rewrite Hones.
  destruct (Nat.leb_spec (count1 bs) k) as [Hge|Hlt].
  { destruct (select1 bs k) as [p|] eqn:E; [|reflexivity].
    assert (k < count1 bs) by (apply select1_some_iff; eauto). lia. }
  (* the path without a usable cache entry *)
  assert (Hslow : il_select1_within_line (il_build bs)
                    (il_binary_search_lines (il_build bs) (k + 1))
                    (k + 1 - rlev1 (nth (il_binary_search_lines (il_build bs) (k + 1)) (il_ls (il_build bs)) il_dflt)) =
                  select1 bs k).
  { assert (Hpos : 0 < length bs) by (pose proof (count1_le bs); lia).
    assert (Hnl : 1 <= il_nl bs) by (unfold il_nl; lia).
    unfold il_binary_search_lines. rewrite Hlen.
    set (right := fun mid => rlev1 (nth mid (il_ls (il_build bs)) il_dflt) <? k + 1).
    assert (Hr : forall i, i < il_nl bs -> right i = (rank1 bs (256 * i) <=? k)).
    { intros i Hi. subst right. cbv beta. destruct (Hk i Hi) as (H1 & _). rewrite H1.
      destruct (Nat.ltb_spec (rank1 bs (256 * i)) (k + 1)); destruct (Nat.leb_spec (rank1 bs (256 * i)) k); lia. }
    destruct (bsearch_spec mid_off right (il_nl bs) mid_off_between) with (fuel := S (il_nl bs)) (lo := 0) (hi := il_nl bs)
      as (Hb1 & Hb2 & Hb3); [|lia|lia|intros; lia|intros; lia|].
    { intros i j Hij Hj. rewrite Hr in * by lia. apply Nat.leb_le in Hj. apply Nat.leb_le.
      assert (rank1 bs (256 * i) <= rank1 bs (256 * j)) by (apply rank1_mono; lia). lia. }
    set (left := bsearch mid_off right (S (il_nl bs)) 0 (il_nl bs)) in *.
    assert (Hl1 : 1 <= left).
    { destruct (Nat.eq_dec left 0) as [E|]; [|lia]. exfalso.
      assert (H0 : right 0 = false) by (apply Hb3; lia). rewrite Hr in H0 by lia.
      change (rank1 bs (256 * 0)) with 0 in H0. apply Nat.leb_gt in H0. lia. }
    replace (Nat.min (left - 1) (il_nl bs - 1)) with (left - 1) by lia.
    set (line := left - 1) in *.
    assert (Hline : line < il_nl bs) by lia.
    assert (Hlo : rank1 bs (256 * line) <= k).
    { assert (H : right line = true) by (apply Hb2; lia). rewrite Hr in H by lia. apply Nat.leb_le. exact H. }
    assert (Hhi : k < rank1 bs (256 * line + 256)).
    { destruct (Nat.eq_dec left (il_nl bs)) as [E|Hne].
      - rewrite rank1_all by lia. lia.
      - assert (H : right left = false) by (apply Hb3; lia). rewrite Hr in H by lia. apply Nat.leb_gt in H.
        replace (256 * line + 256) with (256 * left) by lia. exact H. }
    unfold il_select1_within_line. rewrite Hlen.
    replace (il_nl bs <=? line) with false by (symmetry; apply Nat.leb_gt; exact Hline).
    destruct (Hk line Hline) as (H1 & Hw). rewrite H1, Hw, four_words.
    rewrite rank1_seg in Hhi.
    apply (il_within_line1_spec bs line k 4 0); [lia|lia|change (64 * 0) with 0; rewrite seg_0; lia|lia]. }
  destruct c as [c|]; [|exact Hslow].
  destruct (k / rate <? length c); [|exact Hslow].
  apply il_select1_from_hint_correct. exact Hlt.
Qed.

Theorem ils_select1_correct_proof bs enable rate k :
  ils_select1 (ils_build bs enable rate) k = select1 bs k.
Proof.
  unfold ils_build. destruct (il_build_spec bs) as (Hbits & _). rewrite Hbits. apply ils_select1_any_cache.
Qed.

(* ---- select0 ---- *)
Lemma pad64_window bs m line j : j <= 3 -> 256 * line + 256 <= length bs + m ->
  map negb (pad64 (il_word bs (256 * line) j)) =
  firstn 64 (skipn (256 * line + 64 * j) (map negb (bs ++ repeat false m))).
Proof.
  intros Hj Hm. rewrite il_word_is_word by exact Hj. unfold pad64.
  rewrite (padded_word bs m) by lia. rewrite <- firstn_map, <- skipn_map. do 2 f_equal. lia.
Qed.

Lemma il_within_line0_spec bs m line k :
  let P := map negb (bs ++ repeat false m) in
  256 * line + 256 <= length bs + m ->
  forall n j, j + n = 4 ->
  rank1 P (256 * line) + seg P (256 * line) (64 * j) <= k -> k < rank1 P (256 * line + 256) ->
  il_within_line0 (line * 256) (k - rank1 P (256 * line)) (map (il_word bs (256 * line)) (seq j n)) j (seg P (256 * line) (64 * j)) =
  select1 P k.
Proof.
  intros P Hm. induction n as [|n IH]; intros j Hjn Hlo Hhi.
  - assert (j = 4) by lia. subst j. change (64 * 4) with 256 in Hlo. rewrite rank1_seg in Hhi. lia.
  - cbn [seq map il_within_line0]. rewrite (pad64_window bs m line j) by lia. fold P.
    set (a := 256 * line) in *. set (found := seg P a (64 * j)) in *.
    change (popcount (firstn 64 (skipn (a + 64 * j) P))) with (seg P (a + 64 * j) 64).
    assert (Hnext : found + seg P (a + 64 * j) 64 = seg P a (64 * S j)).
    { subst found. replace (64 * S j) with (64 * j + 64) by lia. rewrite seg_add. reflexivity. }
    assert (Hrk : rank1 P (a + 64 * j) = rank1 P a + found) by (subst found; apply rank1_seg).
    destruct (Nat.ltb_spec (k - rank1 P a) (found + seg P (a + 64 * j) 64)) as [Hin|Hout].
    + destruct (select1_window P (a + 64 * j) k) as (Hsel & Hlt); [lia|lia|].
      replace (k - rank1 P a - found + 1) with (S (k - rank1 P a - found)) by lia.
      rewrite uint_select1_hit by (change (popcount (firstn 64 (skipn (a + 64 * j) P))) with (seg P (a + 64 * j) 64); lia).
      replace (S (k - rank1 P a - found) - 1) with (k - rank1 P (a + 64 * j)) by lia.
      assert (Hb : select_in_word (firstn 64 (skipn (a + 64 * j) P)) (k - rank1 P (a + 64 * j)) < 64).
      { pose proof (select_in_word_lt (firstn 64 (skipn (a + 64 * j) P)) (k - rank1 P (a + 64 * j))) as Hs.
        unfold seg in Hin. rewrite firstn_length in Hs. lia. }
      replace (select_in_word (firstn 64 (skipn (a + 64 * j) P)) (k - rank1 P (a + 64 * j)) <? 64) with true
        by (symmetry; apply Nat.ltb_lt; exact Hb).
      rewrite Hsel. f_equal. lia.
    + rewrite Hnext. apply IH; [lia| |exact Hhi]. lia.
Qed.

Theorem ils_select0_correct_proof bs enable rate k :
  ils_select0 (ils_build bs enable rate) k = select0 bs k.
Proof.
  destruct (il_build_spec bs) as (Hbits & Hones & Hlen & Hk).
  pose proof (il_nl_bounds bs) as [Hn1 Hn2].
  unfold ils_build, ils_select0. cbn [ils]. rewrite Hbits, Hones, Hlen. unfold select0.
  assert (Hc0 : count1 (map negb bs) = length bs - count1 bs) by apply count1_negb.
  destruct (Nat.leb_spec (length bs - count1 bs) k) as [Hge|Hlt].
  { destruct (select1 (map negb bs) k) as [p|] eqn:E; [|reflexivity].
    assert (k < count1 (map negb bs)) by (apply select1_some_iff; eauto). lia. }
  assert (Hpos : 0 < length bs) by lia.
  assert (Hnl : 1 <= il_nl bs) by (unfold il_nl; lia).
  set (nl := il_nl bs) in *.
  set (m := 256 * nl - length bs).
  set (P := map negb (bs ++ repeat false m)).
  assert (HP : P = map negb bs ++ repeat true m).
  { subst P. rewrite map_app. f_equal. clear. induction m as [|m IH]; cbn [repeat map negb]; [reflexivity|]. f_equal. exact IH. }
  rewrite <- (select1_app_l (map negb bs) (repeat true m) k) by lia. rewrite <- HP.
  assert (HrP : forall p, p <= 256 * nl -> rank1 P p = p - rank1 bs p).
  { intros p Hp. subst P. rewrite rank1_negb by (rewrite app_length, repeat_length; lia). rewrite rank1_pad_false. reflexivity. }
  set (right := fun mid : nat =>
        mid * 256 - (if mid =? 0 then 0 else rlev1 (nth mid (il_ls (il_build bs)) il_dflt)) <=? k).
  assert (Hr0 : forall i, i < nl -> right i = (rank1 P (256 * i) <=? k)).
  { intros i Hi. subst right. cbv beta. destruct (Hk i Hi) as (H1 & _). rewrite HrP by lia. f_equal.
    destruct (Nat.eqb_spec i 0) as [->|]; [change (rank1 bs (256 * 0)) with 0; lia|]. rewrite H1. lia. }
  destruct (bsearch_spec mid_avg right nl mid_avg_between) with (fuel := S nl) (lo := 0) (hi := nl)
    as (Hb1 & Hb2 & Hb3); [|lia|lia|intros; lia|intros; lia|].
  { intros i j Hij Hj. rewrite Hr0 in * by lia. apply Nat.leb_le in Hj. apply Nat.leb_le.
    assert (rank1 P (256 * i) <= rank1 P (256 * j)) by (apply rank1_mono; lia). lia. }
  set (lo := bsearch mid_avg right (S nl) 0 nl) in *.
  assert (Hl1 : 1 <= lo).
  { destruct (Nat.eq_dec lo 0) as [E|]; [|lia]. exfalso.
    assert (H0 : right 0 = false) by (apply Hb3; lia). rewrite Hr0 in H0 by lia.
    change (rank1 P (256 * 0)) with 0 in H0. apply Nat.leb_gt in H0. lia. }
  set (line := lo - 1) in *.
  assert (Hline : line < nl) by lia.
  replace (nl <=? line) with false by (symmetry; apply Nat.leb_gt; exact Hline).
  assert (Hlo : rank1 P (256 * line) <= k).
  { assert (H : right line = true) by (apply Hb2; lia). rewrite Hr0 in H by lia. apply Nat.leb_le. exact H. }
  assert (Hhi : k < rank1 P (256 * line + 256)).
  { destruct (Nat.eq_dec lo nl) as [E|Hne].
    - replace (256 * line + 256) with (256 * nl) by lia. rewrite HrP by lia.
      rewrite rank1_all by lia. lia.
    - assert (H : right lo = false) by (apply Hb3; lia). rewrite Hr0 in H by lia. apply Nat.leb_gt in H.
      replace (256 * line + 256) with (256 * lo) by lia. exact H. }
  destruct (Hk line Hline) as (H1 & Hw). rewrite H1, Hw, four_words.
  replace (line * 256 - rank1 bs (256 * line)) with (rank1 P (256 * line)) by (rewrite HrP by lia; lia).
  subst P. apply (il_within_line0_spec bs m line k); [subst m; lia|lia|change (64 * 0) with 0; rewrite seg_0; lia|exact Hhi].
Qed.

(* select1_bulk is the map of select1 (first failure wins) *)
Lemma ils_select1_bulk_correct_proof bs enable rate ks :
  ils_select1_bulk (ils_build bs enable rate) ks =
  (fix go l := match l with [] => Some [] | k :: t =>
     match select1 bs k with None => None | Some p => match go t with None => None | Some r => Some (p :: r) end end end) ks.
Proof.
  induction ks as [|k t IH]; cbn [ils_select1_bulk]; [reflexivity|].
  rewrite ils_select1_correct_proof, IH. reflexivity.
Qed.
