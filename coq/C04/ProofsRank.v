(* C04: RankSelectSE512 rank1/rank0/get equal the definition, for every bit list and position. *)
From Coq Require Import List Arith NArith Lia Bool ZifyBool ZifyNat ZifyN.
From ZV.Common Require Import Base.
From ZV.C04 Require Import Spec Model.
Import ListNotations.
Ltac Zify.zify_post_hook ::= Z.div_mod_to_equations.
Close Scope N_scope.
Open Scope nat_scope.

(* ones in the segment [a, a+n) *)
Definition seg (bs : list bool) (a n : nat) : nat := count1 (firstn n (skipn a bs)).

Lemma skipn_skipn {A} (a b : nat) (l : list A) : skipn a (skipn b l) = skipn (b + a) l.
Proof.
  revert l; induction b as [|b IH]; intros l; cbn [skipn Nat.add]; [reflexivity|].
  destruct l as [|x l]; [rewrite skipn_nil; reflexivity|]. apply IH.
Qed.

Lemma seg_add bs a m n : seg bs a (m + n) = seg bs a m + seg bs (a + m) n.
Proof. unfold seg. rewrite firstn_add, count1_app, skipn_skipn. reflexivity. Qed.

Lemma rank1_seg bs a n : rank1 bs (a + n) = rank1 bs a + seg bs a n.
Proof. apply rank1_split. Qed.

Lemma seg_le bs a n : seg bs a n <= n.
Proof. unfold seg. pose proof (count1_le (firstn n (skipn a bs))). rewrite firstn_length in H. lia. Qed.

Lemma word_count bs i : popcount (word bs i) = seg bs (64 * i) 64.
Proof. reflexivity. Qed.

(* ---- the packed field ---- *)
Definition M63 : N := N.shiftr (2 ^ 64 - 1) 1.
Lemma M63_ones : M63 = N.ones 63. Proof. reflexivity. Qed.

Definition pack8 (r0 r1 r2 r3 r4 r5 r6 r7 : N) : N :=
  N.lor (N.lor (N.lor (N.lor (N.lor (N.lor (N.lor (N.lor 0
    (shl64 r0 0)) (shl64 r1 9)) (shl64 r2 18)) (shl64 r3 27)) (shl64 r4 36)) (shl64 r5 45)) (shl64 r6 54)) (shl64 r7 63).

Lemma shl64_small x s : (x * 2 ^ s < 2 ^ 64)%N -> shl64 x s = (x * 2 ^ s)%N.
Proof. intros H. unfold shl64. apply N.mod_small. exact H. Qed.

Lemma pack8_value r0 r1 r2 r3 r4 r5 r6 r7 :
  (r0 < 512 -> r1 < 512 -> r2 < 512 -> r3 < 512 -> r4 < 512 -> r5 < 512 -> r6 < 512 ->
   N.land (pack8 r0 r1 r2 r3 r4 r5 r6 r7) M63 =
   r0 + r1 * 2 ^ 9 + r2 * 2 ^ 18 + r3 * 2 ^ 27 + r4 * 2 ^ 36 + r5 * 2 ^ 45 + r6 * 2 ^ 54)%N.
Proof.
  intros H0 H1 H2 H3 H4 H5 H6. unfold pack8.
  rewrite N.lor_0_l.
  rewrite (shl64_small r0 0) by (cbn; lia). rewrite N.pow_0_r, N.mul_1_r.
  rewrite (shl64_small r1 9) by lia. rewrite lor_disjoint_add by lia.
  rewrite (shl64_small r2 18) by lia. rewrite lor_disjoint_add by lia.
  rewrite (shl64_small r3 27) by lia. rewrite lor_disjoint_add by lia.
  rewrite (shl64_small r4 36) by lia. rewrite lor_disjoint_add by lia.
  rewrite (shl64_small r5 45) by lia. rewrite lor_disjoint_add by lia.
  rewrite (shl64_small r6 54) by lia. rewrite lor_disjoint_add by lia.
  (* the eighth count only reaches bit 63, which the mask clears *)
  assert (H7 : shl64 r7 63 = ((r7 mod 2) * 2 ^ 63)%N).
  { unfold shl64. change (2 ^ 64)%N with (2 * 2 ^ 63)%N. lia. }
  rewrite H7. rewrite lor_disjoint_add by lia.
  rewrite M63_ones, N.land_ones. lia.
Qed.

Lemma get_rela_value rela k :
  get_rela rela k = if k =? 0 then 0 else N.to_nat ((rela / 2 ^ N.of_nat ((k - 1) * 9)) mod 512)%N.
Proof.
  unfold get_rela. destruct (k =? 0); [reflexivity|].
  rewrite N.shiftr_div_pow2. change 511%N with (N.ones 9). rewrite N.land_ones. reflexivity.
Qed.

Lemma get_rela_pack r0 r1 r2 r3 r4 r5 r6 r7 k :
  (r0 < 512)%N -> (r1 < 512)%N -> (r2 < 512)%N -> (r3 < 512)%N -> (r4 < 512)%N -> (r5 < 512)%N -> (r6 < 512)%N -> k <= 7 ->
  get_rela (N.land (pack8 r0 r1 r2 r3 r4 r5 r6 r7) M63) k =
  N.to_nat (nth k [0; r0; r1; r2; r3; r4; r5; r6]%N 0%N).
Proof.
  intros H0 H1 H2 H3 H4 H5 H6 Hk. rewrite pack8_value by assumption. rewrite get_rela_value.
  do 8 (destruct k as [|k]; [cbn [Nat.eqb Nat.sub Nat.mul Nat.add nth N.of_nat]; try reflexivity;
        f_equal; cbn [Pos.of_succ_nat Pos.succ]; lia|]).
  lia.
Qed.

(* ---- one line of the directory ---- *)
Lemma line_loop_cons bs line j t r acc :
  line_loop bs line (j :: t) r acc =
  line_loop bs line t (r + popcount (word bs (line * 8 + j)))
    (N.lor acc (shl64 (N.of_nat (r + popcount (word bs (line * 8 + j)))) (N.of_nat (j * 9)))).
Proof. reflexivity. Qed.

Lemma line_loop_unfold bs line :
  let c := fun j => seg bs (512 * line) (64 * j) in
  line_loop bs line (seq 0 WPL) 0 0%N =
  (c 8, pack8 (N.of_nat (c 1)) (N.of_nat (c 2)) (N.of_nat (c 3)) (N.of_nat (c 4))
              (N.of_nat (c 5)) (N.of_nat (c 6)) (N.of_nat (c 7)) (N.of_nat (c 8))).
Proof.
  intros c.
  assert (Hc : forall j, c j + popcount (word bs (line * 8 + j)) = c (S j)).
  { intros j. unfold c. rewrite word_count. replace (64 * S j) with (64 * j + 64) by lia.
    rewrite seg_add. f_equal. f_equal. lia. }
  assert (Hc0 : c 0 = 0) by reflexivity.
  replace (line_loop bs line (seq 0 WPL) 0 0%N) with (line_loop bs line [0; 1; 2; 3; 4; 5; 6; 7] (c 0) 0%N)
    by (rewrite Hc0; reflexivity).
  do 8 (rewrite line_loop_cons; rewrite Hc).
  reflexivity.
Qed.

Lemma build_lines_spec bs : forall n i cum,
  cum = rank1 bs (512 * i) ->
  let '(lines, total) := build_lines bs n i cum in
  length lines = n /\ total = rank1 bs (512 * (i + n)) /\
  forall k, k < n ->
    base (nth k lines dflt) = rank1 bs (512 * (i + k)) /\
    forall j, j <= 7 -> get_rela (rela (nth k lines dflt)) j = seg bs (512 * (i + k)) (64 * j).
Proof.
  induction n as [|n IH]; intros i cum Hcum; cbn [build_lines].
  - split; [reflexivity|]. split; [rewrite Hcum; f_equal; lia|]. intros k Hk. lia.
  - pose proof (line_loop_unfold bs i) as Hl. cbv zeta in Hl. rewrite Hl.
    specialize (IH (S i) (cum + seg bs (512 * i) (64 * 8))).
    destruct (build_lines bs n (S i) (cum + seg bs (512 * i) (64 * 8))) as [rest total].
    destruct IH as (Hlen & Htot & Hks).
    { rewrite Hcum. replace (512 * S i) with (512 * i + 64 * 8) by lia. rewrite rank1_seg. reflexivity. }
    split; [cbn [length]; lia|]. split; [rewrite Htot; f_equal; lia|].
    intros k Hlt. destruct k as [|k].
    + cbn [nth base rela]. replace (i + 0) with i by lia. split; [exact Hcum|].
      intros j Hj. fold M63.
      rewrite get_rela_pack; try exact Hj;
        try (pose proof (seg_le bs (512 * i) (64 * 1)); pose proof (seg_le bs (512 * i) (64 * 2));
             pose proof (seg_le bs (512 * i) (64 * 3)); pose proof (seg_le bs (512 * i) (64 * 4));
             pose proof (seg_le bs (512 * i) (64 * 5)); pose proof (seg_le bs (512 * i) (64 * 6));
             pose proof (seg_le bs (512 * i) (64 * 7)); lia).
      do 8 (destruct j as [|j]; [cbn [nth]; rewrite ?Nat2N.id; reflexivity|]). lia.
    + cbn [nth]. assert (Hk' : k < n) by lia. specialize (Hks k Hk'). replace (i + S k) with (S i + k) by lia. exact Hks.
Qed.

Lemma nlines_bounds n : 512 * nlines n >= n /\ (n > 0 -> 512 * (nlines n - 1) < n).
Proof. unfold nlines, LINE. split; [|intros]; lia. Qed.

Theorem se_rank1_correct_proof bs sp0 sp1 p :
  p <= length bs -> se_rank1 (build bs sp0 sp1) p = Some (rank1 bs p).
Proof.
  intros Hp. unfold build.
  pose proof (build_lines_spec bs (nlines (length bs)) 0 0 eq_refl) as Hb.
  destruct (build_lines bs (nlines (length bs)) 0 0) as [lines cum].
  destruct Hb as (Hlen & Htot & Hk). cbn [Nat.add] in *.
  unfold se_rank1. cbn [size cache bits].
  replace (length bs <? p) with false by (symmetry; apply Nat.ltb_ge; lia).
  destruct (Nat.eqb_spec p 0) as [->|Hp0]; [reflexivity|]. f_equal.
  pose proof (nlines_bounds (length bs)) as [Hn1 Hn2].
  unfold LINE in *.
  assert (Hdm : p = 512 * (p / 512) + p mod 512) by (apply Nat.div_mod; lia).
  assert (Hdm2 : p mod 512 = 64 * (p mod 512 / 64) + (p mod 512) mod 64) by (apply Nat.div_mod; lia).
  assert (Hw : p / 64 = (p / 512) * 8 + p mod 512 / 64) by lia.
  assert (Ht : p mod 64 = (p mod 512) mod 64) by lia.
  destruct (Nat.lt_ge_cases (p / 512) (nlines (length bs))) as [Hin|Hout].
  - (* a real line *)
    rewrite app_nth1 by lia. destruct (Hk (p / 512) Hin) as (Hbase & Hrela).
    rewrite Hbase, Hrela by lia.
    assert (Htrail : popcount_trail (word bs (p / 64)) (p mod 64) = seg bs (512 * (p / 512) + 64 * (p mod 512 / 64)) (p mod 64)).
    { unfold popcount_trail, word, seg.
      destruct (Nat.eqb_spec (p mod 64) 0) as [H0|H0]; [rewrite H0; reflexivity|].
      replace (64 <=? p mod 64) with false by (symmetry; apply Nat.leb_gt; lia).
      rewrite firstn_firstn. replace (Init.Nat.min (p mod 64) 64) with (p mod 64) by lia.
      f_equal. f_equal. f_equal. lia. }
    rewrite Htrail.
    rewrite <- Nat.add_assoc, <- seg_add, <- rank1_seg. f_equal. lia.
  - (* p is the end of the data and lies on a line boundary: the sentinel entry *)
    assert (Hpe : p = length bs /\ p = 512 * nlines (length bs)) by lia.
    destruct Hpe as [Hpl Hpn].
    assert (Hq : p / 512 = nlines (length bs)) by lia.
    rewrite Hq, app_nth2 by lia. rewrite Hlen, Nat.sub_diag. cbn [nth base rela].
    replace (p mod 512 / 64) with 0 by lia.
    unfold get_rela. cbn [Nat.eqb]. unfold popcount_trail.
    replace (p mod 64 =? 0) with true by (symmetry; apply Nat.eqb_eq; lia).
    rewrite Htot. rewrite <- Hpn. lia.
Qed.

Theorem se_rank0_correct_proof bs sp0 sp1 p :
  p <= length bs -> se_rank0 (build bs sp0 sp1) p = Some (rank0 bs p).
Proof.
  intros Hp. unfold se_rank0. rewrite se_rank1_correct_proof by exact Hp.
  pose proof (rank0_rank1 bs p Hp). f_equal. lia.
Qed.

Theorem se_rank1_refuses_proof bs sp0 sp1 p :
  length bs < p -> se_rank1 (build bs sp0 sp1) p = None.
Proof.
  intros Hp. unfold build. destruct (build_lines bs (nlines (length bs)) 0 0) as [lines cum].
  unfold se_rank1. cbn [size]. replace (length bs <? p) with true by (symmetry; apply Nat.ltb_lt; lia). reflexivity.
Qed.

Lemma nth_skipn {A} (l : list A) a i d : nth i (skipn a l) d = nth (a + i) l d.
Proof.
  revert l; induction a as [|a IH]; intros l; cbn [skipn Nat.add]; [reflexivity|].
  destruct l as [|x l]; [destruct i; reflexivity|]. cbn [nth]. apply IH.
Qed.
Lemma nth_firstn {A} (l : list A) n i d : i < n -> nth i (firstn n l) d = nth i l d.
Proof.
  revert l i; induction n as [|n IH]; intros l i Hi; [lia|].
  destruct l as [|x l]; [destruct i; reflexivity|]. destruct i as [|i]; cbn [firstn nth]; [reflexivity|].
  apply IH. lia.
Qed.

Theorem se_get_correct_proof bs sp0 sp1 i :
  se_get (build bs sp0 sp1) i = if length bs <=? i then None else Some (nth i bs false).
Proof.
  unfold build. destruct (build_lines bs (nlines (length bs)) 0 0) as [lines cum].
  unfold se_get. cbn [size bits]. destruct (length bs <=? i); [reflexivity|].
  f_equal. unfold word. rewrite nth_firstn by (apply Nat.mod_upper_bound; lia).
  rewrite nth_skipn. f_equal. pose proof (Nat.div_mod i 64). lia.
Qed.

Theorem se_count_ones_proof bs sp0 sp1 :
  max_rank1 (build bs sp0 sp1) = count1 bs /\ size (build bs sp0 sp1) = length bs.
Proof.
  unfold build.
  pose proof (build_lines_spec bs (nlines (length bs)) 0 0 eq_refl) as Hb.
  destruct (build_lines bs (nlines (length bs)) 0 0) as [lines cum].
  destruct Hb as (_ & Htot & _). cbn [max_rank1 size]. split; [|reflexivity].
  rewrite Htot. apply rank1_all. pose proof (nlines_bounds (length bs)). cbn [Nat.add]. lia.
Qed.
