(* C04 mechanism model of RankSelectSE256 (src/succinct/rank_select/separated.rs) as written:
   one RankCacheSE { lev1: u32, lev2: [u8; 4] } per 256-bit block plus a sentinel, lev2[j] = `r as u8` (ones of the
   block before word j), words beyond bits.len() skipped; rank1 with its assert, popcount_trail; optional
   sel0/sel1 caches (build_select{0,1}_cache), select{0,1}_upper_bound, the descending scan over lev2, in-word
   select (PDEP+TZCNT or clear-lowest-bit loop: both are "index of the k-th set bit, 64 if there is none").
   Same algorithm as separated_512.rs with LINE 256 / 4 words / byte-wide sub-block ranks instead of packed 9-bit
   fields.  The word vector is the BitVector's block vector: ceil(len/64) words plus `extra` all-zero words (a
   BitVector keeps its blocks after pop; ProofsBV.v: bits past the end are zero).  Not modelled: u32 wrap of lev1.
   Definitions only. *)
From Coq Require Import List Arith Lia Bool.
From ZV.C04 Require Import Spec Model ModelGen.
Import ListNotations.

Definition LINE256 : nat := 256.
Definition WPL256 : nat := 4.

Record rc256 := { lev1 : nat; lev2 : list nat }.
Definition rc256_new (l1 : nat) : rc256 := {| lev1 := l1; lev2 := [0; 0; 0; 0] |}.   (* RankCacheSE::new *)

(* for j in 0..4 { rc.lev2[j] = r as u8; if word_idx < bits.len() { r += popcount } } *)
Fixpoint se256_line (bs : list bool) (nw line : nat) (js : list nat) (r : nat) : list nat * nat :=
  match js with
  | [] => ([], r)
  | j :: t =>
      let wi := line * WPL256 + j in
      let r' := if wi <? nw then r + popcount (word bs wi) else r in
      let '(l2, tot) := se256_line bs nw line t r' in
      ((r mod 256) :: l2, tot)
  end.

Fixpoint se256_lines (bs : list bool) (nw n i cum : nat) : list rc256 * nat :=
  match n with
  | O => ([], cum)
  | S n' =>
      let '(l2, r) := se256_line bs nw i (seq 0 WPL256) 0 in
      let '(rest, total) := se256_lines bs nw n' (S i) (cum + r) in
      ({| lev1 := cum; lev2 := l2 |} :: rest, total)
  end.

Definition nlines256 (size : nat) : nat := (size + LINE256 - 1) / LINE256.
Definition nwords (size : nat) : nat := (size + 63) / 64.

Record se256 := {
  bits256 : list bool; size256 : nat; nw256 : nat; cache256 : list rc256;
  s0c256 : option (list nat); s1c256 : option (list nat);
  mr0_256 : nat; mr1_256 : nat }.

Definition se256_build (bs : list bool) (extra : nat) (speed0 speed1 : bool) : se256 :=
  let sz := length bs in
  let nw := nwords sz + extra in
  let nl := nlines256 sz in
  let '(lines, cum) := se256_lines bs nw nl 0 0 in
  let cache := lines ++ [rc256_new cum] in
  let mr1 := cum in
  let mr0 := sz - mr1 in
  let g1 := fun k => lev1 (nth k cache (rc256_new 0)) in
  let g0 := fun k => k * LINE256 - lev1 (nth k cache (rc256_new 0)) in
  {| bits256 := bs; size256 := sz; nw256 := nw; cache256 := cache;
     s0c256 := if speed0 && (0 <? mr0) then Some (build_sel_cache_g g0 true LINE256 mr0 nl) else None;
     s1c256 := if speed1 && (0 <? mr1) then Some (build_sel_cache_g g1 false LINE256 mr1 nl) else None;
     mr0_256 := mr0; mr1_256 := mr1 |}.

Definition dflt256 : rc256 := rc256_new 0.

Definition se256_rank1 (s : se256) (bitpos : nat) : option nat :=
  if size256 s <? bitpos then None          (* assert!(bitpos <= self.size) *)
  else if bitpos =? 0 then Some 0
  else
    let block := bitpos / LINE256 in
    let rc := nth block (cache256 s) dflt256 in
    let word_in_block := (bitpos / 64) mod WPL256 in
    let bit_in_word := bitpos mod 64 in
    let word_idx := bitpos / 64 in
    Some (lev1 rc + nth word_in_block (lev2 rc) 0
          + popcount_trail (if word_idx <? nw256 s then word (bits256 s) word_idx else []) bit_in_word).

Definition se256_rank0 (s : se256) (pos : nat) : option nat :=
  match se256_rank1 s pos with Some r => Some (pos - r) | None => None end.

Definition se256_get (s : se256) (i : nat) : option bool :=
  if size256 s <=? i then None
  else if i / 64 <? nw256 s then Some (nth (i mod 64) (word (bits256 s) (i / 64)) false) else Some false.

(* select{0,1}_upper_bound *)
Definition se256_upper_bound (s : se256) (rank : nat) (is1 : bool) : nat :=
  let '(lo, hi) :=
    match (if is1 then s1c256 s else s0c256 s) with
    | Some c => let slot := rank / LINE256 in (nth slot c 0, nth (S slot) c 0)
    | None => (0, length (cache256 s) - 1)
    end in
  bsearch mid_avg
    (if is1 then fun mid => lev1 (nth mid (cache256 s) dflt256) <=? rank
     else fun mid => mid * LINE256 - lev1 (nth mid (cache256 s) dflt256) <=? rank)
    (S (length (cache256 s))) lo hi.

(* for j in (0..4).rev() *)
Fixpoint se256_scan1 (s : se256) (block remaining : nat) (rc : rc256) (js : list nat) : option nat :=
  match js with
  | [] => None
  | j :: t =>
      let before := nth j (lev2 rc) 0 in
      if before <=? remaining then
        if block * WPL256 + j <? nw256 s
        then Some (block * LINE256 + j * 64 + select_in_word (word (bits256 s) (block * WPL256 + j)) (remaining - before))
        else se256_scan1 s block remaining rc t
      else se256_scan1 s block remaining rc t
  end.
Definition se256_select1 (s : se256) (k : nat) : option nat :=
  if mr1_256 s <=? k then None else
  let lo := se256_upper_bound s k true in
  if lo =? 0 then None else                 (* assert!(lo > 0) *)
  let block := lo - 1 in
  let rc := nth block (cache256 s) dflt256 in
  se256_scan1 s block (k - lev1 rc) rc (rev (seq 0 WPL256)).

Fixpoint se256_scan0 (s : se256) (block remaining : nat) (rc : rc256) (js : list nat) : option nat :=
  match js with
  | [] => None
  | j :: t =>
      let zeros_before := j * 64 - nth j (lev2 rc) 0 in
      if zeros_before <=? remaining then
        let w := if block * WPL256 + j <? nw256 s then word (bits256 s) (block * WPL256 + j) else [] in
        (* !word: a missing or short word is a zero-padded u64, which inverts to ones *)
        let inv := map negb (w ++ repeat false (64 - length w)) in
        Some (block * LINE256 + j * 64 + select_in_word inv (remaining - zeros_before))
      else se256_scan0 s block remaining rc t
  end.
Definition se256_select0 (s : se256) (k : nat) : option nat :=
  if mr0_256 s <=? k then None else
  let lo := se256_upper_bound s k false in
  if lo =? 0 then None else
  let block := lo - 1 in
  let rc := nth block (cache256 s) dflt256 in
  se256_scan0 s block (k - (block * LINE256 - lev1 rc)) rc (rev (seq 0 WPL256)).
