(* C04: BitVector (src/succinct/bit_vector.rs) as a state machine refines the list of booleans it stands for:
   every operation, from every state satisfying the invariant, for every history.  Part 1: bit-level lemmas,
   abstraction, one refinement lemma per operation. *)
From Coq Require Import List Arith NArith ZArith Lia Bool ZifyBool ZifyNat ZifyN.
From ZV.Common Require Import Base.
From ZV.C04 Require Import Spec Model ProofsRank ModelBV.
Import ListNotations.
Ltac Zify.zify_post_hook ::= Z.div_mod_to_equations.
Close Scope N_scope.
Open Scope nat_scope.

(* ---- lists ---- *)
Lemma list_eq_nth (l1 l2 : list bool) :
  length l1 = length l2 -> (forall i, i < length l1 -> nth i l1 false = nth i l2 false) -> l1 = l2.
Proof. intros Hl Hn. apply (nth_ext l1 l2 false false Hl). exact Hn. Qed.

Lemma nth_repeat_false n i : nth i (repeat false n) false = false.
Proof. revert i; induction n as [|n IH]; intros [|i]; cbn [repeat nth]; auto. Qed.

Lemma nth_repeat0 n i : nth i (repeat 0%N n) 0%N = 0%N.
Proof. revert i; induction n as [|n IH]; intros [|i]; cbn [repeat nth]; auto. Qed.

Lemma nth_repeat_b (b : bool) n i : i < n -> nth i (repeat b n) false = b.
Proof. revert i; induction n as [|n IH]; intros [|i] H; cbn [repeat nth]; try lia; auto. apply IH; lia. Qed.

Lemma nth_firstn_b (l : list bool) n i : nth i (firstn n l) false = if i <? n then nth i l false else false.
Proof.
  destruct (Nat.ltb_spec i n) as [H|H]; [apply nth_firstn; exact H|].
  apply nth_overflow. rewrite firstn_length. lia.
Qed.

Lemma nth_upd l j b i : j < length l -> nth i (upd l j b) false = if i =? j then b else nth i l false.
Proof.
  intros Hj. unfold upd.
  destruct (Nat.ltb_spec i j) as [H|H].
  - rewrite app_nth1 by (rewrite firstn_length; lia). rewrite nth_firstn by exact H.
    replace (i =? j) with false by (symmetry; apply Nat.eqb_neq; lia). reflexivity.
  - rewrite app_nth2 by (rewrite firstn_length; lia). rewrite firstn_length.
    replace (Nat.min j (length l)) with j by lia.
    destruct (Nat.eqb_spec i j) as [->|Hne]; [rewrite Nat.sub_diag; reflexivity|].
    destruct (i - j) as [|k] eqn:Ek; [lia|]. cbn [nth]. rewrite nth_skipn. f_equal. lia.
Qed.

Lemma length_upd l j b : j < length l -> length (upd l j b) = length l.
Proof. intros Hj. unfold upd. rewrite app_length, firstn_length. cbn [length]. rewrite skipn_length. lia. Qed.

Lemma nth_ins l j b i : j <= length l ->
  nth i (ins l j b) false = if i <? j then nth i l false else if i =? j then b else nth (i - 1) l false.
Proof.
  intros Hj. unfold ins.
  destruct (Nat.ltb_spec i j) as [H|H].
  - rewrite app_nth1 by (rewrite firstn_length; lia). apply nth_firstn; exact H.
  - rewrite app_nth2 by (rewrite firstn_length; lia). rewrite firstn_length.
    replace (Nat.min j (length l)) with j by lia.
    destruct (Nat.eqb_spec i j) as [->|Hne]; [rewrite Nat.sub_diag; reflexivity|].
    destruct (i - j) as [|k] eqn:Ek; [lia|]. cbn [nth]. rewrite nth_skipn. f_equal. lia.
Qed.

Lemma length_ins l j b : j <= length l -> length (ins l j b) = S (length l).
Proof. intros Hj. unfold ins. rewrite app_length, firstn_length. cbn [length]. rewrite skipn_length. lia. Qed.

Lemma seq_offset a n : seq a n = map (fun k => a + k) (seq 0 n).
Proof.
  revert a; induction n as [|n IH]; intros a; cbn [seq map]; [reflexivity|].
  f_equal; [lia|]. rewrite (IH (S a)), <- seq_shift, map_map. apply map_ext. intros k. lia.
Qed.

Lemma count1_all_false {A} (f : A -> bool) l : (forall x, In x l -> f x = false) -> count1 (map f l) = 0.
Proof.
  induction l as [|x l IH]; intros H; cbn [map count1]; [reflexivity|].
  rewrite (H x) by (left; reflexivity). rewrite IH; [reflexivity|]. intros y Hy. apply H. right. exact Hy.
Qed.

(* ---- set_nth ---- *)
Lemma length_set_nth l i w : length (set_nth l i w) = length l.
Proof. revert i; induction l as [|x l IH]; intros [|i]; cbn [set_nth length]; auto. Qed.

Lemma nth_set_nth l i w j : i < length l -> nth j (set_nth l i w) 0%N = if j =? i then w else nth j l 0%N.
Proof.
  revert i j; induction l as [|x l IH]; intros i j Hi; cbn [length] in Hi; [lia|].
  destruct i as [|i], j as [|j]; cbn [set_nth nth Nat.eqb]; try reflexivity.
  apply IH. lia.
Qed.

Lemma Forall_set_nth (P : N -> Prop) l i w : Forall P l -> P w -> Forall P (set_nth l i w).
Proof.
  intros Hl Hw. revert i; induction Hl as [|x l Hx Hl IH]; intros [|i]; cbn [set_nth]; constructor; auto.
Qed.

Lemma nth_error_nth_N (l : list N) i : i < length l -> nth_error l i = Some (nth i l 0%N).
Proof.
  revert i; induction l as [|x l IH]; intros i Hi; cbn [length] in Hi; [lia|].
  destruct i as [|i]; cbn [nth_error nth]; [reflexivity|]. apply IH. lia.
Qed.

Lemma modify_block_in bl i f : i < length bl ->
  modify_block bl i f = Some (set_nth bl i (f (nth i bl 0%N))).
Proof. intros Hi. unfold modify_block. rewrite nth_error_nth_N by exact Hi. reflexivity. Qed.

(* ---- u64 facts by bits ---- *)
Definition small (w : N) : Prop := forall k, (64 <= k)%N -> N.testbit w k = false.

Lemma small_lt w : (w < 2 ^ 64)%N <-> small w.
Proof.
  split.
  - intros H k Hk. rewrite <- (N.mod_small w (2 ^ 64)) by exact H. apply N.mod_pow2_bits_high. exact Hk.
  - intros H. assert (E : (w mod 2 ^ 64 = w)%N).
    { apply N.bits_inj. intros k. destruct (N.ltb_spec k 64) as [Hk|Hk].
      - apply N.mod_pow2_bits_low. exact Hk.
      - rewrite N.mod_pow2_bits_high by exact Hk. symmetry. apply H. exact Hk. }
    rewrite <- E. apply N.mod_lt. apply N.pow_nonzero. discriminate.
Qed.

Lemma small_0 : small 0%N.
Proof. intros k _. apply N.bits_0. Qed.

Lemma testbit_shl1 b k : N.testbit (shl1 b) (N.of_nat k) = (k =? b).
Proof.
  unfold shl1. rewrite N.shiftl_1_l.
  destruct (Nat.eqb_spec k b) as [->|Hne].
  - apply N.pow2_bits_true.
  - apply N.pow2_bits_false. lia.
Qed.

Lemma testbit_set_bit w b k :
  N.testbit (set_bit w b) (N.of_nat k) = N.testbit w (N.of_nat k) || (k =? b).
Proof. unfold set_bit. rewrite N.lor_spec, testbit_shl1. reflexivity. Qed.

Lemma testbit_clear_bit w b k : k < 64 ->
  N.testbit (clear_bit w b) (N.of_nat k) = N.testbit w (N.of_nat k) && negb (k =? b).
Proof.
  intros Hk. unfold clear_bit, not64. rewrite N.land_spec, N.lxor_spec, testbit_shl1.
  rewrite N.ones_spec_low by lia. reflexivity.
Qed.

Lemma testbit_low_mask w r k :
  N.testbit (N.land w (low_mask r)) (N.of_nat k) = N.testbit w (N.of_nat k) && (k <? r).
Proof.
  unfold low_mask. rewrite N.land_spec. destruct (Nat.ltb_spec k r) as [H|H].
  - rewrite N.ones_spec_low by lia. reflexivity.
  - rewrite N.ones_spec_high by lia. reflexivity.
Qed.

Lemma small_set_bit w b : small w -> b < 64 -> small (set_bit w b).
Proof.
  intros Hw Hb k Hk. unfold set_bit, shl1. rewrite N.lor_spec, Hw by exact Hk.
  rewrite N.shiftl_1_l. rewrite N.pow2_bits_false by lia. reflexivity.
Qed.

Lemma small_land w m : small w -> small (N.land w m).
Proof. intros Hw k Hk. rewrite N.land_spec, Hw by exact Hk. reflexivity. Qed.

Lemma small_clear_bit w b : small w -> small (clear_bit w b).
Proof. intros Hw. unfold clear_bit. apply small_land. exact Hw. Qed.

(* ---- storage bits ---- *)
Lemma bit_beyond bl i : 64 * length bl <= i -> bit bl i = false.
Proof. intros H. unfold bit. rewrite nth_overflow by lia. apply N.bits_0. Qed.

Lemma bit_set_nth bl j w i : j < length bl ->
  bit (set_nth bl j w) i = if i / 64 =? j then N.testbit w (N.of_nat (i mod 64)) else bit bl i.
Proof.
  intros Hj. unfold bit. rewrite nth_set_nth by exact Hj.
  destruct (i / 64 =? j); reflexivity.
Qed.

(* writing one bit: blocks[i0/64] |= 1 << (i0%64)  or  &= !(1 << (i0%64)) *)
Definition write_bit (bl : list N) (i0 : nat) (v : bool) : list N :=
  set_nth bl (i0 / 64)
    ((fun w => if v then set_bit w (i0 mod 64) else clear_bit w (i0 mod 64)) (nth (i0 / 64) bl 0%N)).

Lemma bit_write_bit bl i0 v i : i0 / 64 < length bl ->
  bit (write_bit bl i0 v) i = if i =? i0 then v else bit bl i.
Proof.
  intros H. unfold write_bit. rewrite bit_set_nth by exact H.
  destruct (Nat.eqb_spec (i / 64) (i0 / 64)) as [Hq|Hq].
  - assert (Hm : i mod 64 < 64) by (apply Nat.mod_upper_bound; lia).
    assert (Hb : bit bl i = N.testbit (nth (i0 / 64) bl 0%N) (N.of_nat (i mod 64)))
      by (unfold bit; rewrite Hq; reflexivity).
    rewrite Hb. set (w := nth (i0 / 64) bl 0%N).
    assert (He : (i mod 64 =? i0 mod 64) = (i =? i0)).
    { destruct (Nat.eqb_spec i i0) as [->|Hne]; [apply Nat.eqb_refl|apply Nat.eqb_neq; lia]. }
    cbv beta. destruct v.
    + rewrite testbit_set_bit, He. destruct (i =? i0); [apply orb_true_r|apply orb_false_r].
    + rewrite testbit_clear_bit by exact Hm. rewrite He.
      destruct (i =? i0); cbn [negb]; [apply andb_false_r|apply andb_true_r].
  - replace (i =? i0) with false; [reflexivity|]. symmetry. apply Nat.eqb_neq. intros ->. apply Hq. reflexivity.
Qed.

Lemma length_write_bit bl i0 v : length (write_bit bl i0 v) = length bl.
Proof. apply length_set_nth. Qed.

Definition blocks_ok (bl : list N) : Prop := Forall small bl.

Lemma blocks_ok_nth bl j : blocks_ok bl -> small (nth j bl 0%N).
Proof.
  intros H. destruct (Nat.lt_ge_cases j (length bl)) as [Hj|Hj].
  - unfold blocks_ok in H. rewrite Forall_forall in H. apply H. apply nth_In. exact Hj.
  - rewrite nth_overflow by exact Hj. apply small_0.
Qed.

Lemma blocks_ok_write_bit bl i0 v : blocks_ok bl -> blocks_ok (write_bit bl i0 v).
Proof.
  intros H. unfold write_bit. apply Forall_set_nth; [exact H|].
  pose proof (blocks_ok_nth bl (i0 / 64) H) as Hs.
  assert (Hm : i0 mod 64 < 64) by (apply Nat.mod_upper_bound; lia).
  destruct v; [apply small_set_bit; assumption|apply small_clear_bit; assumption].
Qed.

Lemma blocks_ok_app_zeros bl n : blocks_ok bl -> blocks_ok (bl ++ repeat 0%N n).
Proof.
  intros H. apply Forall_app. split; [exact H|]. apply Forall_forall. intros x Hx.
  apply repeat_spec in Hx. subst. apply small_0.
Qed.

Lemma bit_app_zeros bl n i : bit (bl ++ repeat 0%N n) i = bit bl i.
Proof.
  unfold bit. destruct (Nat.lt_ge_cases (i / 64) (length bl)) as [H|H].
  - rewrite app_nth1 by exact H. reflexivity.
  - rewrite app_nth2 by exact H. rewrite nth_repeat0. rewrite (nth_overflow bl) by exact H. reflexivity.
Qed.

Lemma bit_firstn bl n i : i < 64 * n -> bit (firstn n bl) i = bit bl i.
Proof. intros H. unfold bit. rewrite nth_firstn by lia. reflexivity. Qed.

(* ---- invariant in its working form ---- *)
Definition inv' (s : bv) : Prop :=
  blocks_ok (blocks s) /\ len s <= 64 * length (blocks s) /\ forall i, len s <= i -> bit (blocks s) i = false.

Lemma blocks_ok_iff bl : Forall (fun w => (w < 2 ^ 64)%N) bl <-> blocks_ok bl.
Proof. unfold blocks_ok. rewrite !Forall_forall. split; intros H x Hx; apply small_lt; apply H; exact Hx. Qed.

Lemma inv_iff s : bv_inv s <-> inv' s.
Proof.
  unfold bv_inv, inv'. rewrite blocks_ok_iff. split; intros (A & B & C); repeat split; auto.
  intros i Hi. destruct (Nat.lt_ge_cases i (64 * length (blocks s))) as [H|H]; [apply C; assumption|].
  apply bit_beyond. exact H.
Qed.

(* ---- abstraction ---- *)
Lemma abs_length s : length (bv_abs s) = len s.
Proof. unfold bv_abs. rewrite map_length, seq_length. reflexivity. Qed.

Lemma abs_nth s i : i < len s -> nth i (bv_abs s) false = bit (blocks s) i.
Proof.
  intros H. unfold bv_abs.
  rewrite (nth_indep _ false (bit (blocks s) 0)) by (rewrite map_length, seq_length; exact H).
  rewrite map_nth, seq_nth by exact H. reflexivity.
Qed.

Lemma abs_nth_inv s i : inv' s -> nth i (bv_abs s) false = bit (blocks s) i.
Proof.
  intros (_ & _ & Hz). destruct (Nat.lt_ge_cases i (len s)) as [H|H]; [apply abs_nth; exact H|].
  rewrite nth_overflow by (rewrite abs_length; exact H). symmetry. apply Hz. exact H.
Qed.

Lemma abs_eq s l : length l = len s -> (forall i, i < len s -> nth i l false = bit (blocks s) i) -> bv_abs s = l.
Proof.
  intros Hl Hn. apply list_eq_nth; [rewrite abs_length; lia|].
  intros i Hi. rewrite abs_length in Hi. rewrite abs_nth by exact Hi. symmetry. apply Hn. exact Hi.
Qed.

(* ---- growing loops ---- *)
Lemma grow_while_spec cond m : (forall n, cond n = (n <? m)) ->
  forall fuel bl, m - length bl <= fuel -> grow_while fuel cond bl = bl ++ repeat 0%N (m - length bl).
Proof.
  intros Hc. induction fuel as [|f IH]; intros bl Hf; cbn [grow_while].
  - replace (m - length bl) with 0 by lia. cbn [repeat]. rewrite app_nil_r. reflexivity.
  - rewrite Hc. destruct (Nat.ltb_spec (length bl) m) as [H|H].
    + unfold fv_push. rewrite IH by (rewrite app_length; cbn [length]; lia).
      rewrite app_length. cbn [length]. rewrite <- app_assoc. f_equal.
      replace (m - length bl) with (S (m - (length bl + 1))) by lia. reflexivity.
    + replace (m - length bl) with 0 by lia. cbn [repeat]. rewrite app_nil_r. reflexivity.
Qed.

(* case analysis on every nat comparison in the goal *)
Ltac cmp_cases :=
  repeat match goal with
  | |- context [?a <? ?b] => destruct (Nat.ltb_spec a b)
  | |- context [?a <=? ?b] => destruct (Nat.leb_spec a b)
  | |- context [?a =? ?b] => destruct (Nat.eqb_spec a b)
  end; cbn [andb orb negb].

Lemma nth_app_false l k j : nth j (l ++ repeat false k) false = nth j l false.
Proof.
  destruct (Nat.lt_ge_cases j (length l)) as [H|H].
  - apply app_nth1. exact H.
  - rewrite app_nth2 by exact H. rewrite nth_repeat_false. symmetry. apply nth_overflow. exact H.
Qed.

Lemma nth_snoc (l : list bool) v j :
  nth j (l ++ [v]) false = if j <? length l then nth j l false else if j =? length l then v else false.
Proof.
  cmp_cases.
  - apply app_nth1. assumption.
  - subst. rewrite app_nth2 by lia. rewrite Nat.sub_diag. reflexivity.
  - apply nth_overflow. rewrite app_length. cbn [length]. lia.
Qed.

Lemma length_ensure1 l i : length (ensure1 l i) = Nat.max (length l) (S i).
Proof.
  unfold ensure1. rewrite length_upd; rewrite app_length, repeat_length; lia.
Qed.

Lemma nth_ensure1 l i j : nth j (ensure1 l i) false = if j =? i then true else nth j l false.
Proof.
  unfold ensure1. rewrite nth_upd by (rewrite app_length, repeat_length; lia).
  rewrite nth_app_false. reflexivity.
Qed.

(* ---- writing one bit, possibly after growing ---- *)
Lemma write_inv_gen s bl' i0 v n :
  inv' s -> blocks_ok bl' -> (forall j, bit bl' j = bit (blocks s) j) ->
  length (blocks s) <= length bl' -> i0 / 64 < length bl' -> n = Nat.max (len s) (S i0) ->
  inv' {| blocks := write_bit bl' i0 v; len := n |}.
Proof.
  intros (Hok & Hlen & Hz) Hok' Hb Hl Hi Hn. unfold inv'. cbn [blocks len].
  split; [apply blocks_ok_write_bit; exact Hok'|].
  rewrite length_write_bit. split; [lia|].
  intros i Hge. rewrite bit_write_bit by exact Hi.
  replace (i =? i0) with false by (symmetry; apply Nat.eqb_neq; lia).
  rewrite Hb. apply Hz. lia.
Qed.

Lemma write_bit_gen s bl' i0 v j :
  (forall j, bit bl' j = bit (blocks s) j) -> i0 / 64 < length bl' ->
  bit (write_bit bl' i0 v) j = if j =? i0 then v else bit (blocks s) j.
Proof. intros Hb Hi. rewrite bit_write_bit by exact Hi. rewrite Hb. reflexivity. Qed.

Lemma modify_write bl i0 (v : bool) : i0 / 64 < length bl ->
  modify_block bl (i0 / 64) (fun w => if v then set_bit w (i0 mod 64) else clear_bit w (i0 mod 64))
  = Some (write_bit bl i0 v).
Proof. intros H. rewrite modify_block_in by exact H. reflexivity. Qed.

Lemma modify_write1 bl i0 : i0 / 64 < length bl ->
  modify_block bl (i0 / 64) (fun w => set_bit w (i0 mod 64)) = Some (write_bit bl i0 true).
Proof. intros H. rewrite modify_block_in by exact H. reflexivity. Qed.

Lemma modify_write0 bl i0 : i0 / 64 < length bl ->
  modify_block bl (i0 / 64) (fun w => clear_bit w (i0 mod 64)) = Some (write_bit bl i0 false).
Proof. intros H. rewrite modify_block_in by exact H. reflexivity. Qed.

(* ---- get / set ---- *)
Lemma bv_get_in s i : inv' s -> i < len s -> bv_get s i = Some (Some (bit (blocks s) i)).
Proof.
  intros (_ & Hlen & _) Hi. unfold bv_get, BITS_PER_BLOCK.
  replace (len s <=? i) with false by (symmetry; apply Nat.leb_gt; exact Hi).
  rewrite nth_error_nth_N by lia. reflexivity.
Qed.

Lemma bv_get_out s i : len s <= i -> bv_get s i = Some None.
Proof.
  intros Hi. unfold bv_get. replace (len s <=? i) with true by (symmetry; apply Nat.leb_le; exact Hi). reflexivity.
Qed.

Lemma bv_set_in s i v : inv' s -> i < len s ->
  bv_set s i v = Some ({| blocks := write_bit (blocks s) i v; len := len s |}, true).
Proof.
  intros (_ & Hlen & _) Hi. unfold bv_set, BITS_PER_BLOCK.
  replace (len s <=? i) with false by (symmetry; apply Nat.leb_gt; exact Hi).
  rewrite modify_write by lia. reflexivity.
Qed.

Lemma bv_set_out s i v : len s <= i -> bv_set s i v = Some (s, false).
Proof.
  intros Hi. unfold bv_set. replace (len s <=? i) with true by (symmetry; apply Nat.leb_le; exact Hi). reflexivity.
Qed.

Lemma set_state_inv s i v : inv' s -> i < len s ->
  inv' {| blocks := write_bit (blocks s) i v; len := len s |}.
Proof.
  intros Hinv Hi. pose proof Hinv as (Hok & Hlen & _).
  apply (write_inv_gen s); auto; lia.
Qed.

Lemma set_state_abs s i v : inv' s -> i < len s ->
  bv_abs {| blocks := write_bit (blocks s) i v; len := len s |} = upd (bv_abs s) i v.
Proof.
  intros Hinv Hi. pose proof Hinv as (Hok & Hlen & _).
  apply abs_eq; cbn [blocks len].
  - rewrite length_upd; rewrite abs_length; auto.
  - intros j Hj. rewrite nth_upd by (rewrite abs_length; exact Hi).
    rewrite abs_nth_inv by exact Hinv. rewrite bit_write_bit by lia. reflexivity.
Qed.

(* ---- push ---- *)
Lemma bv_push_eq s v :
  bv_push s v = Some {| blocks := write_bit (blocks s ++ repeat 0%N (S (len s / 64) - length (blocks s))) (len s) v;
                        len := len s + 1 |}.
Proof.
  unfold bv_push, BITS_PER_BLOCK.
  rewrite (grow_while_spec _ (S (len s / 64))); [| intros n; cmp_cases; lia | lia].
  rewrite modify_write by (rewrite app_length, repeat_length; lia). reflexivity.
Qed.

Lemma bv_push_spec s v : inv' s ->
  exists s', bv_push s v = Some s' /\ inv' s' /\ bv_abs s' = bv_abs s ++ [v] /\ len s' = len s + 1 /\
             forall j, bit (blocks s') j = if j =? len s then v else bit (blocks s) j.
Proof.
  intros Hinv. pose proof Hinv as (Hok & Hlen & Hz).
  eexists. split; [apply bv_push_eq|].
  set (bl' := blocks s ++ repeat 0%N (S (len s / 64) - length (blocks s))).
  assert (Hb : forall j, bit bl' j = bit (blocks s) j) by (intros j; apply bit_app_zeros).
  assert (Hl : len s / 64 < length bl') by (unfold bl'; rewrite app_length, repeat_length; lia).
  assert (Hbits : forall j, bit (write_bit bl' (len s) v) j = if j =? len s then v else bit (blocks s) j)
    by (intros j; apply write_bit_gen; assumption).
  split; [|split; [|split; [reflexivity|exact Hbits]]].
  - apply (write_inv_gen s); auto.
    + apply blocks_ok_app_zeros. exact Hok.
    + unfold bl'. rewrite app_length. lia.
    + lia.
  - apply abs_eq; cbn [blocks len].
    + rewrite app_length, abs_length. reflexivity.
    + intros j Hj. rewrite nth_snoc, abs_length, abs_nth_inv by exact Hinv. rewrite Hbits.
      cmp_cases; try reflexivity; exfalso; lia.
Qed.

Lemma bv_push_n_spec v : forall n s, inv' s ->
  exists s', bv_push_n n s v = Some s' /\ inv' s' /\ bv_abs s' = bv_abs s ++ repeat v n.
Proof.
  induction n as [|n IH]; intros s Hinv; cbn [bv_push_n repeat].
  - exists s. rewrite app_nil_r. auto.
  - destruct (bv_push_spec s v Hinv) as (s1 & E1 & I1 & A1 & _). rewrite E1.
    destruct (IH s1 I1) as (s2 & E2 & I2 & A2). exists s2. split; [exact E2|]. split; [exact I2|].
    rewrite A2, A1, <- app_assoc. reflexivity.
Qed.

(* ---- pop ---- *)
Lemma bv_pop_spec s : inv' s -> 0 < len s ->
  exists s', bv_pop s = Some (s', Some (nth (len s - 1) (bv_abs s) false)) /\ inv' s' /\
             bv_abs s' = firstn (len s - 1) (bv_abs s).
Proof.
  intros Hinv Hpos. pose proof Hinv as (Hok & Hlen & Hz).
  exists {| blocks := write_bit (blocks s) (len s - 1) false; len := len s - 1 |}.
  assert (Hi : (len s - 1) / 64 < length (blocks s)) by lia.
  split; [|split].
  - unfold bv_pop, BITS_PER_BLOCK.
    replace (len s =? 0) with false by (symmetry; apply Nat.eqb_neq; lia).
    rewrite nth_error_nth_N by exact Hi. rewrite modify_write0 by exact Hi.
    rewrite abs_nth by lia. reflexivity.
  - unfold inv'. cbn [blocks len]. split; [apply blocks_ok_write_bit; exact Hok|].
    rewrite length_write_bit. split; [lia|].
    intros i Hge. rewrite bit_write_bit by exact Hi. cmp_cases; [reflexivity|]. apply Hz. lia.
  - apply abs_eq; cbn [blocks len].
    + rewrite firstn_length, abs_length. lia.
    + intros j Hj. rewrite nth_firstn by exact Hj. rewrite abs_nth_inv by exact Hinv.
      rewrite bit_write_bit by exact Hi. cmp_cases; [exfalso; lia|reflexivity].
Qed.

Lemma bv_pop_empty s : len s = 0 -> bv_pop s = Some (s, None).
Proof. intros H. unfold bv_pop. rewrite H. reflexivity. Qed.

(* ---- resize ---- *)
Lemma Forall_firstn_N (P : N -> Prop) n l : Forall P l -> Forall P (firstn n l).
Proof. intros H. revert n; induction H as [|x l Hx Hl IH]; intros [|n]; cbn [firstn]; constructor; auto. Qed.
Lemma bv_resize_down s n v : inv' s -> n < len s ->
  exists s', bv_resize s n v = Some s' /\ inv' s' /\ bv_abs s' = firstn n (bv_abs s).
Proof.
  intros Hinv Hn. pose proof Hinv as (Hok & Hlen & Hz).
  unfold bv_resize, BITS_PER_BLOCK.
  replace (len s <? n) with false by (symmetry; apply Nat.ltb_ge; lia).
  replace (n <? len s) with true by (symmetry; apply Nat.ltb_lt; lia).
  set (rb := (n + 64 - 1) / 64).
  assert (Hrb : rb <= length (blocks s)) by (unfold rb; lia).
  assert (Hfv : fv_resize (blocks s) rb 0%N = firstn rb (blocks s)).
  { unfold fv_resize. replace (rb - length (blocks s)) with 0 by lia. cbn [repeat]. apply app_nil_r. }
  rewrite Hfv. set (bl1 := firstn rb (blocks s)).
  assert (Hl1 : length bl1 = rb) by (unfold bl1; rewrite firstn_length; lia).
  assert (Hok1 : blocks_ok bl1) by (apply Forall_firstn_N; exact Hok).
  assert (Hb1 : forall j, j < 64 * rb -> bit bl1 j = bit (blocks s) j) by (intros j Hj; apply bit_firstn; exact Hj).
  (* the state without masking is already right when the length is a multiple of 64 *)
  assert (Hplain : n mod 64 = 0 ->
            inv' {| blocks := bl1; len := n |} /\ bv_abs {| blocks := bl1; len := n |} = firstn n (bv_abs s)).
  { intros Hr. split.
    - unfold inv'. cbn [blocks len]. split; [exact Hok1|]. split; [unfold rb in *; lia|].
      intros i Hi. apply bit_beyond. unfold rb in *. lia.
    - apply abs_eq; cbn [blocks len].
      + rewrite firstn_length, abs_length. lia.
      + intros j Hj. rewrite nth_firstn by exact Hj. rewrite abs_nth_inv by exact Hinv.
        symmetry. apply Hb1. unfold rb. lia. }
  destruct (Nat.ltb_spec 0 n) as [Hpos|Hzero].
  - destruct (Nat.ltb_spec 0 (n mod 64)) as [Hr|Hr].
    + assert (Hlast : (n - 1) / 64 < length bl1) by (rewrite Hl1; unfold rb; lia).
      rewrite modify_block_in by exact Hlast.
      eexists. split; [reflexivity|].
      assert (Hbits : forall j, bit (set_nth bl1 ((n - 1) / 64)
                                   (N.land (nth ((n - 1) / 64) bl1 0%N) (low_mask (n mod 64)))) j
                                = if j <? n then bit (blocks s) j else false).
      { intros j. rewrite bit_set_nth by exact Hlast.
        destruct (Nat.eqb_spec (j / 64) ((n - 1) / 64)) as [Hq|Hq].
        - rewrite testbit_low_mask. rewrite <- Hq. fold (bit bl1 j).
          destruct (Nat.ltb_spec j n) as [Hjn|Hjn].
          + replace (j mod 64 <? n mod 64) with true by (symmetry; apply Nat.ltb_lt; lia).
            rewrite andb_true_r. apply Hb1. unfold rb. lia.
          + replace (j mod 64 <? n mod 64) with false by (symmetry; apply Nat.ltb_ge; lia).
            apply andb_false_r.
        - destruct (Nat.ltb_spec j n) as [Hjn|Hjn].
          + apply Hb1. unfold rb. lia.
          + apply bit_beyond. rewrite Hl1. unfold rb. lia. }
      split.
      * unfold inv'. cbn [blocks len]. split.
        -- apply Forall_set_nth; [exact Hok1|]. apply small_land. apply blocks_ok_nth. exact Hok1.
        -- rewrite length_set_nth, Hl1. split; [unfold rb; lia|].
           intros i Hi. rewrite Hbits. replace (i <? n) with false by (symmetry; apply Nat.ltb_ge; lia). reflexivity.
      * apply abs_eq; cbn [blocks len].
        -- rewrite firstn_length, abs_length. lia.
        -- intros j Hj. rewrite nth_firstn by exact Hj. rewrite abs_nth_inv by exact Hinv. rewrite Hbits.
           replace (j <? n) with true by (symmetry; apply Nat.ltb_lt; lia). reflexivity.
    + eexists. split; [reflexivity|]. apply Hplain. lia.
  - eexists. split; [reflexivity|]. apply Hplain. assert (n = 0) by lia. subst. reflexivity.
Qed.

Lemma bv_resize_spec s n v : inv' s ->
  exists s', bv_resize s n v = Some s' /\ inv' s' /\
             bv_abs s' = firstn n (bv_abs s) ++ repeat v (n - length (bv_abs s)).
Proof.
  intros Hinv. rewrite abs_length.
  destruct (Nat.lt_trichotomy (len s) n) as [H|[H|H]].
  - unfold bv_resize. replace (len s <? n) with true by (symmetry; apply Nat.ltb_lt; lia).
    destruct (bv_push_n_spec v (n - len s) s Hinv) as (s' & E & I & A).
    exists s'. split; [exact E|]. split; [exact I|]. rewrite A.
    rewrite firstn_all2 by (rewrite abs_length; lia). reflexivity.
  - exists s. split; [|split; [exact Hinv|]].
    + unfold bv_resize. rewrite H, Nat.ltb_irrefl. reflexivity.
    + rewrite firstn_all2 by (rewrite abs_length; lia).
      replace (n - len s) with 0 by lia. cbn [repeat]. rewrite app_nil_r. reflexivity.
  - destruct (bv_resize_down s n v Hinv H) as (s' & E & I & A).
    exists s'. split; [exact E|]. split; [exact I|]. rewrite A.
    replace (n - len s) with 0 by lia. cbn [repeat]. rewrite app_nil_r. reflexivity.
Qed.

(* ---- ensure_set1 / fast_ensure_set1 ---- *)
(* the common outcome: bit i written in (possibly grown) storage, len = max len (i+1) *)
Lemma ensure_state s bl' i n :
  inv' s -> blocks_ok bl' -> (forall j, bit bl' j = bit (blocks s) j) ->
  length (blocks s) <= length bl' -> i / 64 < length bl' -> n = Nat.max (len s) (S i) ->
  inv' {| blocks := write_bit bl' i true; len := n |} /\
  bv_abs {| blocks := write_bit bl' i true; len := n |} = ensure1 (bv_abs s) i.
Proof.
  intros Hinv Hok' Hb Hl Hi Hn. split; [apply (write_inv_gen s); assumption|].
  apply abs_eq; cbn [blocks len].
  - rewrite length_ensure1, abs_length. lia.
  - intros j Hj. rewrite nth_ensure1, abs_nth_inv by exact Hinv.
    rewrite (write_bit_gen s) by assumption. reflexivity.
Qed.

Lemma bv_grow_and_set1_spec s i : inv' s -> len s <= i ->
  exists s', bv_grow_and_set1 s i = Some s' /\ inv' s' /\ bv_abs s' = ensure1 (bv_abs s) i.
Proof.
  intros Hinv Hi. pose proof Hinv as (Hok & Hlen & Hz).
  unfold bv_grow_and_set1, BITS_PER_BLOCK.
  rewrite (grow_while_spec _ ((i + 1 + 64 - 1) / 64)); [| intros n; reflexivity | lia].
  set (bl' := blocks s ++ repeat 0%N ((i + 1 + 64 - 1) / 64 - length (blocks s))).
  assert (Hl : i / 64 < length bl') by (unfold bl'; rewrite app_length, repeat_length; lia).
  rewrite modify_write1 by exact Hl.
  eexists. split; [reflexivity|].
  apply (ensure_state s); auto.
  - apply blocks_ok_app_zeros. exact Hok.
  - intros j. apply bit_app_zeros.
  - unfold bl'. rewrite app_length. lia.
  - lia.
Qed.

Lemma bv_ensure_set1_spec s i : inv' s ->
  exists s', bv_ensure_set1 s i = Some s' /\ inv' s' /\ bv_abs s' = ensure1 (bv_abs s) i.
Proof.
  intros Hinv. pose proof Hinv as (Hok & Hlen & Hz). unfold bv_ensure_set1, BITS_PER_BLOCK.
  destruct (Nat.ltb_spec i (len s)) as [H|H].
  - rewrite modify_write1 by lia. eexists. split; [reflexivity|].
    apply (ensure_state s); auto; lia.
  - apply bv_grow_and_set1_spec; assumption.
Qed.

Lemma unused_bits_zero s a n : inv' s -> len s <= a ->
  forallb (unused_bit_is_zero (blocks s)) (seq a n) = true.
Proof.
  intros (Hok & Hlen & Hz) Ha. apply forallb_forall. intros j Hj. apply in_seq in Hj.
  unfold unused_bit_is_zero, BITS_PER_BLOCK.
  destruct (nth_error (blocks s) (j / 64)) as [w|] eqn:E; [|reflexivity].
  assert (Hb : bit (blocks s) j = false) by (apply Hz; lia).
  unfold bit in Hb. rewrite (nth_error_nth _ _ _ E) in Hb. unfold test_bit. rewrite Hb. reflexivity.
Qed.

Lemma bv_fast_ensure_set1_spec s i : inv' s ->
  exists s', bv_fast_ensure_set1 s i = Some s' /\ inv' s' /\ bv_abs s' = ensure1 (bv_abs s) i.
Proof.
  intros Hinv. pose proof Hinv as (Hok & Hlen & Hz). unfold bv_fast_ensure_set1, BITS_PER_BLOCK.
  destruct (Nat.ltb_spec i (length (blocks s) * 64)) as [Hcap|Hcap].
  - destruct (Nat.leb_spec (len s) i) as [H|H].
    + rewrite unused_bits_zero by (auto; lia).
      rewrite modify_write1 by lia. eexists. split; [reflexivity|].
      apply (ensure_state s); auto; lia.
    + rewrite modify_write1 by lia. eexists. split; [reflexivity|].
      apply (ensure_state s); auto; lia.
  - unfold bv_fast_ensure_set1_slow_path, BITS_PER_BLOCK.
    rewrite unused_bits_zero by (auto; lia).
    apply bv_grow_and_set1_spec; [assumption|lia].
Qed.

(* ---- insert ---- *)
Lemma bv_insert_loop_spec index : forall n s, inv' s -> index + n < len s ->
  exists s', bv_insert_loop s index n = Some (s', true) /\ inv' s' /\ len s' = len s /\
    forall j, bit (blocks s') j =
              if (index <? j) && (j <=? index + n) then bit (blocks s) (j - 1) else bit (blocks s) j.
Proof.
  induction n as [|n IH]; intros s Hinv Hn.
  - exists s. cbn [bv_insert_loop]. split; [reflexivity|]. split; [exact Hinv|]. split; [reflexivity|].
    intros j. cmp_cases; try reflexivity. exfalso; lia.
  - cbn [bv_insert_loop].
    rewrite bv_get_in by (auto; lia).
    rewrite bv_set_in by (auto; lia).
    set (b := bit (blocks s) (index + S n - 1)).
    set (s1 := {| blocks := write_bit (blocks s) (index + S n) b; len := len s |}).
    assert (I1 : inv' s1) by (apply set_state_inv; [exact Hinv|lia]).
    destruct (IH s1 I1) as (s' & E & I' & L' & B'); [unfold s1; cbn [len]; lia|].
    exists s'. split; [exact E|]. split; [exact I'|]. split; [exact L'|].
    intros j. rewrite B'. unfold s1. cbn [blocks].
    pose proof Hinv as (_ & Hlen & _).
    rewrite !bit_write_bit by lia. unfold b.
    cmp_cases; try reflexivity; try (exfalso; lia); f_equal; lia.
Qed.

Lemma bv_insert_spec s index v : inv' s -> index <= len s ->
  exists s', bv_insert s index v = Some (s', true) /\ inv' s' /\ bv_abs s' = ins (bv_abs s) index v.
Proof.
  intros Hinv Hi. pose proof Hinv as (Hok & Hlen & Hz). unfold bv_insert.
  replace (len s <? index) with false by (symmetry; apply Nat.ltb_ge; lia).
  destruct (bv_push_spec s false Hinv) as (s1 & E1 & I1 & _ & L1 & B1). rewrite E1.
  destruct (bv_insert_loop_spec index (len s1 - (index + 1)) s1 I1) as (s2 & E2 & I2 & L2 & B2); [lia|].
  rewrite E2. rewrite bv_set_in by (auto; lia).
  eexists. split; [reflexivity|]. split; [apply set_state_inv; [exact I2|lia]|].
  apply abs_eq; cbn [blocks len].
  - rewrite length_ins by (rewrite abs_length; exact Hi). rewrite abs_length. lia.
  - intros j Hj. rewrite nth_ins by (rewrite abs_length; exact Hi).
    rewrite !abs_nth_inv by exact Hinv.
    pose proof I2 as (_ & Hlen2 & _).
    rewrite bit_write_bit by lia. rewrite B2, !B1.
    cmp_cases; try reflexivity; try (exfalso; lia).
Qed.

Lemma bv_insert_out s index v : len s < index -> bv_insert s index v = Some (s, false).
Proof.
  intros H. unfold bv_insert. replace (len s <? index) with true by (symmetry; apply Nat.ltb_lt; lia). reflexivity.
Qed.

(* ---- counting ---- *)
(* ones among the storage bits [a, a+n) *)
Definition cnt (bl : list N) (a n : nat) : nat := count1 (map (bit bl) (seq a n)).

Lemma cnt_add bl a m n : cnt bl a (m + n) = cnt bl a m + cnt bl (a + m) n.
Proof. unfold cnt. rewrite seq_app, map_app, count1_app. reflexivity. Qed.

Lemma bits64_block bl j : bits64 (nth j bl 0%N) = map (bit bl) (seq (64 * j) 64).
Proof.
  unfold bits64. rewrite (seq_offset (64 * j) 64), map_map. apply map_ext_in.
  intros k Hk. apply in_seq in Hk. unfold bit.
  replace ((64 * j + k) / 64) with j by lia. replace ((64 * j + k) mod 64) with k by lia. reflexivity.
Qed.

Lemma popcount_block bl j : popcountN (nth j bl 0%N) = cnt bl (64 * j) 64.
Proof. unfold popcountN, cnt. rewrite bits64_block. reflexivity. Qed.

Lemma popcount_masked bl j r : r < 64 ->
  popcountN (N.land (nth j bl 0%N) (low_mask r)) = cnt bl (64 * j) r.
Proof.
  intros Hr. unfold popcountN, cnt, bits64.
  replace 64 with (r + (64 - r)) at 1 by lia. rewrite seq_app, map_app, count1_app.
  rewrite (count1_all_false _ (seq (0 + r) (64 - r))).
  - rewrite Nat.add_0_r. rewrite (seq_offset (64 * j) r), map_map. f_equal. apply map_ext_in.
    intros k Hk. apply in_seq in Hk. rewrite testbit_low_mask.
    replace (k <? r) with true by (symmetry; apply Nat.ltb_lt; lia). rewrite andb_true_r.
    unfold bit. replace ((64 * j + k) / 64) with j by lia. replace ((64 * j + k) mod 64) with k by lia. reflexivity.
  - intros k Hk. apply in_seq in Hk. rewrite testbit_low_mask.
    replace (k <? r) with false by (symmetry; apply Nat.ltb_ge; lia). apply andb_false_r.
Qed.

Lemma count_blocks_spec bl : forall n i acc, i + n <= length bl ->
  count_blocks bl i n acc = Some (acc + cnt bl (64 * i) (64 * n)).
Proof.
  induction n as [|n IH]; intros i acc H; cbn [count_blocks].
  - replace (64 * 0) with 0 by lia. unfold cnt. cbn [seq map count1]. f_equal. lia.
  - rewrite nth_error_nth_N by lia. rewrite IH by lia. f_equal.
    rewrite popcount_block. replace (64 * S n) with (64 + 64 * n) by lia. rewrite cnt_add.
    replace (64 * i + 64) with (64 * S i) by lia. lia.
Qed.

Lemma count_upto_spec bl pos : pos <= 64 * length bl -> count_upto bl pos = Some (cnt bl 0 pos).
Proof.
  intros H. unfold count_upto, BITS_PER_BLOCK.
  rewrite count_blocks_spec by lia. cbn [Nat.add]. replace (64 * 0) with 0 by lia.
  assert (Hp : pos = 64 * (pos / 64) + pos mod 64) by (apply Nat.div_mod; lia).
  destruct (Nat.ltb_spec 0 (pos mod 64)) as [Hr|Hr]; cbn [andb].
  - replace (pos / 64 <? length bl) with true by (symmetry; apply Nat.ltb_lt; lia).
    rewrite nth_error_nth_N by lia. f_equal.
    rewrite popcount_masked by (apply Nat.mod_upper_bound; lia).
    replace (cnt bl 0 pos) with (cnt bl 0 (64 * (pos / 64) + pos mod 64)) by (rewrite <- Hp; reflexivity).
    rewrite cnt_add. reflexivity.
  - f_equal. replace (64 * (pos / 64)) with pos by lia. lia.
Qed.

Lemma firstn_seq_le p : forall a n, p <= n -> firstn p (seq a n) = seq a p.
Proof.
  induction p as [|p IH]; intros a n H; [reflexivity|]. destruct n as [|n]; [lia|].
  cbn [seq firstn]. f_equal. apply IH. lia.
Qed.

Lemma rank1_abs s p : p <= len s -> rank1 (bv_abs s) p = cnt (blocks s) 0 p.
Proof.
  intros H. unfold rank1, bv_abs, cnt. rewrite firstn_map, firstn_seq_le by exact H. reflexivity.
Qed.

Lemma bv_rank1_spec s p : inv' s -> bv_rank1 s p = Some (rank1 (bv_abs s) (Nat.min p (length (bv_abs s)))).
Proof.
  intros (Hok & Hlen & Hz). rewrite abs_length. unfold bv_rank1.
  destruct (Nat.eqb_spec p 0) as [->|Hp]; [reflexivity|].
  rewrite count_upto_spec by lia. rewrite rank1_abs by lia. reflexivity.
Qed.

Lemma bv_count_ones_spec s : inv' s -> bv_count_ones s = Some (count1 (bv_abs s)).
Proof.
  intros (Hok & Hlen & Hz). unfold bv_count_ones. rewrite count_upto_spec by lia.
  rewrite <- rank1_abs by lia. f_equal. apply rank1_all. rewrite abs_length. lia.
Qed.

Lemma bv_rank0_spec s p : inv' s -> bv_rank0 s p = Some (rank0 (bv_abs s) (Nat.min p (length (bv_abs s)))).
Proof.
  intros Hinv. rewrite abs_length. unfold bv_rank0.
  destruct (Nat.eqb_spec p 0) as [->|Hp]; [reflexivity|].
  rewrite bv_rank1_spec by exact Hinv. rewrite abs_length.
  replace (Nat.min (Nat.min p (len s)) (len s)) with (Nat.min p (len s)) by lia.
  pose proof (rank0_rank1 (bv_abs s) (Nat.min p (len s))) as H. rewrite abs_length in H.
  assert (Hle : Nat.min p (len s) <= len s) by lia. specialize (H Hle).
  replace (Nat.min p (len s) <? rank1 (bv_abs s) (Nat.min p (len s))) with false
    by (symmetry; apply Nat.ltb_ge; lia).
  f_equal. lia.
Qed.

(* ---- the blocks are the 64-bit words of the abstract sequence, zero-padded ---- *)
Lemma word_length bs j : length (word bs j) = Nat.min 64 (length bs - 64 * j).
Proof. unfold word. rewrite firstn_length, skipn_length. reflexivity. Qed.

Lemma bv_blocks_are_words' s j : inv' s ->
  bits64 (nth j (blocks s) 0%N) = word (bv_abs s) j ++ repeat false (64 - length (word (bv_abs s) j)).
Proof.
  intros Hinv. pose proof Hinv as (Hok & Hlen & Hz).
  pose proof (word_length (bv_abs s) j) as Hwl. rewrite abs_length in Hwl.
  apply list_eq_nth.
  - rewrite app_length, repeat_length. unfold bits64. rewrite map_length, seq_length. lia.
  - intros k Hk. unfold bits64 in Hk. rewrite map_length, seq_length in Hk.
    rewrite bits64_block.
    rewrite (nth_indep _ false (bit (blocks s) 0)) by (rewrite map_length, seq_length; exact Hk).
    rewrite map_nth, seq_nth by exact Hk.
    destruct (Nat.lt_ge_cases k (length (word (bv_abs s) j))) as [Hin|Hout].
    + rewrite app_nth1 by exact Hin. unfold word. rewrite nth_firstn by exact Hk.
      rewrite nth_skipn. rewrite abs_nth by lia. reflexivity.
    + rewrite app_nth2 by exact Hout. rewrite nth_repeat_false. apply Hz. lia.
Qed.

Lemma count1_app_false l n : count1 (l ++ repeat false n) = count1 l.
Proof.
  rewrite count1_app. induction n as [|n IH]; cbn [repeat count1]; lia.
Qed.

Theorem bv_blocks_are_words : forall s j, bv_inv s ->
  bits64 (nth j (blocks s) 0%N) = word (bv_abs s) j ++ repeat false (64 - length (word (bv_abs s) j)).
Proof. intros s j H. apply bv_blocks_are_words'. apply inv_iff. exact H. Qed.

Theorem bv_blocks_popcount : forall s j, bv_inv s ->
  popcountN (nth j (blocks s) 0%N) = popcount (word (bv_abs s) j).
Proof.
  intros s j H. unfold popcountN, popcount. rewrite bv_blocks_are_words by exact H.
  apply count1_app_false.
Qed.

(* ---- one step ---- *)
Lemma bv_step_refines' s op : inv' s ->
  let '(s', o) := bv_step s op in
  let '(l', o') := ls_step (bv_abs s) op in
  inv' s' /\ bv_abs s' = l' /\ o = o'.
Proof.
  intros Hinv. destruct op as [b| |i b|n b|i|i|i b| |i|p|p| |]; cbn [bv_step ls_step].
  - (* push *)
    destruct (bv_push_spec s b Hinv) as (s' & E & I & A & _). rewrite E. auto.
  - (* pop *)
    rewrite abs_length. destruct (Nat.eqb_spec (len s) 0) as [H0|H0].
    + rewrite bv_pop_empty by exact H0. auto.
    + destruct (bv_pop_spec s Hinv) as (s' & E & I & A); [lia|]. rewrite E. auto.
  - (* set *)
    rewrite abs_length. destruct (Nat.ltb_spec i (len s)) as [H|H].
    + rewrite bv_set_in by assumption. split; [apply set_state_inv; assumption|].
      split; [apply set_state_abs; assumption|reflexivity].
    + rewrite bv_set_out by exact H. auto.
  - (* resize *)
    destruct (bv_resize_spec s n b Hinv) as (s' & E & I & A). rewrite E. auto.
  - (* ensure_set1 *)
    destruct (bv_ensure_set1_spec s i Hinv) as (s' & E & I & A). rewrite E. auto.
  - (* fast_ensure_set1 *)
    destruct (bv_fast_ensure_set1_spec s i Hinv) as (s' & E & I & A). rewrite E. auto.
  - (* insert *)
    rewrite abs_length. destruct (Nat.leb_spec i (len s)) as [H|H].
    + destruct (bv_insert_spec s i b Hinv H) as (s' & E & I & A). rewrite E. auto.
    + rewrite bv_insert_out by exact H. auto.
  - (* clear *)
    split; [|split; reflexivity].
    unfold inv', bv_clear, fv_clear. cbn [blocks len length]. split; [constructor|]. split; [lia|].
    intros i _. apply bit_beyond. cbn [length]. lia.
  - (* get *)
    rewrite abs_length. destruct (Nat.ltb_spec i (len s)) as [H|H].
    + rewrite bv_get_in by assumption. rewrite abs_nth by exact H. auto.
    + rewrite bv_get_out by exact H. auto.
  - (* rank1 *)
    rewrite bv_rank1_spec by exact Hinv. auto.
  - (* rank0 *)
    rewrite bv_rank0_spec by exact Hinv. auto.
  - (* count_ones *)
    rewrite bv_count_ones_spec by exact Hinv. auto.
  - (* len *)
    unfold bv_len. rewrite abs_length. auto.
Qed.

Theorem bv_step_refines : forall s op, bv_inv s ->
  let '(s', o) := bv_step s op in
  let '(l', o') := ls_step (bv_abs s) op in
  bv_inv s' /\ bv_abs s' = l' /\ o = o'.
Proof.
  intros s op H. apply inv_iff in H. pose proof (bv_step_refines' s op H) as R.
  destruct (bv_step s op) as [s' o]. destruct (ls_step (bv_abs s) op) as [l' o'].
  destruct R as (I & A & O). split; [apply inv_iff; exact I|]. auto.
Qed.

(* no step from a state satisfying the invariant panics *)
Theorem bv_step_no_panic : forall s op, bv_inv s -> snd (bv_step s op) <> PANIC.
Proof.
  intros s op H. pose proof (bv_step_refines s op H) as R.
  destruct (bv_step s op) as [s' o]. destruct (ls_step (bv_abs s) op) as [l' o'] eqn:E.
  destruct R as (_ & _ & ->). cbn [snd]. unfold PANIC.
  destruct op; cbn [ls_step] in E;
    repeat match type of E with
    | context [if ?c then _ else _] => destruct c
    end; inversion E; subst; unfold b2z; try lia;
    repeat match goal with |- context [if ?c then _ else _] => destruct c end; lia.
Qed.

(* ---- histories ---- *)
Theorem bv_run_refines : forall ops s, bv_inv s ->
  let '(s', obs) := bv_run s ops in
  let '(l', obs') := ls_run (bv_abs s) ops in
  obs = obs' /\ bv_abs s' = l' /\ bv_inv s'.
Proof.
  induction ops as [|op ops IH]; intros s H; cbn [bv_run ls_run].
  - auto.
  - pose proof (bv_step_refines s op H) as R.
    destruct (bv_step s op) as [s1 o]. destruct (ls_step (bv_abs s) op) as [l1 o'].
    destruct R as (I1 & A1 & ->). specialize (IH s1 I1). rewrite A1 in IH.
    destruct (bv_run s1 ops) as [s2 os]. destruct (ls_run l1 ops) as [l2 os'].
    destruct IH as (-> & A2 & I2). auto.
Qed.

Lemma bv_new_inv : bv_inv bv_new.
Proof.
  unfold bv_inv, bv_new. cbn [blocks len length]. split; [constructor|]. split; [lia|]. intros i _ H. lia.
Qed.

Theorem bitvector_history_refines_list_proof : forall ops,
  let '(s', obs) := bv_run bv_new ops in
  let '(l', obs') := ls_run [] ops in
  obs = obs' /\ bv_abs s' = l' /\ bv_inv s'.
Proof. intros ops. exact (bv_run_refines ops bv_new bv_new_inv). Qed.

(* with_size n v never panics and is the list of n copies of v *)
Theorem bv_with_size_refines : forall n v,
  exists s, bv_with_size n v = Some s /\ bv_inv s /\ bv_abs s = repeat v n.
Proof.
  intros n v. unfold bv_with_size.
  destruct (bv_resize_spec bv_new n v) as (s & E & I & A); [apply inv_iff; exact bv_new_inv|].
  exists s. split; [exact E|]. split; [apply inv_iff; exact I|]. rewrite A.
  cbn. rewrite firstn_nil. cbn [app]. f_equal. lia.
Qed.

Theorem bitvector_with_size_history_refines_list_proof : forall n v ops,
  exists s0, bv_with_size n v = Some s0 /\
  let '(s', obs) := bv_run s0 ops in
  let '(l', obs') := ls_run (repeat v n) ops in
  obs = obs' /\ bv_abs s' = l' /\ bv_inv s'.
Proof.
  intros n v ops. destruct (bv_with_size_refines n v) as (s0 & E & I & A).
  exists s0. split; [exact E|]. rewrite <- A. apply bv_run_refines. exact I.
Qed.

(* ---- the hypotheses are inhabited: a history crossing a block boundary ---- *)
Definition example_ops : list bvop :=
  [OResize 63 true; OPush false; OPush true; OPush true;  (* 66 bits: crosses the 64-bit boundary *)
   OPop; ORank1 65; OResize 10 false;                     (* pop, then truncate: block 1 is dropped *)
   OEnsureSet1 130; ORank1 200; ORank0 200;               (* grows by two blocks *)
   OFastEnsureSet1 131; OInsert 5 false; OSet 0 false; OGet 131; OGet 132; OCountOnes; OLen].

Example example_history :
  bv_run bv_new example_ops =
  ({| blocks := [2014%N; 0%N; 24%N]; len := 133 |},
   [0; 0; 0; 0; 1; 64; 0; 0; 11; 120; 0; 0; 0; 1; 1; 11; 133]%Z)
  /\ ls_run [] example_ops =
  (bv_abs {| blocks := [2014%N; 0%N; 24%N]; len := 133 |},
   [0; 0; 0; 0; 1; 64; 0; 0; 11; 120; 0; 0; 0; 1; 1; 11; 133]%Z)
  /\ bv_inv (fst (bv_run bv_new example_ops)).
Proof.
  split; [vm_compute; reflexivity|]. split; [vm_compute; reflexivity|].
  pose proof (bitvector_history_refines_list_proof example_ops) as H.
  destruct (bv_run bv_new example_ops) as [s obs]. destruct (ls_run [] example_ops) as [l obs'].
  cbn [fst]. tauto.
Qed.

(* ---- the harness entry point is covered by the same theorem ---- *)
Theorem bv_run_case_refines : forall init_size init_val use_init ops,
  let '(obs, bl, ln) := bv_run_case init_size init_val use_init ops in
  let l0 := if use_init then repeat init_val (N.to_nat init_size) else [] in
  let '(l', obs') := ls_run l0 (map bv_decode_op ops) in
  obs = obs' /\ bv_abs {| blocks := bl; len := N.to_nat ln |} = l' /\
  bv_inv {| blocks := bl; len := N.to_nat ln |}.
Proof.
  intros n v u ops. unfold bv_run_case.
  assert (H : exists s0, (if u then bv_with_size (N.to_nat n) v else Some bv_new) = Some s0 /\ bv_inv s0 /\
                         bv_abs s0 = if u then repeat v (N.to_nat n) else []).
  { destruct u; [apply bv_with_size_refines|]. exists bv_new. split; [reflexivity|]. split; [exact bv_new_inv|reflexivity]. }
  destruct H as (s0 & -> & I & A). cbv zeta. rewrite <- A.
  pose proof (bv_run_refines (map bv_decode_op ops) s0 I) as R.
  destruct (bv_run s0 (map bv_decode_op ops)) as [s obs].
  destruct (ls_run (bv_abs s0) (map bv_decode_op ops)) as [l' obs'].
  rewrite Nat2N.id. destruct s as [bl ln]. cbn [blocks len]. exact R.
Qed.
