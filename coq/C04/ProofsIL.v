(* C04: RankSelectInterleaved256 rank1/rank0/get/count_ones equal the definition for every bit list and
   every position (positions past the end are clamped to the length, as the code does). *)
From Coq Require Import List Arith NArith Lia Bool ZifyBool ZifyNat ZifyN.
From ZV.Common Require Import Base.
From ZV.C04 Require Import Spec Model ModelIL ProofsRank.
Import ListNotations.
Ltac Zify.zify_post_hook ::= Z.div_mod_to_equations.
Close Scope N_scope.
Open Scope nat_scope.

Lemma firstn_ge_length {A : Type} (n : nat) (l : list A) : length l <= n -> firstn n l = l.
Proof. intros H. apply firstn_all2. exact H. Qed.

(* a window cut at the end of the data is the plain 64-bit window *)
Lemma window_cut (bs : list bool) s n : Nat.min 64 (length bs - s) <= n <= 64 ->
  firstn n (skipn s bs) = firstn 64 (skipn s bs).
Proof.
  intros H. destruct (Nat.le_gt_cases (length bs - s) n) as [Hle|Hgt].
  - rewrite !firstn_ge_length by (rewrite skipn_length; lia). reflexivity.
  - assert (n = 64) by lia. subst. reflexivity.
Qed.

Lemma seg_past bs a n : length bs <= a -> seg bs a n = 0.
Proof. intros H. unfold seg. rewrite skipn_all2 by exact H. rewrite firstn_nil. reflexivity. Qed.

(* the data word stored for word w of the line starting at ls *)
Definition il_word bs ls w : list bool :=
  let s := ls + w * 64 in
  if s <? length bs then firstn (Nat.min (s + 64) (Nat.min (ls + 256) (length bs)) - s) (skipn s bs) else [].

Lemma il_word_window bs ls w : w <= 3 -> il_word bs ls w = firstn 64 (skipn (ls + w * 64) bs) \/
  (length bs <= ls + w * 64 /\ il_word bs ls w = []).
Proof.
  intros Hw. unfold il_word. destruct (Nat.ltb_spec (ls + w * 64) (length bs)) as [Hlt|Hge].
  - left. apply window_cut. lia.
  - right. split; [exact Hge|reflexivity].
Qed.

Lemma il_word_count bs ls w : w <= 3 -> count1 (il_word bs ls w) = seg bs (ls + w * 64) 64.
Proof.
  intros Hw. destruct (il_word_window bs ls w Hw) as [E|[Hge E]]; rewrite E.
  - reflexivity.
  - rewrite seg_past by exact Hge. reflexivity.
Qed.

Lemma il_words_unfold bs ls :
  let c := fun j => seg bs ls (64 * j) in
  il_words bs (length bs) ls (Nat.min (ls + 256) (length bs)) [0; 1; 2; 3] 0 =
  ([c 0 mod 256; c 1 mod 256; c 2 mod 256; c 3 mod 256],
   [il_word bs ls 0; il_word bs ls 1; il_word bs ls 2; il_word bs ls 3], c 4).
Proof.
  intros c.
  assert (Hc : forall j, j <= 3 -> c j + count1 (il_word bs ls j) = c (S j)).
  { intros j Hj. unfold c. rewrite il_word_count by exact Hj. replace (64 * S j) with (64 * j + 64) by lia.
    rewrite seg_add. f_equal. f_equal. lia. }
  assert (Hc0 : c 0 = 0) by reflexivity.
  cbn [il_words]. fold (il_word bs ls 0) (il_word bs ls 1) (il_word bs ls 2) (il_word bs ls 3).
  rewrite <- (Hc 3), <- (Hc 2), <- (Hc 1), <- (Hc 0) by lia. rewrite Hc0. reflexivity.
Qed.

Lemma il_lines_spec bs : forall n i cum,
  cum = rank1 bs (256 * i) ->
  let '(lines, total) := il_lines bs (length bs) n i cum in
  length lines = n /\ total = rank1 bs (256 * (i + n)) /\
  forall k, k < n ->
    let l := nth k lines il_dflt in
    rlev1 l = rank1 bs (256 * (i + k)) /\
    (forall j, j <= 3 -> nth j (rlev2 l) 0 = seg bs (256 * (i + k)) (64 * j)) /\
    (forall j, j <= 3 -> nth j (w64 l) [] = il_word bs (256 * (i + k)) j).
Proof.
  induction n as [|n IH]; intros i cum Hcum; cbn [il_lines].
  - split; [reflexivity|]. split; [rewrite Hcum; f_equal; lia|]. intros k Hk. lia.
  - replace (i * 256) with (256 * i) by lia. replace ((i + 1) * 256) with (256 * i + 256) by lia.
    pose proof (il_words_unfold bs (256 * i)) as Hl. cbv zeta in Hl. rewrite Hl.
    specialize (IH (S i) (cum + seg bs (256 * i) (64 * 4))).
    destruct (il_lines bs (length bs) n (S i) (cum + seg bs (256 * i) (64 * 4))) as [rest total].
    destruct IH as (Hlen & Htot & Hks).
    { rewrite Hcum. replace (256 * S i) with (256 * i + 64 * 4) by lia. rewrite rank1_seg. reflexivity. }
    split; [cbn [length]; lia|]. split; [rewrite Htot; f_equal; lia|].
    intros k Hlt. destruct k as [|k].
    + cbn [nth rlev1 rlev2 w64]. replace (i + 0) with i by lia. split; [exact Hcum|]. split.
      * intros j Hj.
        pose proof (seg_le bs (256 * i) (64 * 0)); pose proof (seg_le bs (256 * i) (64 * 1));
        pose proof (seg_le bs (256 * i) (64 * 2)); pose proof (seg_le bs (256 * i) (64 * 3)).
        do 4 (destruct j as [|j]; [cbn [nth]; apply Nat.mod_small; lia|]). lia.
      * intros j Hj. do 4 (destruct j as [|j]; [reflexivity|]). lia.
    + cbn [nth]. assert (Hk' : k < n) by lia. specialize (Hks k Hk'). replace (i + S k) with (S i + k) by lia. exact Hks.
Qed.

Theorem il_rank1_correct_proof bs p : il_rank1 (il_build bs) p = rank1 bs (Nat.min p (length bs)).
Proof.
  unfold il_build. destruct (Nat.eqb_spec (length bs) 0) as [H0|H0].
  { unfold il_rank1. cbn [il_bits]. rewrite Bool.orb_true_r. rewrite H0, Nat.min_0_r. reflexivity. }
  pose proof (il_lines_spec bs ((length bs + 255) / 256) 0 0 eq_refl) as Hb.
  destruct (il_lines bs (length bs) ((length bs + 255) / 256) 0 0) as [lines tot].
  destruct Hb as (Hlen & Htot & Hk). cbn [Nat.add] in *.
  unfold il_rank1. cbn [il_bits il_ones il_ls].
  replace (length bs =? 0) with false by (symmetry; apply Nat.eqb_neq; exact H0). rewrite Bool.orb_false_r.
  destruct (Nat.eqb_spec p 0) as [->|Hp0]; [reflexivity|].
  set (q := Nat.min p (length bs)). assert (Hq : 0 < q <= length bs) by lia.
  set (nl := (length bs + 255) / 256) in *.
  assert (Hnl : 256 * nl >= length bs /\ 256 * (nl - 1) < length bs) by (subst nl; lia).
  rewrite Hlen. destruct (Nat.leb_spec nl (q / 256)) as [Hout|Hin].
  - (* q = len, a multiple of 256: total_ones *)
    rewrite Htot. assert (q = 256 * nl) by lia. congruence.
  - destruct (Hk (q / 256) Hin) as (H1 & H2 & H3).
    rewrite H1. unfold il_rank1_within_line.
    assert (Hw : q mod 256 / 64 <= 3) by lia.
    rewrite H2, H3 by exact Hw.
    assert (Hdm : q = 256 * (q / 256) + 64 * (q mod 256 / 64) + (q mod 256) mod 64) by lia.
    set (a := 256 * (q / 256)) in *. set (w := q mod 256 / 64) in *. set (t := (q mod 256) mod 64) in *.
    destruct (Nat.ltb_spec 0 t) as [Ht|Ht].
    + assert (Hwin : count1 (firstn t (il_word bs a w)) = seg bs (a + 64 * w) t).
      { destruct (il_word_window bs a w Hw) as [E|[Hge E]].
        - rewrite E. rewrite firstn_firstn. replace (Nat.min t 64) with t by lia. unfold seg. do 3 f_equal. lia.
        - lia. }
      rewrite Hwin. rewrite Nat.add_assoc, <- rank1_seg, <- rank1_seg. f_equal. lia.
    + rewrite <- rank1_seg. f_equal. lia.
Qed.

Theorem il_rank0_correct_proof bs p : il_rank0 (il_build bs) p = rank0 bs (Nat.min p (length bs)).
Proof.
  unfold il_rank0. assert (Hb : il_bits (il_build bs) = length bs).
  { unfold il_build. destruct (Nat.eqb_spec (length bs) 0) as [H0|H0]; [cbn; lia|].
    destruct (il_lines bs (length bs) ((length bs + 255) / 256) 0 0). reflexivity. }
  rewrite Hb. destruct (Nat.eqb_spec p 0) as [->|Hp0]; [reflexivity|].
  destruct (Nat.eqb_spec (length bs) 0) as [H0|H0].
  { cbn [orb]. rewrite H0, Nat.min_0_r. reflexivity. }
  cbn [orb]. rewrite il_rank1_correct_proof.
  replace (Nat.min (Nat.min p (length bs)) (length bs)) with (Nat.min p (length bs)) by lia.
  pose proof (rank0_rank1 bs (Nat.min p (length bs))). lia.
Qed.

Theorem il_get_correct_proof bs i :
  il_get (il_build bs) i = if length bs <=? i then None else Some (nth i bs false).
Proof.
  unfold il_build. destruct (Nat.eqb_spec (length bs) 0) as [H0|H0].
  { unfold il_get. cbn [il_bits]. rewrite H0. reflexivity. }
  pose proof (il_lines_spec bs ((length bs + 255) / 256) 0 0 eq_refl) as Hb.
  destruct (il_lines bs (length bs) ((length bs + 255) / 256) 0 0) as [lines tot].
  destruct Hb as (Hlen & Htot & Hk). cbn [Nat.add] in *.
  unfold il_get. cbn [il_bits il_ls]. destruct (Nat.leb_spec (length bs) i) as [Hge|Hlt]; [reflexivity|].
  f_equal. assert (Hin : i / 256 < (length bs + 255) / 256) by lia.
  destruct (Hk (i / 256) Hin) as (_ & _ & H3). rewrite H3 by lia.
  destruct (il_word_window bs (256 * (i / 256)) (i mod 256 / 64)) as [E|[Hge E]]; [lia| |lia].
  rewrite E. rewrite nth_firstn by lia. rewrite nth_skipn. f_equal. lia.
Qed.

Theorem il_count_ones_proof bs : il_ones (il_build bs) = count1 bs /\ il_bits (il_build bs) = length bs.
Proof.
  unfold il_build. destruct (Nat.eqb_spec (length bs) 0) as [H0|H0].
  { cbn [il_ones il_bits]. destruct bs; [split; reflexivity|discriminate]. }
  pose proof (il_lines_spec bs ((length bs + 255) / 256) 0 0 eq_refl) as Hb.
  destruct (il_lines bs (length bs) ((length bs + 255) / 256) 0 0) as [lines tot].
  destruct Hb as (_ & Htot & _). cbn [il_ones il_bits Nat.add] in *. split; [|reflexivity].
  rewrite Htot. apply rank1_all. lia.
Qed.
