(* C04 mechanism model of src/succinct/bit_vector.rs (struct BitVector, lines 38-535), as written:
   a state machine over { blocks : FastVec<u64>, len : usize }.
   - a block is a u64 as N; indices and lengths are nat (usize overflow of `len + 1` / `i + 1` is not
     modelled, nor is allocation failure of FastVec::push/resize: both need > 2^60 bits);
   - `1u64 << b` = N.shiftl 1 b, `x |= m` = N.lor, `x &= !m` = N.land x (N.lxor (N.ones 64) m),
     `(1u64 << r) - 1` = N.ones r, `(w >> b) & 1 == 1` = N.testbit w b,
     `count_ones()` = number of set bits among bit 0..63;
   - `self.blocks[i]` is a checked index: out of range = panic.  A panic is the outer `None` of every
     model function and the observation -2 of `bv_step` (the refinement theorem shows it never happens);
   - the `debug_assert!`s of fast_ensure_set1 (dev profile) are modelled as panics as well;
   - `Result<()>`: the boolean next to the state (true = Ok, false = Err); `?` propagates Err with the state
     as modified so far.
   Definitions only. *)
From Coq Require Import List Arith NArith ZArith Bool.
From ZV.C04 Require Import Spec.
Import ListNotations.

Record bv := { blocks : list N; len : nat }.

Definition BITS_PER_BLOCK : nat := 64.

(* ---- u64 operations ---- *)
Definition bits64 (w : N) : list bool := map (fun i => N.testbit w (N.of_nat i)) (seq 0 64).
Definition popcountN (w : N) : nat := count1 (bits64 w).                 (* w.count_ones() *)
Definition shl1 (b : nat) : N := N.shiftl 1 (N.of_nat b).                (* 1u64 << b      (b < 64) *)
Definition not64 (m : N) : N := N.lxor (N.ones 64) m.                    (* !m  on u64 *)
Definition set_bit (w : N) (b : nat) : N := N.lor w (shl1 b).            (* w |= 1u64 << b *)
Definition clear_bit (w : N) (b : nat) : N := N.land w (not64 (shl1 b)). (* w &= !(1u64 << b) *)
Definition low_mask (r : nat) : N := N.ones (N.of_nat r).                (* (1u64 << r) - 1 (r < 64) *)
Definition test_bit (w : N) (b : nat) : bool := N.testbit w (N.of_nat b).  (* (w >> b) & 1 == 1 *)

(* ---- FastVec<u64> ---- *)
Fixpoint set_nth (l : list N) (i : nat) (w : N) : list N :=
  match l, i with
  | [], _ => []
  | _ :: t, O => w :: t
  | x :: t, S i' => x :: set_nth t i' w
  end.
Definition fv_push (l : list N) (x : N) : list N := l ++ [x].
Definition fv_resize (l : list N) (n : nat) (x : N) : list N := firstn n l ++ repeat x (n - length l).
Definition fv_clear (l : list N) : list N := [].
(* `blocks[i] = f(blocks[i])` with the bounds check of Index/IndexMut *)
Definition modify_block (bl : list N) (i : nat) (f : N -> N) : option (list N) :=
  match nth_error bl i with
  | None => None
  | Some w => Some (set_nth bl i (f w))
  end.
(* `while cond(blocks.len()) { blocks.push(0)?; }` *)
Fixpoint grow_while (fuel : nat) (cond : nat -> bool) (bl : list N) : list N :=
  match fuel with
  | O => bl
  | S f => if cond (length bl) then grow_while f cond (fv_push bl 0%N) else bl
  end.

(* ---- BitVector ---- *)
Definition bv_new : bv := {| blocks := []; len := 0 |}.

Definition bv_len (s : bv) : nat := len s.

(* get: None = panic; Some None = out of range *)
Definition bv_get (s : bv) (index : nat) : option (option bool) :=
  if len s <=? index then Some None
  else
    let block_index := index / BITS_PER_BLOCK in
    let bit_index := index mod BITS_PER_BLOCK in
    match nth_error (blocks s) block_index with
    | None => None
    | Some w => Some (Some (test_bit w bit_index))
    end.

Definition bv_set (s : bv) (index : nat) (value : bool) : option (bv * bool) :=
  if len s <=? index then Some (s, false)
  else
    let block_index := index / BITS_PER_BLOCK in
    let bit_index := index mod BITS_PER_BLOCK in
    match modify_block (blocks s) block_index
            (fun w => if value then set_bit w bit_index else clear_bit w bit_index) with
    | None => None
    | Some bl => Some ({| blocks := bl; len := len s |}, true)
    end.

Definition bv_push (s : bv) (value : bool) : option bv :=
  let block_index := len s / BITS_PER_BLOCK in
  let bit_index := len s mod BITS_PER_BLOCK in
  (* while self.blocks.len() <= block_index { self.blocks.push(0)?; } *)
  let bl1 := grow_while (S block_index) (fun n => n <=? block_index) (blocks s) in
  match modify_block bl1 block_index
          (fun w => if value then set_bit w bit_index else clear_bit w bit_index) with
  | None => None
  | Some bl => Some {| blocks := bl; len := len s + 1 |}
  end.

(* the slow paths of ensure_set1 and fast_ensure_set1: same statements *)
Definition bv_grow_and_set1 (s : bv) (i : nat) : option bv :=
  let new_len := i + 1 in
  let new_block_count := (new_len + BITS_PER_BLOCK - 1) / BITS_PER_BLOCK in
  (* while self.blocks.len() < new_block_count { self.blocks.push(0)?; } *)
  let bl1 := grow_while new_block_count (fun n => n <? new_block_count) (blocks s) in
  let block_index := i / BITS_PER_BLOCK in
  let bit_index := i mod BITS_PER_BLOCK in
  match modify_block bl1 block_index (fun w => set_bit w bit_index) with
  | None => None
  | Some bl => Some {| blocks := bl; len := new_len |}
  end.

Definition bv_ensure_set1_slow_path (s : bv) (i : nat) : option bv := bv_grow_and_set1 s i.

Definition bv_ensure_set1 (s : bv) (i : nat) : option bv :=
  if i <? len s then
    let block_index := i / BITS_PER_BLOCK in
    let bit_index := i mod BITS_PER_BLOCK in
    match modify_block (blocks s) block_index (fun w => set_bit w bit_index) with
    | None => None
    | Some bl => Some {| blocks := bl; len := len s |}
    end
  else bv_ensure_set1_slow_path s i.

(* debug_assert!: every j in the range has block_idx >= blocks.len() || bit j == 0
   (`self.blocks[block_idx]` is only evaluated when block_idx < blocks.len()) *)
Definition unused_bit_is_zero (bl : list N) (j : nat) : bool :=
  let block_idx := j / BITS_PER_BLOCK in
  let bit_idx := j mod BITS_PER_BLOCK in
  match nth_error bl block_idx with
  | None => true
  | Some w => negb (test_bit w bit_idx)
  end.

Definition bv_fast_ensure_set1_slow_path (s : bv) (i : nat) : option bv :=
  let capacity := length (blocks s) * BITS_PER_BLOCK in
  (* #[cfg(debug_assertions)] for j in self.len..capacity { debug_assert!(bit j == 0) } *)
  if forallb (unused_bit_is_zero (blocks s)) (seq (len s) (capacity - len s))
  then bv_grow_and_set1 s i
  else None.

Definition bv_fast_ensure_set1 (s : bv) (i : nat) : option bv :=
  let capacity := length (blocks s) * BITS_PER_BLOCK in
  if i <? capacity then
    let block_index := i / BITS_PER_BLOCK in
    let bit_index := i mod BITS_PER_BLOCK in
    if len s <=? i then
      (* debug_assert!((self.len..=i).all(...)) ; self.len = i + 1 *)
      if forallb (unused_bit_is_zero (blocks s)) (seq (len s) (i + 1 - len s)) then
        match modify_block (blocks s) block_index (fun w => set_bit w bit_index) with
        | None => None
        | Some bl => Some {| blocks := bl; len := i + 1 |}
        end
      else None
    else
      match modify_block (blocks s) block_index (fun w => set_bit w bit_index) with
      | None => None
      | Some bl => Some {| blocks := bl; len := len s |}
      end
  else bv_fast_ensure_set1_slow_path s i.

(* pop: None = panic; Some (s, None) = empty *)
Definition bv_pop (s : bv) : option (bv * option bool) :=
  if len s =? 0 then Some (s, None)
  else
    let len1 := len s - 1 in
    let block_index := len1 / BITS_PER_BLOCK in
    let bit_index := len1 mod BITS_PER_BLOCK in
    match nth_error (blocks s) block_index with
    | None => None
    | Some w =>
        let value := test_bit w bit_index in
        match modify_block (blocks s) block_index (fun w => clear_bit w bit_index) with
        | None => None
        | Some bl => Some ({| blocks := bl; len := len1 |}, Some value)
        end
    end.

(* for _ in self.len..new_len { self.push(value)?; } *)
Fixpoint bv_push_n (n : nat) (s : bv) (value : bool) : option bv :=
  match n with
  | O => Some s
  | S n' => match bv_push s value with
            | None => None
            | Some s1 => bv_push_n n' s1 value
            end
  end.

Definition bv_resize (s : bv) (new_len : nat) (value : bool) : option bv :=
  if len s <? new_len then bv_push_n (new_len - len s) s value
  else if new_len <? len s then
    let required_blocks := (new_len + BITS_PER_BLOCK - 1) / BITS_PER_BLOCK in
    let bl1 := fv_resize (blocks s) required_blocks 0%N in
    if 0 <? new_len then
      let last_block_index := (new_len - 1) / BITS_PER_BLOCK in
      let bits_in_last_block := new_len mod BITS_PER_BLOCK in
      if 0 <? bits_in_last_block then
        match modify_block bl1 last_block_index (fun w => N.land w (low_mask bits_in_last_block)) with
        | None => None
        | Some bl => Some {| blocks := bl; len := new_len |}
        end
      else Some {| blocks := bl1; len := new_len |}
    else Some {| blocks := bl1; len := new_len |}
  else Some s.

Definition bv_with_size (size : nat) (value : bool) : option bv := bv_resize bv_new size value.

Definition bv_clear (s : bv) : bv := {| blocks := fv_clear (blocks s); len := 0 |}.

(* the shifting loop of insert: `for i in (index + 1..self.len).rev()`; n iterations remain, i = index + n *)
Fixpoint bv_insert_loop (s : bv) (index n : nat) : option (bv * bool) :=
  match n with
  | O => Some (s, true)
  | S n' =>
      let i := index + n in
      match bv_get s (i - 1) with
      | None => None
      | Some g =>
          let bit := match g with Some b => b | None => false end in   (* unwrap_or(false) *)
          match bv_set s i bit with
          | None => None
          | Some (s1, false) => Some (s1, false)
          | Some (s1, true) => bv_insert_loop s1 index n'
          end
      end
  end.

Definition bv_insert (s : bv) (index : nat) (value : bool) : option (bv * bool) :=
  if len s <? index then Some (s, false)
  else
    match bv_push s false with
    | None => None
    | Some s1 =>
        match bv_insert_loop s1 index (len s1 - (index + 1)) with
        | None => None
        | Some (s2, false) => Some (s2, false)
        | Some (s2, true) => bv_set s2 index value
        end
    end.

(* for i in i..i+n { count += self.blocks[i].count_ones() } *)
Fixpoint count_blocks (bl : list N) (i n : nat) (count : nat) : option nat :=
  match n with
  | O => Some count
  | S n' => match nth_error bl i with
            | None => None
            | Some w => count_blocks bl (S i) n' (count + popcountN w)
            end
  end.

(* the common body of count_ones (pos = len) and rank1 (pos = min pos len) *)
Definition count_upto (bl : list N) (pos : nat) : option nat :=
  let complete_blocks := pos / BITS_PER_BLOCK in
  match count_blocks bl 0 complete_blocks 0 with
  | None => None
  | Some count =>
      let remaining_bits := pos mod BITS_PER_BLOCK in
      if (0 <? remaining_bits) && (complete_blocks <? length bl) then
        match nth_error bl complete_blocks with
        | None => None
        | Some w => Some (count + popcountN (N.land w (low_mask remaining_bits)))
        end
      else Some count
  end.

Definition bv_count_ones (s : bv) : option nat := count_upto (blocks s) (len s).

Definition bv_rank1 (s : bv) (pos : nat) : option nat :=
  if pos =? 0 then Some 0
  else
    let pos := Nat.min pos (len s) in
    count_upto (blocks s) pos.

(* pos - self.rank1(pos): usize subtraction, overflow checks on (dev profile) *)
Definition bv_rank0 (s : bv) (pos : nat) : option nat :=
  if pos =? 0 then Some 0
  else
    let pos := Nat.min pos (len s) in
    match bv_rank1 s pos with
    | None => None
    | Some r => if pos <? r then None else Some (pos - r)
    end.

(* ---- histories ---- *)
Inductive bvop :=
  | OPush (b : bool) | OPop | OSet (i : nat) (b : bool) | OResize (n : nat) (b : bool)
  | OEnsureSet1 (i : nat) | OFastEnsureSet1 (i : nat) | OInsert (i : nat) (b : bool) | OClear
  | OGet (i : nat) | ORank1 (p : nat) | ORank0 (p : nat) | OCountOnes | OLen.

Definition b2z (b : bool) : Z := if b then 1%Z else 0%Z.
Definition PANIC : Z := (-2)%Z.
Definition res_z (ok : bool) : Z := if ok then 0%Z else (-1)%Z.

(* observation: Result<()> -> 0 / -1; Option<bool> -> 1 / 0 / -1; numbers as themselves; panic -> -2
   (the state is then left as it was: nothing is observed after a panic) *)
Definition bv_step (s : bv) (op : bvop) : bv * Z :=
  match op with
  | OPush b => match bv_push s b with Some s' => (s', 0%Z) | None => (s, PANIC) end
  | OPop => match bv_pop s with
            | Some (s', Some b) => (s', b2z b)
            | Some (s', None) => (s', (-1)%Z)
            | None => (s, PANIC)
            end
  | OSet i b => match bv_set s i b with Some (s', ok) => (s', res_z ok) | None => (s, PANIC) end
  | OResize n b => match bv_resize s n b with Some s' => (s', 0%Z) | None => (s, PANIC) end
  | OEnsureSet1 i => match bv_ensure_set1 s i with Some s' => (s', 0%Z) | None => (s, PANIC) end
  | OFastEnsureSet1 i => match bv_fast_ensure_set1 s i with Some s' => (s', 0%Z) | None => (s, PANIC) end
  | OInsert i b => match bv_insert s i b with Some (s', ok) => (s', res_z ok) | None => (s, PANIC) end
  | OClear => (bv_clear s, 0%Z)
  | OGet i => match bv_get s i with
              | Some (Some b) => (s, b2z b)
              | Some None => (s, (-1)%Z)
              | None => (s, PANIC)
              end
  | ORank1 p => match bv_rank1 s p with Some r => (s, Z.of_nat r) | None => (s, PANIC) end
  | ORank0 p => match bv_rank0 s p with Some r => (s, Z.of_nat r) | None => (s, PANIC) end
  | OCountOnes => match bv_count_ones s with Some r => (s, Z.of_nat r) | None => (s, PANIC) end
  | OLen => (s, Z.of_nat (bv_len s))
  end.

Fixpoint bv_run (s : bv) (ops : list bvop) : bv * list Z :=
  match ops with
  | [] => (s, [])
  | op :: t =>
      let '(s1, o) := bv_step s op in
      let '(s2, os) := bv_run s1 t in
      (s2, o :: os)
  end.

(* ---- the specification side: the same operations on a list of booleans ---- *)
Definition upd (l : list bool) (i : nat) (b : bool) : list bool := firstn i l ++ b :: skipn (S i) l.
Definition ins (l : list bool) (i : nat) (b : bool) : list bool := firstn i l ++ b :: skipn i l.
(* extend with zeros so that position i exists, then set it *)
Definition ensure1 (l : list bool) (i : nat) : list bool :=
  upd (l ++ repeat false (i + 1 - length l)) i true.

Definition ls_step (l : list bool) (op : bvop) : list bool * Z :=
  match op with
  | OPush b => (l ++ [b], 0%Z)
  | OPop => if length l =? 0 then (l, (-1)%Z)
            else (firstn (length l - 1) l, b2z (nth (length l - 1) l false))
  | OSet i b => if i <? length l then (upd l i b, 0%Z) else (l, (-1)%Z)
  | OResize n b => (firstn n l ++ repeat b (n - length l), 0%Z)
  | OEnsureSet1 i => (ensure1 l i, 0%Z)
  | OFastEnsureSet1 i => (ensure1 l i, 0%Z)
  | OInsert i b => if i <=? length l then (ins l i b, 0%Z) else (l, (-1)%Z)
  | OClear => ([], 0%Z)
  | OGet i => (l, if i <? length l then b2z (nth i l false) else (-1)%Z)
  | ORank1 p => (l, Z.of_nat (rank1 l (Nat.min p (length l))))
  | ORank0 p => (l, Z.of_nat (rank0 l (Nat.min p (length l))))
  | OCountOnes => (l, Z.of_nat (count1 l))
  | OLen => (l, Z.of_nat (length l))
  end.

Fixpoint ls_run (l : list bool) (ops : list bvop) : list bool * list Z :=
  match ops with
  | [] => (l, [])
  | op :: t =>
      let '(l1, o) := ls_step l op in
      let '(l2, os) := ls_run l1 t in
      (l2, o :: os)
  end.

(* ---- abstraction and invariant ---- *)
(* bit i of the storage: block i / 64, bit i mod 64 (a missing block reads as 0) *)
Definition bit (bl : list N) (i : nat) : bool :=
  N.testbit (nth (i / 64) bl 0%N) (N.of_nat (i mod 64)).
Definition bv_abs (s : bv) : list bool := map (bit (blocks s)) (seq 0 (len s)).
Definition bv_inv (s : bv) : Prop :=
  Forall (fun w => (w < 2 ^ 64)%N) (blocks s) /\
  len s <= 64 * length (blocks s) /\
  forall i, len s <= i -> i < 64 * length (blocks s) -> bit (blocks s) i = false.

(* ---- decoding of harness cases ---- *)
Definition bv_decode_op (c : N * N * N) : bvop :=
  let '(opc, a, b) := c in
  let i := N.to_nat a in
  let v := negb (N.eqb b 0) in
  match opc with
  | 0%N => OPush v
  | 1%N => OPop
  | 2%N => OSet i v
  | 3%N => OResize i v
  | 4%N => OEnsureSet1 i
  | 5%N => OFastEnsureSet1 i
  | 6%N => OInsert i v
  | 7%N => OClear
  | 8%N => OGet i
  | 9%N => ORank1 i
  | 10%N => ORank0 i
  | 11%N => OCountOnes
  | _ => OLen
  end.

(* observations, final blocks, final len; a panic inside with_size shows as the single observation -2 *)
Definition bv_run_case (init_size : N) (init_val : bool) (use_init : bool) (ops : list (N * N * N))
  : list Z * list N * N :=
  let start := if use_init then bv_with_size (N.to_nat init_size) init_val else Some bv_new in
  match start with
  | None => ([PANIC], [], 0%N)
  | Some s0 =>
      let '(s, obs) := bv_run s0 (map bv_decode_op ops) in
      (obs, blocks s, N.of_nat (len s))
  end.
