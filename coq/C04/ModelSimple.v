(* C04 mechanism model of RankSelectSimple (src/succinct/rank_select/simple.rs) as written: one u32 per 256-bit
   block (cumulative ones at the block start) plus a sentinel; rank1 adds the popcounts of the whole words of the
   block and a masked partial word; select1 / select0 binary-search the block table and scan the block's words
   with a running remainder (breaking at the end of the word vector; select0 clamps the zeros of the last partial
   word to the bits that exist).  The word vector is the BitVector's: ceil(len/64) words plus `extra` all-zero words.
   Not modelled: u32 truncation of the table entries.  Definitions only. *)
From Coq Require Import List Arith Lia Bool.
From ZV.C04 Require Import Spec Model ModelGen ModelSE256.
Import ListNotations.

(* for j in 0..4 { if word_idx < words.len() { cumulative += popcount } } *)
Fixpoint simple_line (bs : list bool) (nw line : nat) (js : list nat) (cum : nat) : nat :=
  match js with
  | [] => cum
  | j :: t =>
      let wi := line * 4 + j in
      simple_line bs nw line t (if wi <? nw then cum + popcount (word bs wi) else cum)
  end.
Fixpoint simple_lines (bs : list bool) (nw n i cum : nat) : list nat * nat :=
  match n with
  | O => ([], cum)
  | S n' =>
      let '(rest, tot) := simple_lines bs nw n' (S i) (simple_line bs nw i (seq 0 4) cum) in
      (cum :: rest, tot)
  end.

Record simple := { sm_bits : list bool; sm_size : nat; sm_nw : nat; sm_cache : list nat; sm_mr0 : nat; sm_mr1 : nat }.

Definition simple_build (bs : list bool) (extra : nat) : simple :=
  let sz := length bs in
  let nw := nwords sz + extra in
  let '(lines, cum) := simple_lines bs nw (nlines256 sz) 0 0 in
  {| sm_bits := bs; sm_size := sz; sm_nw := nw; sm_cache := lines ++ [cum]; sm_mr0 := sz - cum; sm_mr1 := cum |}.

(* for i in block_word_start..target_word { if i < bits.len() { rank += popcount } } *)
Fixpoint simple_whole (s : simple) (is : list nat) (rank : nat) : nat :=
  match is with
  | [] => rank
  | i :: t => simple_whole s t (if i <? sm_nw s then rank + popcount (word (sm_bits s) i) else rank)
  end.

Definition simple_rank1 (s : simple) (pos : nat) : option nat :=
  if sm_size s <? pos then None           (* assert!(pos <= self.size) *)
  else if pos =? 0 then Some 0
  else
    let block := pos / 256 in
    let rank := nth block (sm_cache s) 0 in
    let block_word_start := block * 4 in
    let target_word := pos / 64 in
    let rank := simple_whole s (seq block_word_start (target_word - block_word_start)) rank in
    let bit_in_word := pos mod 64 in
    Some (if (0 <? bit_in_word) && (target_word <? sm_nw s)
          then rank + count1 (firstn bit_in_word (word (sm_bits s) target_word))   (* popcount_trail *)
          else rank).

Definition simple_rank0 (s : simple) (pos : nat) : option nat :=
  match simple_rank1 s pos with Some r => Some (pos - r) | None => None end.

Definition simple_get (s : simple) (i : nat) : option bool :=
  if sm_size s <=? i then None
  else if i / 64 <? sm_nw s then Some (nth (i mod 64) (word (sm_bits s) (i / 64)) false) else Some false.

(* the scan of select1: `if word_idx >= bits.len() { break }` ends in the error after the loop *)
Fixpoint simple_scan1 (s : simple) (block : nat) (js : list nat) (remaining : nat) : option nat :=
  match js with
  | [] => None
  | j :: t =>
      let wi := block * 4 + j in
      if sm_nw s <=? wi then None else
      let w := word (sm_bits s) wi in
      let ones := popcount w in
      if remaining <? ones then Some (block * 256 + j * 64 + select_in_word w remaining)
      else simple_scan1 s block t (remaining - ones)
  end.

Definition simple_select1 (s : simple) (k : nat) : option nat :=
  if sm_mr1 s <=? k then None else
  let nblocks := length (sm_cache s) - 1 in
  let lo := bsearch mid_avg (fun mid => nth mid (sm_cache s) 0 <=? k) (S nblocks) 0 nblocks in
  if lo =? 0 then None else                  (* `lo - 1` on usize *)
  let block := lo - 1 in
  simple_scan1 s block (seq 0 4) (k - nth block (sm_cache s) 0).

Fixpoint simple_scan0 (s : simple) (block : nat) (js : list nat) (remaining : nat) : option nat :=
  match js with
  | [] => None
  | j :: t =>
      let wi := block * 4 + j in
      if sm_nw s <=? wi then None else
      let w := word (sm_bits s) wi in
      let inv := map negb (w ++ repeat false (64 - length w)) in          (* !word on the zero-padded u64 *)
      let zeros := popcount inv in
      let base_bitpos := block * 256 in
      let max_bits := if sm_size s <? base_bitpos + (j + 1) * 64 then sm_size s - (base_bitpos + j * 64) else 64 in
      let zeros_in_range := if max_bits <? 64 then count1 (firstn max_bits inv) else zeros in
      if remaining <? zeros_in_range then Some (base_bitpos + j * 64 + select_in_word inv remaining)
      else simple_scan0 s block t (remaining - zeros_in_range)
  end.

Definition simple_select0 (s : simple) (k : nat) : option nat :=
  if sm_mr0 s <=? k then None else
  let nblocks := length (sm_cache s) - 1 in
  let lo := bsearch mid_avg (fun mid => mid * 256 - nth mid (sm_cache s) 0 <=? k) (S nblocks) 0 nblocks in
  if lo =? 0 then None else
  let block := lo - 1 in
  simple_scan0 s block (seq 0 4) (k - (block * 256 - nth block (sm_cache s) 0)).
