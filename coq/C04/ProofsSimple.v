(* C04: RankSelectSimple (simple.rs) rank1/rank0/get/count_ones/select1/select0 equal the definition for every bit
   list and every position / index. *)
From Coq Require Import List Arith NArith Lia Bool ZifyBool ZifyNat ZifyN.
From ZV.Common Require Import Base.
From ZV.C04 Require Import Spec Model ModelGen ModelSE256 ModelSimple ProofsRank ProofsSelect ProofsSelect0 ProofsIL ProofsGen ProofsSE256.
Import ListNotations.
Ltac Zify.zify_post_hook ::= Z.div_mod_to_equations.
Close Scope N_scope.
Open Scope nat_scope.

Section ExtraS.
Variable extra : nat.

Lemma simple_line_spec bs line : forall n j cum,
  simple_line bs ((nwords (length bs) + extra)) line (seq j n) cum = cum + seg bs (64 * (line * 4 + j)) (64 * n).
Proof.
  induction n as [|n IH]; intros j cum; cbn [seq simple_line].
  - rewrite Nat.mul_0_r, seg_0. lia.
  - rewrite se256_word_step, IH. replace (64 * S n) with (64 + 64 * n) by lia. rewrite seg_add.
    replace (64 * (line * 4 + S j)) with (64 * (line * 4 + j) + 64) by lia. lia.
Qed.

Lemma simple_lines_spec bs : forall n i cum,
  cum = rank1 bs (256 * i) ->
  let '(lines, total) := simple_lines bs ((nwords (length bs) + extra)) n i cum in
  length lines = n /\ total = rank1 bs (256 * (i + n)) /\
  forall k, k < n -> nth k lines 0 = rank1 bs (256 * (i + k)).
Proof.
  induction n as [|n IH]; intros i cum Hcum; cbn [simple_lines].
  - split; [reflexivity|]. split; [rewrite Hcum; f_equal; lia|]. intros k Hk. lia.
  - rewrite simple_line_spec.
    specialize (IH (S i) (cum + seg bs (64 * (i * 4 + 0)) (64 * 4))).
    destruct (simple_lines bs ((nwords (length bs) + extra)) n (S i) (cum + seg bs (64 * (i * 4 + 0)) (64 * 4))) as [rest total].
    destruct IH as (Hlen & Htot & Hks).
    { rewrite Hcum. replace (256 * S i) with (256 * i + 64 * 4) by lia. rewrite rank1_seg. f_equal. f_equal. lia. }
    split; [cbn [length]; lia|]. split; [rewrite Htot; f_equal; lia|].
    intros k Hlt. destruct k as [|k]; cbn [nth].
    + rewrite Hcum. f_equal. lia.
    + rewrite Hks by lia. f_equal. lia.
Qed.

Lemma simple_build_spec bs :
  let s := simple_build bs extra in
  let nl := nlines256 (length bs) in
  sm_bits s = bs /\ sm_size s = length bs /\ sm_nw s = (nwords (length bs) + extra) /\
  sm_mr1 s = count1 bs /\ sm_mr0 s = length bs - count1 bs /\
  length (sm_cache s) = S nl /\
  (forall i, i <= nl -> nth i (sm_cache s) 0 = rank1 bs (256 * i)).
Proof.
  cbv zeta. unfold simple_build.
  pose proof (simple_lines_spec bs (nlines256 (length bs)) 0 0 eq_refl) as Hb.
  destruct (simple_lines bs ((nwords (length bs) + extra)) (nlines256 (length bs)) 0 0) as [lines cum].
  destruct Hb as (Hlen & Htot & Hk). cbn [Nat.add] in *.
  pose proof (nlines256_bounds (length bs)) as [Hn1 Hn2].
  assert (Hcum : cum = count1 bs) by (rewrite Htot; apply rank1_all; lia).
  cbn [sm_bits sm_size sm_nw sm_cache sm_mr0 sm_mr1].
  rewrite Hcum in *. clear Hcum.
  split; [reflexivity|]. split; [reflexivity|]. split; [reflexivity|]. split; [reflexivity|]. split; [reflexivity|].
  split; [rewrite app_length; cbn [length]; lia|].
  intros i Hi. destruct (Nat.eq_dec i (nlines256 (length bs))) as [->|Hne].
  - rewrite app_nth2 by lia. rewrite Hlen, Nat.sub_diag. cbn [nth]. exact Htot.
  - rewrite app_nth1 by lia. apply Hk. lia.
Qed.

Lemma simple_whole_spec bs s : sm_bits s = bs -> sm_nw s = (nwords (length bs) + extra) ->
  forall n a rank, simple_whole s (seq a n) rank = rank + seg bs (64 * a) (64 * n).
Proof.
  intros Hb Hn. induction n as [|n IH]; intros a rank; cbn [seq simple_whole].
  - rewrite Nat.mul_0_r, seg_0. lia.
  - rewrite Hb, Hn, se256_word_step, IH. replace (64 * S n) with (64 + 64 * n) by lia. rewrite seg_add.
    replace (64 * S a) with (64 * a + 64) by lia. lia.
Qed.

Theorem simple_rank1_correct_proof bs p :
  p <= length bs -> simple_rank1 (simple_build bs extra) p = Some (rank1 bs p).
Proof.
  intros Hp. destruct (simple_build_spec bs) as (Hbits & Hsize & Hnw & _ & _ & Hclen & Hbase).
  pose proof (nlines256_bounds (length bs)) as [Hn1 Hn2].
  unfold simple_rank1. rewrite Hsize.
  replace (length bs <? p) with false by (symmetry; apply Nat.ltb_ge; lia).
  destruct (Nat.eqb_spec p 0) as [->|Hp0]; [reflexivity|]. f_equal.
  rewrite (simple_whole_spec bs) by assumption. rewrite Hbase by lia. rewrite Hnw, Hbits.
  set (b := p / 256). set (tw := p / 64).
  assert (Htw : tw = b * 4 + p mod 256 / 64) by (subst tw b; lia).
  replace (64 * (b * 4)) with (256 * b) by lia.
  rewrite <- rank1_seg.
  replace (256 * b + 64 * (tw - b * 4)) with (64 * tw) by lia.
  destruct (Nat.ltb_spec 0 (p mod 64)) as [Hpos|Hzero]; cbn [andb].
  - assert (Hex : tw < (nwords (length bs) + extra)) by (unfold nwords; subst tw; lia).
    replace (tw <? (nwords (length bs) + extra)) with true by (symmetry; apply Nat.ltb_lt; exact Hex).
    unfold word. rewrite firstn_firstn. replace (Nat.min (p mod 64) 64) with (p mod 64) by lia.
    fold (seg bs (64 * tw) (p mod 64)). rewrite <- rank1_seg. f_equal. subst tw. lia.
  - f_equal. subst tw. lia.
Qed.

Theorem simple_rank0_correct_proof bs p :
  p <= length bs -> simple_rank0 (simple_build bs extra) p = Some (rank0 bs p).
Proof.
  intros Hp. unfold simple_rank0. rewrite simple_rank1_correct_proof by exact Hp.
  pose proof (rank0_rank1 bs p Hp). f_equal. lia.
Qed.

Theorem simple_rank1_refuses_proof bs p : length bs < p -> simple_rank1 (simple_build bs extra) p = None.
Proof.
  intros Hp. destruct (simple_build_spec bs) as (_ & Hsize & _).
  unfold simple_rank1. rewrite Hsize. replace (length bs <? p) with true by (symmetry; apply Nat.ltb_lt; lia). reflexivity.
Qed.

Theorem simple_get_correct_proof bs i :
  simple_get (simple_build bs extra) i = if length bs <=? i then None else Some (nth i bs false).
Proof.
  destruct (simple_build_spec bs) as (Hbits & Hsize & Hnw & _).
  unfold simple_get. rewrite Hsize, Hnw, Hbits. destruct (Nat.leb_spec (length bs) i) as [|Hlt]; [reflexivity|].
  replace (i / 64 <? (nwords (length bs) + extra)) with true by (symmetry; apply Nat.ltb_lt; unfold nwords; lia).
  f_equal. unfold word. rewrite nth_firstn by (apply Nat.mod_upper_bound; lia).
  rewrite nth_skipn. f_equal. pose proof (Nat.div_mod i 64). lia.
Qed.

Theorem simple_count_ones_proof bs :
  sm_mr1 (simple_build bs extra) = count1 bs /\ sm_size (simple_build bs extra) = length bs.
Proof. destruct (simple_build_spec bs) as (_ & Hsize & _ & Hmr1 & _). split; assumption. Qed.

(* ---- the ascending scans ---- *)
Lemma seg_word_past bs wi n : nwords (length bs) <= wi -> seg bs (64 * wi) n = 0.
Proof. intros H. apply seg_past. unfold nwords in H. lia. Qed.

Lemma simple_scan1_spec bs s block : sm_bits s = bs -> sm_nw s = (nwords (length bs) + extra) ->
  forall n j rem,
  rem < seg bs (64 * (block * 4 + j)) (64 * n) ->
  simple_scan1 s block (seq j n) rem = select1 bs (rank1 bs (64 * (block * 4 + j)) + rem).
Proof.
  intros Hb Hn. induction n as [|n IH]; intros j rem Hrem.
  - rewrite Nat.mul_0_r, seg_0 in Hrem. lia.
  - cbn [seq simple_scan1]. rewrite Hb, Hn.
    destruct (Nat.leb_spec ((nwords (length bs) + extra)) (block * 4 + j)) as [Hout|Hin].
    { rewrite seg_word_past in Hrem by lia. lia. }
    rewrite word_count.
    destruct (Nat.ltb_spec rem (seg bs (64 * (block * 4 + j)) 64)) as [Hhit|Hmiss].
    + destruct (select1_window bs (64 * (block * 4 + j)) (rank1 bs (64 * (block * 4 + j)) + rem)) as (Hsel & _); [lia|lia|].
      rewrite Hsel. unfold word. f_equal.
      replace (rank1 bs (64 * (block * 4 + j)) + rem - rank1 bs (64 * (block * 4 + j))) with rem by lia. lia.
    + replace (64 * S n) with (64 + 64 * n) in Hrem by lia. rewrite seg_add in Hrem.
      rewrite IH.
      * f_equal. replace (64 * (block * 4 + S j)) with (64 * (block * 4 + j) + 64) by lia. rewrite rank1_seg. lia.
      * replace (64 * (block * 4 + S j)) with (64 * (block * 4 + j) + 64) by lia. lia.
Qed.

Theorem simple_select1_correct_proof bs k : simple_select1 (simple_build bs extra) k = select1 bs k.
Proof.
  destruct (simple_build_spec bs) as (Hbits & Hsize & Hnw & Hmr1 & Hmr0 & Hclen & Hbase).
  pose proof (nlines256_bounds (length bs)) as [Hn1 Hn2].
  set (s := simple_build bs extra) in *. set (nl := nlines256 (length bs)) in *.
  unfold simple_select1. rewrite Hmr1, Hclen.
  destruct (Nat.leb_spec (count1 bs) k) as [Hge|Hlt].
  { destruct (select1 bs k) as [p|] eqn:E; [|reflexivity].
    assert (k < count1 bs) by (apply select1_some_iff; eauto). lia. }
  assert (Hpos : 0 < length bs) by (pose proof (count1_le bs); lia).
  assert (Hnl : 1 <= nl) by (subst nl; unfold nlines256, LINE256; lia).
  replace (S nl - 1) with nl by lia.
  set (right := fun mid => nth mid (sm_cache s) 0 <=? k).
  assert (Hr : forall i, i <= nl -> right i = (rank1 bs (256 * i) <=? k)).
  { intros i Hi. unfold right. rewrite Hbase by lia. reflexivity. }
  destruct (bsearch_spec mid_avg right nl mid_avg_between) with (fuel := S nl) (lo := 0) (hi := nl)
    as (Hb1 & Hb2 & Hb3); [|lia|lia|intros; lia|intros; lia|].
  { intros i j Hij Hj. rewrite Hr in * by lia. apply Nat.leb_le in Hj. apply Nat.leb_le.
    assert (rank1 bs (256 * i) <= rank1 bs (256 * j)) by (apply rank1_mono; lia). lia. }
  set (lo := bsearch mid_avg right (S nl) 0 nl) in *.
  assert (Hl1 : 1 <= lo).
  { destruct (Nat.eq_dec lo 0) as [E|]; [|lia]. exfalso.
    assert (H0 : right 0 = false) by (apply Hb3; lia). rewrite Hr in H0 by lia.
    change (rank1 bs (256 * 0)) with 0 in H0. apply Nat.leb_gt in H0. lia. }
  replace (lo =? 0) with false by (symmetry; apply Nat.eqb_neq; lia).
  set (block := lo - 1) in *.
  assert (Hblock : block < nl) by lia.
  assert (Hlo : rank1 bs (256 * block) <= k).
  { assert (H : right block = true) by (apply Hb2; lia). rewrite Hr in H by lia. apply Nat.leb_le. exact H. }
  assert (Hhi : k < rank1 bs (256 * block + 256)).
  { destruct (Nat.eq_dec lo nl) as [E|Hne].
    - rewrite rank1_all by lia. lia.
    - assert (H : right lo = false) by (apply Hb3; lia). rewrite Hr in H by lia. apply Nat.leb_gt in H.
      replace (256 * block + 256) with (256 * lo) by lia. exact H. }
  rewrite Hbase by lia. rewrite rank1_seg in Hhi.
  rewrite (simple_scan1_spec bs s block Hbits Hnw 4 0).
  - f_equal. replace (64 * (block * 4 + 0)) with (256 * block) by lia. lia.
  - replace (64 * (block * 4 + 0)) with (256 * block) by lia. change (64 * 4) with 256. lia.
Qed.

(* select0 works on the negated list; no padding is involved because the scan clamps the last word *)
Lemma simple_scan0_spec bs s block : sm_bits s = bs -> sm_nw s = (nwords (length bs) + extra) -> sm_size s = length bs ->
  forall n j rem,
  rem < seg (map negb bs) (64 * (block * 4 + j)) (64 * n) ->
  simple_scan0 s block (seq j n) rem = select1 (map negb bs) (rank1 (map negb bs) (64 * (block * 4 + j)) + rem).
Proof.
  intros Hb Hn Hs. set (Nb := map negb bs).
  assert (HNlen : length Nb = length bs) by (subst Nb; apply map_length).
  induction n as [|n IH]; intros j rem Hrem.
  - rewrite Nat.mul_0_r, seg_0 in Hrem. lia.
  - cbn [seq simple_scan0]. rewrite Hb, Hn, Hs.
    destruct (Nat.leb_spec ((nwords (length bs) + extra)) (block * 4 + j)) as [Hout|Hin].
    { rewrite seg_past in Hrem by (rewrite HNlen; unfold nwords in Hout; lia). lia. }
    set (wi := block * 4 + j) in *.
    set (w := word bs wi).
    assert (Hwlen : length w = Nat.min 64 (length bs - 64 * wi)).
    { subst w. unfold word. rewrite firstn_length, skipn_length. reflexivity. }
    assert (Hinv : map negb (w ++ repeat false (64 - length w)) = map negb w ++ repeat true (64 - length w)).
    { rewrite map_app. f_equal. clear. induction (64 - length w) as [|m IH]; cbn [repeat map negb]; [reflexivity|]. f_equal. exact IH. }
    rewrite Hinv.
    assert (HwN : map negb w = firstn 64 (skipn (64 * wi) Nb)).
    { subst w Nb. unfold word. rewrite skipn_map, firstn_map. reflexivity. }
    (* the clamped zero count is the number of zeros among the bits that exist *)
    assert (Hzr : (if (if length bs <? block * 256 + (j + 1) * 64 then length bs - (block * 256 + j * 64) else 64) <? 64
                   then count1 (firstn (if length bs <? block * 256 + (j + 1) * 64 then length bs - (block * 256 + j * 64) else 64)
                                       (map negb w ++ repeat true (64 - length w)))
                   else popcount (map negb w ++ repeat true (64 - length w))) = seg Nb (64 * wi) 64).
    { unfold nwords in Hin.
      destruct (Nat.ltb_spec (length bs) (block * 256 + (j + 1) * 64)) as [Hpart|Hfull].
      - replace (length bs - (block * 256 + j * 64) <? 64) with true by (symmetry; apply Nat.ltb_lt; subst wi; lia).
        replace (length bs - (block * 256 + j * 64)) with (length (map negb w)) by (rewrite map_length, Hwlen; subst wi; lia).
        rewrite firstn_app, Nat.sub_diag, firstn_all. cbn [firstn]. rewrite app_nil_r. rewrite HwN. reflexivity.
      - replace (64 <? 64) with false by reflexivity.
        assert (length w = 64) by (rewrite Hwlen; subst wi; lia).
        replace (64 - length w) with 0 by lia. cbn [repeat]. rewrite app_nil_r. rewrite HwN. reflexivity. }
    rewrite Hzr.
    destruct (Nat.ltb_spec rem (seg Nb (64 * wi) 64)) as [Hhit|Hmiss].
    + destruct (select1_window Nb (64 * wi) (rank1 Nb (64 * wi) + rem)) as (Hsel & _); [lia|lia|].
      rewrite Hsel. f_equal.
      replace (rank1 Nb (64 * wi) + rem - rank1 Nb (64 * wi)) with rem by lia.
      unfold select_in_word. rewrite select1_app_l by (rewrite HwN; exact Hhit). rewrite HwN. subst wi. lia.
    + replace (64 * S n) with (64 + 64 * n) in Hrem by lia. rewrite seg_add in Hrem.
      rewrite IH.
      * f_equal. replace (64 * (block * 4 + S j)) with (64 * wi + 64) by (subst wi; lia). rewrite rank1_seg. lia.
      * replace (64 * (block * 4 + S j)) with (64 * wi + 64) by (subst wi; lia). lia.
Qed.

Theorem simple_select0_correct_proof bs k : simple_select0 (simple_build bs extra) k = select0 bs k.
Proof.
  destruct (simple_build_spec bs) as (Hbits & Hsize & Hnw & Hmr1 & Hmr0 & Hclen & Hbase).
  pose proof (nlines256_bounds (length bs)) as [Hn1 Hn2].
  set (s := simple_build bs extra) in *. set (nl := nlines256 (length bs)) in *.
  unfold simple_select0, select0. rewrite Hmr0, Hclen.
  set (Nb := map negb bs).
  assert (Hc0 : count1 Nb = length bs - count1 bs) by apply count1_negb.
  destruct (Nat.leb_spec (length bs - count1 bs) k) as [Hge|Hlt].
  { destruct (select1 Nb k) as [p|] eqn:E; [|reflexivity].
    assert (k < count1 Nb) by (apply select1_some_iff; eauto). lia. }
  assert (Hpos : 0 < length bs) by lia.
  assert (Hnl : 1 <= nl) by (subst nl; unfold nlines256, LINE256; lia).
  replace (S nl - 1) with nl by lia.
  assert (HrN : forall p, p <= length bs -> rank1 Nb p = p - rank1 bs p) by (intros p Hp; apply rank1_negb; exact Hp).
  set (right := fun mid => mid * 256 - nth mid (sm_cache s) 0 <=? k).
  assert (Hr : forall i, i < nl -> right i = (rank1 Nb (256 * i) <=? k)).
  { intros i Hi. unfold right. rewrite Hbase by lia. rewrite HrN by lia. f_equal. lia. }
  destruct (bsearch_spec mid_avg right nl mid_avg_between) with (fuel := S nl) (lo := 0) (hi := nl)
    as (Hb1 & Hb2 & Hb3); [|lia|lia|intros; lia|intros; lia|].
  { intros i j Hij Hj. rewrite Hr in * by lia. apply Nat.leb_le in Hj. apply Nat.leb_le.
    assert (rank1 Nb (256 * i) <= rank1 Nb (256 * j)) by (apply rank1_mono; lia). lia. }
  set (lo := bsearch mid_avg right (S nl) 0 nl) in *.
  assert (Hl1 : 1 <= lo).
  { destruct (Nat.eq_dec lo 0) as [E|]; [|lia]. exfalso.
    assert (H0 : right 0 = false) by (apply Hb3; lia). rewrite Hr in H0 by lia.
    change (rank1 Nb (256 * 0)) with 0 in H0. apply Nat.leb_gt in H0. lia. }
  replace (lo =? 0) with false by (symmetry; apply Nat.eqb_neq; lia).
  set (block := lo - 1) in *.
  assert (Hblock : block < nl) by lia.
  assert (Hlo : rank1 Nb (256 * block) <= k).
  { assert (H : right block = true) by (apply Hb2; lia). rewrite Hr in H by lia. apply Nat.leb_le. exact H. }
  assert (Hhi : k < rank1 Nb (256 * block + 256)).
  { destruct (Nat.eq_dec lo nl) as [E|Hne].
    - rewrite rank1_all by (subst Nb; rewrite map_length; lia). lia.
    - assert (H : right lo = false) by (apply Hb3; lia). rewrite Hr in H by lia. apply Nat.leb_gt in H.
      replace (256 * block + 256) with (256 * lo) by lia. exact H. }
  rewrite Hbase by lia.
  replace (block * 256 - rank1 bs (256 * block)) with (rank1 Nb (256 * block)) by (rewrite HrN by lia; lia).
  rewrite rank1_seg in Hhi.
  rewrite (simple_scan0_spec bs s block Hbits Hnw Hsize 4 0).
  - fold Nb. f_equal. replace (64 * (block * 4 + 0)) with (256 * block) by lia. lia.
  - fold Nb. replace (64 * (block * 4 + 0)) with (256 * block) by lia. change (64 * 4) with 256. lia.
Qed.
End ExtraS.
