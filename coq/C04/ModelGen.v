(* C04: loop shapes shared by several rank/select structures, as the code writes them.
   - bsearch: `while lo < hi { mid = midf lo hi; if right mid { lo = mid + 1 } else { hi = mid } }`
     (separated.rs select{0,1}_upper_bound, simple.rs select0/select1, interleaved.rs binary_search_lines and
     select0, few.rs select0/select1 all have this shape; they differ in `midf` and in the test);
   - the select-cache builder of separated.rs (same algorithm as separated_512.rs with another line size).
   Definitions only. *)
From Coq Require Import List Arith Lia Bool.
From ZV.C04 Require Import Spec Model.
Import ListNotations.

Definition mid_avg (lo hi : nat) : nat := (lo + hi) / 2.            (* (lo + hi) / 2 *)
Definition mid_off (lo hi : nat) : nat := lo + (hi - lo) / 2.       (* left + (right - left) / 2 *)

Fixpoint bsearch (midf : nat -> nat -> nat) (right : nat -> bool) (fuel lo hi : nat) : nat :=
  match fuel with
  | O => lo
  | S f =>
      if lo <? hi then
        let mid := midf lo hi in
        if right mid then bsearch midf right f (S mid) hi else bsearch midf right f lo mid
      else lo
  end.

(* build_select{0,1}_cache of separated.rs: g k is the rank (of ones, or of zeros) before line k;
   select1: `while k < nlines && g k < L * j`, select0: `while k < nlines && g k <= L * j` *)
Fixpoint sel_scan_g (g : nat -> nat) (strict : bool) (L nl j fuel k : nat) : nat :=
  match fuel with
  | O => k
  | S f =>
      if k <? nl then
        if (if strict then L * j <? g k else L * j <=? g k) then k
        else sel_scan_g g strict L nl j f (S k)
      else k
  end.
Fixpoint sel_fill_g (g : nat -> nat) (strict : bool) (L nl n j prev : nat) : list nat :=
  match n with
  | O => []
  | S n' => let k := sel_scan_g g strict L nl j (S nl) prev in k :: sel_fill_g g strict L nl n' (S j) k
  end.
Definition build_sel_cache_g (g : nat -> nat) (strict : bool) (L max_rank nl : nat) : list nat :=
  let slots := (max_rank + L - 1) / L in
  if slots =? 0 then [nl]
  else 0 :: sel_fill_g g strict L nl (slots - 1) 1 0 ++ [nl].
