(* C04 mechanism model of src/succinct/rank_select/trivial.rs (RankSelectAllZero / RankSelectAllOne: only `size` is
   stored, every operation is a formula with an assert / range check), of AdaptiveRankSelect and of
   AdaptiveMultiDimensional / MultiDimRankSelect as written: adaptive.rs analyses the data but `select_implementation`
   always returns `RankSelectInterleaved256::new(bit_vector)` and every trait method forwards to it;
   MultiDimRankSelect keeps one `RankSelectInterleaved256::new(bv)` per dimension, `bulk_rank_multidim` is rank1 per
   dimension (0 for a position past `total_bits`), `bulk_select_multidim` is select1 per dimension with `?`.
   Definitions only. *)
From Coq Require Import List Arith NArith Lia Bool.
From ZV.C04 Require Import Spec Model ModelIL ModelGen ModelILSel.
Import ListNotations.

(* ---- RankSelectAllZero ---- *)
Definition az_rank1 (size pos : nat) : option nat := if size <? pos then None else Some 0.
Definition az_rank0 (size pos : nat) : option nat := if size <? pos then None else Some pos.
Definition az_select1 (size k : nat) : option nat := None.
Definition az_select0 (size k : nat) : option nat := if k <? size then Some k else None.
Definition az_get (size i : nat) : option bool := if i <? size then Some false else None.
Definition az_count_ones (size : nat) : nat := 0.

(* ---- RankSelectAllOne ---- *)
Definition ao_rank1 (size pos : nat) : option nat := if size <? pos then None else Some pos.
Definition ao_rank0 (size pos : nat) : option nat := if size <? pos then None else Some 0.
Definition ao_select1 (size k : nat) : option nat := if k <? size then Some k else None.
Definition ao_select0 (size k : nat) : option nat := None.
Definition ao_get (size i : nat) : option bool := if i <? size then Some true else None.
Definition ao_count_ones (size : nat) : nat := size.

(* ---- AdaptiveRankSelect::new: RankSelectInterleaved256::new = with_options(bv, true, 512); all methods forward ---- *)
Definition DEFAULT_IL_SELECT_SAMPLE_RATE : nat := 512.
Definition adaptive_build (bs : list bool) : il256s := ils_build bs true DEFAULT_IL_SELECT_SAMPLE_RATE.
Definition adaptive_rank1 (a : il256s) (p : nat) : nat := il_rank1 (ils a) p.
Definition adaptive_rank0 (a : il256s) (p : nat) : nat := il_rank0 (ils a) p.
Definition adaptive_select1 (a : il256s) (k : nat) : option nat := ils_select1 a k.
Definition adaptive_select0 (a : il256s) (k : nat) : option nat := ils_select0 a k.
Definition adaptive_get (a : il256s) (i : nat) : option bool := il_get (ils a) i.
Definition adaptive_count_ones (a : il256s) : nat := il_ones (ils a).
Definition adaptive_len (a : il256s) : nat := il_bits (ils a).

(* ---- MultiDimRankSelect<DIMS>: the dimensions as a list; new() refuses unequal lengths ---- *)
Record multidim := { md_dims : list il256s; md_total_bits : nat }.
Definition md_build (bvs : list (list bool)) : option multidim :=
  match bvs with
  | [] => None
  | b0 :: _ =>
      if forallb (fun b => length b =? length b0) bvs
      then Some {| md_dims := map adaptive_build bvs; md_total_bits := length b0 |}
      else None
  end.
Definition md_bulk_rank (m : multidim) (positions : list nat) : list nat :=
  map (fun '(d, p) => if p <=? md_total_bits m then il_rank1 (ils d) p else 0) (combine (md_dims m) positions).
Fixpoint md_select_go (ds : list il256s) (ranks : list nat) : option (list nat) :=
  match ds, ranks with
  | d :: ds', r :: rs' =>
      match ils_select1 d r with
      | None => None
      | Some p => match md_select_go ds' rs' with None => None | Some l => Some (p :: l) end
      end
  | _, _ => Some []
  end.
Definition md_bulk_select (m : multidim) (ranks : list nat) : option (list nat) := md_select_go (md_dims m) ranks.
