(* C04: facts about the loop shapes of ModelGen.v, proved once and used by the SE256, Simple, Few and
   interleaved-256 select proofs. *)
From Coq Require Import List Arith NArith Lia Bool ZifyBool ZifyNat ZifyN.
From ZV.Common Require Import Base.
From ZV.C04 Require Import Spec Model ModelGen ProofsRank ProofsSelect.
Import ListNotations.
Ltac Zify.zify_post_hook ::= Z.div_mod_to_equations.
Close Scope N_scope.
Open Scope nat_scope.

Lemma mid_avg_between lo hi : lo < hi -> lo <= mid_avg lo hi < hi.
Proof. unfold mid_avg. lia. Qed.
Lemma mid_off_between lo hi : lo < hi -> lo <= mid_off lo hi < hi.
Proof. unfold mid_off. lia. Qed.

(* ---- the binary search: `right` holds on a prefix of [0, n) and fails on the rest ---- *)
Section BSearch.
  Variable midf : nat -> nat -> nat.
  Variable right : nat -> bool.
  Variable n : nat.
  Hypothesis mid_between : forall lo hi, lo < hi -> lo <= midf lo hi < hi.
  Hypothesis mono : forall i j, i <= j < n -> right j = true -> right i = true.

  Lemma bsearch_spec : forall fuel lo hi,
    lo <= hi <= n -> hi - lo < fuel ->
    (forall i, i < lo -> right i = true) -> (forall i, hi <= i < n -> right i = false) ->
    let r := bsearch midf right fuel lo hi in
    lo <= r <= hi /\ (forall i, i < r -> right i = true) /\ (forall i, r <= i < n -> right i = false).
  Proof.
    induction fuel as [|fuel IH]; intros lo hi Hb Hf Hlo Hhi; [lia|].
    cbn [bsearch]. destruct (Nat.ltb_spec lo hi) as [Hlt|Hge].
    - pose proof (mid_between lo hi Hlt) as Hmid.
      destruct (right (midf lo hi)) eqn:Er.
      + destruct (IH (S (midf lo hi)) hi) as (A & B & C); [lia|lia| |exact Hhi|].
        * intros i Hi. apply (mono i (midf lo hi)); [lia|exact Er].
        * repeat split; try lia; assumption.
      + destruct (IH lo (midf lo hi)) as (A & B & C); [lia|lia|exact Hlo| |].
        * intros i Hi. destruct (right i) eqn:Ei; [|reflexivity].
          rewrite (mono (midf lo hi) i) in Er; [discriminate|lia|exact Ei].
        * repeat split; try lia; assumption.
    - assert (lo = hi) by lia. subst. repeat split; try lia; assumption.
  Qed.
End BSearch.

(* ---- the select cache of separated.rs brackets the binary search ---- *)
Section SelCacheG.
  Variable g : nat -> nat.
  Variable L nl : nat.
  Hypothesis Lpos : 0 < L.

  (* select1 flavour: stop at the first line whose rank reaches L*j *)
  Lemma sel_scan_g1_spec j : forall fuel k,
    k <= nl -> nl - k < fuel -> (forall i, i < k -> g i < L * j) ->
    let r := sel_scan_g g false L nl j fuel k in
    k <= r <= nl /\ (forall i, i < r -> g i < L * j) /\ (r < nl -> L * j <= g r).
  Proof.
    induction fuel as [|fuel IH]; intros k Hk Hf Hlow; [lia|].
    cbn [sel_scan_g]. destruct (Nat.ltb_spec k nl) as [Hlt|Hge].
    - destruct (Nat.leb_spec (L * j) (g k)) as [Hhit|Hmiss].
      + repeat split; try lia; auto.
      + destruct (IH (S k)) as (A & B & C); [lia|lia| |].
        * intros i Hi. destruct (Nat.eq_dec i k) as [->|]; [lia|apply Hlow; lia].
        * repeat split; try lia; auto.
    - repeat split; try lia; auto.
  Qed.

  (* select0 flavour: stop at the first line whose rank exceeds L*j *)
  Lemma sel_scan_g0_spec j : forall fuel k,
    k <= nl -> nl - k < fuel -> (forall i, i < k -> g i <= L * j) ->
    let r := sel_scan_g g true L nl j fuel k in
    k <= r <= nl /\ (forall i, i < r -> g i <= L * j) /\ (r < nl -> L * j < g r).
  Proof.
    induction fuel as [|fuel IH]; intros k Hk Hf Hlow; [lia|].
    cbn [sel_scan_g]. destruct (Nat.ltb_spec k nl) as [Hlt|Hge].
    - destruct (Nat.ltb_spec (L * j) (g k)) as [Hhit|Hmiss].
      + repeat split; try lia; auto.
      + destruct (IH (S k)) as (A & B & C); [lia|lia| |].
        * intros i Hi. destruct (Nat.eq_dec i k) as [->|]; [lia|apply Hlow; lia].
        * repeat split; try lia; auto.
    - repeat split; try lia; auto.
  Qed.

  Lemma sel_fill_g_length strict : forall n j prev, length (sel_fill_g g strict L nl n j prev) = n.
  Proof. induction n as [|n IH]; intros j prev; cbn [sel_fill_g length]; [reflexivity|]. rewrite IH. reflexivity. Qed.

  Lemma sel_fill_g1_spec : forall n j prev,
    prev <= nl -> (forall i, i < prev -> g i < L * j) ->
    forall t, t < n ->
      let e := nth t (sel_fill_g g false L nl n j prev) 0 in
      e <= nl /\ (forall i, i < e -> g i < L * (j + t)) /\ (e < nl -> L * (j + t) <= g e).
  Proof.
    induction n as [|n IH]; intros j prev Hp Hlow t Ht; [lia|].
    cbn [sel_fill_g].
    destruct (sel_scan_g1_spec j (S nl) prev) as (A & B & C); [lia|lia|exact Hlow|].
    set (e0 := sel_scan_g g false L nl j (S nl) prev) in *.
    destruct t as [|t]; cbn [nth].
    - rewrite Nat.add_0_r. repeat split; try lia; auto.
    - replace (j + S t) with (S j + t) by lia. apply IH; [lia| |lia].
      intros i Hi. specialize (B i Hi). nia.
  Qed.

  Lemma sel_fill_g0_spec : forall n j prev,
    prev <= nl -> (forall i, i < prev -> g i <= L * j) ->
    forall t, t < n ->
      let e := nth t (sel_fill_g g true L nl n j prev) 0 in
      e <= nl /\ (forall i, i < e -> g i <= L * (j + t)) /\ (e < nl -> L * (j + t) < g e).
  Proof.
    induction n as [|n IH]; intros j prev Hp Hlow t Ht; [lia|].
    cbn [sel_fill_g].
    destruct (sel_scan_g0_spec j (S nl) prev) as (A & B & C); [lia|lia|exact Hlow|].
    set (e0 := sel_scan_g g true L nl j (S nl) prev) in *.
    destruct t as [|t]; cbn [nth].
    - rewrite Nat.add_0_r. repeat split; try lia; auto.
    - replace (j + S t) with (S j + t) by lia. apply IH; [lia| |lia].
      intros i Hi. specialize (B i Hi). nia.
  Qed.

  Lemma slots_pos mr : 0 < mr -> 1 <= (mr + L - 1) / L.
  Proof.
    intros H. apply Nat.div_le_lower_bound; lia.
  Qed.

  (* entry t of the select1 cache: no line before it reaches L*t ones; it does, unless it is the end *)
  Lemma sel_cache_g1_spec mr : 0 < mr -> forall t, t <= (mr + L - 1) / L ->
    let e := nth t (build_sel_cache_g g false L mr nl) 0 in
    e <= nl /\ (t < (mr + L - 1) / L -> forall i, i < e -> g i < L * t) /\ (e < nl -> L * t <= g e).
  Proof.
    intros Hmr t Ht. unfold build_sel_cache_g.
    pose proof (slots_pos mr Hmr) as Hs.
    set (slots := (mr + L - 1) / L) in *.
    replace (slots =? 0) with false by (symmetry; apply Nat.eqb_neq; lia).
    destruct t as [|t]; cbn [nth].
    - repeat split; try lia.
    - destruct (Nat.lt_ge_cases t (slots - 1)) as [Hin|Hout].
      + rewrite app_nth1 by (rewrite sel_fill_g_length; lia).
        destruct (sel_fill_g1_spec (slots - 1) 1 0) with (t := t) as (A & B & C); [lia|intros; lia|lia|].
        replace (1 + t) with (S t) in * by lia. repeat split; try lia; try assumption. intros _. exact B.
      + assert (t = slots - 1) by lia. subst t.
        rewrite app_nth2 by (rewrite sel_fill_g_length; lia).
        rewrite sel_fill_g_length, Nat.sub_diag. cbn [nth]. repeat split; try lia.
  Qed.

  Lemma sel_cache_g0_spec mr : 0 < mr -> forall t, t <= (mr + L - 1) / L ->
    let e := nth t (build_sel_cache_g g true L mr nl) 0 in
    e <= nl /\ (t < (mr + L - 1) / L -> forall i, i < e -> g i <= L * t) /\ (1 <= t -> e < nl -> L * t < g e).
  Proof.
    intros Hmr t Ht. unfold build_sel_cache_g.
    pose proof (slots_pos mr Hmr) as Hs.
    set (slots := (mr + L - 1) / L) in *.
    replace (slots =? 0) with false by (symmetry; apply Nat.eqb_neq; lia).
    destruct t as [|t]; cbn [nth].
    - repeat split; try lia.
    - destruct (Nat.lt_ge_cases t (slots - 1)) as [Hin|Hout].
      + rewrite app_nth1 by (rewrite sel_fill_g_length; lia).
        destruct (sel_fill_g0_spec (slots - 1) 1 0) with (t := t) as (A & B & C); [lia|intros; lia|lia|].
        replace (1 + t) with (S t) in * by lia. repeat split; try lia; try assumption; intros _; assumption.
      + assert (t = slots - 1) by lia. subst t.
        rewrite app_nth2 by (rewrite sel_fill_g_length; lia).
        rewrite sel_fill_g_length, Nat.sub_diag. cbn [nth]. repeat split; try lia.
  Qed.
End SelCacheG.

(* ---- more facts about the definition ---- *)
Lemma seg_0 bs a : seg bs a 0 = 0.
Proof. reflexivity. Qed.

Lemma rank1_S bs a : rank1 bs (S a) = rank1 bs a + (if nth a bs false then 1 else 0).
Proof.
  replace (S a) with (a + 1) by lia. rewrite rank1_seg. f_equal.
  unfold seg. replace (nth a bs false) with (nth 0 (skipn a bs) false) by (rewrite nth_skipn; f_equal; lia).
  destruct (skipn a bs) as [|b t]; [reflexivity|]. cbn [firstn count1 nth]. lia.
Qed.

Lemma rank1_min bs p : rank1 bs (Nat.min p (length bs)) = rank1 bs p.
Proof.
  destruct (Nat.le_gt_cases p (length bs)) as [H|H].
  - rewrite Nat.min_l by exact H. reflexivity.
  - rewrite Nat.min_r by lia. rewrite !rank1_all by lia. reflexivity.
Qed.

Lemma rank1_le bs p : rank1 bs p <= p.
Proof. unfold rank1. pose proof (count1_le (firstn p bs)) as H. rewrite firstn_length in H. lia. Qed.

Lemma rank1_le_count bs p : rank1 bs p <= count1 bs.
Proof.
  destruct (Nat.le_gt_cases (length bs) p) as [H|H].
  - rewrite rank1_all by exact H. lia.
  - rewrite <- (rank1_all bs (length bs)) by lia. apply rank1_mono. lia.
Qed.

Lemma nth_true_lt bs p : nth p bs false = true -> p < length bs.
Proof.
  intros H. destruct (Nat.lt_ge_cases p (length bs)) as [Hl|Hl]; [exact Hl|].
  rewrite nth_overflow in H by exact Hl. discriminate.
Qed.

(* the k-th one is at p: everything before p has rank <= k, everything after has rank > k *)
Lemma select1_rank_lt bs k p q : select1 bs k = Some p -> q <= p -> rank1 bs q <= k.
Proof.
  intros H Hq. apply select1_spec in H. destruct H as (_ & _ & Hr). rewrite <- Hr. apply rank1_mono. exact Hq.
Qed.
Lemma select1_rank_gt bs k p q : select1 bs k = Some p -> p < q -> k < rank1 bs q.
Proof.
  intros H Hq. apply select1_spec in H. destruct H as (_ & Hb & Hr).
  assert (rank1 bs (S p) <= rank1 bs q) by (apply rank1_mono; lia).
  rewrite rank1_S, Hb in H. lia.
Qed.

(* select_in_word of a 64-bit window stays inside the window when the index is below its popcount *)
Lemma select_in_word_lt w k : k < count1 w -> select_in_word w k < length w.
Proof.
  intros H. destruct (select1_lt_count w k H) as (p & Hp & Hl). unfold select_in_word. rewrite Hp. exact Hl.
Qed.
