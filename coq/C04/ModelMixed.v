(* C04 mechanism model of RankSelectMixedIL256 (src/succinct/rank_select/mixed_il_256.rs) as written, one dimension
   at a time (the two dimensions share nothing but the number of lines): nlines = ceil(max(size0, size1) / 256) lines,
   each holding for this dimension rlev1 (u32, ones before the line), rlev2[4] (`r as u8`) and four data words that
   are masked to the dimension's size (so a line past the end of a shorter dimension is all zero with rlev1 = total);
   rank1_dim (asserts, `line_idx >= lines.len()` -> max_rank1), rank0_dim, select1_dim (upper bound over all lines,
   `lo - 1`, descending scan over rlev2, in-word select), get_dim; select0 is not offered (always an error).
   Not modelled: u32 wrap of rlev1.  Definitions only. *)
From Coq Require Import List Arith Lia Bool.
From ZV.C04 Require Import Spec Model ModelGen ModelSE256.
Import ListNotations.

Record dimline := { dl_rlev1 : nat; dl_rlev2 : list nat; dl_bit64 : list (list bool) }.

(* effective_word: the block masked to the bits below dim_size = the 64-bit window of the list (cut at its end) *)
Definition effective_word (bs : list bool) (nw wi : nat) : list bool :=
  let w := if wi <? nw then word bs wi else [] in
  let global_bit := wi * 64 in
  let dim_size := length bs in
  if (dim_size <? global_bit + 64) && (global_bit <? dim_size) then firstn (dim_size - global_bit) w
  else if dim_size <=? global_bit then []
  else w.

Fixpoint mx_line (bs : list bool) (nw line : nat) (js : list nat) (r : nat) : list nat * list (list bool) * nat :=
  match js with
  | [] => ([], [], r)
  | j :: t =>
      let ew := effective_word bs nw (line * 4 + j) in
      let '(l2, ws, tot) := mx_line bs nw line t (r + popcount ew) in
      ((r mod 256) :: l2, ew :: ws, tot)
  end.

Fixpoint mx_lines (bs : list bool) (nw n i cum : nat) : list dimline * nat :=
  match n with
  | O => ([], cum)
  | S n' =>
      let '(l2, ws, r) := mx_line bs nw i (seq 0 4) 0 in
      let '(rest, total) := mx_lines bs nw n' (S i) (cum + r) in
      ({| dl_rlev1 := cum; dl_rlev2 := l2; dl_bit64 := ws |} :: rest, total)
  end.

Record mixdim := { mx_ls : list dimline; mx_size : nat; mx_max_rank1 : nat }.

(* this dimension of RankSelectMixedIL256::new(bv0, bv1); other_size = the length of the other dimension;
   the block vector has ceil(len/64) + extra words, the extra ones all zero *)
Definition mx_build (bs : list bool) (extra other_size : nat) : mixdim :=
  let size := length bs in
  let nlines := (Nat.max size other_size + 256 - 1) / 256 in
  let '(ls, cum) := mx_lines bs (nwords size + extra) nlines 0 0 in
  {| mx_ls := ls; mx_size := size; mx_max_rank1 := cum |}.

Definition mx_dflt : dimline := {| dl_rlev1 := 0; dl_rlev2 := [0; 0; 0; 0]; dl_bit64 := [[]; []; []; []] |}.

(* DimLine::rank1_within *)
Definition mx_rank1_within (l : dimline) (bit_offset : nat) : nat :=
  let word_idx := bit_offset / 64 in
  let bit_in_word := bit_offset mod 64 in
  let rank := nth word_idx (dl_rlev2 l) 0 in
  if 0 <? bit_in_word then rank + count1 (firstn bit_in_word (nth word_idx (dl_bit64 l) [])) else rank.

Definition mx_rank1 (m : mixdim) (pos : nat) : option nat :=
  if mx_size m <? pos then None            (* assert!(pos <= self.size[dim]) *)
  else if pos =? 0 then Some 0
  else
    let line_idx := pos / 256 in
    if length (mx_ls m) <=? line_idx then Some (mx_max_rank1 m)
    else let dl := nth line_idx (mx_ls m) mx_dflt in
         Some (dl_rlev1 dl + mx_rank1_within dl (pos mod 256)).

Definition mx_rank0 (m : mixdim) (pos : nat) : option nat :=
  match mx_rank1 m pos with Some r => Some (pos - r) | None => None end.

Fixpoint mx_scan1 (block remaining : nat) (dl : dimline) (js : list nat) : option nat :=
  match js with
  | [] => None
  | j :: t =>
      let before := nth j (dl_rlev2 dl) 0 in
      if before <=? remaining
      then Some (block * 256 + j * 64 + select_in_word (nth j (dl_bit64 dl) []) (remaining - before))
      else mx_scan1 block remaining dl t
  end.

Definition mx_select1 (m : mixdim) (k : nat) : option nat :=
  if mx_max_rank1 m <=? k then None else
  let nlines := length (mx_ls m) in
  let lo := bsearch mid_avg (fun mid => dl_rlev1 (nth mid (mx_ls m) mx_dflt) <=? k) (S nlines) 0 nlines in
  if lo =? 0 then None else              (* `lo - 1` on usize *)
  let block := lo - 1 in
  let dl := nth block (mx_ls m) mx_dflt in
  mx_scan1 block (k - dl_rlev1 dl) dl (rev (seq 0 4)).

Definition mx_select0 (m : mixdim) (k : nat) : option nat := None.   (* "select0 not yet implemented for mixed" *)

Definition mx_get (m : mixdim) (index : nat) : option bool :=
  if mx_size m <=? index then None else
  Some (nth (index mod 64) (nth ((index mod 256) / 64) (dl_bit64 (nth (index / 256) (mx_ls m) mx_dflt)) []) false).
