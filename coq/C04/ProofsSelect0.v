(* C04: RankSelectSE512 select0 returns the position of the k-th zero, for every bit list, every k,
   both cache settings.  The code searches zero counts (line*512 - ones) and inverts 64-bit words whose
   missing tail is zero-padded; we reason on the padded, negated list P where zeros of the input are ones. *)
From Coq Require Import List Arith NArith Lia Bool ZifyBool ZifyNat ZifyN.
From ZV.Common Require Import Base.
From ZV.C04 Require Import Spec Model ProofsRank ProofsSelect.
Import ListNotations.
Ltac Zify.zify_post_hook ::= Z.div_mod_to_equations.
Close Scope N_scope.
Open Scope nat_scope.

Lemma count1_repeat_false m : count1 (repeat false m) = 0.
Proof. induction m as [|m IH]; cbn [repeat count1]; lia. Qed.
Lemma count1_repeat_true m : count1 (repeat true m) = m.
Proof. induction m as [|m IH]; cbn [repeat count1]; lia. Qed.

Lemma firstn_repeat {A} (x : A) n m : firstn n (repeat x m) = repeat x (Nat.min n m).
Proof.
  revert m; induction n as [|n IH]; intros m; [reflexivity|].
  destruct m as [|m]; [reflexivity|]. cbn [repeat firstn Nat.min]. f_equal. apply IH.
Qed.
Lemma skipn_repeat {A} (x : A) n m : skipn n (repeat x m) = repeat x (m - n).
Proof.
  revert m; induction n as [|n IH]; intros m; [rewrite Nat.sub_0_r; reflexivity|].
  destruct m as [|m]; [reflexivity|]. cbn [repeat skipn Nat.sub]. apply IH.
Qed.

Lemma rank1_pad_false bs m p : rank1 (bs ++ repeat false m) p = rank1 bs p.
Proof.
  unfold rank1. rewrite firstn_app, count1_app, firstn_repeat, count1_repeat_false. lia.
Qed.

Lemma rank1_negb l p : p <= length l -> rank1 (map negb l) p = p - rank1 l p.
Proof.
  intros H. pose proof (rank0_rank1 l p H) as E. unfold rank0 in E. unfold rank1 at 1.
  rewrite firstn_map. lia.
Qed.

Lemma select1_app_l a b k : k < count1 a -> select1 (a ++ b) k = select1 a k.
Proof.
  revert k; induction a as [|x a IH]; intros k Hk; cbn [count1] in Hk; [lia|].
  cbn [app select1]. destruct x.
  - destruct k as [|k]; [reflexivity|]. rewrite IH by lia. reflexivity.
  - rewrite IH by lia. reflexivity.
Qed.

(* the padded word of the code is the 64-bit window of the padded list *)
Lemma padded_word bs m i : 64 * i + 64 <= length bs + m ->
  word bs i ++ repeat false (64 - length (word bs i)) = firstn 64 (skipn (64 * i) (bs ++ repeat false m)).
Proof.
  intros H. unfold word. rewrite skipn_app, firstn_app, skipn_repeat, firstn_repeat.
  rewrite firstn_length, !skipn_length. f_equal. f_equal. lia.
Qed.

Section UB0.
  Variable s : se512.
  Variable n rank : nat.
  Let g := fun i => i * LINE - base (nth i (cache s) dflt).
  Hypothesis mono : forall i j, i <= j <= n -> g i <= g j.

  Lemma ub_loop0_spec : forall fuel lo hi,
    lo <= hi <= n -> hi - lo < fuel ->
    (forall i, i < lo -> g i <= rank) -> (forall i, hi <= i <= n -> rank < g i) ->
    let r := ub_loop s rank false fuel lo hi in
    lo <= r <= hi /\ (forall i, i < r -> g i <= rank) /\ (forall i, r <= i <= n -> rank < g i).
  Proof.
    induction fuel as [|fuel IH]; intros lo hi Hb Hf Hlo Hhi; [lia|].
    cbn [ub_loop]. destruct (Nat.ltb_spec lo hi) as [Hlt|Hge].
    - assert (Hmid : lo <= (lo + hi) / 2 < hi) by lia.
      change ((lo + hi) / 2 * LINE - base (nth ((lo + hi) / 2) (cache s) dflt)) with (g ((lo + hi) / 2)).
      destruct (Nat.leb_spec (g ((lo + hi) / 2)) rank) as [Hle|Hgt].
      + specialize (IH (S ((lo + hi) / 2)) hi).
        destruct IH as (A & B & C); [lia|lia| |exact Hhi|].
        * intros i Hi. assert (g i <= g ((lo + hi) / 2)) by (apply mono; lia). lia.
        * repeat split; try lia; assumption.
      + specialize (IH lo ((lo + hi) / 2)).
        destruct IH as (A & B & C); [lia|lia|exact Hlo| |].
        * intros i Hi. assert (g ((lo + hi) / 2) <= g i) by (apply mono; lia). lia.
        * repeat split; try lia; assumption.
    - assert (lo = hi) by lia. subst. repeat split; try lia; assumption.
  Qed.
End UB0.

Section SelCache0.
  Variable cache : list rc.
  Variable nl : nat.
  Let g := fun i => i * LINE - base (nth i cache dflt).

  Lemma sel_scan0_spec j : forall fuel k,
    k <= nl -> nl - k < fuel -> (forall i, i < k -> g i <= 512 * j) ->
    let r := sel_scan cache nl false j fuel k in
    k <= r <= nl /\ (forall i, i < r -> g i <= 512 * j) /\ (r < nl -> 512 * j < g r).
  Proof.
    induction fuel as [|fuel IH]; intros k Hk Hf Hlow; [lia|].
    cbn [sel_scan]. destruct (Nat.ltb_spec k nl) as [Hlt|Hge].
    - change (k * LINE - base (nth k cache {| base := 0; rela := 0 |})) with (g k). change (LINE * j) with (512 * j).
      destruct (Nat.ltb_spec (512 * j) (g k)) as [Hhit|Hmiss].
      + repeat split; try lia; auto.
      + destruct (IH (S k)) as (A & B & C); [lia|lia| |].
        * intros i Hi. destruct (Nat.eq_dec i k) as [->|]; [lia|apply Hlow; lia].
        * repeat split; try lia; auto.
    - repeat split; try lia; auto.
  Qed.

  Lemma sel_fill0_length : forall n j prev, length (sel_fill cache nl false n j prev) = n.
  Proof. induction n as [|n IH]; intros j prev; cbn [sel_fill length]; [reflexivity|]. rewrite IH. reflexivity. Qed.

  Lemma sel_fill0_spec : forall n j prev,
    prev <= nl -> (forall i, i < prev -> g i <= 512 * j) ->
    forall t, t < n ->
      let e := nth t (sel_fill cache nl false n j prev) 0 in
      e <= nl /\ (forall i, i < e -> g i <= 512 * (j + t)) /\ (e < nl -> 512 * (j + t) < g e).
  Proof.
    induction n as [|n IH]; intros j prev Hp Hlow t Ht; [lia|].
    cbn [sel_fill].
    destruct (sel_scan0_spec j (S nl) prev) as (A & B & C); [lia|lia|exact Hlow|].
    set (e0 := sel_scan cache nl false j (S nl) prev) in *.
    destruct t as [|t]; cbn [nth].
    - rewrite Nat.add_0_r. repeat split; try lia; auto.
    - replace (j + S t) with (S j + t) by lia. apply IH; [lia| |lia].
      intros i Hi. specialize (B i Hi). lia.
  Qed.

  Lemma select_cache0_spec mr : 0 < mr -> forall t, t <= (mr + 511) / 512 ->
    let e := nth t (build_select_cache cache mr nl false) 0 in
    e <= nl /\ (t < (mr + 511) / 512 -> forall i, i < e -> g i <= 512 * t) /\ (1 <= t -> e < nl -> 512 * t < g e).
  Proof.
    intros Hmr t Ht. unfold build_select_cache, LINE.
    replace (mr + 512 - 1) with (mr + 511) by lia.
    set (slots := (mr + 511) / 512) in *.
    assert (Hs : 1 <= slots) by (subst slots; lia).
    replace (slots =? 0) with false by (symmetry; apply Nat.eqb_neq; lia).
    destruct t as [|t]; cbn [nth].
    - repeat split; try lia.
    - destruct (Nat.lt_ge_cases t (slots - 1)) as [Hin|Hout].
      + rewrite app_nth1 by (rewrite sel_fill0_length; lia).
        destruct (sel_fill0_spec (slots - 1) 1 0) with (t := t) as (A & B & C); [lia|intros; lia|lia|].
        replace (1 + t) with (S t) in * by lia. repeat split; try lia; try assumption; intros _; assumption.
      + assert (t = slots - 1) by lia. subst t.
        rewrite app_nth2 by (rewrite sel_fill0_length; lia).
        rewrite sel_fill0_length, Nat.sub_diag. cbn [nth]. repeat split; try lia.
  Qed.
End SelCache0.

Lemma scan0_skip s block target c pre j0 post :
  (forall j, In j pre -> target < j * 64 - get_rela (rela c) j) ->
  j0 * 64 - get_rela (rela c) j0 <= target ->
  scan0 s block target c (pre ++ j0 :: post) =
  Some (block * LINE + j0 * 64 +
        select_in_word (map negb (word (bits s) (block * WPL + j0) ++
                                  repeat false (64 - length (word (bits s) (block * WPL + j0)))))
                       (target - (j0 * 64 - get_rela (rela c) j0))).
Proof.
  induction pre as [|j pre IH]; intros Hpre Hhit; cbn [app scan0].
  - replace (j0 * 64 - get_rela (rela c) j0 <=? target) with true by (symmetry; apply Nat.leb_le; exact Hhit).
    reflexivity.
  - assert (Hj : target < j * 64 - get_rela (rela c) j) by (apply Hpre; left; reflexivity).
    replace (j * 64 - get_rela (rela c) j <=? target) with false by (symmetry; apply Nat.leb_gt; exact Hj).
    apply IH; [|exact Hhit]. intros j' Hj'. apply Hpre. right. exact Hj'.
Qed.

Theorem se_select0_correct_proof bs sp0 sp1 k :
  se_select0 (build bs sp0 sp1) k = select0 bs k.
Proof.
  unfold build.
  pose proof (build_lines_spec bs (nlines (length bs)) 0 0 eq_refl) as Hb.
  destruct (build_lines bs (nlines (length bs)) 0 0) as [lines cum] eqn:Ebl.
  destruct Hb as (Hlen & Htot & Hk). cbn [Nat.add] in *.
  pose proof (nlines_bounds (length bs)) as [Hn1 Hn2]. unfold LINE in Hn1, Hn2.
  assert (Hcum : cum = count1 bs) by (rewrite Htot; apply rank1_all; lia).
  set (nl := nlines (length bs)) in *.
  set (cch := lines ++ [{| base := cum; rela := 0 |}]).
  set (mr0 := length bs - cum).
  set (s := {| bits := bs; size := length bs; cache := cch;
               sel0 := _; sel1 := _; max_rank0 := mr0; max_rank1 := cum |}).
  (* the padded, negated list *)
  set (m := 512 * nl - length bs).
  set (L := bs ++ repeat false m).
  set (P := map negb L).
  assert (HLlen : length L = 512 * nl) by (subst L m; rewrite app_length, repeat_length; lia).
  assert (HPlen : length P = 512 * nl) by (subst P; rewrite map_length; exact HLlen).
  assert (HP : P = map negb bs ++ repeat true m).
  { subst P L. rewrite map_app. f_equal. clear. induction m as [|m IH]; cbn [repeat map negb]; [reflexivity|]. f_equal. exact IH. }
  assert (HrP : forall p, p <= 512 * nl -> rank1 P p = p - rank1 bs p).
  { intros p Hp. subst P. rewrite rank1_negb by lia. subst L. rewrite rank1_pad_false. reflexivity. }
  assert (Hle : forall p, rank1 bs p <= p).
  { intros p. unfold rank1. pose proof (count1_le (firstn p bs)). rewrite firstn_length in H. lia. }
  assert (Hc0 : count1 (map negb bs) = mr0).
  { rewrite count1_negb. subst mr0. lia. }
  unfold se_select0. change (max_rank0 s) with mr0. unfold select0.
  destruct (Nat.leb_spec mr0 k) as [Hge|Hlt].
  { destruct (select1 (map negb bs) k) as [p|] eqn:E; [|reflexivity].
    assert (k < count1 (map negb bs)) by (apply select1_some_iff; eauto). lia. }
  rewrite <- (select1_app_l (map negb bs) (repeat true m) k) by lia. rewrite <- HP.
  assert (Hbase : forall i, i <= nl -> base (nth i (cache s) dflt) = rank1 bs (512 * i)).
  { intros i Hi. subst s cch. cbn [cache]. destruct (Nat.eq_dec i nl) as [->|Hne].
    - rewrite app_nth2 by lia. rewrite Hlen, Nat.sub_diag. cbn [nth base]. exact Htot.
    - rewrite app_nth1 by lia. apply Hk. lia. }
  assert (Hg : forall i, i <= nl -> i * LINE - base (nth i (cache s) dflt) = rank1 P (512 * i)).
  { intros i Hi. rewrite Hbase by lia. rewrite HrP by lia. unfold LINE. lia. }
  assert (Hclen : length (cache s) = S nl) by (subst s cch; cbn [cache]; rewrite app_length; cbn [length]; lia).
  assert (Hmono : forall i j, i <= j <= nl ->
            i * LINE - base (nth i (cache s) dflt) <= j * LINE - base (nth j (cache s) dflt)).
  { intros i j Hij. rewrite !Hg by lia. apply rank1_mono. lia. }
  assert (Hend : k < nl * LINE - base (nth nl (cache s) dflt)).
  { rewrite Hbase by lia. rewrite <- Htot. unfold LINE. subst mr0. lia. }
  assert (Hbr : exists lo0 hi0,
     match sel0 s with
     | Some c => (nth (k / LINE) c 0, nth (S (k / LINE)) c 0)
     | None => (0, length (cache s) - 1)
     end = (lo0, hi0) /\ lo0 <= hi0 <= nl /\
     (forall i, i < lo0 -> i * LINE - base (nth i (cache s) dflt) <= k) /\
     (forall i, hi0 <= i <= nl -> k < i * LINE - base (nth i (cache s) dflt))).
  { destruct (sel0 s) as [c|] eqn:Esel.
    - assert (Hc : c = build_select_cache (cache s) mr0 nl false /\ 0 < mr0).
      { subst s. cbn [sel0 cache] in *. destruct sp0; cbn [andb] in Esel; [|discriminate].
        destruct (Nat.ltb_spec 0 mr0); [|discriminate]. inversion Esel. split; [reflexivity|assumption]. }
      destruct Hc as [-> Hpos]. unfold LINE at 1 2.
      assert (Hslot : S (k / 512) <= (mr0 + 511) / 512) by lia.
      destruct (select_cache0_spec (cache s) nl mr0 Hpos (k / 512)) as (A1 & B1 & C1); [lia|].
      destruct (select_cache0_spec (cache s) nl mr0 Hpos (S (k / 512))) as (A2 & B2 & C2); [lia|].
      set (e1 := nth (k / 512) (build_select_cache (cache s) mr0 nl false) 0) in *.
      set (e2 := nth (S (k / 512)) (build_select_cache (cache s) mr0 nl false) 0) in *.
      exists e1, e2. split; [reflexivity|].
      assert (Hlow : forall i, i < e1 -> i * LINE - base (nth i (cache s) dflt) <= k).
      { intros i Hi. assert (i * LINE - base (nth i (cache s) dflt) <= 512 * (k / 512)) by (apply B1; lia). lia. }
      assert (Hup : forall i, e2 <= i <= nl -> k < i * LINE - base (nth i (cache s) dflt)).
      { intros i Hi. destruct (Nat.eq_dec e2 nl) as [He|He].
        - assert (i = nl) by lia. subst i. exact Hend.
        - assert (512 * S (k / 512) < e2 * LINE - base (nth e2 (cache s) dflt)) by (apply C2; lia).
          assert (e2 * LINE - base (nth e2 (cache s) dflt) <= i * LINE - base (nth i (cache s) dflt)) by (apply Hmono; lia). lia. }
      repeat split; try lia; try assumption.
      destruct (Nat.le_gt_cases e1 e2) as [Hle'|Hgt]; [exact Hle'|exfalso].
      assert (e2 * LINE - base (nth e2 (cache s) dflt) <= k) by (apply Hlow; lia).
      assert (k < e2 * LINE - base (nth e2 (cache s) dflt)) by (apply Hup; lia). lia.
    - exists 0, nl. rewrite Hclen. split; [f_equal; lia|]. repeat split; try lia.
      intros i Hi. assert (i = nl) by lia. subst i. exact Hend. }
  destruct Hbr as (lo0 & hi0 & Hmatch & Hlh & Hlow0 & Hup0).
  unfold upper_bound. rewrite Hmatch, Hclen.
  pose proof (ub_loop0_spec s nl k Hmono) as Hub.
  destruct (Hub) with (fuel := S (S nl)) (lo := lo0) (hi := hi0) as (Hr1 & Hr2 & Hr3); clear Hub;
    [lia|lia|exact Hlow0|exact Hup0|].
  set (r := ub_loop s k false (S (S nl)) lo0 hi0) in *.
  destruct (Nat.eqb_spec r 0) as [Hr0|Hr0].
  { exfalso. assert (H0 : k < 0 * LINE - base (nth 0 (cache s) dflt)) by (apply Hr3; lia). lia. }
  assert (Hblk : r - 1 < nl) by lia.
  assert (Hlo : rank1 P (512 * (r - 1)) <= k) by (rewrite <- Hg by lia; apply Hr2; lia).
  assert (Hhi : k < rank1 P (512 * (r - 1) + 512)).
  { replace (512 * (r - 1) + 512) with (512 * r) by lia. rewrite <- Hg by lia. apply Hr3. lia. }
  set (block := r - 1) in *.
  assert (Hc : nth block (cache s) dflt = nth block lines dflt) by (subst s cch; cbn [cache]; apply app_nth1; lia).
  rewrite Hc. destruct (Hk block Hblk) as (Hbb & Hrel). rewrite Hbb.
  replace (block * LINE - rank1 bs (512 * block)) with (rank1 P (512 * block)) by (rewrite HrP by lia; unfold LINE; lia).
  set (target := k - rank1 P (512 * block)).
  rewrite rank1_seg in Hhi.
  (* zeros before sub-block j of this line = ones of P *)
  assert (HsegP : forall a n, a + n <= 512 * nl -> seg P a n = n - seg bs a n).
  { intros a n Han. pose proof (rank1_seg P a n) as E1. pose proof (rank1_seg bs a n) as E2.
    rewrite !HrP in E1 by lia. pose proof (Hle a). pose proof (Hle (a + n)). pose proof (seg_le bs a n). lia. }
  assert (Hzb : forall j, j <= 7 -> j * 64 - get_rela (rela (nth block lines dflt)) j = seg P (512 * block) (64 * j)).
  { intros j Hj. rewrite Hrel by lia. rewrite HsegP by lia. lia. }
  destruct (find_bracket (fun j => seg P (512 * block) (64 * j)) 8 target) as (j0 & Hj0 & Hbr).
  { split; [unfold seg; cbn; lia|]. change (64 * 8) with 512. subst target. lia. }
  destruct (descending_split j0) as (pre & post & Hsplit & Hpre); [lia|].
  rewrite Hsplit.
  assert (Hrank : rank1 P (512 * block + 64 * j0) = rank1 P (512 * block) + seg P (512 * block) (64 * j0))
    by apply rank1_seg.
  assert (Hwin : k - rank1 P (512 * block + 64 * j0) < seg P (512 * block + 64 * j0) 64).
  { rewrite Hrank. replace (64 * S j0) with (64 * j0 + 64) in Hbr by lia. rewrite seg_add in Hbr. subst target. lia. }
  destruct (select1_window P (512 * block + 64 * j0) k) as (Hsel & Hin); [lia|exact Hwin|].
  rewrite scan0_skip.
  - rewrite Hsel. f_equal. unfold LINE, WPL. rewrite Hzb by lia. change (bits s) with bs.
    rewrite (padded_word bs m) by lia. fold L. rewrite <- firstn_map, <- skipn_map. fold P.
    replace (64 * (block * 8 + j0)) with (512 * block + 64 * j0) by lia.
    replace (target - seg P (512 * block) (64 * j0)) with (k - rank1 P (512 * block + 64 * j0)) by (subst target; lia).
    lia.
  - intros j Hj. specialize (Hpre j Hj). rewrite Hzb by lia.
    assert (seg P (512 * block) (64 * S j0) <= seg P (512 * block) (64 * j)) by (apply seg_mono; lia). lia.
  - rewrite Hzb by lia. lia.
Qed.
