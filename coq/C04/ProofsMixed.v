(* C04: one dimension of RankSelectMixedIL256 (mixed_il_256.rs) equals the definition for every bit list, whatever
   the length of the other dimension is (it only adds all-zero lines at the end). *)
From Coq Require Import List Arith NArith Lia Bool ZifyBool ZifyNat ZifyN.
From ZV.Common Require Import Base.
From ZV.C04 Require Import Spec Model ModelGen ModelSE256 ModelMixed ProofsRank ProofsSelect ProofsSelect0 ProofsIL ProofsGen ProofsSE256.
Import ListNotations.
Ltac Zify.zify_post_hook ::= Z.div_mod_to_equations.
Close Scope N_scope.
Open Scope nat_scope.

Section ExtraM.
Variable extra : nat.

(* the masked block is the 64-bit window of the list *)
Lemma effective_word_is_word bs wi : effective_word bs ((nwords (length bs) + extra)) wi = word bs wi.
Proof.
  unfold effective_word.
  assert (Hw : (if wi <? (nwords (length bs) + extra) then word bs wi else []) = word bs wi).
  { destruct (Nat.ltb_spec wi ((nwords (length bs) + extra))); [reflexivity|]. rewrite word_past by lia. reflexivity. }
  rewrite Hw.
  destruct (Nat.ltb_spec (length bs) (wi * 64 + 64)) as [Hpart|Hfull]; cbn [andb].
  - destruct (Nat.ltb_spec (wi * 64) (length bs)) as [Hin|Hout].
    + unfold word. rewrite firstn_firstn. replace (64 * wi) with (wi * 64) by lia.
      rewrite (window_cut bs (wi * 64) (Nat.min (length bs - wi * 64) 64)) by lia. reflexivity.
    + replace (length bs <=? wi * 64) with true by (symmetry; apply Nat.leb_le; lia).
      unfold word. rewrite skipn_all2 by lia. rewrite firstn_nil. reflexivity.
  - replace (length bs <=? wi * 64) with false by (symmetry; apply Nat.leb_gt; lia). reflexivity.
Qed.

Lemma mx_line_cons bs line j t r :
  mx_line bs ((nwords (length bs) + extra)) line (j :: t) r =
  let '(l2, ws, tot) := mx_line bs ((nwords (length bs) + extra)) line t (r + seg bs (64 * (line * 4 + j)) 64) in
  ((r mod 256) :: l2, word bs (line * 4 + j) :: ws, tot).
Proof. cbn [mx_line]. rewrite effective_word_is_word, word_count. reflexivity. Qed.

Lemma mx_line_unfold bs line :
  let c := fun j => seg bs (256 * line) (64 * j) in
  mx_line bs ((nwords (length bs) + extra)) line (seq 0 4) 0 =
  ([c 0 mod 256; c 1 mod 256; c 2 mod 256; c 3 mod 256],
   [word bs (line * 4 + 0); word bs (line * 4 + 1); word bs (line * 4 + 2); word bs (line * 4 + 3)], c 4).
Proof.
  intros c.
  assert (Hc : forall j, c j + seg bs (64 * (line * 4 + j)) 64 = c (S j)).
  { intros j. unfold c. replace (64 * S j) with (64 * j + 64) by lia.
    rewrite seg_add. f_equal. f_equal. lia. }
  assert (Hc0 : c 0 = 0) by reflexivity.
  cbn [seq].
  replace (mx_line bs ((nwords (length bs) + extra)) line [0; 1; 2; 3] 0)
    with (mx_line bs ((nwords (length bs) + extra)) line [0; 1; 2; 3] (c 0)) by (rewrite Hc0; reflexivity).
  do 4 (rewrite mx_line_cons, Hc). cbn [mx_line]. reflexivity.
Qed.

Lemma mx_lines_spec bs : forall n i cum,
  cum = rank1 bs (256 * i) ->
  let '(lines, total) := mx_lines bs ((nwords (length bs) + extra)) n i cum in
  length lines = n /\ total = rank1 bs (256 * (i + n)) /\
  forall k, k < n ->
    let l := nth k lines mx_dflt in
    dl_rlev1 l = rank1 bs (256 * (i + k)) /\
    (forall j, j <= 3 -> nth j (dl_rlev2 l) 0 = seg bs (256 * (i + k)) (64 * j)) /\
    (forall j, j <= 3 -> nth j (dl_bit64 l) [] = word bs ((i + k) * 4 + j)).
Proof.
  induction n as [|n IH]; intros i cum Hcum; cbn [mx_lines].
  - split; [reflexivity|]. split; [rewrite Hcum; f_equal; lia|]. intros k Hk. lia.
  - pose proof (mx_line_unfold bs i) as Hl. cbv zeta in Hl. rewrite Hl.
    specialize (IH (S i) (cum + seg bs (256 * i) (64 * 4))).
    destruct (mx_lines bs ((nwords (length bs) + extra)) n (S i) (cum + seg bs (256 * i) (64 * 4))) as [rest total].
    destruct IH as (Hlen & Htot & Hks).
    { rewrite Hcum. replace (256 * S i) with (256 * i + 64 * 4) by lia. rewrite rank1_seg. reflexivity. }
    split; [cbn [length]; lia|]. split; [rewrite Htot; f_equal; lia|].
    intros k Hlt. destruct k as [|k].
    + cbn [nth dl_rlev1 dl_rlev2 dl_bit64]. replace (i + 0) with i by lia. split; [exact Hcum|]. split.
      * intros j Hj.
        pose proof (seg_le bs (256 * i) (64 * 0)); pose proof (seg_le bs (256 * i) (64 * 1));
        pose proof (seg_le bs (256 * i) (64 * 2)); pose proof (seg_le bs (256 * i) (64 * 3)).
        do 4 (destruct j as [|j]; [cbn [nth]; apply Nat.mod_small; lia|]). lia.
      * intros j Hj. do 4 (destruct j as [|j]; [reflexivity|]). lia.
    + cbn [nth]. assert (Hk' : k < n) by lia. specialize (Hks k Hk'). replace (i + S k) with (S i + k) by lia. exact Hks.
Qed.

Definition mx_nl (bs : list bool) (other : nat) : nat := (Nat.max (length bs) other + 256 - 1) / 256.

Lemma mx_build_spec bs other :
  let m := mx_build bs extra other in
  let nl := mx_nl bs other in
  mx_size m = length bs /\ mx_max_rank1 m = count1 bs /\ length (mx_ls m) = nl /\ length bs <= 256 * nl /\
  forall k, k < nl ->
    let l := nth k (mx_ls m) mx_dflt in
    dl_rlev1 l = rank1 bs (256 * k) /\
    (forall j, j <= 3 -> nth j (dl_rlev2 l) 0 = seg bs (256 * k) (64 * j)) /\
    (forall j, j <= 3 -> nth j (dl_bit64 l) [] = word bs (k * 4 + j)).
Proof.
  cbv zeta. unfold mx_build, mx_nl.
  pose proof (mx_lines_spec bs ((Nat.max (length bs) other + 256 - 1) / 256) 0 0 eq_refl) as Hb.
  destruct (mx_lines bs ((nwords (length bs) + extra)) ((Nat.max (length bs) other + 256 - 1) / 256) 0 0) as [lines cum].
  destruct Hb as (Hlen & Htot & Hk). cbn [Nat.add mx_size mx_max_rank1 mx_ls] in *.
  assert (Hnl : length bs <= 256 * ((Nat.max (length bs) other + 256 - 1) / 256)) by lia.
  split; [reflexivity|]. split; [rewrite Htot; apply rank1_all; lia|]. split; [exact Hlen|]. split; [exact Hnl|].
  exact Hk.
Qed.

Theorem mx_rank1_correct_proof bs other p :
  p <= length bs -> mx_rank1 (mx_build bs extra other) p = Some (rank1 bs p).
Proof.
  intros Hp. destruct (mx_build_spec bs other) as (Hsize & Hmr & Hlen & Hnl & Hk).
  unfold mx_rank1. rewrite Hsize, Hlen, Hmr.
  replace (length bs <? p) with false by (symmetry; apply Nat.ltb_ge; lia).
  destruct (Nat.eqb_spec p 0) as [->|Hp0]; [reflexivity|].
  destruct (Nat.leb_spec (mx_nl bs other) (p / 256)) as [Hout|Hin].
  - f_equal. symmetry. apply rank1_all. lia.
  - f_equal. destruct (Hk (p / 256) Hin) as (H1 & H2 & H3). rewrite H1.
    unfold mx_rank1_within. assert (Hw : p mod 256 / 64 <= 3) by lia. rewrite H2, H3 by exact Hw.
    destruct (Nat.ltb_spec 0 (p mod 256 mod 64)) as [Ht|Ht].
    + unfold word. rewrite firstn_firstn. replace (Nat.min (p mod 256 mod 64) 64) with (p mod 256 mod 64) by lia.
      fold (seg bs (64 * (p / 256 * 4 + p mod 256 / 64)) (p mod 256 mod 64)).
      replace (64 * (p / 256 * 4 + p mod 256 / 64)) with (256 * (p / 256) + 64 * (p mod 256 / 64)) by lia.
      rewrite Nat.add_assoc, <- rank1_seg, <- rank1_seg. f_equal. lia.
    + rewrite <- rank1_seg. f_equal. lia.
Qed.

Theorem mx_rank0_correct_proof bs other p :
  p <= length bs -> mx_rank0 (mx_build bs extra other) p = Some (rank0 bs p).
Proof.
  intros Hp. unfold mx_rank0. rewrite mx_rank1_correct_proof by exact Hp.
  pose proof (rank0_rank1 bs p Hp). f_equal. lia.
Qed.

Theorem mx_rank1_refuses_proof bs other p : length bs < p -> mx_rank1 (mx_build bs extra other) p = None.
Proof.
  intros Hp. destruct (mx_build_spec bs other) as (Hsize & _).
  unfold mx_rank1. rewrite Hsize. replace (length bs <? p) with true by (symmetry; apply Nat.ltb_lt; lia). reflexivity.
Qed.

Theorem mx_get_correct_proof bs other i :
  mx_get (mx_build bs extra other) i = if length bs <=? i then None else Some (nth i bs false).
Proof.
  destruct (mx_build_spec bs other) as (Hsize & _ & _ & Hnl & Hk).
  unfold mx_get. rewrite Hsize. destruct (Nat.leb_spec (length bs) i) as [|Hlt]; [reflexivity|].
  f_equal. assert (Hin : i / 256 < mx_nl bs other) by lia.
  destruct (Hk (i / 256) Hin) as (_ & _ & H3). rewrite H3 by lia.
  unfold word. rewrite nth_firstn by lia. rewrite nth_skipn. f_equal. lia.
Qed.

Theorem mx_count_ones_proof bs other :
  mx_max_rank1 (mx_build bs extra other) = count1 bs /\ mx_size (mx_build bs extra other) = length bs.
Proof. destruct (mx_build_spec bs other) as (Hsize & Hmr & _). split; assumption. Qed.

Lemma mx_scan1_skip block target dl pre j0 post :
  (forall j, In j pre -> target < nth j (dl_rlev2 dl) 0) ->
  nth j0 (dl_rlev2 dl) 0 <= target ->
  mx_scan1 block target dl (pre ++ j0 :: post) =
  Some (block * 256 + j0 * 64 + select_in_word (nth j0 (dl_bit64 dl) []) (target - nth j0 (dl_rlev2 dl) 0)).
Proof.
  induction pre as [|j pre IH]; intros Hpre Hhit; cbn [app mx_scan1].
  - replace (nth j0 (dl_rlev2 dl) 0 <=? target) with true by (symmetry; apply Nat.leb_le; exact Hhit). reflexivity.
  - assert (Hj : target < nth j (dl_rlev2 dl) 0) by (apply Hpre; left; reflexivity).
    replace (nth j (dl_rlev2 dl) 0 <=? target) with false by (symmetry; apply Nat.leb_gt; exact Hj).
    apply IH; [|exact Hhit]. intros j' Hj'. apply Hpre. right. exact Hj'.
Qed.

Theorem mx_select1_correct_proof bs other k : mx_select1 (mx_build bs extra other) k = select1 bs k.
Proof.
  destruct (mx_build_spec bs other) as (Hsize & Hmr & Hlen & Hnl & Hk).
  set (m := mx_build bs extra other) in *. set (nl := mx_nl bs other) in *.
  unfold mx_select1. rewrite Hmr, Hlen.
  destruct (Nat.leb_spec (count1 bs) k) as [Hge|Hlt].
  { destruct (select1 bs k) as [p|] eqn:E; [|reflexivity].
    assert (k < count1 bs) by (apply select1_some_iff; eauto). lia. }
  assert (Hpos : 0 < length bs) by (pose proof (count1_le bs); lia).
  assert (Hnl1 : 1 <= nl) by lia.
  set (right := fun mid => dl_rlev1 (nth mid (mx_ls m) mx_dflt) <=? k).
  assert (Hr : forall i, i < nl -> right i = (rank1 bs (256 * i) <=? k)).
  { intros i Hi. unfold right. destruct (Hk i Hi) as (H1 & _). rewrite H1. reflexivity. }
  destruct (bsearch_spec mid_avg right nl mid_avg_between) with (fuel := S nl) (lo := 0) (hi := nl)
    as (Hb1 & Hb2 & Hb3); [|lia|lia|intros; lia|intros; lia|].
  { intros i j Hij Hj. rewrite Hr in * by lia. apply Nat.leb_le in Hj. apply Nat.leb_le.
    assert (rank1 bs (256 * i) <= rank1 bs (256 * j)) by (apply rank1_mono; lia). lia. }
  set (lo := bsearch mid_avg right (S nl) 0 nl) in *.
  assert (Hl1 : 1 <= lo).
  { destruct (Nat.eq_dec lo 0) as [E|]; [|lia]. exfalso.
    assert (H0 : right 0 = false) by (apply Hb3; lia). rewrite Hr in H0 by lia.
    change (rank1 bs (256 * 0)) with 0 in H0. apply Nat.leb_gt in H0. lia. }
  replace (lo =? 0) with false by (symmetry; apply Nat.eqb_neq; lia).
  set (block := lo - 1) in *.
  assert (Hblock : block < nl) by lia.
  assert (Hlo : rank1 bs (256 * block) <= k).
  { assert (H : right block = true) by (apply Hb2; lia). rewrite Hr in H by lia. apply Nat.leb_le. exact H. }
  assert (Hhi : k < rank1 bs (256 * block + 256)).
  { destruct (Nat.eq_dec lo nl) as [E|Hne].
    - rewrite rank1_all by lia. lia.
    - assert (H : right lo = false) by (apply Hb3; lia). rewrite Hr in H by lia. apply Nat.leb_gt in H.
      replace (256 * block + 256) with (256 * lo) by lia. exact H. }
  destruct (Hk block Hblock) as (H1 & H2 & H3). rewrite H1.
  set (dl := nth block (mx_ls m) mx_dflt) in *.
  set (target := k - rank1 bs (256 * block)).
  rewrite rank1_seg in Hhi.
  destruct (find_bracket (fun j => seg bs (256 * block) (64 * j)) 4 target) as (j0 & Hj0 & Hbr).
  { split; [cbv beta; change (64 * 0) with 0; rewrite seg_0; lia|]. change (64 * 4) with 256. subst target. lia. }
  destruct (descending_split4 j0) as (pre & post & Hsplit & Hpre); [lia|].
  unfold WPL256 in Hsplit. rewrite Hsplit.
  assert (Hrank : rank1 bs (256 * block + 64 * j0) = rank1 bs (256 * block) + seg bs (256 * block) (64 * j0))
    by apply rank1_seg.
  assert (Hwin : k - rank1 bs (256 * block + 64 * j0) < seg bs (256 * block + 64 * j0) 64).
  { rewrite Hrank. replace (64 * S j0) with (64 * j0 + 64) in Hbr by lia. rewrite seg_add in Hbr. subst target. lia. }
  destruct (select1_window bs (256 * block + 64 * j0) k) as (Hsel & Hin); [lia|exact Hwin|].
  rewrite mx_scan1_skip.
  - rewrite Hsel. f_equal. rewrite H2, H3 by lia. unfold word.
    replace (64 * (block * 4 + j0)) with (256 * block + 64 * j0) by lia.
    replace (target - seg bs (256 * block) (64 * j0)) with (k - rank1 bs (256 * block + 64 * j0)) by (subst target; lia).
    lia.
  - intros j Hj. specialize (Hpre j Hj). rewrite H2 by lia.
    assert (seg bs (256 * block) (64 * S j0) <= seg bs (256 * block) (64 * j)) by (apply seg_mono; lia). lia.
  - rewrite H2 by lia. lia.
Qed.
End ExtraM.
