(* C04 mechanism model of RankSelectInterleaved256::select1 / select0 (src/succinct/rank_select/interleaved.rs)
   as written, on top of the line table of ModelIL.v:
   - with_options(bit_vector, enable_select_cache, select_sample_rate): build_select_cache walks the bits with
     get_bit_internal and records the position of every `rate`-th one (and of the last one);
   - select1_cache_optimized: with the cache, select1_from_hint -> select1_linear_search over get_bit_internal
     (from 0 up to the hint when the hint's rank is enough, from the hint to the end otherwise); without the cache,
     binary_search_lines (lower bound over rlev1, minus one, clamped) + select1_within_line (scan over the four
     words with a running count, uint_select1_bmi2 with a 1-based rank);
   - select0: upper bound over line zero counts (line*256 - rlev1, 0 for line 0), scan over the four inverted
     words (stored words are zero-padded u64s, so missing bits invert to ones), uint_select1_bmi2.
   select1_hardware_accelerated / select1_adaptive / select1_optimized are calls of select1_cache_optimized;
   select1_bulk / select1_bulk_optimized map it over the indices (`?` on the first error).
   Not modelled: u32 truncation of cache entries / rlev1 (>= 2^32 bits), select_sample_rate = 0 (the builder
   does not terminate and the lookup divides by zero).  Definitions only. *)
From Coq Require Import List Arith NArith Lia Bool.
From ZV.C04 Require Import Spec Model ModelIL ModelGen.
Import ListNotations.

(* a stored u64: the data bits followed by zero bits *)
Definition pad64 (w : list bool) : list bool := w ++ repeat false (64 - length w).

(* InterleavedLine::get_bit *)
Definition il_line_get_bit (l : il_line) (bit_offset : nat) : bool :=
  let word_idx := bit_offset / 64 in
  if word_idx <? 4 then nth (bit_offset mod 64) (nth word_idx (w64 l) []) false else false.

(* Positions and running counts of the bit-by-bit walks are binary numbers (N) so that the model can be evaluated
   on every position of a few thousand bits; nbits = total_bits. *)
(* get_bit_internal *)
Definition il_get_bit_internal (s : il256) (nbits pos : N) : bool :=
  if (nbits <=? pos)%N then false else
  let line_idx := N.to_nat (pos / 256)%N in
  if line_idx <? length (il_ls s) then il_line_get_bit (nth line_idx (il_ls s) il_dflt) (N.to_nat (pos mod 256)%N) else false.

(* inner loop of build_select_cache:
   while ones_seen < target && current_pos < total_bits {
     if get_bit(current_pos) { ones_seen += 1 }  if ones_seen < target { current_pos += 1 } } *)
Fixpoint il_cache_inner (s : il256) (nbits target : N) (fuel : nat) (ones_seen current_pos : N) : N * N :=
  match fuel with
  | O => (ones_seen, current_pos)
  | S f =>
      if (ones_seen <? target)%N && (current_pos <? nbits)%N then
        let ones_seen' := if il_get_bit_internal s nbits current_pos then N.succ ones_seen else ones_seen in
        let current_pos' := if (ones_seen' <? target)%N then N.succ current_pos else current_pos in
        il_cache_inner s nbits target f ones_seen' current_pos'
      else (ones_seen, current_pos)
  end.

(* outer loop: while ones_seen < total_ones { target = min(ones_seen + rate, total_ones); inner;
   if ones_seen == target { push(current_pos) }  current_pos += 1 } *)
Fixpoint il_cache_outer (s : il256) (nbits nones rate : N) (fuel : nat) (ones_seen current_pos : N) : list N :=
  match fuel with
  | O => []
  | S f =>
      if (ones_seen <? nones)%N then
        let target := N.min (ones_seen + rate) nones in
        let '(os, cp) := il_cache_inner s nbits target (S (il_bits s)) ones_seen current_pos in
        let rest := il_cache_outer s nbits nones rate f os (N.succ cp) in
        if (os =? target)%N then cp :: rest else rest
      else []
  end.

Record il256s := { ils : il256; il_nbits : N; il_cache : option (list N); il_rate : nat }.

Definition ils_build (bs : list bool) (enable : bool) (rate : nat) : il256s :=
  let s := il_build bs in
  let nbits := N.of_nat (il_bits s) in
  {| ils := s; il_nbits := nbits;
     il_cache := if enable then
                   Some (if 0 <? il_ones s
                         then il_cache_outer s nbits (N.of_nat (il_ones s)) (N.of_nat rate) (S (il_ones s)) 0%N 0%N
                         else [])
                 else None;
     il_rate := rate |}.

(* uint_select1_bmi2(word, rank): rank is 1-based; 64 when rank = 0 or there are fewer ones *)
Definition uint_select1 (w : list bool) (rank : nat) : nat :=
  if (rank =? 0) || (popcount w <? rank) then 64 else select_in_word w (rank - 1).

(* select1_linear_search(start, end, target_rank): `for pos in start..end` with `fuel` = end - start *)
Fixpoint il_linear (s : il256) (nbits target_rank : N) (fuel : nat) (pos current_rank : N) : option N :=
  match fuel with
  | O => None
  | S f =>
      if il_get_bit_internal s nbits pos then
        if (N.succ current_rank =? target_rank)%N then Some pos
        else il_linear s nbits target_rank f (N.succ pos) (N.succ current_rank)
      else il_linear s nbits target_rank f (N.succ pos) current_rank
  end.
Definition il_linear_search (s : il256) (nbits start stop target_rank : N) : option N :=
  il_linear s nbits target_rank (N.to_nat (stop - start)) start (N.of_nat (il_rank1 s (N.to_nat start))).

(* select1_from_hint *)
Definition il_select1_from_hint (s : il256) (nbits : N) (k : nat) (hint_pos : N) : option N :=
  let target_rank := (N.of_nat k + 1)%N in
  let hint_rank := N.of_nat (il_rank1 s (N.to_nat (hint_pos + 1))) in
  if (target_rank <=? hint_rank)%N then il_linear_search s nbits 0 (hint_pos + 1) target_rank
  else il_linear_search s nbits hint_pos nbits target_rank.

(* binary_search_lines *)
Definition il_binary_search_lines (s : il256) (target_rank : nat) : nat :=
  let n := length (il_ls s) in
  let left := bsearch mid_off (fun mid => rlev1 (nth mid (il_ls s) il_dflt) <? target_rank) (S n) 0 n in
  Nat.min (left - 1) (n - 1).

(* select1_within_line: the loop over the four words.  `remaining_ones - found_ones` is a usize subtraction; it
   cannot underflow before the target word is reached, and the truncated subtraction of nat (giving rank 0,
   hence 64 = not found) agrees with the wrapped value (a rank above 64, hence 64) past it. *)
Fixpoint il_within_line1 (line_start remaining_ones : nat) (ws : list (list bool)) (word_idx found_ones : nat) : option nat :=
  match ws with
  | [] => None
  | w :: t =>
      let word_popcount := popcount w in
      let hit :=
        if remaining_ones <=? found_ones + word_popcount then
          let bit_pos := uint_select1 w (remaining_ones - found_ones) in
          if bit_pos <? 64 then Some (line_start + word_idx * 64 + bit_pos) else None
        else None in
      match hit with
      | Some p => Some p
      | None => il_within_line1 line_start remaining_ones t (S word_idx) (found_ones + word_popcount)
      end
  end.
Definition il_select1_within_line (s : il256) (line_idx remaining_ones : nat) : option nat :=
  if length (il_ls s) <=? line_idx then None else
  il_within_line1 (line_idx * 256) remaining_ones (w64 (nth line_idx (il_ls s) il_dflt)) 0 0.

(* select1_cache_optimized = select1 = select1_hardware_accelerated = select1_adaptive = select1_optimized *)
Definition ils_select1 (x : il256s) (k : nat) : option nat :=
  let s := ils x in
  if il_ones s <=? k then None else
  let target_rank := k + 1 in
  let slow :=
    let line_idx := il_binary_search_lines s target_rank in
    let rank_before_line := rlev1 (nth line_idx (il_ls s) il_dflt) in
    il_select1_within_line s line_idx (target_rank - rank_before_line) in
  match il_cache x with
  | Some c =>
      let hint_idx := k / il_rate x in
      if hint_idx <? length c
      then option_map N.to_nat (il_select1_from_hint s (il_nbits x) k (nth hint_idx c 0%N))
      else slow
  | None => slow
  end.

(* select0: scan over the inverted (zero-padded) words *)
Fixpoint il_within_line0 (base_bitpos target : nat) (ws : list (list bool)) (word_idx rank_in_line : nat) : option nat :=
  match ws with
  | [] => None
  | w :: t =>
      let inv := map negb (pad64 w) in
      let zeros_in_word := popcount inv in
      let hit :=
        if target <? rank_in_line + zeros_in_word then
          let bit_pos := uint_select1 inv (target - rank_in_line + 1) in
          if bit_pos <? 64 then Some (base_bitpos + word_idx * 64 + bit_pos) else None
        else None in
      match hit with
      | Some p => Some p
      | None => il_within_line0 base_bitpos target t (S word_idx) (rank_in_line + zeros_in_word)
      end
  end.

Definition ils_select0 (x : il256s) (k : nat) : option nat :=
  let s := ils x in
  if il_bits s - il_ones s <=? k then None else
  let n := length (il_ls s) in
  let rank0_at := fun mid => mid * 256 - (if mid =? 0 then 0 else rlev1 (nth mid (il_ls s) il_dflt)) in
  let lo := bsearch mid_avg (fun mid => rank0_at mid <=? k) (S n) 0 n in
  let line_idx := lo - 1 in
  if n <=? line_idx then None else
  let l := nth line_idx (il_ls s) il_dflt in
  let base_bitpos := line_idx * 256 in
  let base_rank0 := base_bitpos - rlev1 l in
  il_within_line0 base_bitpos (k - base_rank0) (w64 l) 0 0.

(* select1_bulk: `results.push(self.select1_cache_optimized(k)?)` *)
Fixpoint ils_select1_bulk (x : il256s) (ks : list nat) : option (list nat) :=
  match ks with
  | [] => Some []
  | k :: t => match ils_select1 x k with
              | None => None
              | Some p => match ils_select1_bulk x t with None => None | Some r => Some (p :: r) end
              end
  end.
