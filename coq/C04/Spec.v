(* C04 spec layer: rank/select by definition on a bit list, and their laws. *)
From Coq Require Import List Arith Lia Bool.
Import ListNotations.

Fixpoint count1 (bs : list bool) : nat :=
  match bs with
  | [] => 0
  | b :: t => (if b then 1 else 0) + count1 t
  end.
Definition rank1 (bs : list bool) (p : nat) : nat := count1 (firstn p bs).
Definition rank0 (bs : list bool) (p : nat) : nat := count1 (map negb (firstn p bs)).

(* position of the k-th (0-based) true bit *)
Fixpoint select1 (bs : list bool) (k : nat) : option nat :=
  match bs with
  | [] => None
  | b :: t =>
      if b then match k with
                | O => Some 0
                | S k' => option_map S (select1 t k')
                end
      else option_map S (select1 t k)
  end.
Definition select0 (bs : list bool) (k : nat) : option nat := select1 (map negb bs) k.

Lemma count1_app a b : count1 (a ++ b) = count1 a + count1 b.
Proof. induction a as [|x a IH]; cbn [app count1]; lia. Qed.

Lemma count1_le bs : count1 bs <= length bs.
Proof. induction bs as [|b t IH]; cbn [count1 length]; [lia|destruct b; lia]. Qed.

Lemma count1_negb bs : count1 (map negb bs) = length bs - count1 bs.
Proof.
  induction bs as [|b t IH]; cbn [map count1 length]; [reflexivity|].
  pose proof (count1_le t). destruct b; cbn [negb]; lia.
Qed.

Lemma rank0_rank1 bs p : p <= length bs -> rank0 bs p + rank1 bs p = p.
Proof.
  intros H. unfold rank0, rank1. rewrite count1_negb, firstn_length_le by exact H.
  pose proof (count1_le (firstn p bs)). rewrite firstn_length_le in H0 by exact H. lia.
Qed.

Lemma firstn_add {A} (a b : nat) (l : list A) :
  firstn (a + b) l = firstn a l ++ firstn b (skipn a l).
Proof.
  revert l; induction a as [|a IH]; intros l; cbn [Nat.add firstn skipn app]; [reflexivity|].
  destruct l as [|x l]; cbn [firstn skipn app].
  - rewrite firstn_nil. reflexivity.
  - f_equal. apply IH.
Qed.

Lemma rank1_split bs a b : rank1 bs (a + b) = rank1 bs a + count1 (firstn b (skipn a bs)).
Proof. unfold rank1. rewrite firstn_add, count1_app. reflexivity. Qed.

Lemma rank1_all bs p : length bs <= p -> rank1 bs p = count1 bs.
Proof. intros H. unfold rank1. rewrite firstn_all2 by exact H. reflexivity. Qed.

(* select is defined exactly below the number of ones *)
Lemma select1_some_iff bs k : (exists p, select1 bs k = Some p) <-> k < count1 bs.
Proof.
  revert k; induction bs as [|b t IH]; intros k; cbn [select1 count1].
  - split; [intros [p H]; discriminate|lia].
  - destruct b.
    + destruct k as [|k'].
      * split; [lia|eexists; reflexivity].
      * specialize (IH k'). split.
        -- intros [p H]. destruct (select1 t k') eqn:E; [|discriminate]. assert (k' < count1 t) by (apply IH; eauto). lia.
        -- intros H. assert (Hk : k' < count1 t) by lia. apply IH in Hk. destruct Hk as [p Hp]. rewrite Hp. eexists; reflexivity.
    + specialize (IH k). split.
      * intros [p H]. destruct (select1 t k) eqn:E; [|discriminate]. assert (k < count1 t) by (apply IH; eauto). lia.
      * intros H. assert (Hk : k < count1 t) by lia. apply IH in Hk. destruct Hk as [p Hp]. rewrite Hp. eexists; reflexivity.
Qed.

(* the selected position holds a one and has exactly k ones before it *)
Lemma select1_spec bs k p : select1 bs k = Some p ->
  p < length bs /\ nth p bs false = true /\ rank1 bs p = k.
Proof.
  revert k p; induction bs as [|b t IH]; intros k p; cbn [select1]; [discriminate|].
  destruct b.
  - destruct k as [|k'].
    + intros H; inversion H; subst. cbn. repeat split; lia.
    + destruct (select1 t k') as [q|] eqn:E; cbn [option_map]; [|discriminate].
      intros H; inversion H; subst. destruct (IH _ _ E) as (A & B & C).
      cbn [length nth]. unfold rank1 in *. cbn [firstn count1]. repeat split; try lia; auto.
  - destruct (select1 t k) as [q|] eqn:E; cbn [option_map]; [|discriminate].
    intros H; inversion H; subst. destruct (IH _ _ E) as (A & B & C).
    cbn [length nth]. unfold rank1 in *. cbn [firstn count1]. repeat split; try lia; auto.
Qed.

(* ... and it is the only such position *)
Lemma select1_unique bs k p :
  p < length bs -> nth p bs false = true -> rank1 bs p = k -> select1 bs k = Some p.
Proof.
  revert k p; induction bs as [|b t IH]; intros k p Hp Hn Hr; cbn [length] in Hp; [lia|].
  unfold rank1 in *. destruct p as [|p].
  - cbn in Hn, Hr. subst. reflexivity.
  - cbn [nth] in Hn. cbn [firstn count1] in Hr. cbn [select1]. destruct b.
    + destruct k as [|k']; [lia|]. rewrite (IH k' p); [reflexivity|lia|exact Hn|lia].
    + rewrite (IH k p); [reflexivity|lia|exact Hn|lia].
Qed.

Theorem rank_select_inverse bs k p : select1 bs k = Some p -> rank1 bs p = k.
Proof. intros H. apply select1_spec in H. tauto. Qed.
