(* C04 property theorems.  Nothing but statements closed by `exact`, statement pins and
   Print Assumptions.  bs ranges over ALL bit lists, p/k/i over all naturals. *)
From Coq Require Import List Arith NArith Lia Bool.
From ZV.C04 Require Import Spec Model ModelIL ProofsRank ProofsFew ProofsSelect ProofsSelect0 ProofsIL.
From ZV.C04 Require Import ModelGen ModelILSel ModelRun ProofsGen ProofsILSel.
Import ListNotations.

(* --- spec layer: the definition itself has the laws the property names --- *)
Theorem spec_rank_select_inverse : forall bs k p, select1 bs k = Some p -> rank1 bs p = k.
Proof. exact rank_select_inverse. Qed.
Check spec_rank_select_inverse : forall bs k p, select1 bs k = Some p -> rank1 bs p = k.
Print Assumptions spec_rank_select_inverse.

Theorem spec_select_defined_iff : forall bs k, (exists p, select1 bs k = Some p) <-> k < count1 bs.
Proof. exact select1_some_iff. Qed.
Check spec_select_defined_iff : forall bs k, (exists p, select1 bs k = Some p) <-> k < count1 bs.
Print Assumptions spec_select_defined_iff.

Theorem spec_select_is_kth_one : forall bs k p, select1 bs k = Some p ->
  p < length bs /\ nth p bs false = true /\ rank1 bs p = k.
Proof. exact select1_spec. Qed.
Check spec_select_is_kth_one : forall bs k p, select1 bs k = Some p ->
  p < length bs /\ nth p bs false = true /\ rank1 bs p = k.
Print Assumptions spec_select_is_kth_one.

Theorem spec_rank0_rank1 : forall bs p, p <= length bs -> rank0 bs p + rank1 bs p = p.
Proof. exact rank0_rank1. Qed.
Check spec_rank0_rank1 : forall bs p, p <= length bs -> rank0 bs p + rank1 bs p = p.
Print Assumptions spec_rank0_rank1.

(* --- RankSelectSE512 as written (u32 base + seven packed 9-bit sub-block ranks + sentinel line) --- *)
Theorem se512_rank1_correct : forall bs sp0 sp1 p,
  p <= length bs -> se_rank1 (build bs sp0 sp1) p = Some (rank1 bs p).
Proof. exact se_rank1_correct_proof. Qed.
Check se512_rank1_correct : forall bs sp0 sp1 p,
  p <= length bs -> se_rank1 (build bs sp0 sp1) p = Some (rank1 bs p).
Print Assumptions se512_rank1_correct.

Theorem se512_rank0_correct : forall bs sp0 sp1 p,
  p <= length bs -> se_rank0 (build bs sp0 sp1) p = Some (rank0 bs p).
Proof. exact se_rank0_correct_proof. Qed.
Check se512_rank0_correct : forall bs sp0 sp1 p,
  p <= length bs -> se_rank0 (build bs sp0 sp1) p = Some (rank0 bs p).
Print Assumptions se512_rank0_correct.

Theorem se512_rank1_refuses_past_end : forall bs sp0 sp1 p,
  length bs < p -> se_rank1 (build bs sp0 sp1) p = None.
Proof. exact se_rank1_refuses_proof. Qed.
Check se512_rank1_refuses_past_end : forall bs sp0 sp1 p,
  length bs < p -> se_rank1 (build bs sp0 sp1) p = None.
Print Assumptions se512_rank1_refuses_past_end.

Theorem se512_get_correct : forall bs sp0 sp1 i,
  se_get (build bs sp0 sp1) i = if length bs <=? i then None else Some (nth i bs false).
Proof. exact se_get_correct_proof. Qed.
Check se512_get_correct : forall bs sp0 sp1 i,
  se_get (build bs sp0 sp1) i = if length bs <=? i then None else Some (nth i bs false).
Print Assumptions se512_get_correct.

Theorem se512_count_ones : forall bs sp0 sp1,
  max_rank1 (build bs sp0 sp1) = count1 bs /\ size (build bs sp0 sp1) = length bs.
Proof. exact se_count_ones_proof. Qed.
Check se512_count_ones : forall bs sp0 sp1,
  max_rank1 (build bs sp0 sp1) = count1 bs /\ size (build bs sp0 sp1) = length bs.
Print Assumptions se512_count_ones.


(* select1 of SE512 as written: optional select cache, binary search over the line directory,
   descending scan over the packed sub-block ranks, in-word select; for every bit list, every k,
   both cache settings: the position of the k-th one, refused exactly when k >= number of ones *)
Theorem se512_select1_correct : forall bs sp0 sp1 k,
  se_select1 (build bs sp0 sp1) k = select1 bs k.
Proof. exact se_select1_correct_proof. Qed.
Check se512_select1_correct : forall bs sp0 sp1 k,
  se_select1 (build bs sp0 sp1) k = select1 bs k.
Print Assumptions se512_select1_correct.

(* select0 of SE512 as written (zero counts = line*512 - ones, zero-padded inverted words) *)
Theorem se512_select0_correct : forall bs sp0 sp1 k,
  se_select0 (build bs sp0 sp1) k = select0 bs k.
Proof. exact se_select0_correct_proof. Qed.
Check se512_select0_correct : forall bs sp0 sp1 k,
  se_select0 (build bs sp0 sp1) k = select0 bs k.
Print Assumptions se512_select0_correct.

(* --- RankSelectInterleaved256 as written (256-bit lines: u32 rlev1, four u8 rlev2, four data words;
       positions past the end are clamped to the length) --- *)
Theorem il256_rank1_correct : forall bs p, il_rank1 (il_build bs) p = rank1 bs (Nat.min p (length bs)).
Proof. exact il_rank1_correct_proof. Qed.
Check il256_rank1_correct : forall bs p, il_rank1 (il_build bs) p = rank1 bs (Nat.min p (length bs)).
Print Assumptions il256_rank1_correct.

Theorem il256_rank0_correct : forall bs p, il_rank0 (il_build bs) p = rank0 bs (Nat.min p (length bs)).
Proof. exact il_rank0_correct_proof. Qed.
Check il256_rank0_correct : forall bs p, il_rank0 (il_build bs) p = rank0 bs (Nat.min p (length bs)).
Print Assumptions il256_rank0_correct.

Theorem il256_get_correct : forall bs i,
  il_get (il_build bs) i = if length bs <=? i then None else Some (nth i bs false).
Proof. exact il_get_correct_proof. Qed.
Check il256_get_correct : forall bs i,
  il_get (il_build bs) i = if length bs <=? i then None else Some (nth i bs false).
Print Assumptions il256_get_correct.

Theorem il256_count_ones : forall bs, il_ones (il_build bs) = count1 bs /\ il_bits (il_build bs) = length bs.
Proof. exact il_count_ones_proof. Qed.
Check il256_count_ones : forall bs, il_ones (il_build bs) = count1 bs /\ il_bits (il_build bs) = length bs.
Print Assumptions il256_count_ones.

(* --- RankSelectFewOne as written (sorted positions + partition point) --- *)
Theorem few_rank1_correct : forall bs p,
  few_rank1 (few_build bs) p = if length bs <? p then None else Some (rank1 bs p).
Proof. exact few_rank1_correct_proof. Qed.
Check few_rank1_correct : forall bs p,
  few_rank1 (few_build bs) p = if length bs <? p then None else Some (rank1 bs p).
Print Assumptions few_rank1_correct.

Theorem few_select1_correct : forall bs k, few_select1 (few_build bs) k = select1 bs k.
Proof. exact few_select1_correct_proof. Qed.
Check few_select1_correct : forall bs k, few_select1 (few_build bs) k = select1 bs k.
Print Assumptions few_select1_correct.

Theorem few_get_correct : forall bs i,
  few_get (few_build bs) i = if length bs <=? i then None else Some (nth i bs false).
Proof. exact few_get_correct_proof. Qed.
Check few_get_correct : forall bs i,
  few_get (few_build bs) i = if length bs <=? i then None else Some (nth i bs false).
Print Assumptions few_get_correct.

(* non-vacuity: a 600-bit vector crossing a line boundary meets the hypotheses *)
Example se512_nonvacuous :
  let bs := repeat true 300 ++ repeat false 213 ++ repeat true 87 in
  se_rank1 (build bs true true) 600 = Some 387 /\ se_rank1 (build bs true true) 513 = Some 300 /\
  se_select1 (build bs true true) 300 = Some 513 /\ se_select1 (build bs true true) 387 = None.
Proof. vm_compute. repeat split; reflexivity. Qed.

(* --- RankSelectInterleaved256 select1 / select0 as written (interleaved.rs): the sampled select cache built by
       walking the bits, select1_from_hint + select1_linear_search, and - with the cache disabled - binary_search_lines
       + select1_within_line + uint_select1_bmi2; select0 by upper bound over line zero counts and the inverted,
       zero-padded words.  For every bit list, every k, every sample rate, cache on or off: the position of the
       k-th one / zero, refused exactly when k is not below the number of ones / zeros
       (spec_select_defined_iff).  select1_hardware_accelerated / _adaptive / _optimized are this function. --- *)
Theorem il256_select1_correct : forall bs enable rate k,
  ils_select1 (ils_build bs enable rate) k = select1 bs k.
Proof. exact ils_select1_correct_proof. Qed.
Check il256_select1_correct : forall bs enable rate k,
  ils_select1 (ils_build bs enable rate) k = select1 bs k.
Print Assumptions il256_select1_correct.

(* the answer does not depend on what the select cache holds: any list of hints gives the k-th one *)
Theorem il256_select1_any_hints : forall bs c rate k,
  ils_select1 {| ils := il_build bs; il_nbits := N.of_nat (length bs); il_cache := c; il_rate := rate |} k = select1 bs k.
Proof. exact ils_select1_any_cache. Qed.
Check il256_select1_any_hints : forall bs c rate k,
  ils_select1 {| ils := il_build bs; il_nbits := N.of_nat (length bs); il_cache := c; il_rate := rate |} k = select1 bs k.
Print Assumptions il256_select1_any_hints.

Theorem il256_select0_correct : forall bs enable rate k,
  ils_select0 (ils_build bs enable rate) k = select0 bs k.
Proof. exact ils_select0_correct_proof. Qed.
Check il256_select0_correct : forall bs enable rate k,
  ils_select0 (ils_build bs enable rate) k = select0 bs k.
Print Assumptions il256_select0_correct.

Example il256_select_nonvacuous :
  let bs := repeat true 300 ++ repeat false 213 ++ repeat true 87 in
  ils_select1 (ils_build bs true 64) 300 = Some 513 /\ ils_select1 (ils_build bs false 64) 300 = Some 513 /\
  ils_select1 (ils_build bs false 64) 255 = Some 255 /\ ils_select1 (ils_build bs true 64) 387 = None /\
  ils_select0 (ils_build bs true 64) 212 = Some 512 /\ ils_select0 (ils_build bs true 64) 213 = None /\
  il_cache (ils_build bs true 64) = Some [63; 127; 191; 255; 532; 596; 599]%N.
Proof. vm_compute. repeat split; reflexivity. Qed.
