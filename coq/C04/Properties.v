(* C04 property theorems.  Nothing but statements closed by `exact`, statement pins and
   Print Assumptions.  bs ranges over ALL bit lists, p/k/i over all naturals. *)
From Coq Require Import List Arith NArith ZArith Lia Bool.
From ZV.C04 Require Import Spec Model ModelIL ProofsRank ProofsFew ProofsSelect ProofsSelect0 ProofsIL.
From ZV.C04 Require Import ModelGen ModelILSel ModelSE256 ModelSimple ModelFew2 ModelBV ModelTrivial ModelMixed ModelRun.
From ZV.C04 Require Import ProofsGen ProofsILSel ProofsSE256 ProofsSE256Sel0 ProofsSimple ProofsFew2 ProofsBV ProofsTrivial ProofsMixed.
Import ListNotations.

(* --- spec layer: the definition itself has the laws the property names --- *)
Theorem spec_rank_select_inverse : forall bs k p, select1 bs k = Some p -> rank1 bs p = k.
Proof. exact rank_select_inverse. Qed.
Check spec_rank_select_inverse : forall bs k p, select1 bs k = Some p -> rank1 bs p = k.
Print Assumptions spec_rank_select_inverse.

Theorem spec_select_defined_iff : forall bs k, (exists p, select1 bs k = Some p) <-> k < count1 bs.
Proof. exact select1_some_iff. Qed.
Check spec_select_defined_iff : forall bs k, (exists p, select1 bs k = Some p) <-> k < count1 bs.
Print Assumptions spec_select_defined_iff.

Theorem spec_select_is_kth_one : forall bs k p, select1 bs k = Some p ->
  p < length bs /\ nth p bs false = true /\ rank1 bs p = k.
Proof. exact select1_spec. Qed.
Check spec_select_is_kth_one : forall bs k p, select1 bs k = Some p ->
  p < length bs /\ nth p bs false = true /\ rank1 bs p = k.
Print Assumptions spec_select_is_kth_one.

Theorem spec_rank0_rank1 : forall bs p, p <= length bs -> rank0 bs p + rank1 bs p = p.
Proof. exact rank0_rank1. Qed.
Check spec_rank0_rank1 : forall bs p, p <= length bs -> rank0 bs p + rank1 bs p = p.
Print Assumptions spec_rank0_rank1.

(* --- RankSelectSE512 as written (u32 base + seven packed 9-bit sub-block ranks + sentinel line) --- *)
Theorem se512_rank1_correct : forall bs sp0 sp1 p,
  p <= length bs -> se_rank1 (build bs sp0 sp1) p = Some (rank1 bs p).
Proof. exact se_rank1_correct_proof. Qed.
Check se512_rank1_correct : forall bs sp0 sp1 p,
  p <= length bs -> se_rank1 (build bs sp0 sp1) p = Some (rank1 bs p).
Print Assumptions se512_rank1_correct.

Theorem se512_rank0_correct : forall bs sp0 sp1 p,
  p <= length bs -> se_rank0 (build bs sp0 sp1) p = Some (rank0 bs p).
Proof. exact se_rank0_correct_proof. Qed.
Check se512_rank0_correct : forall bs sp0 sp1 p,
  p <= length bs -> se_rank0 (build bs sp0 sp1) p = Some (rank0 bs p).
Print Assumptions se512_rank0_correct.

Theorem se512_rank1_refuses_past_end : forall bs sp0 sp1 p,
  length bs < p -> se_rank1 (build bs sp0 sp1) p = None.
Proof. exact se_rank1_refuses_proof. Qed.
Check se512_rank1_refuses_past_end : forall bs sp0 sp1 p,
  length bs < p -> se_rank1 (build bs sp0 sp1) p = None.
Print Assumptions se512_rank1_refuses_past_end.

Theorem se512_get_correct : forall bs sp0 sp1 i,
  se_get (build bs sp0 sp1) i = if length bs <=? i then None else Some (nth i bs false).
Proof. exact se_get_correct_proof. Qed.
Check se512_get_correct : forall bs sp0 sp1 i,
  se_get (build bs sp0 sp1) i = if length bs <=? i then None else Some (nth i bs false).
Print Assumptions se512_get_correct.

Theorem se512_count_ones : forall bs sp0 sp1,
  max_rank1 (build bs sp0 sp1) = count1 bs /\ size (build bs sp0 sp1) = length bs.
Proof. exact se_count_ones_proof. Qed.
Check se512_count_ones : forall bs sp0 sp1,
  max_rank1 (build bs sp0 sp1) = count1 bs /\ size (build bs sp0 sp1) = length bs.
Print Assumptions se512_count_ones.


(* select1 of SE512 as written: optional select cache, binary search over the line directory,
   descending scan over the packed sub-block ranks, in-word select; for every bit list, every k,
   both cache settings: the position of the k-th one, refused exactly when k >= number of ones *)
Theorem se512_select1_correct : forall bs sp0 sp1 k,
  se_select1 (build bs sp0 sp1) k = select1 bs k.
Proof. exact se_select1_correct_proof. Qed.
Check se512_select1_correct : forall bs sp0 sp1 k,
  se_select1 (build bs sp0 sp1) k = select1 bs k.
Print Assumptions se512_select1_correct.

(* select0 of SE512 as written (zero counts = line*512 - ones, zero-padded inverted words) *)
Theorem se512_select0_correct : forall bs sp0 sp1 k,
  se_select0 (build bs sp0 sp1) k = select0 bs k.
Proof. exact se_select0_correct_proof. Qed.
Check se512_select0_correct : forall bs sp0 sp1 k,
  se_select0 (build bs sp0 sp1) k = select0 bs k.
Print Assumptions se512_select0_correct.

(* --- RankSelectInterleaved256 as written (256-bit lines: u32 rlev1, four u8 rlev2, four data words;
       positions past the end are clamped to the length) --- *)
Theorem il256_rank1_correct : forall bs p, il_rank1 (il_build bs) p = rank1 bs (Nat.min p (length bs)).
Proof. exact il_rank1_correct_proof. Qed.
Check il256_rank1_correct : forall bs p, il_rank1 (il_build bs) p = rank1 bs (Nat.min p (length bs)).
Print Assumptions il256_rank1_correct.

Theorem il256_rank0_correct : forall bs p, il_rank0 (il_build bs) p = rank0 bs (Nat.min p (length bs)).
Proof. exact il_rank0_correct_proof. Qed.
Check il256_rank0_correct : forall bs p, il_rank0 (il_build bs) p = rank0 bs (Nat.min p (length bs)).
Print Assumptions il256_rank0_correct.

Theorem il256_get_correct : forall bs i,
  il_get (il_build bs) i = if length bs <=? i then None else Some (nth i bs false).
Proof. exact il_get_correct_proof. Qed.
Check il256_get_correct : forall bs i,
  il_get (il_build bs) i = if length bs <=? i then None else Some (nth i bs false).
Print Assumptions il256_get_correct.

Theorem il256_count_ones : forall bs, il_ones (il_build bs) = count1 bs /\ il_bits (il_build bs) = length bs.
Proof. exact il_count_ones_proof. Qed.
Check il256_count_ones : forall bs, il_ones (il_build bs) = count1 bs /\ il_bits (il_build bs) = length bs.
Print Assumptions il256_count_ones.

(* --- RankSelectFewOne as written (sorted positions + partition point) --- *)
Theorem few_rank1_correct : forall bs p,
  few_rank1 (few_build bs) p = if length bs <? p then None else Some (rank1 bs p).
Proof. exact few_rank1_correct_proof. Qed.
Check few_rank1_correct : forall bs p,
  few_rank1 (few_build bs) p = if length bs <? p then None else Some (rank1 bs p).
Print Assumptions few_rank1_correct.

Theorem few_select1_correct : forall bs k, few_select1 (few_build bs) k = select1 bs k.
Proof. exact few_select1_correct_proof. Qed.
Check few_select1_correct : forall bs k, few_select1 (few_build bs) k = select1 bs k.
Print Assumptions few_select1_correct.

Theorem few_get_correct : forall bs i,
  few_get (few_build bs) i = if length bs <=? i then None else Some (nth i bs false).
Proof. exact few_get_correct_proof. Qed.
Check few_get_correct : forall bs i,
  few_get (few_build bs) i = if length bs <=? i then None else Some (nth i bs false).
Print Assumptions few_get_correct.

(* non-vacuity: a 600-bit vector crossing a line boundary meets the hypotheses *)
Example se512_nonvacuous :
  let bs := repeat true 300 ++ repeat false 213 ++ repeat true 87 in
  se_rank1 (build bs true true) 600 = Some 387 /\ se_rank1 (build bs true true) 513 = Some 300 /\
  se_select1 (build bs true true) 300 = Some 513 /\ se_select1 (build bs true true) 387 = None.
Proof. vm_compute. repeat split; reflexivity. Qed.

(* --- RankSelectInterleaved256 select1 / select0 as written (interleaved.rs): the sampled select cache built by
       walking the bits, select1_from_hint + select1_linear_search, and - with the cache disabled - binary_search_lines
       + select1_within_line + uint_select1_bmi2; select0 by upper bound over line zero counts and the inverted,
       zero-padded words.  For every bit list, every k, every sample rate, cache on or off: the position of the
       k-th one / zero, refused exactly when k is not below the number of ones / zeros
       (spec_select_defined_iff).  select1_hardware_accelerated / _adaptive / _optimized are this function. --- *)
Theorem il256_select1_correct : forall bs enable rate k,
  ils_select1 (ils_build bs enable rate) k = select1 bs k.
Proof. exact ils_select1_correct_proof. Qed.
Check il256_select1_correct : forall bs enable rate k,
  ils_select1 (ils_build bs enable rate) k = select1 bs k.
Print Assumptions il256_select1_correct.

(* the answer does not depend on what the select cache holds: any list of hints gives the k-th one *)
Theorem il256_select1_any_hints : forall bs c rate k,
  ils_select1 {| ils := il_build bs; il_nbits := N.of_nat (length bs); il_cache := c; il_rate := rate |} k = select1 bs k.
Proof. exact ils_select1_any_cache. Qed.
Check il256_select1_any_hints : forall bs c rate k,
  ils_select1 {| ils := il_build bs; il_nbits := N.of_nat (length bs); il_cache := c; il_rate := rate |} k = select1 bs k.
Print Assumptions il256_select1_any_hints.

Theorem il256_select0_correct : forall bs enable rate k,
  ils_select0 (ils_build bs enable rate) k = select0 bs k.
Proof. exact ils_select0_correct_proof. Qed.
Check il256_select0_correct : forall bs enable rate k,
  ils_select0 (ils_build bs enable rate) k = select0 bs k.
Print Assumptions il256_select0_correct.

Example il256_select_nonvacuous :
  let bs := repeat true 300 ++ repeat false 213 ++ repeat true 87 in
  ils_select1 (ils_build bs true 64) 300 = Some 513 /\ ils_select1 (ils_build bs false 64) 300 = Some 513 /\
  ils_select1 (ils_build bs false 64) 255 = Some 255 /\ ils_select1 (ils_build bs true 64) 387 = None /\
  ils_select0 (ils_build bs true 64) 212 = Some 512 /\ ils_select0 (ils_build bs true 64) 213 = None /\
  il_cache (ils_build bs true 64) = Some [63; 127; 191; 255; 532; 596; 599]%N.
Proof. vm_compute. repeat split; reflexivity. Qed.

(* --- RankSelectSE256 as written (separated.rs: u32 lev1 + four u8 lev2 per 256-bit block, sentinel, optional
       select caches, upper-bound binary search, descending scan over lev2, in-word select), every bit list, both
       select-cache settings --- *)
Theorem se256_rank1_correct : forall extra bs sp0 sp1 p,
  p <= length bs -> se256_rank1 (se256_build bs extra sp0 sp1) p = Some (rank1 bs p).
Proof. exact se256_rank1_correct_proof. Qed.
Check se256_rank1_correct : forall extra bs sp0 sp1 p,
  p <= length bs -> se256_rank1 (se256_build bs extra sp0 sp1) p = Some (rank1 bs p).
Print Assumptions se256_rank1_correct.

Theorem se256_rank0_correct : forall extra bs sp0 sp1 p,
  p <= length bs -> se256_rank0 (se256_build bs extra sp0 sp1) p = Some (rank0 bs p).
Proof. exact se256_rank0_correct_proof. Qed.
Check se256_rank0_correct : forall extra bs sp0 sp1 p,
  p <= length bs -> se256_rank0 (se256_build bs extra sp0 sp1) p = Some (rank0 bs p).
Print Assumptions se256_rank0_correct.

Theorem se256_rank1_refuses_past_end : forall extra bs sp0 sp1 p,
  length bs < p -> se256_rank1 (se256_build bs extra sp0 sp1) p = None.
Proof. exact se256_rank1_refuses_proof. Qed.
Check se256_rank1_refuses_past_end : forall extra bs sp0 sp1 p,
  length bs < p -> se256_rank1 (se256_build bs extra sp0 sp1) p = None.
Print Assumptions se256_rank1_refuses_past_end.

Theorem se256_get_correct : forall extra bs sp0 sp1 i,
  se256_get (se256_build bs extra sp0 sp1) i = if length bs <=? i then None else Some (nth i bs false).
Proof. exact se256_get_correct_proof. Qed.
Check se256_get_correct : forall extra bs sp0 sp1 i,
  se256_get (se256_build bs extra sp0 sp1) i = if length bs <=? i then None else Some (nth i bs false).
Print Assumptions se256_get_correct.

Theorem se256_count_ones : forall extra bs sp0 sp1,
  mr1_256 (se256_build bs extra sp0 sp1) = count1 bs /\ size256 (se256_build bs extra sp0 sp1) = length bs.
Proof. exact se256_count_ones_proof. Qed.
Check se256_count_ones : forall extra bs sp0 sp1,
  mr1_256 (se256_build bs extra sp0 sp1) = count1 bs /\ size256 (se256_build bs extra sp0 sp1) = length bs.
Print Assumptions se256_count_ones.

Theorem se256_select1_correct : forall extra bs sp0 sp1 k,
  se256_select1 (se256_build bs extra sp0 sp1) k = select1 bs k.
Proof. exact se256_select1_correct_proof. Qed.
Check se256_select1_correct : forall extra bs sp0 sp1 k,
  se256_select1 (se256_build bs extra sp0 sp1) k = select1 bs k.
Print Assumptions se256_select1_correct.

Theorem se256_select0_correct : forall extra bs sp0 sp1 k,
  se256_select0 (se256_build bs extra sp0 sp1) k = select0 bs k.
Proof. exact se256_select0_correct_proof. Qed.
Check se256_select0_correct : forall extra bs sp0 sp1 k,
  se256_select0 (se256_build bs extra sp0 sp1) k = select0 bs k.
Print Assumptions se256_select0_correct.

Example se256_nonvacuous :
  let bs := repeat true 300 ++ repeat false 212 ++ repeat true 88 in
  se256_rank1 (se256_build bs 0 true true) 600 = Some 388 /\ se256_rank1 (se256_build bs 0 true true) 512 = Some 300 /\
  se256_rank1 (se256_build bs 0 true true) 601 = None /\
  se256_select1 (se256_build bs 0 true true) 300 = Some 512 /\ se256_select1 (se256_build bs 2 false false) 388 = None /\
  se256_select0 (se256_build bs 1 true false) 211 = Some 511 /\ se256_select0 (se256_build bs 0 true true) 212 = None.
Proof. vm_compute. repeat split; reflexivity. Qed.

(* --- RankSelectSimple as written (simple.rs: one u32 per 256-bit block, popcounts of the block's words, binary
       search + ascending scan with a running remainder, clamped zero count of the last word) --- *)
Theorem simple_rank1_correct : forall extra bs p,
  p <= length bs -> simple_rank1 (simple_build bs extra) p = Some (rank1 bs p).
Proof. exact simple_rank1_correct_proof. Qed.
Check simple_rank1_correct : forall extra bs p,
  p <= length bs -> simple_rank1 (simple_build bs extra) p = Some (rank1 bs p).
Print Assumptions simple_rank1_correct.

Theorem simple_rank0_correct : forall extra bs p,
  p <= length bs -> simple_rank0 (simple_build bs extra) p = Some (rank0 bs p).
Proof. exact simple_rank0_correct_proof. Qed.
Check simple_rank0_correct : forall extra bs p,
  p <= length bs -> simple_rank0 (simple_build bs extra) p = Some (rank0 bs p).
Print Assumptions simple_rank0_correct.

Theorem simple_rank1_refuses_past_end : forall extra bs p, length bs < p -> simple_rank1 (simple_build bs extra) p = None.
Proof. exact simple_rank1_refuses_proof. Qed.
Check simple_rank1_refuses_past_end : forall extra bs p, length bs < p -> simple_rank1 (simple_build bs extra) p = None.
Print Assumptions simple_rank1_refuses_past_end.

Theorem simple_get_correct : forall extra bs i,
  simple_get (simple_build bs extra) i = if length bs <=? i then None else Some (nth i bs false).
Proof. exact simple_get_correct_proof. Qed.
Check simple_get_correct : forall extra bs i,
  simple_get (simple_build bs extra) i = if length bs <=? i then None else Some (nth i bs false).
Print Assumptions simple_get_correct.

Theorem simple_count_ones : forall extra bs,
  sm_mr1 (simple_build bs extra) = count1 bs /\ sm_size (simple_build bs extra) = length bs.
Proof. exact simple_count_ones_proof. Qed.
Check simple_count_ones : forall extra bs,
  sm_mr1 (simple_build bs extra) = count1 bs /\ sm_size (simple_build bs extra) = length bs.
Print Assumptions simple_count_ones.

Theorem simple_select1_correct : forall extra bs k, simple_select1 (simple_build bs extra) k = select1 bs k.
Proof. exact simple_select1_correct_proof. Qed.
Check simple_select1_correct : forall extra bs k, simple_select1 (simple_build bs extra) k = select1 bs k.
Print Assumptions simple_select1_correct.

Theorem simple_select0_correct : forall extra bs k, simple_select0 (simple_build bs extra) k = select0 bs k.
Proof. exact simple_select0_correct_proof. Qed.
Check simple_select0_correct : forall extra bs k, simple_select0 (simple_build bs extra) k = select0 bs k.
Print Assumptions simple_select0_correct.

Example simple_nonvacuous :
  let bs := repeat true 300 ++ repeat false 212 ++ repeat true 88 in
  simple_rank1 (simple_build bs 3) 600 = Some 388 /\ simple_rank1 (simple_build bs 3) 512 = Some 300 /\
  simple_select1 (simple_build bs 3) 300 = Some 512 /\ simple_select1 (simple_build bs 3) 388 = None /\
  simple_select0 (simple_build bs 3) 211 = Some 511 /\ simple_select0 (simple_build bs 3) 212 = None.
Proof. vm_compute. repeat split; reflexivity. Qed.

(* --- the rest of few.rs: RankSelectFewOne rank0 / select0 / count_ones, RankSelectFewZero (sorted positions of the
       zeros: rank0 by partition point, rank1 = pos - rank0, select0 by index, select1 by binary search over
       positions, get, count_ones) --- *)
Theorem few_rank0_correct : forall bs p,
  few_rank0 (few_build bs) p = if length bs <? p then None else Some (rank0 bs p).
Proof. exact few_rank0_correct_proof. Qed.
Check few_rank0_correct : forall bs p,
  few_rank0 (few_build bs) p = if length bs <? p then None else Some (rank0 bs p).
Print Assumptions few_rank0_correct.

Theorem few_select0_correct : forall bs k, few_select0 (few_build bs) k = select0 bs k.
Proof. exact few_select0_correct_proof. Qed.
Check few_select0_correct : forall bs k, few_select0 (few_build bs) k = select0 bs k.
Print Assumptions few_select0_correct.

Theorem fewone_count_ones : forall bs, few_count_ones (few_build bs) = count1 bs /\ fsize (few_build bs) = length bs.
Proof. exact few_count_ones_proof. Qed.
Check fewone_count_ones : forall bs, few_count_ones (few_build bs) = count1 bs /\ fsize (few_build bs) = length bs.
Print Assumptions fewone_count_ones.

Theorem fewzero_rank0_correct : forall bs p,
  fz_rank0 (fz_build bs) p = if length bs <? p then None else Some (rank0 bs p).
Proof. exact fz_rank0_correct_proof. Qed.
Check fewzero_rank0_correct : forall bs p,
  fz_rank0 (fz_build bs) p = if length bs <? p then None else Some (rank0 bs p).
Print Assumptions fewzero_rank0_correct.

Theorem fewzero_rank1_correct : forall bs p,
  fz_rank1 (fz_build bs) p = if length bs <? p then None else Some (rank1 bs p).
Proof. exact fz_rank1_correct_proof. Qed.
Check fewzero_rank1_correct : forall bs p,
  fz_rank1 (fz_build bs) p = if length bs <? p then None else Some (rank1 bs p).
Print Assumptions fewzero_rank1_correct.

Theorem fewzero_select0_correct : forall bs k, fz_select0 (fz_build bs) k = select0 bs k.
Proof. exact fz_select0_correct_proof. Qed.
Check fewzero_select0_correct : forall bs k, fz_select0 (fz_build bs) k = select0 bs k.
Print Assumptions fewzero_select0_correct.

Theorem fewzero_select1_correct : forall bs k, fz_select1 (fz_build bs) k = select1 bs k.
Proof. exact fz_select1_correct_proof. Qed.
Check fewzero_select1_correct : forall bs k, fz_select1 (fz_build bs) k = select1 bs k.
Print Assumptions fewzero_select1_correct.

Theorem fewzero_get_correct : forall bs i,
  fz_get (fz_build bs) i = if length bs <=? i then None else Some (nth i bs false).
Proof. exact fz_get_correct_proof. Qed.
Check fewzero_get_correct : forall bs i,
  fz_get (fz_build bs) i = if length bs <=? i then None else Some (nth i bs false).
Print Assumptions fewzero_get_correct.

Theorem fewzero_count_ones : forall bs, fz_count_ones (fz_build bs) = count1 bs /\ zsize (fz_build bs) = length bs.
Proof. exact fz_count_ones_proof. Qed.
Check fewzero_count_ones : forall bs, fz_count_ones (fz_build bs) = count1 bs /\ zsize (fz_build bs) = length bs.
Print Assumptions fewzero_count_ones.

Example fewzero_nonvacuous :
  let bs := repeat true 70 ++ [false; true; false] ++ repeat true 60 in
  fz_rank1 (fz_build bs) 73 = Some 71 /\ fz_select1 (fz_build bs) 71 = Some 73 /\ fz_select1 (fz_build bs) 131 = None /\
  fz_select0 (fz_build bs) 1 = Some 72 /\ fz_get (fz_build bs) 72 = Some false /\
  few_select0 (few_build bs) 1 = Some 72 /\ few_select0 (few_build bs) 2 = None.
Proof. vm_compute. repeat split; reflexivity. Qed.

(* --- BitVector as written (bit_vector.rs): a state machine over (blocks : Vec<u64>, len) with push, pop, set, get,
       resize, ensure_set1, fast_ensure_set1, insert, clear, count_ones, rank1, rank0, len.  For every operation
       history the observations equal those of a list of booleans, and the invariant "every storage bit at a position
       >= len is zero" holds - which is why the structures built from the vector may popcount whole words
       (bitvector_blocks_are_words). A panic (index out of bounds, debug assertion, subtraction underflow) is the
       observation -2 of the model; the refinement shows it never occurs. --- *)
Theorem bitvector_history_refines_list : forall ops,
  let '(s', obs) := bv_run bv_new ops in
  let '(l', obs') := ls_run [] ops in
  obs = obs' /\ bv_abs s' = l' /\ bv_inv s'.
Proof. exact bitvector_history_refines_list_proof. Qed.
Check bitvector_history_refines_list : forall ops,
  let '(s', obs) := bv_run bv_new ops in
  let '(l', obs') := ls_run [] ops in
  obs = obs' /\ bv_abs s' = l' /\ bv_inv s'.
Print Assumptions bitvector_history_refines_list.

Theorem bitvector_with_size_history_refines_list : forall n v ops,
  exists s0, bv_with_size n v = Some s0 /\
  let '(s', obs) := bv_run s0 ops in
  let '(l', obs') := ls_run (repeat v n) ops in
  obs = obs' /\ bv_abs s' = l' /\ bv_inv s'.
Proof. exact bitvector_with_size_history_refines_list_proof. Qed.
Check bitvector_with_size_history_refines_list : forall n v ops,
  exists s0, bv_with_size n v = Some s0 /\
  let '(s', obs) := bv_run s0 ops in
  let '(l', obs') := ls_run (repeat v n) ops in
  obs = obs' /\ bv_abs s' = l' /\ bv_inv s'.
Print Assumptions bitvector_with_size_history_refines_list.

Theorem bitvector_step_refines_list : forall s op, bv_inv s ->
  let '(s', o) := bv_step s op in
  let '(l', o') := ls_step (bv_abs s) op in
  bv_inv s' /\ bv_abs s' = l' /\ o = o'.
Proof. exact bv_step_refines. Qed.
Check bitvector_step_refines_list : forall s op, bv_inv s ->
  let '(s', o) := bv_step s op in
  let '(l', o') := ls_step (bv_abs s) op in
  bv_inv s' /\ bv_abs s' = l' /\ o = o'.
Print Assumptions bitvector_step_refines_list.

Theorem bitvector_never_panics : forall s op, bv_inv s -> snd (bv_step s op) <> PANIC.
Proof. exact bv_step_no_panic. Qed.
Check bitvector_never_panics : forall s op, bv_inv s -> snd (bv_step s op) <> PANIC.
Print Assumptions bitvector_never_panics.

(* trailing bits past the end are ignored because they are zero: block j of the storage is the 64-bit window j of
   the abstract bit list padded with zeros, so a whole-word popcount is the popcount of the window *)
Theorem bitvector_blocks_are_words : forall s j, bv_inv s ->
  bits64 (nth j (blocks s) 0%N) = word (bv_abs s) j ++ repeat false (64 - length (word (bv_abs s) j)) /\
  popcountN (nth j (blocks s) 0%N) = popcount (word (bv_abs s) j).
Proof. intros s j H. split; [exact (bv_blocks_are_words s j H)|exact (bv_blocks_popcount s j H)]. Qed.
Check bitvector_blocks_are_words : forall s j, bv_inv s ->
  bits64 (nth j (blocks s) 0%N) = word (bv_abs s) j ++ repeat false (64 - length (word (bv_abs s) j)) /\
  popcountN (nth j (blocks s) 0%N) = popcount (word (bv_abs s) j).
Print Assumptions bitvector_blocks_are_words.

Example bitvector_nonvacuous :
  let ops := [OResize 63 true; OPush false; OPush true; OPop; ORank1 65; OResize 10 false; OEnsureSet1 130;
              ORank1 200; ORank0 200; OCountOnes; OLen; OGet 130; OGet 131] in
  snd (bv_run bv_new ops) = [0; 0; 0; 1; 63; 0; 0; 11; 120; 11; 131; 1; (-1)]%Z /\
  blocks (fst (bv_run bv_new ops)) = [1023; 0; 4]%N.
Proof. vm_compute. split; reflexivity. Qed.

(* --- RankSelectMixedIL256 as written (mixed_il_256.rs), one dimension: the other dimension only determines how many
       (all-zero) lines follow the data.  select0 is not offered by the code. --- *)
Theorem mixed_rank1_correct : forall extra bs other p,
  p <= length bs -> mx_rank1 (mx_build bs extra other) p = Some (rank1 bs p).
Proof. exact mx_rank1_correct_proof. Qed.
Check mixed_rank1_correct : forall extra bs other p,
  p <= length bs -> mx_rank1 (mx_build bs extra other) p = Some (rank1 bs p).
Print Assumptions mixed_rank1_correct.

Theorem mixed_rank0_correct : forall extra bs other p,
  p <= length bs -> mx_rank0 (mx_build bs extra other) p = Some (rank0 bs p).
Proof. exact mx_rank0_correct_proof. Qed.
Check mixed_rank0_correct : forall extra bs other p,
  p <= length bs -> mx_rank0 (mx_build bs extra other) p = Some (rank0 bs p).
Print Assumptions mixed_rank0_correct.

Theorem mixed_rank1_refuses_past_end : forall extra bs other p, length bs < p -> mx_rank1 (mx_build bs extra other) p = None.
Proof. exact mx_rank1_refuses_proof. Qed.
Check mixed_rank1_refuses_past_end : forall extra bs other p, length bs < p -> mx_rank1 (mx_build bs extra other) p = None.
Print Assumptions mixed_rank1_refuses_past_end.

Theorem mixed_get_correct : forall extra bs other i,
  mx_get (mx_build bs extra other) i = if length bs <=? i then None else Some (nth i bs false).
Proof. exact mx_get_correct_proof. Qed.
Check mixed_get_correct : forall extra bs other i,
  mx_get (mx_build bs extra other) i = if length bs <=? i then None else Some (nth i bs false).
Print Assumptions mixed_get_correct.

Theorem mixed_count_ones : forall extra bs other,
  mx_max_rank1 (mx_build bs extra other) = count1 bs /\ mx_size (mx_build bs extra other) = length bs.
Proof. exact mx_count_ones_proof. Qed.
Check mixed_count_ones : forall extra bs other,
  mx_max_rank1 (mx_build bs extra other) = count1 bs /\ mx_size (mx_build bs extra other) = length bs.
Print Assumptions mixed_count_ones.

Theorem mixed_select1_correct : forall extra bs other k, mx_select1 (mx_build bs extra other) k = select1 bs k.
Proof. exact mx_select1_correct_proof. Qed.
Check mixed_select1_correct : forall extra bs other k, mx_select1 (mx_build bs extra other) k = select1 bs k.
Print Assumptions mixed_select1_correct.

Example mixed_nonvacuous :
  let bs := repeat true 300 ++ repeat false 212 ++ repeat true 88 in
  mx_rank1 (mx_build bs 0 1000) 600 = Some 388 /\ mx_rank1 (mx_build bs 1 0) 512 = Some 300 /\
  mx_select1 (mx_build bs 0 1000) 300 = Some 512 /\ mx_select1 (mx_build bs 5 77) 387 = Some 599 /\
  mx_select1 (mx_build bs 0 1000) 388 = None /\ length (mx_ls (mx_build bs 0 1000)) = 4.
Proof. vm_compute. repeat split; reflexivity. Qed.

(* --- trivial.rs: RankSelectAllZero / RankSelectAllOne on the all-zero / all-one list of the stored size --- *)
Theorem allzero_correct : forall n p k i,
  az_rank1 n p = (if n <? p then None else Some (rank1 (repeat false n) p)) /\
  az_rank0 n p = (if n <? p then None else Some (rank0 (repeat false n) p)) /\
  az_select1 n k = select1 (repeat false n) k /\
  az_select0 n k = select0 (repeat false n) k /\
  az_get n i = (if n <=? i then None else Some (nth i (repeat false n) false)) /\
  az_count_ones n = count1 (repeat false n).
Proof. exact allzero_correct_proof. Qed.
Check allzero_correct : forall n p k i,
  az_rank1 n p = (if n <? p then None else Some (rank1 (repeat false n) p)) /\
  az_rank0 n p = (if n <? p then None else Some (rank0 (repeat false n) p)) /\
  az_select1 n k = select1 (repeat false n) k /\
  az_select0 n k = select0 (repeat false n) k /\
  az_get n i = (if n <=? i then None else Some (nth i (repeat false n) false)) /\
  az_count_ones n = count1 (repeat false n).
Print Assumptions allzero_correct.

Theorem allone_correct : forall n p k i,
  ao_rank1 n p = (if n <? p then None else Some (rank1 (repeat true n) p)) /\
  ao_rank0 n p = (if n <? p then None else Some (rank0 (repeat true n) p)) /\
  ao_select1 n k = select1 (repeat true n) k /\
  ao_select0 n k = select0 (repeat true n) k /\
  ao_get n i = (if n <=? i then None else Some (nth i (repeat true n) false)) /\
  ao_count_ones n = count1 (repeat true n).
Proof. exact allone_correct_proof. Qed.
Check allone_correct : forall n p k i,
  ao_rank1 n p = (if n <? p then None else Some (rank1 (repeat true n) p)) /\
  ao_rank0 n p = (if n <? p then None else Some (rank0 (repeat true n) p)) /\
  ao_select1 n k = select1 (repeat true n) k /\
  ao_select0 n k = select0 (repeat true n) k /\
  ao_get n i = (if n <=? i then None else Some (nth i (repeat true n) false)) /\
  ao_count_ones n = count1 (repeat true n).
Print Assumptions allone_correct.

(* --- adaptive.rs: select_implementation always builds RankSelectInterleaved256::new and every method forwards --- *)
Theorem adaptive_correct : forall bs p k i,
  adaptive_rank1 (adaptive_build bs) p = rank1 bs (Nat.min p (length bs)) /\
  adaptive_rank0 (adaptive_build bs) p = rank0 bs (Nat.min p (length bs)) /\
  adaptive_select1 (adaptive_build bs) k = select1 bs k /\
  adaptive_select0 (adaptive_build bs) k = select0 bs k /\
  adaptive_get (adaptive_build bs) i = (if length bs <=? i then None else Some (nth i bs false)) /\
  adaptive_count_ones (adaptive_build bs) = count1 bs /\ adaptive_len (adaptive_build bs) = length bs.
Proof. exact adaptive_correct_proof. Qed.
Check adaptive_correct : forall bs p k i,
  adaptive_rank1 (adaptive_build bs) p = rank1 bs (Nat.min p (length bs)) /\
  adaptive_rank0 (adaptive_build bs) p = rank0 bs (Nat.min p (length bs)) /\
  adaptive_select1 (adaptive_build bs) k = select1 bs k /\
  adaptive_select0 (adaptive_build bs) k = select0 bs k /\
  adaptive_get (adaptive_build bs) i = (if length bs <=? i then None else Some (nth i bs false)) /\
  adaptive_count_ones (adaptive_build bs) = count1 bs /\ adaptive_len (adaptive_build bs) = length bs.
Print Assumptions adaptive_correct.

(* --- multidim_simd.rs MultiDimRankSelect / AdaptiveMultiDimensional: one interleaved-256 per dimension;
       bulk_rank_multidim = rank1 per dimension (0 past the end), bulk_select_multidim = select1 per dimension --- *)
Theorem multidim_correct : forall bvs m positions ranks,
  md_build bvs = Some m ->
  md_bulk_rank m positions = md_rank_spec (md_total_bits m) bvs positions /\
  md_bulk_select m ranks = md_select_spec bvs ranks /\
  (forall b, In b bvs -> length b = md_total_bits m).
Proof. exact multidim_correct_proof. Qed.
Check multidim_correct : forall bvs m positions ranks,
  md_build bvs = Some m ->
  md_bulk_rank m positions = md_rank_spec (md_total_bits m) bvs positions /\
  md_bulk_select m ranks = md_select_spec bvs ranks /\
  (forall b, In b bvs -> length b = md_total_bits m).
Print Assumptions multidim_correct.

Example multidim_nonvacuous :
  let bs := repeat true 70 ++ repeat false 200 in
  exists m, md_build [bs; map negb bs] = Some m /\
    md_bulk_rank m [100; 100] = [70; 30] /\ md_bulk_rank m [271; 270] = [0; 200] /\
    md_bulk_select m [69; 0] = Some [69; 70] /\ md_bulk_select m [70; 0] = None.
Proof. eexists. split; [reflexivity|]. vm_compute. repeat split; reflexivity. Qed.
