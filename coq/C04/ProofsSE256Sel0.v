(* C04: RankSelectSE256 select0 (zero counts = line*256 - ones, zero-padded inverted words), for every bit list,
   every k, both cache settings. *)
From Coq Require Import List Arith NArith Lia Bool ZifyBool ZifyNat ZifyN.
From ZV.Common Require Import Base.
From ZV.C04 Require Import Spec Model ModelGen ModelSE256 ProofsRank ProofsSelect ProofsSelect0 ProofsGen ProofsSE256.
Import ListNotations.
Ltac Zify.zify_post_hook ::= Z.div_mod_to_equations.
Close Scope N_scope.
Open Scope nat_scope.

Section Extra0.
Variable extra : nat.

(* ---- select0 ---- *)
Theorem se256_select0_correct_proof bs sp0 sp1 k :
  se256_select0 (se256_build bs extra sp0 sp1) k = select0 bs k.
Proof.
  destruct (se256_build_spec extra bs sp0 sp1) as (Hbits & Hsize & Hnw & Hmr1 & Hmr0 & Hclen & Hbase & Hrel & Hsent & Hs1 & Hs0).
  pose proof (nlines256_bounds (length bs)) as [Hn1 Hn2].
  set (s := se256_build bs extra sp0 sp1) in *. set (nl := nlines256 (length bs)) in *.
  set (mr0 := length bs - count1 bs) in *.
  (* the padded, negated list *)
  set (m := 256 * nl - length bs).
  set (L := bs ++ repeat false m).
  set (P := map negb L).
  assert (HLlen : length L = 256 * nl) by (subst L m; rewrite app_length, repeat_length; lia).
  assert (HP : P = map negb bs ++ repeat true m).
  { subst P L. rewrite map_app. f_equal. clear. induction m as [|m IH]; cbn [repeat map negb]; [reflexivity|]. f_equal. exact IH. }
  assert (HrP : forall p, p <= 256 * nl -> rank1 P p = p - rank1 bs p).
  { intros p Hp. subst P. rewrite rank1_negb by lia. subst L. rewrite rank1_pad_false. reflexivity. }
  assert (Hc0 : count1 (map negb bs) = mr0) by (rewrite count1_negb; subst mr0; lia).
  unfold se256_select0. rewrite Hmr0. unfold select0.
  destruct (Nat.leb_spec mr0 k) as [Hge|Hlt].
  { destruct (select1 (map negb bs) k) as [p|] eqn:E; [|reflexivity].
    assert (k < count1 (map negb bs)) by (apply select1_some_iff; eauto). lia. }
  rewrite <- (select1_app_l (map negb bs) (repeat true m) k) by lia. rewrite <- HP.
  set (g := fun i => i * 256 - lev1 (nth i (cache256 s) dflt256)).
  assert (Hg : forall i, i <= nl -> g i = rank1 P (256 * i)).
  { intros i Hi. unfold g. rewrite Hbase by lia. rewrite HrP by lia. lia. }
  assert (Hmono : forall i j, i <= j <= nl -> g i <= g j).
  { intros i j Hij. rewrite !Hg by lia. apply rank1_mono. lia. }
  assert (Hend : k < g nl).
  { rewrite Hg by lia. rewrite HrP by lia. rewrite rank1_all by lia. subst mr0. lia. }
  assert (Hbr : exists lo0 hi0,
     match s0c256 s with
     | Some c => (nth (k / LINE256) c 0, nth (S (k / LINE256)) c 0)
     | None => (0, length (cache256 s) - 1)
     end = (lo0, hi0) /\ lo0 <= hi0 <= nl /\
     (forall i, i < lo0 -> g i <= k) /\ (forall i, hi0 <= i <= nl -> k < g i)).
  { rewrite Hs0. fold mr0. destruct (sp0 && (0 <? mr0)) eqn:Esel.
    - assert (Hpos : 0 < mr0) by lia. unfold LINE256. fold g.
      assert (Hslot : S (k / 256) <= (mr0 + 256 - 1) / 256) by lia.
      destruct (sel_cache_g0_spec g 256 nl ltac:(lia) mr0 Hpos (k / 256)) as (A1 & B1 & C1); [lia|].
      destruct (sel_cache_g0_spec g 256 nl ltac:(lia) mr0 Hpos (S (k / 256))) as (A2 & B2 & C2); [lia|].
      set (e1 := nth (k / 256) (build_sel_cache_g g true 256 mr0 nl) 0) in *.
      set (e2 := nth (S (k / 256)) (build_sel_cache_g g true 256 mr0 nl) 0) in *.
      exists e1, e2. split; [reflexivity|].
      assert (Hlow : forall i, i < e1 -> g i <= k).
      { intros i Hi. assert (g i <= 256 * (k / 256)) by (apply B1; lia). lia. }
      assert (Hup : forall i, e2 <= i <= nl -> k < g i).
      { intros i Hi. destruct (Nat.eq_dec e2 nl) as [He|He].
        - assert (i = nl) by lia. subst i. exact Hend.
        - assert (256 * S (k / 256) < g e2) by (apply C2; lia).
          assert (g e2 <= g i) by (apply Hmono; lia). lia. }
      repeat split; try lia; try assumption.
      destruct (Nat.le_gt_cases e1 e2) as [Hle'|Hgt]; [exact Hle'|exfalso].
      assert (g e2 <= k) by (apply Hlow; lia).
      assert (k < g e2) by (apply Hup; lia). lia.
    - exists 0, nl. rewrite Hclen. split; [f_equal; lia|]. repeat split; try lia.
      intros i Hi. assert (i = nl) by lia. subst i. exact Hend. }
  destruct Hbr as (lo0 & hi0 & Hmatch & Hlh & Hlow0 & Hup0).
  unfold se256_upper_bound. rewrite Hmatch, Hclen. cbv iota. unfold LINE256.
  set (right := fun mid => mid * 256 - lev1 (nth mid (cache256 s) dflt256) <=? k).
  destruct (bsearch_spec mid_avg right (S nl) mid_avg_between) with (fuel := S (S nl)) (lo := lo0) (hi := hi0)
    as (Hr1 & Hr2 & Hr3); [|lia|lia| | |].
  { intros i j Hij Hj. unfold right in *. apply Nat.leb_le in Hj. apply Nat.leb_le.
    assert (g i <= g j) by (apply Hmono; lia). unfold g in *. lia. }
  { intros i Hi. unfold right. apply Nat.leb_le. apply (Hlow0 i). exact Hi. }
  { intros i Hi. unfold right. apply Nat.leb_gt. apply (Hup0 i). lia. }
  set (r := bsearch mid_avg right (S (S nl)) lo0 hi0) in *.
  assert (Hlt_r : forall i, i < r -> g i <= k).
  { intros i Hi. specialize (Hr2 i Hi). unfold right in Hr2. apply Nat.leb_le in Hr2. exact Hr2. }
  assert (Hge_r : forall i, r <= i <= nl -> k < g i).
  { intros i Hi. assert (H : right i = false) by (apply Hr3; lia). unfold right in H. apply Nat.leb_gt in H. exact H. }
  destruct (Nat.eqb_spec r 0) as [Hr0|Hr0].
  { exfalso. assert (H0 : k < g 0) by (apply Hge_r; lia). unfold g in H0. lia. }
  assert (Hblk : r - 1 < nl) by lia.
  set (block := r - 1) in *.
  assert (Hlo : rank1 P (256 * block) <= k) by (rewrite <- Hg by lia; apply Hlt_r; lia).
  assert (Hhi : k < rank1 P (256 * block + 256)).
  { replace (256 * block + 256) with (256 * r) by lia. rewrite <- Hg by lia. apply Hge_r. lia. }
  rewrite Hbase by lia.
  replace (block * 256 - rank1 bs (256 * block)) with (rank1 P (256 * block)) by (rewrite HrP by lia; lia).
  set (c := nth block (cache256 s) dflt256).
  assert (Hrelc : forall j, j <= 3 -> nth j (lev2 c) 0 = seg bs (256 * block) (64 * j)) by (intros j Hj; apply Hrel; lia).
  set (target := k - rank1 P (256 * block)).
  rewrite rank1_seg in Hhi.
  assert (Hle : forall p, rank1 bs p <= p) by (intros p; apply rank1_le).
  assert (HsegP : forall a n, a + n <= 256 * nl -> seg P a n = n - seg bs a n).
  { intros a n Han. pose proof (rank1_seg P a n) as E1. pose proof (rank1_seg bs a n) as E2.
    rewrite !HrP in E1 by lia. pose proof (Hle a). pose proof (Hle (a + n)). pose proof (seg_le bs a n). lia. }
  assert (Hzb : forall j, j <= 3 -> j * 64 - nth j (lev2 c) 0 = seg P (256 * block) (64 * j)).
  { intros j Hj. rewrite Hrelc by lia. rewrite HsegP by lia. lia. }
  destruct (find_bracket (fun j => seg P (256 * block) (64 * j)) 4 target) as (j0 & Hj0 & Hbr).
  { split; [cbv beta; change (64 * 0) with 0; rewrite seg_0; lia|]. change (64 * 4) with 256. subst target. lia. }
  destruct (descending_split4 j0) as (pre & post & Hsplit & Hpre); [lia|].
  rewrite Hsplit.
  assert (Hrank : rank1 P (256 * block + 64 * j0) = rank1 P (256 * block) + seg P (256 * block) (64 * j0))
    by apply rank1_seg.
  assert (Hwin : k - rank1 P (256 * block + 64 * j0) < seg P (256 * block + 64 * j0) 64).
  { rewrite Hrank. replace (64 * S j0) with (64 * j0 + 64) in Hbr by lia. rewrite seg_add in Hbr. subst target. lia. }
  destruct (select1_window P (256 * block + 64 * j0) k) as (Hsel & Hin); [lia|exact Hwin|].
  rewrite se256_scan0_skip.
  - rewrite Hsel. f_equal. unfold LINE256, WPL256. rewrite Hzb by lia. rewrite Hbits, Hnw.
    assert (Hword : (if block * 4 + j0 <? (nwords (length bs) + extra) then word bs (block * 4 + j0) else []) = word bs (block * 4 + j0)).
    { destruct (Nat.ltb_spec (block * 4 + j0) ((nwords (length bs) + extra))); [reflexivity|]. rewrite word_past by lia. reflexivity. }
    rewrite Hword.
    rewrite (padded_word bs m) by lia. fold L. rewrite <- firstn_map, <- skipn_map. fold P.
    replace (64 * (block * 4 + j0)) with (256 * block + 64 * j0) by lia.
    replace (target - seg P (256 * block) (64 * j0)) with (k - rank1 P (256 * block + 64 * j0)) by (subst target; lia).
    lia.
  - intros j Hj. specialize (Hpre j Hj). rewrite Hzb by lia.
    assert (seg P (256 * block) (64 * S j0) <= seg P (256 * block) (64 * j)) by (apply seg_mono; lia). lia.
  - rewrite Hzb by lia. lia.
Qed.
End Extra0.
