(* C04: RankSelectSE512 select1 (binary search over the line directory + in-line scan over the
   packed sub-block ranks + in-word select) returns the position of the k-th one, for every bit
   list and every k, with or without the select cache that narrows the search. *)
From Coq Require Import List Arith NArith Lia Bool ZifyBool ZifyNat ZifyN.
From ZV.Common Require Import Base.
From ZV.C04 Require Import Spec Model ProofsRank.
Import ListNotations.
Ltac Zify.zify_post_hook ::= Z.div_mod_to_equations.
Close Scope N_scope.
Open Scope nat_scope.

(* ---- select on the definition decomposes along a split point ---- *)
Lemma rank1_cons b t a : rank1 (b :: t) (S a) = (if b then 1 else 0) + rank1 t a.
Proof. reflexivity. Qed.

Lemma select1_skip : forall a bs k,
  rank1 bs a <= k ->
  select1 bs k = option_map (Nat.add a) (select1 (skipn a bs) (k - rank1 bs a)).
Proof.
  induction a as [|a IH]; intros bs k Hk.
  - cbn [skipn]. unfold rank1. cbn [firstn count1]. rewrite Nat.sub_0_r.
    destruct (select1 bs k); reflexivity.
  - destruct bs as [|b t].
    + cbn [skipn select1]. reflexivity.
    + rewrite rank1_cons in *. cbn [skipn select1]. destruct b.
      * destruct k as [|k]; [lia|]. rewrite (IH t k) by lia.
        replace (S k - (1 + rank1 t a)) with (k - rank1 t a) by lia.
        destruct (select1 (skipn a t) (k - rank1 t a)); reflexivity.
      * rewrite (IH t k) by lia. cbn [Nat.add].
        destruct (select1 (skipn a t) (k - rank1 t a)); reflexivity.
Qed.

Lemma select1_firstn : forall n l k, k < count1 (firstn n l) -> select1 (firstn n l) k = select1 l k.
Proof.
  induction n as [|n IH]; intros l k Hk; [cbn in Hk; lia|].
  destruct l as [|b t]; [reflexivity|]. cbn [firstn count1 select1] in *. destruct b.
  - destruct k as [|k]; [reflexivity|]. rewrite IH by lia. reflexivity.
  - rewrite IH by lia. reflexivity.
Qed.

Lemma select1_lt_count bs k : k < count1 bs -> exists p, select1 bs k = Some p /\ p < length bs.
Proof.
  intros H. apply select1_some_iff in H. destruct H as [p Hp]. exists p. split; [exact Hp|].
  apply select1_spec in Hp. tauto.
Qed.

(* the k-th one lies in the 64-bit window starting at a *)
Lemma select1_window bs a k :
  rank1 bs a <= k -> k - rank1 bs a < seg bs a 64 ->
  select1 bs k = Some (a + select_in_word (firstn 64 (skipn a bs)) (k - rank1 bs a)) /\ a < length bs.
Proof.
  intros Hlo Hhi. unfold seg in Hhi. rewrite (select1_skip a bs k Hlo).
  rewrite <- (select1_firstn 64) by exact Hhi.
  destruct (select1_lt_count _ _ Hhi) as (p & Hp & Hlen). unfold select_in_word. rewrite Hp. cbn [option_map].
  split; [reflexivity|].
  rewrite firstn_length, skipn_length in Hlen. lia.
Qed.

(* ---- the binary search ---- *)
Section UB.
  Variable s : se512.
  Variable n rank : nat.
  Let f := fun i => base (nth i (cache s) dflt).
  Hypothesis mono : forall i j, i <= j <= n -> f i <= f j.

  Lemma ub_loop_spec : forall fuel lo hi,
    lo <= hi <= n -> hi - lo < fuel ->
    (forall i, i < lo -> f i <= rank) -> (forall i, hi <= i <= n -> rank < f i) ->
    let r := ub_loop s rank true fuel lo hi in
    lo <= r <= hi /\ (forall i, i < r -> f i <= rank) /\ (forall i, r <= i <= n -> rank < f i).
  Proof.
    induction fuel as [|fuel IH]; intros lo hi Hb Hf Hlo Hhi; [lia|].
    cbn [ub_loop]. destruct (Nat.ltb_spec lo hi) as [Hlt|Hge].
    - assert (Hmid : lo <= (lo + hi) / 2 < hi) by lia.
      fold (f ((lo + hi) / 2)).
      destruct (Nat.leb_spec (f ((lo + hi) / 2)) rank) as [Hle|Hgt].
      + specialize (IH (S ((lo + hi) / 2)) hi).
        destruct IH as (A & B & C); [lia|lia| |exact Hhi|].
        * intros i Hi. assert (f i <= f ((lo + hi) / 2)) by (apply mono; lia). lia.
        * repeat split; try lia; assumption.
      + specialize (IH lo ((lo + hi) / 2)).
        destruct IH as (A & B & C); [lia|lia|exact Hlo| |].
        * intros i Hi. assert (f ((lo + hi) / 2) <= f i) by (apply mono; lia). lia.
        * repeat split; try lia; assumption.
    - assert (lo = hi) by lia. subst. repeat split; try lia; assumption.
  Qed.
End UB.

(* ---- the in-line scan ---- *)
Lemma scan1_skip s block target c pre j0 post :
  (forall j, In j pre -> target < get_rela (rela c) j) ->
  get_rela (rela c) j0 <= target ->
  block * WPL + j0 < (length (bits s) + 63) / 64 ->
  scan1 s block target c (pre ++ j0 :: post) =
  Some (block * LINE + j0 * 64 + select_in_word (word (bits s) (block * WPL + j0)) (target - get_rela (rela c) j0)).
Proof.
  induction pre as [|j pre IH]; intros Hpre Hhit Hex; cbn [app scan1].
  - replace (get_rela (rela c) j0 <=? target) with true by (symmetry; apply Nat.leb_le; exact Hhit).
    replace (block * WPL + j0 <? (length (bits s) + 63) / 64) with true by (symmetry; apply Nat.ltb_lt; exact Hex).
    reflexivity.
  - assert (Hj : target < get_rela (rela c) j) by (apply Hpre; left; reflexivity).
    replace (get_rela (rela c) j <=? target) with false by (symmetry; apply Nat.leb_gt; exact Hj).
    apply IH; [|exact Hhit|exact Hex]. intros j' Hj'. apply Hpre. right. exact Hj'.
Qed.

Lemma find_bracket (f : nat -> nat) n t : f 0 <= t < f n -> exists j, j < n /\ f j <= t < f (S j).
Proof.
  induction n as [|n IH]; intros H; [lia|].
  destruct (Nat.le_gt_cases (f n) t) as [Hle|Hgt].
  - exists n. lia.
  - destruct IH as (j & Hj & Hb); [lia|]. exists j. lia.
Qed.

Lemma seg_mono bs a m n : m <= n -> seg bs a m <= seg bs a n.
Proof. intros H. replace n with (m + (n - m)) by lia. rewrite seg_add. lia. Qed.

Lemma rank1_mono bs a b : a <= b -> rank1 bs a <= rank1 bs b.
Proof. intros H. replace b with (a + (b - a)) by lia. rewrite rank1_seg. lia. Qed.

Lemma descending_split j0 : j0 <= 7 ->
  exists pre post, rev (seq 0 WPL) = pre ++ j0 :: post /\ forall j, In j pre -> j0 < j <= 7.
Proof.
  intros H. unfold WPL. cbn [seq rev app].
  do 8 (destruct j0 as [|j0]; [
    match goal with |- exists pre post, ?l = _ /\ _ => idtac end;
    first [ exists [], [6;5;4;3;2;1;0]; split; [reflexivity|cbn [In]; intros; lia]
          | exists [7], [5;4;3;2;1;0]; split; [reflexivity|cbn [In]; intros; lia]
          | exists [7;6], [4;3;2;1;0]; split; [reflexivity|cbn [In]; intros; lia]
          | exists [7;6;5], [3;2;1;0]; split; [reflexivity|cbn [In]; intros; lia]
          | exists [7;6;5;4], [2;1;0]; split; [reflexivity|cbn [In]; intros; lia]
          | exists [7;6;5;4;3], [1;0]; split; [reflexivity|cbn [In]; intros; lia]
          | exists [7;6;5;4;3;2], [0]; split; [reflexivity|cbn [In]; intros; lia]
          | exists [7;6;5;4;3;2;1], []; split; [reflexivity|cbn [In]; intros; lia] ] |]).
  lia.
Qed.


(* ---- the select cache (build_select_cache, ones) brackets the binary search ---- *)
Section SelCache.
  Variable cache : list rc.
  Variable nl : nat.
  Let f := fun i => base (nth i cache dflt).

  Lemma sel_scan_spec j : forall fuel k,
    k <= nl -> nl - k < fuel -> (forall i, i < k -> f i < 512 * j) ->
    let r := sel_scan cache nl true j fuel k in
    k <= r <= nl /\ (forall i, i < r -> f i < 512 * j) /\ (r < nl -> 512 * j <= f r).
  Proof.
    induction fuel as [|fuel IH]; intros k Hk Hf Hlow; [lia|].
    cbn [sel_scan]. destruct (Nat.ltb_spec k nl) as [Hlt|Hge].
    - unfold LINE. change (base (nth k cache {| base := 0; rela := 0 |})) with (f k).
      destruct (Nat.leb_spec (512 * j) (f k)) as [Hhit|Hmiss].
      + repeat split; try lia; auto.
      + destruct (IH (S k)) as (A & B & C); [lia|lia| |].
        * intros i Hi. destruct (Nat.eq_dec i k) as [->|]; [lia|apply Hlow; lia].
        * repeat split; try lia; auto.
    - repeat split; try lia; auto.
  Qed.

  Lemma sel_fill_length : forall n j prev, length (sel_fill cache nl true n j prev) = n.
  Proof. induction n as [|n IH]; intros j prev; cbn [sel_fill length]; [reflexivity|]. rewrite IH. reflexivity. Qed.

  Lemma sel_fill_spec : forall n j prev,
    prev <= nl -> (forall i, i < prev -> f i < 512 * j) ->
    forall t, t < n ->
      let e := nth t (sel_fill cache nl true n j prev) 0 in
      e <= nl /\ (forall i, i < e -> f i < 512 * (j + t)) /\ (e < nl -> 512 * (j + t) <= f e).
  Proof.
    induction n as [|n IH]; intros j prev Hp Hlow t Ht; [lia|].
    cbn [sel_fill].
    destruct (sel_scan_spec j (S nl) prev) as (A & B & C); [lia|lia|exact Hlow|].
    set (e0 := sel_scan cache nl true j (S nl) prev) in *.
    destruct t as [|t]; cbn [nth].
    - rewrite Nat.add_0_r. repeat split; try lia; auto.
    - replace (j + S t) with (S j + t) by lia. apply IH; [lia| |lia].
      intros i Hi. specialize (B i Hi). lia.
  Qed.

  (* entry t of the cache: no line before it reaches 512*t ones; it does, unless it is the end *)
  Lemma select_cache_spec mr : 0 < mr -> forall t, t <= (mr + 511) / 512 ->
    let e := nth t (build_select_cache cache mr nl true) 0 in
    e <= nl /\ (t < (mr + 511) / 512 -> forall i, i < e -> f i < 512 * t) /\ (e < nl -> 512 * t <= f e).
  Proof.
    intros Hmr t Ht. unfold build_select_cache, LINE.
    replace (mr + 512 - 1) with (mr + 511) by lia.
    set (slots := (mr + 511) / 512) in *.
    assert (Hs : 1 <= slots) by (subst slots; lia).
    replace (slots =? 0) with false by (symmetry; apply Nat.eqb_neq; lia).
    destruct t as [|t]; cbn [nth].
    - repeat split; try lia.
    - destruct (Nat.lt_ge_cases t (slots - 1)) as [Hin|Hout].
      + rewrite app_nth1 by (rewrite sel_fill_length; lia).
        destruct (sel_fill_spec (slots - 1) 1 0) with (t := t) as (A & B & C); [lia|intros; lia|lia|].
        replace (1 + t) with (S t) in * by lia. repeat split; try lia; try assumption. intros _. exact B.
      + assert (t = slots - 1) by lia. subst t.
        rewrite app_nth2 by (rewrite sel_fill_length; lia).
        rewrite sel_fill_length, Nat.sub_diag. cbn [nth]. repeat split; try lia.
  Qed.
End SelCache.

Theorem se_select1_correct_proof bs sp0 sp1 k :
  se_select1 (build bs sp0 sp1) k = select1 bs k.
Proof.
  unfold build.
  pose proof (build_lines_spec bs (nlines (length bs)) 0 0 eq_refl) as Hb.
  destruct (build_lines bs (nlines (length bs)) 0 0) as [lines cum] eqn:Ebl.
  destruct Hb as (Hlen & Htot & Hk). cbn [Nat.add] in *.
  pose proof (nlines_bounds (length bs)) as [Hn1 Hn2]. unfold LINE in Hn1, Hn2.
  assert (Hcum : cum = count1 bs) by (rewrite Htot; apply rank1_all; lia).
  set (nl := nlines (length bs)) in *.
  set (cch := lines ++ [{| base := cum; rela := 0 |}]).
  set (s := {| bits := bs; size := length bs; cache := cch;
               sel0 := _; sel1 := _; max_rank0 := _; max_rank1 := cum |}).
  unfold se_select1. change (max_rank1 s) with cum.
  destruct (Nat.leb_spec cum k) as [Hge|Hlt].
  { (* k is not below the number of ones *)
    destruct (select1 bs k) as [p|] eqn:E; [|reflexivity].
    assert (k < count1 bs) by (apply select1_some_iff; eauto). lia. }
  (* the directory, as a function of the line index *)
  assert (Hbase : forall i, i <= nl -> base (nth i (cache s) dflt) = rank1 bs (512 * i)).
  { intros i Hi. subst s cch. cbn [cache]. destruct (Nat.eq_dec i nl) as [->|Hne].
    - rewrite app_nth2 by lia. rewrite Hlen, Nat.sub_diag. cbn [nth base]. exact Htot.
    - rewrite app_nth1 by lia. apply Hk. lia. }
  assert (Hclen : length (cache s) = S nl) by (subst s cch; cbn [cache]; rewrite app_length; cbn [length]; lia).
  assert (Hmono : forall i j, i <= j <= nl -> base (nth i (cache s) dflt) <= base (nth j (cache s) dflt)).
  { intros i j Hij. rewrite !Hbase by lia. apply rank1_mono. lia. }
  assert (Hend : base (nth nl (cache s) dflt) = cum) by (rewrite Hbase by lia; symmetry; exact Htot).
  (* the initial bracket, with or without the select cache *)
  assert (Hbr : exists lo0 hi0,
     match sel1 s with
     | Some c => (nth (k / LINE) c 0, nth (S (k / LINE)) c 0)
     | None => (0, length (cache s) - 1)
     end = (lo0, hi0) /\ lo0 <= hi0 <= nl /\
     (forall i, i < lo0 -> base (nth i (cache s) dflt) <= k) /\
     (forall i, hi0 <= i <= nl -> k < base (nth i (cache s) dflt))).
  { destruct (sel1 s) as [c|] eqn:Esel.
    - assert (Hc : c = build_select_cache (cache s) cum nl true /\ 0 < cum).
      { subst s. cbn [sel1 cache] in *. destruct sp1; cbn [andb] in Esel; [|discriminate].
        destruct (Nat.ltb_spec 0 cum); [|discriminate]. inversion Esel. split; [reflexivity|assumption]. }
      destruct Hc as [-> Hpos]. unfold LINE.
      assert (Hslot : S (k / 512) <= (cum + 511) / 512) by lia.
      destruct (select_cache_spec (cache s) nl cum Hpos (k / 512)) as (A1 & B1 & C1); [lia|].
      destruct (select_cache_spec (cache s) nl cum Hpos (S (k / 512))) as (A2 & B2 & C2); [lia|].
      set (e1 := nth (k / 512) (build_select_cache (cache s) cum nl true) 0) in *.
      set (e2 := nth (S (k / 512)) (build_select_cache (cache s) cum nl true) 0) in *.
      exists e1, e2. split; [reflexivity|].
      assert (Hlow : forall i, i < e1 -> base (nth i (cache s) dflt) <= k).
      { intros i Hi. assert (base (nth i (cache s) dflt) < 512 * (k / 512)) by (apply B1; lia). lia. }
      assert (Hup : forall i, e2 <= i <= nl -> k < base (nth i (cache s) dflt)).
      { intros i Hi. destruct (Nat.eq_dec e2 nl) as [He|He].
        - assert (i = nl) by lia. subst i. rewrite Hend. lia.
        - assert (512 * S (k / 512) <= base (nth e2 (cache s) dflt)) by (apply C2; lia).
          assert (base (nth e2 (cache s) dflt) <= base (nth i (cache s) dflt)) by (apply Hmono; lia). lia. }
      repeat split; try lia; try assumption.
      destruct (Nat.le_gt_cases e1 e2) as [Hle|Hgt]; [exact Hle|exfalso].
      assert (base (nth e2 (cache s) dflt) <= k) by (apply Hlow; lia).
      assert (k < base (nth e2 (cache s) dflt)) by (apply Hup; lia). lia.
    - exists 0, nl. rewrite Hclen. split; [f_equal; lia|]. repeat split; try lia.
      intros i Hi. assert (i = nl) by lia. subst i. rewrite Hend. lia. }
  destruct Hbr as (lo0 & hi0 & Hmatch & Hlh & Hlow0 & Hup0).
  unfold upper_bound. rewrite Hmatch, Hclen.
  pose proof (ub_loop_spec s nl k Hmono) as Hub.
  destruct (Hub) with (fuel := S (S nl)) (lo := lo0) (hi := hi0) as (Hr1 & Hr2 & Hr3); clear Hub;
    [lia|lia|exact Hlow0|exact Hup0|].
  set (r := ub_loop s k true (S (S nl)) lo0 hi0) in *.
  destruct (Nat.eqb_spec r 0) as [Hr0|Hr0].
  { (* impossible: line 0 starts with rank 0 <= k *)
    exfalso. assert (H0 : k < base (nth 0 (cache s) dflt)) by (apply Hr3; lia).
    rewrite Hbase in H0 by lia. change (rank1 bs (512 * 0)) with 0 in H0. lia. }
  assert (Hblk : r - 1 < nl) by lia.
  assert (Hlo : rank1 bs (512 * (r - 1)) <= k) by (rewrite <- Hbase by lia; apply Hr2; lia).
  assert (Hhi : k < rank1 bs (512 * (r - 1) + 512)).
  { replace (512 * (r - 1) + 512) with (512 * r) by lia. rewrite <- Hbase by lia. apply Hr3. lia. }
  set (block := r - 1) in *.
  assert (Hc : nth block (cache s) dflt = nth block lines dflt) by (subst s cch; cbn [cache]; apply app_nth1; lia).
  rewrite Hc. destruct (Hk block Hblk) as (Hbb & Hrel). rewrite Hbb.
  set (target := k - rank1 bs (512 * block)).
  rewrite rank1_seg in Hhi.
  (* the sub-block holding the target *)
  destruct (find_bracket (fun j => seg bs (512 * block) (64 * j)) 8 target) as (j0 & Hj0 & Hbr).
  { split; [unfold seg; cbn; lia|]. change (64 * 8) with 512. subst target. lia. }
  destruct (descending_split j0) as (pre & post & Hsplit & Hpre); [lia|].
  rewrite Hsplit.
  assert (Hrank : rank1 bs (512 * block + 64 * j0) = rank1 bs (512 * block) + seg bs (512 * block) (64 * j0))
    by apply rank1_seg.
  assert (Hwin : k - rank1 bs (512 * block + 64 * j0) < seg bs (512 * block + 64 * j0) 64).
  { rewrite Hrank. replace (64 * S j0) with (64 * j0 + 64) in Hbr by lia. rewrite seg_add in Hbr. subst target. lia. }
  destruct (select1_window bs (512 * block + 64 * j0) k) as (Hsel & Hin); [lia|exact Hwin|].
  rewrite scan1_skip.
  - rewrite Hsel. f_equal. unfold LINE, WPL. rewrite Hrel by lia.
    unfold word. change (bits s) with bs.
    replace (64 * (block * 8 + j0)) with (512 * block + 64 * j0) by lia.
    replace (target - seg bs (512 * block) (64 * j0)) with (k - rank1 bs (512 * block + 64 * j0)) by (subst target; lia).
    lia.
  - intros j Hj. specialize (Hpre j Hj). rewrite Hrel by lia.
    assert (seg bs (512 * block) (64 * S j0) <= seg bs (512 * block) (64 * j)) by (apply seg_mono; lia). lia.
  - rewrite Hrel by lia. lia.
  - change (bits s) with bs. unfold WPL. lia.
Qed.
