(* C04: RankSelectFewOne (sorted positions) equals the definition. *)
From Coq Require Import List Arith Lia Bool.
From ZV.C04 Require Import Spec Model.
Import ListNotations.

Lemma lower_bound_small bs i v : v <= i -> lower_bound (positions_from bs i) v = 0.
Proof.
  revert i; induction bs as [|b t IH]; intros i Hv; cbn [positions_from]; [reflexivity|].
  destruct b.
  - cbn [lower_bound]. replace (i <? v) with false by (symmetry; apply Nat.ltb_ge; lia). reflexivity.
  - apply IH. lia.
Qed.

Lemma lower_bound_positions bs : forall i p,
  lower_bound (positions_from bs i) (i + p) = rank1 bs p.
Proof.
  induction bs as [|b t IH]; intros i p; cbn [positions_from].
  - unfold rank1. rewrite firstn_nil. reflexivity.
  - destruct p as [|p].
    + unfold rank1. cbn [firstn count1]. replace (i + 0) with i by lia.
      destruct b; [cbn [lower_bound]; rewrite Nat.ltb_irrefl; reflexivity|].
      apply lower_bound_small. lia.
    + unfold rank1 in *. cbn [firstn count1]. replace (i + S p) with (S i + p) by lia.
      destruct b.
      * cbn [lower_bound]. replace (i <? S i + p) with true by (symmetry; apply Nat.ltb_lt; lia).
        rewrite IH. reflexivity.
      * rewrite IH. reflexivity.
Qed.

Theorem few_rank1_correct_proof bs p :
  few_rank1 (few_build bs) p = if length bs <? p then None else Some (rank1 bs p).
Proof.
  unfold few_rank1, few_build. cbn [fsize positions]. destruct (length bs <? p); [reflexivity|].
  f_equal. apply (lower_bound_positions bs 0 p).
Qed.

Lemma nth_error_positions bs : forall i k,
  nth_error (positions_from bs i) k = option_map (fun p => i + p) (select1 bs k).
Proof.
  induction bs as [|b t IH]; intros i k; cbn [positions_from select1].
  - destruct k; reflexivity.
  - destruct b.
    + destruct k as [|k]; cbn [nth_error option_map]; [f_equal; lia|].
      rewrite IH. destruct (select1 t k); cbn [option_map]; [f_equal; lia|reflexivity].
    + rewrite IH. destruct (select1 t k); cbn [option_map]; [f_equal; lia|reflexivity].
Qed.

Theorem few_select1_correct_proof bs k : few_select1 (few_build bs) k = select1 bs k.
Proof.
  unfold few_select1, few_build. cbn [positions]. rewrite nth_error_positions.
  destruct (select1 bs k); reflexivity.
Qed.

Lemma existsb_positions bs : forall i j,
  existsb (Nat.eqb (i + j)) (positions_from bs i) = nth j bs false.
Proof.
  induction bs as [|b t IH]; intros i j; cbn [positions_from].
  - destruct j; reflexivity.
  - destruct j as [|j].
    + replace (i + 0) with i by lia. destruct b.
      * cbn [existsb nth]. rewrite Nat.eqb_refl. reflexivity.
      * cbn [nth]. specialize (IH (S i)).
        (* i itself is below every later position *)
        assert (G : forall l, (forall x, In x l -> S i <= x) -> existsb (Nat.eqb i) l = false).
        { induction l as [|x l IHl]; intros Hl; [reflexivity|]. cbn [existsb].
          assert (S i <= x) by (apply Hl; left; reflexivity).
          replace (i =? x) with false by (symmetry; apply Nat.eqb_neq; lia).
          apply IHl. intros y Hy. apply Hl. right. exact Hy. }
        apply G. clear. revert i. induction t as [|b t IHt]; intros i x Hx; cbn [positions_from] in Hx; [contradiction|].
        destruct b; [destruct Hx as [<-|Hx]; [lia|]|]; apply IHt in Hx; lia.
    + replace (i + S j) with (S i + j) by lia. destruct b.
      * cbn [existsb nth]. replace (S i + j =? i) with false by (symmetry; apply Nat.eqb_neq; lia).
        cbn [orb]. apply IH.
      * cbn [nth]. apply IH.
Qed.

Theorem few_get_correct_proof bs i :
  few_get (few_build bs) i = if length bs <=? i then None else Some (nth i bs false).
Proof.
  unfold few_get, few_build. cbn [fsize positions]. destruct (length bs <=? i); [reflexivity|].
  f_equal. apply (existsb_positions bs 0 i).
Qed.
