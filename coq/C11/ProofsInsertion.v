(* C11: insertion sort (AdvancedRadixSort::insertion_sort, CacheObliviousSort::insertion_sort,
   the MSD cutoff): each element is inserted after the elements <= it of the sorted prefix. *)
From ZV.Common Require Import Base Run.
From Coq Require Import Sorting.Sorted Sorting.Permutation.
From ZV.C11 Require Import Model ProofsSpec.
Open Scope N_scope.

Lemma ins_r_perm x l : Permutation (x :: l) (ins_r x l).
Proof.
  induction l as [|y t IH]; cbn [ins_r]; [reflexivity|].
  destruct (x <? y); [reflexivity|].
  eapply perm_trans; [apply perm_swap|]. apply perm_skip. exact IH.
Qed.
Lemma ins_r_SS x l : StronglySorted N.le l -> StronglySorted N.le (ins_r x l).
Proof.
  induction l as [|y t IH]; intros H; cbn [ins_r]; [repeat constructor|].
  destruct (N.ltb_spec x y) as [Hlt|Hge].
  - constructor; [assumption|]. apply SS_cons_inv in H as [_ Hy].
    constructor; [lia|]. eapply Forall_impl; [|exact Hy]. intros a Ha; cbn beta in *; lia.
  - apply SS_cons_inv in H as [Ht Hy]. constructor; [apply IH; assumption|].
    apply Forall_forall. intros a Ha.
    apply (Permutation_in _ (Permutation_sym (ins_r_perm x t))) in Ha.
    destruct Ha as [<-|Ha]; [lia|]. rewrite Forall_forall in Hy. apply Hy; assumption.
Qed.
Lemma insertion_loop (data : list N) : forall acc,
  StronglySorted N.le acc ->
  StronglySorted N.le (fold_left (fun acc x => ins_r x acc) data acc) /\
  Permutation (data ++ acc) (fold_left (fun acc x => ins_r x acc) data acc).
Proof.
  induction data as [|x data IH]; intros acc Hs; cbn [fold_left app]; [split; [exact Hs|reflexivity]|].
  destruct (IH (ins_r x acc) (ins_r_SS x acc Hs)) as [H1 H2]. split; [exact H1|].
  eapply perm_trans; [|exact H2].
  eapply perm_trans; [apply Permutation_middle|]. apply Permutation_app_head. apply ins_r_perm.
Qed.
Lemma insertion_sort_sorts_proof (data : list N) :
  Sorted N.le (insertion_sort data) /\ Permutation data (insertion_sort data).
Proof.
  unfold insertion_sort. destruct (insertion_loop data [] (SSorted_nil _)) as [H1 H2].
  split; [apply Sorted_SS; exact H1|]. rewrite app_nil_r in H2. exact H2.
Qed.
(* it is stable, hence equal to the reference sort *)
Lemma insertion_sort_is_isort (data : list N) : insertion_sort data = isort data.
Proof. destruct (insertion_sort_sorts_proof data) as [H1 H2]. apply sorted_perm_is_isort; assumption. Qed.
