(* C11: the spec vocabulary — Sorted/Permutation facts and the verified checker. *)
From ZV.Common Require Import Base Run.
From Coq Require Import Sorting.Sorted Sorting.Permutation.
From ZV.C11 Require Import Model.
Open Scope N_scope.

Lemma le_trans_N : Relations_1.Transitive N.le.
Proof. intros a b c; lia. Qed.

Lemma Sorted_SS (l : list N) : Sorted N.le l <-> StronglySorted N.le l.
Proof.
  split; [apply Sorted_StronglySorted; exact le_trans_N | apply StronglySorted_Sorted].
Qed.

Lemma SS_cons_inv x (l : list N) :
  StronglySorted N.le (x :: l) -> StronglySorted N.le l /\ Forall (N.le x) l.
Proof. intros H; inversion H; subst; auto. Qed.

Lemma SS_app (l1 l2 : list N) :
  StronglySorted N.le l1 -> StronglySorted N.le l2 ->
  (forall a b, In a l1 -> In b l2 -> a <= b) ->
  StronglySorted N.le (l1 ++ l2).
Proof.
  induction l1 as [|x l1 IH]; intros H1 H2 Hc; cbn [app]; [assumption|].
  apply SS_cons_inv in H1 as [H1 Hx]. constructor.
  - apply IH; [assumption|assumption|]. intros a b Ha Hb. apply Hc; [right|]; assumption.
  - apply Forall_app; split; [assumption|].
    apply Forall_forall; intros b Hb. apply Hc; [left; reflexivity|assumption].
Qed.

Lemma SS_app_inv (l1 l2 : list N) :
  StronglySorted N.le (l1 ++ l2) ->
  StronglySorted N.le l1 /\ StronglySorted N.le l2 /\ (forall a b, In a l1 -> In b l2 -> a <= b).
Proof.
  induction l1 as [|x l1 IH]; cbn [app]; intros H.
  - split; [constructor|]. split; [assumption|]. intros a b [].
  - apply SS_cons_inv in H as [H Hx]. apply IH in H as (H1 & H2 & Hc).
    apply Forall_app in Hx as [Hx1 Hx2].
    split; [constructor; assumption|]. split; [assumption|].
    intros a b [<-|Ha] Hb.
    + rewrite Forall_forall in Hx2. apply Hx2; assumption.
    + apply Hc; assumption.
Qed.

Lemma SS_filter (f : N -> bool) (l : list N) :
  StronglySorted N.le l -> StronglySorted N.le (filter f l).
Proof.
  induction l as [|x l IH]; intros H; cbn [filter]; [constructor|].
  apply SS_cons_inv in H as [H Hx]. destruct (f x).
  - constructor; [apply IH; assumption|].
    apply Forall_forall; intros y Hy. apply filter_In in Hy as [Hy _].
    rewrite Forall_forall in Hx. apply Hx; assumption.
  - apply IH; assumption.
Qed.

(* ---------- sortedb ---------- *)
Lemma sortedb_Sorted (l : list N) : sortedb l = true <-> Sorted N.le l.
Proof.
  induction l as [|x t IH]; [split; [constructor|reflexivity]|].
  cbn [sortedb]. destruct t as [|y t'].
  - split; [intros _; repeat constructor|reflexivity].
  - rewrite andb_true_iff, IH, N.leb_le. split.
    + intros [Hxy Ht]. constructor; [assumption|constructor; assumption].
    + intros H. inversion H as [|? ? Ht Hhd]; subst. inversion Hhd; subst. split; assumption.
Qed.

(* ---------- insertion sort as the reference sort ---------- *)
Lemma ins_perm x l : Permutation (x :: l) (ins x l).
Proof.
  induction l as [|y t IH]; cbn [ins]; [reflexivity|].
  destruct (x <=? y); [reflexivity|].
  eapply perm_trans; [apply perm_swap|]. apply perm_skip. exact IH.
Qed.
Lemma isort_perm l : Permutation l (isort l).
Proof.
  induction l as [|x t IH]; cbn [isort]; [reflexivity|].
  eapply perm_trans; [apply perm_skip; exact IH|apply ins_perm].
Qed.
Lemma ins_SS x l : StronglySorted N.le l -> StronglySorted N.le (ins x l).
Proof.
  induction l as [|y t IH]; intros H; cbn [ins]; [repeat constructor|].
  destruct (N.leb_spec x y) as [Hle|Hgt].
  - constructor; [assumption|]. apply SS_cons_inv in H as [_ Hy].
    constructor; [assumption|]. eapply Forall_impl; [|exact Hy]. intros a Ha; cbn beta in *; lia.
  - apply SS_cons_inv in H as [Ht Hy]. constructor; [apply IH; assumption|].
    apply Forall_forall. intros a Ha.
    apply (Permutation_in _ (Permutation_sym (ins_perm x t))) in Ha.
    destruct Ha as [<-|Ha]; [lia|]. rewrite Forall_forall in Hy. apply Hy; assumption.
Qed.
Lemma isort_SS l : StronglySorted N.le (isort l).
Proof. induction l as [|x t IH]; cbn [isort]; [constructor|apply ins_SS; exact IH]. Qed.
Lemma isort_sorted l : Sorted N.le (isort l).
Proof. apply Sorted_SS, isort_SS. Qed.

(* ---------- a sorted permutation is unique ---------- *)
Lemma SS_perm_unique (a b : list N) :
  StronglySorted N.le a -> StronglySorted N.le b -> Permutation a b -> a = b.
Proof.
  revert b. induction a as [|x a IH]; intros b Ha Hb Hp.
  - apply Permutation_nil in Hp. subst; reflexivity.
  - destruct b as [|y b]; [apply Permutation_sym, Permutation_nil in Hp; discriminate|].
    apply SS_cons_inv in Ha as [Ha Hx]. apply SS_cons_inv in Hb as [Hb Hy].
    rewrite Forall_forall in Hx, Hy.
    assert (Hxy : x = y).
    { assert (Hin1 : In x (y :: b)) by (eapply Permutation_in; [exact Hp|left; reflexivity]).
      assert (Hin2 : In y (x :: a)) by (eapply Permutation_in; [apply Permutation_sym; exact Hp|left; reflexivity]).
      destruct Hin1 as [->|Hin1]; [reflexivity|]. destruct Hin2 as [->|Hin2]; [reflexivity|].
      apply Hy in Hin1. apply Hx in Hin2. lia. }
    subst y. f_equal. apply IH; [assumption|assumption|].
    eapply Permutation_cons_inv; exact Hp.
Qed.
Lemma sorted_perm_unique (a b : list N) :
  Sorted N.le a -> Sorted N.le b -> Permutation a b -> a = b.
Proof. rewrite !Sorted_SS. apply SS_perm_unique. Qed.

Lemma eqb_ln_eq (a b : list N) : eqb_ln a b = true <-> a = b.
Proof.
  revert b. induction a as [|x a IH]; intros [|y b]; cbn [eqb_ln]; try (split; [discriminate|discriminate]).
  - split; reflexivity.
  - rewrite andb_true_iff, N.eqb_eq, IH. split; [intros [-> ->]; reflexivity|intros H; inversion H; auto].
Qed.

(* the checker decides exactly "out is sorted and a permutation of inp" *)
Lemma is_sorted_perm_spec_proof (inp out : list N) :
  is_sorted_perm inp out = true <-> Sorted N.le out /\ Permutation inp out.
Proof.
  unfold is_sorted_perm. rewrite andb_true_iff, sortedb_Sorted, eqb_ln_eq. split.
  - intros [Hs He]. split; [assumption|]. rewrite <- He. apply isort_perm.
  - intros [Hs Hp]. split; [assumption|].
    apply sorted_perm_unique; [apply isort_sorted|assumption|].
    eapply perm_trans; [apply Permutation_sym, isort_perm|exact Hp].
Qed.

(* any function producing a sorted permutation computes isort *)
Lemma sorted_perm_is_isort (inp out : list N) :
  Sorted N.le out -> Permutation inp out -> out = isort inp.
Proof.
  intros Hs Hp. symmetry. apply sorted_perm_unique; [apply isort_sorted|assumption|].
  eapply perm_trans; [apply Permutation_sym, isort_perm|exact Hp].
Qed.
