(* C11 extension: the counting pass of AdvancedRadixSort::lsd_radix_sort_sequential for an arbitrary element
   type (elements are moved, the digit comes from extract_key) computes the buckets in digit order,
   each in input order.  Same proof as ProofsScatter.v, generic in the element type. *)
From ZV.Common Require Import Base Run.
From Coq Require Import Sorting.Permutation.
From ZV.C11 Require Import Model ModelMsd ModelAdv ProofsScatter.
Open Scope nat_scope.

Lemma concat_slices_gen {A} (d0 : A) (Bs : list (list A)) : forall fb : list A,
  (forall i j, i < length Bs -> j < length (nth i Bs []) ->
     nth (list_sum (map (@length A) (firstn i Bs)) + j) fb d0 = nth j (nth i Bs []) d0) ->
  length fb = list_sum (map (@length A) Bs) ->
  fb = concat Bs.
Proof.
  induction Bs as [|B Bs IH]; intros fb Hs Hl.
  - unfold list_sum in *; cbn [map fold_right] in Hl. destruct fb; [reflexivity|discriminate].
  - unfold list_sum in *; cbn [map fold_right] in Hl. cbn [concat].
    rewrite <- (firstn_skipn (length B) fb). f_equal.
    + apply (nth_ext _ _ d0 d0).
      * rewrite firstn_length. lia.
      * intros j Hj. rewrite firstn_length in Hj.
        rewrite nth_firstn_lt by lia.
        specialize (Hs 0 j). unfold list_sum in *; cbn [firstn map fold_right nth length Nat.add] in Hs. apply Hs; lia.
    + apply IH.
      * intros i j Hi Hj. rewrite nth_skipn_add.
        specialize (Hs (S i) j). unfold list_sum in *; cbn [firstn map fold_right nth length] in Hs.
        rewrite <- Hs by lia. f_equal. lia.
      * rewrite skipn_length. lia.
Qed.

(* ---------- the pass ---------- *)
Section PassK.
Variable T : Type.
Variable key : T -> N.
Variable dflt : T.
Variables r shift : N.
Let dg := fun v : T => dnat r shift (key v).
Let R := N.to_nat (2 ^ r).
Definition cntk (d : nat) (data : list T) : nat := length (bucket_k T key r shift d data).

Lemma dgk_lt v : dg v < R.
Proof.
  unfold dg, R, dnat, digit. rewrite N.land_ones.
  assert (H : (N.shiftr (key v) shift mod 2 ^ r < 2 ^ r)%N).
  { apply N.mod_lt. apply N.pow_nonzero. discriminate. }
  lia.
Qed.

Lemma bucket_cons_k d v rest :
  bucket_k T key r shift d (v :: rest) = if Nat.eqb (dg v) d then v :: bucket_k T key r shift d rest else bucket_k T key r shift d rest.
Proof. reflexivity. Qed.
Lemma cntk_cons_k d v rest :
  cntk d (v :: rest) = if Nat.eqb (dg v) d then S (cntk d rest) else cntk d rest.
Proof. unfold cntk. rewrite bucket_cons_k. destruct (Nat.eqb (dg v) d); reflexivity. Qed.

(* the buckets are a permutation of the data *)
Lemma insert_bucket_k (v : T) (rest : list T) (ds : list nat) : forall l0,
  NoDup ds -> In (dg v) ds ->
  Permutation l0 (flat_map (fun d => bucket_k T key r shift d rest) ds) ->
  Permutation (v :: l0) (flat_map (fun d => bucket_k T key r shift d (v :: rest)) ds).
Proof.
  induction ds as [|d ds IHd]; intros l0 Hnd Hv Hp; [destruct Hv|].
  cbn [flat_map] in *. rewrite bucket_cons_k. inversion Hnd as [|? ? Hnotin Hnd']; subst.
  destruct (Nat.eqb_spec (dg v) d) as [E|NE].
  - (* v heads its bucket; the other buckets are unchanged *)
    cbn [app]. apply perm_skip.
    assert (Hsame : flat_map (fun d0 => bucket_k T key r shift d0 (v :: rest)) ds
                  = flat_map (fun d0 => bucket_k T key r shift d0 rest) ds).
    { apply flat_map_ext_in'. intros d0 Hd0. rewrite bucket_cons_k.
      destruct (Nat.eqb_spec (dg v) d0) as [E2|]; [|reflexivity].
      exfalso. apply Hnotin. rewrite <- E, E2. exact Hd0. }
    rewrite Hsame. exact Hp.
  - destruct Hv as [Hv|Hv]; [exfalso; apply NE; symmetry; exact Hv|].
    (* move v across bucket d *)
    eapply perm_trans; [apply perm_skip; exact Hp|].
    eapply perm_trans; [apply Permutation_middle|].
    apply Permutation_app_head. apply IHd; [exact Hnd'|exact Hv|reflexivity].
Qed.

Lemma buckets_perm_k_gen_k (ds : list nat) (data : list T) :
  NoDup ds -> (forall v, In v data -> In (dg v) ds) ->
  Permutation data (flat_map (fun d => bucket_k T key r shift d data) ds).
Proof.
  intros Hnd. induction data as [|v rest IH]; intros Hin.
  - clear. induction ds as [|d ds IHd]; cbn [flat_map]; [constructor|exact IHd].
  - apply insert_bucket_k; [exact Hnd|apply Hin; left; reflexivity|].
    apply IH. intros w Hw. apply Hin. right; assumption.
Qed.


Lemma buckets_perm_k (data : list T) : Permutation data (lsd_pass_spec_k T key r shift data).
Proof.
  unfold lsd_pass_spec. apply buckets_perm_k_gen_k; [apply seq_NoDup|].
  intros v _. apply in_seq. pose proof (dgk_lt v). fold R. lia.
Qed.

(* counts *)
Lemma count_step_nth_k (data : list T) : forall cnt0 d,
  length cnt0 = R -> d < R ->
  nth d (fold_left (fun cnt v => let d := dnat r shift (key v) in upd cnt d (S (nth d cnt 0))) data cnt0) 0
  = nth d cnt0 0 + cntk d data.
Proof.
  induction data as [|v rest IH]; intros cnt0 d Hl Hd; cbn [fold_left].
  - unfold cntk; cbn. lia.
  - rewrite IH; [|rewrite upd_length; exact Hl|exact Hd].
    rewrite cntk_cons_k. change (dnat r shift (key v)) with (dg v). pose proof (dgk_lt v) as Hv.
    destruct (Nat.eqb_spec (dg v) d) as [E|NE].
    + subst d. rewrite nth_upd_same by lia. lia.
    + rewrite nth_upd_other by (intro; apply NE; auto). lia.
Qed.
Lemma count_step_length_k (data : list T) : forall cnt0,
  length (fold_left (fun cnt v => let d := dnat r shift (key v) in upd cnt d (S (nth d cnt 0))) data cnt0) = length cnt0.
Proof. induction data as [|v rest IH]; intros cnt0; cbn [fold_left]; [reflexivity|]. rewrite IH, upd_length. reflexivity. Qed.

Lemma count_digits_eq_k (data : list T) :
  count_digits_k T key r shift data = map (fun d => cntk d data) (seq 0 R).
Proof.
  apply (nth_ext _ _ 0 0).
  - unfold count_digits_k. rewrite count_step_length_k, repeat_length, map_length, seq_length. reflexivity.
  - intros d Hd. unfold count_digits_k in *. rewrite count_step_length_k, repeat_length in Hd. fold R in Hd.
    rewrite count_step_nth_k; [|apply repeat_length|exact Hd].
    rewrite nth_repeat.
    rewrite (nth_indep _ 0 (cntk 0 data)) by (rewrite map_length, seq_length; exact Hd).
    rewrite (map_nth (fun d => cntk d data)). rewrite seq_nth by exact Hd. reflexivity.
Qed.

(* the scatter loop *)
Lemma scatter_inv_k (data : list T) : forall pos buf,
  length pos = R ->
  (forall d1 d2, d1 < R -> d2 < R -> d1 <> d2 ->
     nth d1 pos 0 + cntk d1 data <= nth d2 pos 0 \/ nth d2 pos 0 + cntk d2 data <= nth d1 pos 0) ->
  (forall d, d < R -> nth d pos 0 + cntk d data <= length buf) ->
  length (scatter_k T key r shift data pos buf) = length buf /\
  (forall d j, d < R -> j < cntk d data ->
     nth (nth d pos 0 + j) (scatter_k T key r shift data pos buf) dflt = nth j (bucket_k T key r shift d data) dflt) /\
  (forall k, (forall d, d < R -> ~ (nth d pos 0 <= k < nth d pos 0 + cntk d data)) ->
     nth k (scatter_k T key r shift data pos buf) dflt = nth k buf dflt).
Proof.
  induction data as [|v rest IH]; intros pos buf Hlen HD HB.
  - cbn [scatter]. split; [reflexivity|]. split; [|reflexivity].
    intros d j _ Hj. unfold cntk in Hj; cbn in Hj. lia.
  - cbn [scatter_k]. change (dnat r shift (key v)) with (dg v). set (d0 := dg v). set (p := nth d0 pos 0).
    pose proof (dgk_lt v) as Hd0. fold d0 in Hd0.
    assert (Hc0 : cntk d0 (v :: rest) = S (cntk d0 rest)).
    { rewrite cntk_cons_k. fold d0. rewrite Nat.eqb_refl. reflexivity. }
    assert (Hco : forall d, d <> d0 -> cntk d (v :: rest) = cntk d rest).
    { intros d Hd. rewrite cntk_cons_k. fold d0. destruct (Nat.eqb_spec d0 d); [exfalso; auto|reflexivity]. }
    assert (Hp0 : nth d0 (upd pos d0 (S p)) 0 = S p) by (apply nth_upd_same; lia).
    assert (Hpo : forall d, d <> d0 -> nth d (upd pos d0 (S p)) 0 = nth d pos 0).
    { intros d Hd. apply nth_upd_other. exact Hd. }
    assert (Hpb : p < length buf).
    { specialize (HB d0 Hd0). rewrite Hc0 in HB. fold p in HB. lia. }
    destruct (IH (upd pos d0 (S p)) (upd buf p v)) as (L & S1 & O1).
    + rewrite upd_length; exact Hlen.
    + intros d1 d2 H1 H2 Hne.
      specialize (HD d1 d2 H1 H2 Hne).
      destruct (Nat.eq_dec d1 d0) as [E1|N1]; destruct (Nat.eq_dec d2 d0) as [E2|N2]; subst.
      * exfalso; auto.
      * rewrite Hp0, (Hpo d2 N2). rewrite Hc0, (Hco d2 N2) in HD. fold p in HD. lia.
      * rewrite Hp0, (Hpo d1 N1). rewrite Hc0, (Hco d1 N1) in HD. fold p in HD. lia.
      * rewrite (Hpo d1 N1), (Hpo d2 N2). rewrite (Hco d1 N1), (Hco d2 N2) in HD. exact HD.
    + intros d Hd. rewrite upd_length. specialize (HB d Hd).
      destruct (Nat.eq_dec d d0) as [E|NE]; subst.
      * rewrite Hp0. rewrite Hc0 in HB. fold p in HB. lia.
      * rewrite (Hpo d NE). rewrite (Hco d NE) in HB. exact HB.
    + split; [rewrite L, upd_length; reflexivity|]. split.
      * intros d j Hd Hj. destruct (Nat.eq_dec d d0) as [E|NE].
        -- subst d. fold p. rewrite Hc0 in Hj. rewrite bucket_cons_k. fold d0. rewrite Nat.eqb_refl.
           destruct j as [|j].
           ++ rewrite Nat.add_0_r. cbn [nth]. rewrite O1.
              ** apply nth_upd_same. exact Hpb.
              ** intros d Hd' [Hlo Hhi]. destruct (Nat.eq_dec d d0) as [E|NE].
                 --- subst d. rewrite Hp0 in Hlo. lia.
                 --- rewrite (Hpo d NE) in Hlo, Hhi.
                     specialize (HD d0 d Hd0 Hd' (fun e => NE (eq_sym e))).
                     rewrite Hc0, (Hco d NE) in HD. fold p in HD. lia.
           ++ cbn [nth]. replace (p + S j) with (nth d0 (upd pos d0 (S p)) 0 + j) by (rewrite Hp0; lia).
              apply S1; [exact Hd0|lia].
        -- rewrite bucket_cons_k. fold d0. destruct (Nat.eqb_spec d0 d) as [E|_]; [exfalso; auto|].
           rewrite <- (Hpo d NE). apply S1; [exact Hd|]. rewrite <- (Hco d NE). exact Hj.
      * intros k Hk. rewrite O1.
        -- apply nth_upd_other. intros E. subst k. apply (Hk d0 Hd0). fold p. rewrite Hc0. lia.
        -- intros d Hd [Hlo Hhi]. apply (Hk d Hd).
           destruct (Nat.eq_dec d d0) as [E|NE]; subst.
           ++ rewrite Hp0 in Hlo, Hhi. fold p. rewrite Hc0. lia.
           ++ rewrite (Hpo d NE) in Hlo, Hhi. rewrite (Hco d NE). lia.
Qed.

(* counts, prefix sums and scatter together compute the buckets in order *)
Lemma pass_core_k (data : list T) :
  scatter_k T key r shift data (prefix_sums 0 (count_digits_k T key r shift data)) (repeat dflt (length data))
  = lsd_pass_spec_k T key r shift data.
Proof.
  unfold lsd_pass_spec_k. fold R.
  set (cnt := count_digits_k T key r shift data).
  assert (Hcnt : cnt = map (fun d => cntk d data) (seq 0 R)) by apply count_digits_eq_k.
  assert (Hcl : length cnt = R) by (rewrite Hcnt, map_length, seq_length; reflexivity).
  assert (Hcn : forall d, d < R -> nth d cnt 0 = cntk d data).
  { intros d Hd. rewrite Hcnt.
    rewrite (nth_indep _ 0 (cntk 0 data)) by (rewrite map_length, seq_length; exact Hd).
    rewrite (map_nth (fun d => cntk d data)), seq_nth by exact Hd. reflexivity. }
  assert (Hst : forall d, d < R -> nth d (prefix_sums 0 cnt) 0 = list_sum (firstn d cnt)).
  { intros d Hd. rewrite prefix_sums_nth by lia. reflexivity. }
  assert (Htot : list_sum cnt = length data).
  { rewrite (Permutation_length (buckets_perm_k data)). unfold lsd_pass_spec_k. fold R.
    rewrite flat_map_length_sum, Hcnt. reflexivity. }
  destruct (scatter_inv_k data (prefix_sums 0 cnt) (repeat dflt (length data))) as (L & S1 & _).
  - rewrite prefix_sums_length. exact Hcl.
  - intros d1 d2 H1 H2 Hne. rewrite !Hst by assumption. rewrite <- !Hcn by assumption.
    rewrite <- !sum_firstn_S.
    destruct (Nat.lt_ge_cases d1 d2) as [Hlt|Hge].
    + left. apply sum_firstn_mono. lia.
    + right. apply sum_firstn_mono. lia.
  - intros d Hd. rewrite Hst by assumption. rewrite <- Hcn by assumption.
    rewrite <- sum_firstn_S, repeat_length, <- Htot. apply sum_firstn_all.
  - rewrite flat_map_concat_map. apply (concat_slices_gen dflt).
    + intros i j Hi Hj. rewrite map_length, seq_length in Hi.
      assert (Hnth : nth i (map (fun d => bucket_k T key r shift d data) (seq 0 R)) [] = bucket_k T key r shift i data).
      { rewrite (nth_indep _ [] (bucket_k T key r shift 0 data)) by (rewrite map_length, seq_length; exact Hi).
        rewrite (map_nth (fun d => bucket_k T key r shift d data)), seq_nth by exact Hi. reflexivity. }
      rewrite Hnth in *.
      rewrite <- firstn_map, map_map.
      change (map (fun x => length (bucket_k T key r shift x data)) (seq 0 R)) with (map (fun d => cntk d data) (seq 0 R)).
      rewrite <- Hcnt, <- Hst by exact Hi.
      apply S1; [exact Hi|exact Hj].
    + rewrite L, repeat_length, map_map.
      change (map (fun x => length (bucket_k T key r shift x data)) (seq 0 R)) with (map (fun d => cntk d data) (seq 0 R)).
      rewrite <- Hcnt. symmetry. exact Htot.
Qed.
End PassK.

Lemma lsd_pass_eq_spec_k T key r shift (data : list T) :
  lsd_pass_k T key r shift data = lsd_pass_spec_k T key r shift data.
Proof.
  destruct data as [|x0 rest].
  - unfold lsd_pass_k, lsd_pass_spec_k. generalize (seq 0 (N.to_nat (2 ^ r))) as l.
    induction l as [|d l IH]; cbn [flat_map]; [reflexivity|]. rewrite <- IH. reflexivity.
  - unfold lsd_pass_k. apply pass_core_k.
Qed.
