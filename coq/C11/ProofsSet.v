(* C11: the two-pointer set algorithms of set_ops.rs compute the filter / multiset definitions. *)
From ZV.Common Require Import Base Run.
From Coq Require Import Sorting.Sorted Sorting.Permutation.
From ZV.C11 Require Import Model ProofsSpec.
Open Scope N_scope.

(* ---------- unfolding ---------- *)
Lemma ms_inter_cons x a y b :
  ms_inter (x :: a) (y :: b) =
  match x ?= y with Lt => ms_inter a (y :: b) | Gt => ms_inter (x :: a) b | Eq => x :: ms_inter a (y :: b) end.
Proof. reflexivity. Qed.
Lemma ms_inter_nil_l b : ms_inter [] b = [].
Proof. destruct b; reflexivity. Qed.
Lemma ms_inter_nil_r a : ms_inter a [] = [].
Proof. destruct a; reflexivity. Qed.

Lemma ms_inter2_cons x a y b :
  ms_inter2 (x :: a) (y :: b) =
  match x ?= y with Lt => ms_inter2 a (y :: b) | Gt => ms_inter2 (x :: a) b | Eq => y :: ms_inter2 (x :: a) b end.
Proof. reflexivity. Qed.
Lemma ms_inter2_nil_l b : ms_inter2 [] b = [].
Proof. destruct b; reflexivity. Qed.
Lemma ms_inter2_nil_r a : ms_inter2 a [] = [].
Proof. destruct a; reflexivity. Qed.

Lemma ms_union_cons x a y b :
  ms_union (x :: a) (y :: b) =
  match x ?= y with Lt => x :: ms_union a (y :: b) | Gt => y :: ms_union (x :: a) b | Eq => x :: y :: ms_union a b end.
Proof. reflexivity. Qed.
Lemma ms_union_nil_l b : ms_union [] b = b.
Proof. destruct b; reflexivity. Qed.
Lemma ms_union_nil_r a : ms_union a [] = a.
Proof. destruct a; reflexivity. Qed.

Lemma ms_diff_cons x a y b :
  ms_diff (x :: a) (y :: b) =
  match x ?= y with Lt => x :: ms_diff a (y :: b) | Gt => ms_diff (x :: a) b | Eq => ms_diff a b end.
Proof. reflexivity. Qed.
Lemma ms_diff_nil_l b : ms_diff [] b = [].
Proof. destruct b; reflexivity. Qed.
Lemma ms_diff_nil_r a : ms_diff a [] = a.
Proof. destruct a; reflexivity. Qed.

(* ---------- membership / counting on sorted lists ---------- *)
Lemma memb_In x l : memb x l = true <-> In x l.
Proof.
  induction l as [|y t IH]; cbn [memb In]; [split; [discriminate|intros []]|].
  rewrite orb_true_iff, N.eqb_eq, IH. split; intros [H|H]; auto.
Qed.
Lemma memb_below x l : Forall (N.lt x) l -> memb x l = false.
Proof.
  induction 1 as [|y t Hy _ IH]; cbn [memb]; [reflexivity|].
  rewrite IH. destruct (N.eqb_spec x y); [lia|reflexivity].
Qed.
Lemma countb_below x l : Forall (N.lt x) l -> countb x l = O.
Proof.
  induction 1 as [|y t Hy _ IH]; cbn [countb]; [reflexivity|].
  destruct (N.eqb_spec x y); [lia|exact IH].
Qed.
Lemma countb_cons_eq x l : countb x (x :: l) = S (countb x l).
Proof. cbn [countb]. rewrite N.eqb_refl. reflexivity. Qed.
Lemma countb_cons_ne z x l : z <> x -> countb z (x :: l) = countb z l.
Proof. intros H. cbn [countb]. destruct (N.eqb_spec z x); [exfalso; auto|reflexivity]. Qed.
Lemma Forall_lt_of_le x y l : x < y -> Forall (N.le y) l -> Forall (N.lt x) l.
Proof. intros Hxy H. eapply Forall_impl; [|exact H]. intros z Hz; cbn beta in *; lia. Qed.

(* ---------- intersection (copy from the first sequence) = filter by membership ---------- *)
Lemma ms_inter_filter_proof (a : list N) : forall b,
  Sorted N.le a -> Sorted N.le b -> ms_inter a b = filter (fun x => memb x b) a.
Proof.
  intros b Ha Hb. apply Sorted_SS in Ha. apply Sorted_SS in Hb. revert b Hb.
  induction a as [|x a IH1]; intros b Hb; [apply ms_inter_nil_l|].
  apply SS_cons_inv in Ha as [Ha Hx]. specialize (IH1 Ha).
  induction b as [|y b IH2].
  - rewrite ms_inter_nil_r. clear. induction (x :: a) as [|z l IH]; [reflexivity|exact IH].
  - pose proof (SS_cons_inv _ _ Hb) as [Hb' Hy]. rewrite ms_inter_cons.
    destruct (N.compare_spec x y) as [E|Hlt|Hgt].
    + subst y. cbn [filter memb]. rewrite N.eqb_refl. cbn [orb]. f_equal. apply IH1. exact Hb.
    + cbn [filter]. rewrite memb_below.
      * apply IH1. exact Hb.
      * constructor; [exact Hlt|]. eapply Forall_lt_of_le; eassumption.
    + rewrite IH2 by exact Hb'. apply filter_ext_in. intros z Hz. cbn [memb].
      assert (Hzx : x <= z).
      { destruct Hz as [<-|Hz]; [lia|]. rewrite Forall_forall in Hx. apply Hx; exact Hz. }
      destruct (N.eqb_spec z y); [lia|reflexivity].
Qed.

(* intersection2 (copy from the second sequence) = filter of the second by membership in the first *)
Lemma ms_inter2_filter_proof (a : list N) : forall b,
  Sorted N.le a -> Sorted N.le b -> ms_inter2 a b = filter (fun y => memb y a) b.
Proof.
  intros b Ha Hb. apply Sorted_SS in Ha. apply Sorted_SS in Hb. revert b Hb.
  induction a as [|x a IH1]; intros b Hb.
  - rewrite ms_inter2_nil_l. clear. induction b as [|z l IH]; [reflexivity|exact IH].
  - pose proof (SS_cons_inv _ _ Ha) as [Ha' Hx]. specialize (IH1 Ha').
    induction b as [|y b IH2]; [apply ms_inter2_nil_r|].
    pose proof (SS_cons_inv _ _ Hb) as [Hb' Hy]. rewrite ms_inter2_cons.
    destruct (N.compare_spec x y) as [E|Hlt|Hgt].
    + subst y. cbn [filter memb]. rewrite N.eqb_refl. cbn [orb]. f_equal. apply IH2. exact Hb'.
    + rewrite IH1 by exact Hb. apply filter_ext_in. intros z Hz. cbn [memb].
      assert (Hzy : y <= z).
      { destruct Hz as [<-|Hz]; [lia|]. rewrite Forall_forall in Hy. apply Hy; exact Hz. }
      destruct (N.eqb_spec z x); [lia|reflexivity].
    + cbn [filter]. rewrite memb_below.
      * apply IH2. exact Hb'.
      * constructor; [exact Hgt|]. eapply Forall_lt_of_le; eassumption.
Qed.

(* ---------- union = sorted multiset union ---------- *)
Lemma ms_union_perm (a : list N) : forall b, Permutation (a ++ b) (ms_union a b).
Proof.
  induction a as [|x a IH1]; intros b; [rewrite ms_union_nil_l; reflexivity|].
  induction b as [|y b IH2]; [rewrite ms_union_nil_r, app_nil_r; reflexivity|].
  rewrite ms_union_cons. destruct (x ?= y).
  - cbn [app]. apply perm_skip. eapply perm_trans; [apply Permutation_sym, Permutation_middle|].
    apply perm_skip. apply IH1.
  - cbn [app]. apply perm_skip. apply IH1.
  - eapply perm_trans; [apply Permutation_sym, Permutation_middle|]. apply perm_skip. exact IH2.
Qed.
Lemma ms_union_SS (a : list N) : forall b,
  StronglySorted N.le a -> StronglySorted N.le b -> StronglySorted N.le (ms_union a b).
Proof.
  induction a as [|x a IH1]; intros b Ha Hb; [rewrite ms_union_nil_l; exact Hb|].
  induction b as [|y b IH2]; [rewrite ms_union_nil_r; exact Ha|].
  rewrite ms_union_cons.
  pose proof (SS_cons_inv _ _ Ha) as [Ha' Hx]. pose proof (SS_cons_inv _ _ Hb) as [Hb' Hy].
  rewrite Forall_forall in Hx, Hy.
  destruct (N.compare_spec x y) as [E|Hlt|Hgt].
  - subst y. assert (Hall : Forall (N.le x) (ms_union a b)).
    { apply Forall_forall. intros z Hz.
      apply (Permutation_in _ (Permutation_sym (ms_union_perm a b))) in Hz.
      apply in_app_or in Hz as [Hz|Hz]; [apply Hx|apply Hy]; exact Hz. }
    constructor; [constructor; [apply IH1; assumption|exact Hall]|].
    constructor; [lia|exact Hall].
  - constructor; [apply IH1; assumption|].
    apply Forall_forall. intros z Hz.
    apply (Permutation_in _ (Permutation_sym (ms_union_perm a (y :: b)))) in Hz.
    apply in_app_or in Hz as [Hz|[<-|Hz]]; [apply Hx; exact Hz|lia|specialize (Hy z Hz); lia].
  - constructor; [apply IH2; assumption|].
    apply Forall_forall. intros z Hz.
    apply (Permutation_in _ (Permutation_sym (ms_union_perm (x :: a) b))) in Hz.
    apply in_app_or in Hz as [[<-|Hz]|Hz]; [lia|specialize (Hx z Hz); lia|apply Hy; exact Hz].
Qed.
Lemma ms_union_spec_proof (a b : list N) :
  Sorted N.le a -> Sorted N.le b ->
  Sorted N.le (ms_union a b) /\ Permutation (a ++ b) (ms_union a b).
Proof. rewrite !Sorted_SS. intros Ha Hb. split; [apply ms_union_SS; assumption|apply ms_union_perm]. Qed.

(* ---------- difference: multiplicities subtract ---------- *)
Lemma ms_diff_incl (a : list N) : forall b z, In z (ms_diff a b) -> In z a.
Proof.
  induction a as [|x a IH1]; intros b z; [rewrite ms_diff_nil_l; intros []|].
  induction b as [|y b IH2]; [rewrite ms_diff_nil_r; auto|].
  rewrite ms_diff_cons. destruct (x ?= y).
  - intros H. right. eapply IH1; exact H.
  - intros [<-|H]; [left; reflexivity|right; eapply IH1; exact H].
  - exact IH2.
Qed.
Lemma ms_diff_spec_proof (a : list N) : forall b,
  Sorted N.le a -> Sorted N.le b ->
  Sorted N.le (ms_diff a b) /\ forall z, countb z (ms_diff a b) = (countb z a - countb z b)%nat.
Proof.
  intros b Ha Hb. apply Sorted_SS in Ha. apply Sorted_SS in Hb. rewrite Sorted_SS. revert b Hb.
  induction a as [|x a IH1]; intros b Hb.
  - rewrite ms_diff_nil_l. split; [constructor|reflexivity].
  - pose proof (SS_cons_inv _ _ Ha) as [Ha' Hx]. specialize (IH1 Ha').
    induction b as [|y b IH2].
    + rewrite ms_diff_nil_r. split; [exact Ha|]. intros z. cbn [countb]. lia.
    + pose proof (SS_cons_inv _ _ Hb) as [Hb' Hy]. rewrite ms_diff_cons.
      destruct (N.compare_spec x y) as [E|Hlt|Hgt].
      * subst y. destruct (IH1 b Hb') as [S1 C1]. split; [exact S1|].
        intros z. rewrite C1. destruct (N.eqb_spec z x) as [->|NE].
        -- rewrite !countb_cons_eq. rewrite Nat.sub_succ. reflexivity.
        -- rewrite !countb_cons_ne by exact NE. reflexivity.
      * destruct (IH1 (y :: b) Hb) as [S1 C1]. split.
        -- constructor; [exact S1|]. apply Forall_forall. intros z Hz.
           apply ms_diff_incl in Hz. rewrite Forall_forall in Hx. apply Hx; exact Hz.
        -- intros z. destruct (N.eqb_spec z x) as [->|NE].
           ++ rewrite !countb_cons_eq, C1. rewrite (countb_below x (y :: b)); [lia|].
              constructor; [exact Hlt|]. eapply Forall_lt_of_le; eassumption.
           ++ rewrite (countb_cons_ne z x (ms_diff a (y :: b))) by exact NE.
              rewrite (countb_cons_ne z x a) by exact NE. apply C1.
      * destruct (IH2 Hb') as [S2 C2]. split; [exact S2|].
        intros z. rewrite C2. destruct (N.eqb_spec z y) as [->|NE].
        -- rewrite countb_cons_eq. rewrite (countb_cons_ne y x a) by lia.
           rewrite (countb_below y a); [lia|]. eapply Forall_lt_of_le; eassumption.
        -- rewrite (countb_cons_ne z y b) by exact NE. reflexivity.
Qed.

(* ---------- set_unique on a sorted sequence: strictly increasing, same members ---------- *)
Lemma uniq_from_spec (l : list N) : forall last,
  StronglySorted N.le l -> Forall (N.le last) l ->
  StronglySorted N.lt (uniq_from last l) /\ Forall (N.lt last) (uniq_from last l) /\
  (forall z, In z (uniq_from last l) \/ z = last <-> In z l \/ z = last).
Proof.
  induction l as [|x t IH]; intros last Hs Hl; cbn [uniq_from].
  - split; [constructor|]. split; [constructor|]. intros z; tauto.
  - apply SS_cons_inv in Hs as [Hs Hx]. inversion Hl as [|? ? Hlx Hlt]; subst.
    destruct (N.eqb_spec last x) as [E|NE].
    + subst x. destruct (IH last Hs Hlt) as (A & B & C). split; [exact A|]. split; [exact B|].
      intros z. rewrite C. cbn [In]. split; intros [H|H]; auto. destruct H; auto.
    + destruct (IH x Hs Hx) as (A & B & C). split; [constructor; assumption|]. split.
      * constructor; [lia|]. eapply Forall_impl; [|exact B]. intros z Hz; cbn beta in *; lia.
      * intros z. cbn [In]. specialize (C z). split; intros H.
        -- destruct H as [[H|H]|H]; auto. destruct (proj1 C (or_introl H)) as [H'|H']; auto.
        -- destruct H as [[H|H]|H]; auto. destruct (proj2 C (or_introl H)) as [H'|H']; auto.
Qed.
Lemma set_unique_spec_proof (l : list N) :
  Sorted N.le l ->
  StronglySorted N.lt (set_unique l) /\ (forall z, In z (set_unique l) <-> In z l).
Proof.
  rewrite Sorted_SS. intros Hs. destruct l as [|x t]; cbn [set_unique]; [split; [constructor|tauto]|].
  apply SS_cons_inv in Hs as [Hs Hx]. destruct (uniq_from_spec t x Hs Hx) as (A & B & C).
  split; [constructor; assumption|]. intros z. cbn [In]. specialize (C z).
  split; intros [H|H]; auto.
  - destruct (proj1 C (or_introl H)) as [H'|H']; auto.
  - destruct (proj2 C (or_introl H)) as [H'|H']; auto.
Qed.
