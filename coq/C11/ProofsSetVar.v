(* C11 extension: the binary-search ("1small") and adaptive ("fast") variants of the multiset
   intersections of src/algorithms/set_ops.rs compute exactly what the two-pointer functions
   compute, for all sorted inputs (duplicates allowed on both sides). *)
From ZV.Common Require Import Base Run.
From Coq Require Import Sorting.Sorted Sorting.Permutation.
From ZV.C11 Require Import Model ProofsSpec ProofsScatter ProofsSet.
Open Scope N_scope.

(* ---------- sorted lists by index ---------- *)
Lemma SS_nth_mono (l : list N) : StronglySorted N.le l ->
  forall i j, (i <= j)%nat -> (j < length l)%nat -> nth i l 0 <= nth j l 0.
Proof.
  induction 1 as [|x l Hs IH Hx]; intros i j Hij Hj; [cbn [length] in Hj; lia|].
  destruct i as [|i], j as [|j]; cbn [nth length] in *; try lia.
  - rewrite Forall_forall in Hx. apply Hx. apply nth_In. lia.
  - apply IH; lia.
Qed.

Lemma Forall_firstn_idx (P : N -> Prop) (l : list N) p :
  (forall i, (i < p)%nat -> (i < length l)%nat -> P (nth i l 0)) -> Forall P (firstn p l).
Proof.
  intros H. apply Forall_forall. intros z Hz. apply (In_nth _ _ 0) in Hz as (i & Hi & <-).
  rewrite firstn_length in Hi. rewrite nth_firstn_lt by lia. apply H; lia.
Qed.
Lemma Forall_skipn_idx (P : N -> Prop) (l : list N) p :
  (forall i, (p <= i)%nat -> (i < length l)%nat -> P (nth i l 0)) -> Forall P (skipn p l).
Proof.
  intros H. apply Forall_forall. intros z Hz. apply (In_nth _ _ 0) in Hz as (i & Hi & <-).
  rewrite skipn_length in Hi. rewrite nth_skipn_add. apply H; lia.
Qed.

Lemma skipn_add {A} (l : list A) : forall a b, skipn a (skipn b l) = skipn (b + a) l.
Proof.
  induction l as [|x l IH]; intros a b.
  - rewrite !skipn_nil. reflexivity.
  - destruct b as [|b]; [reflexivity|]. cbn [skipn Nat.add]. apply IH.
Qed.

(* ---------- lower_bound / upper_bound ---------- *)
Lemma lower_bound_go_spec (data : list N) v : StronglySorted N.le data ->
  forall fuel left right,
    (left <= right)%nat -> (right <= length data)%nat -> (right - left < fuel)%nat ->
    (forall i, (i < left)%nat -> nth i data 0 < v) ->
    (forall i, (right <= i)%nat -> (i < length data)%nat -> v <= nth i data 0) ->
    let p := lower_bound_go fuel data v left right in
    (p <= length data)%nat /\
    (forall i, (i < p)%nat -> nth i data 0 < v) /\
    (forall i, (p <= i)%nat -> (i < length data)%nat -> v <= nth i data 0).
Proof.
  intros Hs. induction fuel as [|f IH]; intros left right Hlr Hr Hf Hlo Hhi; [lia|].
  cbn [lower_bound_go]. destruct (Nat.ltb_spec left right) as [Hlt|Hge].
  - set (mid := (left + (right - left) / 2)%nat).
    assert (Hmid : (left <= mid < right)%nat).
    { unfold mid. pose proof (Nat.div_lt_upper_bound (right - left) 2 (right - left)). lia. }
    destruct (N.ltb_spec (nth mid data 0) v) as [Hm|Hm].
    + apply IH; [lia|lia|lia| |exact Hhi].
      intros i Hi. eapply N.le_lt_trans; [|exact Hm]. apply SS_nth_mono; [exact Hs|lia|lia].
    + apply IH; [lia|lia|lia|exact Hlo|].
      intros i Hi Hil. eapply N.le_trans; [exact Hm|]. apply SS_nth_mono; [exact Hs|lia|lia].
  - cbn zeta. split; [lia|]. split; [exact Hlo|]. intros i Hi. apply Hhi. lia.
Qed.

Lemma upper_bound_go_spec (data : list N) v : StronglySorted N.le data ->
  forall fuel left right,
    (left <= right)%nat -> (right <= length data)%nat -> (right - left < fuel)%nat ->
    (forall i, (i < left)%nat -> nth i data 0 <= v) ->
    (forall i, (right <= i)%nat -> (i < length data)%nat -> v < nth i data 0) ->
    let p := upper_bound_go fuel data v left right in
    (p <= length data)%nat /\
    (forall i, (i < p)%nat -> nth i data 0 <= v) /\
    (forall i, (p <= i)%nat -> (i < length data)%nat -> v < nth i data 0).
Proof.
  intros Hs. induction fuel as [|f IH]; intros left right Hlr Hr Hf Hlo Hhi; [lia|].
  cbn [upper_bound_go]. destruct (Nat.ltb_spec left right) as [Hlt|Hge].
  - set (mid := (left + (right - left) / 2)%nat).
    assert (Hmid : (left <= mid < right)%nat).
    { unfold mid. pose proof (Nat.div_lt_upper_bound (right - left) 2 (right - left)). lia. }
    destruct (N.ltb_spec v (nth mid data 0)) as [Hm|Hm].
    + apply IH; [lia|lia|lia|exact Hlo|].
      intros i Hi Hil. eapply N.lt_le_trans; [exact Hm|]. apply SS_nth_mono; [exact Hs|lia|lia].
    + apply IH; [lia|lia|lia| |exact Hhi].
      intros i Hi. eapply N.le_trans; [|exact Hm]. apply SS_nth_mono; [exact Hs|lia|lia].
  - cbn zeta. split; [lia|]. split; [exact Hlo|]. intros i Hi. apply Hhi. lia.
Qed.

(* the equal range of x splits a sorted list into  < x,  = x,  > x *)
Lemma equal_range_split (b : list N) x : StronglySorted N.le b ->
  let lo := lower_bound b x in
  let hi := upper_bound b x in
  (lo <= hi)%nat /\ (hi <= length b)%nat /\
  Forall (fun y => y < x) (firstn lo b) /\
  Forall (fun y => y = x) (firstn (hi - lo) (skipn lo b)) /\
  Forall (fun y => x < y) (skipn hi b) /\
  b = firstn lo b ++ firstn (hi - lo) (skipn lo b) ++ skipn hi b.
Proof.
  intros Hs. cbn zeta. unfold lower_bound, upper_bound.
  destruct (lower_bound_go_spec b x Hs (S (length b)) O (length b)) as (L1 & L2 & L3); try lia.
  destruct (upper_bound_go_spec b x Hs (S (length b)) O (length b)) as (U1 & U2 & U3); try lia.
  set (lo := lower_bound_go (S (length b)) b x 0 (length b)) in *.
  set (hi := upper_bound_go (S (length b)) b x 0 (length b)) in *.
  assert (Hlh : (lo <= hi)%nat).
  { destruct (Nat.le_gt_cases lo hi) as [H|H]; [exact H|]. exfalso.
    specialize (L2 hi H). specialize (U3 hi (Nat.le_refl _)). lia. }
  split; [exact Hlh|]. split; [exact U1|]. split; [|split; [|split]].
  - apply Forall_firstn_idx. intros i Hi _. apply L2. exact Hi.
  - apply Forall_firstn_idx. intros i Hi Hil. rewrite skipn_length in Hil. rewrite nth_skipn_add.
    specialize (L3 (lo + i)%nat). specialize (U2 (lo + i)%nat). lia.
  - apply Forall_skipn_idx. intros i Hi Hil. apply U3; assumption.
  - rewrite <- (firstn_skipn lo b) at 1. f_equal.
    rewrite <- (firstn_skipn (hi - lo) (skipn lo b)) at 1. f_equal.
    rewrite skipn_add. f_equal. lia.
Qed.

Lemma memb_app z l1 l2 : memb z (l1 ++ l2) = memb z l1 || memb z l2.
Proof. induction l1 as [|y l1 IH]; cbn [app memb]; [reflexivity|]. rewrite IH. apply orb_assoc. Qed.
Lemma memb_above z l : Forall (fun y => y < z) l -> memb z l = false.
Proof.
  induction 1 as [|y t Hy _ IH]; cbn [memb]; [reflexivity|].
  rewrite IH. destruct (N.eqb_spec z y); [lia|reflexivity].
Qed.
Lemma memb_all_eq x l : Forall (fun y => y = x) l -> l <> [] -> memb x l = true.
Proof. intros H Hne. destruct l as [|y l]; [congruence|]. inversion H; subst. cbn [memb]. rewrite N.eqb_refl. reflexivity. Qed.
Lemma memb_ne_all_eq z x l : Forall (fun y => y = x) l -> z <> x -> memb z l = false.
Proof.
  induction 1 as [|y t Hy _ IH]; intros Hne; cbn [memb]; [reflexivity|].
  rewrite IH by exact Hne. subst y. destruct (N.eqb_spec z x); [contradiction|reflexivity].
Qed.
Lemma filter_all {A} (p : A -> bool) l : (forall x, In x l -> p x = true) -> filter p l = l.
Proof.
  induction l as [|x l IH]; intros H; cbn [filter]; [reflexivity|].
  rewrite H by (left; reflexivity). f_equal. apply IH. intros y Hy. apply H. right; exact Hy.
Qed.
Lemma filter_nothing {A} (p : A -> bool) l : (forall x, In x l -> p x = false) -> filter p l = [].
Proof.
  induction l as [|x l IH]; intros H; cbn [filter]; [reflexivity|].
  rewrite H by (left; reflexivity). apply IH. intros y Hy. apply H. right; exact Hy.
Qed.

Lemma SS_skipn (l : list N) n : StronglySorted N.le l -> StronglySorted N.le (skipn n l).
Proof.
  intros H. rewrite <- (firstn_skipn n l) in H. apply SS_app_inv in H. tauto.
Qed.

(* ---------- multiset_1small_intersection2 = multiset_intersection2 ---------- *)
Lemma ms_1small_inter2_filter (a : list N) : forall b,
  StronglySorted N.le a -> StronglySorted N.le b ->
  ms_1small_inter2 a b = filter (fun y => memb y a) b.
Proof.
  induction a as [|x a IH]; intros b Ha Hb.
  - cbn [ms_1small_inter2]. symmetry. apply filter_nothing. reflexivity.
  - cbn [ms_1small_inter2]. destruct b as [|y0 b0] eqn:Eb; [reflexivity|]. rewrite <- Eb in *. clear Eb y0 b0.
    apply SS_cons_inv in Ha as [Ha Hx].
    destruct (equal_range_split b x Hb) as (Hlh & Hhl & HL & HE & HG & Hsplit).
    set (lo := lower_bound b x) in *. set (hi := upper_bound b x) in *.
    rewrite IH by (try assumption; apply SS_skipn; exact Hb).
    rewrite Hsplit at 3. rewrite !filter_app.
    rewrite (filter_nothing _ (firstn lo b)).
    2:{ intros y Hy. rewrite Forall_forall in HL. specialize (HL y Hy). cbn [memb].
        destruct (N.eqb_spec y x); [lia|]. cbn [orb]. apply memb_below.
        eapply Forall_impl; [|exact Hx]. intros z Hz; cbn beta in *; lia. }
    rewrite (filter_all _ (firstn (hi - lo) (skipn lo b))).
    2:{ intros y Hy. rewrite Forall_forall in HE. rewrite (HE y Hy). cbn [memb]. rewrite N.eqb_refl. reflexivity. }
    cbn [app]. f_equal. apply filter_ext_in. intros y Hy.
    rewrite Forall_forall in HG. specialize (HG y Hy). cbn [memb].
    destruct (N.eqb_spec y x); [lia|reflexivity].
Qed.

Lemma ms_1small_inter2_eq_proof (a b : list N) :
  Sorted N.le a -> Sorted N.le b -> ms_1small_inter2 a b = ms_inter2 a b.
Proof.
  intros Ha Hb. rewrite ms_inter2_filter_proof by assumption.
  apply ms_1small_inter2_filter; apply Sorted_SS; assumption.
Qed.

(* ---------- multiset_1small_intersection = multiset_intersection ---------- *)
Lemma take_eq_spec v (a : list N) : StronglySorted N.le a ->
  let '(p, q) := take_eq v a in
  a = p ++ q /\ Forall (fun y => y = v) p /\ (forall y, In y q -> (exists h, In h a /\ h <> v /\ h <= y)).
Proof.
  induction a as [|x a IH]; intros Ha; cbn [take_eq].
  - split; [reflexivity|]. split; [constructor|]. intros y [].
  - destruct (N.eqb_spec x v) as [->|Hne].
    + apply SS_cons_inv in Ha as [Ha' Hx]. specialize (IH Ha'). destruct (take_eq v a) as [p q].
      destruct IH as (E & Hp & Hq). split; [cbn [app]; f_equal; exact E|]. split; [constructor; [reflexivity|exact Hp]|].
      intros y Hy. destruct (Hq y Hy) as (h & Hh & Hhv & Hhy). exists h. split; [right; exact Hh|]. split; assumption.
    + split; [reflexivity|]. split; [constructor|].
      intros y Hy. exists x. split; [left; reflexivity|]. split; [exact Hne|].
      destruct Hy as [<-|Hy]; [lia|]. apply SS_cons_inv in Ha as [_ Hx]. rewrite Forall_forall in Hx. apply Hx; exact Hy.
Qed.

Lemma ms_1small_inter_filter (fuel : nat) : forall a b,
  (length a < fuel)%nat -> StronglySorted N.le a -> StronglySorted N.le b ->
  ms_1small_inter fuel a b = filter (fun z => memb z b) a.
Proof.
  induction fuel as [|f IH]; intros a b Hf Ha Hb; [lia|].
  cbn [ms_1small_inter]. destruct a as [|x a']; [reflexivity|].
  destruct b as [|y0 b0] eqn:Eb.
  { symmetry. apply filter_nothing. reflexivity. }
  rewrite <- Eb in *. clear Eb y0 b0.
  pose proof (SS_cons_inv _ _ Ha) as [Ha' Hx].
  destruct (equal_range_split b x Hb) as (Hlh & Hhl & HL & HE & HG & Hsplit).
  set (lo := lower_bound b x) in *. set (hi := upper_bound b x) in *.
  assert (HGs : StronglySorted N.le (skipn hi b)) by (apply SS_skipn; exact Hb).
  (* membership in b of anything >= x that is not x is membership in the part above x *)
  assert (Hmem : forall z, x < z -> memb z b = memb z (skipn hi b)).
  { intros z Hz. rewrite Hsplit at 1. rewrite !memb_app.
    rewrite (memb_above z (firstn lo b)) by (eapply Forall_impl; [|exact HL]; intros w Hw; cbn beta in *; lia).
    rewrite (memb_ne_all_eq z x _ HE) by lia. reflexivity. }
  destruct (Nat.eqb_spec lo hi) as [E|NE].
  - (* x does not occur in b *)
    assert (Hxb : memb x b = false).
    { rewrite Hsplit, !memb_app. replace (hi - lo)%nat with O by lia. cbn [firstn memb orb].
      rewrite (memb_above x (firstn lo b)) by exact HL. cbn [orb]. apply memb_below. exact HG. }
    rewrite IH; [|cbn [length] in Hf; lia|exact Ha'|exact HGs].
    cbn [filter]. rewrite Hxb. apply filter_ext_in. intros z Hz.
    rewrite Forall_forall in Hx. specialize (Hx z Hz).
    destruct (N.eq_dec z x) as [->|Hzx].
    + rewrite Hxb. apply memb_below. exact HG.
    + symmetry. apply Hmem. lia.
  - (* the equal range is not empty: its first element is x *)
    assert (Hnth : nth lo b 0 = x).
    { assert (Hin : In (nth 0 (firstn (hi - lo) (skipn lo b)) 0) (firstn (hi - lo) (skipn lo b))).
      { apply nth_In. rewrite firstn_length, skipn_length. lia. }
      rewrite Forall_forall in HE. specialize (HE _ Hin).
      rewrite nth_firstn_lt in HE by lia. rewrite nth_skipn_add, Nat.add_0_r in HE. exact HE. }
    rewrite Hnth. pose proof (take_eq_spec x (x :: a') Ha) as Ht.
    destruct (take_eq x (x :: a')) as [p q] eqn:Etq. destruct Ht as (Eapp & Hp & Hq).
    assert (Hpne : p <> []).
    { cbn [take_eq] in Etq. rewrite N.eqb_refl in Etq. destruct (take_eq x a'); injection Etq as <- _. discriminate. }
    assert (Hqs : StronglySorted N.le q).
    { rewrite Eapp in Ha. apply SS_app_inv in Ha. tauto. }
    assert (Hqgt : forall z, In z q -> x < z).
    { intros z Hz. destruct (Hq z Hz) as (h & Hh & Hhx & Hhz).
      assert (x <= h). { destruct Hh as [<-|Hh]; [lia|]. rewrite Forall_forall in Hx. apply Hx; exact Hh. }
      lia. }
    rewrite IH; [| |exact Hqs|exact HGs].
    2:{ assert (length (x :: a') = (length p + length q)%nat) by (rewrite Eapp, app_length; reflexivity).
        destruct p; [congruence|]. cbn [length] in *. lia. }
    rewrite Eapp, filter_app. f_equal.
    + symmetry. apply filter_all. intros z Hz. rewrite Forall_forall in Hp. rewrite (Hp z Hz).
      rewrite Hsplit, !memb_app. rewrite (memb_all_eq x _ HE).
      * rewrite orb_true_r. reflexivity.
      * intros E0. apply (f_equal (@length N)) in E0. rewrite firstn_length, skipn_length in E0. cbn [length] in E0. lia.
    + apply filter_ext_in. intros z Hz. symmetry. apply Hmem. apply Hqgt. exact Hz.
Qed.

Lemma ms_1small_inter_eq_proof (a b : list N) :
  Sorted N.le a -> Sorted N.le b -> ms_1small_inter (S (length a)) a b = ms_inter a b.
Proof.
  intros Ha Hb. rewrite ms_inter_filter_proof by assumption.
  apply ms_1small_inter_filter; [lia|apply Sorted_SS; assumption|apply Sorted_SS; assumption].
Qed.

(* ---------- the adaptive dispatch on the size ratio: whichever branch, the same result ---------- *)
Lemma ms_fast_inter_eq_proof th (a b : list N) :
  Sorted N.le a -> Sorted N.le b -> ms_fast_inter th a b = ms_inter a b.
Proof. intros Ha Hb. unfold ms_fast_inter. destruct (_ <? _); [apply ms_1small_inter_eq_proof; assumption|reflexivity]. Qed.
Lemma ms_fast_inter2_eq_proof th (a b : list N) :
  Sorted N.le a -> Sorted N.le b -> ms_fast_inter2 th a b = ms_inter2 a b.
Proof. intros Ha Hb. unfold ms_fast_inter2. destruct (_ <? _); [apply ms_1small_inter2_eq_proof; assumption|reflexivity]. Qed.
