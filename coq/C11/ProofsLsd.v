(* C11: LSD radix sort sorts, for every key width and every digit width. *)
From ZV.Common Require Import Base Run.
From Coq Require Import Sorting.Sorted Sorting.Permutation.
From ZV.C11 Require Import Model ProofsSpec ProofsScatter.
Open Scope N_scope.

(* ---------- sortedness with respect to a key ---------- *)
Definition SSf (f : N -> N) (l : list N) : Prop := StronglySorted (fun a b => f a <= f b) l.

Lemma SSf_cons_inv f x l : SSf f (x :: l) -> SSf f l /\ Forall (fun b => f x <= f b) l.
Proof. intros H; inversion H; subst; auto. Qed.
Lemma SSf_const f l : (forall a b, f a <= f b) -> SSf f l.
Proof.
  intros H. induction l as [|x l IH]; constructor; [exact IH|].
  apply Forall_forall. intros b _. apply H.
Qed.
Lemma SSf_app f l1 l2 :
  SSf f l1 -> SSf f l2 -> (forall a b, In a l1 -> In b l2 -> f a <= f b) -> SSf f (l1 ++ l2).
Proof.
  induction l1 as [|x l1 IH]; intros H1 H2 Hc; cbn [app]; [assumption|].
  apply SSf_cons_inv in H1 as [H1 Hx]. constructor.
  - apply IH; [assumption|assumption|]. intros a b Ha Hb. apply Hc; [right|]; assumption.
  - apply Forall_app; split; [assumption|].
    apply Forall_forall; intros b Hb. apply Hc; [left; reflexivity|assumption].
Qed.
Lemma SSf_filter f (p : N -> bool) l : SSf f l -> SSf f (filter p l).
Proof.
  induction l as [|x l IH]; intros H; cbn [filter]; [constructor|].
  apply SSf_cons_inv in H as [H Hx]. destruct (p x).
  - constructor; [apply IH; assumption|].
    apply Forall_forall; intros y Hy. apply filter_In in Hy as [Hy _].
    rewrite Forall_forall in Hx. apply Hx; assumption.
  - apply IH; assumption.
Qed.
Lemma SSf_weaken f g l :
  (forall a b, In a l -> In b l -> g a <= g b -> f a <= f b) -> SSf g l -> SSf f l.
Proof.
  induction l as [|x l IH]; intros Hw H; [constructor|].
  apply SSf_cons_inv in H as [H Hx]. constructor.
  - apply IH; [|assumption]. intros a b Ha Hb. apply Hw; right; assumption.
  - rewrite Forall_forall in *. intros b Hb. apply Hw; [left; reflexivity|right; assumption|apply Hx; assumption].
Qed.

(* ---------- digits ---------- *)
Lemma digit_spec r shift x : digit r shift x = (x / 2 ^ shift) mod 2 ^ r.
Proof. unfold digit. rewrite N.land_ones, N.shiftr_div_pow2. reflexivity. Qed.

Definition low (r k x : N) : N := x mod 2 ^ (r * k).

Lemma low_succ r k x : low r (k + 1) x = low r k x + 2 ^ (r * k) * digit r (k * r) x.
Proof.
  unfold low. rewrite digit_spec.
  replace (r * (k + 1)) with (r * k + r) by lia. rewrite N.pow_add_r.
  replace (k * r) with (r * k) by lia.
  apply N.mod_mul_r; apply N.pow_nonzero; discriminate.
Qed.
Lemma low_lt r k x : low r k x < 2 ^ (r * k).
Proof. unfold low. apply N.mod_lt. apply N.pow_nonzero. discriminate. Qed.

(* ---------- one pass ---------- *)
Lemma pass_spec_sorted r k l :
  SSf (low r k) l -> SSf (low r (k + 1)) (lsd_pass_spec r (k * r) l).
Proof.
  intros Hs. unfold lsd_pass_spec. generalize (N.to_nat (2 ^ r)) as n. generalize O as s.
  intros s n; revert s. induction n as [|n IH]; intros s; cbn [seq flat_map]; [constructor|].
  assert (Hb : forall d a, In a (bucket r (k * r) d l) -> digit r (k * r) a = N.of_nat d /\ In a l).
  { intros d a Ha. unfold bucket in Ha. apply filter_In in Ha as [Hin He].
    apply Nat.eqb_eq in He. unfold dnat in He. split; [lia|exact Hin]. }
  apply SSf_app.
  - apply (SSf_weaken _ (low r k)).
    + intros a b Ha Hb' Hle. apply Hb in Ha as [Ha _]. apply Hb in Hb' as [Hb' _].
      rewrite !low_succ, Ha, Hb'. lia.
    + apply SSf_filter. exact Hs.
  - apply IH.
  - intros a b Ha Hb'. apply Hb in Ha as [Ha _].
    apply in_flat_map in Hb' as (d & Hd & Hb'). apply in_seq in Hd. apply Hb in Hb' as [Hb' _].
    rewrite !low_succ, Ha, Hb'. pose proof (low_lt r k a) as Hlt.
    assert (Hsd : N.of_nat s + 1 <= N.of_nat d) by lia.
    nia.
Qed.

Lemma lsd_pass_sorted r k l :
  SSf (low r k) l -> SSf (low r (k + 1)) (lsd_pass r (k * r) l).
Proof. rewrite lsd_pass_eq_spec. apply pass_spec_sorted. Qed.
Lemma lsd_pass_perm r shift l : Permutation l (lsd_pass r shift l).
Proof. rewrite lsd_pass_eq_spec. apply buckets_perm. Qed.

(* ---------- all passes ---------- *)
Lemma lsd_passes_inv r n : forall pass data,
  SSf (low r pass) data ->
  SSf (low r (pass + N.of_nat n)) (lsd_passes r n pass data) /\ Permutation data (lsd_passes r n pass data).
Proof.
  induction n as [|n IH]; intros pass data Hs; cbn [lsd_passes].
  - replace (pass + N.of_nat 0) with pass by lia. split; [exact Hs|reflexivity].
  - destruct (IH (pass + 1) (lsd_pass r (pass * r) data)) as [H1 H2].
    + apply lsd_pass_sorted. exact Hs.
    + replace (pass + N.of_nat (S n)) with (pass + 1 + N.of_nat n) by lia. split; [exact H1|].
      eapply perm_trans; [apply lsd_pass_perm|exact H2].
Qed.

Lemma lsd_passes_sorts r n data :
  Forall (fun x => x < 2 ^ (r * N.of_nat n)) data ->
  Sorted N.le (lsd_passes r n 0 data) /\ Permutation data (lsd_passes r n 0 data).
Proof.
  intros Hb. destruct (lsd_passes_inv r n 0 data) as [Hs Hp].
  - apply SSf_const. intros a b. unfold low. rewrite N.mul_0_r. cbn. rewrite !N.mod_1_r. lia.
  - split; [|exact Hp]. apply Sorted_SS.
    replace (0 + N.of_nat n) with (N.of_nat n) in Hs by lia.
    assert (Hb' : Forall (fun x => x < 2 ^ (r * N.of_nat n)) (lsd_passes r n 0 data)).
    { rewrite Forall_forall in *. intros x Hx. apply Hb. eapply Permutation_in; [apply Permutation_sym; exact Hp|exact Hx]. }
    revert Hs. apply SSf_weaken with (f := fun x => x).
    rewrite Forall_forall in Hb'. intros a b Ha Hb2. unfold low.
    rewrite !N.mod_small by (apply Hb'; assumption). auto.
Qed.

Lemma ceil_div_covers w r : 0 < r -> w <= r * ((w + r - 1) / r).
Proof. intros Hr. pose proof (N.mul_div_le (w + r - 1) r) as H1. pose proof (N.mul_succ_div_gt (w + r - 1) r) as H2. lia. Qed.

(* sort_u32_sequential / sort_u64_sequential: every key below 2^w, any radix width r >= 1 *)
Lemma lsd_sorts_proof (w r : N) (data : list N) :
  0 < r -> Forall (fun x => x < 2 ^ w) data ->
  Sorted N.le (lsd_sort w r data) /\ Permutation data (lsd_sort w r data).
Proof.
  intros Hr Hb. unfold lsd_sort. apply lsd_passes_sorts.
  rewrite N2Nat.id. eapply Forall_impl; [|exact Hb]. intros x Hx; cbn beta in *.
  eapply N.lt_le_trans; [exact Hx|]. apply N.pow_le_mono_r; [discriminate|]. apply ceil_div_covers. exact Hr.
Qed.

(* AdvancedRadixSort::lsd_radix_sort_sequential: the pass count comes from the largest key *)
Lemma fold_max_ge (l : list N) : forall acc x, In x l \/ x <= acc -> x <= fold_left N.max l acc.
Proof.
  induction l as [|y l IH]; intros acc x [Hin|Hle]; cbn [fold_left].
  - destruct Hin.
  - exact Hle.
  - destruct Hin as [->|Hin]; apply IH; [right; lia|left; exact Hin].
  - apply IH. right. lia.
Qed.
Lemma list_max_ge l x : In x l -> x <= list_max l.
Proof. intros H. apply fold_max_ge. left; exact H. Qed.

Lemma adv_lsd_sorts_proof (r : N) (data : list N) :
  0 < r -> Sorted N.le (adv_lsd r data) /\ Permutation data (adv_lsd r data).
Proof.
  intros Hr. unfold adv_lsd. apply lsd_passes_sorts. rewrite N2Nat.id.
  apply Forall_forall. intros x Hx. apply list_max_ge in Hx. unfold adv_passes.
  destruct (N.eqb_spec (list_max data) 0) as [E|NE].
  - rewrite E in Hx. assert (x = 0) by lia. subst x. apply pow2_pos.
  - eapply N.le_lt_trans; [exact Hx|].
    eapply N.lt_le_trans; [apply N.size_gt|].
    apply N.pow_le_mono_r; [discriminate|]. apply ceil_div_covers. exact Hr.
Qed.
