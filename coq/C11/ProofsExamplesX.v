(* C11 extension: the hypotheses of the new positive theorems are inhabited by non-trivial values
   (evaluated on the models), so none of them holds vacuously. *)
From ZV.Common Require Import Base Run.
From Coq Require Import Sorting.Sorted Sorting.Permutation.
From ZV.C11 Require Import Model ModelMsd ModelAdv ModelPar ModelSkip ModelMultipass ModelFunnel ModelKv ModelCoAware ModelCases ProofsSpec.
Open Scope N_scope.

Ltac sorted_by_eval := apply sortedb_Sorted; vm_compute; reflexivity.

(* strings that end where the next level starts, a bucket above the cut-off, a shared prefix *)
Example msd_str_inhabited :
  Forall str_ok [[97; 98]; [97]; []; [97; 98; 0]; [98]; [97; 97]; [97; 98]] /\
  msd_str 2 [[97; 98]; [97]; []; [97; 98; 0]; [98]; [97; 97]; [97; 98]]
    = [[]; [97]; [97; 97]; [97; 98]; [97; 98]; [97; 98; 0]; [98]] /\
  sort_bytes [[97; 98]; [97]; []; [97; 98; 0]; [98]; [97; 97]; [97; 98]]
    = [[]; [97]; [97; 97]; [97; 98]; [97; 98]; [97; 98; 0]; [98]].
Proof. split; [repeat constructor|split; vm_compute; reflexivity]. Qed.

Example msd_int_inhabited :
  Forall (fun x => x < 256 ^ N.of_nat 4) [4294967295; 7; 65536; 7; 0; 16777216; 255; 256] /\
  msd_int 4 2 [4294967295; 7; 65536; 7; 0; 16777216; 255; 256] = [0; 7; 7; 255; 256; 65536; 16777216; 4294967295].
Proof. split; [repeat constructor|vm_compute; reflexivity]. Qed.

(* every strategy on the same input; adaptive selection reaches insertion, tim and LSD *)
Example adv_sort_int_inhabited :
  let data := [70000; 5; 300; 5; 0; 4294967295; 65536; 1] in
  Forall (fun x => x < 256 ^ N.of_nat 4) data /\
  (forall l, Sorted N.le (isort l) /\ Permutation l (isort l)) /\
  map (fun f => adv_sort_int 4 isort (mk_adv_cfg f true 3 true 2 3 4) data) [FNone; FIns; FTim; FLsd; FMsd; FAdaptive]
    = repeat [0; 1; 5; 5; 300; 65536; 70000; 4294967295] 6 /\
  map (fun c => select_strategy N (fun x => x) c data)
      [mk_adv_cfg FNone true 3 false 2 3 100; mk_adv_cfg FNone true 3 false 2 3 4; mk_adv_cfg FNone false 3 false 2 3 4]
    = [SIns; SLsd; SLsd] /\
  select_strategy N (fun x => x) (mk_adv_cfg FAdaptive true 3 false 2 3 4) [1; 2; 3; 4; 5; 6; 7; 8; 9; 10; 11; 12] = STim /\
  lsd_takes_parallel N (mk_adv_cfg FLsd true 3 true 2 3 4) data = true.
Proof.
  cbn zeta. split; [repeat constructor|]. split; [intros l; split; [apply isort_sorted|apply isort_perm]|].
  repeat split; vm_compute; reflexivity.
Qed.

Lemma NoDup_map_inj {A B} (f : A -> B) (l : list A) :
  NoDup (map f l) -> forall x y, In x l -> In y l -> f x = f y -> x = y.
Proof.
  induction l as [|a l IH]; intros Hnd x y Hx Hy E; [destruct Hx|].
  cbn [map] in Hnd. inversion Hnd as [|? ? Hni Hnd']; subst.
  destruct Hx as [<-|Hx], Hy as [<-|Hy].
  - reflexivity.
  - exfalso. apply Hni. rewrite E. apply in_map. exact Hy.
  - exfalso. apply Hni. rewrite <- E. apply in_map. exact Hx.
  - apply IH; assumption.
Qed.

Example adv_sort_str_inhabited :
  let data := [[98; 1]; [97]; [97; 1]; [99; 9; 9; 9; 9; 9; 9; 9; 9]; []] in
  Forall str_ok data /\
  (forall x y, In x data -> In y data -> str_key x = str_key y -> x = y) /\
  lsd_sequential_selected (list N) str_key (mk_adv_cfg FLsd true 8 false 2 3 4) data = true /\
  adv_sort_str isort_str (mk_adv_cfg FLsd true 8 false 2 3 4) data = [[]; [97]; [97; 1]; [98; 1]; [99; 9; 9; 9; 9; 9; 9; 9; 9]].
Proof.
  cbn zeta. split; [repeat constructor|]. split; [|split; vm_compute; reflexivity].
  apply NoDup_map_inj.
  vm_compute.
  repeat constructor; cbn [In]; intuition discriminate.
Qed.

Example merges_inhabited :
  Forall (Sorted N.le) [[1; 4; 4]; []; [0; 4; 9]; [2]] /\
  heap_merge [[1; 4; 4]; []; [0; 4; 9]; [2]] = [0; 1; 2; 4; 4; 4; 9] /\
  mwm_merge true 1024 [[1]; [0]; [3]; [2]; [5]; [4]; [7]; [6]; [9]; [8]] = [0; 1; 2; 3; 4; 5; 6; 7; 8; 9] /\
  mwm_merge true 2 [[1; 4; 4]; []; [0; 4; 9]; [2]] = [0; 1; 2; 4; 4; 4; 9] /\
  counting_sort [5; 2; 8; 2; 0] = [0; 2; 2; 5; 8].
Proof. split; [repeat (apply Forall_cons; [sorted_by_eval|]); apply Forall_nil|repeat split; vm_compute; reflexivity]. Qed.

(* 10 elements on 3 threads: chunks of 4, 4 and 2 *)
Example parallel_sort_inhabited :
  0 < 3 /\ (0 < 3)%nat /\ Forall (fun x => x < 2 ^ 32) [9; 3; 70000; 3; 0; 4294967295; 8; 1; 2; 7] /\
  chunks (par_chunk_size 3 [9; 3; 70000; 3; 0; 4294967295; 8; 1; 2; 7]) [9; 3; 70000; 3; 0; 4294967295; 8; 1; 2; 7]
    = [[9; 3; 70000; 3]; [0; 4294967295; 8; 1]; [2; 7]] /\
  sort_u32 3 0 true 4 3 [9; 3; 70000; 3; 0; 4294967295; 8; 1; 2; 7] = [0; 1; 2; 3; 3; 7; 8; 9; 70000; 4294967295] /\
  sort_u64 3 true 4 3 [9; 3; 70000; 3; 0; 18446744073709551615; 8; 1; 2; 7] = [0; 1; 2; 3; 3; 7; 8; 9; 70000; 18446744073709551615].
Proof. split; [lia|]. split; [lia|]. split; [repeat constructor|]. repeat split; vm_compute; reflexivity. Qed.

(* keys whose low byte is constant: the first pass is skipped *)
Example lsd_skip_inhabited :
  0 < 8 /\ Forall (fun x => x < 2 ^ 64) [12884901888; 4294967296; 768; 256] /\
  digit_constant 8 0 [12884901888; 4294967296; 768; 256] = true /\
  lsd_sort_skip 64 8 [12884901888; 4294967296; 768; 256] = [256; 768; 4294967296; 12884901888].
Proof. split; [lia|]. split; [repeat constructor|]. split; vm_compute; reflexivity. Qed.

Example set_variants_inhabited :
  Sorted N.le [2; 2; 3; 7] /\ Sorted N.le [1; 2; 2; 2; 3; 3; 4; 7; 9] /\
  ms_1small_inter 5 [2; 2; 3; 7] [1; 2; 2; 2; 3; 3; 4; 7; 9] = [2; 2; 3; 7] /\
  ms_1small_inter2 [2; 2; 3; 7] [1; 2; 2; 2; 3; 3; 4; 7; 9] = [2; 2; 2; 3; 3; 7] /\
  ms_fast_inter 2 [2; 2; 3; 7] [1; 2; 2; 2; 3; 3; 4; 7; 9] = [2; 2; 3; 7] /\
  ms_fast_inter2 2 [2; 2; 3; 7] [1; 2; 2; 2; 3; 3; 4; 7; 9] = [2; 2; 2; 3; 3; 7].
Proof. split; [sorted_by_eval|split; [sorted_by_eval|]]. repeat split; vm_compute; reflexivity. Qed.

(* five runs merged two at a time: two complete groups and a trailing one *)
Example multipass_inhabited :
  Forall (Sorted N.le) [[5]; [1; 8]; [3]; [2; 2]; [0; 9]] /\
  chunks 2 [[5]; [1; 8]; [3]; [2; 2]; [0; 9]] = [[[5]; [1; 8]]; [[3]; [2; 2]]; [[0; 9]]] /\
  multipass_merge 2 [[5]; [1; 8]; [3]; [2; 2]; [0; 9]] = [0; 1; 2; 2; 3; 5; 8; 9] /\
  (0 < 2)%nat /\ rs_sort_multipass 2 2 [5; 2; 8; 1; 9; 3; 7; 4; 6] = [1; 2; 3; 4; 5; 6; 7; 8; 9].
Proof.
  split; [repeat (apply Forall_cons; [sorted_by_eval|]); apply Forall_nil|].
  split; [vm_compute; reflexivity|]. split; [vm_compute; reflexivity|]. split; [lia|vm_compute; reflexivity].
Qed.

(* 13 elements, threshold 2, funnel width 3: segments of 4, 4 and 5, recursion two levels deep *)
Example co_sort_inhabited :
  funnel_width 1024 64 13 = 4%nat /\
  co_segments 2 4 [12; 3; 9; 0; 7; 7; 1; 11; 5; 2; 10; 4; 6] = [[12; 3; 9; 0]; [7; 7; 1; 11]; [5; 2; 10; 4; 6]] /\
  co_sort 2 1024 64 [12; 3; 9; 0; 7; 7; 1; 11; 5; 2; 10; 4; 6] = [0; 1; 2; 3; 4; 5; 6; 7; 7; 9; 10; 11; 12].
Proof. repeat split; vm_compute; reflexivity. Qed.

(* duplicate keys keep their own values, in input order *)
Example kv_sort_inhabited :
  (0 < 4)%nat /\ Forall (fun p => fst p < 2 ^ 64) [(1, 10); (1, 11); (0, 12); (1, 13); (18446744073709551615, 14)] /\
  kv_sort 4 [(1, 10); (1, 11); (0, 12); (1, 13); (18446744073709551615, 14)]
    = Some [(0, 12); (1, 10); (1, 11); (1, 13); (18446744073709551615, 14)].
Proof. split; [lia|]. split; [repeat constructor|vm_compute; reflexivity]. Qed.

Example merge_tree_inhabited :
  Forall (Sorted N.le) [[1; 4]; [0; 9]; [2]; []; [3; 3]] /\
  merge_round [[1; 4]; [0; 9]; [2]; []; [3; 3]] = [[0; 1; 4; 9]; [2]; [3; 3]] /\
  merge_tree [[1; 4]; [0; 9]; [2]; []; [3; 3]] = [0; 1; 2; 3; 3; 4; 9].
Proof. split; [repeat (apply Forall_cons; [sorted_by_eval|]); apply Forall_nil|split; vm_compute; reflexivity]. Qed.

Example vec_external_sort_inhabited :
  (forall l, Sorted N.le (isort l) /\ Permutation l (isort l)) /\
  vec_external_sort isort 8 16 [5; 2; 8; 1; 9] = [1; 2; 5; 8; 9] /\ vec_external_sort isort 8 64 [5; 2; 8; 1; 9] = [1; 2; 5; 8; 9].
Proof. split; [intros l; split; [apply isort_sorted|apply isort_perm]|split; vm_compute; reflexivity]. Qed.

(* a 5-byte common prefix is skipped inside the outermost call: 1 level with the skip, 6 without *)
Example sort_bytes_depth_inhabited :
  sort_bytes_levels true [[9; 9; 9; 9; 9; 2]; [9; 9; 9; 9; 9; 1]; [9; 9; 9; 9; 9]] = 1%nat /\
  sort_bytes_levels false [[9; 9; 9; 9; 9; 2]; [9; 9; 9; 9; 9; 1]; [9; 9; 9; 9; 9]] = 6%nat /\
  sort_bytes [[9; 9; 9; 9; 9; 2]; [9; 9; 9; 9; 9; 1]; [9; 9; 9; 9; 9]] = [[9; 9; 9; 9; 9]; [9; 9; 9; 9; 9; 1]; [9; 9; 9; 9; 9; 2]].
Proof. repeat split; vm_compute; reflexivity. Qed.

(* quicksort / merge sort / the strategy selection *)
Example co_full_sort_inhabited :
  partition [5; 1; 7; 2; 9; 0; 4] = ([1; 2; 0], 4, [9; 7; 5]) /\
  partition_arr [5; 1; 7; 2; 9; 0; 4] = ([1; 2; 0; 4; 9; 7; 5], 3%nat) /\
  quicksort [5; 1; 7; 2; 9; 0; 4; 4; 18446744073709551615] = [0; 1; 2; 4; 4; 5; 7; 9; 18446744073709551615] /\
  mergesort [5; 1; 7; 2; 9; 0; 4; 4] = [0; 1; 2; 4; 4; 5; 7; 9] /\
  (* 20 elements of 8 bytes: L1 of 64 bytes is too small, L2 of 1024 holds them -> quicksort via hybrid (L3 of 128) *)
  co_full_sort 2 8 64 1024 128 64 [19; 3; 17; 1; 15; 5; 13; 7; 11; 9; 10; 8; 12; 6; 14; 4; 16; 2; 18; 0]
    = [0; 1; 2; 3; 4; 5; 6; 7; 8; 9; 10; 11; 12; 13; 14; 15; 16; 17; 18; 19].
Proof. repeat split; vm_compute; reflexivity. Qed.

(* test (not a theorem about all inputs): on every non-empty list of length <= 6 over {0,1,2} the segment
   representation of the partition loop is the array the swap-by-swap loop leaves *)
Fixpoint all_lists (n : nat) : list (list N) :=
  match n with
  | O => [[]]
  | S n' => flat_map (fun l => [0 :: l; 1 :: l; 2 :: l]) (all_lists n')
  end.
Definition partition_agrees (l : list N) : bool :=
  let '(s, p, g) := partition l in
  let '(arr, i) := partition_arr l in
  eqb_ln arr (s ++ p :: g) && Nat.eqb i (length s).
Example partition_matches_array_code_small :
  forallb (fun n => forallb partition_agrees (all_lists n)) [1; 2; 3; 4; 5; 6]%nat = true.
Proof. vm_compute. reflexivity. Qed.
