(* C11: replacement selection as coded in ReplaceSelectSort::generate_runs produces sorted
   runs whose concatenation is a permutation of the input; merging them sorts. *)
From ZV.Common Require Import Base Run.
From Coq Require Import Sorting.Sorted Sorting.Permutation.
From ZV.C11 Require Import Model ProofsSpec ProofsMerge.
Open Scope N_scope.

(* ---------- counting as the multiset equality ---------- *)
Lemma countb_app z a b : countb z (a ++ b) = (countb z a + countb z b)%nat.
Proof. induction a as [|x a IH]; cbn [app countb]; [reflexivity|]. destruct (z =? x); rewrite IH; reflexivity. Qed.
Lemma countb_rev z a : countb z (rev a) = countb z a.
Proof.
  induction a as [|x a IH]; cbn [rev]; [reflexivity|]. rewrite countb_app, IH. cbn [countb].
  destruct (z =? x); lia.
Qed.
Lemma countb_pos_In z l : (0 < countb z l)%nat -> In z l.
Proof.
  induction l as [|x l IH]; cbn [countb]; [lia|]. destruct (N.eqb_spec z x) as [->|NE]; [left; reflexivity|].
  intros H. right. apply IH. exact H.
Qed.
Lemma count_perm (a : list N) : forall b, (forall z, countb z a = countb z b) -> Permutation a b.
Proof.
  induction a as [|x a IH]; intros b H.
  - destruct b as [|y b]; [constructor|]. specialize (H y). cbn [countb] in H. rewrite N.eqb_refl in H. discriminate.
  - assert (Hin : In x b).
    { apply countb_pos_In. rewrite <- H. cbn [countb]. rewrite N.eqb_refl. lia. }
    apply in_split in Hin as (b1 & b2 & ->).
    eapply perm_trans; [|apply Permutation_middle]. apply perm_skip. apply IH.
    intros z. specialize (H z). rewrite countb_app in *. cbn [countb] in H. destruct (z =? x); lia.
Qed.
Lemma perm_count (a b : list N) : Permutation a b -> forall z, countb z a = countb z b.
Proof.
  induction 1 as [|x l l' _ IH|x y l|l l' l'' _ IH1 _ IH2]; intros z; cbn [countb].
  - reflexivity.
  - rewrite IH. reflexivity.
  - destruct (z =? y); destruct (z =? x); reflexivity.
  - rewrite IH1. apply IH2.
Qed.
Lemma countb_concat_rev z (l : list (list N)) : countb z (concat (rev l)) = countb z (concat l).
Proof.
  induction l as [|r l IH]; cbn [rev concat]; [reflexivity|].
  rewrite concat_app, !countb_app, IH. cbn [concat]. rewrite app_nil_r. lia.
Qed.

(* ---------- the heap (a list sorted by value) ---------- *)
Definition hle (a b : N * nat) : Prop := fst a <= fst b.
Definition hsorted (h : list (N * nat)) : Prop := StronglySorted hle h.

Lemma hpush_count z x s h : countb z (map fst (hpush x s h)) = countb z (x :: map fst h).
Proof.
  induction h as [|[y t] h IH]; cbn [hpush map fst]; [reflexivity|].
  destruct (x <=? y); cbn [map fst countb] in *; [reflexivity|]. rewrite IH. cbn [countb].
  destruct (z =? y); destruct (z =? x); reflexivity.
Qed.
Lemma hpush_length x s h : length (hpush x s h) = S (length h).
Proof. induction h as [|[y t] h IH]; cbn [hpush length]; [reflexivity|]. destruct (x <=? y); cbn [length]; [reflexivity|]. rewrite IH. reflexivity. Qed.
Lemma hpush_Forall (P : N * nat -> Prop) x s h : P (x, s) -> Forall P h -> Forall P (hpush x s h).
Proof.
  intros Hx. induction 1 as [|[y t] h Hy Hh IH]; cbn [hpush]; [repeat constructor; exact Hx|].
  destruct (x <=? y); repeat (constructor; try assumption).
Qed.
Lemma hpush_sorted x s h : hsorted h -> hsorted (hpush x s h).
Proof.
  unfold hsorted. induction h as [|[y t] h IH]; intros H; cbn [hpush]; [repeat constructor|].
  inversion H as [|? ? Hs Hy]; subst. destruct (N.leb_spec x y) as [Hle|Hgt].
  - constructor; [exact H|]. constructor; [exact Hle|].
    eapply Forall_impl; [|exact Hy]. intros e He; unfold hle in *; cbn [fst] in *; lia.
  - constructor; [apply IH; exact Hs|]. apply hpush_Forall; [unfold hle; cbn [fst]; lia|exact Hy].
Qed.
Lemma hpush_head x s h : Forall (fun e => x <= fst e) h -> hpush x s h = (x, s) :: h.
Proof.
  intros H. destruct h as [|[y t] h]; [reflexivity|]. cbn [hpush].
  inversion H as [|? ? Hy _]; subst. cbn [fst] in Hy. destruct (N.leb_spec x y); [reflexivity|lia].
Qed.

(* ---------- descending lists (a run under construction, newest first) ---------- *)
Definition desc (r : list N) : Prop := StronglySorted (fun a b => b <= a) r.
Lemma desc_rev_SS r : desc r -> StronglySorted N.le (rev r).
Proof.
  unfold desc. induction r as [|x r IH]; intros H; cbn [rev]; [constructor|].
  inversion H as [|? ? Hs Hx]; subst. apply SS_app; [apply IH; exact Hs|repeat constructor|].
  intros a b Ha [<-|[]]. apply in_rev in Ha. rewrite Forall_forall in Hx. apply Hx; exact Ha.
Qed.

(* ---------- invariant of the run-generation loop ---------- *)
Definition open_list (o : option (list N)) : list N := match o with Some r => r | None => [] end.
Definition content (st : rs_state) : list N :=
  map fst (rs_heap st) ++ open_list (rs_open st) ++ concat (rs_runs st).
Definition Inv (st : rs_state) : Prop :=
  hsorted (rs_heap st) /\
  Forall (StronglySorted N.le) (rs_runs st) /\
  match rs_open st with
  | None => True
  | Some r => desc r /\ Forall (fun e => hd 0 r <= fst e) (rs_heap st)
  end /\
  (rs_heap st = [] -> rs_open st = None).

Ltac cnt_norm :=
  unfold open_list; cbn [concat app map fst];
  repeat progress (rewrite ?app_nil_r, ?countb_app, ?countb_rev, ?hpush_count; cbn [countb map fst app concat]).

Lemma rs_step_inv (st : rs_state) (input : list N) :
  Inv st -> rs_heap st <> [] ->
  Inv (fst (rs_step st input)) /\
  (forall z, countb z (content (fst (rs_step st input)) ++ snd (rs_step st input)) = countb z (content st ++ input)) /\
  (length (rs_heap (fst (rs_step st input))) + length (snd (rs_step st input)) < length (rs_heap st) + length input)%nat /\
  (rs_heap (fst (rs_step st input)) = [] -> snd (rs_step st input) = []).
Proof.
  destruct st as [heap cur opn runs]. unfold Inv, content. cbn [rs_heap rs_cur rs_open rs_runs].
  intros (Hh & Hr & Ho & _) Hne. destruct heap as [|[m s0] h]; [exfalso; apply Hne; reflexivity|].
  unfold rs_step. cbn [rs_heap rs_cur rs_open rs_runs].
  inversion Hh as [|? ? Hhs Hm]; subst.
  assert (Hmh : Forall (fun e => m <= fst e) h).
  { eapply Forall_impl; [|exact Hm]. intros e He. exact He. }
  set (run := m :: match opn with Some r => r | None => [] end).
  assert (Hrun : desc run).
  { unfold run, desc. destruct opn as [r|]; [|repeat constructor].
    destruct Ho as [Hd Hf]. constructor; [exact Hd|].
    inversion Hf as [|? ? Hm0 _]; subst. cbn [fst] in Hm0.
    destruct r as [|y r]; [constructor|]. cbn [hd] in Hm0.
    unfold desc in Hd. inversion Hd as [|? ? _ Hy]; subst.
    constructor; [exact Hm0|]. eapply Forall_impl; [|exact Hy]. intros a Ha; cbn beta in *; lia. }
  assert (Hcnt : forall z, countb z run = countb z (m :: open_list opn)).
  { intros z. unfold run, open_list. reflexivity. }
  destruct input as [|x rest].
  - (* no more input *)
    destruct (rs_peek_later h cur) eqn:Ep; cbn [fst snd rs_heap rs_open rs_runs rs_finish].
    + split; [|split; [|split]].
      * split; [exact Hhs|]. split; [constructor; [apply desc_rev_SS; exact Hrun|exact Hr]|]. split; [exact I|reflexivity].
      * intros z. unfold run. cnt_norm. destruct (z =? m); lia.
      * cbn [length]. lia.
      * reflexivity.
    + split; [|split; [|split]].
      * split; [exact Hhs|]. split; [exact Hr|]. split; [split; [exact Hrun|exact Hmh]|].
        intros E. subst h. cbn in Ep. discriminate.
      * intros z. unfold run. cnt_norm. destruct (z =? m); lia.
      * cbn [length]. lia.
      * reflexivity.
  - destruct (N.ltb_spec x m) as [Hlt|Hge].
    + (* the new item is smaller than what was just written: it heads the heap and the run closes *)
      assert (Hhead : hpush x (S cur) h = (x, S cur) :: h).
      { apply hpush_head. eapply Forall_impl; [|exact Hmh]. intros e He; cbn beta in *; lia. }
      rewrite Hhead. cbn [rs_peek_later]. rewrite (proj2 (Nat.ltb_lt cur (S cur))) by lia.
      cbn [fst snd rs_heap rs_open rs_runs rs_finish].
      split; [|split; [|split]].
      * split.
        { constructor; [exact Hhs|]. eapply Forall_impl; [|exact Hmh]. intros e He; unfold hle; cbn [fst] in *; lia. }
        split; [constructor; [apply desc_rev_SS; exact Hrun|exact Hr]|]. split; [exact I|intros E; discriminate].
      * intros z. unfold run. cnt_norm. destruct (z =? m); destruct (z =? x); lia.
      * cbn [length]. lia.
      * intros E; discriminate.
    + cbn [fst snd rs_heap rs_open rs_runs].
      split; [|split; [|split]].
      * split; [apply hpush_sorted; exact Hhs|]. split; [exact Hr|]. split.
        { split; [exact Hrun|]. apply hpush_Forall; [cbn [fst hd run]; unfold run; cbn [hd]; lia|exact Hmh]. }
        intros E. pose proof (hpush_length x cur h) as Hl. rewrite E in Hl. discriminate.
      * intros z. unfold run. cnt_norm. destruct (z =? m); destruct (z =? x); lia.
      * rewrite hpush_length. cbn [length]. lia.
      * intros E. pose proof (hpush_length x cur h) as Hl. rewrite E in Hl. discriminate.
Qed.

Lemma rs_loop_inv (fuel : nat) : forall st input,
  Inv st -> (rs_heap st = [] -> input = []) ->
  (length (rs_heap st) + length input <= fuel)%nat ->
  Inv (rs_loop fuel st input) /\ rs_heap (rs_loop fuel st input) = [] /\
  (forall z, countb z (content (rs_loop fuel st input)) = countb z (content st ++ input)).
Proof.
  induction fuel as [|fuel IH]; intros st input HI He Hf.
  - cbn [rs_loop]. assert (Hh : rs_heap st = []) by (destruct (rs_heap st); [reflexivity|cbn [length] in Hf; lia]).
    rewrite (He Hh), app_nil_r. split; [exact HI|]. split; [exact Hh|reflexivity].
  - cbn [rs_loop]. destruct (rs_heap st) as [|e h] eqn:Eh.
    + rewrite (He eq_refl), app_nil_r. split; [exact HI|]. split; [exact Eh|reflexivity].
    + assert (Hne : rs_heap st <> []) by (rewrite Eh; discriminate).
      destruct (rs_step_inv st input HI Hne) as (HI' & Hc & Hl & He').
      destruct (rs_step st input) as [st' input'] eqn:Es. cbn [fst snd] in *.
      destruct (IH st' input' HI' He') as (H1 & H2 & H3); [rewrite Eh in Hl; lia|].
      split; [exact H1|]. split; [exact H2|]. intros z. rewrite H3. apply Hc.
Qed.

Lemma rs_fill_inv (n : nat) : forall h input,
  hsorted h ->
  hsorted (fst (rs_fill n h input)) /\
  (forall z, countb z (map fst (fst (rs_fill n h input)) ++ snd (rs_fill n h input)) = countb z (map fst h ++ input)) /\
  (length (fst (rs_fill n h input)) + length (snd (rs_fill n h input)) = length h + length input)%nat /\
  ((0 < n)%nat \/ h <> [] -> fst (rs_fill n h input) = [] -> snd (rs_fill n h input) = []).
Proof.
  induction n as [|n IH]; intros h input Hs; cbn [rs_fill].
  - cbn [fst snd]. split; [exact Hs|]. split; [reflexivity|]. split; [reflexivity|].
    intros [Hn|Hh] E; [lia|exfalso; auto].
  - destruct input as [|x rest]; cbn [fst snd].
    + split; [exact Hs|]. split; [reflexivity|]. split; [reflexivity|reflexivity].
    + destruct (IH (hpush x O h) rest (hpush_sorted x O h Hs)) as (H1 & H2 & H3 & H4).
      split; [exact H1|]. split; [|split].
      * intros z. rewrite H2, !countb_app, hpush_count. cbn [countb]. destruct (z =? x); lia.
      * rewrite H3, hpush_length. cbn [length]. lia.
      * intros _. apply H4. right. intros E. pose proof (hpush_length x O h) as Hl. rewrite E in Hl. discriminate.
Qed.

(* runs_sorted /\ concat runs ~ input, for every buffer size of at least one element *)
Lemma rs_runs_proof (mem : nat) (input : list N) :
  (0 < mem)%nat ->
  Forall (Sorted N.le) (rs_runs_of mem input) /\ Permutation input (concat (rs_runs_of mem input)).
Proof.
  intros Hmem. unfold rs_runs_of.
  destruct (rs_fill_inv mem [] input (SSorted_nil _)) as (F1 & F2 & F3 & F4).
  destruct (rs_fill mem [] input) as [h rest] eqn:Ef. cbn [fst snd] in *.
  set (st0 := mk_rs h O None []).
  assert (HI : Inv st0).
  { unfold Inv, st0. cbn [rs_heap rs_runs rs_open]. split; [exact F1|]. split; [constructor|]. split; [exact I|reflexivity]. }
  destruct (rs_loop_inv (length input) st0 rest HI) as (L1 & L2 & L3).
  - unfold st0; cbn [rs_heap]. apply F4. left. exact Hmem.
  - unfold st0; cbn [rs_heap]. cbn [length] in F3. lia.
  - destruct L1 as (_ & Lr & _ & Lo). specialize (Lo L2). split.
    + apply Forall_rev. eapply Forall_impl; [|exact Lr]. intros r. apply Sorted_SS.
    + apply count_perm. intros z. rewrite countb_concat_rev.
      unfold content in L3. rewrite L2, Lo in L3. cbn [map open_list app] in L3. rewrite L3.
      unfold st0. cbn [rs_heap rs_open rs_runs open_list concat]. rewrite !app_nil_r.
      specialize (F2 z). cbn [map app] in F2. symmetry. exact F2.
Qed.

(* ReplaceSelectSort::sort = run generation + merge: the sorted permutation of the input *)
Lemma external_sort_sorts_proof (mem : nat) (input : list N) :
  (0 < mem)%nat ->
  Sorted N.le (rs_sort mem input) /\ Permutation input (rs_sort mem input).
Proof.
  intros Hmem. destruct (rs_runs_proof mem input Hmem) as [Hs Hp]. unfold rs_sort.
  destruct (rs_runs_of mem input) as [|r1 [|r2 runs]] eqn:Er.
  - cbn [concat] in Hp. split; [constructor|exact Hp].
  - cbn [concat] in Hp. rewrite app_nil_r in Hp. split; [apply isort_sorted|].
    eapply perm_trans; [exact Hp|apply isort_perm].
  - destruct (loser_tree_merges_proof (r1 :: r2 :: runs) Hs) as [M1 M2].
    split; [exact M1|]. eapply perm_trans; [exact Hp|exact M2].
Qed.
