(* C11 extension — LSD passes that skip a pass whose digit is the same for every key.
   Definitions only.

   The pinned sort_u32_sequential / sort_u64_sequential run every pass; skipping a constant-digit
   pass is the usual optimisation of this loop (counts[digit(first)] == len after the counting
   step -> `continue`).  The model below is that loop; ProofsSkip.v shows that it computes exactly
   what the coded loop computes (a pass over a constant digit is the identity permutation), and
   that leaving the loop instead (`break`) does not. *)
From ZV.Common Require Import Base Run.
From ZV.C11 Require Import Model.
Open Scope N_scope.

(* if let Some(&first) = data.first() { counts[digit(first)] == data.len() } *)
Definition digit_constant (r shift : N) (data : list N) : bool :=
  match data with
  | [] => false
  | x :: _ => Nat.eqb (nth (dnat r shift x) (count_digits r shift data) O) (length data)
  end.

Fixpoint lsd_passes_skip (r : N) (n : nat) (pass : N) (data : list N) : list N :=
  match n with
  | O => data
  | S n' =>
    if digit_constant r (pass * r) data
    then lsd_passes_skip r n' (pass + 1) data                              (* continue *)
    else lsd_passes_skip r n' (pass + 1) (lsd_pass r (pass * r) data)
  end.
Definition lsd_sort_skip (w r : N) (data : list N) : list N :=
  lsd_passes_skip r (N.to_nat ((w + r - 1) / r)) 0 data.

Fixpoint lsd_passes_break (r : N) (n : nat) (pass : N) (data : list N) : list N :=
  match n with
  | O => data
  | S n' =>
    if digit_constant r (pass * r) data
    then data                                                              (* break *)
    else lsd_passes_break r n' (pass + 1) (lsd_pass r (pass * r) data)
  end.
Definition lsd_sort_break (w r : N) (data : list N) : list N :=
  lsd_passes_break r (N.to_nat ((w + r - 1) / r)) 0 data.
