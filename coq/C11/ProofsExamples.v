(* C11: the hypotheses of the positive theorems are inhabited by non-trivial values
   (evaluated on the model), so none of them holds vacuously. *)
From ZV.Common Require Import Base Run.
From Coq Require Import Sorting.Sorted Sorting.Permutation.
From ZV.C11 Require Import Model ProofsSpec.

Open Scope N_scope.

Ltac sorted_by_eval := apply sortedb_Sorted; vm_compute; reflexivity.

Example lsd_sorts_inhabited :
  0 < 5 /\ Forall (fun x => x < 2 ^ 64) [18446744073709551615; 7; 9223372036854775808; 7; 0; 4294967296] /\
  lsd_sort 64 5 [18446744073709551615; 7; 9223372036854775808; 7; 0; 4294967296]
    = [0; 7; 7; 4294967296; 9223372036854775808; 18446744073709551615].
Proof. split; [lia|]. split; [repeat constructor|vm_compute; reflexivity]. Qed.

Example lsd_pass_inhabited :
  lsd_pass 3 3 [40; 9; 17; 8; 63; 1] = [1; 9; 8; 17; 40; 63] /\
  lsd_pass_spec 3 3 [40; 9; 17; 8; 63; 1] = [1; 9; 8; 17; 40; 63].
Proof. split; vm_compute; reflexivity. Qed.

Example adv_lsd_inhabited : adv_lsd 7 [300; 5; 70000; 5; 0] = [0; 5; 5; 300; 70000].
Proof. vm_compute; reflexivity. Qed.

Example loser_tree_merges_inhabited :
  Forall (Sorted N.le) [[1; 4; 4]; []; [0; 4; 9]; [2]] /\
  loser_merge [[1; 4; 4]; []; [0; 4; 9]; [2]] = [0; 1; 2; 4; 4; 4; 9] /\ loser_merge [] = [].
Proof. split; [repeat (apply Forall_cons; [sorted_by_eval|]); apply Forall_nil|split; vm_compute; reflexivity]. Qed.

Example merge_two_inhabited :
  Sorted N.le [1; 3; 3] /\ Sorted N.le [0; 3; 8] /\ merge_two [1; 3; 3] [0; 3; 8] = [0; 1; 3; 3; 3; 8].
Proof. split; [sorted_by_eval|split; [sorted_by_eval|vm_compute; reflexivity]]. Qed.

Example set_ops_inhabited :
  Sorted N.le [1; 2; 2; 3; 4] /\ Sorted N.le [2; 3; 3; 5] /\
  ms_inter [1; 2; 2; 3; 4] [2; 3; 3; 5] = [2; 2; 3] /\
  ms_inter2 [1; 2; 2; 3; 4] [2; 3; 3; 5] = [2; 3; 3] /\
  ms_union [1; 2; 2; 3; 4] [2; 3; 3; 5] = [1; 2; 2; 2; 3; 3; 3; 4; 5] /\
  ms_diff [1; 2; 2; 3; 4] [2; 3; 3; 5] = [1; 2; 4] /\
  set_unique [1; 2; 2; 3; 3; 3] = [1; 2; 3].
Proof. split; [sorted_by_eval|split; [sorted_by_eval|]]. repeat split; vm_compute; reflexivity. Qed.

Example is_sorted_perm_inhabited :
  is_sorted_perm [3; 1; 2; 1] [1; 1; 2; 3] = true /\ is_sorted_perm [3; 1; 2; 1] [1; 2; 3] = false /\
  is_sorted_perm [3; 1] [3; 1] = false.
Proof. repeat split; vm_compute; reflexivity. Qed.

Example insertion_sort_inhabited : insertion_sort [5; 2; 8; 2; 0] = [0; 2; 2; 5; 8].
Proof. vm_compute; reflexivity. Qed.

Example external_sort_inhabited :
  (0 < 2)%nat /\ rs_runs_of 2 [5; 2; 8; 1; 9; 3; 7; 4; 6] = [[2; 5]; [1; 8]; [3; 7]; [4; 6; 9]] /\
  rs_sort 2 [5; 2; 8; 1; 9; 3; 7; 4; 6] = [1; 2; 3; 4; 5; 6; 7; 8; 9].
Proof. split; [lia|split; vm_compute; reflexivity]. Qed.

(* witness: a buffer that holds no element loses the input (fixed in the code by ddd21a5) *)
Lemma external_sort_zero_buffer_refuted_proof : exists input, rs_sort 0 input <> isort input.
Proof. exists [3; 1; 2]. vm_compute. discriminate. Qed.
