(* C11 extension — AdvancedRadixSort::msd_radix_sort (src/algorithms/radix_sort.rs) as coded,
   for every element type the code is instantiated with.  Definitions only.

     fn msd_radix_sort(&mut self, data: &mut [T], depth: usize)
       if data.len() <= 1 { return }
       if data.len() <= insertion_sort_threshold || depth > 64 { return insertion_sort(data) }
       257 buckets; bucket index = get_byte(depth) + 1, or 0 when the element has no byte at `depth`
       buckets are copied back in index order; bucket i > 0 with more than one element is sorted
       recursively at depth + 1; bucket 0 (end of string) is copied back as it is.

   The element type is a section variable with
     bytes : T -> list N    RadixSortable::get_byte (x.get_byte(p) = nth_error (bytes x) p)
     gtb   : T -> T -> bool `data[j-1] > key` of the element's Ord in insertion_sort
   Instances: RadixString (bytes = the slice itself, Ord = derived slice order = lexicographic),
   u32 / u64 (bytes = big-endian bytes ((x >> 8*(w-1-p)) & 0xFF), Ord = numeric). *)
From ZV.Common Require Import Base Run.
From ZV.C11 Require Import Model.
Open Scope N_scope.

(* lexicographic order on byte strings: Ord of &[u8] *)
Fixpoint lex_leb (a b : list N) : bool :=
  match a, b with
  | [], _ => true
  | _ :: _, [] => false
  | x :: a', y :: b' => if x <? y then true else if y <? x then false else lex_leb a' b'
  end.
Definition lex_le (a b : list N) : Prop := lex_leb a b = true.
(* a byte string: every element is a u8 *)
Definition str_ok (s : list N) : Prop := Forall (fun b => b < 256) s.

Section Generic.
  Variable T : Type.
  Variable bytes : T -> list N.
  Variable gtb : T -> T -> bool.

  (* insertion_sort: for i in 1..len { key = data[i]; shift every data[j-1] > key of the sorted
     prefix one place up; data[j] = key } *)
  Fixpoint ins_g (x : T) (l : list T) : list T :=
    match l with
    | [] => [x]
    | y :: t => if gtb y x then x :: l else y :: ins_g x t
    end.
  Definition isort_g (data : list T) : list T := fold_left (fun acc x => ins_g x acc) data [].

  Definition bucket_idx (depth : nat) (x : T) : nat :=
    match nth_error (bytes x) depth with Some b => S (N.to_nat b) | None => O end.
  Definition msd_bucket (depth i : nat) (data : list T) : list T :=
    filter (fun x => Nat.eqb (bucket_idx depth x) i) data.

  (* fuel: the recursion depth is bounded by the `depth > 64` cut-off, see msd_sort *)
  Fixpoint msd_go (fuel th depth : nat) (data : list T) : list T :=
    match fuel with
    | O => data
    | S f =>
      if Nat.leb (length data) 1 then data
      else if Nat.leb (length data) th || Nat.ltb 64 depth then isort_g data
      else flat_map (fun i => let b := msd_bucket depth i data in
                              if Nat.ltb 1 (length b) && Nat.ltb 0 i then msd_go f th (S depth) b else b)
                    (seq 0 257)
    end.
  (* depth runs 0, 1, ..., 65 at most: at depth 65 the cut-off applies; 66 levels *)
  Definition MSD_FUEL : nat := 66.
  Definition msd_sort (th : nat) (data : list T) : list T := msd_go MSD_FUEL th 0 data.
End Generic.

(* ---- RadixString ---- *)
Definition lex_gtb (a b : list N) : bool := negb (lex_leb a b).
Definition msd_str (th : nat) (data : list (list N)) : list (list N) :=
  msd_sort (list N) (fun s => s) lex_gtb th data.
Definition isort_str (data : list (list N)) : list (list N) := isort_g (list N) lex_gtb data.

(* ---- RadixSort::sort_bytes / sort_bytes_msd (Vec<Vec<u8>>): the same 257 buckets, no cut-off at all.
   After fix 50ae740 every level first skips the bytes that all its strings have in common
   (while d < first.len() && all(s.len() > d && s[d] == first[d]) { d += 1 }), then distributes on the
   byte at that depth; the recursion ends because a bucket i > 0 at depth d only holds strings longer
   than d.  fuel = longest string + 1 ---- *)
Definition all_share (depth : nat) (data : list (list N)) : bool :=
  match data with
  | [] => false
  | first :: _ =>
    match nth_error first depth with
    | None => false
    | Some b => forallb (fun s => match nth_error s depth with Some c => c =? b | None => false end) data
    end
  end.
Fixpoint skip_common (fuel depth : nat) (data : list (list N)) : nat :=
  match fuel with
  | O => depth
  | S f => if all_share depth data then skip_common f (S depth) data else depth
  end.
Definition first_len (data : list (list N)) : nat := match data with [] => O | s :: _ => length s end.

Fixpoint bytes_msd_go (fuel depth : nat) (data : list (list N)) : list (list N) :=
  match fuel with
  | O => data
  | S f =>
    if Nat.leb (length data) 1 then data
    else
      let d := skip_common (first_len data) depth data in
      flat_map (fun i => let b := msd_bucket (list N) (fun s => s) d i data in
                         if Nat.ltb 1 (length b) && Nat.ltb 0 i then bytes_msd_go f (S d) b else b)
               (seq 0 257)
  end.
Definition max_len (data : list (list N)) : nat := fold_left Nat.max (map (@length N) data) O.
Definition sort_bytes (data : list (list N)) : list (list N) := bytes_msd_go (S (max_len data)) 0 data.

(* the function before the fix: one recursion level per common byte.  Same result (ProofsMsd.v), but
   the number of nested calls is the length of the common prefix: msd_levels counts them *)
Fixpoint bytes_msd_go_unfixed (fuel depth : nat) (data : list (list N)) : list (list N) :=
  match fuel with
  | O => data
  | S f =>
    if Nat.leb (length data) 1 then data
    else flat_map (fun i => let b := msd_bucket (list N) (fun s => s) depth i data in
                            if Nat.ltb 1 (length b) && Nat.ltb 0 i then bytes_msd_go_unfixed f (S depth) b else b)
                  (seq 0 257)
  end.
Definition sort_bytes_unfixed (data : list (list N)) : list (list N) :=
  bytes_msd_go_unfixed (S (max_len data)) 0 data.
(* nesting depth of the calls (1 = the outermost call only); skip = with / without the prefix skip *)
Fixpoint msd_levels (skip : bool) (fuel depth : nat) (data : list (list N)) : nat :=
  match fuel with
  | O => O
  | S f =>
    if Nat.leb (length data) 1 then 1%nat
    else
      let d := if skip then skip_common (first_len data) depth data else depth in
      S (fold_left Nat.max
           (map (fun i => let b := msd_bucket (list N) (fun s => s) d i data in
                          if Nat.ltb 1 (length b) && Nat.ltb 0 i then msd_levels skip f (S d) b else O)
                (seq 0 257)) O)
  end.
Definition sort_bytes_levels (skip : bool) (data : list (list N)) : nat :=
  msd_levels skip (S (max_len data)) 0 data.

(* ---- u32 / u64: get_byte(p) = (x >> 8*(w-1-p)) & 0xFF for p < w ---- *)
Fixpoint be_bytes (w : nat) (x : N) : list N :=
  match w with
  | O => []
  | S w' => digit 8 (8 * N.of_nat w') x :: be_bytes w' x
  end.
Definition msd_int (w : nat) (th : nat) (data : list N) : list N :=
  msd_sort N (be_bytes w) (fun a b => b <? a) th data.

(* ---- a variant that is NOT in the tree (a plausible "optimisation"): return early once
   depth >= data[0].max_bytes().  Right for fixed-width integers, wrong for strings
   (msd_early_return_refuted). ---- *)
Section Early.
  Variable T : Type.
  Variable bytes : T -> list N.
  Variable gtb : T -> T -> bool.
  Definition first_ends (depth : nat) (data : list T) : bool :=
    match data with x :: _ => Nat.leb (length (bytes x)) depth | [] => false end.
  Fixpoint msd_go_early (fuel th depth : nat) (data : list T) : list T :=
    match fuel with
    | O => data
    | S f =>
      if Nat.leb (length data) 1 then data
      else if Nat.leb (length data) th || Nat.ltb 64 depth then isort_g T gtb data
      else if first_ends depth data then data
      else flat_map (fun i => let b := msd_bucket T bytes depth i data in
                              if Nat.ltb 1 (length b) && Nat.ltb 0 i then msd_go_early f th (S depth) b else b)
                    (seq 0 257)
    end.
End Early.
Definition msd_str_early (th : nat) (data : list (list N)) : list (list N) :=
  msd_go_early (list N) (fun s => s) lex_gtb MSD_FUEL th 0 data.
