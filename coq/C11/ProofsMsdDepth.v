(* C11 extension: nesting depth of RadixSort::sort_bytes_msd.  Before fix 50ae740 the number of
   nested calls was the length of the common prefix (two equal strings of length L: L + 1 calls,
   a stack overflow at about 100 KB); with the prefix skip it is at most the number of strings. *)
From ZV.Common Require Import Base Run.
From Coq Require Import Sorting.Sorted Sorting.Permutation.
From ZV.C11 Require Import Model ModelMsd ProofsMsd.
Open Scope N_scope.

Lemma filter_length_le_msd {A} (p : A -> bool) (l : list A) : (length (filter p l) <= length l)%nat.
Proof. induction l as [|x l IH]; cbn [filter length]; [lia|]. destruct (p x); cbn [length]; lia. Qed.

Lemma fold_max_acc (l : list nat) : forall acc, fold_left Nat.max l acc = Nat.max acc (fold_left Nat.max l O).
Proof.
  induction l as [|x l IH]; intros acc; cbn [fold_left]; [lia|].
  rewrite (IH (Nat.max acc x)), (IH (Nat.max O x)). lia.
Qed.
Lemma fold_max_le (f : nat -> nat) (l : list nat) (bound : nat) :
  (forall i, In i l -> (f i <= bound)%nat) -> (fold_left Nat.max (map f l) O <= bound)%nat.
Proof.
  induction l as [|x l IH]; intros H; cbn [map fold_left]; [lia|].
  rewrite fold_max_acc. specialize (H x (or_introl eq_refl)) as Hx.
  assert (fold_left Nat.max (map f l) O <= bound)%nat by (apply IH; intros i Hi; apply H; right; exact Hi). lia.
Qed.
Lemma fold_max_single (f : nat -> nat) (j : nat) : forall (l : list nat),
  In j l -> (forall i, In i l -> i <> j -> f i = O) -> fold_left Nat.max (map f l) O = f j.
Proof.
  induction l as [|x l IH]; intros Hin Hz; [destruct Hin|].
  cbn [map fold_left]. rewrite fold_max_acc.
  destruct (Nat.eq_dec x j) as [->|Hne].
  - destruct (in_dec Nat.eq_dec j l) as [Hj|Hj].
    + rewrite IH; [lia|exact Hj|]. intros i Hi. apply Hz. right; exact Hi.
    + assert (E : fold_left Nat.max (map f l) O = O).
      { assert (H : (fold_left Nat.max (map f l) O <= 0)%nat); [|lia].
        apply fold_max_le. intros i Hi. rewrite Hz; [lia|right; exact Hi|]. intros ->. contradiction. }
      rewrite E. lia.
  - destruct Hin as [->|Hin]; [contradiction|].
    rewrite (Hz x (or_introl eq_refl) Hne). rewrite IH; [lia|exact Hin|]. intros i Hi. apply Hz. right; exact Hi.
Qed.

(* ---------- before the fix: one level per common byte ---------- *)
Lemma nth_error_repeat {A} (a : A) : forall n d, nth_error (repeat a n) d = if Nat.ltb d n then Some a else None.
Proof.
  induction n as [|n IH]; intros d; cbn [repeat]; [destruct d; reflexivity|].
  destruct d as [|d]; cbn [nth_error]; [reflexivity|]. rewrite IH.
  destruct (Nat.ltb_spec d n), (Nat.ltb_spec (S d) (S n)); try reflexivity; lia.
Qed.

Lemma levels_unfixed_equal_strings (a : N) : a < 256 -> forall k d,
  msd_levels false (S k) d [repeat a (d + k); repeat a (d + k)] = S k.
Proof.
  intros Ha. induction k as [|k IH]; intros d.
  - cbn [msd_levels length Nat.leb]. f_equal. rewrite Nat.add_0_r.
    match goal with |- ?x = O => assert (H : (x <= 0)%nat); [|lia] end.
    apply fold_max_le. intros i _. cbn zeta. destruct (_ && _); lia.
  - cbn [msd_levels length Nat.leb].
    set (s := repeat a (d + S k)).
    assert (Hidx : bucket_idx (list N) (fun x => x) d s = S (N.to_nat a)).
    { unfold bucket_idx, s. rewrite nth_error_repeat. destruct (Nat.ltb_spec d (d + S k)); [reflexivity|lia]. }
    assert (Hb : forall i, msd_bucket (list N) (fun x => x) d i [s; s] = if Nat.eqb (S (N.to_nat a)) i then [s; s] else []).
    { intros i. unfold msd_bucket. cbn [filter]. rewrite Hidx. destruct (Nat.eqb (S (N.to_nat a)) i); reflexivity. }
    f_equal.
    rewrite (fold_max_single _ (S (N.to_nat a))).
    + cbn zeta. rewrite Hb, Nat.eqb_refl. cbn [length Nat.ltb Nat.leb andb].
      unfold s. replace (d + S k)%nat with (S d + k)%nat by lia. apply IH.
    + apply in_seq. lia.
    + intros i _ Hne. cbn zeta. rewrite Hb. destruct (Nat.eqb_spec (S (N.to_nat a)) i); [congruence|]. reflexivity.
Qed.

Lemma max_len_two (s : list N) : max_len [s; s] = length s.
Proof. unfold max_len. cbn [map fold_left]. lia. Qed.

(* two equal strings of length L: L + 1 nested calls *)
Lemma sort_bytes_unfixed_depth_proof (a : N) (L : nat) :
  a < 256 -> sort_bytes_levels false [repeat a L; repeat a L] = S L.
Proof.
  intros Ha. unfold sort_bytes_levels. rewrite max_len_two, repeat_length.
  apply (levels_unfixed_equal_strings a Ha L O).
Qed.

(* ---------- after the fix: every level splits its input ---------- *)
Lemma forallb_false {A} (p : A -> bool) (l : list A) : forallb p l = false -> exists x, In x l /\ p x = false.
Proof.
  induction l as [|x l IH]; cbn [forallb]; [discriminate|].
  destruct (p x) eqn:E; cbn [andb].
  - intros H. destruct (IH H) as (y & Hy & Hp). exists y. split; [right; exact Hy|exact Hp].
  - intros _. exists x. split; [left; reflexivity|exact E].
Qed.

Lemma skip_common_stops data : forall fuel depth,
  (first_len data <= depth + fuel)%nat -> all_share (skip_common fuel depth data) data = false.
Proof.
  induction fuel as [|f IH]; intros depth H; cbn [skip_common].
  - unfold all_share. destruct data as [|first rest]; [reflexivity|]. cbn [first_len] in H.
    assert (E : nth_error first depth = None) by (apply nth_error_None; lia). rewrite E. reflexivity.
  - destruct (all_share depth data) eqn:E; [apply IH; lia|exact E].
Qed.

(* when not all strings share the byte at d, no bucket i > 0 holds all of them *)
Lemma unshared_bucket_smaller d (data : list (list N)) i :
  data <> [] -> all_share d data = false -> (0 < i)%nat ->
  (length (msd_bucket (list N) (fun s => s) d i data) < length data)%nat.
Proof.
  intros Hne Hs Hi.
  assert (Hex : exists x, In x data /\ bucket_idx (list N) (fun s => s) d x <> i).
  { unfold all_share in Hs. destruct data as [|first rest]; [congruence|].
    destruct (nth_error first d) as [b|] eqn:Eb.
    - apply forallb_false in Hs as (x & Hx & Hp).
      destruct (Nat.eq_dec (bucket_idx (list N) (fun s => s) d first) i) as [E|NE].
      + exists x. split; [exact Hx|]. unfold bucket_idx in *. rewrite Eb in E.
        destruct (nth_error x d) as [c|]; [|lia]. apply N.eqb_neq in Hp. lia.
      + exists first. split; [left; reflexivity|exact NE].
    - exists first. split; [left; reflexivity|]. unfold bucket_idx. rewrite Eb. lia. }
  destruct Hex as (x & Hx & Hxi). unfold msd_bucket.
  clear Hne Hs. induction data as [|y data IH]; [destruct Hx|].
  cbn [filter length]. pose proof (filter_length_le_msd (fun x0 => Nat.eqb (bucket_idx (list N) (fun s => s) d x0) i) data) as Hle.
  destruct Hx as [->|Hx].
  - destruct (Nat.eqb_spec (bucket_idx (list N) (fun s => s) d x) i); [contradiction|]. lia.
  - specialize (IH Hx). destruct (Nat.eqb _ i); cbn [length]; lia.
Qed.

Lemma msd_levels_fixed_bound fuel : forall depth data,
  data <> [] -> (msd_levels true fuel depth data <= length data)%nat.
Proof.
  induction fuel as [|f IH]; intros depth data Hne; cbn [msd_levels].
  - destruct data; [congruence|cbn [length]; lia].
  - destruct (Nat.leb_spec (length data) 1) as [H1|H1].
    { destruct data; [congruence|cbn [length]; lia]. }
    set (d := skip_common (first_len data) depth data).
    assert (Hstop : all_share d data = false) by (apply skip_common_stops; lia).
    match goal with |- (S ?x <= _)%nat => assert (H : (x <= length data - 1)%nat); [|lia] end.
    apply fold_max_le. intros i _. cbn zeta.
    destruct (Nat.ltb_spec 1 (length (msd_bucket (list N) (fun s => s) d i data))) as [Hl|Hl]; cbn [andb]; [|lia].
    destruct (Nat.ltb_spec 0 i) as [Hi|Hi]; [|lia].
    pose proof (unshared_bucket_smaller d data i Hne Hstop Hi) as Hlt.
    assert (Hbne : msd_bucket (list N) (fun s => s) d i data <> []).
    { intros E. rewrite E in Hl. cbn [length] in Hl. lia. }
    specialize (IH (S d) _ Hbne). lia.
Qed.

Lemma sort_bytes_depth_bounded_proof (data : list (list N)) :
  data <> [] -> (sort_bytes_levels true data <= length data)%nat.
Proof. intros H. apply msd_levels_fixed_bound. exact H. Qed.
