(* C11 extension: MSD radix sort as coded sorts (lexicographic byte order), for every
   insertion-sort threshold. *)
From ZV.Common Require Import Base Run.
From Coq Require Import Sorting.Sorted Sorting.Permutation.
From ZV.C11 Require Import Model ModelMsd ProofsSpec ProofsLsd.
Open Scope N_scope.

(* ---------- the lexicographic order is a total preorder, antisymmetric ---------- *)
Lemma lex_leb_refl a : lex_leb a a = true.
Proof. induction a as [|x a IH]; cbn [lex_leb]; [reflexivity|]. rewrite N.ltb_irrefl. exact IH. Qed.

Lemma lex_leb_cons x a y b :
  lex_leb (x :: a) (y :: b) = if x <? y then true else if y <? x then false else lex_leb a b.
Proof. reflexivity. Qed.

Lemma lex_leb_total a : forall b, lex_leb a b = true \/ lex_leb b a = true.
Proof.
  induction a as [|x a IH]; intros [|y b]; cbn [lex_leb]; auto.
  destruct (N.ltb_spec x y), (N.ltb_spec y x); auto; lia.
Qed.

Lemma lex_leb_trans a : forall b c, lex_leb a b = true -> lex_leb b c = true -> lex_leb a c = true.
Proof.
  induction a as [|x a IH]; intros [|y b] [|z c]; cbn [lex_leb]; auto; try discriminate.
  destruct (N.ltb_spec x y), (N.ltb_spec y x), (N.ltb_spec y z), (N.ltb_spec z y),
           (N.ltb_spec x z), (N.ltb_spec z x); auto; try discriminate; try lia.
  apply IH.
Qed.

Lemma lex_leb_antisym a : forall b, lex_leb a b = true -> lex_leb b a = true -> a = b.
Proof.
  induction a as [|x a IH]; intros [|y b]; cbn [lex_leb]; auto; try discriminate.
  destruct (N.ltb_spec x y), (N.ltb_spec y x); try discriminate; try lia.
  intros H1 H2. assert (x = y) by lia. subst. f_equal. apply IH; assumption.
Qed.

(* ---------- generic list facts ---------- *)
Lemma SS_app_gen {A} (R : A -> A -> Prop) (l1 l2 : list A) :
  StronglySorted R l1 -> StronglySorted R l2 -> (forall a b, In a l1 -> In b l2 -> R a b) ->
  StronglySorted R (l1 ++ l2).
Proof.
  induction l1 as [|x l1 IH]; intros H1 H2 Hc; cbn [app]; [assumption|].
  inversion H1 as [|? ? H1' Hx]; subst. constructor.
  - apply IH; [assumption|assumption|]. intros a b Ha Hb. apply Hc; [right|]; assumption.
  - apply Forall_app; split; [assumption|].
    apply Forall_forall; intros b Hb. apply Hc; [left; reflexivity|assumption].
Qed.

Lemma SS_all {A} (R : A -> A -> Prop) (l : list A) :
  (forall a b, In a l -> In b l -> R a b) -> StronglySorted R l.
Proof.
  induction l as [|x l IH]; intros H; constructor.
  - apply IH. intros a b Ha Hb. apply H; right; assumption.
  - apply Forall_forall. intros b Hb. apply H; [left; reflexivity|right; assumption].
Qed.

Lemma SS_flat_map {A} (R : A -> A -> Prop) (f : nat -> list A) (n : nat) : forall s,
  (forall i, StronglySorted R (f i)) ->
  (forall i j a b, (i < j)%nat -> In a (f i) -> In b (f j) -> R a b) ->
  StronglySorted R (flat_map f (seq s n)).
Proof.
  induction n as [|n IH]; intros s Hs Hc; cbn [seq flat_map]; [constructor|].
  apply SS_app_gen; [apply Hs|apply IH; assumption|].
  intros a b Ha Hb. apply in_flat_map in Hb as (j & Hj & Hb). apply in_seq in Hj.
  apply (Hc s j); [lia|assumption|assumption].
Qed.

Lemma flat_map_perm {A} (f g : nat -> list A) (l : list nat) :
  (forall i, Permutation (f i) (g i)) -> Permutation (flat_map f l) (flat_map g l).
Proof.
  intros H. induction l as [|x l IH]; cbn [flat_map]; [constructor|].
  apply Permutation_app; [apply H|exact IH].
Qed.

Lemma filter_split_perm {A} (p q r : A -> bool) (l : list A) :
  (forall x, p x = q x || r x) -> (forall x, q x = true -> r x = true -> False) ->
  Permutation (filter p l) (filter q l ++ filter r l).
Proof.
  intros Hp Hd. induction l as [|x l IH]; cbn [filter]; [constructor|].
  rewrite Hp. destruct (q x) eqn:Eq, (r x) eqn:Er; cbn [orb app].
  - exfalso. eapply Hd; eassumption.
  - apply perm_skip. exact IH.
  - eapply perm_trans; [apply perm_skip; exact IH|]. apply Permutation_middle.
  - exact IH.
Qed.

(* the buckets of a list indexed below n are a permutation of it *)
Lemma buckets_perm_idx {A} (idx : A -> nat) (l : list A) (n : nat) :
  Permutation (filter (fun x => Nat.ltb (idx x) n) l)
              (flat_map (fun i => filter (fun x => Nat.eqb (idx x) i) l) (seq 0 n)).
Proof.
  induction n as [|n IH].
  - cbn [seq flat_map]. replace (filter _ l) with (@nil A); [constructor|].
    induction l as [|x l IHl]; cbn [filter]; [reflexivity|]. exact IHl.
  - rewrite seq_S, flat_map_app. cbn [flat_map Nat.add]. rewrite app_nil_r.
    eapply perm_trans; [|apply Permutation_app_tail; exact IH].
    apply filter_split_perm.
    + intros x. destruct (Nat.ltb_spec (idx x) (S n)), (Nat.ltb_spec (idx x) n), (Nat.eqb_spec (idx x) n);
        cbn [orb]; try reflexivity; lia.
    + intros x H1 H2. apply Nat.ltb_lt in H1. apply Nat.eqb_eq in H2. lia.
Qed.

Lemma filter_all_true {A} (p : A -> bool) (l : list A) : (forall x, In x l -> p x = true) -> filter p l = l.
Proof.
  induction l as [|x l IH]; intros H; cbn [filter]; [reflexivity|].
  rewrite H by (left; reflexivity). f_equal. apply IH. intros y Hy. apply H. right; exact Hy.
Qed.

(* ---------- the generic development ---------- *)
Section Generic.
  Variable T : Type.
  Variable bytes : T -> list N.
  Variable gtb : T -> T -> bool.
  Variable okT : T -> Prop.     (* the values the element type can take (u32: below 2^32) *)
  Hypothesis okT_bytes : forall x, okT x -> Forall (fun b => b < 256) (bytes x).
  Hypothesis gtb_spec : forall x y, okT x -> okT y -> gtb x y = negb (lex_leb (bytes x) (bytes y)).

  Definition leT (x y : T) : Prop := lex_le (bytes x) (bytes y).

  (* insertion sort *)
  Lemma ins_g_perm x l : Permutation (x :: l) (ins_g T gtb x l).
  Proof.
    induction l as [|y l IH]; cbn [ins_g]; [reflexivity|].
    destruct (gtb y x); [reflexivity|].
    eapply perm_trans; [apply perm_swap|]. apply perm_skip. exact IH.
  Qed.
  Lemma ins_g_SS x l : okT x -> Forall okT l -> StronglySorted leT l -> StronglySorted leT (ins_g T gtb x l).
  Proof.
    intros Hox. induction l as [|y l IH]; intros Hol H; cbn [ins_g].
    - constructor; [constructor|constructor].
    - inversion H as [|? ? H' Hy]; subst. inversion Hol as [|? ? Hoy Hol']; subst.
      rewrite gtb_spec by assumption.
      destruct (lex_leb (bytes y) (bytes x)) eqn:E; cbn [negb].
      + constructor; [apply IH; assumption|].
        apply Forall_forall. intros z Hz.
        apply (Permutation_in _ (Permutation_sym (ins_g_perm x l))) in Hz.
        destruct Hz as [<-|Hz]; [exact E|]. rewrite Forall_forall in Hy. apply Hy; exact Hz.
      + assert (Hxy : leT x y).
        { destruct (lex_leb_total (bytes x) (bytes y)) as [Hxy|Hyx]; [exact Hxy|congruence]. }
        constructor; [exact H|]. constructor; [exact Hxy|].
        rewrite Forall_forall in *. intros z Hz. unfold leT, lex_le in *.
        eapply lex_leb_trans; [exact Hxy|apply Hy; exact Hz].
  Qed.
  Lemma isort_g_loop data : forall acc,
    Forall okT acc -> Forall okT data -> StronglySorted leT acc ->
    StronglySorted leT (fold_left (fun a x => ins_g T gtb x a) data acc) /\
    Permutation (acc ++ data) (fold_left (fun a x => ins_g T gtb x a) data acc).
  Proof.
    induction data as [|x data IH]; intros acc Hoa Hod H; cbn [fold_left].
    - rewrite app_nil_r. split; [exact H|reflexivity].
    - inversion Hod as [|? ? Hox Hod']; subst.
      destruct (IH (ins_g T gtb x acc)) as [H1 H2].
      + rewrite Forall_forall in *. intros z Hz.
        apply (Permutation_in _ (Permutation_sym (ins_g_perm x acc))) in Hz.
        destruct Hz as [<-|Hz]; [exact Hox|apply Hoa; exact Hz].
      + exact Hod'.
      + apply ins_g_SS; assumption.
      + split; [exact H1|].
        eapply perm_trans; [|exact H2].
        eapply perm_trans; [apply Permutation_sym; apply Permutation_middle|].
        apply (Permutation_app_tail data (ins_g_perm x acc)).
  Qed.
  Lemma isort_g_sorts data : Forall okT data ->
    StronglySorted leT (isort_g T gtb data) /\ Permutation data (isort_g T gtb data).
  Proof. intros H. apply (isort_g_loop data []); [constructor|exact H|constructor]. Qed.

  (* buckets *)
  Definition ok_bytes (x : T) : Prop := okT x.
  (* all elements agree on their first `depth` bytes and have that many *)
  Definition common (depth : nat) (data : list T) : Prop :=
    forall x y, In x data -> In y data ->
      firstn depth (bytes x) = firstn depth (bytes y) /\ (depth <= length (bytes x))%nat.

  Lemma bucket_idx_lt depth x : ok_bytes x -> (bucket_idx T bytes depth x < 257)%nat.
  Proof.
    intros H. unfold bucket_idx. destruct (nth_error (bytes x) depth) as [b|] eqn:E; [|lia].
    apply nth_error_In in E. apply okT_bytes in H. rewrite Forall_forall in H. specialize (H b E). lia.
  Qed.

  Lemma msd_buckets_perm depth data :
    Forall ok_bytes data ->
    Permutation data (flat_map (fun i => msd_bucket T bytes depth i data) (seq 0 257)).
  Proof.
    intros H. unfold msd_bucket.
    eapply perm_trans; [|apply (buckets_perm_idx (bucket_idx T bytes depth) data 257)].
    rewrite filter_all_true; [reflexivity|].
    intros x Hx. apply Nat.ltb_lt. apply bucket_idx_lt. rewrite Forall_forall in H. apply H; exact Hx.
  Qed.

  (* order between two strings that agree on the first d bytes is decided by the bucket index *)
  Lemma idx_order d : forall kx ky,
    firstn d kx = firstn d ky -> (d <= length kx)%nat -> (d <= length ky)%nat ->
    (match nth_error kx d with Some b => S (N.to_nat b) | None => O end
     < match nth_error ky d with Some b => S (N.to_nat b) | None => O end)%nat ->
    lex_leb kx ky = true.
  Proof.
    induction d as [|d IH]; intros kx ky Hf Hx Hy Hlt.
    - destruct kx as [|a kx]; [reflexivity|]. destruct ky as [|b ky]; cbn [nth_error] in Hlt; [lia|].
      rewrite lex_leb_cons. destruct (N.ltb_spec a b); [reflexivity|lia].
    - destruct kx as [|a kx]; [cbn [length] in Hx; lia|]. destruct ky as [|b ky]; [cbn [length] in Hy; lia|].
      cbn [firstn] in Hf. injection Hf as -> Hf. cbn [nth_error length] in *.
      rewrite lex_leb_cons, N.ltb_irrefl. apply IH; [exact Hf|lia|lia|exact Hlt].
  Qed.

  Lemma idx_zero_eq d (kx ky : list N) :
    firstn d kx = firstn d ky -> (d <= length ky)%nat ->
    nth_error kx d = None -> nth_error ky d = None -> kx = ky.
  Proof.
    intros Hf Hy Nx Ny. apply nth_error_None in Nx. apply nth_error_None in Ny.
    rewrite <- (firstn_all2 kx Nx), <- (firstn_all2 ky Ny). exact Hf.
  Qed.

  Lemma firstn_S_nth {A} (l1 l2 : list A) d b :
    firstn d l1 = firstn d l2 -> nth_error l1 d = Some b -> nth_error l2 d = Some b ->
    firstn (S d) l1 = firstn (S d) l2.
  Proof.
    revert l1 l2; induction d as [|d IH]; intros [|a l1] [|c l2] Hf H1 H2; cbn [nth_error firstn] in *;
      try discriminate.
    - congruence.
    - injection Hf as -> Hf. f_equal. apply IH; assumption.
  Qed.

  Lemma in_bucket depth i data x :
    In x (msd_bucket T bytes depth i data) <-> In x data /\ bucket_idx T bytes depth x = i.
  Proof. unfold msd_bucket. rewrite filter_In, Nat.eqb_eq. reflexivity. Qed.

  Lemma common_bucket depth b data :
    common depth data -> common (S depth) (msd_bucket T bytes depth (S b) data).
  Proof.
    intros Hc x y Hx Hy. apply in_bucket in Hx as [Hx Ix]. apply in_bucket in Hy as [Hy Iy].
    destruct (Hc x y Hx Hy) as [Hf Hl]. unfold bucket_idx in Ix, Iy.
    destruct (nth_error (bytes x) depth) as [bx|] eqn:Ex; [|discriminate].
    destruct (nth_error (bytes y) depth) as [by_|] eqn:Ey; [|discriminate].
    assert (bx = by_) by lia. subst by_. split.
    - eapply firstn_S_nth; eassumption.
    - assert (nth_error (bytes x) depth <> None) by congruence.
      apply nth_error_Some in H. lia.
  Qed.

  (* bucket 0 (no byte at this depth): all members are the same string *)
  Lemma bucket0_sorted depth data :
    common depth data -> StronglySorted leT (msd_bucket T bytes depth 0 data).
  Proof.
    intros Hc. apply SS_all. intros x y Hx Hy.
    apply in_bucket in Hx as [Hx Ix]. apply in_bucket in Hy as [Hy Iy].
    destruct (Hc x y Hx Hy) as [Hfx _]. destruct (Hc y x Hy Hx) as [_ Hly].
    unfold bucket_idx in Ix, Iy.
    destruct (nth_error (bytes x) depth) eqn:Ex; [discriminate|].
    destruct (nth_error (bytes y) depth) eqn:Ey; [discriminate|].
    unfold leT, lex_le. rewrite (idx_zero_eq depth (bytes x) (bytes y) Hfx Hly Ex Ey).
    apply lex_leb_refl.
  Qed.
  Lemma short_sorted (l : list T) : (length l <= 1)%nat -> StronglySorted leT l.
  Proof. destruct l as [|x [|y l]]; cbn [length]; intros H; try lia; repeat constructor. Qed.
  Lemma bucket_ok depth i data : Forall ok_bytes data -> Forall ok_bytes (msd_bucket T bytes depth i data).
  Proof.
    intros Hok. rewrite Forall_forall in *. intros x Hx. apply in_bucket in Hx as [Hx _]. apply Hok; exact Hx.
  Qed.

  (* one level: the pieces (sorted buckets) in index order *)
  Lemma level_sorts (piece : nat -> list T) depth data :
    Forall ok_bytes data -> common depth data ->
    (forall i, StronglySorted leT (piece i) /\ Permutation (msd_bucket T bytes depth i data) (piece i)) ->
    StronglySorted leT (flat_map piece (seq 0 257)) /\ Permutation data (flat_map piece (seq 0 257)).
  Proof.
    intros Hok Hc Hpiece. split.
    - apply SS_flat_map; [intros i; apply Hpiece|].
      intros i j a b Hij Ha Hb.
      apply (Permutation_in _ (Permutation_sym (proj2 (Hpiece i)))) in Ha.
      apply (Permutation_in _ (Permutation_sym (proj2 (Hpiece j)))) in Hb.
      apply in_bucket in Ha as [Ha Ia]. apply in_bucket in Hb as [Hb Ib].
      destruct (Hc a b Ha Hb) as [Hfab Hla]. destruct (Hc b a Hb Ha) as [_ Hlb].
      unfold leT, lex_le. apply (idx_order depth); [exact Hfab|exact Hla|exact Hlb|].
      unfold bucket_idx in Ia, Ib. rewrite Ia, Ib. exact Hij.
    - eapply perm_trans; [apply (msd_buckets_perm depth data Hok)|].
      apply flat_map_perm. intros i. apply Hpiece.
  Qed.

  Lemma msd_go_sorts fuel th : forall depth data,
    (depth <= 65)%nat -> (66 - depth <= fuel)%nat ->
    Forall ok_bytes data -> common depth data ->
    StronglySorted leT (msd_go T bytes gtb fuel th depth data) /\
    Permutation data (msd_go T bytes gtb fuel th depth data).
  Proof.
    induction fuel as [|f IH]; intros depth data Hd Hf Hok Hc; [lia|].
    cbn [msd_go].
    destruct (Nat.leb_spec (length data) 1) as [H1|H1].
    { split; [apply short_sorted; exact H1|reflexivity]. }
    destruct (Nat.leb (length data) th || Nat.ltb 64 depth) eqn:Ecut.
    { apply isort_g_sorts. exact Hok. }
    apply orb_false_iff in Ecut as [_ Edepth]. apply Nat.ltb_ge in Edepth.
    apply (level_sorts _ depth); [exact Hok|exact Hc|].
    intros i. cbn zeta.
    destruct (Nat.ltb_spec 1 (length (msd_bucket T bytes depth i data))) as [Hlen|Hlen]; cbn [andb].
    - destruct i as [|b]; cbn [Nat.ltb Nat.leb].
      + split; [apply bucket0_sorted; exact Hc|reflexivity].
      + apply IH; [lia|lia|apply bucket_ok; exact Hok|apply common_bucket; exact Hc].
    - split; [apply short_sorted; lia|reflexivity].
  Qed.

  Theorem msd_sort_sorts th data :
    Forall ok_bytes data ->
    StronglySorted leT (msd_sort T bytes gtb th data) /\ Permutation data (msd_sort T bytes gtb th data).
  Proof.
    intros Hok. unfold msd_sort, MSD_FUEL. apply msd_go_sorts; [lia|lia|exact Hok|].
    intros x y _ _. split; [reflexivity|lia].
  Qed.
End Generic.

(* ---------- RadixString ---------- *)

Lemma msd_str_sorts th data :
  Forall str_ok data ->
  StronglySorted lex_le (msd_str th data) /\ Permutation data (msd_str th data).
Proof.
  intros H. unfold msd_str.
  apply (msd_sort_sorts (list N) (fun s => s) lex_gtb str_ok); [intros x Hx; exact Hx| |exact H].
  intros x y _ _. reflexivity.
Qed.

Lemma isort_str_sorts data :
  StronglySorted lex_le (isort_str data) /\ Permutation data (isort_str data).
Proof.
  unfold isort_str.
  apply (isort_g_sorts (list N) (fun s => s) lex_gtb (fun _ => True)).
  - intros x y _ _. reflexivity.
  - apply Forall_forall. intros; exact I.
Qed.

(* two lex-sorted permutations of each other are equal: the sorted order of strings is unique *)
Lemma lex_sorted_perm_unique (a : list (list N)) : forall b,
  StronglySorted lex_le a -> StronglySorted lex_le b -> Permutation a b -> a = b.
Proof.
  induction a as [|x a IH]; intros b Ha Hb Hp.
  - apply Permutation_nil in Hp. subst; reflexivity.
  - destruct b as [|y b]; [apply Permutation_sym, Permutation_nil in Hp; discriminate|].
    inversion Ha as [|? ? Ha' Hx]; subst. inversion Hb as [|? ? Hb' Hy]; subst.
    assert (x = y).
    { assert (Hin1 : In x (y :: b)) by (eapply Permutation_in; [exact Hp|left; reflexivity]).
      assert (Hin2 : In y (x :: a)) by (eapply Permutation_in; [apply Permutation_sym; exact Hp|left; reflexivity]).
      rewrite Forall_forall in Hx, Hy.
      destruct Hin1 as [->|Hin1]; [reflexivity|]. destruct Hin2 as [->|Hin2]; [reflexivity|].
      apply lex_leb_antisym; [apply Hx; exact Hin2|apply Hy; exact Hin1]. }
    subst y. f_equal. apply IH; [assumption|assumption|]. eapply Permutation_cons_inv; exact Hp.
Qed.

(* ---------- RadixSort::sort_bytes ---------- *)
Lemma fold_max_ge_nat (l : list nat) : forall acc x, In x l \/ (x <= acc)%nat -> (x <= fold_left Nat.max l acc)%nat.
Proof.
  induction l as [|y l IH]; intros acc x [Hin|Hle]; cbn [fold_left].
  - destruct Hin.
  - exact Hle.
  - destruct Hin as [->|Hin]; apply IH; [right; lia|left; exact Hin].
  - apply IH. right. lia.
Qed.
Lemma max_len_ge data x : In x data -> (length x <= max_len data)%nat.
Proof. intros H. apply fold_max_ge_nat. left. apply in_map. exact H. Qed.

Lemma str_gtb_spec : forall x y : list N, str_ok x -> str_ok y -> lex_gtb x y = negb (lex_leb x y).
Proof. reflexivity. Qed.

Lemma all_share_common depth data :
  all_share depth data = true -> common (list N) (fun s => s) depth data ->
  common (list N) (fun s => s) (S depth) data.
Proof.
  intros Hs Hc. unfold all_share in Hs. destruct data as [|first rest]; [discriminate|].
  destruct (nth_error first depth) as [b|] eqn:Eb; [|discriminate].
  rewrite forallb_forall in Hs.
  assert (Hall : forall s, In s (first :: rest) -> nth_error s depth = Some b).
  { intros s Hin. specialize (Hs s Hin). destruct (nth_error s depth) as [c|]; [|discriminate].
    apply N.eqb_eq in Hs. subst c. reflexivity. }
  intros x y Hx Hy. destruct (Hc x y Hx Hy) as [Hf _]. split.
  - apply (firstn_S_nth x y depth b); [exact Hf|apply Hall; exact Hx|apply Hall; exact Hy].
  - assert (H : nth_error x depth <> None) by (rewrite (Hall x Hx); discriminate).
    apply nth_error_Some in H. lia.
Qed.

Lemma skip_common_spec data fuel : forall depth,
  common (list N) (fun s => s) depth data ->
  common (list N) (fun s => s) (skip_common fuel depth data) data /\ (depth <= skip_common fuel depth data)%nat.
Proof.
  induction fuel as [|f IH]; intros depth Hc; cbn [skip_common]; [split; [exact Hc|lia]|].
  destruct (all_share depth data) eqn:E; [|split; [exact Hc|lia]].
  destruct (IH (S depth) (all_share_common depth data E Hc)) as [H1 H2]. split; [exact H1|lia].
Qed.

Lemma bytes_msd_go_sorts fuel : forall depth data,
  (forall x, In x data -> (length x < fuel + depth)%nat) ->
  Forall str_ok data -> common (list N) (fun s => s) depth data ->
  StronglySorted lex_le (bytes_msd_go fuel depth data) /\ Permutation data (bytes_msd_go fuel depth data).
Proof.
  induction fuel as [|f IH]; intros depth data Hlen Hok Hc0.
  - cbn [bytes_msd_go]. split; [|reflexivity]. destruct data as [|x data]; [constructor|].
    exfalso. destruct (Hc0 x x) as [_ Hl]; try (left; reflexivity).
    specialize (Hlen x (or_introl eq_refl)). cbn [Nat.add] in Hlen. lia.
  - cbn [bytes_msd_go].
    destruct (Nat.leb_spec (length data) 1) as [H1|H1].
    { split; [|reflexivity]. destruct data as [|x [|y l]]; cbn [length] in H1; try lia; repeat constructor. }
    destruct (skip_common_spec data (first_len data) depth Hc0) as [Hc Hd].
    set (d := skip_common (first_len data) depth data) in *.
    apply (level_sorts (list N) (fun s => s) lex_gtb str_ok (fun x Hx => Hx) str_gtb_spec _ d); [exact Hok|exact Hc|].
    intros i. cbn zeta.
    destruct (Nat.ltb_spec 1 (length (msd_bucket (list N) (fun s => s) d i data))) as [Hl|Hl]; cbn [andb].
    + destruct i as [|b]; cbn [Nat.ltb Nat.leb].
      * split; [apply (bucket0_sorted (list N) (fun s => s)); exact Hc|reflexivity].
      * apply IH.
        -- intros x Hx. apply in_bucket in Hx as [Hx _]. specialize (Hlen x Hx). lia.
        -- apply (bucket_ok (list N) (fun s => s) str_ok). exact Hok.
        -- apply (common_bucket (list N) (fun s => s) lex_gtb str_ok (fun x Hx => Hx) str_gtb_spec). exact Hc.
    + split; [|reflexivity].
      destruct (msd_bucket (list N) (fun s => s) d i data) as [|x [|y l]]; cbn [length] in Hl; try lia;
        repeat constructor.
Qed.

Lemma sort_bytes_sorts data :
  Forall str_ok data ->
  StronglySorted lex_le (sort_bytes data) /\ Permutation data (sort_bytes data).
Proof.
  intros Hok. unfold sort_bytes. apply bytes_msd_go_sorts; [|exact Hok|].
  - intros x Hx. apply max_len_ge in Hx. lia.
  - intros x y _ _. split; [reflexivity|lia].
Qed.

(* the function before the fix computes the same thing ... *)
Lemma bytes_msd_go_unfixed_sorts fuel : forall depth data,
  (forall x, In x data -> (length x < fuel + depth)%nat) ->
  Forall str_ok data -> common (list N) (fun s => s) depth data ->
  StronglySorted lex_le (bytes_msd_go_unfixed fuel depth data) /\ Permutation data (bytes_msd_go_unfixed fuel depth data).
Proof.
  induction fuel as [|f IH]; intros depth data Hlen Hok Hc.
  - cbn [bytes_msd_go_unfixed]. split; [|reflexivity]. destruct data as [|x data]; [constructor|].
    exfalso. destruct (Hc x x) as [_ Hl]; try (left; reflexivity).
    specialize (Hlen x (or_introl eq_refl)). cbn [Nat.add] in Hlen. lia.
  - cbn [bytes_msd_go_unfixed].
    destruct (Nat.leb_spec (length data) 1) as [H1|H1].
    { split; [|reflexivity]. destruct data as [|x [|y l]]; cbn [length] in H1; try lia; repeat constructor. }
    apply (level_sorts (list N) (fun s => s) lex_gtb str_ok (fun x Hx => Hx) str_gtb_spec _ depth); [exact Hok|exact Hc|].
    intros i. cbn zeta.
    destruct (Nat.ltb_spec 1 (length (msd_bucket (list N) (fun s => s) depth i data))) as [Hl|Hl]; cbn [andb].
    + destruct i as [|b]; cbn [Nat.ltb Nat.leb].
      * split; [apply (bucket0_sorted (list N) (fun s => s)); exact Hc|reflexivity].
      * apply IH.
        -- intros x Hx. apply in_bucket in Hx as [Hx _]. specialize (Hlen x Hx). lia.
        -- apply (bucket_ok (list N) (fun s => s) str_ok). exact Hok.
        -- apply (common_bucket (list N) (fun s => s) lex_gtb str_ok (fun x Hx => Hx) str_gtb_spec). exact Hc.
    + split; [|reflexivity].
      destruct (msd_bucket (list N) (fun s => s) depth i data) as [|x [|y l]]; cbn [length] in Hl; try lia;
        repeat constructor.
Qed.

Lemma sort_bytes_unfixed_eq data : Forall str_ok data -> sort_bytes_unfixed data = sort_bytes data.
Proof.
  intros Hok. destruct (sort_bytes_sorts data Hok) as [A1 A2].
  destruct (bytes_msd_go_unfixed_sorts (S (max_len data)) 0 data) as [B1 B2].
  - intros x Hx. apply max_len_ge in Hx. lia.
  - exact Hok.
  - intros x y _ _. split; [reflexivity|lia].
  - apply lex_sorted_perm_unique; [exact B1|exact A1|].
    eapply perm_trans; [apply Permutation_sym; exact B2|exact A2].
Qed.

(* ---------- u32 / u64 ---------- *)
Lemma lex_step_arith P xl xh yl yh :
  xl < P -> yl < P ->
  (if xh <? yh then true else if yh <? xh then false else xl <=? yl) = (xl + P * xh <=? yl + P * yh).
Proof.
  intros Hx Hy. destruct (N.ltb_spec xh yh); [|destruct (N.ltb_spec yh xh)]; symmetry.
  - apply N.leb_le. nia.
  - apply N.leb_gt. nia.
  - assert (xh = yh) by lia. subst. destruct (N.leb_spec xl yl); [apply N.leb_le|apply N.leb_gt]; nia.
Qed.

Lemma pow256 w : 2 ^ (8 * N.of_nat w) = 256 ^ N.of_nat w.
Proof. rewrite N.pow_mul_r. reflexivity. Qed.

Lemma be_bytes_order w : forall x y,
  lex_leb (be_bytes w x) (be_bytes w y) = (x mod 256 ^ N.of_nat w <=? y mod 256 ^ N.of_nat w).
Proof.
  induction w as [|w IH]; intros x y.
  - cbn [be_bytes lex_leb N.of_nat]. rewrite N.pow_0_r, !N.mod_1_r. reflexivity.
  - cbn [be_bytes]. rewrite lex_leb_cons, IH, !digit_spec, pow256.
    replace (256 ^ N.of_nat (S w)) with (256 ^ N.of_nat w * 256)
      by (rewrite Nat2N.inj_succ, N.pow_succ_r'; lia).
    assert (Hp : 256 ^ N.of_nat w <> 0) by (apply N.pow_nonzero; discriminate).
    rewrite !(N.mod_mul_r _ _ 256) by (assumption || discriminate).
    change (2 ^ 8) with 256.
    apply lex_step_arith; apply N.mod_lt; exact Hp.
Qed.

Lemma be_bytes_ok w x : Forall (fun b => b < 256) (be_bytes w x).
Proof.
  induction w as [|w IH]; cbn [be_bytes]; constructor; [|exact IH].
  rewrite digit_spec. change (2 ^ 8) with 256. apply N.mod_lt. discriminate.
Qed.

Lemma msd_int_sorts w th data :
  Forall (fun x => x < 256 ^ N.of_nat w) data ->
  Sorted N.le (msd_int w th data) /\ Permutation data (msd_int w th data).
Proof.
  intros H. unfold msd_int.
  destruct (msd_sort_sorts N (be_bytes w) (fun a b => b <? a) (fun x => x < 256 ^ N.of_nat w)) with (th := th) (data := data)
    as [Hs Hp].
  - intros x _. apply be_bytes_ok.
  - intros x y Hx Hy. rewrite be_bytes_order, !N.mod_small by assumption.
    destruct (N.ltb_spec y x), (N.leb_spec x y); cbn [negb]; try reflexivity; lia.
  - exact H.
  - split; [|exact Hp]. apply Sorted_SS.
    assert (Hb : Forall (fun x => x < 256 ^ N.of_nat w) (msd_sort N (be_bytes w) (fun a b => b <? a) th data)).
    { rewrite Forall_forall in *. intros x Hx. apply H. eapply Permutation_in; [apply Permutation_sym; exact Hp|exact Hx]. }
    revert Hs Hb. generalize (msd_sort N (be_bytes w) (fun a b => b <? a) th data) as l.
    induction l as [|x l IHl]; intros Hs Hb; [constructor|].
    inversion Hs as [|? ? Hs' Hx]; subst. inversion Hb as [|? ? Hbx Hb']; subst.
    constructor; [apply IHl; assumption|].
    rewrite Forall_forall in *. intros z Hz. specialize (Hx z Hz). unfold leT, lex_le in Hx.
    rewrite be_bytes_order, !N.mod_small in Hx by (try assumption; apply Hb'; exact Hz).
    apply N.leb_le. exact Hx.
Qed.

(* ---------- the early return on depth >= data[0].max_bytes() breaks strings ---------- *)
Lemma msd_early_return_refuted_proof :
  exists th data, Forall str_ok data /\ msd_str_early th data <> msd_str th data.
Proof.
  exists 2%nat, [[97]; [97; 98]; [97; 97]]. split.
  - repeat constructor.
  - vm_compute. discriminate.
Qed.
