(* C11 extension: case interpreter for the correspondence check of the extension models
   (ops 0..25 are interpreted by Model.run_case).  Definitions only. *)
From ZV.Common Require Import Base Run.
From ZV.C11 Require Import Model ModelMsd ModelAdv ModelPar ModelSkip ModelMultipass ModelFunnel ModelKv ModelCoAware.
Open Scope N_scope.

(* a list of byte strings as one list: length, bytes, length, bytes, ... *)
Definition enc_strs (l : list (list N)) : list N := flat_map (fun s => nlen s :: s) l.

Definition forced_of (x : N) : forced :=
  match x with 1 => FIns | 2 => FTim | 3 => FLsd | 4 => FMsd | 5 => FAdaptive | _ => FNone end.
Definition nb (x : N) : bool := negb (x =? 0).
(* ps = [force; adaptive; radix_bits; use_parallel; parallel_threshold; threads; insertion_threshold] *)
Definition cfg_of (ps : list N) : adv_cfg :=
  mk_adv_cfg (forced_of (nth_p 0 ps)) (nb (nth_p 1 ps)) (nth_p 2 ps) (nb (nth_p 3 ps))
             (N.to_nat (nth_p 4 ps)) (N.to_nat (nth_p 5 ps)) (N.to_nat (nth_p 6 ps)).

(* what AdvancedRadixSort::stats() shows of the path taken: strategy_used (5 = Adaptive, the initial
   value, when sort returned early on an empty input) and basic_stats.used_parallel *)
Definition strat_code (s : strategy) : N := match s with SIns => 1 | STim => 2 | SLsd => 3 | SMsd => 4 end.
Definition adv_obs {T} (key : T -> N) (c : adv_cfg) (data : list T) : list N :=
  match data with
  | [] => [5; 0]
  | _ => let s := select_strategy T key c data in
         [strat_code s; match s with SLsd => if lsd_takes_parallel T c data then 1 else 0 | _ => 0 end]
  end.

(* key-value cases: the value attached to the i-th key is i *)
Fixpoint indexed (i : N) (l : list N) : list (N * N) :=
  match l with [] => [] | x :: t => (x, i) :: indexed (i + 1) t end.

Definition run_case_x (op : N) (ps : list N) (ins : list (list N)) : list N :=
  let a := nth_l 0 ins in
  match op with
  | 26 => enc_strs (msd_str (N.to_nat (nth_p 0 ps)) ins)
  | 27 => msd_int (N.to_nat (nth_p 0 ps)) (N.to_nat (nth_p 1 ps)) a
  | 28 => enc_strs (sort_bytes ins)
  | 29 => adv_obs (fun x => x) (cfg_of (tl ps)) a ++ adv_sort_int (N.to_nat (nth_p 0 ps)) isort (cfg_of (tl ps)) a
  | 30 => adv_obs str_key (cfg_of ps) ins ++ enc_strs (adv_sort_str isort_str (cfg_of ps) ins)
  | 31 => sort_u32 (nth_p 0 ps) (nth_p 1 ps) (nb (nth_p 2 ps)) (N.to_nat (nth_p 3 ps)) (N.to_nat (nth_p 4 ps)) a
  | 32 => sort_u64 (nth_p 0 ps) (nb (nth_p 1 ps)) (N.to_nat (nth_p 2 ps)) (N.to_nat (nth_p 3 ps)) a
  | 33 => lsd_sort_skip (nth_p 0 ps) (nth_p 1 ps) a
  | 34 => let runs := rs_runs_of (N.to_nat (nth_p 0 ps)) a in
          N.of_nat (length runs) :: rs_sort_multipass (N.to_nat (nth_p 0 ps)) (N.to_nat (nth_p 1 ps)) a
  | 35 => co_sort (N.to_nat (nth_p 0 ps)) (nth_p 1 ps) (nth_p 2 ps) a
  | 36 => mwm_merge (nb (nth_p 0 ps)) (N.to_nat (nth_p 1 ps)) ins
  | 37 => merge_tree ins
  | 38 => vec_external_sort isort 8 (nth_p 0 ps) a
  | 39 => match kv_sort (N.to_nat (nth_p 0 ps)) (indexed 0 a) with
          | Some out => 1 :: map fst out ++ map snd out
          | None => [0]
          end
  | 40 => adv_sort_int (N.to_nat (nth_p 0 ps)) isort (cfg_of (tl ps)) a
  | 41 => co_full_sort (N.to_nat (nth_p 0 ps)) (nth_p 1 ps) (nth_p 2 ps) (nth_p 3 ps) (nth_p 4 ps) (nth_p 5 ps) a
  | _ => run_case op ps ins
  end.
