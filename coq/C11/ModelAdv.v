(* C11 extension — AdvancedRadixSort<T>::sort (src/algorithms/radix_sort.rs) as coded: strategy
   selection and every strategy, for every element type the code is instantiated with.
   Definitions only.

   The element type is a section variable with
     key   : T -> N         RadixSortable::extract_key (u32/u64: the value; RadixString: the first
                            8 bytes, big endian, zero padded)
     bytes : T -> list N    RadixSortable::get_byte
     gtb   : T -> T -> bool `a > b` of the element's Ord
     std_sort               `slice::sort_unstable` of the standard library (tim_sort strategy and the
                            "merge" of the parallel LSD path): not modelled, a parameter; the theorems
                            hold for every function that returns the sorted permutation *)
From ZV.Common Require Import Base Run.
From ZV.C11 Require Import Model ModelMsd.
Open Scope N_scope.

Section Keyed.
  Variable T : Type.
  Variable key : T -> N.

  (* counts.fill(0); for item in data { counts[((key >> shift) & mask)] += 1 } *)
  Definition count_digits_k (r shift : N) (data : list T) : list nat :=
    fold_left (fun cnt v => let d := dnat r shift (key v) in upd cnt d (S (nth d cnt O)))
              data (repeat O (N.to_nat (2 ^ r))).
  (* for item in data { buffer[counts[digit]] = item; counts[digit] += 1 } *)
  Fixpoint scatter_k (r shift : N) (data : list T) (pos : list nat) (buf : list T) : list T :=
    match data with
    | [] => buf
    | v :: rest =>
        let d := dnat r shift (key v) in
        let p := nth d pos O in
        scatter_k r shift rest (upd pos d (S p)) (upd buf p v)
    end.
  (* buffer = vec![data[0].clone(); data.len()] *)
  Definition lsd_pass_k (r shift : N) (data : list T) : list T :=
    match data with
    | [] => []
    | x0 :: _ => scatter_k r shift data (prefix_sums O (count_digits_k r shift data)) (repeat x0 (length data))
    end.
  Fixpoint lsd_passes_k (r : N) (n : nat) (pass : N) (data : list T) : list T :=
    match n with
    | O => data
    | S n' => lsd_passes_k r n' (pass + 1) (lsd_pass_k r (pass * r) data)
    end.
  (* max_passes = if max_key == 0 { 1 } else { ceil((64 - leading_zeros) / radix_bits) } *)
  Definition adv_passes_k (r : N) (data : list T) : N :=
    let mx := list_max (map key data) in if mx =? 0 then 1 else (N.size mx + r - 1) / r.
  (* lsd_radix_sort_sequential *)
  Definition adv_lsd_k (r : N) (data : list T) : list T :=
    lsd_passes_k r (N.to_nat (adv_passes_k r data)) 0 data.

  (* what one pass computes *)
  Definition bucket_k (r shift : N) (d : nat) (data : list T) : list T :=
    filter (fun v => Nat.eqb (dnat r shift (key v)) d) data.
  Definition lsd_pass_spec_k (r shift : N) (data : list T) : list T :=
    flat_map (fun d => bucket_k r shift d data) (seq O (N.to_nat (2 ^ r))).
End Keyed.

(* data.par_chunks_mut(chunk_size) / data.chunks(chunk_size): consecutive slices of chunk_size
   elements, the last one shorter; chunk_size = 0 panics in the code (never reached: the input is
   non-empty and the thread count positive), the model then returns no chunk *)
Fixpoint chunks_go {A} (fuel cs : nat) (l : list A) : list (list A) :=
  match fuel with
  | O => []
  | S f => match l with
           | [] => []
           | _ => firstn cs l :: chunks_go f cs (skipn cs l)
           end
  end.
Definition chunks {A} (cs : nat) (l : list A) : list (list A) :=
  match cs with O => [] | _ => chunks_go (length l) cs l end.

(* configuration: AdvancedRadixSortConfig, the fields that select code paths *)
Inductive strategy := SIns | STim | SLsd | SMsd.
Inductive forced := FNone | FIns | FTim | FLsd | FMsd | FAdaptive.
Record adv_cfg := mk_adv_cfg {
  c_force : forced;           (* force_strategy *)
  c_adaptive : bool;          (* adaptive_strategy *)
  c_radix : N;                (* radix_bits *)
  c_par : bool;               (* use_parallel *)
  c_pth : nat;                (* parallel_threshold *)
  c_threads : nat;            (* num_threads, or rayon::current_num_threads() when 0 *)
  c_ith : nat;                (* insertion_sort_threshold *)
}.

Section Dispatch.
  Variable T : Type.
  Variable key : T -> N.
  Variable bytes : T -> list N.
  Variable gtb : T -> T -> bool.
  Variable std_sort : list T -> list T.

  (* is_nearly_sorted: inversions of extract_key among the first min(1000, len) elements,
     "nearly sorted" when fewer than sample_size / 10 *)
  Fixpoint inversions (prev : N) (l : list T) : nat :=
    match l with
    | [] => O
    | x :: t => ((if N.ltb (key x) prev then 1 else 0) + inversions (key x) t)%nat
    end.
  Definition is_nearly_sorted (data : list T) : bool :=
    if Nat.ltb (length data) 2 then true
    else
      let sample := firstn 1000 data in
      match sample with
      | [] => true
      | x :: t => Nat.ltb (inversions (key x) t) (length sample / 10)
      end.

  (* select_strategy (after fix 7a4931c: forcing Adaptive means "choose adaptively") *)
  Definition select_strategy (c : adv_cfg) (data : list T) : strategy :=
    match c_force c with
    | FIns => SIns
    | FTim => STim
    | FLsd => SLsd
    | FMsd => SMsd
    | _ =>
      if negb (c_adaptive c) then SLsd
      else if Nat.leb (length data) (c_ith c) then SIns
      else if is_nearly_sorted data then STim
      else SLsd
    end.

  (* lsd_radix_sort + lsd_radix_sort_parallel: the parallel path is taken when
     len >= parallel_threshold && use_parallel (&& T::supports_parallel(), true for all three
     element types) and len >= 2 * parallel_threshold; chunks of ceil(len / threads) elements are
     sorted independently, then `multiway_merge_chunks` sorts the whole slice with sort_unstable *)
  Definition lsd_takes_parallel (c : adv_cfg) (data : list T) : bool :=
    c_par c && Nat.leb (c_pth c) (length data) && Nat.leb (2 * c_pth c) (length data).
  Definition adv_chunk_size (c : adv_cfg) (data : list T) : nat :=
    ((length data + c_threads c - 1) / c_threads c)%nat.
  Definition lsd_radix_sort (c : adv_cfg) (data : list T) : list T :=
    if lsd_takes_parallel c data
    then std_sort (concat (map (adv_lsd_k T key (c_radix c)) (chunks (adv_chunk_size c data) data)))
    else adv_lsd_k T key (c_radix c) data.

  (* AdvancedRadixSort::sort *)
  Definition adv_sort (c : adv_cfg) (data : list T) : list T :=
    match data with
    | [] => []
    | _ =>
      match select_strategy c data with
      | SIns => isort_g T gtb data
      | STim => std_sort data
      | SLsd => lsd_radix_sort c data
      | SMsd => msd_sort T bytes gtb (c_ith c) data
      end
    end.

  (* the sequential LSD path is the one that orders by extract_key alone *)
  Definition lsd_sequential_selected (c : adv_cfg) (data : list T) : bool :=
    match data with
    | [] => false
    | _ => match select_strategy c data with
           | SLsd => negb (lsd_takes_parallel c data)
           | _ => false
           end
    end.
End Dispatch.

(* ---- RadixString::extract_key: key |= byte << (8 * (7 - i)) for the first 8 bytes ---- *)
Fixpoint str_key_go (n : nat) (s : list N) : N :=
  match n with
  | O => 0
  | S n' => match s with
            | [] => 0
            | b :: t => N.lor (N.shiftl b (8 * N.of_nat n')) (str_key_go n' t)
            end
  end.
Definition str_key (s : list N) : N := str_key_go 8 s.

(* ---- the three instantiations ---- *)
Definition adv_sort_int (w : nat) (std_sort : list N -> list N) (c : adv_cfg) (data : list N) : list N :=
  adv_sort N (fun x => x) (be_bytes w) (fun a b => b <? a) std_sort c data.
Definition adv_sort_str (std_sort : list (list N) -> list (list N)) (c : adv_cfg) (data : list (list N)) : list (list N) :=
  adv_sort (list N) str_key (fun s => s) lex_gtb std_sort c data.
