(* C11 extension: heap-mode k-way merge, counting sort, and the chunk + merge parallel paths of
   RadixSort sort, for every thread count and every threshold. *)
From ZV.Common Require Import Base Run.
From Coq Require Import Sorting.Sorted Sorting.Permutation.
From ZV.C11 Require Import Model ModelMsd ModelAdv ModelPar ProofsSpec ProofsScatter ProofsLsd ProofsMerge
  ProofsExtSort ProofsMsd ProofsAdv.
Open Scope N_scope.

(* ------------------------------------------------------------------ *)
(* heap-mode merge                                                     *)
(* ------------------------------------------------------------------ *)
Lemma hpush_perm x s h : Permutation ((x, s) :: h) (hpush x s h).
Proof.
  induction h as [|[y t] h IH]; cbn [hpush]; [reflexivity|].
  destruct (x <=? y); [reflexivity|].
  eapply perm_trans; [apply perm_swap|]. apply perm_skip. exact IH.
Qed.
Lemma hpush_In e x s h : In e (hpush x s h) <-> e = (x, s) \/ In e h.
Proof.
  split; intros H.
  - apply (Permutation_in _ (Permutation_sym (hpush_perm x s h))) in H. destruct H as [<-|H]; auto.
  - apply (Permutation_in _ (hpush_perm x s h)). destruct H as [->|H]; [left; reflexivity|right; exact H].
Qed.

Lemma nth_advance_same (ws : list (list N)) : forall s, nth s (advance ws s) [] = tl (nth s ws []).
Proof.
  induction ws as [|w ws IH]; intros [|s]; cbn [advance nth]; try reflexivity. apply IH.
Qed.
Lemma nth_advance_other (ws : list (list N)) : forall s t, t <> s -> nth t (advance ws s) [] = nth t ws [].
Proof.
  induction ws as [|w ws IH]; intros [|s] [|t] H; cbn [advance nth]; try reflexivity; try lia.
  apply IH. lia.
Qed.

(* every element still in a way is bounded below by the heap entry of that way *)
Definition covered (h : list (N * nat)) (ws : list (list N)) : Prop :=
  forall t z, In z (nth t ws []) -> exists x, In (x, t) h /\ x <= z.

Lemma uncovered_empty (ws : list (list N)) : covered [] ws -> concat ws = [].
Proof.
  intros H. apply all_empty_concat. apply Forall_forall. intros w Hw.
  apply (In_nth _ _ []) in Hw as (t & _ & Ht). destruct w as [|z w]; [reflexivity|].
  destruct (H t z) as (x & [] & _). rewrite Ht. left; reflexivity.
Qed.

Lemma heap_loop_correct (fuel : nat) : forall h ws,
  hsorted h -> Forall (StronglySorted N.le) ws -> covered h ws ->
  (length h + total_len ws <= fuel)%nat ->
  StronglySorted N.le (heap_loop fuel h ws) /\ Permutation (map fst h ++ concat ws) (heap_loop fuel h ws).
Proof.
  induction fuel as [|f IH]; intros h ws Hh Hs Hc Hf.
  - destruct h; [|cbn [length] in Hf; lia]. cbn [heap_loop map app].
    rewrite total_len_0 by (cbn [length] in Hf; lia). split; constructor.
  - cbn [heap_loop]. destruct h as [|[x s] h'].
    { cbn [map app]. rewrite (uncovered_empty ws Hc). split; constructor. }
    inversion Hh as [|? ? Hh' Hx]; subst.
    assert (Hlow : forall z, In z (map fst h' ++ concat ws) -> x <= z).
    { intros z Hz. apply in_app_or in Hz as [Hz|Hz].
      - apply in_map_iff in Hz as (e & <- & He). rewrite Forall_forall in Hx. apply (Hx e He).
      - apply in_concat in Hz as (w & Hw & Hz). apply (In_nth _ _ []) in Hw as (t & _ & Ht). subst w.
        destruct (Hc t z Hz) as (x' & Hin & Hle). destruct Hin as [E|Hin].
        + injection E as -> _. exact Hle.
        + rewrite Forall_forall in Hx. specialize (Hx _ Hin). unfold hle in Hx. cbn [fst] in Hx. lia. }
    destruct (nth s ws []) as [|y rest] eqn:Es.
    + (* the source is exhausted *)
      destruct (IH h' ws) as [IS IP]; [exact Hh'|exact Hs| |cbn [length] in Hf; lia|].
      * intros t z Hz. destruct (Hc t z Hz) as (x' & [E|Hin] & Hle).
        -- injection E as -> ->. rewrite Es in Hz. destruct Hz.
        -- exists x'. split; assumption.
      * split.
        -- constructor; [exact IS|]. apply Forall_forall. intros z Hz. apply Hlow.
           eapply Permutation_in; [apply Permutation_sym; exact IP|exact Hz].
        -- cbn [map fst app]. apply perm_skip. exact IP.
    + destruct (advance_perm ws s y rest Es) as [Hp Hl].
      destruct (IH (hpush y s h') (advance ws s)) as [IS IP].
      * apply hpush_sorted. exact Hh'.
      * apply advance_sorted. exact Hs.
      * intros t z Hz. destruct (Nat.eq_dec t s) as [->|Hne].
        -- rewrite nth_advance_same, Es in Hz. cbn [tl] in Hz. exists y. split; [apply hpush_In; left; reflexivity|].
           rewrite Forall_forall in Hs. assert (Hw : In (nth s ws []) ws).
           { apply nth_In. destruct (Nat.lt_ge_cases s (length ws)) as [Hlt|Hge]; [exact Hlt|].
             rewrite nth_overflow in Es by exact Hge. discriminate. }
           specialize (Hs _ Hw). rewrite Es in Hs. apply SS_cons_inv in Hs as [_ Hy].
           rewrite Forall_forall in Hy. apply Hy. exact Hz.
        -- rewrite nth_advance_other in Hz by exact Hne.
           destruct (Hc t z Hz) as (x' & [E|Hin] & Hle).
           ++ injection E as _ E. exfalso. apply Hne. symmetry. exact E.
           ++ exists x'. split; [apply hpush_In; right; exact Hin|exact Hle].
      * rewrite hpush_length. cbn [length] in Hf. lia.
      * assert (Hq : Permutation (map fst h' ++ concat ws) (map fst (hpush y s h') ++ concat (advance ws s))).
        { eapply perm_trans; [apply Permutation_app_head; exact Hp|].
          eapply perm_trans; [apply Permutation_sym; apply Permutation_middle|].
          rewrite app_comm_cons. apply Permutation_app_tail.
          apply (Permutation_map fst (hpush_perm y s h')). }
        split.
        -- constructor; [exact IS|]. apply Forall_forall. intros z Hz. apply Hlow.
           eapply Permutation_in; [apply Permutation_sym; exact Hq|].
           eapply Permutation_in; [apply Permutation_sym; exact IP|exact Hz].
        -- cbn [map fst app]. apply perm_skip. eapply perm_trans; [exact Hq|exact IP].
Qed.

(* heap_init pushes the head of every non-empty way and leaves the tails *)
Lemma heap_init_spec (ways : list (list N)) : forall idx h h' ws',
  heap_init ways idx h = (h', ws') ->
  Forall (StronglySorted N.le) ways -> hsorted h ->
  hsorted h' /\ Forall (StronglySorted N.le) ws' /\
  (forall e, In e h -> In e h') /\
  (forall t z, In z (nth t ws' []) -> exists x, In (x, (idx + t)%nat) h' /\ x <= z) /\
  Permutation (map fst h ++ concat ways) (map fst h' ++ concat ws') /\
  (length h' + total_len ws' = length h + total_len ways)%nat.
Proof.
  induction ways as [|w ways IH]; intros idx h h' ws' E Hs Hh.
  - cbn [heap_init] in E. injection E as <- <-.
    split; [exact Hh|]. split; [constructor|]. split; [auto|]. split; [|split; reflexivity].
    intros t z Hz. destruct t; destruct Hz.
  - inversion Hs as [|? ? Hw Hs']; subst. cbn [heap_init] in E. destruct w as [|x w'].
    + destruct (heap_init ways (S idx) h) as [h1 t1] eqn:E1. injection E as <- <-.
      destruct (IH _ _ _ _ E1 Hs' Hh) as (A & B & C & D & P & L).
      split; [exact A|]. split; [constructor; [constructor|exact B]|]. split; [exact C|]. split; [|split].
      * intros t z Hz. destruct t as [|t]; [destruct Hz|]. cbn [nth] in Hz.
        destruct (D t z Hz) as (x & Hin & Hle). exists x. split; [|exact Hle].
        replace (idx + S t)%nat with (S idx + t)%nat by lia. exact Hin.
      * cbn [concat app]. exact P.
      * cbn [total_len length]. lia.
    + destruct (heap_init ways (S idx) (hpush x idx h)) as [h1 t1] eqn:E1. injection E as <- <-.
      destruct (IH _ _ _ _ E1 Hs' (hpush_sorted x idx h Hh)) as (A & B & C & D & P & L).
      apply SS_cons_inv in Hw as [Hw' Hxw].
      split; [exact A|]. split; [constructor; [exact Hw'|exact B]|]. split; [|split; [|split]].
      * intros e He. apply C. apply hpush_In. right; exact He.
      * intros t z Hz. destruct t as [|t]; cbn [nth] in Hz.
        -- exists x. split; [|rewrite Forall_forall in Hxw; apply Hxw; exact Hz].
           rewrite Nat.add_0_r. apply C. apply hpush_In. left; reflexivity.
        -- destruct (D t z Hz) as (x' & Hin & Hle). exists x'. split; [|exact Hle].
           replace (idx + S t)%nat with (S idx + t)%nat by lia. exact Hin.
      * cbn [concat].
        eapply perm_trans; [apply Permutation_sym; apply Permutation_middle|].
        rewrite app_comm_cons.
        eapply perm_trans; [apply Permutation_app_swap_app|].
        eapply perm_trans; [|apply Permutation_app_swap_app].
        apply Permutation_app_head.
        eapply perm_trans; [|exact P]. apply Permutation_app_tail.
        apply (Permutation_map fst (hpush_perm x idx h)).
      * rewrite hpush_length in L. cbn [total_len length]. lia.
Qed.

Lemma heap_merge_merges_proof (ways : list (list N)) :
  Forall (Sorted N.le) ways ->
  Sorted N.le (heap_merge ways) /\ Permutation (concat ways) (heap_merge ways).
Proof.
  intros Hs0. assert (Hs : Forall (StronglySorted N.le) ways).
  { eapply Forall_impl; [|exact Hs0]. intros w. apply Sorted_SS. }
  unfold heap_merge. destruct (heap_init ways 0 []) as [h ws] eqn:E.
  destruct (heap_init_spec ways 0 [] h ws E Hs) as (A & B & _ & D & P & L); [constructor|].
  destruct (heap_loop_correct (total_len ways) h ws A B) as [H1 H2].
  - intros t z Hz. destruct (D t z Hz) as (x & Hin & Hle). exists x. split; [exact Hin|exact Hle].
  - cbn [length] in L. lia.
  - split; [apply Sorted_SS; exact H1|]. cbn [map app] in P. eapply perm_trans; [exact P|exact H2].
Qed.

(* MultiWayMerge::merge, whichever path the configuration selects *)
Lemma mwm_merge_merges_proof tt maxw (ways : list (list N)) :
  Forall (Sorted N.le) ways ->
  Sorted N.le (mwm_merge tt maxw ways) /\ Permutation (concat ways) (mwm_merge tt maxw ways).
Proof.
  intros Hs. unfold mwm_merge. destruct ways as [|w [|w2 ways]].
  - split; constructor.
  - inversion Hs; subst. cbn [concat]. rewrite app_nil_r. split; [assumption|reflexivity].
  - destruct (Nat.ltb maxw _); [apply heap_merge_merges_proof; exact Hs|].
    destruct (tt && _); [apply loser_tree_merges_proof; exact Hs|apply heap_merge_merges_proof; exact Hs].
Qed.

(* ------------------------------------------------------------------ *)
(* counting sort and the sort_u32 sequential dispatch                   *)
(* ------------------------------------------------------------------ *)
Lemma expand_SS : forall counts v, StronglySorted N.le (expand v counts) /\ Forall (N.le v) (expand v counts).
Proof.
  induction counts as [|c t IH]; intros v; cbn [expand]; [split; constructor|].
  destruct (IH (v + 1)) as [H1 H2]. split.
  - apply SS_app; [| exact H1 |].
    + clear. induction c as [|c IHc]; cbn [repeat]; constructor; [exact IHc|].
      apply Forall_forall. intros z Hz. apply repeat_spec in Hz. lia.
    + intros a b Ha Hb. apply repeat_spec in Ha. subst a. rewrite Forall_forall in H2. specialize (H2 b Hb). lia.
  - apply Forall_app. split.
    + apply Forall_forall. intros z Hz. apply repeat_spec in Hz. lia.
    + eapply Forall_impl; [|exact H2]. intros a Ha; cbn beta in Ha. lia.
Qed.

Lemma countb_repeat z v c : countb z (repeat v c) = if z =? v then c else O.
Proof.
  induction c as [|c IH]; cbn [repeat countb]; [destruct (z =? v); reflexivity|].
  rewrite IH. destruct (z =? v); reflexivity.
Qed.

Lemma countb_expand : forall counts v z,
  countb z (expand v counts) = if v <=? z then nth (N.to_nat (z - v)) counts O else O.
Proof.
  induction counts as [|c t IH]; intros v z; cbn [expand].
  - cbn [countb]. destruct (v <=? z); [destruct (N.to_nat (z - v)); reflexivity|reflexivity].
  - rewrite countb_app, countb_repeat, IH.
    destruct (N.eqb_spec z v) as [->|Hne].
    + rewrite N.leb_refl. replace (v - v) with 0 by lia. cbn [N.to_nat nth].
      destruct (N.leb_spec (v + 1) v); [lia|]. lia.
    + destruct (N.leb_spec v z) as [Hle|Hgt].
      * destruct (N.leb_spec (v + 1) z); [|lia].
        replace (N.to_nat (z - v)) with (S (N.to_nat (z - (v + 1)))) by lia. cbn [nth]. lia.
      * destruct (N.leb_spec (v + 1) z); [lia|reflexivity].
Qed.

Lemma count_fold_nth (data : list N) : forall cnt0 d,
  (forall v, In v data -> (N.to_nat v < length cnt0)%nat) ->
  nth d (fold_left (fun cnt v => let i := N.to_nat v in upd cnt i (S (nth i cnt O))) data cnt0) O
  = (nth d cnt0 O + countb (N.of_nat d) data)%nat.
Proof.
  induction data as [|v rest IH]; intros cnt0 d Hb; cbn [fold_left countb]; [lia|].
  rewrite IH.
  - assert (Hv : (N.to_nat v < length cnt0)%nat) by (apply Hb; left; reflexivity).
    destruct (N.eqb_spec (N.of_nat d) v) as [E|NE].
    + subst v. rewrite Nat2N.id in *. rewrite nth_upd_same by exact Hv. lia.
    + rewrite nth_upd_other by lia. lia.
  - intros w Hw. rewrite upd_length. apply Hb. right; exact Hw.
Qed.

Lemma count_fold_length (data : list N) : forall cnt0,
  length (fold_left (fun cnt v => let i := N.to_nat v in upd cnt i (S (nth i cnt O))) data cnt0) = length cnt0.
Proof. induction data as [|v rest IH]; intros cnt0; cbn [fold_left]; [reflexivity|]. rewrite IH, upd_length. reflexivity. Qed.

Lemma counting_sort_sorts_proof (data : list N) :
  Sorted N.le (counting_sort data) /\ Permutation data (counting_sort data).
Proof.
  unfold counting_sort. destruct data as [|x0 rest] eqn:Ed; [split; constructor|]. rewrite <- Ed. clear Ed x0 rest.
  split; [apply Sorted_SS; apply expand_SS|].
  apply count_perm. intros z. rewrite countb_expand, N.sub_0_r.
  replace (0 <=? z) with true by (symmetry; apply N.leb_le; lia).
  destruct (Nat.lt_ge_cases (N.to_nat z) (S (N.to_nat (list_max data)))) as [Hlt|Hge].
  - rewrite count_fold_nth.
    + rewrite nth_repeat, N2Nat.id. reflexivity.
    + intros v Hv. rewrite repeat_length. apply list_max_ge in Hv. lia.
  - rewrite nth_overflow by (rewrite count_fold_length, repeat_length; exact Hge).
    destruct (countb z data) eqn:Ec; [reflexivity|]. exfalso.
    assert (Hin : In z data) by (apply countb_pos_In; lia). apply list_max_ge in Hin. lia.
Qed.

Lemma radix_sort_u32_sorts_proof r cth (data : list N) :
  0 < r -> Forall (fun x => x < 2 ^ 32) data ->
  Sorted N.le (radix_sort_u32 r cth data) /\ Permutation data (radix_sort_u32 r cth data).
Proof.
  intros Hr Hb. unfold radix_sort_u32. destruct data as [|x0 rest] eqn:Ed; [split; constructor|]. rewrite <- Ed in Hb |- *.
  destruct (_ && _); [apply counting_sort_sorts_proof|apply lsd_sorts_proof; assumption].
Qed.

(* ------------------------------------------------------------------ *)
(* chunks                                                              *)
(* ------------------------------------------------------------------ *)
(* re-chunking the concatenation of processed chunks gives the same boundaries, provided the
   per-chunk function keeps lengths: the slices sorted and the slices merged are the same list *)
Inductive wf_chunks (cs : nat) : list (list N) -> Prop :=
| wf_nil : wf_chunks cs []
| wf_last c : (0 < length c <= cs)%nat -> wf_chunks cs [c]
| wf_cons c L : length c = cs -> wf_chunks cs L -> wf_chunks cs (c :: L).

Lemma chunks_go_nil fuel cs : @chunks_go N fuel cs [] = [].
Proof. destruct fuel; reflexivity. Qed.

Lemma rechunk_wf cs L : (0 < cs)%nat -> wf_chunks cs L ->
  forall fuel, (length (concat L) <= fuel)%nat -> chunks_go fuel cs (concat L) = L.
Proof.
  intros Hcs H. induction H as [|c Hc|c L Hc HL IH]; intros fuel Hf.
  - apply chunks_go_nil.
  - cbn [concat] in *. rewrite app_nil_r in *. destruct fuel as [|f]; [lia|].
    cbn [chunks_go]. destruct c as [|x c]; [cbn [length] in Hc; lia|].
    rewrite firstn_all2, skipn_all2 by lia. rewrite chunks_go_nil. reflexivity.
  - cbn [concat] in *. rewrite app_length in Hf. destruct fuel as [|f]; [lia|].
    cbn [chunks_go]. destruct (c ++ concat L) as [|y t] eqn:E.
    { destruct c; [cbn [length] in Hc; lia|discriminate]. }
    rewrite <- E. subst cs. rewrite firstn_app, Nat.sub_diag, firstn_O, app_nil_r, firstn_all.
    rewrite skipn_app, Nat.sub_diag, skipn_all. cbn [skipn app]. f_equal. apply IH. lia.
Qed.

Lemma chunks_go_wf cs : (0 < cs)%nat -> forall fuel (l : list N),
  (length l <= fuel)%nat -> wf_chunks cs (chunks_go fuel cs l).
Proof.
  intros Hcs. induction fuel as [|f IH]; intros l Hl; [constructor|].
  cbn [chunks_go]. destruct l as [|x l]; [constructor|].
  destruct (Nat.le_gt_cases cs (length (x :: l))) as [Hfull|Hshort].
  - apply wf_cons; [rewrite firstn_length; lia|]. apply IH. rewrite skipn_length. cbn [length] in *. lia.
  - rewrite firstn_all2, skipn_all2 by lia. rewrite chunks_go_nil. apply wf_last. cbn [length] in *. lia.
Qed.

Lemma wf_chunks_map (f : list N -> list N) cs L :
  (forall l, length (f l) = length l) -> wf_chunks cs L -> wf_chunks cs (map f L).
Proof.
  intros Hf H. induction H as [|c Hc|c L Hc HL IH]; cbn [map].
  - constructor.
  - apply wf_last. rewrite Hf. exact Hc.
  - apply wf_cons; [rewrite Hf; exact Hc|exact IH].
Qed.

Lemma chunks_rechunk (f : list N -> list N) (cs : nat) (l : list N) :
  (0 < cs)%nat -> (forall l, length (f l) = length l) ->
  chunks cs (concat (map f (chunks cs l))) = map f (chunks cs l).
Proof.
  intros Hcs Hf. unfold chunks. destruct cs as [|cs']; [lia|].
  apply rechunk_wf; [lia| |lia].
  apply wf_chunks_map; [exact Hf|]. apply chunks_go_wf; lia.
Qed.

(* ------------------------------------------------------------------ *)
(* the parallel path                                                   *)
(* ------------------------------------------------------------------ *)
Lemma Forall_chunks (P : N -> Prop) cs (l : list N) :
  (0 < cs)%nat -> Forall P l -> Forall (Forall P) (chunks cs l).
Proof.
  intros Hcs Hl. apply Forall_forall. intros c Hc. apply Forall_forall. intros x Hx.
  rewrite Forall_forall in Hl. apply Hl. rewrite <- (chunks_concat cs l Hcs).
  apply in_concat. exists c. split; assumption.
Qed.

Lemma par_chunk_sort_sorts_proof (f : list N -> list N) (P : N -> Prop) cs (data : list N) :
  (0 < cs)%nat -> (forall l, Permutation l (f l)) -> (forall l, Forall P l -> Sorted N.le (f l)) ->
  Forall P data ->
  Sorted N.le (par_chunk_sort f cs cs data) /\ Permutation data (par_chunk_sort f cs cs data).
Proof.
  intros Hcs Hperm Hsort Hd. unfold par_chunk_sort, mwm_default.
  rewrite chunks_rechunk; [|exact Hcs|intros l; symmetry; apply Permutation_length; apply Hperm].
  destruct (mwm_merge_merges_proof false 1024 (map f (chunks cs data))) as [H1 H2].
  - apply Forall_forall. intros w Hw. apply in_map_iff in Hw as (c & <- & Hc).
    apply Hsort. pose proof (Forall_chunks P cs data Hcs Hd) as Hch.
    rewrite Forall_forall in Hch. apply Hch. exact Hc.
  - split; [exact H1|]. eapply perm_trans; [|exact H2].
    rewrite <- (chunks_concat cs data Hcs) at 1. apply concat_map_perm. exact Hperm.
Qed.

Lemma par_chunk_size_pos threads (data : list N) : (0 < threads)%nat -> data <> [] -> (0 < par_chunk_size threads data)%nat.
Proof.
  intros Ht Hne. unfold par_chunk_size. destruct data as [|x data]; [congruence|]. cbn [length].
  apply Nat.div_str_pos. lia.
Qed.

Lemma sort_top_sorts_proof (f : list N -> list N) (P : N -> Prop) par pth threads (data : list N) :
  (0 < threads)%nat -> (forall l, Permutation l (f l)) -> (forall l, Forall P l -> Sorted N.le (f l)) ->
  Forall P data ->
  Sorted N.le (sort_top f par pth threads data) /\ Permutation data (sort_top f par pth threads data).
Proof.
  intros Ht Hperm Hsort Hd. unfold sort_top. destruct data as [|x0 rest] eqn:Ed; [split; constructor|].
  rewrite <- Ed in *. assert (Hne : data <> []) by (rewrite Ed; discriminate).
  destruct (_ && par).
  - unfold sort_parallel. destruct (Nat.ltb _ _); [split; [apply Hsort; exact Hd|apply Hperm]|].
    apply (par_chunk_sort_sorts_proof f P); [apply par_chunk_size_pos; assumption|exact Hperm|exact Hsort|exact Hd].
  - split; [apply Hsort; exact Hd|apply Hperm].
Qed.

Lemma lsd_sort_perm w r (data : list N) : Permutation data (lsd_sort w r data).
Proof.
  unfold lsd_sort. generalize (N.to_nat ((w + r - 1) / r)) as n. generalize 0 as pass.
  intros pass n; revert pass data. induction n as [|n IH]; intros pass data; cbn [lsd_passes]; [reflexivity|].
  eapply perm_trans; [apply lsd_pass_perm|apply IH].
Qed.
Lemma radix_sort_u32_perm r cth (data : list N) : Permutation data (radix_sort_u32 r cth data).
Proof.
  unfold radix_sort_u32. destruct data as [|x0 rest] eqn:Ed; [constructor|]. rewrite <- Ed.
  destruct (_ && _); [apply counting_sort_sorts_proof|apply lsd_sort_perm].
Qed.

Lemma parallel_sort_u32_sorts_proof r cth par pth threads (data : list N) :
  0 < r -> (0 < threads)%nat -> Forall (fun x => x < 2 ^ 32) data ->
  Sorted N.le (sort_u32 r cth par pth threads data) /\ Permutation data (sort_u32 r cth par pth threads data).
Proof.
  intros Hr Ht Hd. unfold sort_u32.
  apply (sort_top_sorts_proof _ (fun x => x < 2 ^ 32)); [exact Ht|apply radix_sort_u32_perm| |exact Hd].
  intros l Hl. apply radix_sort_u32_sorts_proof; assumption.
Qed.
Lemma parallel_sort_u64_sorts_proof r par pth threads (data : list N) :
  0 < r -> (0 < threads)%nat -> Forall (fun x => x < 2 ^ 64) data ->
  Sorted N.le (sort_u64 r par pth threads data) /\ Permutation data (sort_u64 r par pth threads data).
Proof.
  intros Hr Ht Hd. unfold sort_u64.
  apply (sort_top_sorts_proof _ (fun x => x < 2 ^ 64)); [exact Ht|apply lsd_sort_perm| |exact Hd].
  intros l Hl. apply lsd_sorts_proof; assumption.
Qed.

(* sorting and merging on different boundaries (a chunk size clamped on one side only) breaks the sort *)
Lemma par_chunk_mismatch_refuted_proof :
  exists sort_cs merge_cs data, (0 < sort_cs)%nat /\ (0 < merge_cs)%nat /\
    par_chunk_sort isort sort_cs merge_cs data <> isort data.
Proof. exists 3%nat, 2%nat, [5; 6; 7; 1; 2; 3]. split; [lia|]. split; [lia|]. vm_compute. discriminate. Qed.
