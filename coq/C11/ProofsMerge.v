(* C11: k-way merging by repeated selection of the least head (EnhancedLoserTree as it
   exists, MultiWayMerge::merge_tournament, cache_oblivious_merge) and two-way merge. *)
From ZV.Common Require Import Base Run.
From Coq Require Import Sorting.Sorted Sorting.Permutation.
From ZV.C11 Require Import Model ProofsSpec.
Open Scope N_scope.

(* ---------- find_min ---------- *)
Lemma find_min_spec (ways : list (list N)) : forall idx best i x,
  find_min ways idx best = Some (i, x) ->
  (best = Some (i, x) \/ exists k t, i = (idx + k)%nat /\ nth k ways [] = x :: t) /\
  (forall j m, best = Some (j, m) -> x <= m) /\
  (forall w y t, In w ways -> w = y :: t -> x <= y).
Proof.
  induction ways as [|w ways IH]; intros idx best i x H; cbn [find_min] in H.
  - subst best. split; [left; reflexivity|]. split; [intros j m E; inversion E; lia|intros w y t []].
  - destruct w as [|y w'].
    + apply IH in H as (H1 & H2 & H3). split; [|split; [exact H2|]].
      * destruct H1 as [H1|(k & t & Hi & Hn)]; [left; exact H1|].
        right. exists (S k), t. split; [lia|exact Hn].
      * intros w y t [<-|Hin] E; [discriminate|]. eapply H3; eassumption.
    + destruct best as [[j0 m]|].
      * destruct (N.ltb_spec y m) as [Hlt|Hge].
        -- apply IH in H as (H1 & H2 & H3). split; [|split].
           ++ right. destruct H1 as [H1|(k & t & Hi & Hn)].
              ** inversion H1; subst. exists O, w'. split; [lia|reflexivity].
              ** exists (S k), t. split; [lia|exact Hn].
           ++ intros j m' E. inversion E; subst. specialize (H2 idx y eq_refl). lia.
           ++ intros w y0 t [<-|Hin] E.
              ** inversion E; subst. apply (H2 idx y0 eq_refl).
              ** eapply H3; eassumption.
        -- apply IH in H as (H1 & H2 & H3). split; [|split; [exact H2|]].
           ++ destruct H1 as [H1|(k & t & Hi & Hn)]; [left; exact H1|].
              right. exists (S k), t. split; [lia|exact Hn].
           ++ intros w y0 t [<-|Hin] E.
              ** inversion E; subst. specialize (H2 j0 m eq_refl). lia.
              ** eapply H3; eassumption.
      * apply IH in H as (H1 & H2 & H3). split; [|split].
        -- right. destruct H1 as [H1|(k & t & Hi & Hn)].
           ++ inversion H1; subst. exists O, w'. split; [lia|reflexivity].
           ++ exists (S k), t. split; [lia|exact Hn].
        -- intros j m E; discriminate.
        -- intros w y0 t [<-|Hin] E.
           ++ inversion E; subst. apply (H2 idx y0 eq_refl).
           ++ eapply H3; eassumption.
Qed.

Lemma find_min_none (ways : list (list N)) : forall idx best,
  find_min ways idx best = None -> best = None /\ Forall (fun w => w = []) ways.
Proof.
  induction ways as [|w ways IH]; intros idx best H; cbn [find_min] in H.
  - split; [exact H|constructor].
  - destruct w as [|y w'].
    + apply IH in H as [H1 H2]. split; [exact H1|constructor; [reflexivity|exact H2]].
    + destruct best as [[j0 m]|].
      * destruct (y <? m); apply IH in H as [H1 _]; discriminate.
      * apply IH in H as [H1 _]; discriminate.
Qed.

(* ---------- advance ---------- *)
Lemma advance_perm (ways : list (list N)) : forall i x t,
  nth i ways [] = x :: t ->
  Permutation (concat ways) (x :: concat (advance ways i)) /\
  total_len ways = S (total_len (advance ways i)).
Proof.
  induction ways as [|w ways IH]; intros i x t H.
  - destruct i; discriminate.
  - destruct i as [|i]; cbn [nth] in H.
    + subst w. cbn [advance tl concat total_len length app]. split; [reflexivity|lia].
    + destruct (IH i x t H) as [Hp Hl]. cbn [advance concat total_len]. split.
      * eapply perm_trans; [apply Permutation_app_head; exact Hp|].
        apply Permutation_sym, Permutation_middle.
      * lia.
Qed.
Lemma advance_sorted (ways : list (list N)) : forall i,
  Forall (StronglySorted N.le) ways -> Forall (StronglySorted N.le) (advance ways i).
Proof.
  induction ways as [|w ways IH]; intros i H; [constructor|].
  inversion H as [|? ? Hw Hr]; subst. destruct i as [|i]; cbn [advance].
  - constructor; [|exact Hr]. destruct w as [|y w']; cbn [tl]; [constructor|].
    apply SS_cons_inv in Hw as [Hw _]. exact Hw.
  - constructor; [exact Hw|apply IH; exact Hr].
Qed.
Lemma total_len_0 (ways : list (list N)) : total_len ways = O -> concat ways = [].
Proof.
  induction ways as [|w ways IH]; intros H; [reflexivity|].
  cbn [total_len] in H. destruct w; [|cbn [length] in H; lia]. cbn [concat app]. apply IH. cbn [length] in H. lia.
Qed.
Lemma all_empty_concat (ways : list (list N)) : Forall (fun w => w = []) ways -> concat ways = [].
Proof. induction 1 as [|w ways Hw _ IH]; [reflexivity|]. subst w. exact IH. Qed.

(* the selected head is a lower bound of everything that is left *)
Lemma min_head_lower (ways : list (list N)) x :
  Forall (StronglySorted N.le) ways ->
  (forall w y t, In w ways -> w = y :: t -> x <= y) ->
  Forall (N.le x) (concat ways).
Proof.
  intros Hs Hh. apply Forall_forall. intros z Hz.
  apply in_concat in Hz as (w & Hw & Hz).
  rewrite Forall_forall in Hs. specialize (Hs w Hw).
  destruct w as [|y t]; [destruct Hz|].
  specialize (Hh _ y t Hw eq_refl). apply SS_cons_inv in Hs as [_ Hy].
  destruct Hz as [<-|Hz]; [exact Hh|]. rewrite Forall_forall in Hy. specialize (Hy z Hz). lia.
Qed.

Lemma scan_merge_correct (fuel : nat) : forall ways,
  (total_len ways <= fuel)%nat -> Forall (StronglySorted N.le) ways ->
  StronglySorted N.le (scan_merge fuel ways) /\ Permutation (concat ways) (scan_merge fuel ways).
Proof.
  induction fuel as [|fuel IH]; intros ways Hf Hs; cbn [scan_merge].
  - rewrite total_len_0 by lia. split; constructor.
  - destruct (find_min ways O None) as [[i x]|] eqn:E.
    + apply find_min_spec in E as (H1 & _ & H3).
      destruct H1 as [H1|(k & t & Hi & Hn)]; [discriminate|]. cbn [Nat.add] in Hi. subst k.
      destruct (advance_perm ways i x t Hn) as [Hp Hl].
      destruct (IH (advance ways i)) as [IS IP]; [lia|apply advance_sorted; exact Hs|].
      split.
      * constructor; [exact IS|].
        pose proof (min_head_lower ways x Hs H3) as Hlow.
        apply Forall_forall. intros z Hz.
        rewrite Forall_forall in Hlow. apply Hlow.
        eapply Permutation_in; [apply Permutation_sym; exact Hp|]. right.
        eapply Permutation_in; [apply Permutation_sym; exact IP|exact Hz].
      * eapply perm_trans; [exact Hp|]. apply perm_skip. exact IP.
    + apply find_min_none in E as [_ E]. rewrite all_empty_concat by exact E. split; constructor.
Qed.

(* merge of sorted runs = sorted union with all duplicates kept; any number of ways,
   including none, and any of them empty *)
Lemma loser_tree_merges_proof (ways : list (list N)) :
  Forall (Sorted N.le) ways ->
  Sorted N.le (loser_merge ways) /\ Permutation (concat ways) (loser_merge ways).
Proof.
  intros Hs. destruct (scan_merge_correct (total_len ways) ways) as [H1 H2]; [lia| |].
  - eapply Forall_impl; [|exact Hs]. intros w. apply Sorted_SS.
  - split; [apply Sorted_SS; exact H1|exact H2].
Qed.

(* ---------- two-way merge ---------- *)
Lemma merge_two_cons a l1 b l2 :
  merge_two (a :: l1) (b :: l2) =
  if a <=? b then a :: merge_two l1 (b :: l2) else b :: merge_two (a :: l1) l2.
Proof. reflexivity. Qed.
Lemma merge_two_nil_r l1 : merge_two l1 [] = l1.
Proof. destruct l1; reflexivity. Qed.
Lemma merge_two_nil_l l2 : merge_two [] l2 = l2.
Proof. destruct l2; reflexivity. Qed.

Lemma merge_two_perm l1 : forall l2, Permutation (l1 ++ l2) (merge_two l1 l2).
Proof.
  induction l1 as [|a l1 IH1]; intros l2; [rewrite merge_two_nil_l; reflexivity|].
  induction l2 as [|b l2 IH2]; [rewrite merge_two_nil_r, app_nil_r; reflexivity|].
  rewrite merge_two_cons. destruct (a <=? b).
  - cbn [app]. apply perm_skip. apply IH1.
  - eapply perm_trans; [apply Permutation_sym, Permutation_middle|]. apply perm_skip. exact IH2.
Qed.
Lemma merge_two_SS l1 : forall l2,
  StronglySorted N.le l1 -> StronglySorted N.le l2 -> StronglySorted N.le (merge_two l1 l2).
Proof.
  induction l1 as [|a l1 IH1]; intros l2 H1 H2; [rewrite merge_two_nil_l; exact H2|].
  induction l2 as [|b l2 IH2]; [rewrite merge_two_nil_r; exact H1|].
  rewrite merge_two_cons.
  pose proof (SS_cons_inv _ _ H1) as [H1' Ha]. pose proof (SS_cons_inv _ _ H2) as [H2' Hb].
  rewrite Forall_forall in Ha, Hb.
  destruct (N.leb_spec a b) as [Hle|Hgt].
  - constructor; [apply IH1; assumption|].
    apply Forall_forall. intros z Hz.
    apply (Permutation_in _ (Permutation_sym (merge_two_perm l1 (b :: l2)))) in Hz.
    apply in_app_or in Hz as [Hz|[<-|Hz]]; [apply Ha; exact Hz|exact Hle|specialize (Hb z Hz); lia].
  - constructor; [apply IH2; assumption|].
    apply Forall_forall. intros z Hz.
    apply (Permutation_in _ (Permutation_sym (merge_two_perm (a :: l1) l2))) in Hz.
    apply in_app_or in Hz as [[<-|Hz]|Hz]; [lia|specialize (Ha z Hz); lia|apply Hb; exact Hz].
Qed.
Lemma merge_two_merges_proof (l1 l2 : list N) :
  Sorted N.le l1 -> Sorted N.le l2 ->
  Sorted N.le (merge_two l1 l2) /\ Permutation (l1 ++ l2) (merge_two l1 l2).
Proof.
  rewrite !Sorted_SS. intros H1 H2. split; [apply merge_two_SS; assumption|apply merge_two_perm].
Qed.
