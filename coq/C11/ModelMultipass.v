(* C11 extension — ReplaceSelectSort::merge_runs with a fan-in smaller than the number of runs.
   Definitions only.

   The pinned merge_runs opens every run in one loser tree (the `merge_ways` field of the
   configuration is not consulted; model: rs_sort in Model.v).  Honouring `merge_ways` means merging
   in passes: groups of `fan_in` consecutive runs are merged first, then the partial results.
   multipass_merge is that algorithm with the trailing incomplete group included (`chunks`);
   multipass_merge_exact drops it (`chunks_exact`).  ProofsMultipass.v: the first computes exactly
   what the coded single pass computes, for every fan-in; the second loses elements. *)
From ZV.Common Require Import Base Run.
From ZV.C11 Require Import Model ModelMsd ModelAdv.
Open Scope N_scope.

(* slice::chunks_exact: only the complete groups *)
Definition chunks_exact {A} (cs : nat) (l : list A) : list (list A) :=
  filter (fun c => Nat.eqb (length c) cs) (chunks cs l).

Definition multipass_with (group : nat -> list (list N) -> list (list (list N)))
                          (fan_in : nat) (runs : list (list N)) : list N :=
  match runs with
  | [] => []
  | [r] => isort r                       (* read_single_run: read back, sort_by(comparator) *)
  | _ =>
    let fan := Nat.max fan_in 2 in
    if Nat.ltb fan (length runs)
    then loser_merge (map loser_merge (group fan runs))
    else loser_merge runs
  end.
Definition multipass_merge : nat -> list (list N) -> list N := multipass_with (@chunks (list N)).
Definition multipass_merge_exact : nat -> list (list N) -> list N := multipass_with (@chunks_exact (list N)).

(* ReplaceSelectSort::sort with multi-pass merging *)
Definition rs_sort_multipass (mem_items fan_in : nat) (input : list N) : list N :=
  multipass_merge fan_in (rs_runs_of mem_items input).
