(* C11 extension — CacheObliviousSort::sort (src/algorithms/cache_oblivious.rs): strategy selection and
   the cache-aware variants, as coded.  Definitions only.

     sort(data)                 empty -> return; AdaptiveAlgorithmSelector::select_strategy(len, hierarchy):
                                len * 8 <= l1 -> CacheAware; <= l3 -> CacheOblivious; else Hybrid
     cache_aware_sort           len * size_of::<T>() <= l1 -> l1_optimized_sort (insertion sort, with or
                                without prefetching); <= l2 -> l2_optimized_sort; else l3_optimized_sort
     hybrid_sort                len * size_of::<T>() <= l2 -> cache_aware_sort else cache_oblivious_sort
     l2_optimized_sort          len > 16 -> cache_aware_quicksort(0, len - 1) else insertion sort
     l3_optimized_sort          len > 32 -> cache_aware_mergesort else insertion sort
     cache_aware_quicksort      Lomuto partition around the last element, then both sides
     cache_aware_mergesort      halves at len / 2, merged with `left[i] <= right[j]` taking the left

   Representation of the partition loop: the slice data[low..=high] during
       for j in low..high { if data[j] <= pivot { data.swap(i, j); i += 1 } }   data.swap(i, high)
   is  small ++ large ++ unprocessed ++ [pivot]  with small = data[low..i), large = data[i..j).
   swap(i, j) with data[j] <= pivot appends data[j] to `small` and moves the first element of `large`
   to its end (`rot`); the final swap(i, high) puts the pivot behind `small` and rotates `large`
   once more.  The model keeps the three segments as lists; the element order is the array's. *)
From ZV.Common Require Import Base Run.
From ZV.C11 Require Import Model ModelFunnel.
Open Scope N_scope.

Definition rot (l : list N) : list N := match l with [] => [] | h :: t => t ++ [h] end.
Fixpoint lomuto (pivot : N) (rest small large : list N) : list N * list N :=
  match rest with
  | [] => (small, large)
  | x :: r => if x <=? pivot then lomuto pivot r (small ++ [x]) (rot large)
              else lomuto pivot r small (large ++ [x])
  end.
(* returns data[low..p), the pivot, data(p..high] after cache_aware_partition *)
Definition partition (l : list N) : list N * N * list N :=
  let pivot := last l 0 in
  let '(small, large) := lomuto pivot (removelast l) [] [] in
  (small, pivot, rot large).
(* the same function on the array, swap by swap (used only to test the segment representation) *)
Definition swap (l : list N) (i j : nat) : list N := upd (upd l i (nth j l 0)) j (nth i l 0).
Fixpoint lomuto_arr (pivot : N) (js : list nat) (l : list N) (i : nat) : list N * nat :=
  match js with
  | [] => (l, i)
  | j :: js' => if nth j l 0 <=? pivot then lomuto_arr pivot js' (swap l i j) (S i) else lomuto_arr pivot js' l i
  end.
Definition partition_arr (l : list N) : list N * nat :=
  let high := (length l - 1)%nat in
  let '(l', i) := lomuto_arr (nth high l 0) (seq 0 high) l O in (swap l' i high, i).

Fixpoint quicksort_go (fuel : nat) (l : list N) : list N :=
  match fuel with
  | O => l
  | S f =>
    if Nat.leb (length l) 1 then l          (* low < high fails *)
    else let '(small, pivot, large) := partition l in
         quicksort_go f small ++ pivot :: quicksort_go f large
  end.
Definition quicksort (l : list N) : list N := quicksort_go (length l) l.

Fixpoint mergesort_go (fuel : nat) (l : list N) : list N :=
  match fuel with
  | O => l
  | S f =>
    if Nat.leb (length l) 1 then l
    else let mid := (length l / 2)%nat in
         merge_two (mergesort_go f (firstn mid l)) (mergesort_go f (skipn mid l))
  end.
Definition mergesort (l : list N) : list N := mergesort_go (length l) l.

Definition l2_optimized_sort (l : list N) : list N := if Nat.ltb 16 (length l) then quicksort l else insertion_sort l.
Definition l3_optimized_sort (l : list N) : list N := if Nat.ltb 32 (length l) then mergesort l else insertion_sort l.

(* esz = size_of::<T>() (8 for u64, 1 for u8); l1 l2 l3 line = the cache hierarchy; st = small_threshold *)
Definition cache_aware_sort (esz l1 l2 : N) (l : list N) : list N :=
  if nlen l * esz <=? l1 then insertion_sort l
  else if nlen l * esz <=? l2 then l2_optimized_sort l
  else l3_optimized_sort l.
Definition hybrid_sort (st : nat) (esz l1 l2 line : N) (l : list N) : list N :=
  if nlen l * esz <=? l2 then cache_aware_sort esz l1 l2 l else co_sort st l2 line l.
Definition co_full_sort (st : nat) (esz l1 l2 l3 line : N) (l : list N) : list N :=
  match l with
  | [] => []
  | _ => if nlen l * 8 <=? l1 then cache_aware_sort esz l1 l2 l
         else if nlen l * 8 <=? l3 then co_sort st l2 line l
         else hybrid_sort st esz l1 l2 line l
  end.
