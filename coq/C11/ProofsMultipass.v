(* C11 extension: multi-pass merging of the runs with any fan-in (trailing incomplete group included)
   and the funnel sort structure of CacheObliviousSort::cache_oblivious_sort. *)
From ZV.Common Require Import Base Run.
From Coq Require Import Sorting.Sorted Sorting.Permutation.
From ZV.C11 Require Import Model ModelMsd ModelAdv ModelMultipass ModelFunnel ProofsSpec ProofsMerge
  ProofsInsertion ProofsExtSort ProofsMsd ProofsAdv.
Open Scope N_scope.

Lemma Forall_chunks_gen {A} (P : A -> Prop) cs (l : list A) :
  (0 < cs)%nat -> Forall P l -> Forall (Forall P) (chunks cs l).
Proof.
  intros Hcs Hl. apply Forall_forall. intros c Hc. apply Forall_forall. intros x Hx.
  rewrite Forall_forall in Hl. apply Hl. rewrite <- (chunks_concat cs l Hcs).
  apply in_concat. exists c. split; assumption.
Qed.

Lemma concat_map_perm_in {A} (f : list A -> list A) (ls : list (list A)) :
  (forall l, In l ls -> Permutation l (f l)) -> Permutation (concat ls) (concat (map f ls)).
Proof.
  induction ls as [|l ls IH]; intros H; cbn [concat map]; [constructor|].
  apply Permutation_app; [apply H; left; reflexivity|apply IH; intros l' Hl'; apply H; right; exact Hl'].
Qed.

Lemma concat_concat_map {A} (L : list (list (list A))) : concat (map (@concat A) L) = concat (concat L).
Proof. induction L as [|x L IH]; cbn [map concat]; [reflexivity|]. rewrite concat_app, IH. reflexivity. Qed.

(* groups of sorted runs merged, then the partial results merged *)
Lemma two_level_merge_sorts (groups : list (list (list N))) :
  Forall (Forall (Sorted N.le)) groups ->
  Sorted N.le (loser_merge (map loser_merge groups)) /\
  Permutation (concat (concat groups)) (loser_merge (map loser_merge groups)).
Proof.
  intros Hg.
  destruct (loser_tree_merges_proof (map loser_merge groups)) as [H1 H2].
  - apply Forall_forall. intros w Hw. apply in_map_iff in Hw as (g & <- & Hin).
    rewrite Forall_forall in Hg. apply loser_tree_merges_proof. apply Hg. exact Hin.
  - split; [exact H1|]. eapply perm_trans; [|exact H2].
    rewrite <- concat_concat_map.
    clear H1 H2. induction groups as [|g groups IH]; cbn [map concat]; [constructor|].
    inversion Hg as [|? ? Hgg Hg']; subst.
    apply Permutation_app; [apply loser_tree_merges_proof; exact Hgg|apply IH; exact Hg'].
Qed.

Lemma multipass_merge_sorts_proof (fan_in : nat) (runs : list (list N)) :
  Forall (Sorted N.le) runs ->
  Sorted N.le (multipass_merge fan_in runs) /\ Permutation (concat runs) (multipass_merge fan_in runs).
Proof.
  intros Hs. unfold multipass_merge, multipass_with. destruct runs as [|r [|r2 rest]] eqn:Er.
  - split; constructor.
  - cbn [concat]. rewrite app_nil_r. split; [apply isort_sorted|apply isort_perm].
  - rewrite <- Er in *. clear Er r r2 rest.
    destruct (Nat.ltb _ _); [|apply loser_tree_merges_proof; exact Hs].
    assert (Hfan : (0 < Nat.max fan_in 2)%nat) by lia.
    destruct (two_level_merge_sorts (chunks (Nat.max fan_in 2) runs)) as [H1 H2].
    + apply Forall_chunks_gen; assumption.
    + split; [exact H1|]. rewrite (chunks_concat _ runs Hfan) in H2. exact H2.
Qed.

(* the multi-pass result is the single-pass result of the pinned code *)
Lemma multipass_eq_single_pass_proof (fan_in : nat) (runs : list (list N)) :
  Forall (Sorted N.le) runs -> multipass_merge fan_in runs = multipass_merge (length runs) runs.
Proof.
  intros Hs. destruct (multipass_merge_sorts_proof fan_in runs Hs) as [A1 A2].
  destruct (multipass_merge_sorts_proof (length runs) runs Hs) as [B1 B2].
  apply sorted_perm_unique; [exact A1|exact B1|].
  eapply perm_trans; [apply Permutation_sym; exact A2|exact B2].
Qed.

Lemma multipass_single_is_coded (runs : list (list N)) :
  multipass_merge (length runs) runs = match runs with [] => [] | [r] => isort r | _ => loser_merge runs end.
Proof.
  unfold multipass_merge, multipass_with. destruct runs as [|r [|r2 runs]]; try reflexivity.
  destruct (Nat.ltb_spec (Nat.max (length (r :: r2 :: runs)) 2) (length (r :: r2 :: runs))); [lia|reflexivity].
Qed.

Lemma external_sort_multipass_sorts_proof (mem fan_in : nat) (input : list N) :
  (0 < mem)%nat ->
  Sorted N.le (rs_sort_multipass mem fan_in input) /\ Permutation input (rs_sort_multipass mem fan_in input) /\
  rs_sort_multipass mem fan_in input = rs_sort mem input.
Proof.
  intros Hm. destruct (rs_runs_proof mem input Hm) as [Hr Hp].
  destruct (multipass_merge_sorts_proof fan_in (rs_runs_of mem input) Hr) as [H1 H2].
  unfold rs_sort_multipass. split; [exact H1|]. split; [eapply perm_trans; [exact Hp|exact H2]|].
  rewrite (multipass_eq_single_pass_proof fan_in _ Hr), multipass_single_is_coded. unfold rs_sort.
  destruct (rs_runs_of mem input) as [|r [|r2 rest]]; reflexivity.
Qed.

(* dropping the trailing incomplete group (chunks_exact) loses its runs *)
Lemma multipass_chunks_exact_refuted_proof :
  exists fan_in runs, Forall (Sorted N.le) runs /\
    multipass_merge_exact fan_in runs <> multipass_merge fan_in runs.
Proof.
  exists 2%nat, [[1]; [2]; [3]]. split.
  - repeat constructor.
  - vm_compute. discriminate.
Qed.

(* ------------------------------------------------------------------ *)
(* funnel sort                                                         *)
(* ------------------------------------------------------------------ *)
Lemma co_segments_concat i chunk : forall data, concat (co_segments i chunk data) = data.
Proof.
  induction i as [|i IH]; intros data; cbn [co_segments concat]; [apply app_nil_r|].
  rewrite IH. apply firstn_skipn.
Qed.
Lemma co_segments_len i chunk : forall data s, In s (co_segments i chunk data) ->
  (length s <= chunk)%nat \/ length s = (length data - i * chunk)%nat.
Proof.
  induction i as [|i IH]; intros data s Hs; cbn [co_segments] in Hs.
  - destruct Hs as [<-|[]]. right. lia.
  - destruct Hs as [<-|Hs].
    + left. rewrite firstn_length. lia.
    + destruct (IH _ _ Hs) as [H|H]; [left; exact H|right]. rewrite skipn_length in H. lia.
Qed.

Lemma funnel_go_sorts (fuel st : nat) : forall k data,
  (length data <= fuel)%nat ->
  Sorted N.le (funnel_go fuel st k data) /\ Permutation data (funnel_go fuel st k data).
Proof.
  induction fuel as [|f IH]; intros k data Hf.
  - destruct data; [|cbn [length] in Hf; lia]. split; constructor.
  - cbn [funnel_go]. destruct (Nat.leb (length data) st || Nat.leb (length data) 1) eqn:Esmall.
    { apply insertion_sort_sorts_proof. }
    apply orb_false_iff in Esmall as [_ E1]. apply Nat.leb_gt in E1.
    set (n := length data) in *. set (k' := Nat.min (Nat.max k 2) n).
    assert (Hk : (2 <= k' <= n)%nat) by (unfold k'; lia).
    set (chunk := (n / k')%nat).
    assert (Hc1 : (1 <= chunk)%nat) by (unfold chunk; apply Nat.div_str_pos; lia).
    assert (Hc2 : (chunk < n)%nat).
    { unfold chunk. eapply Nat.le_lt_trans; [apply (Nat.div_le_compat_l n 2 k'); lia|]. apply Nat.div_lt; lia. }
    set (segs := co_segments (k' - 1) chunk data).
    set (g := fun s : list N => match s with [] => [] | _ => funnel_go f st (Nat.max (Nat.sqrt k') 2) s end).
    assert (Hg : forall s, In s segs -> Sorted N.le (g s) /\ Permutation s (g s)).
    { intros s Hs. unfold g. destruct s as [|x s'] eqn:Es; [split; constructor|]. rewrite <- Es in *.
      apply IH. apply co_segments_len in Hs. fold n in Hs.
      assert (chunk <= (k' - 1) * chunk)%nat by nia. lia. }
    destruct (loser_tree_merges_proof (map g segs)) as [H1 H2].
    + apply Forall_forall. intros w Hw. apply in_map_iff in Hw as (s & <- & Hs). apply Hg. exact Hs.
    + split; [exact H1|]. eapply perm_trans; [|exact H2].
      rewrite <- (co_segments_concat (k' - 1) chunk data) at 1. fold segs.
      apply concat_map_perm_in. intros s Hs. apply Hg. exact Hs.
Qed.

Lemma co_sort_sorts_proof (st : nat) (l2 line : N) (data : list N) :
  Sorted N.le (co_sort st l2 line data) /\ Permutation data (co_sort st l2 line data).
Proof.
  unfold co_sort. destruct (Nat.leb _ _); [apply insertion_sort_sorts_proof|].
  apply funnel_go_sorts. lia.
Qed.
