(* C11 extension — CacheObliviousSort::cache_oblivious_sort (src/algorithms/cache_oblivious.rs),
   top-level structure as coded.  Definitions only.

     cache_oblivious_sort(data)      len <= small_threshold -> insertion_sort
                                     else funnel_sort_recursive(data, calculate_funnel_width(len))
     calculate_funnel_width(n)       k = sqrt(l2_size / l2_line_size); max(k, 2).min(min(n, 64))
     funnel_sort_recursive(data, k)  n <= small_threshold || n <= 1 -> insertion_sort
                                     k = k.max(2).min(n); sqrt_k = max(sqrt(k), 2); chunk = n / k
                                     segment i = [i*chunk, (i+1)*chunk), the last one up to n;
                                     each non-empty segment sorted recursively with sqrt_k;
                                     cache_oblivious_merge(data, k, chunk): k-way merge of the same
                                     segments by repeated linear scan for the first strictly least head
   The f64 square roots are of integers below 2^53 and are modelled by the integer square root.
   Prefetching and the cache-optimised copy are not modelled (they do not change values). *)
From ZV.Common Require Import Base Run.
From ZV.C11 Require Import Model.
Open Scope N_scope.

(* k - 1 segments of `chunk` elements, then everything that is left *)
Fixpoint co_segments (i chunk : nat) (data : list N) : list (list N) :=
  match i with
  | O => [data]
  | S i' => firstn chunk data :: co_segments i' chunk (skipn chunk data)
  end.

Fixpoint funnel_go (fuel st k : nat) (data : list N) : list N :=
  match fuel with
  | O => data
  | S f =>
    let n := length data in
    if Nat.leb n st || Nat.leb n 1 then insertion_sort data
    else
      let k' := Nat.min (Nat.max k 2) n in
      let sqrt_k := Nat.max (Nat.sqrt k') 2 in
      let chunk := (n / k')%nat in
      loser_merge (map (fun s => match s with [] => [] | _ => funnel_go f st sqrt_k s end)
                       (co_segments (k' - 1) chunk data))
  end.

Definition funnel_width (l2 line : N) (n : nat) : nat :=
  Nat.min (Nat.max (N.to_nat (N.sqrt (l2 / line))) 2) (Nat.min n 64).

(* st = small_threshold, l2 = cache_hierarchy.l2_size, line = l2_line_size *)
Definition co_sort (st : nat) (l2 line : N) (data : list N) : list N :=
  if Nat.leb (length data) st then insertion_sort data
  else funnel_go (length data) st (funnel_width l2 line (length data)) data.
