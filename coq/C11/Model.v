(* C11 — sorts, merges and set operations: spec layer S and mechanism layer M.
   Definitions only (the model must still run when a proof breaks).

   S: sortedb / isort / is_sorted_perm (the verified checker used for S-only cells).
   M: * LSD radix sort as in src/algorithms/radix_sort.rs (sort_u32_sequential,
        sort_u64_sequential, AdvancedRadixSort::lsd_radix_sort_sequential): per pass a
        counts array of 2^r entries, exclusive prefix sums, left-to-right scatter into a
        zero-filled buffer, copy back; pass p looks at (v >> p*r) & (2^r - 1);
      * counting_sort_u32 and the RadixSort::sort_u32 dispatch;
      * insertion sort (AdvancedRadixSort::insertion_sort, CacheObliviousSort::insertion_sort);
      * EnhancedLoserTree as it exists: the winner is found by a linear scan over the heads of
        all ways (find_initial_winner: first way whose head is strictly least), pop advances
        that way (src/algorithms/tournament_tree.rs; the tree array is never read);
      * MultiWayMerge::merge_heap (binary heap keyed by value) and merge_tournament
        (linear scan over peek()), MergeOperations::merge_two;
      * replacement selection run generation of ReplaceSelectSort::generate_runs
        (heap keyed by value only, run ids carried along, run closed when the heap's
        minimum belongs to a later run) followed by the loser-tree merge of the runs;
      * the two-pointer set algorithms of src/algorithms/set_ops.rs, their binary-search
        ("1small") variants with lower_bound/upper_bound, set_unique, and the k-way
        intersection/union of src/algorithms/set_operations.rs (bit-mask path). *)
From ZV.Common Require Import Base Run.
Open Scope N_scope.

(* ------------------------------------------------------------------ *)
(* S: the property's vocabulary                                        *)
(* ------------------------------------------------------------------ *)
Fixpoint sortedb (l : list N) : bool :=
  match l with
  | [] => true
  | x :: t => match t with [] => true | y :: _ => (x <=? y) && sortedb t end
  end.

Fixpoint ins (x : N) (l : list N) : list N :=
  match l with
  | [] => [x]
  | y :: t => if x <=? y then x :: l else y :: ins x t
  end.
Fixpoint isort (l : list N) : list N :=
  match l with [] => [] | x :: t => ins x (isort t) end.

(* verified checker: out is the sorted permutation of inp *)
Definition is_sorted_perm (inp out : list N) : bool :=
  sortedb out && eqb_ln (isort inp) out.

Fixpoint memb (x : N) (l : list N) : bool :=
  match l with [] => false | y :: t => (x =? y) || memb x t end.
Fixpoint countb (x : N) (l : list N) : nat :=
  match l with [] => O | y :: t => if x =? y then S (countb x t) else countb x t end.

(* ------------------------------------------------------------------ *)
(* M: arrays                                                           *)
(* ------------------------------------------------------------------ *)
Fixpoint upd {A} (l : list A) (i : nat) (v : A) : list A :=
  match l with
  | [] => []
  | h :: t => match i with O => v :: t | S i' => h :: upd t i' v end
  end.

(* ------------------------------------------------------------------ *)
(* M: LSD radix sort                                                   *)
(* ------------------------------------------------------------------ *)
(* ((value >> shift) & mask) as usize, mask = (1 << r) - 1 *)
Definition digit (r shift x : N) : N := N.land (N.shiftr x shift) (N.ones r).
Definition dnat (r shift x : N) : nat := N.to_nat (digit r shift x).

(* counts.fill(0); for v in data { counts[digit] += 1 } *)
Definition count_digits (r shift : N) (data : list N) : list nat :=
  fold_left (fun cnt v => let d := dnat r shift v in upd cnt d (S (nth d cnt O)))
            data (repeat O (N.to_nat (2 ^ r))).

(* let mut pos = 0; for c in counts { old = c; c = pos; pos += old } *)
Fixpoint prefix_sums (pos : nat) (cnt : list nat) : list nat :=
  match cnt with [] => [] | c :: t => pos :: prefix_sums (pos + c)%nat t end.

(* for v in data { buffer[counts[digit]] = v; counts[digit] += 1 } *)
Fixpoint scatter (r shift : N) (data : list N) (pos : list nat) (buf : list N) : list N :=
  match data with
  | [] => buf
  | v :: rest =>
      let d := dnat r shift v in
      let p := nth d pos O in
      scatter r shift rest (upd pos d (S p)) (upd buf p v)
  end.

Definition lsd_pass (r shift : N) (data : list N) : list N :=
  scatter r shift data (prefix_sums O (count_digits r shift data)) (repeat 0 (length data)).

Fixpoint lsd_passes (r : N) (n : nat) (pass : N) (data : list N) : list N :=
  match n with
  | O => data
  | S n' => lsd_passes r n' (pass + 1) (lsd_pass r (pass * r) data)
  end.

(* w = key width in bits (32 / 64), r = radix_bits; max_passes = ceil(w / r) *)
Definition lsd_sort (w r : N) (data : list N) : list N :=
  lsd_passes r (N.to_nat ((w + r - 1) / r)) 0 data.

(* the same pass written as what it computes: buckets in digit order, each in input order *)
Definition bucket (r shift : N) (d : nat) (data : list N) : list N :=
  filter (fun v => Nat.eqb (dnat r shift v) d) data.
Definition lsd_pass_spec (r shift : N) (data : list N) : list N :=
  flat_map (fun d => bucket r shift d data) (seq O (N.to_nat (2 ^ r))).

(* AdvancedRadixSort::lsd_radix_sort_sequential: passes from the largest key *)
Definition list_max (data : list N) : N := fold_left N.max data 0.
Definition adv_passes (r : N) (data : list N) : N :=
  let mx := list_max data in if mx =? 0 then 1 else (N.size mx + r - 1) / r.
Definition adv_lsd (r : N) (data : list N) : list N :=
  lsd_passes r (N.to_nat (adv_passes r data)) 0 data.

(* RadixSort::counting_sort_u32 *)
Fixpoint expand (value : N) (counts : list nat) : list N :=
  match counts with
  | [] => []
  | c :: t => repeat value c ++ expand (value + 1) t
  end.
Definition counting_sort (data : list N) : list N :=
  match data with
  | [] => []
  | _ =>
    let mx := list_max data in
    let counts := fold_left (fun cnt v => let i := N.to_nat v in upd cnt i (S (nth i cnt O)))
                            data (repeat O (S (N.to_nat mx))) in
    expand 0 counts
  end.

(* RadixSort::sort_u32 without the parallel path: counting sort up to the threshold
   (after the fix: only when the largest value is small enough), else LSD passes *)
Definition COUNTING_MAX_RANGE : N := 65536.
Definition radix_sort_u32 (r cth : N) (data : list N) : list N :=
  match data with
  | [] => []
  | _ => if (nlen data <=? cth) && (list_max data <? COUNTING_MAX_RANGE)
         then counting_sort data else lsd_sort 32 r data
  end.

(* ------------------------------------------------------------------ *)
(* M: insertion sort (scan from the right while data[j-1] > key)       *)
(* ------------------------------------------------------------------ *)
Fixpoint ins_r (x : N) (l : list N) : list N :=
  match l with
  | [] => [x]
  | y :: t => if x <? y then x :: l else y :: ins_r x t
  end.
(* the loop shifts the suffix of the sorted prefix whose elements are > key *)
Definition insertion_sort (data : list N) : list N :=
  fold_left (fun acc x => ins_r x acc) data [].

(* ------------------------------------------------------------------ *)
(* M: k-way merges                                                     *)
(* ------------------------------------------------------------------ *)
(* find_initial_winner: first way whose head is strictly smaller than the best so far *)
Fixpoint find_min (ways : list (list N)) (idx : nat) (best : option (nat * N)) : option (nat * N) :=
  match ways with
  | [] => best
  | w :: t =>
    match w with
    | [] => find_min t (S idx) best
    | x :: _ =>
      match best with
      | None => find_min t (S idx) (Some (idx, x))
      | Some (_, m) => if x <? m then find_min t (S idx) (Some (idx, x)) else find_min t (S idx) best
      end
    end
  end.
Fixpoint advance (ways : list (list N)) (i : nat) : list (list N) :=
  match ways with
  | [] => []
  | w :: t => match i with O => tl w :: t | S i' => w :: advance t i' end
  end.
Fixpoint total_len (ways : list (list N)) : nat :=
  match ways with [] => O | w :: t => (length w + total_len t)%nat end.
Fixpoint scan_merge (fuel : nat) (ways : list (list N)) : list N :=
  match fuel with
  | O => []
  | S f => match find_min ways O None with
           | None => []
           | Some (i, x) => x :: scan_merge f (advance ways i)
           end
  end.
(* EnhancedLoserTree::merge_all / merge_to_vec, MultiWayMerge::merge_tournament,
   CacheObliviousSort::cache_oblivious_merge: repeated linear scan for the least head *)
Definition loser_merge (ways : list (list N)) : list N := scan_merge (total_len ways) ways.

(* MultiWayMerge::merge_heap: the heap is keyed by the item only; for integers equal items
   are indistinguishable, so the heap is represented by the sorted list of (item, source) *)
Fixpoint hpush (x : N) (s : nat) (h : list (N * nat)) : list (N * nat) :=
  match h with
  | [] => [(x, s)]
  | (y, t) :: h' => if x <=? y then (x, s) :: h else (y, t) :: hpush x s h'
  end.
Fixpoint heap_init (ways : list (list N)) (idx : nat) (h : list (N * nat)) : list (N * nat) * list (list N) :=
  match ways with
  | [] => (h, [])
  | w :: t =>
    match w with
    | [] => let '(h', t') := heap_init t (S idx) h in (h', [] :: t')
    | x :: w' => let '(h', t') := heap_init t (S idx) (hpush x idx h) in (h', w' :: t')
    end
  end.
Fixpoint heap_loop (fuel : nat) (h : list (N * nat)) (ways : list (list N)) : list N :=
  match fuel with
  | O => []
  | S f =>
    match h with
    | [] => []
    | (x, s) :: h' =>
      match nth s ways [] with
      | [] => x :: heap_loop f h' ways
      | y :: _ => x :: heap_loop f (hpush y s h') (advance ways s)
      end
    end
  end.
Definition heap_merge (ways : list (list N)) : list N :=
  let '(h, ws) := heap_init ways O [] in heap_loop (total_len ways) h ws.

(* MergeOperations::merge_two / merge_in_place / SimdComparator::merge_sorted_i32: l <= r takes left *)
Fixpoint merge_two (l1 l2 : list N) : list N :=
  let fix aux l2 :=
    match l1, l2 with
    | [], _ => l2
    | _, [] => l1
    | a :: l1', b :: l2' => if a <=? b then a :: merge_two l1' l2 else b :: aux l2'
    end
  in aux l2.

(* ------------------------------------------------------------------ *)
(* M: replacement selection (ReplaceSelectSort::generate_runs)          *)
(* ------------------------------------------------------------------ *)
(* heap entries: (value, run_id); ordered by value only *)
Record rs_state := mk_rs {
  rs_heap : list (N * nat);
  rs_cur : nat;                 (* current_run *)
  rs_open : option (list N);    (* temp_writer: Some (run written so far, reversed) *)
  rs_runs : list (list N);      (* finished runs, most recent first *)
}.
Definition rs_peek_later (h : list (N * nat)) (cur : nat) : bool :=
  match h with [] => true | (_, rid) :: _ => Nat.ltb cur rid end.
Definition rs_finish (h : list (N * nat)) (cur : nat) (run : list N) (runs : list (list N)) : rs_state :=
  mk_rs h (S cur) None (rev run :: runs).
(* one iteration of `while !heap.is_empty()`; returns the state and the remaining input *)
Definition rs_step (st : rs_state) (input : list N) : rs_state * list N :=
  match rs_heap st with
  | [] => (st, input)
  | (m, _) :: h =>
    let run := m :: match rs_open st with Some r => r | None => [] end in
    let cur := rs_cur st in
    match input with
    | x :: rest =>
      if x <? m then
        let h' := hpush x (S cur) h in
        if rs_peek_later h' cur then (rs_finish h' cur run (rs_runs st), rest)
        else (mk_rs h' cur (Some run) (rs_runs st), rest)
      else (mk_rs (hpush x cur h) cur (Some run) (rs_runs st), rest)
    | [] =>
      if rs_peek_later h cur then (rs_finish h cur run (rs_runs st), [])
      else (mk_rs h cur (Some run) (rs_runs st), [])
    end
  end.
Fixpoint rs_loop (fuel : nat) (st : rs_state) (input : list N) : rs_state :=
  match fuel with
  | O => st
  | S f => match rs_heap st with
           | [] => st
           | _ => let '(st', input') := rs_step st input in rs_loop f st' input'
           end
  end.
Fixpoint rs_fill (n : nat) (h : list (N * nat)) (input : list N) : list (N * nat) * list N :=
  match n with
  | O => (h, input)
  | S n' => match input with
            | [] => (h, [])
            | x :: rest => rs_fill n' (hpush x O h) rest
            end
  end.
(* the runs, in the order they were written *)
Definition rs_runs_of (mem_items : nat) (input : list N) : list (list N) :=
  let '(h, rest) := rs_fill mem_items [] input in
  rev (rs_runs (rs_loop (length input) (mk_rs h O None []) rest)).
(* ReplaceSelectSort::sort: runs, then merge_runs (0 runs: empty; 1 run: read back and sort_by;
   otherwise the loser tree) *)
Definition rs_sort (mem_items : nat) (input : list N) : list N :=
  match rs_runs_of mem_items input with
  | [] => []
  | [r] => isort r
  | runs => loser_merge runs
  end.

(* ------------------------------------------------------------------ *)
(* M: set operations on sorted sequences (set_ops.rs)                  *)
(* ------------------------------------------------------------------ *)
(* multiset_intersection: Less -> i1++, Greater -> i2++, Equal -> push first1[i1]; i1++ *)
Fixpoint ms_inter (a b : list N) : list N :=
  let fix aux b :=
    match a, b with
    | [], _ => []
    | _, [] => []
    | x :: a', y :: b' =>
      match x ?= y with
      | Lt => ms_inter a' b
      | Gt => aux b'
      | Eq => x :: ms_inter a' b
      end
    end
  in aux b.
(* multiset_intersection2: Equal -> push first2[i2]; i2++ *)
Fixpoint ms_inter2 (a b : list N) : list N :=
  let fix aux b :=
    match a, b with
    | [], _ => []
    | _, [] => []
    | x :: a', y :: b' =>
      match x ?= y with
      | Lt => ms_inter2 a' b
      | Gt => aux b'
      | Eq => y :: aux b'
      end
    end
  in aux b.
(* multiset_union: Equal -> push both, advance both *)
Fixpoint ms_union (a b : list N) : list N :=
  let fix aux b :=
    match a, b with
    | [], _ => b
    | _, [] => a
    | x :: a', y :: b' =>
      match x ?= y with
      | Lt => x :: ms_union a' b
      | Gt => y :: aux b'
      | Eq => x :: y :: ms_union a' b'
      end
    end
  in aux b.
(* multiset_difference: Equal -> skip both *)
Fixpoint ms_diff (a b : list N) : list N :=
  let fix aux b :=
    match a, b with
    | [], _ => []
    | _, [] => a
    | x :: a', y :: b' =>
      match x ?= y with
      | Lt => x :: ms_diff a' b
      | Gt => aux b'
      | Eq => ms_diff a' b'
      end
    end
  in aux b.
(* set_unique (the kept prefix): drop an element equal to the last kept one *)
Fixpoint uniq_from (last : N) (l : list N) : list N :=
  match l with
  | [] => []
  | x :: t => if last =? x then uniq_from last t else x :: uniq_from x t
  end.
Definition set_unique (l : list N) : list N :=
  match l with [] => [] | x :: t => x :: uniq_from x t end.
Definition set_inter (a b : list N) := set_unique (ms_inter a b).
Definition set_union (a b : list N) := set_unique (ms_union a b).
Definition set_diff (a b : list N) := set_unique (ms_diff a b).

(* lower_bound / upper_bound by bisection on an index range, as in set_ops.rs *)
Fixpoint lower_bound_go (fuel : nat) (data : list N) (v : N) (left right : nat) : nat :=
  match fuel with
  | O => left
  | S f =>
    if Nat.ltb left right then
      let mid := (left + (right - left) / 2)%nat in
      if nth mid data 0 <? v then lower_bound_go f data v (S mid) right
      else lower_bound_go f data v left mid
    else left
  end.
Fixpoint upper_bound_go (fuel : nat) (data : list N) (v : N) (left right : nat) : nat :=
  match fuel with
  | O => left
  | S f =>
    if Nat.ltb left right then
      let mid := (left + (right - left) / 2)%nat in
      if v <? nth mid data 0 then upper_bound_go f data v left mid
      else upper_bound_go f data v (S mid) right
    else left
  end.
Definition lower_bound (data : list N) (v : N) : nat := lower_bound_go (S (length data)) data v O (length data).
Definition upper_bound (data : list N) (v : N) : nat := upper_bound_go (S (length data)) data v O (length data).

(* copy all of first1 that compare Equal to the start of the matching range *)
Fixpoint take_eq (v : N) (a : list N) : list N * list N :=
  match a with
  | [] => ([], [])
  | x :: t => if x =? v then let '(p, q) := take_eq v t in (x :: p, q) else ([], a)
  end.
(* multiset_1small_intersection *)
Fixpoint ms_1small_inter (fuel : nat) (a b : list N) : list N :=
  match fuel with
  | O => []
  | S f =>
    match a, b with
    | [], _ => []
    | _, [] => []
    | x :: a', _ =>
      let lo := lower_bound b x in
      let hi := upper_bound b x in
      if Nat.eqb lo hi then ms_1small_inter f a' (skipn hi b)
      else let '(p, q) := take_eq (nth lo b 0) a in p ++ ms_1small_inter f q (skipn hi b)
    end
  end.
(* multiset_1small_intersection2 *)
Fixpoint ms_1small_inter2 (a b : list N) : list N :=
  match a with
  | [] => []
  | x :: a' =>
    match b with
    | [] => []
    | _ =>
      let lo := lower_bound b x in
      let hi := upper_bound b x in
      firstn (hi - lo) (skipn lo b) ++ ms_1small_inter2 a' (skipn hi b)
    end
  end.
(* multiset_fast_intersection(2): adaptive selection *)
Definition ms_fast_inter (th : N) (a b : list N) : list N :=
  if nlen a * th <? nlen b then ms_1small_inter (S (length a)) a b else ms_inter a b.
Definition ms_fast_inter2 (th : N) (a b : list N) : list N :=
  if nlen a * th <? nlen b then ms_1small_inter2 a b else ms_inter2 a b.

(* SetOperations::intersection_bit_mask: repeatedly take the least head; it is output when
   every way has it at its head; every way that has it advances by one *)
Fixpoint min_head (ways : list (list N)) (best : option N) : option N :=
  match ways with
  | [] => best
  | [] :: t => min_head t best
  | (x :: _) :: t => match best with
                     | None => min_head t (Some x)
                     | Some m => min_head t (Some (if x <? m then x else m))
                     end
  end.
Definition head_is (m : N) (w : list N) : bool :=
  match w with [] => false | x :: _ => x =? m end.
Fixpoint kway_inter_go (fuel : nat) (ways : list (list N)) : list N :=
  match fuel with
  | O => []
  | S f =>
    match min_head ways None with
    | None => []
    | Some m =>
      let ways' := map (fun w => if head_is m w then tl w else w) ways in
      if forallb (head_is m) ways then m :: kway_inter_go f ways' else kway_inter_go f ways'
    end
  end.
Definition kway_inter (ways : list (list N)) : list N :=
  match ways with [] => [] | _ => kway_inter_go (S (total_len ways)) ways end.
(* SetOperations::union: loser-tree merge with deduplication of equal neighbours *)
Definition kway_union (ways : list (list N)) : list N := set_unique (loser_merge ways).

(* ------------------------------------------------------------------ *)
(* case interpreter for the correspondence check                       *)
(* ------------------------------------------------------------------ *)
Definition nth_l (i : nat) (ls : list (list N)) : list N := nth i ls [].
Definition nth_p (i : nat) (ps : list N) : N := nth i ps 0.
Definition run_case (op : N) (ps : list N) (ins : list (list N)) : list N :=
  let a := nth_l 0 ins in
  let b := nth_l 1 ins in
  match op with
  | 0 => lsd_sort (nth_p 0 ps) (nth_p 1 ps) a
  | 1 => radix_sort_u32 (nth_p 0 ps) (nth_p 1 ps) a
  | 2 => adv_lsd (nth_p 0 ps) a
  | 3 => loser_merge ins
  | 4 => ms_inter a b
  | 5 => ms_inter2 a b
  | 6 => ms_union a b
  | 7 => ms_diff a b
  | 8 => set_unique a
  | 9 => set_inter a b
  | 10 => set_union a b
  | 11 => set_diff a b
  | 12 => if is_sorted_perm a b then [1] else [0]
  | 13 => let runs := rs_runs_of (N.to_nat (nth_p 0 ps)) a in
          N.of_nat (length runs) :: rs_sort (N.to_nat (nth_p 0 ps)) a
  | 14 => kway_inter ins
  | 15 => kway_union ins
  | 16 => insertion_sort a
  | 17 => heap_merge ins
  | 18 => merge_two a b
  | 19 => ms_1small_inter (S (length a)) a b
  | 20 => ms_1small_inter2 a b
  | 21 => ms_fast_inter (nth_p 0 ps) a b
  | 22 => ms_fast_inter2 (nth_p 0 ps) a b
  | 23 => counting_sort a
  | 24 => lsd_pass_spec (nth_p 0 ps) (nth_p 1 ps) a
  | 25 => lsd_pass (nth_p 0 ps) (nth_p 1 ps) a
  | _ => []
  end.
