(* C11 extension — the parallel paths of RadixSort (src/algorithms/radix_sort.rs) as coded.
   Definitions only.

     fn sort_u32(&mut self, data)          empty -> return;
                                           len >= parallel_threshold && use_parallel -> sort_u32_parallel
                                           else sort_u32_sequential
     fn sort_u32_parallel(&self, data)     len < 2 * parallel_threshold -> sort_u32_sequential
                                           chunk_size = (len + threads - 1) / threads
                                           data.par_chunks_mut(chunk_size).for_each(sort_u32_sequential)
                                           multiway_merge_u32_chunks(data, chunk_size)
     fn multiway_merge_u32_chunks          data.chunks(chunk_size) -> VectorSource each,
                                           MultiWayMerge::new().merge(sources), copy back
   (sort_u64 / sort_u64_parallel / multiway_merge_u64_chunks: the same with sort_u64_sequential.)

   The slices that are sorted and the slices that are merged are computed by two separate calls
   (par_chunks_mut(..) and chunks(..)); the model keeps the two chunk sizes apart (par_chunk_sort)
   and the code's instance passes the same value twice. rayon's scheduling is not modelled: the
   chunks are disjoint slices and each is sorted by a sequential function. *)
From ZV.Common Require Import Base Run.
From ZV.C11 Require Import Model ModelMsd ModelAdv.
Open Scope N_scope.

(* MultiWayMerge::merge: 0 sources -> empty; 1 source -> collected as it is; more than
   max_merge_ways -> merge_hierarchical (= merge_heap); use_tournament_tree && more than 8 ->
   merge_tournament; else merge_heap *)
Definition mwm_merge (tt : bool) (maxw : nat) (ways : list (list N)) : list N :=
  match ways with
  | [] => []
  | [w] => w
  | _ => if Nat.ltb maxw (length ways) then heap_merge ways
         else if tt && Nat.ltb 8 (length ways) then loser_merge ways
         else heap_merge ways
  end.
(* MultiWayMergeConfig::default(): max_merge_ways = 1024, use_tournament_tree = false *)
Definition mwm_default (ways : list (list N)) : list N := mwm_merge false 1024 ways.

(* sort the slices of sort_cs elements in place, then merge the slices of merge_cs elements *)
Definition par_chunk_sort (seq_sort : list N -> list N) (sort_cs merge_cs : nat) (data : list N) : list N :=
  let after_sort := concat (map seq_sort (chunks sort_cs data)) in
  mwm_default (chunks merge_cs after_sort).

Definition par_chunk_size (threads : nat) (data : list N) : nat :=
  ((length data + threads - 1) / threads)%nat.

Definition sort_parallel (seq_sort : list N -> list N) (pth threads : nat) (data : list N) : list N :=
  if Nat.ltb (length data) (2 * pth) then seq_sort data
  else let cs := par_chunk_size threads data in par_chunk_sort seq_sort cs cs data.

Definition sort_top (seq_sort : list N -> list N) (par : bool) (pth threads : nat) (data : list N) : list N :=
  match data with
  | [] => []
  | _ => if Nat.leb pth (length data) && par then sort_parallel seq_sort pth threads data
         else seq_sort data
  end.

(* RadixSort::sort_u32 / sort_u64 with every configuration field that selects a path:
   r = radix_bits, cth = use_counting_sort_threshold, par = use_parallel, pth = parallel_threshold,
   threads = rayon::current_num_threads() *)
Definition sort_u32 (r cth : N) (par : bool) (pth threads : nat) (data : list N) : list N :=
  sort_top (radix_sort_u32 r cth) par pth threads data.
Definition sort_u64 (r : N) (par : bool) (pth threads : nat) (data : list N) : list N :=
  sort_top (lsd_sort 64 r) par pth threads data.
