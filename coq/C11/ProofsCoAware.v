(* C11 extension: CacheObliviousSort::sort — whichever strategy the cache hierarchy selects
   (insertion sort, Lomuto quicksort, merge sort, funnel sort), the result is the sorted permutation. *)
From ZV.Common Require Import Base Run.
From Coq Require Import Sorting.Sorted Sorting.Permutation.
From ZV.C11 Require Import Model ModelFunnel ModelCoAware ProofsSpec ProofsMerge ProofsInsertion ProofsMultipass.
Open Scope N_scope.

Lemma rot_perm l : Permutation l (rot l).
Proof. destruct l as [|h t]; cbn [rot]; [constructor|]. apply Permutation_cons_append. Qed.

Lemma lomuto_spec pivot : forall rest small large s g,
  lomuto pivot rest small large = (s, g) ->
  Forall (fun x => x <= pivot) small -> Forall (fun x => pivot < x) large ->
  Forall (fun x => x <= pivot) s /\ Forall (fun x => pivot < x) g /\
  Permutation (small ++ large ++ rest) (s ++ g).
Proof.
  induction rest as [|x r IH]; intros small large s g E Hs Hg; cbn [lomuto] in E.
  - injection E as <- <-. rewrite app_nil_r. repeat split; try assumption. reflexivity.
  - destruct (N.leb_spec x pivot) as [Hle|Hgt].
    + destruct (IH _ _ _ _ E) as (A & B & C).
      * apply Forall_app. split; [exact Hs|constructor; [exact Hle|constructor]].
      * rewrite Forall_forall in *. intros z Hz. apply Hg. eapply Permutation_in; [apply Permutation_sym, rot_perm|exact Hz].
      * split; [exact A|]. split; [exact B|]. eapply perm_trans; [|exact C].
        rewrite <- app_assoc. apply Permutation_app_head. cbn [app].
        eapply perm_trans; [apply Permutation_sym, Permutation_middle|].
        apply perm_skip. apply Permutation_app_tail. apply rot_perm.
    + destruct (IH _ _ _ _ E) as (A & B & C).
      * exact Hs.
      * apply Forall_app. split; [exact Hg|constructor; [exact Hgt|constructor]].
      * split; [exact A|]. split; [exact B|]. eapply perm_trans; [|exact C].
        apply Permutation_app_head. rewrite <- app_assoc. reflexivity.
Qed.

Lemma partition_spec (l : list N) small pivot large :
  l <> [] -> partition l = (small, pivot, large) ->
  Forall (fun x => x <= pivot) small /\ Forall (fun x => pivot < x) large /\
  Permutation l (small ++ pivot :: large).
Proof.
  intros Hne E. unfold partition in E.
  destruct (lomuto (last l 0) (removelast l) [] []) as [s g] eqn:El. injection E as <- <- <-.
  destruct (lomuto_spec _ _ _ _ _ _ El) as (A & B & C); [constructor|constructor|].
  split; [exact A|]. split.
  - rewrite Forall_forall in *. intros z Hz. apply B. eapply Permutation_in; [apply Permutation_sym, rot_perm|exact Hz].
  - rewrite (app_removelast_last 0 Hne) at 1. cbn [app] in C.
    eapply perm_trans; [apply Permutation_app_tail; exact C|].
    rewrite <- app_assoc. apply Permutation_app_head.
    eapply perm_trans; [apply Permutation_app_comm|]. cbn [app]. apply perm_skip. apply rot_perm.
Qed.

Lemma quicksort_go_sorts (fuel : nat) : forall l, (length l <= fuel)%nat ->
  StronglySorted N.le (quicksort_go fuel l) /\ Permutation l (quicksort_go fuel l).
Proof.
  induction fuel as [|f IH]; intros l Hf.
  - destruct l; [|cbn [length] in Hf; lia]. split; constructor.
  - cbn [quicksort_go]. destruct (Nat.leb_spec (length l) 1) as [H1|H1].
    { split; [|reflexivity]. destruct l as [|x [|y t]]; cbn [length] in H1; try lia; repeat constructor. }
    destruct (partition l) as [[small pivot] large] eqn:Ep.
    assert (Hne : l <> []) by (intros ->; cbn [length] in H1; lia).
    destruct (partition_spec l small pivot large Hne Ep) as (A & B & C).
    assert (Hlen : (length small + S (length large) = length l)%nat).
    { apply Permutation_length in C. rewrite app_length in C. cbn [length] in C. lia. }
    destruct (IH small) as [S1 P1]; [lia|]. destruct (IH large) as [S2 P2]; [lia|].
    split.
    + apply SS_app; [exact S1| |].
      * constructor; [exact S2|]. rewrite Forall_forall in *. intros z Hz.
        assert (pivot < z) by (apply B; eapply Permutation_in; [apply Permutation_sym; exact P2|exact Hz]). lia.
      * intros a b Ha Hb. rewrite Forall_forall in *.
        assert (a <= pivot) by (apply A; eapply Permutation_in; [apply Permutation_sym; exact P1|exact Ha]).
        destruct Hb as [<-|Hb]; [assumption|].
        assert (pivot < b) by (apply B; eapply Permutation_in; [apply Permutation_sym; exact P2|exact Hb]). lia.
    + eapply perm_trans; [exact C|]. apply Permutation_app; [exact P1|apply perm_skip; exact P2].
Qed.

Lemma quicksort_sorts l : Sorted N.le (quicksort l) /\ Permutation l (quicksort l).
Proof. destruct (quicksort_go_sorts (length l) l (Nat.le_refl _)) as [A B]. split; [apply Sorted_SS; exact A|exact B]. Qed.

Lemma mergesort_go_sorts (fuel : nat) : forall l, (length l <= fuel)%nat ->
  Sorted N.le (mergesort_go fuel l) /\ Permutation l (mergesort_go fuel l).
Proof.
  induction fuel as [|f IH]; intros l Hf.
  - destruct l; [|cbn [length] in Hf; lia]. split; constructor.
  - cbn [mergesort_go]. destruct (Nat.leb_spec (length l) 1) as [H1|H1].
    { split; [|reflexivity]. destruct l as [|x [|y t]]; cbn [length] in H1; try lia; repeat constructor. }
    set (mid := (length l / 2)%nat).
    assert (Hmid : (1 <= mid < length l)%nat).
    { unfold mid. split; [apply Nat.div_str_pos; lia|apply Nat.div_lt; lia]. }
    destruct (IH (firstn mid l)) as [S1 P1]; [rewrite firstn_length; lia|].
    destruct (IH (skipn mid l)) as [S2 P2]; [rewrite skipn_length; lia|].
    destruct (merge_two_merges_proof _ _ S1 S2) as [M1 M2]. split; [exact M1|].
    eapply perm_trans; [|exact M2]. rewrite <- (firstn_skipn mid l) at 1. apply Permutation_app; assumption.
Qed.
Lemma mergesort_sorts l : Sorted N.le (mergesort l) /\ Permutation l (mergesort l).
Proof. apply mergesort_go_sorts. lia. Qed.

Lemma cache_aware_sort_sorts esz l1 l2 l :
  Sorted N.le (cache_aware_sort esz l1 l2 l) /\ Permutation l (cache_aware_sort esz l1 l2 l).
Proof.
  unfold cache_aware_sort, l2_optimized_sort, l3_optimized_sort.
  destruct (_ <=? l1); [apply insertion_sort_sorts_proof|].
  destruct (_ <=? l2).
  - destruct (Nat.ltb 16 _); [apply quicksort_sorts|apply insertion_sort_sorts_proof].
  - destruct (Nat.ltb 32 _); [apply mergesort_sorts|apply insertion_sort_sorts_proof].
Qed.

Lemma co_full_sort_sorts_proof st esz l1 l2 l3 line (l : list N) :
  Sorted N.le (co_full_sort st esz l1 l2 l3 line l) /\ Permutation l (co_full_sort st esz l1 l2 l3 line l).
Proof.
  unfold co_full_sort, hybrid_sort. destruct l as [|x0 rest] eqn:El; [split; constructor|]. rewrite <- El. clear El x0 rest.
  destruct (_ <=? l1); [apply cache_aware_sort_sorts|].
  destruct (_ <=? l3); [apply co_sort_sorts_proof|].
  destruct (_ <=? l2); [apply cache_aware_sort_sorts|apply co_sort_sorts_proof].
Qed.
