(* C11 extension — KeyValueRadixSort::sort_by_key, SimdOperations::merge_multiple_sorted and
   Vec::external_sort_with_config (src/algorithms/radix_sort.rs, simd_merge.rs, external_sort.rs)
   as coded.  Definitions only.

   sort_by_key:  keys = data.map(key as u64); RadixSort::with_config(default).sort_u64(&mut keys);
                 positions: key -> queue of the input positions holding it, in input order;
                 data[new_pos] = original[positions[keys[new_pos]].pop_front()]   (Err when a queue is empty)
   A pair is (key, value); the queue discipline is "the first not yet used pair with that key". *)
From ZV.Common Require Import Base Run.
From ZV.C11 Require Import Model ModelMsd ModelAdv ModelPar.
Open Scope N_scope.

(* the pairs with key k, in list order (the statement of stability) *)
Definition with_key (k : N) (l : list (N * N)) : list (N * N) := filter (fun p => fst p =? k) l.

(* the first pair with key k, and the list without it *)
Fixpoint take_first (k : N) (l : list (N * N)) : option ((N * N) * list (N * N)) :=
  match l with
  | [] => None
  | p :: t => if fst p =? k then Some (p, t)
              else match take_first k t with
                   | Some (q, t') => Some (q, p :: t')
                   | None => None
                   end
  end.
Fixpoint kv_place (keys : list N) (pairs : list (N * N)) : option (list (N * N)) :=
  match keys with
  | [] => Some []
  | k :: ks =>
    match take_first k pairs with
    | None => None                       (* "sorted key not found among input keys" *)
    | Some (p, rest) => match kv_place ks rest with Some out => Some (p :: out) | None => None end
    end
  end.
(* RadixSortConfig::default(): radix_bits 8, use_parallel, parallel_threshold 10_000 *)
Definition KV_PTH : nat := N.to_nat 10000.
Definition kv_sort (threads : nat) (data : list (N * N)) : option (list (N * N)) :=
  match data with
  | [] => Some []
  | _ => kv_place (sort_u64 8 true KV_PTH threads (map fst data)) data
  end.

(* merge_multiple_sorted: a binary merge tree; an odd array at the end of a round is carried over *)
Fixpoint merge_round (ls : list (list N)) : list (list N) :=
  match ls with
  | a :: b :: t => merge_two a b :: merge_round t
  | _ => ls
  end.
Fixpoint merge_tree_go (fuel : nat) (ls : list (list N)) : list N :=
  match fuel with
  | O => []
  | S f => match ls with
           | [] => []
           | [x] => x
           | _ => merge_tree_go f (merge_round ls)
           end
  end.
Definition merge_tree (ls : list (list N)) : list N := merge_tree_go (length ls) ls.

(* Vec<T>::external_sort_with_config: len * size_of::<T>() <= memory_buffer_size -> self.sort()
   (standard library, a parameter), else ReplaceSelectSort::new(config).sort(..) *)
Definition vec_external_sort (std_sort : list N -> list N) (elem_size buf : N) (data : list N) : list N :=
  if nlen data * elem_size <=? buf then std_sort data
  else rs_sort (N.to_nat (N.max (buf / N.max elem_size 1) 1)) data.
