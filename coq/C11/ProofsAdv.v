(* C11 extension: AdvancedRadixSort<T>::sort — whichever strategy is forced or selected, the result
   is the sorted permutation (for the sequential LSD path on strings: when no two different strings
   share their 8-byte key). *)
From ZV.Common Require Import Base Run.
From Coq Require Import Sorting.Sorted Sorting.Permutation.
From ZV.C11 Require Import Model ModelMsd ModelAdv ProofsSpec ProofsLsd ProofsScatterK ProofsMsd.
Open Scope N_scope.

(* ---------- generic sortedness helpers ---------- *)
Lemma SS_filter_gen {A} (R : A -> A -> Prop) (p : A -> bool) l :
  StronglySorted R l -> StronglySorted R (filter p l).
Proof.
  induction l as [|x l IH]; intros H; cbn [filter]; [constructor|].
  inversion H as [|? ? H' Hx]; subst. destruct (p x).
  - constructor; [apply IH; assumption|].
    apply Forall_forall; intros y Hy. apply filter_In in Hy as [Hy _].
    rewrite Forall_forall in Hx. apply Hx; assumption.
  - apply IH; assumption.
Qed.
Lemma SS_weaken_gen {A} (R1 R2 : A -> A -> Prop) l :
  (forall a b, In a l -> In b l -> R1 a b -> R2 a b) -> StronglySorted R1 l -> StronglySorted R2 l.
Proof.
  induction l as [|x l IH]; intros Hw H; [constructor|].
  inversion H as [|? ? H' Hx]; subst. constructor.
  - apply IH; [|assumption]. intros a b Ha Hb. apply Hw; right; assumption.
  - rewrite Forall_forall in *. intros b Hb. apply Hw; [left; reflexivity|right; assumption|apply Hx; assumption].
Qed.

(* ---------- LSD passes on keyed elements ---------- *)
Section KeyedLsd.
  Variable T : Type.
  Variable key : T -> N.
  Definition SSk (f : N -> N) (l : list T) : Prop := StronglySorted (fun a b => f (key a) <= f (key b)) l.

  Lemma pass_spec_sorted_k r k l :
    SSk (low r k) l -> SSk (low r (k + 1)) (lsd_pass_spec_k T key r (k * r) l).
  Proof.
    intros Hs. unfold lsd_pass_spec_k. generalize (N.to_nat (2 ^ r)) as n. generalize O as s.
    intros s n; revert s. induction n as [|n IH]; intros s; cbn [seq flat_map]; [constructor|].
    assert (Hb : forall d a, In a (bucket_k T key r (k * r) d l) -> digit r (k * r) (key a) = N.of_nat d /\ In a l).
    { intros d a Ha. unfold bucket_k in Ha. apply filter_In in Ha as [Hin He].
      apply Nat.eqb_eq in He. unfold dnat in He. split; [lia|exact Hin]. }
    apply SS_app_gen.
    - apply (SS_weaken_gen (fun a b => low r k (key a) <= low r k (key b))).
      + intros a b Ha Hb' Hle. apply Hb in Ha as [Ha _]. apply Hb in Hb' as [Hb' _].
        rewrite !low_succ, Ha, Hb'. lia.
      + apply SS_filter_gen. exact Hs.
    - apply IH.
    - intros a b Ha Hb'. apply Hb in Ha as [Ha _].
      apply in_flat_map in Hb' as (d & Hd & Hb'). apply in_seq in Hd. apply Hb in Hb' as [Hb' _].
      rewrite !low_succ, Ha, Hb'. pose proof (low_lt r k (key a)) as Hlt.
      assert (Hsd : N.of_nat s + 1 <= N.of_nat d) by lia.
      nia.
  Qed.

  Lemma lsd_pass_perm_k r shift l : Permutation l (lsd_pass_k T key r shift l).
  Proof.
    rewrite lsd_pass_eq_spec_k. destruct l as [|x0 rest].
    - unfold lsd_pass_spec_k. generalize (seq 0 (N.to_nat (2 ^ r))) as ds.
      induction ds as [|d ds IH]; cbn [flat_map]; [constructor|exact IH].
    - apply buckets_perm_k.
  Qed.

  Lemma lsd_passes_inv_k r n : forall pass data,
    SSk (low r pass) data ->
    SSk (low r (pass + N.of_nat n)) (lsd_passes_k T key r n pass data) /\
    Permutation data (lsd_passes_k T key r n pass data).
  Proof.
    induction n as [|n IH]; intros pass data Hs; cbn [lsd_passes_k].
    - replace (pass + N.of_nat 0) with pass by lia. split; [exact Hs|reflexivity].
    - destruct (IH (pass + 1) (lsd_pass_k T key r (pass * r) data)) as [H1 H2].
      + rewrite lsd_pass_eq_spec_k. apply pass_spec_sorted_k. exact Hs.
      + replace (pass + N.of_nat (S n)) with (pass + 1 + N.of_nat n) by lia. split; [exact H1|].
        eapply perm_trans; [apply lsd_pass_perm_k|exact H2].
  Qed.

  Lemma lsd_passes_sorts_k r n data :
    Forall (fun x => key x < 2 ^ (r * N.of_nat n)) data ->
    SSk (fun x => x) (lsd_passes_k T key r n 0 data) /\ Permutation data (lsd_passes_k T key r n 0 data).
  Proof.
    intros Hb. destruct (lsd_passes_inv_k r n 0 data) as [Hs Hp].
    - apply SS_all. intros a b _ _. unfold low. rewrite N.mul_0_r. cbn. rewrite !N.mod_1_r. lia.
    - split; [|exact Hp].
      replace (0 + N.of_nat n) with (N.of_nat n) in Hs by lia.
      revert Hs. apply SS_weaken_gen. intros a b Ha Hb2. unfold low.
      rewrite Forall_forall in Hb.
      rewrite !N.mod_small; [auto| |];
        apply Hb; eapply Permutation_in; try (apply Permutation_sym; exact Hp); assumption.
  Qed.

  Lemma adv_lsd_k_sorts r data :
    0 < r -> SSk (fun x => x) (adv_lsd_k T key r data) /\ Permutation data (adv_lsd_k T key r data).
  Proof.
    intros Hr. unfold adv_lsd_k. apply lsd_passes_sorts_k. rewrite N2Nat.id.
    apply Forall_forall. intros x Hx.
    assert (Hm : key x <= list_max (map key data)) by (apply list_max_ge; apply in_map; exact Hx).
    unfold adv_passes_k.
    destruct (N.eqb_spec (list_max (map key data)) 0) as [E|NE].
    - rewrite E in Hm. assert (key x = 0) by lia. rewrite H. apply pow2_pos.
    - eapply N.le_lt_trans; [exact Hm|].
      eapply N.lt_le_trans; [apply N.size_gt|].
      apply N.pow_le_mono_r; [discriminate|]. apply ceil_div_covers. exact Hr.
  Qed.
End KeyedLsd.

(* ---------- chunks ---------- *)
Lemma chunks_go_concat {A} (cs : nat) : forall fuel (l : list A),
  (0 < cs)%nat -> (length l <= fuel)%nat -> concat (chunks_go fuel cs l) = l.
Proof.
  induction fuel as [|f IH]; intros l Hcs Hl.
  - destruct l; [reflexivity|cbn [length] in Hl; lia].
  - cbn [chunks_go]. destruct l as [|x l]; [reflexivity|].
    cbn [concat]. rewrite IH; [apply firstn_skipn|exact Hcs|].
    rewrite skipn_length. cbn [length] in *. lia.
Qed.
Lemma chunks_concat {A} (cs : nat) (l : list A) : (0 < cs)%nat -> concat (chunks cs l) = l.
Proof. intros H. unfold chunks. destruct cs; [lia|]. apply chunks_go_concat; lia. Qed.

Lemma concat_map_perm {A} (f : list A -> list A) (ls : list (list A)) :
  (forall l, Permutation l (f l)) -> Permutation (concat ls) (concat (map f ls)).
Proof.
  intros H. induction ls as [|l ls IH]; cbn [concat map]; [constructor|].
  apply Permutation_app; [apply H|exact IH].
Qed.

(* ---------- the dispatch, generic ---------- *)
Section Dispatch.
  Variable T : Type.
  Variable key : T -> N.
  Variable bytes : T -> list N.
  Variable gtb : T -> T -> bool.
  Variable std_sort : list T -> list T.
  Variable okT : T -> Prop.
  Hypothesis okT_bytes : forall x, okT x -> Forall (fun b => b < 256) (bytes x).
  Hypothesis gtb_spec : forall x y, okT x -> okT y -> gtb x y = negb (lex_leb (bytes x) (bytes y)).
  Hypothesis std_sort_spec : forall l, Forall okT l ->
    StronglySorted (leT T bytes) (std_sort l) /\ Permutation l (std_sort l).
  (* extract_key is a prefix of the order *)
  Hypothesis key_mono : forall x y, okT x -> okT y -> key x < key y -> leT T bytes x y.

  Definition no_key_collision (data : list T) : Prop :=
    forall x y, In x data -> In y data -> key x = key y -> leT T bytes x y.

  Lemma lsd_radix_sort_sorts c data :
    0 < c_radix c -> (0 < c_threads c)%nat -> data <> [] -> Forall okT data ->
    (lsd_takes_parallel T c data = false -> no_key_collision data) ->
    StronglySorted (leT T bytes) (lsd_radix_sort T key std_sort c data) /\
    Permutation data (lsd_radix_sort T key std_sort c data).
  Proof.
    intros Hr Ht Hne Hok Hnc. unfold lsd_radix_sort.
    destruct (lsd_takes_parallel T c data) eqn:Epar.
    - (* chunks, then sort_unstable over everything *)
      assert (Hcs : (0 < adv_chunk_size T c data)%nat).
      { unfold adv_chunk_size. destruct data as [|x data]; [congruence|]. cbn [length].
        apply Nat.div_str_pos. lia. }
      assert (Hp : Permutation data (concat (map (adv_lsd_k T key (c_radix c)) (chunks (adv_chunk_size T c data) data)))).
      { rewrite <- (chunks_concat (adv_chunk_size T c data) data Hcs) at 1.
        apply concat_map_perm. intros l. apply adv_lsd_k_sorts. exact Hr. }
      destruct (std_sort_spec (concat (map (adv_lsd_k T key (c_radix c)) (chunks (adv_chunk_size T c data) data)))) as [H1 H2].
      + rewrite Forall_forall in *. intros x Hx. apply Hok. eapply Permutation_in; [apply Permutation_sym; exact Hp|exact Hx].
      + split; [exact H1|]. eapply perm_trans; [exact Hp|exact H2].
    - destruct (adv_lsd_k_sorts T key (c_radix c) data Hr) as [Hs Hp]. split; [|exact Hp].
      revert Hs. apply SS_weaken_gen. intros a b Ha Hb Hle.
      assert (Ha' : In a data) by (eapply Permutation_in; [apply Permutation_sym; exact Hp|exact Ha]).
      assert (Hb' : In b data) by (eapply Permutation_in; [apply Permutation_sym; exact Hp|exact Hb]).
      rewrite Forall_forall in Hok.
      destruct (N.eq_dec (key a) (key b)) as [E|NE].
      + apply (Hnc eq_refl); assumption.
      + apply key_mono; [apply Hok; exact Ha'|apply Hok; exact Hb'|lia].
  Qed.

  Theorem adv_sort_sorts_gen c data :
    0 < c_radix c -> (0 < c_threads c)%nat -> Forall okT data ->
    (lsd_sequential_selected T key c data = true -> no_key_collision data) ->
    StronglySorted (leT T bytes) (adv_sort T key bytes gtb std_sort c data) /\
    Permutation data (adv_sort T key bytes gtb std_sort c data).
  Proof.
    intros Hr Ht Hok Hnc. unfold adv_sort. destruct data as [|x0 rest] eqn:Ed; [split; constructor|].
    rewrite <- Ed in *. unfold lsd_sequential_selected in Hnc. rewrite Ed in Hnc at 1.
    destruct (select_strategy T key c data) eqn:Es.
    - apply (isort_g_sorts T bytes gtb okT gtb_spec). exact Hok.
    - apply std_sort_spec. exact Hok.
    - apply lsd_radix_sort_sorts; [exact Hr|exact Ht|rewrite Ed; discriminate|exact Hok|].
      intros Epar. apply Hnc. rewrite Epar. reflexivity.
    - apply (msd_sort_sorts T bytes gtb okT okT_bytes gtb_spec). exact Hok.
  Qed.
End Dispatch.

(* ---------- u32 / u64 ---------- *)
Lemma leT_be_iff w x y :
  x < 256 ^ N.of_nat w -> y < 256 ^ N.of_nat w -> (leT N (be_bytes w) x y <-> x <= y).
Proof.
  intros Hx Hy. unfold leT, lex_le. rewrite be_bytes_order, !N.mod_small by assumption. apply N.leb_le.
Qed.
Lemma SS_be_iff w l :
  Forall (fun x => x < 256 ^ N.of_nat w) l ->
  (StronglySorted (leT N (be_bytes w)) l <-> StronglySorted N.le l).
Proof.
  intros Hb. split; apply SS_weaken_gen; intros a b Ha Hb'; rewrite Forall_forall in Hb;
    apply leT_be_iff; apply Hb; assumption.
Qed.

Theorem adv_sort_int_sorts (w : nat) (std_sort : list N -> list N) c data :
  (forall l, Sorted N.le (std_sort l) /\ Permutation l (std_sort l)) ->
  0 < c_radix c -> (0 < c_threads c)%nat -> Forall (fun x => x < 256 ^ N.of_nat w) data ->
  Sorted N.le (adv_sort_int w std_sort c data) /\ Permutation data (adv_sort_int w std_sort c data).
Proof.
  intros Hstd Hr Ht Hb. unfold adv_sort_int.
  destruct (adv_sort_sorts_gen N (fun x => x) (be_bytes w) (fun a b => b <? a) std_sort
              (fun x => x < 256 ^ N.of_nat w)) with (c := c) (data := data) as [Hs Hp].
  - intros x _. apply be_bytes_ok.
  - intros x y Hx Hy. rewrite be_bytes_order, !N.mod_small by assumption.
    destruct (N.ltb_spec y x), (N.leb_spec x y); cbn [negb]; try reflexivity; lia.
  - intros l Hl. destruct (Hstd l) as [H1 H2]. split; [|exact H2].
    apply SS_be_iff.
    + rewrite Forall_forall in *. intros x Hx. apply Hl. eapply Permutation_in; [apply Permutation_sym; exact H2|exact Hx].
    + apply Sorted_SS. exact H1.
  - intros x y Hx Hy Hlt. apply leT_be_iff; [assumption|assumption|lia].
  - exact Hr.
  - exact Ht.
  - exact Hb.
  - intros _ x y _ _ E. cbn beta in E. subst y. unfold leT, lex_le. apply lex_leb_refl.
  - split; [|exact Hp]. apply Sorted_SS. apply (SS_be_iff w); [|exact Hs].
    rewrite Forall_forall in *. intros x Hx. apply Hb. eapply Permutation_in; [apply Permutation_sym; exact Hp|exact Hx].
Qed.

(* ---------- RadixString ---------- *)
Lemma pow8S n : 2 ^ (8 * N.of_nat (S n)) = 2 ^ (8 * N.of_nat n) * 256.
Proof. replace (8 * N.of_nat (S n)) with (8 * N.of_nat n + 8) by lia. rewrite N.pow_add_r. reflexivity. Qed.

Lemma skg_bound_arith b P rest : b < 256 -> rest < P -> b * P + rest < P * 256.
Proof. nia. Qed.

Lemma skg_lt n : forall s, str_ok s -> str_key_go n s < 2 ^ (8 * N.of_nat n) /\
  match s with
  | [] => True
  | b :: t => match n with O => True | S n' => str_key_go n s = b * 2 ^ (8 * N.of_nat n') + str_key_go n' t end
  end.
Proof.
  induction n as [|n IH]; intros s Hs.
  - cbn [str_key_go]. split; [apply pow2_pos|destruct s; exact I].
  - destruct s as [|b t]; cbn [str_key_go]; [split; [apply pow2_pos|exact I]|].
    inversion Hs as [|? ? Hb Ht]; subst. destruct (IH t Ht) as [Hlt _].
    assert (E : N.lor (N.shiftl b (8 * N.of_nat n)) (str_key_go n t) = b * 2 ^ (8 * N.of_nat n) + str_key_go n t).
    { rewrite N.shiftl_mul_pow2, N.lor_comm, lor_disjoint_add by exact Hlt. lia. }
    rewrite E. split; [|reflexivity]. rewrite pow8S. apply skg_bound_arith; assumption.
Qed.

Lemma skg_mono_arith b c P ks kt : ks < P -> kt < P -> b * P + ks < c * P + kt -> b < c \/ (b = c /\ ks < kt).
Proof. nia. Qed.

Lemma skg_mono n : forall s t, str_ok s -> str_ok t -> str_key_go n s < str_key_go n t -> lex_leb s t = true.
Proof.
  induction n as [|n IH]; intros s t Hs Ht Hlt.
  - cbn [str_key_go] in Hlt. lia.
  - destruct s as [|b s]; [reflexivity|]. destruct t as [|c t]; [cbn [str_key_go] in Hlt; lia|].
    destruct (skg_lt (S n) (b :: s) Hs) as [_ Eb]. destruct (skg_lt (S n) (c :: t) Ht) as [_ Ec].
    rewrite Eb, Ec in Hlt.
    inversion Hs as [|? ? Hb Hs']; subst. inversion Ht as [|? ? Hc Ht']; subst.
    destruct (skg_lt n s Hs') as [Ls _]. destruct (skg_lt n t Ht') as [Lt _].
    rewrite lex_leb_cons.
    destruct (skg_mono_arith _ _ _ _ _ Ls Lt Hlt) as [H|[-> H]].
    + apply N.ltb_lt in H. rewrite H. reflexivity.
    + rewrite N.ltb_irrefl. apply IH; assumption.
Qed.

Theorem adv_sort_str_sorts (std_sort : list (list N) -> list (list N)) c data :
  (forall l, StronglySorted lex_le (std_sort l) /\ Permutation l (std_sort l)) ->
  0 < c_radix c -> (0 < c_threads c)%nat -> Forall str_ok data ->
  (lsd_sequential_selected (list N) str_key c data = true ->
     forall x y, In x data -> In y data -> str_key x = str_key y -> x = y) ->
  StronglySorted lex_le (adv_sort_str std_sort c data) /\ Permutation data (adv_sort_str std_sort c data).
Proof.
  intros Hstd Hr Ht Hok Hnc. unfold adv_sort_str.
  apply (adv_sort_sorts_gen (list N) str_key (fun s => s) lex_gtb std_sort str_ok).
  - intros x Hx. exact Hx.
  - intros x y _ _. reflexivity.
  - intros l _. apply Hstd.
  - intros x y Hx Hy Hlt. unfold leT, lex_le. apply (skg_mono 8); assumption.
  - exact Hr.
  - exact Ht.
  - exact Hok.
  - intros Hsel x y Hx Hy E. rewrite (Hnc Hsel x y Hx Hy E). unfold leT, lex_le. apply lex_leb_refl.
Qed.

(* the recorded finding string_lsd_key_collision, on the model: the sequential LSD path orders by the
   8-byte key alone *)
Lemma adv_sort_str_lsd_collision_refuted_proof :
  exists c data, Forall str_ok data /\ 0 < c_radix c /\ (0 < c_threads c)%nat /\
    adv_sort_str isort_str c data <> isort_str data.
Proof.
  exists (mk_adv_cfg FLsd true 8 false 100 2 100), [[0]; [0; 0; 0]; []; [0; 0]].
  split; [repeat constructor|]. split; [reflexivity|]. split; [cbn [c_threads]; lia|].
  vm_compute. discriminate.
Qed.
