(* C11 extension: a counting pass over a digit that is the same for every key is the identity, so the
   loop that skips such passes computes what the coded loop computes; leaving the loop does not. *)
From ZV.Common Require Import Base Run.
From Coq Require Import Sorting.Sorted Sorting.Permutation.
From ZV.C11 Require Import Model ModelSkip ProofsSpec ProofsScatter ProofsLsd.
Open Scope N_scope.

Lemma filter_length_le {A} (p : A -> bool) (l : list A) : (length (filter p l) <= length l)%nat.
Proof. induction l as [|x l IH]; cbn [filter length]; [lia|]. destruct (p x); cbn [length]; lia. Qed.
Lemma filter_full {A} (p : A -> bool) (l : list A) : length (filter p l) = length l -> filter p l = l.
Proof.
  induction l as [|x l IH]; cbn [filter length]; [reflexivity|]. intros H.
  pose proof (filter_length_le p l) as Hle. destruct (p x); cbn [length] in H; [f_equal; apply IH; lia|lia].
Qed.
Lemma filter_none {A} (p : A -> bool) (l : list A) : (forall x, In x l -> p x = false) -> filter p l = [].
Proof.
  induction l as [|x l IH]; intros H; cbn [filter]; [reflexivity|].
  rewrite H by (left; reflexivity). apply IH. intros y Hy. apply H. right; exact Hy.
Qed.

Lemma flat_map_all_nil {A} (f : nat -> list A) (l : list nat) :
  (forall i, In i l -> f i = []) -> flat_map f l = [].
Proof.
  induction l as [|i l IH]; intros H; cbn [flat_map]; [reflexivity|].
  rewrite H by (left; reflexivity). cbn [app]. apply IH. intros j Hj. apply H. right; exact Hj.
Qed.
Lemma flat_map_single {A} (f : nat -> list A) (d : nat) : forall (l : list nat),
  NoDup l -> In d l -> (forall i, In i l -> i <> d -> f i = []) -> flat_map f l = f d.
Proof.
  induction l as [|i l IH]; intros Hnd Hin Hz; [destruct Hin|].
  inversion Hnd as [|? ? Hni Hnd']; subst. cbn [flat_map]. destruct Hin as [->|Hin].
  - rewrite flat_map_all_nil; [apply app_nil_r|].
    intros j Hj. apply Hz; [right; exact Hj|]. intros ->. apply Hni. exact Hj.
  - assert (Hid : i <> d) by (intros ->; apply Hni; exact Hin).
    rewrite (Hz i (or_introl eq_refl) Hid). cbn [app].
    apply IH; [exact Hnd'|exact Hin|]. intros k Hk. apply Hz. right; exact Hk.
Qed.

Lemma constant_digit_pass_id r shift data : digit_constant r shift data = true -> lsd_pass r shift data = data.
Proof.
  intros H. rewrite lsd_pass_eq_spec. unfold lsd_pass_spec.
  destruct data as [|x rest]; [discriminate|].
  unfold digit_constant in H. apply Nat.eqb_eq in H.
  remember (x :: rest) as data eqn:Ed. clear Ed rest.
  set (d := dnat r shift x) in *.
  assert (Hd : (d < N.to_nat (2 ^ r))%nat) by apply dg_lt.
  rewrite count_digits_eq in H.
  rewrite (nth_indep _ O (cntd r shift O data)) in H by (rewrite map_length, seq_length; exact Hd).
  rewrite (map_nth (fun d => cntd r shift d data)), seq_nth in H by exact Hd. cbn [Nat.add] in H.
  unfold cntd, bucket in H. pose proof (filter_full _ _ H) as Hall.
  rewrite (flat_map_single _ d).
  - exact Hall.
  - apply seq_NoDup.
  - apply in_seq. lia.
  - intros i _ Hne. unfold bucket. apply filter_none. intros y Hy.
    rewrite <- Hall in Hy. apply filter_In in Hy as [_ Hy]. apply Nat.eqb_eq in Hy.
    apply Nat.eqb_neq. lia.
Qed.

Lemma lsd_passes_skip_eq r n : forall pass data, lsd_passes_skip r n pass data = lsd_passes r n pass data.
Proof.
  induction n as [|n IH]; intros pass data; cbn [lsd_passes_skip lsd_passes]; [reflexivity|].
  destruct (digit_constant r (pass * r) data) eqn:E.
  - rewrite (constant_digit_pass_id _ _ _ E). apply IH.
  - apply IH.
Qed.

Lemma lsd_sort_skip_eq w r data : lsd_sort_skip w r data = lsd_sort w r data.
Proof. apply lsd_passes_skip_eq. Qed.

Lemma lsd_skip_constant_digit_sorts_proof (w r : N) (data : list N) :
  0 < r -> Forall (fun x => x < 2 ^ w) data ->
  Sorted N.le (lsd_sort_skip w r data) /\ Permutation data (lsd_sort_skip w r data).
Proof. intros Hr Hb. rewrite lsd_sort_skip_eq. apply lsd_sorts_proof; assumption. Qed.

(* `break` instead of `continue`: keys that differ only above a constant digit stay unsorted *)
Lemma lsd_break_refuted_proof :
  exists w r data, 0 < r /\ Forall (fun x => x < 2 ^ w) data /\ lsd_sort_break w r data <> isort data.
Proof.
  exists 64, 8, [12884901888; 4294967296]. split; [lia|]. split.
  - repeat constructor.
  - vm_compute. discriminate.
Qed.
