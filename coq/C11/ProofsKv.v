(* C11 extension: key-value radix sort keeps every key with its value and is stable; the binary merge
   tree merges; the Vec wrapper of the external sort sorts. *)
From ZV.Common Require Import Base Run.
From Coq Require Import Sorting.Sorted Sorting.Permutation.
From ZV.C11 Require Import Model ModelMsd ModelAdv ModelPar ModelKv ProofsSpec ProofsMerge ProofsExtSort ProofsPar.
Open Scope N_scope.

Lemma take_first_spec k : forall l,
  In k (map fst l) ->
  exists p rest, take_first k l = Some (p, rest) /\ fst p = k /\ Permutation l (p :: rest) /\
    with_key k l = p :: with_key k rest /\ (forall k', k' <> k -> with_key k' l = with_key k' rest).
Proof.
  induction l as [|q t IH]; intros Hin; [destruct Hin|].
  cbn [take_first]. destruct (N.eqb_spec (fst q) k) as [E|NE].
  - exists q, t. split; [reflexivity|]. split; [exact E|]. split; [reflexivity|]. split.
    + unfold with_key. cbn [filter]. rewrite E, N.eqb_refl. reflexivity.
    + intros k' Hk. unfold with_key. cbn [filter]. destruct (N.eqb_spec (fst q) k'); [congruence|reflexivity].
  - destruct Hin as [Hq|Hin]; [contradiction|].
    destruct (IH Hin) as (p & rest & E1 & E2 & E3 & E4 & E5). rewrite E1.
    exists p, (q :: rest). split; [reflexivity|]. split; [exact E2|]. split; [|split].
    + eapply perm_trans; [apply perm_skip; exact E3|apply perm_swap].
    + unfold with_key in *. cbn [filter]. destruct (N.eqb_spec (fst q) k); [contradiction|]. exact E4.
    + intros k' Hk. unfold with_key in *. cbn [filter]. rewrite (E5 k' Hk). reflexivity.
Qed.

Lemma kv_place_spec (keys : list N) : forall pairs,
  Permutation keys (map fst pairs) ->
  exists out, kv_place keys pairs = Some out /\ map fst out = keys /\ Permutation pairs out /\
    forall k, with_key k out = with_key k pairs.
Proof.
  induction keys as [|k ks IH]; intros pairs Hp.
  - apply Permutation_nil in Hp. destruct pairs; [|discriminate]. exists []. repeat split; constructor.
  - assert (Hin : In k (map fst pairs)) by (eapply Permutation_in; [exact Hp|left; reflexivity]).
    destruct (take_first_spec k pairs Hin) as (p & rest & E1 & E2 & E3 & E4 & E5).
    cbn [kv_place]. rewrite E1.
    destruct (IH rest) as (out & F1 & F2 & F3 & F4).
    { apply (Permutation_map fst) in E3. cbn [map] in E3. rewrite E2 in E3.
      eapply Permutation_cons_inv. eapply perm_trans; [exact Hp|exact E3]. }
    rewrite F1. exists (p :: out). split; [reflexivity|]. split; [cbn [map]; rewrite E2, F2; reflexivity|].
    split; [eapply perm_trans; [exact E3|apply perm_skip; exact F3]|].
    intros k'. destruct (N.eq_dec k' k) as [->|Hne].
    + rewrite E4. unfold with_key at 1. cbn [filter]. rewrite E2, N.eqb_refl. fold (with_key k out). rewrite F4. reflexivity.
    + rewrite (E5 k' Hne). unfold with_key at 1. cbn [filter]. destruct (N.eqb_spec (fst p) k'); [congruence|].
      apply F4.
Qed.

(* sorted by key, every pair kept, pairs with the same key in their input order *)
Lemma kv_sort_pairs_proof (threads : nat) (data : list (N * N)) :
  (0 < threads)%nat -> Forall (fun p => fst p < 2 ^ 64) data ->
  exists out, kv_sort threads data = Some out /\
    Sorted N.le (map fst out) /\ Permutation data out /\ forall k, with_key k out = with_key k data.
Proof.
  intros Ht Hb. unfold kv_sort. destruct data as [|p0 rest] eqn:Ed.
  - exists []. repeat split; constructor.
  - rewrite <- Ed in *. clear Ed p0 rest.
    destruct (parallel_sort_u64_sorts_proof 8 true KV_PTH threads (map fst data)) as [Hs Hp]; [lia|exact Ht| |].
    { apply Forall_forall. intros k Hk. apply in_map_iff in Hk as (p & <- & Hp). rewrite Forall_forall in Hb. apply Hb; exact Hp. }
    destruct (kv_place_spec _ data (Permutation_sym Hp)) as (out & F1 & F2 & F3 & F4).
    exists out. split; [exact F1|]. split; [rewrite F2; exact Hs|]. split; [exact F3|exact F4].
Qed.

(* ---------- merge tree ---------- *)
Lemma merge_round_spec : forall (n : nat) (ls : list (list N)), (length ls <= n)%nat ->
  Forall (Sorted N.le) ls ->
  Forall (Sorted N.le) (merge_round ls) /\ Permutation (concat ls) (concat (merge_round ls)) /\
  (length (merge_round ls) <= length ls)%nat /\ ((2 <= length ls)%nat -> (length (merge_round ls) < length ls)%nat).
Proof.
  induction n as [|n IH]; intros ls Hn Hs.
  - destruct ls; [|cbn [length] in Hn; lia]. cbn [merge_round]. repeat split; try constructor; cbn [length]; lia.
  - destruct ls as [|a [|b t]]; cbn [merge_round].
    + repeat split; try constructor; cbn [length]; lia.
    + repeat split; try assumption; try reflexivity; cbn [length]; lia.
    + inversion Hs as [|? ? Ha Hs1]; subst. inversion Hs1 as [|? ? Hb Ht]; subst.
      destruct (IH t) as (A & B & C & D); [cbn [length] in Hn; lia|exact Ht|].
      destruct (merge_two_merges_proof a b Ha Hb) as [M1 M2].
      split; [constructor; assumption|]. split; [|cbn [length]; lia].
      cbn [concat]. rewrite app_assoc. apply Permutation_app; assumption.
Qed.

Lemma merge_tree_go_merges (fuel : nat) : forall ls, (length ls <= fuel)%nat -> Forall (Sorted N.le) ls ->
  Sorted N.le (merge_tree_go fuel ls) /\ Permutation (concat ls) (merge_tree_go fuel ls).
Proof.
  induction fuel as [|f IH]; intros ls Hf Hs.
  - destruct ls; [|cbn [length] in Hf; lia]. split; constructor.
  - cbn [merge_tree_go]. destruct ls as [|x [|y t]] eqn:El.
    + split; constructor.
    + inversion Hs; subst. cbn [concat]. rewrite app_nil_r. split; [assumption|reflexivity].
    + rewrite <- El in *. destruct (merge_round_spec (length ls) ls (Nat.le_refl _) Hs) as (A & B & C & D).
      destruct (IH (merge_round ls)) as [H1 H2]; [|exact A|].
      * assert (2 <= length ls)%nat by (rewrite El; cbn [length]; lia). specialize (D H). lia.
      * split; [exact H1|]. eapply perm_trans; [exact B|exact H2].
Qed.

Lemma merge_tree_merges_proof (ls : list (list N)) :
  Forall (Sorted N.le) ls -> Sorted N.le (merge_tree ls) /\ Permutation (concat ls) (merge_tree ls).
Proof. intros Hs. apply merge_tree_go_merges; [lia|exact Hs]. Qed.

(* ---------- Vec::external_sort_with_config ---------- *)
Lemma vec_external_sort_sorts_proof (std_sort : list N -> list N) elem_size buf (data : list N) :
  (forall l, Sorted N.le (std_sort l) /\ Permutation l (std_sort l)) ->
  Sorted N.le (vec_external_sort std_sort elem_size buf data) /\
  Permutation data (vec_external_sort std_sort elem_size buf data).
Proof.
  intros Hstd. unfold vec_external_sort. destruct (_ <=? _); [apply Hstd|].
  apply external_sort_sorts_proof. lia.
Qed.
