(* C11 property theorems.  Statements closed by `exact`, a pin, and Print Assumptions only.
   The driver parses this file's output. *)
From ZV.Common Require Import Base Run.
From Coq Require Import Sorting.Sorted Sorting.Permutation.
From ZV.C11 Require Import Model ProofsSpec ProofsScatter ProofsLsd ProofsMerge ProofsSet ProofsInsertion ProofsExtSort ProofsExamples.
Open Scope N_scope.

(* the checker used for the S-only cells decides exactly "sorted permutation of the input" *)
Theorem is_sorted_perm_spec :
  forall inp out, is_sorted_perm inp out = true <-> Sorted N.le out /\ Permutation inp out.
Proof. exact is_sorted_perm_spec_proof. Qed.
Check is_sorted_perm_spec :
  forall inp out, is_sorted_perm inp out = true <-> Sorted N.le out /\ Permutation inp out.
Print Assumptions is_sorted_perm_spec.

(* a sorted permutation is unique: every correct sort computes the same function *)
Theorem sorted_permutation_unique :
  forall a b, Sorted N.le a -> Sorted N.le b -> Permutation a b -> a = b.
Proof. exact sorted_perm_unique. Qed.
Check sorted_permutation_unique :
  forall a b, Sorted N.le a -> Sorted N.le b -> Permutation a b -> a = b.
Print Assumptions sorted_permutation_unique.

(* one counting pass as coded (counts, exclusive prefix sums, scatter into a zeroed buffer)
   = the buckets in digit order, each in input order: a stable sort by the digit *)
Theorem counting_pass_is_stable_bucketing :
  forall r shift data, lsd_pass r shift data = lsd_pass_spec r shift data.
Proof. exact lsd_pass_eq_spec. Qed.
Check counting_pass_is_stable_bucketing :
  forall r shift data, lsd_pass r shift data = lsd_pass_spec r shift data.
Print Assumptions counting_pass_is_stable_bucketing.

(* LSD radix sort: every key width w, every radix width r >= 1 (last digit narrower when r does
   not divide w), every input below 2^w *)
Theorem lsd_sorts :
  forall w r data, 0 < r -> Forall (fun x => x < 2 ^ w) data ->
    Sorted N.le (lsd_sort w r data) /\ Permutation data (lsd_sort w r data).
Proof. exact lsd_sorts_proof. Qed.
Check lsd_sorts :
  forall w r data, 0 < r -> Forall (fun x => x < 2 ^ w) data ->
    Sorted N.le (lsd_sort w r data) /\ Permutation data (lsd_sort w r data).
Print Assumptions lsd_sorts.

(* AdvancedRadixSort LSD: pass count derived from the largest key *)
Theorem adv_lsd_sorts :
  forall r data, 0 < r -> Sorted N.le (adv_lsd r data) /\ Permutation data (adv_lsd r data).
Proof. exact adv_lsd_sorts_proof. Qed.
Check adv_lsd_sorts :
  forall r data, 0 < r -> Sorted N.le (adv_lsd r data) /\ Permutation data (adv_lsd r data).
Print Assumptions adv_lsd_sorts.

(* k-way merge by selection of the least head (the loser tree as coded), k >= 0, empty ways allowed *)
Theorem loser_tree_merges :
  forall ways, Forall (Sorted N.le) ways ->
    Sorted N.le (loser_merge ways) /\ Permutation (concat ways) (loser_merge ways).
Proof. exact loser_tree_merges_proof. Qed.
Check loser_tree_merges :
  forall ways, Forall (Sorted N.le) ways ->
    Sorted N.le (loser_merge ways) /\ Permutation (concat ways) (loser_merge ways).
Print Assumptions loser_tree_merges.

Theorem merge_two_merges :
  forall l1 l2, Sorted N.le l1 -> Sorted N.le l2 ->
    Sorted N.le (merge_two l1 l2) /\ Permutation (l1 ++ l2) (merge_two l1 l2).
Proof. exact merge_two_merges_proof. Qed.
Check merge_two_merges :
  forall l1 l2, Sorted N.le l1 -> Sorted N.le l2 ->
    Sorted N.le (merge_two l1 l2) /\ Permutation (l1 ++ l2) (merge_two l1 l2).
Print Assumptions merge_two_merges.

(* two-pointer set operations = their definitions *)
Theorem ms_inter_is_filter :
  forall a b, Sorted N.le a -> Sorted N.le b -> ms_inter a b = filter (fun x => memb x b) a.
Proof. exact ms_inter_filter_proof. Qed.
Check ms_inter_is_filter :
  forall a b, Sorted N.le a -> Sorted N.le b -> ms_inter a b = filter (fun x => memb x b) a.
Print Assumptions ms_inter_is_filter.

Theorem ms_inter2_is_filter :
  forall a b, Sorted N.le a -> Sorted N.le b -> ms_inter2 a b = filter (fun y => memb y a) b.
Proof. exact ms_inter2_filter_proof. Qed.
Check ms_inter2_is_filter :
  forall a b, Sorted N.le a -> Sorted N.le b -> ms_inter2 a b = filter (fun y => memb y a) b.
Print Assumptions ms_inter2_is_filter.

Theorem ms_union_is_sorted_union :
  forall a b, Sorted N.le a -> Sorted N.le b ->
    Sorted N.le (ms_union a b) /\ Permutation (a ++ b) (ms_union a b).
Proof. exact ms_union_spec_proof. Qed.
Check ms_union_is_sorted_union :
  forall a b, Sorted N.le a -> Sorted N.le b ->
    Sorted N.le (ms_union a b) /\ Permutation (a ++ b) (ms_union a b).
Print Assumptions ms_union_is_sorted_union.

Theorem ms_diff_subtracts_multiplicities :
  forall a b, Sorted N.le a -> Sorted N.le b ->
    Sorted N.le (ms_diff a b) /\ forall z, countb z (ms_diff a b) = (countb z a - countb z b)%nat.
Proof. exact ms_diff_spec_proof. Qed.
Check ms_diff_subtracts_multiplicities :
  forall a b, Sorted N.le a -> Sorted N.le b ->
    Sorted N.le (ms_diff a b) /\ forall z, countb z (ms_diff a b) = (countb z a - countb z b)%nat.
Print Assumptions ms_diff_subtracts_multiplicities.

Theorem set_unique_spec :
  forall l, Sorted N.le l ->
    StronglySorted N.lt (set_unique l) /\ (forall z, In z (set_unique l) <-> In z l).
Proof. exact set_unique_spec_proof. Qed.
Check set_unique_spec :
  forall l, Sorted N.le l ->
    StronglySorted N.lt (set_unique l) /\ (forall z, In z (set_unique l) <-> In z l).
Print Assumptions set_unique_spec.

(* insertion sort (small-input strategy, MSD cutoff, cache-oblivious base case) *)
Theorem insertion_sort_sorts :
  forall data, Sorted N.le (insertion_sort data) /\ Permutation data (insertion_sort data).
Proof. exact insertion_sort_sorts_proof. Qed.
Check insertion_sort_sorts :
  forall data, Sorted N.le (insertion_sort data) /\ Permutation data (insertion_sort data).
Print Assumptions insertion_sort_sorts.

(* replacement selection as coded: every run is sorted and the runs together are the input,
   for every buffer of at least one element *)
Theorem replacement_selection_runs :
  forall mem input, (0 < mem)%nat ->
    Forall (Sorted N.le) (rs_runs_of mem input) /\ Permutation input (concat (rs_runs_of mem input)).
Proof. exact rs_runs_proof. Qed.
Check replacement_selection_runs :
  forall mem input, (0 < mem)%nat ->
    Forall (Sorted N.le) (rs_runs_of mem input) /\ Permutation input (concat (rs_runs_of mem input)).
Print Assumptions replacement_selection_runs.

(* ReplaceSelectSort::sort = run generation + loser-tree merge of the runs *)
Theorem external_sort_sorts :
  forall mem input, (0 < mem)%nat ->
    Sorted N.le (rs_sort mem input) /\ Permutation input (rs_sort mem input).
Proof. exact external_sort_sorts_proof. Qed.
Check external_sort_sorts :
  forall mem input, (0 < mem)%nat ->
    Sorted N.le (rs_sort mem input) /\ Permutation input (rs_sort mem input).
Print Assumptions external_sort_sorts.

(* with a zero-element buffer (the state of the code before fix ddd21a5) everything is lost *)
Theorem external_sort_zero_buffer_refuted :
  exists input, rs_sort 0 input <> isort input.
Proof. exact external_sort_zero_buffer_refuted_proof. Qed.
Check external_sort_zero_buffer_refuted : exists input, rs_sort 0 input <> isort input.
Print Assumptions external_sort_zero_buffer_refuted.
