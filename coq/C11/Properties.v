(* C11 property theorems.  Statements closed by `exact`, a pin, and Print Assumptions only.
   The driver parses this file's output. *)
From ZV.Common Require Import Base Run.
From Coq Require Import Sorting.Sorted Sorting.Permutation.
From ZV.C11 Require Import Model ProofsSpec ProofsScatter ProofsLsd ProofsMerge ProofsSet ProofsInsertion ProofsExtSort ProofsExamples.
From ZV.C11 Require Import ModelMsd ModelAdv ModelPar ModelSkip ModelMultipass ModelFunnel ModelKv ModelCoAware ModelCases.
From ZV.C11 Require Import ProofsMsd ProofsMsdDepth ProofsScatterK ProofsAdv ProofsPar ProofsSkip ProofsSetVar ProofsMultipass ProofsKv ProofsCoAware ProofsExamplesX.
Open Scope N_scope.

(* the checker used for the S-only cells decides exactly "sorted permutation of the input" *)
Theorem is_sorted_perm_spec :
  forall inp out, is_sorted_perm inp out = true <-> Sorted N.le out /\ Permutation inp out.
Proof. exact is_sorted_perm_spec_proof. Qed.
Check is_sorted_perm_spec :
  forall inp out, is_sorted_perm inp out = true <-> Sorted N.le out /\ Permutation inp out.
Print Assumptions is_sorted_perm_spec.

(* a sorted permutation is unique: every correct sort computes the same function *)
Theorem sorted_permutation_unique :
  forall a b, Sorted N.le a -> Sorted N.le b -> Permutation a b -> a = b.
Proof. exact sorted_perm_unique. Qed.
Check sorted_permutation_unique :
  forall a b, Sorted N.le a -> Sorted N.le b -> Permutation a b -> a = b.
Print Assumptions sorted_permutation_unique.

(* one counting pass as coded (counts, exclusive prefix sums, scatter into a zeroed buffer)
   = the buckets in digit order, each in input order: a stable sort by the digit *)
Theorem counting_pass_is_stable_bucketing :
  forall r shift data, lsd_pass r shift data = lsd_pass_spec r shift data.
Proof. exact lsd_pass_eq_spec. Qed.
Check counting_pass_is_stable_bucketing :
  forall r shift data, lsd_pass r shift data = lsd_pass_spec r shift data.
Print Assumptions counting_pass_is_stable_bucketing.

(* LSD radix sort: every key width w, every radix width r >= 1 (last digit narrower when r does
   not divide w), every input below 2^w *)
Theorem lsd_sorts :
  forall w r data, 0 < r -> Forall (fun x => x < 2 ^ w) data ->
    Sorted N.le (lsd_sort w r data) /\ Permutation data (lsd_sort w r data).
Proof. exact lsd_sorts_proof. Qed.
Check lsd_sorts :
  forall w r data, 0 < r -> Forall (fun x => x < 2 ^ w) data ->
    Sorted N.le (lsd_sort w r data) /\ Permutation data (lsd_sort w r data).
Print Assumptions lsd_sorts.

(* AdvancedRadixSort LSD: pass count derived from the largest key *)
Theorem adv_lsd_sorts :
  forall r data, 0 < r -> Sorted N.le (adv_lsd r data) /\ Permutation data (adv_lsd r data).
Proof. exact adv_lsd_sorts_proof. Qed.
Check adv_lsd_sorts :
  forall r data, 0 < r -> Sorted N.le (adv_lsd r data) /\ Permutation data (adv_lsd r data).
Print Assumptions adv_lsd_sorts.

(* k-way merge by selection of the least head (the loser tree as coded), k >= 0, empty ways allowed *)
Theorem loser_tree_merges :
  forall ways, Forall (Sorted N.le) ways ->
    Sorted N.le (loser_merge ways) /\ Permutation (concat ways) (loser_merge ways).
Proof. exact loser_tree_merges_proof. Qed.
Check loser_tree_merges :
  forall ways, Forall (Sorted N.le) ways ->
    Sorted N.le (loser_merge ways) /\ Permutation (concat ways) (loser_merge ways).
Print Assumptions loser_tree_merges.

Theorem merge_two_merges :
  forall l1 l2, Sorted N.le l1 -> Sorted N.le l2 ->
    Sorted N.le (merge_two l1 l2) /\ Permutation (l1 ++ l2) (merge_two l1 l2).
Proof. exact merge_two_merges_proof. Qed.
Check merge_two_merges :
  forall l1 l2, Sorted N.le l1 -> Sorted N.le l2 ->
    Sorted N.le (merge_two l1 l2) /\ Permutation (l1 ++ l2) (merge_two l1 l2).
Print Assumptions merge_two_merges.

(* two-pointer set operations = their definitions *)
Theorem ms_inter_is_filter :
  forall a b, Sorted N.le a -> Sorted N.le b -> ms_inter a b = filter (fun x => memb x b) a.
Proof. exact ms_inter_filter_proof. Qed.
Check ms_inter_is_filter :
  forall a b, Sorted N.le a -> Sorted N.le b -> ms_inter a b = filter (fun x => memb x b) a.
Print Assumptions ms_inter_is_filter.

Theorem ms_inter2_is_filter :
  forall a b, Sorted N.le a -> Sorted N.le b -> ms_inter2 a b = filter (fun y => memb y a) b.
Proof. exact ms_inter2_filter_proof. Qed.
Check ms_inter2_is_filter :
  forall a b, Sorted N.le a -> Sorted N.le b -> ms_inter2 a b = filter (fun y => memb y a) b.
Print Assumptions ms_inter2_is_filter.

Theorem ms_union_is_sorted_union :
  forall a b, Sorted N.le a -> Sorted N.le b ->
    Sorted N.le (ms_union a b) /\ Permutation (a ++ b) (ms_union a b).
Proof. exact ms_union_spec_proof. Qed.
Check ms_union_is_sorted_union :
  forall a b, Sorted N.le a -> Sorted N.le b ->
    Sorted N.le (ms_union a b) /\ Permutation (a ++ b) (ms_union a b).
Print Assumptions ms_union_is_sorted_union.

Theorem ms_diff_subtracts_multiplicities :
  forall a b, Sorted N.le a -> Sorted N.le b ->
    Sorted N.le (ms_diff a b) /\ forall z, countb z (ms_diff a b) = (countb z a - countb z b)%nat.
Proof. exact ms_diff_spec_proof. Qed.
Check ms_diff_subtracts_multiplicities :
  forall a b, Sorted N.le a -> Sorted N.le b ->
    Sorted N.le (ms_diff a b) /\ forall z, countb z (ms_diff a b) = (countb z a - countb z b)%nat.
Print Assumptions ms_diff_subtracts_multiplicities.

Theorem set_unique_spec :
  forall l, Sorted N.le l ->
    StronglySorted N.lt (set_unique l) /\ (forall z, In z (set_unique l) <-> In z l).
Proof. exact set_unique_spec_proof. Qed.
Check set_unique_spec :
  forall l, Sorted N.le l ->
    StronglySorted N.lt (set_unique l) /\ (forall z, In z (set_unique l) <-> In z l).
Print Assumptions set_unique_spec.

(* insertion sort (small-input strategy, MSD cutoff, cache-oblivious base case) *)
Theorem insertion_sort_sorts :
  forall data, Sorted N.le (insertion_sort data) /\ Permutation data (insertion_sort data).
Proof. exact insertion_sort_sorts_proof. Qed.
Check insertion_sort_sorts :
  forall data, Sorted N.le (insertion_sort data) /\ Permutation data (insertion_sort data).
Print Assumptions insertion_sort_sorts.

(* replacement selection as coded: every run is sorted and the runs together are the input,
   for every buffer of at least one element *)
Theorem replacement_selection_runs :
  forall mem input, (0 < mem)%nat ->
    Forall (Sorted N.le) (rs_runs_of mem input) /\ Permutation input (concat (rs_runs_of mem input)).
Proof. exact rs_runs_proof. Qed.
Check replacement_selection_runs :
  forall mem input, (0 < mem)%nat ->
    Forall (Sorted N.le) (rs_runs_of mem input) /\ Permutation input (concat (rs_runs_of mem input)).
Print Assumptions replacement_selection_runs.

(* ReplaceSelectSort::sort = run generation + loser-tree merge of the runs *)
Theorem external_sort_sorts :
  forall mem input, (0 < mem)%nat ->
    Sorted N.le (rs_sort mem input) /\ Permutation input (rs_sort mem input).
Proof. exact external_sort_sorts_proof. Qed.
Check external_sort_sorts :
  forall mem input, (0 < mem)%nat ->
    Sorted N.le (rs_sort mem input) /\ Permutation input (rs_sort mem input).
Print Assumptions external_sort_sorts.

(* with a zero-element buffer (the state of the code before fix ddd21a5) everything is lost *)
Theorem external_sort_zero_buffer_refuted :
  exists input, rs_sort 0 input <> isort input.
Proof. exact external_sort_zero_buffer_refuted_proof. Qed.
Check external_sort_zero_buffer_refuted : exists input, rs_sort 0 input <> isort input.
Print Assumptions external_sort_zero_buffer_refuted.

(* ================================================================== *)
(* extension: more of the code inside the model                        *)
(* ================================================================== *)

(* AdvancedRadixSort::msd_radix_sort on RadixString as coded (257 buckets incl. the end-of-string bucket,
   recursion on depth, insertion-sort cut-off, depth > 64 cut-off): sorted in lexicographic byte order, for every threshold *)
Theorem msd_sorts_strings :
  forall threshold data, Forall str_ok data ->
    StronglySorted lex_le (msd_str threshold data) /\ Permutation data (msd_str threshold data).
Proof. exact msd_str_sorts. Qed.
Check msd_sorts_strings :
  forall threshold data, Forall str_ok data ->
    StronglySorted lex_le (msd_str threshold data) /\ Permutation data (msd_str threshold data).
Print Assumptions msd_sorts_strings.

(* the same function on fixed-width integers (w = 4: u32, w = 8: u64; get_byte = big-endian bytes) *)
Theorem msd_sorts_ints :
  forall w threshold data, Forall (fun x => x < 256 ^ N.of_nat w) data ->
    Sorted N.le (msd_int w threshold data) /\ Permutation data (msd_int w threshold data).
Proof. exact msd_int_sorts. Qed.
Check msd_sorts_ints :
  forall w threshold data, Forall (fun x => x < 256 ^ N.of_nat w) data ->
    Sorted N.le (msd_int w threshold data) /\ Permutation data (msd_int w threshold data).
Print Assumptions msd_sorts_ints.

(* RadixSort::sort_bytes (MSD without any cut-off; fuel = longest string + 1) *)
Theorem sort_bytes_msd_sorts :
  forall data, Forall str_ok data ->
    StronglySorted lex_le (sort_bytes data) /\ Permutation data (sort_bytes data).
Proof. exact sort_bytes_sorts. Qed.
Check sort_bytes_msd_sorts :
  forall data, Forall str_ok data ->
    StronglySorted lex_le (sort_bytes data) /\ Permutation data (sort_bytes data).
Print Assumptions sort_bytes_msd_sorts.

(* the lexicographically sorted permutation of a list of byte strings is unique *)
Theorem lex_sorted_permutation_unique :
  forall a b : list (list N), StronglySorted lex_le a -> StronglySorted lex_le b -> Permutation a b -> a = b.
Proof. exact lex_sorted_perm_unique. Qed.
Check lex_sorted_permutation_unique :
  forall a b : list (list N), StronglySorted lex_le a -> StronglySorted lex_le b -> Permutation a b -> a = b.
Print Assumptions lex_sorted_permutation_unique.

(* returning early once depth >= data[0].max_bytes() (not in the tree) is wrong for strings *)
Theorem msd_early_return_refuted :
  exists threshold data, Forall str_ok data /\ msd_str_early threshold data <> msd_str threshold data.
Proof. exact msd_early_return_refuted_proof. Qed.
Check msd_early_return_refuted :
  exists threshold data, Forall str_ok data /\ msd_str_early threshold data <> msd_str threshold data.
Print Assumptions msd_early_return_refuted.

(* the counting pass of AdvancedRadixSort for any element type (elements moved, digit taken from extract_key) *)
Theorem keyed_counting_pass_is_stable_bucketing :
  forall (T : Type) (key : T -> N) r shift (data : list T),
    lsd_pass_k T key r shift data = lsd_pass_spec_k T key r shift data.
Proof. exact lsd_pass_eq_spec_k. Qed.
Check keyed_counting_pass_is_stable_bucketing :
  forall (T : Type) (key : T -> N) r shift (data : list T),
    lsd_pass_k T key r shift data = lsd_pass_spec_k T key r shift data.
Print Assumptions keyed_counting_pass_is_stable_bucketing.

(* AdvancedRadixSort<u32/u64>::sort: whichever strategy is forced or selected adaptively (insertion / sort_unstable /
   LSD sequential or chunked-parallel / MSD), every radix width, threshold and thread count *)
Theorem adv_sort_any_strategy_ints :
  forall (w : nat) (std_sort : list N -> list N) c data,
    (forall l, Sorted N.le (std_sort l) /\ Permutation l (std_sort l)) ->
    0 < c_radix c -> (0 < c_threads c)%nat -> Forall (fun x => x < 256 ^ N.of_nat w) data ->
    Sorted N.le (adv_sort_int w std_sort c data) /\ Permutation data (adv_sort_int w std_sort c data).
Proof. exact adv_sort_int_sorts. Qed.
Check adv_sort_any_strategy_ints :
  forall (w : nat) (std_sort : list N -> list N) c data,
    (forall l, Sorted N.le (std_sort l) /\ Permutation l (std_sort l)) ->
    0 < c_radix c -> (0 < c_threads c)%nat -> Forall (fun x => x < 256 ^ N.of_nat w) data ->
    Sorted N.le (adv_sort_int w std_sort c data) /\ Permutation data (adv_sort_int w std_sort c data).
Print Assumptions adv_sort_any_strategy_ints.

(* AdvancedRadixSort<RadixString>::sort: the same, provided that when the sequential LSD path is the one taken no two
   different strings share their 8-byte key (finding string_lsd_key_collision) *)
Theorem adv_sort_any_strategy_strings :
  forall (std_sort : list (list N) -> list (list N)) c data,
    (forall l, StronglySorted lex_le (std_sort l) /\ Permutation l (std_sort l)) ->
    0 < c_radix c -> (0 < c_threads c)%nat -> Forall str_ok data ->
    (lsd_sequential_selected (list N) str_key c data = true ->
       forall x y, In x data -> In y data -> str_key x = str_key y -> x = y) ->
    StronglySorted lex_le (adv_sort_str std_sort c data) /\ Permutation data (adv_sort_str std_sort c data).
Proof. exact adv_sort_str_sorts. Qed.
Check adv_sort_any_strategy_strings :
  forall (std_sort : list (list N) -> list (list N)) c data,
    (forall l, StronglySorted lex_le (std_sort l) /\ Permutation l (std_sort l)) ->
    0 < c_radix c -> (0 < c_threads c)%nat -> Forall str_ok data ->
    (lsd_sequential_selected (list N) str_key c data = true ->
       forall x y, In x data -> In y data -> str_key x = str_key y -> x = y) ->
    StronglySorted lex_le (adv_sort_str std_sort c data) /\ Permutation data (adv_sort_str std_sort c data).
Print Assumptions adv_sort_any_strategy_strings.

(* without that hypothesis: forced LSD on [[0]; [0;0;0]; []; [0;0]] (witness of the finding) *)
Theorem adv_sort_str_lsd_collision_refuted :
  exists c data, Forall str_ok data /\ 0 < c_radix c /\ (0 < c_threads c)%nat /\
    adv_sort_str isort_str c data <> isort_str data.
Proof. exact adv_sort_str_lsd_collision_refuted_proof. Qed.
Check adv_sort_str_lsd_collision_refuted :
  exists c data, Forall str_ok data /\ 0 < c_radix c /\ (0 < c_threads c)%nat /\
    adv_sort_str isort_str c data <> isort_str data.
Print Assumptions adv_sort_str_lsd_collision_refuted.

(* MultiWayMerge::merge_heap *)
Theorem heap_merge_merges :
  forall ways, Forall (Sorted N.le) ways ->
    Sorted N.le (heap_merge ways) /\ Permutation (concat ways) (heap_merge ways).
Proof. exact heap_merge_merges_proof. Qed.
Check heap_merge_merges :
  forall ways, Forall (Sorted N.le) ways ->
    Sorted N.le (heap_merge ways) /\ Permutation (concat ways) (heap_merge ways).
Print Assumptions heap_merge_merges.

(* MultiWayMerge::merge: whichever of single source / hierarchical / tournament / heap the configuration selects *)
Theorem mwm_merge_merges :
  forall tt maxw ways, Forall (Sorted N.le) ways ->
    Sorted N.le (mwm_merge tt maxw ways) /\ Permutation (concat ways) (mwm_merge tt maxw ways).
Proof. exact mwm_merge_merges_proof. Qed.
Check mwm_merge_merges :
  forall tt maxw ways, Forall (Sorted N.le) ways ->
    Sorted N.le (mwm_merge tt maxw ways) /\ Permutation (concat ways) (mwm_merge tt maxw ways).
Print Assumptions mwm_merge_merges.

(* RadixSort::counting_sort_u32 *)
Theorem counting_sort_sorts :
  forall data, Sorted N.le (counting_sort data) /\ Permutation data (counting_sort data).
Proof. exact counting_sort_sorts_proof. Qed.
Check counting_sort_sorts :
  forall data, Sorted N.le (counting_sort data) /\ Permutation data (counting_sort data).
Print Assumptions counting_sort_sorts.

(* the slices handed to the per-chunk sort and the slices handed to the merge are the same list *)
Theorem chunk_boundaries_agree :
  forall (f : list N -> list N) cs l, (0 < cs)%nat -> (forall l, length (f l) = length l) ->
    chunks cs (concat (map f (chunks cs l))) = map f (chunks cs l).
Proof. exact chunks_rechunk. Qed.
Check chunk_boundaries_agree :
  forall (f : list N -> list N) cs l, (0 < cs)%nat -> (forall l, length (f l) = length l) ->
    chunks cs (concat (map f (chunks cs l))) = map f (chunks cs l).
Print Assumptions chunk_boundaries_agree.

(* RadixSort::sort_u32 incl. the chunk + merge path: every radix width, counting threshold, parallel threshold, thread count *)
Theorem parallel_sort_sorts_u32 :
  forall r cth par pth threads data,
    0 < r -> (0 < threads)%nat -> Forall (fun x => x < 2 ^ 32) data ->
    Sorted N.le (sort_u32 r cth par pth threads data) /\ Permutation data (sort_u32 r cth par pth threads data).
Proof. exact parallel_sort_u32_sorts_proof. Qed.
Check parallel_sort_sorts_u32 :
  forall r cth par pth threads data,
    0 < r -> (0 < threads)%nat -> Forall (fun x => x < 2 ^ 32) data ->
    Sorted N.le (sort_u32 r cth par pth threads data) /\ Permutation data (sort_u32 r cth par pth threads data).
Print Assumptions parallel_sort_sorts_u32.

(* RadixSort::sort_u64 likewise *)
Theorem parallel_sort_sorts_u64 :
  forall r par pth threads data,
    0 < r -> (0 < threads)%nat -> Forall (fun x => x < 2 ^ 64) data ->
    Sorted N.le (sort_u64 r par pth threads data) /\ Permutation data (sort_u64 r par pth threads data).
Proof. exact parallel_sort_u64_sorts_proof. Qed.
Check parallel_sort_sorts_u64 :
  forall r par pth threads data,
    0 < r -> (0 < threads)%nat -> Forall (fun x => x < 2 ^ 64) data ->
    Sorted N.le (sort_u64 r par pth threads data) /\ Permutation data (sort_u64 r par pth threads data).
Print Assumptions parallel_sort_sorts_u64.

(* sorting and merging on different boundaries (a chunk size clamped on one side only) does not sort *)
Theorem par_chunk_mismatch_refuted :
  exists sort_cs merge_cs data, (0 < sort_cs)%nat /\ (0 < merge_cs)%nat /\
    par_chunk_sort isort sort_cs merge_cs data <> isort data.
Proof. exact par_chunk_mismatch_refuted_proof. Qed.
Check par_chunk_mismatch_refuted :
  exists sort_cs merge_cs data, (0 < sort_cs)%nat /\ (0 < merge_cs)%nat /\
    par_chunk_sort isort sort_cs merge_cs data <> isort data.
Print Assumptions par_chunk_mismatch_refuted.

(* a counting pass as coded over a digit that is the same for every key is the identity *)
Theorem constant_digit_pass_is_identity :
  forall r shift data, digit_constant r shift data = true -> lsd_pass r shift data = data.
Proof. exact constant_digit_pass_id. Qed.
Check constant_digit_pass_is_identity :
  forall r shift data, digit_constant r shift data = true -> lsd_pass r shift data = data.
Print Assumptions constant_digit_pass_is_identity.

(* the LSD loop that skips constant-digit passes (`continue`) *)
Theorem lsd_skip_constant_digit_sorts :
  forall w r data, 0 < r -> Forall (fun x => x < 2 ^ w) data ->
    Sorted N.le (lsd_sort_skip w r data) /\ Permutation data (lsd_sort_skip w r data).
Proof. exact lsd_skip_constant_digit_sorts_proof. Qed.
Check lsd_skip_constant_digit_sorts :
  forall w r data, 0 < r -> Forall (fun x => x < 2 ^ w) data ->
    Sorted N.le (lsd_sort_skip w r data) /\ Permutation data (lsd_sort_skip w r data).
Print Assumptions lsd_skip_constant_digit_sorts.

(* leaving the loop at the first constant digit (`break`) does not sort *)
Theorem lsd_break_refuted :
  exists w r data, 0 < r /\ Forall (fun x => x < 2 ^ w) data /\ lsd_sort_break w r data <> isort data.
Proof. exact lsd_break_refuted_proof. Qed.
Check lsd_break_refuted :
  exists w r data, 0 < r /\ Forall (fun x => x < 2 ^ w) data /\ lsd_sort_break w r data <> isort data.
Print Assumptions lsd_break_refuted.

(* multiset_1small_intersection (lower/upper-bound cursor) = multiset_intersection, duplicates on both sides *)
Theorem ms_1small_inter_eq :
  forall a b, Sorted N.le a -> Sorted N.le b -> ms_1small_inter (S (length a)) a b = ms_inter a b.
Proof. exact ms_1small_inter_eq_proof. Qed.
Check ms_1small_inter_eq :
  forall a b, Sorted N.le a -> Sorted N.le b -> ms_1small_inter (S (length a)) a b = ms_inter a b.
Print Assumptions ms_1small_inter_eq.

(* multiset_1small_intersection2 = multiset_intersection2 *)
Theorem ms_1small_inter2_eq :
  forall a b, Sorted N.le a -> Sorted N.le b -> ms_1small_inter2 a b = ms_inter2 a b.
Proof. exact ms_1small_inter2_eq_proof. Qed.
Check ms_1small_inter2_eq :
  forall a b, Sorted N.le a -> Sorted N.le b -> ms_1small_inter2 a b = ms_inter2 a b.
Print Assumptions ms_1small_inter2_eq.

(* multiset_fast_intersection: whichever branch the size ratio selects *)
Theorem ms_fast_inter_eq :
  forall th a b, Sorted N.le a -> Sorted N.le b -> ms_fast_inter th a b = ms_inter a b.
Proof. exact ms_fast_inter_eq_proof. Qed.
Check ms_fast_inter_eq :
  forall th a b, Sorted N.le a -> Sorted N.le b -> ms_fast_inter th a b = ms_inter a b.
Print Assumptions ms_fast_inter_eq.

(* multiset_fast_intersection2 likewise *)
Theorem ms_fast_inter2_eq :
  forall th a b, Sorted N.le a -> Sorted N.le b -> ms_fast_inter2 th a b = ms_inter2 a b.
Proof. exact ms_fast_inter2_eq_proof. Qed.
Check ms_fast_inter2_eq :
  forall th a b, Sorted N.le a -> Sorted N.le b -> ms_fast_inter2 th a b = ms_inter2 a b.
Print Assumptions ms_fast_inter2_eq.

(* merging the runs in groups of fan_in (trailing incomplete group included), then the partial results *)
Theorem multipass_merge_sorts :
  forall fan_in runs, Forall (Sorted N.le) runs ->
    Sorted N.le (multipass_merge fan_in runs) /\ Permutation (concat runs) (multipass_merge fan_in runs).
Proof. exact multipass_merge_sorts_proof. Qed.
Check multipass_merge_sorts :
  forall fan_in runs, Forall (Sorted N.le) runs ->
    Sorted N.le (multipass_merge fan_in runs) /\ Permutation (concat runs) (multipass_merge fan_in runs).
Print Assumptions multipass_merge_sorts.

(* run generation + multi-pass merge sorts and equals the single-pass merge of the pinned code, for every fan-in *)
Theorem external_sort_multipass_sorts :
  forall mem fan_in input, (0 < mem)%nat ->
    Sorted N.le (rs_sort_multipass mem fan_in input) /\ Permutation input (rs_sort_multipass mem fan_in input) /\
    rs_sort_multipass mem fan_in input = rs_sort mem input.
Proof. exact external_sort_multipass_sorts_proof. Qed.
Check external_sort_multipass_sorts :
  forall mem fan_in input, (0 < mem)%nat ->
    Sorted N.le (rs_sort_multipass mem fan_in input) /\ Permutation input (rs_sort_multipass mem fan_in input) /\
    rs_sort_multipass mem fan_in input = rs_sort mem input.
Print Assumptions external_sort_multipass_sorts.

(* grouping with chunks_exact drops the runs of the trailing group *)
Theorem multipass_chunks_exact_refuted :
  exists fan_in runs, Forall (Sorted N.le) runs /\ multipass_merge_exact fan_in runs <> multipass_merge fan_in runs.
Proof. exact multipass_chunks_exact_refuted_proof. Qed.
Check multipass_chunks_exact_refuted :
  exists fan_in runs, Forall (Sorted N.le) runs /\ multipass_merge_exact fan_in runs <> multipass_merge fan_in runs.
Print Assumptions multipass_chunks_exact_refuted.

(* CacheObliviousSort::cache_oblivious_sort: funnel recursion (segments, recursive sort, k-way merge of the same segments)
   for every small_threshold and cache geometry *)
Theorem co_sort_sorts :
  forall st l2 line data, Sorted N.le (co_sort st l2 line data) /\ Permutation data (co_sort st l2 line data).
Proof. exact co_sort_sorts_proof. Qed.
Check co_sort_sorts :
  forall st l2 line data, Sorted N.le (co_sort st l2 line data) /\ Permutation data (co_sort st l2 line data).
Print Assumptions co_sort_sorts.

(* KeyValueRadixSort::sort_by_key (keys sorted by sort_u64, values fetched through per-key position queues): no error,
   sorted by key, every (key, value) pair kept, pairs with equal keys in their input order *)
Theorem kv_sort_keeps_pairs :
  forall threads data, (0 < threads)%nat -> Forall (fun p => fst p < 2 ^ 64) data ->
    exists out, kv_sort threads data = Some out /\
      Sorted N.le (map fst out) /\ Permutation data out /\ forall k, with_key k out = with_key k data.
Proof. exact kv_sort_pairs_proof. Qed.
Check kv_sort_keeps_pairs :
  forall threads data, (0 < threads)%nat -> Forall (fun p => fst p < 2 ^ 64) data ->
    exists out, kv_sort threads data = Some out /\
      Sorted N.le (map fst out) /\ Permutation data out /\ forall k, with_key k out = with_key k data.
Print Assumptions kv_sort_keeps_pairs.

(* SimdOperations::merge_multiple_sorted: binary merge tree, an odd array carried over to the next round *)
Theorem merge_tree_merges :
  forall ls, Forall (Sorted N.le) ls -> Sorted N.le (merge_tree ls) /\ Permutation (concat ls) (merge_tree ls).
Proof. exact merge_tree_merges_proof. Qed.
Check merge_tree_merges :
  forall ls, Forall (Sorted N.le) ls -> Sorted N.le (merge_tree ls) /\ Permutation (concat ls) (merge_tree ls).
Print Assumptions merge_tree_merges.

(* Vec::external_sort_with_config: in-memory sort when the data fits the buffer, else replacement selection *)
Theorem vec_external_sort_sorts :
  forall (std_sort : list N -> list N) elem_size buf data,
    (forall l, Sorted N.le (std_sort l) /\ Permutation l (std_sort l)) ->
    Sorted N.le (vec_external_sort std_sort elem_size buf data) /\
    Permutation data (vec_external_sort std_sort elem_size buf data).
Proof. exact vec_external_sort_sorts_proof. Qed.
Check vec_external_sort_sorts :
  forall (std_sort : list N -> list N) elem_size buf data,
    (forall l, Sorted N.le (std_sort l) /\ Permutation l (std_sort l)) ->
    Sorted N.le (vec_external_sort std_sort elem_size buf data) /\
    Permutation data (vec_external_sort std_sort elem_size buf data).
Print Assumptions vec_external_sort_sorts.

(* sort_bytes_msd before fix 50ae740: two equal strings of length L cost L + 1 nested calls (stack overflow at ~100 KB) *)
Theorem sort_bytes_unfixed_depth_unbounded :
  forall (a : N) (L : nat), a < 256 -> sort_bytes_levels false [repeat a L; repeat a L] = S L.
Proof. exact sort_bytes_unfixed_depth_proof. Qed.
Check sort_bytes_unfixed_depth_unbounded :
  forall (a : N) (L : nat), a < 256 -> sort_bytes_levels false [repeat a L; repeat a L] = S L.
Print Assumptions sort_bytes_unfixed_depth_unbounded.

(* with the common-prefix skip every level splits its input: at most as many nested calls as there are strings *)
Theorem sort_bytes_depth_bounded :
  forall data : list (list N), data <> [] -> (sort_bytes_levels true data <= length data)%nat.
Proof. exact sort_bytes_depth_bounded_proof. Qed.
Check sort_bytes_depth_bounded :
  forall data : list (list N), data <> [] -> (sort_bytes_levels true data <= length data)%nat.
Print Assumptions sort_bytes_depth_bounded.

(* the fix does not change what is computed *)
Theorem sort_bytes_fix_keeps_result :
  forall data, Forall str_ok data -> sort_bytes_unfixed data = sort_bytes data.
Proof. exact sort_bytes_unfixed_eq. Qed.
Check sort_bytes_fix_keeps_result :
  forall data, Forall str_ok data -> sort_bytes_unfixed data = sort_bytes data.
Print Assumptions sort_bytes_fix_keeps_result.

(* cache_aware_quicksort (Lomuto partition around the last element) *)
Theorem quicksort_sorts :
  forall l, Sorted N.le (quicksort l) /\ Permutation l (quicksort l).
Proof. exact quicksort_sorts. Qed.
Check quicksort_sorts :
  forall l, Sorted N.le (quicksort l) /\ Permutation l (quicksort l).
Print Assumptions quicksort_sorts.

(* cache_aware_mergesort *)
Theorem mergesort_sorts :
  forall l, Sorted N.le (mergesort l) /\ Permutation l (mergesort l).
Proof. exact mergesort_sorts. Qed.
Check mergesort_sorts :
  forall l, Sorted N.le (mergesort l) /\ Permutation l (mergesort l).
Print Assumptions mergesort_sorts.

(* CacheObliviousSort::sort: whichever strategy the cache hierarchy, the element size and the length select *)
Theorem co_full_sort_sorts :
  forall st esz l1 l2 l3 line l,
    Sorted N.le (co_full_sort st esz l1 l2 l3 line l) /\ Permutation l (co_full_sort st esz l1 l2 l3 line l).
Proof. exact co_full_sort_sorts_proof. Qed.
Check co_full_sort_sorts :
  forall st esz l1 l2 l3 line l,
    Sorted N.le (co_full_sort st esz l1 l2 l3 line l) /\ Permutation l (co_full_sort st esz l1 l2 l3 line l).
Print Assumptions co_full_sort_sorts.
