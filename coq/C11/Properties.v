(* C11 property theorems.  Statements closed by `exact`, a pin, and Print Assumptions only. *)
From ZV.Common Require Import Base Run.
From Coq Require Import Sorting.Sorted Sorting.Permutation.
From ZV.C11 Require Import Model ProofsSpec.
Open Scope N_scope.

(* the checker used for the S-only cells decides exactly "sorted permutation of the input" *)
Theorem is_sorted_perm_spec :
  forall inp out, is_sorted_perm inp out = true <-> Sorted N.le out /\ Permutation inp out.
Proof. exact is_sorted_perm_spec_proof. Qed.
Check is_sorted_perm_spec :
  forall inp out, is_sorted_perm inp out = true <-> Sorted N.le out /\ Permutation inp out.
Print Assumptions is_sorted_perm_spec.
