(* C11: the counting pass (counts, exclusive prefix sums, left-to-right scatter into a
   zero-filled buffer) computes the buckets in digit order, each in input order. *)
From ZV.Common Require Import Base Run.
From Coq Require Import Sorting.Permutation.
From ZV.C11 Require Import Model.
Open Scope nat_scope.

(* ---------- arrays ---------- *)
Lemma upd_length {A} (l : list A) i v : length (upd l i v) = length l.
Proof. revert i; induction l as [|h t IH]; intros [|i]; cbn [upd length]; auto. Qed.

Lemma nth_upd_same {A} (l : list A) i v d : i < length l -> nth i (upd l i v) d = v.
Proof.
  revert i; induction l as [|h t IH]; intros [|i] H; cbn [upd nth length] in *; try lia; auto;
    try (apply IH; lia).
Qed.
Lemma nth_upd_other {A} (l : list A) i j v d : j <> i -> nth j (upd l i v) d = nth j l d.
Proof.
  revert i j; induction l as [|h t IH]; intros [|i] [|j] H; cbn [upd nth]; auto; try lia;
    try (apply IH; lia).
Qed.

Lemma nth_firstn_lt {A} (l : list A) n j d : j < n -> nth j (firstn n l) d = nth j l d.
Proof.
  revert n j; induction l as [|h t IH]; intros [|n] [|j] H; cbn [firstn nth]; auto; try lia;
    try (apply IH; lia).
Qed.
Lemma nth_skipn_add {A} (l : list A) n k d : nth k (skipn n l) d = nth (n + k) l d.
Proof.
  revert n; induction l as [|h t IH]; intros [|n]; cbn [skipn nth Nat.add]; auto.
  destruct k; reflexivity.
Qed.

(* ---------- sums of prefixes ---------- *)
Lemma sum_firstn_S (l : list nat) d :
  list_sum (firstn (S d) l) = list_sum (firstn d l) + nth d l 0.
Proof.
  revert d; induction l as [|h t IH]; intros d.
  - destruct d; reflexivity.
  - destruct d as [|d].
    + unfold list_sum in *; cbn [firstn fold_right nth]. lia.
    + change (firstn (S (S d)) (h :: t)) with (h :: firstn (S d) t).
      change (firstn (S d) (h :: t)) with (h :: firstn d t).
      unfold list_sum in *. cbn [fold_right nth]. rewrite IH. lia.
Qed.
Lemma sum_firstn_mono (l : list nat) a b : a <= b -> list_sum (firstn a l) <= list_sum (firstn b l).
Proof.
  revert a b; induction l as [|h t IH]; intros a b H.
  - rewrite !firstn_nil. lia.
  - destruct a as [|a]; [unfold list_sum in *; cbn [firstn fold_right]; lia|].
    destruct b as [|b]; [lia|]. unfold list_sum in *; cbn [firstn fold_right]. specialize (IH a b). lia.
Qed.
Lemma sum_firstn_all (l : list nat) d : list_sum (firstn d l) <= list_sum l.
Proof.
  destruct (Nat.le_gt_cases (length l) d) as [H|H].
  - rewrite firstn_all2 by assumption. lia.
  - rewrite <- (firstn_all l) at 2. apply sum_firstn_mono. lia.
Qed.

Lemma prefix_sums_length p cnt : length (prefix_sums p cnt) = length cnt.
Proof. revert p; induction cnt as [|c t IH]; intros p; cbn [prefix_sums length]; auto. Qed.
Lemma prefix_sums_nth cnt p d :
  d < length cnt -> nth d (prefix_sums p cnt) 0 = p + list_sum (firstn d cnt).
Proof.
  revert p d; induction cnt as [|c t IH]; intros p d H; cbn [length] in H; [lia|].
  destruct d as [|d]; unfold list_sum in *; cbn [prefix_sums nth firstn fold_right]; [lia|].
  rewrite IH by lia. lia.
Qed.

(* ---------- a list is the concatenation of its slices ---------- *)
Lemma concat_slices (Bs : list (list N)) : forall fb : list N,
  (forall i j, i < length Bs -> j < length (nth i Bs []) ->
     nth (list_sum (map (@length N) (firstn i Bs)) + j) fb 0%N = nth j (nth i Bs []) 0%N) ->
  length fb = list_sum (map (@length N) Bs) ->
  fb = concat Bs.
Proof.
  induction Bs as [|B Bs IH]; intros fb Hs Hl.
  - unfold list_sum in *; cbn [map fold_right] in Hl. destruct fb; [reflexivity|discriminate].
  - unfold list_sum in *; cbn [map fold_right] in Hl. cbn [concat].
    rewrite <- (firstn_skipn (length B) fb). f_equal.
    + apply (nth_ext _ _ 0%N 0%N).
      * rewrite firstn_length. lia.
      * intros j Hj. rewrite firstn_length in Hj.
        rewrite nth_firstn_lt by lia.
        specialize (Hs 0 j). unfold list_sum in *; cbn [firstn map fold_right nth length Nat.add] in Hs. apply Hs; lia.
    + apply IH.
      * intros i j Hi Hj. rewrite nth_skipn_add.
        specialize (Hs (S i) j). unfold list_sum in *; cbn [firstn map fold_right nth length] in Hs.
        rewrite <- Hs by lia. f_equal. lia.
      * rewrite skipn_length. lia.
Qed.

Lemma flat_map_length_sum {A B} (f : A -> list B) (l : list A) :
  length (flat_map f l) = list_sum (map (fun x => length (f x)) l).
Proof. induction l as [|x l IH]; unfold list_sum in *; cbn [flat_map map fold_right]; [reflexivity|]. rewrite app_length, IH. reflexivity. Qed.

Lemma flat_map_ext_in' {A B} (f g : A -> list B) (l : list A) :
  (forall a, In a l -> f a = g a) -> flat_map f l = flat_map g l.
Proof.
  induction l as [|x l IH]; intros H; cbn [flat_map]; [reflexivity|].
  rewrite H by (left; reflexivity). rewrite IH; [reflexivity|]. intros a Ha. apply H. right; exact Ha.
Qed.

(* ---------- the pass ---------- *)
Section Pass.
Variables r shift : N.
Let dg := dnat r shift.
Let R := N.to_nat (2 ^ r).
Let bk := bucket r shift.
Definition cntd (d : nat) (data : list N) : nat := length (bucket r shift d data).

Lemma dg_lt v : dg v < R.
Proof.
  unfold dg, R, dnat, digit. rewrite N.land_ones.
  assert (H : (N.shiftr v shift mod 2 ^ r < 2 ^ r)%N).
  { apply N.mod_lt. apply N.pow_nonzero. discriminate. }
  lia.
Qed.

Lemma bucket_cons d v rest :
  bucket r shift d (v :: rest) = if Nat.eqb (dg v) d then v :: bucket r shift d rest else bucket r shift d rest.
Proof. reflexivity. Qed.
Lemma cntd_cons d v rest :
  cntd d (v :: rest) = if Nat.eqb (dg v) d then S (cntd d rest) else cntd d rest.
Proof. unfold cntd. rewrite bucket_cons. destruct (Nat.eqb (dg v) d); reflexivity. Qed.

(* the buckets are a permutation of the data *)
Lemma insert_bucket (v : N) (rest : list N) (ds : list nat) : forall l0,
  NoDup ds -> In (dg v) ds ->
  Permutation l0 (flat_map (fun d => bucket r shift d rest) ds) ->
  Permutation (v :: l0) (flat_map (fun d => bucket r shift d (v :: rest)) ds).
Proof.
  induction ds as [|d ds IHd]; intros l0 Hnd Hv Hp; [destruct Hv|].
  cbn [flat_map] in *. rewrite bucket_cons. inversion Hnd as [|? ? Hnotin Hnd']; subst.
  destruct (Nat.eqb_spec (dg v) d) as [E|NE].
  - (* v heads its bucket; the other buckets are unchanged *)
    cbn [app]. apply perm_skip.
    assert (Hsame : flat_map (fun d0 => bucket r shift d0 (v :: rest)) ds
                  = flat_map (fun d0 => bucket r shift d0 rest) ds).
    { apply flat_map_ext_in'. intros d0 Hd0. rewrite bucket_cons.
      destruct (Nat.eqb_spec (dg v) d0) as [E2|]; [|reflexivity].
      exfalso. apply Hnotin. rewrite <- E, E2. exact Hd0. }
    rewrite Hsame. exact Hp.
  - destruct Hv as [Hv|Hv]; [exfalso; apply NE; symmetry; exact Hv|].
    (* move v across bucket d *)
    eapply perm_trans; [apply perm_skip; exact Hp|].
    eapply perm_trans; [apply Permutation_middle|].
    apply Permutation_app_head. apply IHd; [exact Hnd'|exact Hv|reflexivity].
Qed.

Lemma buckets_perm_gen (ds : list nat) (data : list N) :
  NoDup ds -> (forall v, In v data -> In (dg v) ds) ->
  Permutation data (flat_map (fun d => bucket r shift d data) ds).
Proof.
  intros Hnd. induction data as [|v rest IH]; intros Hin.
  - clear. induction ds as [|d ds IHd]; cbn [flat_map]; [constructor|exact IHd].
  - apply insert_bucket; [exact Hnd|apply Hin; left; reflexivity|].
    apply IH. intros w Hw. apply Hin. right; assumption.
Qed.

Lemma seq_NoDup' s n : NoDup (seq s n).
Proof. apply seq_NoDup. Qed.

Lemma buckets_perm (data : list N) : Permutation data (lsd_pass_spec r shift data).
Proof.
  unfold lsd_pass_spec. apply buckets_perm_gen; [apply seq_NoDup|].
  intros v _. apply in_seq. pose proof (dg_lt v). fold R. lia.
Qed.

(* counts *)
Lemma count_step_nth (data : list N) : forall cnt0 d,
  length cnt0 = R -> d < R ->
  nth d (fold_left (fun cnt v => let d := dnat r shift v in upd cnt d (S (nth d cnt 0))) data cnt0) 0
  = nth d cnt0 0 + cntd d data.
Proof.
  induction data as [|v rest IH]; intros cnt0 d Hl Hd; cbn [fold_left].
  - unfold cntd; cbn. lia.
  - rewrite IH; [|rewrite upd_length; exact Hl|exact Hd].
    rewrite cntd_cons. fold dg. pose proof (dg_lt v) as Hv.
    destruct (Nat.eqb_spec (dg v) d) as [E|NE].
    + subst d. rewrite nth_upd_same by lia. lia.
    + rewrite nth_upd_other by (intro; apply NE; auto). lia.
Qed.
Lemma count_step_length (data : list N) : forall cnt0,
  length (fold_left (fun cnt v => let d := dnat r shift v in upd cnt d (S (nth d cnt 0))) data cnt0) = length cnt0.
Proof. induction data as [|v rest IH]; intros cnt0; cbn [fold_left]; [reflexivity|]. rewrite IH, upd_length. reflexivity. Qed.

Lemma count_digits_eq (data : list N) :
  count_digits r shift data = map (fun d => cntd d data) (seq 0 R).
Proof.
  apply (nth_ext _ _ 0 0).
  - unfold count_digits. rewrite count_step_length, repeat_length, map_length, seq_length. reflexivity.
  - intros d Hd. unfold count_digits in *. rewrite count_step_length, repeat_length in Hd. fold R in Hd.
    rewrite count_step_nth; [|apply repeat_length|exact Hd].
    rewrite nth_repeat.
    rewrite (nth_indep _ 0 (cntd 0 data)) by (rewrite map_length, seq_length; exact Hd).
    rewrite (map_nth (fun d => cntd d data)). rewrite seq_nth by exact Hd. reflexivity.
Qed.

(* the scatter loop *)
Lemma scatter_inv (data : list N) : forall pos buf,
  length pos = R ->
  (forall d1 d2, d1 < R -> d2 < R -> d1 <> d2 ->
     nth d1 pos 0 + cntd d1 data <= nth d2 pos 0 \/ nth d2 pos 0 + cntd d2 data <= nth d1 pos 0) ->
  (forall d, d < R -> nth d pos 0 + cntd d data <= length buf) ->
  length (scatter r shift data pos buf) = length buf /\
  (forall d j, d < R -> j < cntd d data ->
     nth (nth d pos 0 + j) (scatter r shift data pos buf) 0%N = nth j (bucket r shift d data) 0%N) /\
  (forall k, (forall d, d < R -> ~ (nth d pos 0 <= k < nth d pos 0 + cntd d data)) ->
     nth k (scatter r shift data pos buf) 0%N = nth k buf 0%N).
Proof.
  induction data as [|v rest IH]; intros pos buf Hlen HD HB.
  - cbn [scatter]. split; [reflexivity|]. split; [|reflexivity].
    intros d j _ Hj. unfold cntd in Hj; cbn in Hj. lia.
  - cbn [scatter]. fold dg. set (d0 := dg v). set (p := nth d0 pos 0).
    pose proof (dg_lt v) as Hd0. fold d0 in Hd0.
    assert (Hc0 : cntd d0 (v :: rest) = S (cntd d0 rest)).
    { rewrite cntd_cons. fold d0. rewrite Nat.eqb_refl. reflexivity. }
    assert (Hco : forall d, d <> d0 -> cntd d (v :: rest) = cntd d rest).
    { intros d Hd. rewrite cntd_cons. fold d0. destruct (Nat.eqb_spec d0 d); [exfalso; auto|reflexivity]. }
    assert (Hp0 : nth d0 (upd pos d0 (S p)) 0 = S p) by (apply nth_upd_same; lia).
    assert (Hpo : forall d, d <> d0 -> nth d (upd pos d0 (S p)) 0 = nth d pos 0).
    { intros d Hd. apply nth_upd_other. exact Hd. }
    assert (Hpb : p < length buf).
    { specialize (HB d0 Hd0). rewrite Hc0 in HB. fold p in HB. lia. }
    destruct (IH (upd pos d0 (S p)) (upd buf p v)) as (L & S1 & O1).
    + rewrite upd_length; exact Hlen.
    + intros d1 d2 H1 H2 Hne.
      specialize (HD d1 d2 H1 H2 Hne).
      destruct (Nat.eq_dec d1 d0) as [E1|N1]; destruct (Nat.eq_dec d2 d0) as [E2|N2]; subst.
      * exfalso; auto.
      * rewrite Hp0, (Hpo d2 N2). rewrite Hc0, (Hco d2 N2) in HD. fold p in HD. lia.
      * rewrite Hp0, (Hpo d1 N1). rewrite Hc0, (Hco d1 N1) in HD. fold p in HD. lia.
      * rewrite (Hpo d1 N1), (Hpo d2 N2). rewrite (Hco d1 N1), (Hco d2 N2) in HD. exact HD.
    + intros d Hd. rewrite upd_length. specialize (HB d Hd).
      destruct (Nat.eq_dec d d0) as [E|NE]; subst.
      * rewrite Hp0. rewrite Hc0 in HB. fold p in HB. lia.
      * rewrite (Hpo d NE). rewrite (Hco d NE) in HB. exact HB.
    + split; [rewrite L, upd_length; reflexivity|]. split.
      * intros d j Hd Hj. destruct (Nat.eq_dec d d0) as [E|NE].
        -- subst d. fold p. rewrite Hc0 in Hj. rewrite bucket_cons. fold d0. rewrite Nat.eqb_refl.
           destruct j as [|j].
           ++ rewrite Nat.add_0_r. cbn [nth]. rewrite O1.
              ** apply nth_upd_same. exact Hpb.
              ** intros d Hd' [Hlo Hhi]. destruct (Nat.eq_dec d d0) as [E|NE].
                 --- subst d. rewrite Hp0 in Hlo. lia.
                 --- rewrite (Hpo d NE) in Hlo, Hhi.
                     specialize (HD d0 d Hd0 Hd' (fun e => NE (eq_sym e))).
                     rewrite Hc0, (Hco d NE) in HD. fold p in HD. lia.
           ++ cbn [nth]. replace (p + S j) with (nth d0 (upd pos d0 (S p)) 0 + j) by (rewrite Hp0; lia).
              apply S1; [exact Hd0|lia].
        -- rewrite bucket_cons. fold d0. destruct (Nat.eqb_spec d0 d) as [E|_]; [exfalso; auto|].
           rewrite <- (Hpo d NE). apply S1; [exact Hd|]. rewrite <- (Hco d NE). exact Hj.
      * intros k Hk. rewrite O1.
        -- apply nth_upd_other. intros E. subst k. apply (Hk d0 Hd0). fold p. rewrite Hc0. lia.
        -- intros d Hd [Hlo Hhi]. apply (Hk d Hd).
           destruct (Nat.eq_dec d d0) as [E|NE]; subst.
           ++ rewrite Hp0 in Hlo, Hhi. fold p. rewrite Hc0. lia.
           ++ rewrite (Hpo d NE) in Hlo, Hhi. rewrite (Hco d NE). lia.
Qed.

(* counts, prefix sums and scatter together compute the buckets in order *)
Lemma lsd_pass_eq_spec (data : list N) : lsd_pass r shift data = lsd_pass_spec r shift data.
Proof.
  unfold lsd_pass, lsd_pass_spec. fold R.
  set (cnt := count_digits r shift data).
  assert (Hcnt : cnt = map (fun d => cntd d data) (seq 0 R)) by apply count_digits_eq.
  assert (Hcl : length cnt = R) by (rewrite Hcnt, map_length, seq_length; reflexivity).
  assert (Hcn : forall d, d < R -> nth d cnt 0 = cntd d data).
  { intros d Hd. rewrite Hcnt.
    rewrite (nth_indep _ 0 (cntd 0 data)) by (rewrite map_length, seq_length; exact Hd).
    rewrite (map_nth (fun d => cntd d data)), seq_nth by exact Hd. reflexivity. }
  assert (Hst : forall d, d < R -> nth d (prefix_sums 0 cnt) 0 = list_sum (firstn d cnt)).
  { intros d Hd. rewrite prefix_sums_nth by lia. reflexivity. }
  assert (Htot : list_sum cnt = length data).
  { rewrite (Permutation_length (buckets_perm data)). unfold lsd_pass_spec. fold R.
    rewrite flat_map_length_sum, Hcnt. reflexivity. }
  destruct (scatter_inv data (prefix_sums 0 cnt) (repeat 0%N (length data))) as (L & S1 & _).
  - rewrite prefix_sums_length. exact Hcl.
  - intros d1 d2 H1 H2 Hne. rewrite !Hst by assumption. rewrite <- !Hcn by assumption.
    rewrite <- !sum_firstn_S.
    destruct (Nat.lt_ge_cases d1 d2) as [Hlt|Hge].
    + left. apply sum_firstn_mono. lia.
    + right. apply sum_firstn_mono. lia.
  - intros d Hd. rewrite Hst by assumption. rewrite <- Hcn by assumption.
    rewrite <- sum_firstn_S, repeat_length, <- Htot. apply sum_firstn_all.
  - rewrite flat_map_concat_map. apply concat_slices.
    + intros i j Hi Hj. rewrite map_length, seq_length in Hi.
      assert (Hnth : nth i (map (fun d => bucket r shift d data) (seq 0 R)) [] = bucket r shift i data).
      { rewrite (nth_indep _ [] (bucket r shift 0 data)) by (rewrite map_length, seq_length; exact Hi).
        rewrite (map_nth (fun d => bucket r shift d data)), seq_nth by exact Hi. reflexivity. }
      rewrite Hnth in *.
      rewrite <- firstn_map, map_map.
      change (map (fun x => length (bucket r shift x data)) (seq 0 R)) with (map (fun d => cntd d data) (seq 0 R)).
      rewrite <- Hcnt, <- Hst by exact Hi.
      apply S1; [exact Hi|exact Hj].
    + rewrite L, repeat_length, map_map.
      change (map (fun x => length (bucket r shift x data)) (seq 0 R)) with (map (fun d => cntd d data) (seq 0 R)).
      rewrite <- Hcnt. symmetry. exact Htot.
Qed.
End Pass.
