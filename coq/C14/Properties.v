(* C14 property theorems.  Nothing but statements closed by `exact`, a pin, and Print Assumptions.
   The driver parses this file's output. *)
From ZV.Common Require Import Base.
From ZV.C14 Require Import Model ProofsMem ProofsCodec ProofsCrc ProofsUtf8 ProofsBits ProofsHash.
Open Scope N_scope.

Definition bytes (l : list N) : Prop := Forall (fun b => b < 256) l.

(* byte search: the W-byte vector loop + scalar tail (avx512/avx2/sse2_memchr, W = 64/32/16, and the
   (tier, len) dispatch) returns what scalar_memchr returns, for every width, haystack and needle *)
Theorem simd_memchr_is_scalar : forall W h n, simd_memchr W h n = memchr_s h n.
Proof. exact simd_memchr_correct. Qed.
Check simd_memchr_is_scalar : forall W h n, simd_memchr W h n = memchr_s h n.
Print Assumptions simd_memchr_is_scalar.

(* ... and scalar_memchr is the first index holding the needle, or None if there is none *)
Theorem memchr_is_first_index : forall h n,
  match memchr_s h n with
  | Some i => (i < length h)%nat /\ nth i h 0 = n /\ forall j, (j < i)%nat -> nth j h 0 <> n
  | None => forall j, (j < length h)%nat -> nth j h 0 <> n
  end.
Proof. exact memchr_s_spec. Qed.
Print Assumptions memchr_is_first_index.

(* compare: vector loop (first differing lane via movemask/tzcnt) + scalar tail + length rule equals
   the scalar definition exactly (same integer), for every width and all byte strings *)
Theorem simd_compare_is_scalar : forall W a b, compare_v W a b = compare_s a b.
Proof. exact compare_v_correct. Qed.
Check simd_compare_is_scalar : forall W a b, compare_v W a b = compare_s a b.
Print Assumptions simd_compare_is_scalar.

(* ... whose sign is the lexicographic order of the byte strings with bytes as unsigned numbers
   (bytes >= 0x80 included) *)
Theorem compare_sign_is_lexicographic : forall a b, Z.sgn (compare_s a b) = lex_sign a b.
Proof. exact compare_s_sign. Qed.
Print Assumptions compare_sign_is_lexicographic.


(* copy: the *_copy_small window scheme (first W-byte window, middle windows, last window overlapping at
   len - W) writes exactly the source, for every window width W <= len and any prior destination *)
Theorem copy_windows_is_copy : forall W src dst,
  (0 < W)%nat -> (W <= length src)%nat -> length dst = length src -> copy_windows W src dst = src.
Proof. exact copy_windows_correct. Qed.
Print Assumptions copy_windows_is_copy.

(* CRC32C: table-driven byte loop = bit-serial division by the Castagnoli polynomial *)
Theorem crc_table_is_polynomial : forall data init, bytes data -> crc_scalar data init = crc_bitwise data init.
Proof. exact crc_scalar_eq. Qed.
Print Assumptions crc_table_is_polynomial.

(* CRC32C: the CRC32-instruction loop (8, 4, 2, 1 byte little-endian operands) = the same definition *)
Theorem crc_hardware_is_polynomial : forall data init, bytes data -> crc_hw data init = crc_bitwise data init.
Proof. exact crc_hw_correct. Qed.
Print Assumptions crc_hardware_is_polynomial.

(* CRC32C incrementally = in one shot *)
Theorem crc_incremental : forall a b init, crc_bitwise (a ++ b) init = crc_bitwise b (crc_bitwise a init).
Proof. exact crc_incremental_bitwise. Qed.
Print Assumptions crc_incremental.

(* hex: both alphabets decode to the input; length law *)
Theorem hex_decode_encode : forall bs, bytes bs ->
  hex_decode (hex_encode bs) = Some bs /\ hex_decode (hex_encode_upper bs) = Some bs.
Proof. intros bs H. split; [exact (hex_roundtrip_lower bs H)|exact (hex_roundtrip_upper bs H)]. Qed.
Print Assumptions hex_decode_encode.

Theorem hex_lengths : forall bs cs out,
  length (hex_encode bs) = (2 * length bs)%nat /\
  (hex_decode cs = Some out -> length cs = (2 * length out)%nat).
Proof. intros bs cs out. split; [apply hex_encode_len|apply hex_decode_len]. Qed.
Print Assumptions hex_lengths.

(* Base64 (RFC 4648, padded): decoding inverts encoding; length law of calculate_encoded_len *)
Theorem b64_decode_encode : forall bs, bytes bs -> b64_decode (b64_encode bs) = Some bs.
Proof. exact b64_roundtrip. Qed.
Print Assumptions b64_decode_encode.

Theorem b64_encoded_length : forall bs, length (b64_encode bs) = ((length bs + 2) / 3 * 4)%nat.
Proof. exact b64_encode_len. Qed.
Print Assumptions b64_encoded_length.


(* UTF-8: the validation automaton (the scalar tier's verdict) accepts exactly the shortest-form
   encodings of sequences of Unicode scalar values - so overlong forms, surrogates, code points above
   U+10FFFF, stray continuation bytes and truncated sequences are all rejected, and nothing else is *)
Theorem utf8_dfa_correct : forall bs,
  utf8_valid bs = true <-> exists cs, Forall is_scalar cs /\ bs = utf8_encode cs.
Proof. exact utf8_valid_iff. Qed.
Check utf8_dfa_correct : forall bs,
  utf8_valid bs = true <-> exists cs, Forall is_scalar cs /\ bs = utf8_encode cs.
Print Assumptions utf8_dfa_correct.

(* the vector tiers (skip all-ASCII chunks of W bytes, hand the rest to the scalar validator) give the
   scalar verdict for every chunk width and every byte string *)
Theorem utf8_simd_is_scalar : forall W bs, simd_utf8_valid W bs = utf8_valid bs.
Proof. exact simd_utf8_valid_correct. Qed.
Print Assumptions utf8_simd_is_scalar.

(* character counting as implemented (bytes minus continuation bytes) counts the scalar values *)
Theorem utf8_count_is_chars : forall cs, Forall is_scalar cs -> utf8_count (utf8_encode cs) = Some (length cs).
Proof. exact utf8_count_chars. Qed.
Print Assumptions utf8_count_is_chars.

Example utf8_rejects_malformed :
  utf8_valid [192; 128] = false /\ utf8_valid [224; 159; 191] = false /\ utf8_valid [237; 160; 128] = false /\
  utf8_valid [244; 144; 128; 128] = false /\ utf8_valid [226; 130] = false /\ utf8_valid [128] = false /\
  utf8_valid (utf8_encode [0; 127; 128; 2047; 2048; 55295; 57344; 65535; 65536; 1114111]) = true /\
  Forall is_scalar [0; 127; 128; 2047; 2048; 55295; 57344; 65535; 65536; 1114111].
Proof. repeat split; try (vm_compute; reflexivity). repeat constructor; unfold is_scalar; lia. Qed.


(* select-in-word (select_bit64_software behind BitOps::select_bit64): the answer is a set bit of the word
   with exactly k set bits below it, and there is an answer whenever the word has more than k set bits *)
Theorem select_in_word_spec : forall x k r, select64 x k = Some r ->
  r < 64 /\ N.testbit x r = true /\ popcount_spec (N.to_nat r) x = k.
Proof. exact select64_spec. Qed.
Print Assumptions select_in_word_spec.

Theorem select_in_word_total : forall x k, k < popcount_spec 64 x -> exists r, select64 x k = Some r.
Proof. exact select64_some. Qed.
Print Assumptions select_in_word_total.

(* bit reversal: bit j of the result is bit 63-j of the argument; reversing twice is the identity on u64 *)
Theorem bit_reverse_spec : forall x j,
  N.testbit (reverse_bits64 x) j = if j <? 64 then N.testbit x (63 - j) else false.
Proof. exact reverse_bits64_spec. Qed.
Print Assumptions bit_reverse_spec.

Theorem bit_reverse_involutive : forall x, x < W64 -> reverse_bits64 (reverse_bits64 x) = x.
Proof. exact reverse_bits64_involutive. Qed.
Print Assumptions bit_reverse_involutive.

Example select_inhabited : select64 (2 ^ 63 + 2 ^ 5 + 1) 2 = Some 63 /\ reverse_bits64 1 = 2 ^ 63.
Proof. split; vm_compute; reflexivity. Qed.


(* hash_map string hash: the AVX2 / SSE4.2 / AVX-512 loops (m = 4 / 2 / 8 words per vector, then the scalar
   definition on the tail) return the scalar hash for every vector width, string and seed - the hash of a key
   does not depend on the CPU tier *)
Theorem string_hash_simd_is_scalar : forall m bs h, simd_hash m bs h = hash_s bs h.
Proof. exact simd_hash_correct. Qed.
Print Assumptions string_hash_simd_is_scalar.

(* hypotheses are inhabited by non-trivial values *)
Example bytes_inhabited : bytes [0; 127; 128; 255] /\ simd_memchr 16 (repeat 7 40 ++ [200]) 200 = Some 40%nat
  /\ compare_v 16 (repeat 1 17 ++ [128]) (repeat 1 17 ++ [127]) = 1%Z
  /\ crc_hw [49;50;51;52;53;54;55;56;57] 4294967295 = N.lxor 3808858755 4294967295
  /\ copy_windows 16 (seqN 1 37) (repeat 0 37) = seqN 1 37.
Proof. repeat split; try (repeat constructor; reflexivity); vm_compute; reflexivity. Qed.
