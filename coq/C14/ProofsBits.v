(* C14: select-in-word and bit reversal - the software definitions meet their specifications. *)
From ZV.Common Require Import Base.
From ZV.C14 Require Import Model.
Open Scope N_scope.

Lemma testbit_succ_div2 x j : N.testbit x (N.succ j) = N.testbit (N.div2 x) j.
Proof. rewrite N.div2_spec, N.shiftr_spec'. f_equal. lia. Qed.

(* select_bit64_software: the answer is a set bit with exactly k set bits below it *)
Lemma select_sw_spec n : forall i count x k r,
  select_sw n i count x k = Some r -> count <= k ->
  exists j, r = i + j /\ j < N.of_nat n /\ N.testbit x j = true /\
            popcount_spec (N.to_nat j) x = k - count.
Proof.
  induction n as [|n IH]; intros i count x k r H Hc; cbn [select_sw] in H; [discriminate|].
  destruct (N.odd x) eqn:Eo.
  - destruct (N.eqb_spec count k) as [->|Hne].
    + injection H as <-. exists 0.
      split; [lia|]. split; [lia|]. split; [rewrite N.bit0_odd; exact Eo|].
      cbn [N.to_nat popcount_spec]. lia.
    + apply IH in H; [|lia]. destruct H as (j & -> & Hj & Hb & Hp).
      exists (N.succ j).
      split; [lia|]. split; [lia|]. split; [rewrite testbit_succ_div2; exact Hb|].
      rewrite N2Nat.inj_succ. cbn [popcount_spec]. rewrite Eo, Hp. lia.
  - apply IH in H; [|exact Hc]. destruct H as (j & -> & Hj & Hb & Hp).
    exists (N.succ j).
    split; [lia|]. split; [lia|]. split; [rewrite testbit_succ_div2; exact Hb|].
    rewrite N2Nat.inj_succ. cbn [popcount_spec]. rewrite Eo, Hp. lia.
Qed.

Lemma select64_spec x k r : select64 x k = Some r ->
  r < 64 /\ N.testbit x r = true /\ popcount_spec (N.to_nat r) x = k.
Proof.
  unfold select64. destruct ((x =? 0) || (popcount_spec 64 x <=? k)); [discriminate|].
  intros H. apply select_sw_spec in H; [|lia].
  destruct H as (j & -> & Hj & Hb & Hp). cbn in Hj.
  rewrite N.add_0_l. split; [lia|]. split; [exact Hb|]. rewrite Hp. lia.
Qed.

(* ... and it answers whenever the k-th set bit exists *)
Lemma select_sw_some n : forall i count x k,
  count <= k -> k < count + popcount_spec n x -> exists r, select_sw n i count x k = Some r.
Proof.
  induction n as [|n IH]; intros i count x k Hc Hk; cbn [select_sw popcount_spec] in *; [exfalso; lia|].
  destruct (N.odd x).
  - destruct (N.eqb_spec count k); [eauto|]. apply IH; lia.
  - apply IH; lia.
Qed.
Lemma select64_some x k : k < popcount_spec 64 x -> exists r, select64 x k = Some r.
Proof.
  intros Hk. unfold select64.
  destruct (N.eqb_spec x 0) as [->|Hx].
  - exfalso. vm_compute in Hk. destruct k; discriminate.
  - cbn [orb]. destruct (N.leb_spec (popcount_spec 64 x) k); [exfalso; lia|].
    apply select_sw_some; lia.
Qed.

(* popcount_spec counts testbits: additive over the two halves of a word (used for sanity only) *)
Lemma popcount_spec_bound n x : popcount_spec n x <= N.of_nat n.
Proof.
  revert x; induction n as [|n IH]; intros x; cbn [popcount_spec]; [lia|].
  specialize (IH (N.div2 x)). destruct (N.odd x); lia.
Qed.

(* bit reversal: bit j of the result is bit n-1-j of the argument *)
Lemma bitrev_spec n : forall x acc j,
  N.testbit (bitrev n x acc) j =
  if j <? N.of_nat n then N.testbit x (N.of_nat n - 1 - j) else N.testbit acc (j - N.of_nat n).
Proof.
  induction n as [|n IH]; intros x acc j; cbn [bitrev].
  - cbn [N.of_nat]. destruct (N.ltb_spec j 0); [exfalso; lia|]. f_equal. lia.
  - rewrite IH. replace (N.of_nat (S n)) with (N.succ (N.of_nat n)) by lia.
    destruct (N.ltb_spec j (N.of_nat n)) as [Hj|Hj].
    + destruct (N.ltb_spec j (N.succ (N.of_nat n))); [|exfalso; lia].
      replace (N.succ (N.of_nat n) - 1 - j) with (N.succ (N.of_nat n - 1 - j)) by lia.
      symmetry. apply testbit_succ_div2.
    + destruct (N.ltb_spec j (N.succ (N.of_nat n))) as [Hj'|Hj'].
      * assert (j = N.of_nat n) by lia. subst j.
        rewrite N.sub_diag. replace (N.succ (N.of_nat n) - 1 - N.of_nat n) with 0 by lia.
        rewrite !N.bit0_odd.
        destruct (N.odd x).
        -- rewrite N.add_comm, N.odd_add_mul_2. reflexivity.
        -- rewrite N.add_comm, N.odd_add_mul_2. reflexivity.
      * replace (j - N.of_nat n) with (N.succ (j - N.succ (N.of_nat n))) by lia.
        destruct (N.odd x).
        -- rewrite N.testbit_odd_succ by lia. reflexivity.
        -- rewrite N.add_0_r, N.testbit_even_succ by lia. reflexivity.
Qed.

Lemma reverse_bits64_spec x j :
  N.testbit (reverse_bits64 x) j = if j <? 64 then N.testbit x (63 - j) else false.
Proof.
  unfold reverse_bits64. rewrite (bitrev_spec 64). change (N.of_nat 64) with 64.
  destruct (j <? 64); [f_equal; lia|apply N.bits_0].
Qed.

Lemma reverse_bits64_involutive x : x < W64 -> reverse_bits64 (reverse_bits64 x) = x.
Proof.
  intros Hx. apply N.bits_inj. intros j. rewrite reverse_bits64_spec.
  destruct (N.ltb_spec j 64) as [Hj|Hj].
  - rewrite reverse_bits64_spec. destruct (N.ltb_spec (63 - j) 64); [|exfalso; lia]. f_equal. lia.
  - symmetry. destruct (N.eq_dec x 0) as [->|Hz]; [apply N.bits_0|].
    apply N.bits_above_log2. assert (N.log2 x < 64); [|lia].
    apply N.log2_lt_pow2; [lia|]. change (2 ^ 64) with W64. exact Hx.
Qed.
