(* C14: CRC32C - the table-driven loop and the CRC32-instruction loop both compute the bit-serial
   polynomial definition; incremental law. *)
From ZV.Common Require Import Base.
From ZV.C14 Require Import Model ProofsCodec.
Open Scope N_scope.

Lemma iter_add {A} (f : A -> A) m n x : iter (m + n) f x = iter n f (iter m f x).
Proof. revert x; induction m as [|m IH]; intros x; cbn [iter plus]; [reflexivity|apply IH]. Qed.

(* ---------- GF(2)-linearity of the division step ---------- *)
Lemma odd_lxor a b : N.odd (N.lxor a b) = xorb (N.odd a) (N.odd b).
Proof. rewrite <- !N.bit0_odd. apply N.lxor_spec. Qed.
Lemma div2_lxor a b : N.div2 (N.lxor a b) = N.lxor (N.div2 a) (N.div2 b).
Proof. rewrite !N.div2_spec. apply N.shiftr_lxor. Qed.

Ltac xor_solve :=
  apply N.bits_inj; intros ?n; repeat rewrite N.lxor_spec;
  repeat match goal with |- context [N.testbit ?x ?n] => destruct (N.testbit x n) end; reflexivity.

Lemma crc_bit_linear a b : crc_bit (N.lxor a b) = N.lxor (crc_bit a) (crc_bit b).
Proof.
  unfold crc_bit. rewrite odd_lxor, div2_lxor.
  destruct (N.odd a), (N.odd b); cbn [xorb]; xor_solve.
Qed.

Lemma iter_crc_linear n : forall a b,
  iter n crc_bit (N.lxor a b) = N.lxor (iter n crc_bit a) (iter n crc_bit b).
Proof.
  induction n as [|n IH]; intros a b; cbn [iter]; [reflexivity|].
  rewrite crc_bit_linear. apply IH.
Qed.

(* k division steps on a value whose low k bits are zero just shift it *)
Lemma crc_bit_shifted h k : crc_bit (N.shiftl h (N.succ k)) = N.shiftl h k.
Proof.
  unfold crc_bit.
  replace (N.odd (N.shiftl h (N.succ k))) with false.
  - rewrite N.div2_spec. rewrite N.shiftr_shiftl_l by lia.
    f_equal. lia.
  - symmetry. rewrite <- N.bit0_odd. apply N.shiftl_spec_low. lia.
Qed.
Lemma iter_crc_shifted (k : nat) h : iter k crc_bit (N.shiftl h (N.of_nat k)) = h.
Proof.
  induction k as [|k IH]; cbn [iter].
  - apply N.shiftl_0_r.
  - replace (N.of_nat (S k)) with (N.succ (N.of_nat k)) by lia.
    rewrite crc_bit_shifted. exact IH.
Qed.

Lemma iter_crc_shifted8 h : iter 8 crc_bit (N.shiftl h 8) = h.
Proof. exact (iter_crc_shifted 8 h). Qed.

(* ---------- splitting a word into its low byte and the rest ---------- *)
Lemma split8 c : c = N.lxor (N.land c 255) (N.shiftl (N.shiftr c 8) 8).
Proof.
  apply N.bits_inj. intros n. rewrite N.lxor_spec, N.land_spec.
  change 255 with (N.ones 8).
  destruct (N.ltb_spec n 8) as [Hn|Hn].
  - rewrite N.ones_spec_low by lia. rewrite N.shiftl_spec_low by lia.
    rewrite andb_true_r, xorb_false_r. reflexivity.
  - rewrite N.ones_spec_high by lia. rewrite N.shiftl_spec_high' by lia.
    rewrite N.shiftr_spec'. rewrite andb_false_r, xorb_false_l. f_equal. lia.
Qed.

Lemma lxor_lt_pow2 a b n : a < 2 ^ n -> b < 2 ^ n -> N.lxor a b < 2 ^ n.
Proof.
  intros Ha Hb.
  destruct (N.eq_dec (N.lxor a b) 0) as [->|Hnz]; [apply pow2_pos|].
  apply N.log2_lt_pow2; [lia|].
  eapply N.le_lt_trans; [apply N.log2_lxor|].
  apply N.max_lub_lt.
  - destruct (N.eq_dec a 0) as [->|Hz]; [cbn; destruct n; [|lia]|apply N.log2_lt_pow2; lia].
    exfalso. cbn in Hb. assert (b = 0) by lia. subst. cbn in Hnz. contradiction.
  - destruct (N.eq_dec b 0) as [->|Hz]; [cbn; destruct n; [|lia]|apply N.log2_lt_pow2; lia].
    exfalso. cbn in Ha. assert (a = 0) by lia. subst. cbn in Hnz. contradiction.
Qed.

Lemma land255_lt c : N.land c 255 < 256.
Proof.
  change 255 with (N.ones 8). rewrite N.land_ones. change (2 ^ 8) with 256. lia.
Qed.

(* ---------- table = bitwise ---------- *)
Lemma crc_table_entry i : i < 256 -> nth (N.to_nat i) crc_table 0 = iter 8 crc_bit i.
Proof.
  intros Hi. apply N.eqb_eq.
  apply (finite_check (fun i => nth (N.to_nat i) crc_table 0 =? iter 8 crc_bit i) 256);
    [vm_compute; reflexivity|exact Hi].
Qed.

Lemma crc_byte_table_eq c b : b < 256 -> crc_byte_table c b = crc_byte c b.
Proof.
  intros Hb. unfold crc_byte_table, crc_byte.
  rewrite crc_table_entry by (apply (lxor_lt_pow2 _ _ 8); [apply land255_lt|exact Hb]).
  rewrite (split8 c) at 3.
  replace (N.lxor (N.lxor (N.land c 255) (N.shiftl (N.shiftr c 8) 8)) b)
    with (N.lxor (N.lxor (N.land c 255) b) (N.shiftl (N.shiftr c 8) 8)).
  - rewrite (iter_crc_linear 8 (N.lxor (N.land c 255) b) (N.shiftl (N.shiftr c 8) 8)).
    rewrite iter_crc_shifted8. apply N.lxor_comm.
  - xor_solve.
Qed.

Lemma crc_scalar_eq data : forall init,
  Forall (fun b => b < 256) data -> crc_scalar data init = crc_bitwise data init.
Proof.
  unfold crc_scalar, crc_bitwise.
  induction data as [|b t IH]; intros init Hb; cbn [fold_left]; [reflexivity|].
  inversion_clear Hb as [|? ? Hlt Ht].
  rewrite crc_byte_table_eq by exact Hlt. apply IH. exact Ht.
Qed.

Lemma crc_incremental_bitwise a b init :
  crc_bitwise (a ++ b) init = crc_bitwise b (crc_bitwise a init).
Proof. unfold crc_bitwise. apply fold_left_app. Qed.
Lemma crc_incremental_scalar a b init :
  crc_scalar (a ++ b) init = crc_scalar b (crc_scalar a init).
Proof. unfold crc_scalar. apply fold_left_app. Qed.

(* ---------- the CRC32 instruction on a little-endian word ---------- *)
Lemma byte_plus_shift b v : b < 256 -> b + 256 * v = N.lxor b (N.shiftl v 8).
Proof.
  intros Hb. rewrite N.shiftl_mul_pow2. change (2 ^ 8) with 256.
  assert (Hl : N.land b (v * 2 ^ 8) = 0) by (apply land_low_high; exact Hb).
  change (2 ^ 8) with 256 in Hl.
  rewrite (N.mul_comm 256 v).
  rewrite N.add_nocarry_lxor by exact Hl. reflexivity.
Qed.

Lemma crc_word_step k c b v :
  b < 256 -> crc_word (S k) c (b + 256 * v) = crc_word k (crc_byte c b) v.
Proof.
  intros Hb. unfold crc_word, crc_byte.
  replace (8 * S k)%nat with (8 + 8 * k)%nat by lia.
  rewrite iter_add. f_equal.
  rewrite byte_plus_shift by exact Hb.
  rewrite <- N.lxor_assoc. rewrite iter_crc_linear. rewrite iter_crc_shifted8. reflexivity.
Qed.

Lemma crc_word_bytes bs : forall c,
  Forall (fun b => b < 256) bs -> crc_word (length bs) c (le_word bs) = crc_bitwise bs c.
Proof.
  induction bs as [|b t IH]; intros c Hb; cbn [length le_word].
  - unfold crc_word, crc_bitwise. cbn [Nat.mul iter fold_left]. apply N.lxor_0_r.
  - inversion_clear Hb as [|? ? Hlt Ht].
    rewrite crc_word_step by exact Hlt. rewrite IH by exact Ht. reflexivity.
Qed.

Lemma Forall_firstn {A} (P : A -> Prop) n l : Forall P l -> Forall P (firstn n l).
Proof.
  revert l; induction n as [|n IH]; intros l H; cbn [firstn]; [constructor|].
  destruct H; constructor; auto.
Qed.
Lemma Forall_skipn {A} (P : A -> Prop) n l : Forall P l -> Forall P (skipn n l).
Proof.
  revert l; induction n as [|n IH]; intros l H; cbn [skipn]; [exact H|].
  destruct H; [constructor|auto].
Qed.

(* one hardware step over the first k bytes *)
Lemma crc_hw_step k data c :
  Forall (fun b => b < 256) data -> (k <= length data)%nat ->
  crc_bitwise (skipn k data) (crc_word k c (le_word (firstn k data))) = crc_bitwise data c.
Proof.
  intros Hb Hk.
  pose proof (crc_word_bytes (firstn k data) c (Forall_firstn _ _ _ Hb)) as Hw.
  rewrite firstn_length_le in Hw by exact Hk. rewrite Hw.
  rewrite <- crc_incremental_bitwise, firstn_skipn. reflexivity.
Qed.

Lemma crc_hw8_correct fuel : forall data c c' r,
  Forall (fun b => b < 256) data -> (length data <= fuel)%nat ->
  crc_hw8 fuel data c = (c', r) ->
  crc_bitwise r c' = crc_bitwise data c /\ (length r < 8)%nat /\ Forall (fun b => b < 256) r.
Proof.
  induction fuel as [|f IH]; intros data c c' r Hb Hf H; cbn [crc_hw8] in H.
  - injection H as <- <-. destruct data; [|cbn [length] in Hf; lia]. cbn [length]. repeat split; [lia|constructor].
  - destruct (8 <=? length data)%nat eqn:E.
    + apply Nat.leb_le in E.
      apply IH in H; [|apply Forall_skipn; exact Hb|rewrite skipn_length; lia].
      destruct H as (H1 & H2 & H3). repeat split; [|exact H2|exact H3].
      rewrite H1. apply crc_hw_step; assumption.
    + apply Nat.leb_gt in E. injection H as <- <-. repeat split; [exact E|exact Hb].
Qed.

Lemma crc_hw_correct data init :
  Forall (fun b => b < 256) data -> crc_hw data init = crc_bitwise data init.
Proof.
  intros Hb. unfold crc_hw.
  destruct (crc_hw8 (length data) data init) as [c0 r0] eqn:E0.
  apply crc_hw8_correct in E0; [|exact Hb|lia].
  destruct E0 as (H0 & Hl0 & Hb0). rewrite <- H0. clear H0 Hb data init.
  (* 4-byte step *)
  assert (S4 : exists c1 r1,
    (if (4 <=? length r0)%nat then (crc_word 4 c0 (le_word (firstn 4 r0)), skipn 4 r0) else (c0, r0)) = (c1, r1)
    /\ crc_bitwise r1 c1 = crc_bitwise r0 c0 /\ (length r1 < 4)%nat /\ Forall (fun b => b < 256) r1).
  { destruct (4 <=? length r0)%nat eqn:E.
    - apply Nat.leb_le in E. eexists _, _. split; [reflexivity|]. split; [apply crc_hw_step; assumption|].
      split; [rewrite skipn_length; lia|apply Forall_skipn; exact Hb0].
    - apply Nat.leb_gt in E. eexists _, _. split; [reflexivity|]. repeat split; assumption. }
  destruct S4 as (c1 & r1 & -> & H1 & Hl1 & Hb1). rewrite <- H1. clear H1 Hl0 Hb0 c0 r0.
  assert (S2 : exists c2 r2,
    (if (2 <=? length r1)%nat then (crc_word 2 c1 (le_word (firstn 2 r1)), skipn 2 r1) else (c1, r1)) = (c2, r2)
    /\ crc_bitwise r2 c2 = crc_bitwise r1 c1 /\ (length r2 < 2)%nat /\ Forall (fun b => b < 256) r2).
  { destruct (2 <=? length r1)%nat eqn:E.
    - apply Nat.leb_le in E. eexists _, _. split; [reflexivity|]. split; [apply crc_hw_step; assumption|].
      split; [rewrite skipn_length; lia|apply Forall_skipn; exact Hb1].
    - apply Nat.leb_gt in E. eexists _, _. split; [reflexivity|]. repeat split; assumption. }
  destruct S2 as (c2 & r2 & -> & H2 & Hl2 & Hb2). rewrite <- H2. clear H2 Hl1 Hb1 c1 r1.
  destruct r2 as [|b [|b' t]]; [reflexivity| |cbn [length] in Hl2; lia].
  inversion_clear Hb2 as [|? ? Hlt _].
  pose proof (crc_word_bytes [b] c2) as Hw. cbn [length le_word] in Hw.
  replace (b + 256 * 0) with b in Hw by lia. apply Hw. constructor; [exact Hlt|constructor].
Qed.

(* accumulators stay 32-bit words *)
Lemma crc_bit_lt c : c < W32 -> crc_bit c < W32.
Proof.
  intros Hc. unfold crc_bit.
  assert (Hd : N.div2 c < 2 ^ 32) by (rewrite N.div2_div; change (2 ^ 32) with W32; unfold W32 in *; lia).
  destruct (N.odd c); [|exact Hd].
  apply (lxor_lt_pow2 _ _ 32); [exact Hd|vm_compute; reflexivity].
Qed.
Lemma crc_byte_lt c b : c < W32 -> b < 256 -> crc_byte c b < W32.
Proof.
  intros Hc Hb. unfold crc_byte.
  assert (Hx : N.lxor c b < W32).
  { apply (lxor_lt_pow2 _ _ 32); [exact Hc|]. change (2 ^ 32) with W32. unfold W32. lia. }
  do 8 (cbn [iter]; apply crc_bit_lt in Hx). exact Hx.
Qed.
