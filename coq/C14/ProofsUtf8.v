(* C14: the UTF-8 validation automaton accepts exactly the encodings of sequences of Unicode scalar
   values (no overlongs, no surrogates, nothing above U+10FFFF, no truncation); the ASCII fast path of
   the vector tiers does not change the verdict; characters = bytes - continuation bytes. *)
From ZV.Common Require Import Base.
From ZV.C14 Require Import Model.
Open Scope N_scope.

Ltac cmp_split :=
  repeat (match goal with
          | |- context [?a <? ?b] => destruct (N.ltb_spec a b); try (exfalso; lia)
          | |- context [?a <=? ?b] => destruct (N.leb_spec a b); try (exfalso; lia)
          | |- context [?a =? ?b] => destruct (N.eqb_spec a b); try (exfalso; lia)
          end; cbn [andb orb]).

(* ---------- transitions, forward ---------- *)
Lemma st_ascii b : b < 128 -> ustep UAcc b = Some UAcc.
Proof. intros. unfold ustep, in_rng. cmp_split. reflexivity. Qed.
Lemma st_c2 b : 194 <= b <= 223 -> ustep UAcc b = Some UC1.
Proof. intros. unfold ustep, in_rng. cmp_split. reflexivity. Qed.
Lemma st_e0 : ustep UAcc 224 = Some UE0. Proof. reflexivity. Qed.
Lemma st_e1 b : 225 <= b <= 236 \/ 238 <= b <= 239 -> ustep UAcc b = Some UC2.
Proof. intros. unfold ustep, in_rng. cmp_split; reflexivity. Qed.
Lemma st_ed : ustep UAcc 237 = Some UED. Proof. reflexivity. Qed.
Lemma st_f0 : ustep UAcc 240 = Some UF0. Proof. reflexivity. Qed.
Lemma st_f1 b : 241 <= b <= 243 -> ustep UAcc b = Some UC3.
Proof. intros. unfold ustep, in_rng. cmp_split. reflexivity. Qed.
Lemma st_f4 : ustep UAcc 244 = Some UF4. Proof. reflexivity. Qed.
Lemma st_rng s lo hi s' b :
  (forall x, ustep s x = if in_rng lo hi x then Some s' else None) ->
  lo <= b <= hi -> ustep s b = Some s'.
Proof. intros Hs Hb. rewrite Hs. unfold in_rng. cmp_split. reflexivity. Qed.
Lemma st_rng_inv s lo hi s' b r :
  (forall x, ustep s x = if in_rng lo hi x then Some s' else None) ->
  ustep s b = Some r -> lo <= b <= hi /\ r = s'.
Proof.
  intros Hs H. rewrite Hs in H. unfold in_rng in H.
  destruct (N.leb_spec lo b), (N.leb_spec b hi); cbn [andb] in H; try discriminate.
  injection H as <-. split; [lia|reflexivity].
Qed.
Lemma d_c1 x : ustep UC1 x = if in_rng 128 191 x then Some UAcc else None. Proof. reflexivity. Qed.
Lemma d_c2 x : ustep UC2 x = if in_rng 128 191 x then Some UC1 else None. Proof. reflexivity. Qed.
Lemma d_c3 x : ustep UC3 x = if in_rng 128 191 x then Some UC2 else None. Proof. reflexivity. Qed.
Lemma d_e0 x : ustep UE0 x = if in_rng 160 191 x then Some UC1 else None. Proof. reflexivity. Qed.
Lemma d_ed x : ustep UED x = if in_rng 128 159 x then Some UC1 else None. Proof. reflexivity. Qed.
Lemma d_f0 x : ustep UF0 x = if in_rng 144 191 x then Some UC2 else None. Proof. reflexivity. Qed.
Lemma d_f4 x : ustep UF4 x = if in_rng 128 143 x then Some UC2 else None. Proof. reflexivity. Qed.

(* ---------- encodings of scalar values are accepted ---------- *)
Lemma run_cons s b t s' : ustep s b = Some s' -> urun s (b :: t) = urun s' t.
Proof. intros H. cbn [urun]. rewrite H. reflexivity. Qed.

Lemma enc_run c rest : is_scalar c -> urun UAcc (utf8_enc1 c ++ rest) = urun UAcc rest.
Proof.
  intros Hs. unfold is_scalar in Hs. unfold utf8_enc1.
  destruct (N.ltb_spec c 128) as [H1|H1].
  { cbn [app]. apply run_cons, st_ascii. exact H1. }
  destruct (N.ltb_spec c 2048) as [H2|H2].
  { cbn [app].
    rewrite (run_cons UAcc _ _ UC1) by (apply st_c2; lia).
    apply run_cons. apply (st_rng _ _ _ _ _ d_c1). lia. }
  destruct (N.ltb_spec c 65536) as [H3|H3].
  { cbn [app].
    assert (Hb0 : 224 <= 224 + c / 4096 <= 239) by lia.
    destruct (N.eq_dec (c / 4096) 0) as [E0|E0].
    - rewrite E0. rewrite (run_cons UAcc _ _ UE0) by exact st_e0.
      rewrite (run_cons UE0 _ _ UC1) by (apply (st_rng _ _ _ _ _ d_e0); lia).
      apply run_cons. apply (st_rng _ _ _ _ _ d_c1). lia.
    - destruct (N.eq_dec (c / 4096) 13) as [E13|E13].
      + rewrite E13. rewrite (run_cons UAcc _ _ UED) by exact st_ed.
        rewrite (run_cons UED _ _ UC1) by (apply (st_rng _ _ _ _ _ d_ed); lia).
        apply run_cons. apply (st_rng _ _ _ _ _ d_c1). lia.
      + rewrite (run_cons UAcc _ _ UC2) by (apply st_e1; lia).
        rewrite (run_cons UC2 _ _ UC1) by (apply (st_rng _ _ _ _ _ d_c2); lia).
        apply run_cons. apply (st_rng _ _ _ _ _ d_c1). lia. }
  cbn [app].
  destruct (N.eq_dec (c / 262144) 0) as [E0|E0].
  - rewrite E0. rewrite (run_cons UAcc _ _ UF0) by exact st_f0.
    rewrite (run_cons UF0 _ _ UC2) by (apply (st_rng _ _ _ _ _ d_f0); lia).
    rewrite (run_cons UC2 _ _ UC1) by (apply (st_rng _ _ _ _ _ d_c2); lia).
    apply run_cons. apply (st_rng _ _ _ _ _ d_c1). lia.
  - destruct (N.eq_dec (c / 262144) 4) as [E4|E4].
    + rewrite E4. rewrite (run_cons UAcc _ _ UF4) by exact st_f4.
      rewrite (run_cons UF4 _ _ UC2) by (apply (st_rng _ _ _ _ _ d_f4); lia).
      rewrite (run_cons UC2 _ _ UC1) by (apply (st_rng _ _ _ _ _ d_c2); lia).
      apply run_cons. apply (st_rng _ _ _ _ _ d_c1). lia.
    + rewrite (run_cons UAcc _ _ UC3) by (apply st_f1; lia).
      rewrite (run_cons UC3 _ _ UC2) by (apply (st_rng _ _ _ _ _ d_c3); lia).
      rewrite (run_cons UC2 _ _ UC1) by (apply (st_rng _ _ _ _ _ d_c2); lia).
      apply run_cons. apply (st_rng _ _ _ _ _ d_c1). lia.
Qed.

Lemma encode_accepted cs : Forall is_scalar cs -> urun UAcc (utf8_encode cs) = Some UAcc.
Proof.
  induction 1 as [|c t Hc _ IH]; [reflexivity|].
  unfold utf8_encode. cbn [flat_map]. rewrite enc_run by exact Hc. exact IH.
Qed.

(* ---------- accepted strings are encodings: inversion ---------- *)
Lemma lead_inv b s : ustep UAcc b = Some s ->
  (b < 128 /\ s = UAcc) \/ (194 <= b <= 223 /\ s = UC1) \/ (b = 224 /\ s = UE0) \/
  ((225 <= b <= 236 \/ 238 <= b <= 239) /\ s = UC2) \/ (b = 237 /\ s = UED) \/
  (b = 240 /\ s = UF0) \/ (241 <= b <= 243 /\ s = UC3) \/ (b = 244 /\ s = UF4).
Proof.
  unfold ustep, in_rng.
  destruct (N.ltb_spec b 128). { intros Hx; injection Hx as <-. left. auto. }
  destruct (N.leb_spec 194 b), (N.leb_spec b 223); cbn [andb];
    try (intros Hx; injection Hx as <-; right; left; split; [lia|reflexivity]).
  all: destruct (N.eqb_spec b 224);
    try (intros Hx; injection Hx as <-; right; right; left; split; [lia|reflexivity]).
  all: destruct (N.leb_spec 225 b), (N.leb_spec b 236); cbn [andb];
    try (intros Hx; injection Hx as <-; right; right; right; left; split; [lia|reflexivity]).
  all: destruct (N.eqb_spec b 237);
    try (intros Hx; injection Hx as <-; right; right; right; right; left; split; [lia|reflexivity]).
  all: destruct (N.leb_spec 238 b), (N.leb_spec b 239); cbn [andb];
    try (intros Hx; injection Hx as <-; right; right; right; left; split; [lia|reflexivity]).
  all: destruct (N.eqb_spec b 240);
    try (intros Hx; injection Hx as <-; right; right; right; right; right; left; split; [lia|reflexivity]).
  all: destruct (N.leb_spec 241 b), (N.leb_spec b 243); cbn [andb];
    try (intros Hx; injection Hx as <-; right; right; right; right; right; right; left; split; [lia|reflexivity]).
  all: destruct (N.eqb_spec b 244);
    try (intros Hx; injection Hx as <-; right; right; right; right; right; right; right; split; [lia|reflexivity]).
  all: try discriminate.
Qed.

Lemma run_inv s t : s <> UAcc -> urun s t = Some UAcc ->
  exists b t' s', t = b :: t' /\ ustep s b = Some s' /\ urun s' t' = Some UAcc.
Proof.
  intros Hs H. destruct t as [|b t']; cbn [urun] in H.
  - injection H as ->. contradiction.
  - destruct (ustep s b) as [s'|] eqn:E; [|discriminate]. eauto 6.
Qed.

(* shortest-form encodings reproduce the bytes *)
Lemma enc1_1 b : b < 128 -> utf8_enc1 b = [b].
Proof. intros. unfold utf8_enc1. cmp_split. reflexivity. Qed.
Lemma enc1_2 b0 b1 : 194 <= b0 <= 223 -> 128 <= b1 <= 191 ->
  utf8_enc1 ((b0 - 192) * 64 + (b1 - 128)) = [b0; b1].
Proof. intros. unfold utf8_enc1. cmp_split. repeat f_equal; lia. Qed.
Lemma enc1_3 b0 b1 b2 : 224 <= b0 <= 239 -> 128 <= b1 <= 191 -> 128 <= b2 <= 191 ->
  (b0 = 224 -> 160 <= b1) ->
  utf8_enc1 ((b0 - 224) * 4096 + (b1 - 128) * 64 + (b2 - 128)) = [b0; b1; b2].
Proof. intros. unfold utf8_enc1. cmp_split. repeat f_equal; lia. Qed.
Lemma enc1_4 b0 b1 b2 b3 : 240 <= b0 <= 244 -> 128 <= b1 <= 191 -> 128 <= b2 <= 191 -> 128 <= b3 <= 191 ->
  (b0 = 240 -> 144 <= b1) ->
  utf8_enc1 ((b0 - 240) * 262144 + (b1 - 128) * 4096 + (b2 - 128) * 64 + (b3 - 128)) = [b0; b1; b2; b3].
Proof. intros. unfold utf8_enc1. cmp_split. repeat f_equal; lia. Qed.

(* a two-byte tail: state UC1 then accept *)
Lemma tail1 t : urun UC1 t = Some UAcc ->
  exists b t', t = b :: t' /\ 128 <= b <= 191 /\ urun UAcc t' = Some UAcc.
Proof.
  intros H. apply run_inv in H; [|discriminate].
  destruct H as (b & t' & s' & -> & Hs & Hr).
  apply (st_rng_inv _ _ _ _ _ _ d_c1) in Hs. destruct Hs as [Hb ->]. eauto.
Qed.
Lemma tail_gen s lo hi t :
  s <> UAcc -> (forall x, ustep s x = if in_rng lo hi x then Some UC1 else None) ->
  urun s t = Some UAcc ->
  exists b1 b2 t', t = b1 :: b2 :: t' /\ lo <= b1 <= hi /\ 128 <= b2 <= 191 /\ urun UAcc t' = Some UAcc.
Proof.
  intros Hne Hd H. apply run_inv in H; [|exact Hne].
  destruct H as (b & t' & s' & -> & Hs & Hr).
  apply (st_rng_inv _ _ _ _ _ _ Hd) in Hs. destruct Hs as [Hb ->].
  apply tail1 in Hr. destruct Hr as (b2 & t'' & -> & Hb2 & Hr). eauto 8.
Qed.
Lemma tail_gen3 s lo hi t :
  s <> UAcc -> (forall x, ustep s x = if in_rng lo hi x then Some UC2 else None) ->
  urun s t = Some UAcc ->
  exists b1 b2 b3 t', t = b1 :: b2 :: b3 :: t' /\ lo <= b1 <= hi /\ 128 <= b2 <= 191 /\ 128 <= b3 <= 191
                      /\ urun UAcc t' = Some UAcc.
Proof.
  intros Hne Hd H. apply run_inv in H; [|exact Hne].
  destruct H as (b & t' & s' & -> & Hs & Hr).
  apply (st_rng_inv _ _ _ _ _ _ Hd) in Hs. destruct Hs as [Hb ->].
  apply (tail_gen UC2 128 191) in Hr; [|discriminate|exact d_c2].
  destruct Hr as (b2 & b3 & t'' & -> & Hb2 & Hb3 & Hr). eauto 10.
Qed.

Lemma accepted_is_encoding : forall n bs, (length bs <= n)%nat -> urun UAcc bs = Some UAcc ->
  exists cs, Forall is_scalar cs /\ bs = utf8_encode cs.
Proof.
  induction n as [|n IH]; intros bs Hn H.
  { destruct bs; [|cbn [length] in Hn; lia]. exists []. split; [constructor|reflexivity]. }
  destruct bs as [|b0 t]. { exists []. split; [constructor|reflexivity]. }
  cbn [urun] in H. destruct (ustep UAcc b0) as [s|] eqn:E; [|discriminate].
  cbn [length] in Hn.
  (* finish: given the decoded scalar c, the bytes it stands for, and the remaining accepted tail *)
  assert (Fin : forall c pre t', is_scalar c -> utf8_enc1 c = pre -> b0 :: t = pre ++ t' ->
                (length t' <= n)%nat -> urun UAcc t' = Some UAcc ->
                exists cs, Forall is_scalar cs /\ b0 :: t = utf8_encode cs).
  { intros c pre t' Hc He Hsplit Hl Hr.
    destruct (IH t' Hl Hr) as (cs & Hcs & ->).
    exists (c :: cs). split; [constructor; assumption|].
    unfold utf8_encode. cbn [flat_map]. rewrite He. exact Hsplit. }
  apply lead_inv in E.
  destruct E as [[Hb ->]|[[Hb ->]|[[Hb ->]|[[Hb ->]|[[Hb ->]|[[Hb ->]|[[Hb ->]|[Hb ->]]]]]]]].
  - (* ASCII *)
    apply (Fin b0 [b0] t); [left; lia|apply enc1_1; exact Hb|reflexivity|lia|exact H].
  - (* two bytes *)
    apply tail1 in H. destruct H as (b1 & t' & -> & Hb1 & Hr).
    apply (Fin ((b0 - 192) * 64 + (b1 - 128)) [b0; b1] t');
      [left; lia|apply enc1_2; assumption|reflexivity|cbn [length] in Hn; lia|exact Hr].
  - (* E0 *)
    apply (tail_gen UE0 160 191) in H; [|discriminate|exact d_e0].
    destruct H as (b1 & b2 & t' & -> & Hb1 & Hb2 & Hr).
    apply (Fin ((b0 - 224) * 4096 + (b1 - 128) * 64 + (b2 - 128)) [b0; b1; b2] t');
      [left; lia|apply enc1_3; lia|reflexivity|cbn [length] in Hn; lia|exact Hr].
  - (* E1..EC, EE, EF *)
    apply (tail_gen UC2 128 191) in H; [|discriminate|exact d_c2].
    destruct H as (b1 & b2 & t' & -> & Hb1 & Hb2 & Hr).
    apply (Fin ((b0 - 224) * 4096 + (b1 - 128) * 64 + (b2 - 128)) [b0; b1; b2] t');
      [unfold is_scalar; lia|apply enc1_3; lia|reflexivity|cbn [length] in Hn; lia|exact Hr].
  - (* ED: below the surrogates *)
    apply (tail_gen UED 128 159) in H; [|discriminate|exact d_ed].
    destruct H as (b1 & b2 & t' & -> & Hb1 & Hb2 & Hr).
    apply (Fin ((b0 - 224) * 4096 + (b1 - 128) * 64 + (b2 - 128)) [b0; b1; b2] t');
      [left; lia|apply enc1_3; lia|reflexivity|cbn [length] in Hn; lia|exact Hr].
  - (* F0 *)
    apply (tail_gen3 UF0 144 191) in H; [|discriminate|exact d_f0].
    destruct H as (b1 & b2 & b3 & t' & -> & Hb1 & Hb2 & Hb3 & Hr).
    apply (Fin ((b0 - 240) * 262144 + (b1 - 128) * 4096 + (b2 - 128) * 64 + (b3 - 128)) [b0; b1; b2; b3] t');
      [right; lia|apply enc1_4; lia|reflexivity|cbn [length] in Hn; lia|exact Hr].
  - (* F1..F3 *)
    apply (tail_gen3 UC3 128 191) in H; [|discriminate|exact d_c3].
    destruct H as (b1 & b2 & b3 & t' & -> & Hb1 & Hb2 & Hb3 & Hr).
    apply (Fin ((b0 - 240) * 262144 + (b1 - 128) * 4096 + (b2 - 128) * 64 + (b3 - 128)) [b0; b1; b2; b3] t');
      [right; lia|apply enc1_4; lia|reflexivity|cbn [length] in Hn; lia|exact Hr].
  - (* F4: up to U+10FFFF *)
    apply (tail_gen3 UF4 128 143) in H; [|discriminate|exact d_f4].
    destruct H as (b1 & b2 & b3 & t' & -> & Hb1 & Hb2 & Hb3 & Hr).
    apply (Fin ((b0 - 240) * 262144 + (b1 - 128) * 4096 + (b2 - 128) * 64 + (b3 - 128)) [b0; b1; b2; b3] t');
      [right; lia|apply enc1_4; lia|reflexivity|cbn [length] in Hn; lia|exact Hr].
Qed.

Lemma utf8_valid_run bs : utf8_valid bs = true <-> urun UAcc bs = Some UAcc.
Proof.
  unfold utf8_valid. destruct (urun UAcc bs) as [[]|]; split; intros H; try discriminate; reflexivity.
Qed.

Lemma utf8_valid_iff bs :
  utf8_valid bs = true <-> exists cs, Forall is_scalar cs /\ bs = utf8_encode cs.
Proof.
  rewrite utf8_valid_run. split.
  - apply (accepted_is_encoding (length bs)). lia.
  - intros (cs & Hcs & ->). apply encode_accepted. exact Hcs.
Qed.

(* ---------- the ASCII fast path ---------- *)
Lemma ascii_prefix_run l r : all_ascii l = true -> urun UAcc (l ++ r) = urun UAcc r.
Proof.
  induction l as [|b t IH]; cbn [all_ascii forallb app]; intros H; [reflexivity|].
  apply andb_true_iff in H. destruct H as [Hb Ht]. apply N.ltb_lt in Hb.
  rewrite (run_cons UAcc b _ UAcc) by (apply st_ascii; exact Hb). apply IH. exact Ht.
Qed.

Lemma utf8_valid_v_correct W fuel : forall bs, utf8_valid_v W fuel bs = utf8_valid bs.
Proof.
  induction fuel as [|f IH]; intros bs; cbn [utf8_valid_v]; [reflexivity|].
  destruct (W <=? length bs)%nat; [|reflexivity].
  destruct (all_ascii (firstn W bs)) eqn:E; [|reflexivity].
  rewrite IH. unfold utf8_valid.
  rewrite <- (firstn_skipn W bs) at 2. rewrite (ascii_prefix_run _ _ E). reflexivity.
Qed.

Lemma simd_utf8_valid_correct W bs : simd_utf8_valid W bs = utf8_valid bs.
Proof. unfold simd_utf8_valid. destruct W; [reflexivity|apply utf8_valid_v_correct]. Qed.

(* ---------- characters = bytes - continuation bytes ---------- *)
Lemma count_cont_app a b : count_cont (a ++ b) = (count_cont a + count_cont b)%nat.
Proof. unfold count_cont. rewrite filter_app, app_length. reflexivity. Qed.

Lemma filter_len_le {A} (f : A -> bool) l : (length (filter f l) <= length l)%nat.
Proof. induction l as [|x t IH]; cbn [filter length]; [lia|]. destruct (f x); cbn [length]; lia. Qed.

Lemma enc1_count c : is_scalar c ->
  (length (utf8_enc1 c) = S (count_cont (utf8_enc1 c)))%nat.
Proof.
  intros Hs. unfold is_scalar in Hs. unfold utf8_enc1, count_cont.
  destruct (N.ltb_spec c 128).
  { cbn [filter]. unfold is_cont, in_rng. cmp_split. reflexivity. }
  destruct (N.ltb_spec c 2048).
  { cbn [filter]. unfold is_cont, in_rng. cmp_split. reflexivity. }
  destruct (N.ltb_spec c 65536).
  { cbn [filter]. unfold is_cont, in_rng. cmp_split. reflexivity. }
  cbn [filter]. unfold is_cont, in_rng. cmp_split. reflexivity.
Qed.

Lemma encode_count cs : Forall is_scalar cs ->
  (length (utf8_encode cs) - count_cont (utf8_encode cs) = length cs)%nat.
Proof.
  induction 1 as [|c t Hc _ IH]; [reflexivity|].
  unfold utf8_encode in *. cbn [flat_map length].
  rewrite app_length, count_cont_app. pose proof (enc1_count c Hc).
  assert (count_cont (flat_map utf8_enc1 t) <= length (flat_map utf8_enc1 t))%nat
    by (unfold count_cont; apply filter_len_le).
  lia.
Qed.

Lemma utf8_count_chars cs : Forall is_scalar cs -> utf8_count (utf8_encode cs) = Some (length cs).
Proof.
  intros H. unfold utf8_count.
  replace (utf8_valid (utf8_encode cs)) with true
    by (symmetry; apply utf8_valid_run, encode_accepted; exact H).
  f_equal. apply encode_count. exact H.
Qed.
