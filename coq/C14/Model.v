(* C14 model: the portable scalar definitions the accelerated kernels of zipora must equal, and the
   mechanisms by which the kernels are built from them ("vector main loop + scalar tail", "ASCII
   fast path + scalar validation of the rest", "CRC32 instruction on a little-endian word", table
   driven CRC).  Bytes are N (< 256), machine words are N, lengths/indices nat.  Definitions only.

   Files restated here:
     src/memory/simd_ops.rs            scalar_memcmp / scalar_memchr / compare, the avx512/avx2/sse2
                                       memcmp/memchr loops (chunk width W = 64/32/16)
     src/io/simd_memory/copy.rs        *_copy_small: first window, middle windows, overlapping last window
     src/io/simd_validation/utf8.rs    validate_utf8_{avx512,avx2,sse42,sse2}: skip all-ASCII chunks of
                                       W bytes, validate the rest with the scalar definition
     src/string/bmi2_string_ops.rs     count_utf8_chars_bmi2_impl: len - #continuation bytes
     src/io/simd_validation/checksum.rs  get_crc32c_table, crc32c_scalar, crc32c_sse42 (8/4/2/1 byte steps)
     src/string/hex.rs                 hex_encode(_upper) / hex_decode_bytes
     src/io/simd_encoding/base64.rs, src/system/base64.rs   RFC 4648 standard alphabet with padding
     src/entropy/bit_ops.rs            popcount64_software, pdep64_software, pext64_software,
                                       select_bit64_software, x.reverse_bits() *)
From ZV.Common Require Import Base Run. (* Run: helpers of the generated case files *)
Open Scope N_scope.

(* ------------------------------------------------------------------------- *)
(* memory: compare / find byte                                                *)
(* ------------------------------------------------------------------------- *)

(* scalar_memcmp over equal-length prefixes: difference of the first differing bytes *)
Fixpoint memcmp_s (a b : list N) : Z :=
  match a, b with
  | x :: a', y :: b' => if x =? y then memcmp_s a' b' else (Z.of_N x - Z.of_N y)%Z
  | _, _ => 0%Z
  end.

(* index of the first differing lane of two chunks: movemask(cmpeq) inverted, trailing_zeros *)
Fixpoint first_diff (a b : list N) : option nat :=
  match a, b with
  | x :: a', y :: b' => if x =? y then option_map S (first_diff a' b') else Some O
  | _, _ => None
  end.

(* avx512_memcmp / avx2_memcmp / sse2_memcmp with W = 64 / 32 / 16:
   while len >= W { compare one chunk; on a difference return byte_a - byte_b; advance }
   then scalar_memcmp on the tail.  fuel bounds the loop (length a suffices). *)
Fixpoint memcmp_v (W : nat) (fuel : nat) (a b : list N) : Z :=
  match fuel with
  | O => memcmp_s a b
  | S f =>
    if (W <=? length a)%nat then
      match first_diff (firstn W a) (firstn W b) with
      | Some i => (Z.of_N (nth i a 0%N) - Z.of_N (nth i b 0%N))%Z
      | None => memcmp_v W f (skipn W a) (skipn W b)
      end
    else memcmp_s a b
  end.

(* simd_memcmp: (tier, len) dispatch - vector loop only when len >= W, W = 0 is the scalar tier *)
Definition simd_memcmp (W : nat) (a b : list N) : Z :=
  match W with
  | O => memcmp_s a b
  | _ => if (W <=? length a)%nat then memcmp_v W (length a) a b else memcmp_s a b
  end.

(* SimdMemOps::compare: common prefix first, then the lengths decide *)
Definition compare_with (cmp : list N -> list N -> Z) (a b : list N) : Z :=
  let la := length a in let lb := length b in
  if (la <? lb)%nat then
    let r := cmp a (firstn la b) in if (r =? 0)%Z then (-1)%Z else r
  else if (lb <? la)%nat then
    let r := cmp (firstn lb a) b in if (r =? 0)%Z then 1%Z else r
  else cmp a b.
Definition compare_s := compare_with memcmp_s.
Definition compare_v (W : nat) := compare_with (simd_memcmp W).

(* lexicographic order on byte strings as a sign: the specification of compare *)
Fixpoint lex_sign (a b : list N) : Z :=
  match a, b with
  | [], [] => 0%Z
  | [], _ :: _ => (-1)%Z
  | _ :: _, [] => 1%Z
  | x :: a', y :: b' => if x <? y then (-1)%Z else if y <? x then 1%Z else lex_sign a' b'
  end.

(* scalar_memchr *)
Fixpoint memchr_s (h : list N) (n : N) : option nat :=
  match h with
  | [] => None
  | x :: t => if x =? n then Some O else option_map S (memchr_s t n)
  end.

Definition opt_add (k : nat) (o : option nat) : option nat := option_map (fun i => (k + i)%nat) o.

(* avx512_memchr / avx2_memchr / sse2_memchr: per chunk movemask(cmpeq) != 0 -> offset + tzcnt *)
Fixpoint memchr_v (W : nat) (fuel : nat) (off : nat) (h : list N) (n : N) : option nat :=
  match fuel with
  | O => opt_add off (memchr_s h n)
  | S f =>
    if (W <=? length h)%nat then
      match memchr_s (firstn W h) n with
      | Some i => Some (off + i)%nat
      | None => memchr_v W f (off + W)%nat (skipn W h) n
      end
    else opt_add off (memchr_s h n)
  end.
Definition simd_memchr (W : nat) (h : list N) (n : N) : option nat :=
  match W with
  | O => memchr_s h n
  | _ => if (W <=? length h)%nat then memchr_v W (length h) 0 h n else memchr_s h n
  end.

(* substring and character-set search: first index satisfying the list predicate *)
Fixpoint is_prefix (p l : list N) : bool :=
  match p, l with
  | [], _ => true
  | x :: p', y :: l' => (x =? y) && is_prefix p' l'
  | _ :: _, [] => false
  end.
Fixpoint find_sub (h needle : list N) : option nat :=
  if is_prefix needle h then Some O else
  match h with
  | [] => None
  | _ :: t => option_map S (find_sub t needle)
  end.
Fixpoint mem_n (x : N) (s : list N) : bool :=
  match s with [] => false | y :: t => (x =? y) || mem_n x t end.
Fixpoint find_any (h set : list N) : option nat :=
  match h with
  | [] => None
  | x :: t => if mem_n x set then Some O else option_map S (find_any t set)
  end.

(* ------------------------------------------------------------------------- *)
(* copy: *_copy_small window scheme (first window, middle windows, overlapping last window) *)
(* ------------------------------------------------------------------------- *)

(* write `w` into `dst` at offset `off` (dst long enough) *)
Definition write_at (dst : list N) (off : nat) (w : list N) : list N :=
  firstn off dst ++ w ++ skipn (off + length w) dst.
Definition window (src : list N) (off W : nat) : list N := firstn W (skipn off src).

(* let mut offset = W; while offset < len.saturating_sub(W) { copy window; offset += W } *)
Fixpoint copy_middle (W : nat) (fuel : nat) (off : nat) (src dst : list N) : list N :=
  match fuel with
  | O => dst
  | S f =>
    if (off <? length src - W)%nat
    then copy_middle W f (off + W)%nat src (write_at dst off (window src off W))
    else dst
  end.
(* len >= W: first window; middle; if len > W the last window at len - W *)
Definition copy_windows (W : nat) (src dst : list N) : list N :=
  let len := length src in
  let d1 := write_at dst 0 (window src 0 W) in
  let d2 := copy_middle W len W src d1 in
  if (W <? len)%nat then write_at d2 (len - W) (window src (len - W) W) else d2.

(* ------------------------------------------------------------------------- *)
(* UTF-8                                                                      *)
(* ------------------------------------------------------------------------- *)

(* Scalar values and their shortest-form encoding (Unicode 3.9, D92) *)
Definition is_scalar (c : N) : Prop := c < 55296 \/ (57344 <= c /\ c < 1114112).
Definition is_scalarb (c : N) : bool := (c <? 55296) || ((57344 <=? c) && (c <? 1114112)).
Definition utf8_enc1 (c : N) : list N :=
  if c <? 128 then [c]
  else if c <? 2048 then [192 + c / 64; 128 + c mod 64]
  else if c <? 65536 then [224 + c / 4096; 128 + (c / 64) mod 64; 128 + c mod 64]
  else [240 + c / 262144; 128 + (c / 4096) mod 64; 128 + (c / 64) mod 64; 128 + c mod 64].
Definition utf8_encode (cs : list N) : list N := flat_map utf8_enc1 cs.

(* The validation automaton (what std::str::from_utf8, the scalar tier, accepts): state = what the
   next byte must be. *)
Inductive ustate := UAcc | UC1 | UC2 | UC3 | UE0 | UED | UF0 | UF4.
Definition in_rng (lo hi b : N) : bool := (lo <=? b) && (b <=? hi).
Definition ustep (s : ustate) (b : N) : option ustate :=
  match s with
  | UAcc =>
    if b <? 128 then Some UAcc
    else if in_rng 194 223 b then Some UC1
    else if b =? 224 then Some UE0
    else if in_rng 225 236 b then Some UC2
    else if b =? 237 then Some UED
    else if in_rng 238 239 b then Some UC2
    else if b =? 240 then Some UF0
    else if in_rng 241 243 b then Some UC3
    else if b =? 244 then Some UF4
    else None
  | UC1 => if in_rng 128 191 b then Some UAcc else None
  | UC2 => if in_rng 128 191 b then Some UC1 else None
  | UC3 => if in_rng 128 191 b then Some UC2 else None
  | UE0 => if in_rng 160 191 b then Some UC1 else None
  | UED => if in_rng 128 159 b then Some UC1 else None
  | UF0 => if in_rng 144 191 b then Some UC2 else None
  | UF4 => if in_rng 128 143 b then Some UC2 else None
  end.
Fixpoint urun (s : ustate) (bs : list N) : option ustate :=
  match bs with
  | [] => Some s
  | b :: t => match ustep s b with Some s' => urun s' t | None => None end
  end.
Definition utf8_valid (bs : list N) : bool :=
  match urun UAcc bs with Some UAcc => true | _ => false end.

(* validate_utf8_{avx512,avx2,sse42,sse2}: while pos + W <= len, an all-ASCII chunk is skipped; the
   first chunk with a high bit hands data[pos..] to the scalar validator; so does the tail *)
Definition all_ascii (l : list N) : bool := forallb (fun b => b <? 128) l.
Fixpoint utf8_valid_v (W : nat) (fuel : nat) (bs : list N) : bool :=
  match fuel with
  | O => utf8_valid bs
  | S f =>
    if (W <=? length bs)%nat then
      if all_ascii (firstn W bs) then utf8_valid_v W f (skipn W bs) else utf8_valid bs
    else utf8_valid bs
  end.
Definition simd_utf8_valid (W : nat) (bs : list N) : bool :=
  match W with O => utf8_valid bs | _ => utf8_valid_v W (length bs) bs end.

(* count_utf8_chars_bmi2_impl: validate, then len - #(b & 0xC0 == 0x80) *)
Definition is_cont (b : N) : bool := in_rng 128 191 b.
Definition count_cont (bs : list N) : nat := length (filter is_cont bs).
Definition utf8_count (bs : list N) : option nat :=
  if utf8_valid bs then Some (length bs - count_cont bs)%nat else None.

(* ------------------------------------------------------------------------- *)
(* CRC32C                                                                     *)
(* ------------------------------------------------------------------------- *)

Definition CRC32C_POLY : N := 2197175160. (* 0x82f63b78, reflected Castagnoli polynomial *)
(* one step of the reflected bit-serial division *)
Definition crc_bit (c : N) : N :=
  if N.odd c then N.lxor (N.div2 c) CRC32C_POLY else N.div2 c.
Fixpoint iter {A} (n : nat) (f : A -> A) (x : A) : A :=
  match n with O => x | S k => iter k f (f x) end.

(* the polynomial definition: xor the byte into the low bits, 8 division steps *)
Definition crc_byte (c b : N) : N := iter 8 crc_bit (N.lxor c b).
Definition crc_bitwise (data : list N) (init : N) : N := fold_left crc_byte data init.

(* get_crc32c_table + crc32c_scalar *)
Fixpoint seqN (start : N) (n : nat) : list N :=
  match n with O => [] | S k => start :: seqN (start + 1) k end.
Definition crc_table : list N := Eval vm_compute in map (iter 8 crc_bit) (seqN 0 256).
Definition crc_byte_table (c b : N) : N :=
  N.lxor (N.shiftr c 8) (nth (N.to_nat (N.lxor (N.land c 255) b)) crc_table 0).
Definition crc_scalar (data : list N) (init : N) : N := fold_left crc_byte_table data init.

(* CRC32 r32, r/m{8,16,32,64} (the _mm_crc32_u{8,16,32,64} intrinsics): the operand is xored into the
   low bits of the accumulator and 8k division steps follow *)
Definition crc_word (k : nat) (c v : N) : N := iter (8 * k) crc_bit (N.lxor c v).
(* ptr.cast::<uN>().read_unaligned() on x86: little endian *)
Fixpoint le_word (bs : list N) : N :=
  match bs with [] => 0 | b :: t => b + 256 * le_word t end.
(* crc32c_sse42: while remaining >= 8 {u64}; if >= 4 {u32}; if >= 2 {u16}; if == 1 {u8} *)
Fixpoint crc_hw8 (fuel : nat) (data : list N) (c : N) : N * list N :=
  match fuel with
  | O => (c, data)
  | S f => if (8 <=? length data)%nat
           then crc_hw8 f (skipn 8 data) (crc_word 8 c (le_word (firstn 8 data)))
           else (c, data)
  end.
Definition crc_hw (data : list N) (init : N) : N :=
  let '(c, r) := crc_hw8 (length data) data init in
  let '(c, r) := if (4 <=? length r)%nat then (crc_word 4 c (le_word (firstn 4 r)), skipn 4 r) else (c, r) in
  let '(c, r) := if (2 <=? length r)%nat then (crc_word 2 c (le_word (firstn 2 r)), skipn 2 r) else (c, r) in
  match r with [b] => crc_word 1 c b | _ => c end.

Definition crc32c_hash_m (data : list N) : N := N.lxor (crc_scalar data 4294967295) 4294967295.

(* ------------------------------------------------------------------------- *)
(* hex                                                                        *)
(* ------------------------------------------------------------------------- *)

Definition hex_lower : list N := [48;49;50;51;52;53;54;55;56;57;97;98;99;100;101;102].
Definition hex_upper : list N := [48;49;50;51;52;53;54;55;56;57;65;66;67;68;69;70].
Definition nibble_hex (tbl : list N) (v : N) : N := nth (N.to_nat v) tbl 0.
Fixpoint hex_encode_with (tbl : list N) (bs : list N) : list N :=
  match bs with
  | [] => []
  | b :: t => nibble_hex tbl (b / 16) :: nibble_hex tbl (b mod 16) :: hex_encode_with tbl t
  end.
Definition hex_encode := hex_encode_with hex_lower.
Definition hex_encode_upper := hex_encode_with hex_upper.
(* hex_char_to_nibble *)
Definition hex_nibble (c : N) : option N :=
  if in_rng 48 57 c then Some (c - 48)
  else if in_rng 97 102 c then Some (c - 97 + 10)
  else if in_rng 65 70 c then Some (c - 65 + 10)
  else None.
(* hex_decode_bytes: odd length is an error; any non-hex character is an error *)
Fixpoint hex_decode (cs : list N) : option (list N) :=
  match cs with
  | [] => Some []
  | [_] => None
  | h :: l :: t =>
    match hex_nibble h, hex_nibble l, hex_decode t with
    | Some hv, Some lv, Some r => Some (hv * 16 + lv :: r)
    | _, _, _ => None
    end
  end.

(* ------------------------------------------------------------------------- *)
(* Base64 (RFC 4648 section 4, with padding; canonical decoding)             *)
(* ------------------------------------------------------------------------- *)

Definition b64_alphabet : list N :=
  [65;66;67;68;69;70;71;72;73;74;75;76;77;78;79;80;81;82;83;84;85;86;87;88;89;90;
   97;98;99;100;101;102;103;104;105;106;107;108;109;110;111;112;113;114;115;116;117;118;119;120;121;122;
   48;49;50;51;52;53;54;55;56;57;43;47].
Definition b64_sym (v : N) : N := nth (N.to_nat v) b64_alphabet 0.
Definition b64_pad : N := 61.
Fixpoint b64_encode (bs : list N) : list N :=
  match bs with
  | [] => []
  | [a] => [b64_sym (a / 4); b64_sym ((a mod 4) * 16); b64_pad; b64_pad]
  | [a; b] => [b64_sym (a / 4); b64_sym ((a mod 4) * 16 + b / 16); b64_sym ((b mod 16) * 4); b64_pad]
  | a :: b :: c :: t =>
    b64_sym (a / 4) :: b64_sym ((a mod 4) * 16 + b / 16) :: b64_sym ((b mod 16) * 4 + c / 64)
      :: b64_sym (c mod 64) :: b64_encode t
  end.
Definition b64_val (c : N) : option N :=
  if in_rng 65 90 c then Some (c - 65)
  else if in_rng 97 122 c then Some (c - 97 + 26)
  else if in_rng 48 57 c then Some (c - 48 + 52)
  else if c =? 43 then Some 62
  else if c =? 47 then Some 63
  else None.
(* strict decoding: groups of four; padding only in the last group; unused trailing bits zero *)
Fixpoint b64_decode (cs : list N) : option (list N) :=
  match cs with
  | [] => Some []
  | c0 :: c1 :: c2 :: c3 :: t =>
    match b64_val c0, b64_val c1 with
    | Some v0, Some v1 =>
      match t with
      | [] =>
        if (c2 =? b64_pad) && (c3 =? b64_pad) then
          if v1 mod 16 =? 0 then Some [v0 * 4 + v1 / 16] else None
        else match b64_val c2 with
             | Some v2 =>
               if c3 =? b64_pad then
                 if v2 mod 4 =? 0 then Some [v0 * 4 + v1 / 16; (v1 mod 16) * 16 + v2 / 4] else None
               else match b64_val c3 with
                    | Some v3 => Some [v0 * 4 + v1 / 16; (v1 mod 16) * 16 + v2 / 4; (v2 mod 4) * 64 + v3]
                    | None => None
                    end
             | None => None
             end
      | _ =>
        match b64_val c2, b64_val c3, b64_decode t with
        | Some v2, Some v3, Some r =>
          Some (v0 * 4 + v1 / 16 :: (v1 mod 16) * 16 + v2 / 4 :: (v2 mod 4) * 64 + v3 :: r)
        | _, _, _ => None
        end
      end
    | _, _ => None
    end
  | _ => None
  end.

(* ------------------------------------------------------------------------- *)
(* bit helpers                                                                *)
(* ------------------------------------------------------------------------- *)

(* specification: number of set bits among the low n bits *)
Fixpoint popcount_spec (n : nat) (x : N) : N :=
  match n with O => 0 | S k => (if N.odd x then 1 else 0) + popcount_spec k (N.div2 x) end.

(* popcount64_software: the SWAR reduction as written, with 64-bit wrap-around *)
Definition popcount64_sw (x : N) : N :=
  let x1 := (x + W64 - N.land (N.shiftr x 1) 6148914691236517205) mod W64 in
  let x2 := N.land x1 3689348814741910323 + N.land (N.shiftr x1 2) 3689348814741910323 in
  let x3 := N.land ((x2 + N.shiftr x2 4) mod W64) 1085102592571150095 in
  N.shiftr ((x3 * 72340172838076673) mod W64) 56.

(* select_bit64_software: position of the k-th (0-based) set bit, scanning from bit 0 *)
Fixpoint select_sw (n : nat) (i : N) (count : N) (x : N) (k : N) : option N :=
  match n with
  | O => None
  | S m =>
    if N.odd x then
      if count =? k then Some i else select_sw m (i + 1) (count + 1) (N.div2 x) k
    else select_sw m (i + 1) count (N.div2 x) k
  end.
Definition select64 (x k : N) : option N :=
  if (x =? 0) || (popcount_spec 64 x <=? k) then None else select_sw 64 0 0 x k.

(* pdep64_software: while mask != 0 { if source & 1 {result |= lowest set bit of mask};
   source >>= 1; mask &= mask - 1 } *)
Definition lowbit (m : N) : N := N.land m ((W64 - m) mod W64).   (* mask & (!mask + 1) *)
Fixpoint pdep_sw (fuel : nat) (src mask res : N) : N :=
  match fuel with
  | O => res
  | S f =>
    if mask =? 0 then res
    else pdep_sw f (N.div2 src) (N.land mask (mask - 1))
                 (if N.odd src then N.lor res (lowbit mask) else res)
  end.
Definition pdep64 (src mask : N) : N := pdep_sw 64 src mask 0.
(* pext64_software *)
Fixpoint pext_sw (fuel : nat) (src mask res : N) (bit_idx : N) : N :=
  match fuel with
  | O => res
  | S f =>
    if mask =? 0 then res
    else pext_sw f src (N.land mask (mask - 1))
                 (if N.land src (lowbit mask) =? 0 then res else N.lor res (N.shiftl 1 bit_idx))
                 (bit_idx + 1)
  end.
Definition pext64 (src mask : N) : N := pext_sw 64 src mask 0 0.

(* x.reverse_bits() on n bits *)
Fixpoint bitrev (n : nat) (x acc : N) : N :=
  match n with O => acc | S k => bitrev k (N.div2 x) (2 * acc + (if N.odd x then 1 else 0)) end.
Definition reverse_bits64 (x : N) : N := bitrev 64 x 0.
Definition reverse_bits32 (x : N) : N := bitrev 32 x 0.

(* histogram: occurrences of each byte value *)
Definition histogram (data : list N) : list N :=
  map (fun v => N.of_nat (length (filter (N.eqb v) data))) (seqN 0 256).


(* ------------------------------------------------------------------------- *)
(* string hash of hash_map::SimdStringOps (src/hash_map/simd_string_ops.rs)   *)
(* ------------------------------------------------------------------------- *)

(* hash.rotate_left(5).wrapping_add(v) on u64 *)
Definition rotl5 (h : N) : N := (h * 32) mod W64 + h / 576460752303423488.
Definition hmix (h v : N) : N := (rotl5 h + v) mod W64.
(* m little-endian 8-byte words from the front of bs *)
Fixpoint hash_words (m : nat) (bs : list N) (h : N) : N :=
  match m with
  | O => h
  | S k => hash_words k (skipn 8 bs) (hmix h (le_word (firstn 8 bs)))
  end.
(* scalar_string_hash: all whole 8-byte words, then the remaining bytes one at a time *)
Definition hash_s (bs : list N) (h : N) : N :=
  let m := (length bs / 8)%nat in
  fold_left hmix (skipn (8 * m) bs) (hash_words m bs h).
(* avx2 / sse4.2 / avx512_string_hash: vectors of m = 4 / 2 / 8 words while a whole vector remains,
   then the scalar definition on the tail *)
Fixpoint hash_v (m : nat) (fuel : nat) (bs : list N) (h : N) : N :=
  match fuel with
  | O => hash_s bs h
  | S f => if (8 * m <=? length bs)%nat
           then hash_v m f (skipn (8 * m) bs) (hash_words m bs h)
           else hash_s bs h
  end.
Definition simd_hash (m : nat) (bs : list N) (h : N) : N :=
  match m with O => hash_s bs h | _ => hash_v m (length bs) bs h end.

(* ------------------------------------------------------------------------- *)
(* dispatcher for harness-generated cases                                     *)
(* ------------------------------------------------------------------------- *)

Definition zl_of_opt_nat (o : option nat) : list Z :=
  match o with Some i => [Z.of_nat i] | None => [(-1)%Z] end.
Definition zl_of_opt_N (o : option N) : list Z :=
  match o with Some i => [Z.of_N i] | None => [(-1)%Z] end.
Definition zl_of_bytes (l : list N) : list Z := map Z.of_N l.
Definition zl_of_bool (b : bool) : list Z := [if b then 1%Z else 0%Z].
Definition width_of (k : N) : nat := N.to_nat k.

(* op, a, b, k -> observation (None = the implementation must report an error) *)
Definition run_case (op : N) (a b : list N) (k : N) : option (list Z) :=
  match op with
  | 0 => Some [Z.sgn (compare_v (width_of k) a b)]             (* SimdMemOps::compare, sign *)
  | 1 => Some (zl_of_opt_nat (simd_memchr (width_of k) a (nth 0 b 0)))
  | 2 => Some (zl_of_bool (simd_utf8_valid (width_of k) a))
  | 3 => option_map (fun n => [Z.of_nat n]) (utf8_count a)
  | 4 => Some [Z.of_N (crc_hw a k)]                            (* crc32c(data, init) hardware path *)
  | 5 => Some [Z.of_N (crc_scalar a k)]                        (* table path *)
  | 6 => Some (zl_of_bytes (hex_encode a))
  | 7 => Some (zl_of_bytes (hex_encode_upper a))
  | 8 => option_map zl_of_bytes (hex_decode a)
  | 9 => Some (zl_of_bytes (b64_encode a))
  | 10 => option_map zl_of_bytes (b64_decode a)
  | 11 => Some [Z.of_N (popcount64_sw k)]
  | 12 => Some (zl_of_opt_N (select64 k (nth 0 a 0)))
  | 13 => Some [Z.of_N (pdep64 k (le_word a))]                 (* source k, mask = le_word a *)
  | 14 => Some [Z.of_N (pext64 k (le_word a))]
  | 15 => Some [Z.of_N (reverse_bits64 k)]
  | 16 => Some (zl_of_opt_nat (find_sub a b))
  | 17 => Some (zl_of_opt_nat (find_any a b))
  | 18 => Some [lex_sign a b]
  | 19 => Some (zl_of_bytes (copy_windows (width_of k) a (repeat 0 (length a))))
  | 20 => Some (zl_of_bytes (histogram a))
  | 21 => Some [Z.of_N (simd_hash (N.to_nat (nth 0 b 0)) a k)]   (* fast_string_hash, b = [words per vector] *)
  | _ => None
  end.
