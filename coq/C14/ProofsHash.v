(* C14: the vector tiers of fast_string_hash compute the scalar definition, for every vector width. *)
From ZV.Common Require Import Base.
From ZV.C14 Require Import Model.
Open Scope N_scope.

Lemma skipn_skipn {A} a b (l : list A) : skipn a (skipn b l) = skipn (b + a) l.
Proof.
  revert l; induction b as [|b IH]; intros l; cbn [skipn plus]; [reflexivity|].
  destruct l; [destruct a; reflexivity|apply IH].
Qed.

Lemma hash_words_add m k : forall bs h,
  hash_words (m + k) bs h = hash_words k (skipn (8 * m) bs) (hash_words m bs h).
Proof.
  induction m as [|m IH]; intros bs h; cbn [hash_words plus].
  - reflexivity.
  - rewrite IH. rewrite skipn_skipn. do 2 f_equal. lia.
Qed.

(* peeling one vector of m words off the front does not change the scalar hash *)
Lemma hash_s_peel m bs h : (8 * m <= length bs)%nat ->
  hash_s bs h = hash_s (skipn (8 * m) bs) (hash_words m bs h).
Proof.
  intros Hl. unfold hash_s. rewrite skipn_length.
  assert (Hd : (length bs / 8 = m + (length bs - 8 * m) / 8)%nat).
  { replace (length bs) with ((length bs - 8 * m) + m * 8)%nat at 1 by lia.
    rewrite Nat.div_add by lia. lia. }
  rewrite Hd. rewrite hash_words_add. rewrite skipn_skipn. do 2 f_equal. lia.
Qed.

Lemma hash_v_correct m fuel : forall bs h, (0 < m)%nat -> hash_v m fuel bs h = hash_s bs h.
Proof.
  induction fuel as [|f IH]; intros bs h Hm; cbn [hash_v]; [reflexivity|].
  destruct (8 * m <=? length bs)%nat eqn:E; [|reflexivity].
  apply Nat.leb_le in E. rewrite IH by exact Hm. symmetry. apply hash_s_peel. exact E.
Qed.

Lemma simd_hash_correct m bs h : simd_hash m bs h = hash_s bs h.
Proof. unfold simd_hash. destruct m; [reflexivity|]. apply hash_v_correct. lia. Qed.
