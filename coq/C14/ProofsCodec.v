(* C14: hex and Base64 - decode (encode x) = x and the length laws. *)
From ZV.Common Require Import Base.
From ZV.C14 Require Import Model.
Open Scope N_scope.

Lemma In_seqN v : forall n start, start <= v -> v < start + N.of_nat n -> In v (seqN start n).
Proof.
  induction n as [|n IH]; intros start Hlo Hhi; cbn [seqN].
  - exfalso; lia.
  - destruct (N.eq_dec start v) as [->|Hne]; [left; reflexivity|].
    right. apply IH; lia.
Qed.

(* a boolean fact checked on 0..n-1 holds for every v < n *)
Lemma finite_check (P : N -> bool) (n : nat) :
  forallb P (seqN 0 n) = true -> forall v, v < N.of_nat n -> P v = true.
Proof.
  intros H v Hv. rewrite forallb_forall in H. apply H. apply In_seqN; lia.
Qed.

Definition opt_eqb (o : option N) (v : N) : bool := match o with Some x => x =? v | None => false end.
Lemma opt_eqb_eq o v : opt_eqb o v = true -> o = Some v.
Proof. destruct o; cbn; [intros H; apply N.eqb_eq in H; subst; reflexivity|discriminate]. Qed.

(* ---------- hex ---------- *)
Lemma hex_nibble_lower v : v < 16 -> hex_nibble (nibble_hex hex_lower v) = Some v.
Proof.
  intros Hv. apply opt_eqb_eq.
  apply (finite_check (fun v => opt_eqb (hex_nibble (nibble_hex hex_lower v)) v) 16); [vm_compute; reflexivity|exact Hv].
Qed.
Lemma hex_nibble_upper v : v < 16 -> hex_nibble (nibble_hex hex_upper v) = Some v.
Proof.
  intros Hv. apply opt_eqb_eq.
  apply (finite_check (fun v => opt_eqb (hex_nibble (nibble_hex hex_upper v)) v) 16); [vm_compute; reflexivity|exact Hv].
Qed.

Lemma hex_roundtrip_with tbl :
  (forall v, v < 16 -> hex_nibble (nibble_hex tbl v) = Some v) ->
  forall bs, Forall (fun b => b < 256) bs -> hex_decode (hex_encode_with tbl bs) = Some bs.
Proof.
  intros Ht bs Hb. induction Hb as [|b t Hlt _ IH]; cbn [hex_encode_with hex_decode]; [reflexivity|].
  rewrite !Ht by lia. rewrite IH. f_equal. f_equal. lia.
Qed.

Lemma hex_roundtrip_lower bs : Forall (fun b => b < 256) bs -> hex_decode (hex_encode bs) = Some bs.
Proof. apply hex_roundtrip_with. exact hex_nibble_lower. Qed.
Lemma hex_roundtrip_upper bs : Forall (fun b => b < 256) bs -> hex_decode (hex_encode_upper bs) = Some bs.
Proof. apply hex_roundtrip_with. exact hex_nibble_upper. Qed.

Lemma hex_encode_len tbl bs : length (hex_encode_with tbl bs) = (2 * length bs)%nat.
Proof. induction bs as [|b t IH]; cbn [hex_encode_with length]; lia. Qed.

(* decoding is defined exactly on even-length strings of hex digits, and is length-halving *)
Lemma hex_decode_len cs bs : hex_decode cs = Some bs -> length cs = (2 * length bs)%nat.
Proof.
  revert bs. remember (length cs) as n eqn:Hn. revert cs Hn.
  induction n as [n IH] using lt_wf_ind. intros cs Hn bs H.
  destruct cs as [|h [|l t]]; cbn [hex_decode] in H.
  - injection H as <-. subst n. reflexivity.
  - discriminate.
  - destruct (hex_nibble h), (hex_nibble l); try discriminate.
    destruct (hex_decode t) as [r|] eqn:Er; [|discriminate].
    injection H as <-. subst n. cbn [length].
    rewrite (IH (length t)) with (cs := t) (bs := r); [lia|cbn [length]; lia|reflexivity|exact Er].
Qed.

(* ---------- Base64 ---------- *)
Lemma b64_val_sym v : v < 64 -> b64_val (b64_sym v) = Some v.
Proof.
  intros Hv. apply opt_eqb_eq.
  apply (finite_check (fun v => opt_eqb (b64_val (b64_sym v)) v) 64); [vm_compute; reflexivity|exact Hv].
Qed.
Lemma b64_sym_not_pad v : v < 64 -> (b64_sym v =? b64_pad) = false.
Proof.
  intros Hv.
  apply (finite_check (fun v => negb (b64_sym v =? b64_pad)) 64) in Hv; [|vm_compute; reflexivity].
  apply negb_true_iff in Hv. exact Hv.
Qed.

Lemma b64_encode_nonnil bs : bs <> [] -> exists x r, b64_encode bs = x :: r.
Proof.
  destruct bs as [|a [|b [|c t]]]; intros H; [contradiction| | |]; cbn [b64_encode]; eauto.
Qed.

Lemma b64_roundtrip_n : forall n bs, (length bs <= n)%nat ->
  Forall (fun b => b < 256) bs -> b64_decode (b64_encode bs) = Some bs.
Proof.
  induction n as [|n IH]; intros bs Hn Hb.
  - destruct bs; [reflexivity|cbn [length] in Hn; lia].
  - destruct bs as [|a [|b [|c t]]].
    + reflexivity.
    + inversion_clear Hb as [|? ? Ha _].
      cbn [b64_encode b64_decode].
      rewrite !b64_val_sym by lia. rewrite !N.eqb_refl. cbn [andb].
      replace (((a mod 4) * 16) mod 16 =? 0) with true by (symmetry; apply N.eqb_eq; lia).
      f_equal. f_equal. lia.
    + inversion_clear Hb as [|? ? Ha Hb']. inversion_clear Hb' as [|? ? Hb2 _].
      cbn [b64_encode b64_decode].
      rewrite !b64_val_sym by lia.
      rewrite (b64_sym_not_pad ((b mod 16) * 4)) by lia. cbn [andb].
      rewrite N.eqb_refl.
      replace (((b mod 16) * 4) mod 4 =? 0) with true by (symmetry; apply N.eqb_eq; lia).
      f_equal. f_equal; [lia|]. f_equal. lia.
    + inversion_clear Hb as [|? ? Ha Hb']. inversion_clear Hb' as [|? ? Hb2 Hb3].
      inversion_clear Hb3 as [|? ? Hc Ht].
      assert (E1 : (a / 4) * 4 + ((a mod 4) * 16 + b / 16) / 16 = a) by lia.
      assert (E2 : (((a mod 4) * 16 + b / 16) mod 16) * 16 + ((b mod 16) * 4 + c / 64) / 4 = b) by lia.
      assert (E3 : (((b mod 16) * 4 + c / 64) mod 4) * 64 + c mod 64 = c) by lia.
      destruct t as [|d t'].
      * cbn [b64_encode b64_decode].
        rewrite !b64_val_sym by lia.
        rewrite (b64_sym_not_pad ((b mod 16) * 4 + c / 64)) by lia. cbn [andb].
        rewrite (b64_sym_not_pad (c mod 64)) by lia.
        rewrite E1, E2, E3. reflexivity.
      * assert (Hlen : (length (d :: t') <= n)%nat) by (cbn [length] in *; lia).
        remember (d :: t') as tt eqn:Htt.
        destruct (b64_encode_nonnil tt) as (x & r & Hx); [subst tt; discriminate|].
        cbn [b64_encode b64_decode].
        rewrite !b64_val_sym by lia.
        rewrite Hx. rewrite <- Hx.
        rewrite (IH tt Hlen Ht).
        rewrite E1, E2, E3. reflexivity.
Qed.

Lemma b64_roundtrip bs : Forall (fun b => b < 256) bs -> b64_decode (b64_encode bs) = Some bs.
Proof. apply (b64_roundtrip_n (length bs)). lia. Qed.

(* calculate_encoded_len: ((n + 2) / 3) * 4 *)
Lemma b64_encode_len_n : forall n bs, (length bs <= n)%nat ->
  length (b64_encode bs) = ((length bs + 2) / 3 * 4)%nat.
Proof.
  induction n as [|n IH]; intros bs Hn.
  - destruct bs; [reflexivity|cbn [length] in Hn; lia].
  - destruct bs as [|a [|b [|c t]]]; try reflexivity.
    cbn [b64_encode length]. rewrite IH by (cbn [length] in Hn; lia).
    replace (S (S (S (length t))) + 2)%nat with (1 * 3 + (length t + 2))%nat by lia.
    rewrite Nat.div_add_l by lia. lia.
Qed.
Lemma b64_encode_len bs : length (b64_encode bs) = ((length bs + 2) / 3 * 4)%nat.
Proof. apply (b64_encode_len_n (length bs)). lia. Qed.
