(* C14: "vector main loop + scalar tail" computes the scalar definition, for every chunk width. *)
From ZV.Common Require Import Base.
From ZV.C14 Require Import Model.
Open Scope N_scope.

(* ---------- memchr ---------- *)
Lemma memchr_s_app_none h1 h2 n :
  memchr_s h1 n = None -> memchr_s (h1 ++ h2) n = opt_add (length h1) (memchr_s h2 n).
Proof.
  induction h1 as [|x t IH]; cbn [memchr_s app length]; intros H.
  - unfold opt_add. destruct (memchr_s h2 n); reflexivity.
  - destruct (x =? n); [discriminate|].
    destruct (memchr_s t n) eqn:E; [discriminate|].
    rewrite (IH eq_refl). unfold opt_add. destruct (memchr_s h2 n); reflexivity.
Qed.

Lemma memchr_s_app_some h1 h2 n i :
  memchr_s h1 n = Some i -> memchr_s (h1 ++ h2) n = Some i.
Proof.
  revert i; induction h1 as [|x t IH]; cbn [memchr_s app]; intros i H; [discriminate|].
  destruct (x =? n); [assumption|].
  destruct (memchr_s t n) eqn:E; [|discriminate].
  rewrite (IH n0 eq_refl). exact H.
Qed.

Lemma opt_add_add a b o : opt_add a (opt_add b o) = opt_add (a + b) o.
Proof. destruct o; unfold opt_add; cbn; [f_equal; lia|reflexivity]. Qed.

Lemma memchr_v_correct W fuel : forall off h n,
  (0 < W)%nat -> (length h <= fuel)%nat ->
  memchr_v W fuel off h n = opt_add off (memchr_s h n).
Proof.
  induction fuel as [|f IH]; intros off h n HW Hf; cbn [memchr_v]; [reflexivity|].
  destruct (W <=? length h)%nat eqn:E; [|reflexivity].
  apply Nat.leb_le in E.
  replace (memchr_s h n) with (memchr_s (firstn W h ++ skipn W h) n)
    by (rewrite firstn_skipn; reflexivity).
  destruct (memchr_s (firstn W h) n) eqn:Ec.
  - rewrite (memchr_s_app_some _ _ _ _ Ec). reflexivity.
  - rewrite (memchr_s_app_none _ _ _ Ec), firstn_length_le by assumption.
    rewrite IH; [symmetry; apply opt_add_add|assumption|].
    rewrite skipn_length. lia.
Qed.

Lemma opt_add_0 o : opt_add 0 o = o.
Proof. destruct o; reflexivity. Qed.

Lemma simd_memchr_correct W h n : simd_memchr W h n = memchr_s h n.
Proof.
  unfold simd_memchr. destruct W as [|w]; [reflexivity|].
  destruct (S w <=? length h)%nat; [|reflexivity].
  rewrite memchr_v_correct by lia. apply opt_add_0.
Qed.

(* memchr_s is "the first index holding the needle" *)
Lemma memchr_s_spec h n :
  match memchr_s h n with
  | Some i => (i < length h)%nat /\ nth i h 0 = n /\ forall j, (j < i)%nat -> nth j h 0 <> n
  | None => forall j, (j < length h)%nat -> nth j h 0 <> n
  end.
Proof.
  induction h as [|x t IH]; cbn [memchr_s length].
  - intros j Hj; lia.
  - destruct (N.eqb_spec x n) as [->|Hne].
    + split; [lia|]. split; [reflexivity|]. intros j Hj; lia.
    + destruct (memchr_s t n) as [i|]; cbn [option_map].
      * destruct IH as (Hi & Hn & Hlt). split; [lia|]. split; [exact Hn|].
        intros [|j] Hj; cbn [nth]; [exact Hne|apply Hlt; lia].
      * intros [|j] Hj; cbn [nth]; [exact Hne|apply IH; lia].
Qed.

(* ---------- memcmp ---------- *)
Lemma first_diff_none_eq a b :
  length a = length b -> first_diff a b = None -> a = b.
Proof.
  revert b; induction a as [|x a IH]; intros [|y b] Hl H; cbn in *; try discriminate; [reflexivity|].
  destruct (N.eqb_spec x y) as [->|]; [|discriminate].
  destruct (first_diff a b) eqn:E; [discriminate|].
  f_equal. apply IH; [lia|assumption].
Qed.

Lemma memcmp_s_refl a : memcmp_s a a = 0%Z.
Proof. induction a as [|x a IH]; cbn [memcmp_s]; [reflexivity|]. rewrite N.eqb_refl. exact IH. Qed.

Lemma memcmp_s_app_eq p a b : memcmp_s (p ++ a) (p ++ b) = memcmp_s a b.
Proof. induction p as [|x p IH]; cbn [memcmp_s app]; [reflexivity|]. rewrite N.eqb_refl. exact IH. Qed.

(* a difference inside the first chunk decides the result *)
Lemma first_diff_some a b a2 b2 i :
  length a = length b -> first_diff a b = Some i ->
  memcmp_s (a ++ a2) (b ++ b2) = (Z.of_N (nth i (a ++ a2) 0%N) - Z.of_N (nth i (b ++ b2) 0%N))%Z.
Proof.
  revert b i; induction a as [|x a IH]; intros [|y b] i Hl H; cbn in *; try discriminate.
  destruct (N.eqb_spec x y) as [->|Hne].
  - destruct (first_diff a b) eqn:E; [|discriminate].
    injection H as <-. cbn [nth]. apply IH; [lia|assumption].
  - injection H as <-. reflexivity.
Qed.

Lemma memcmp_v_correct W fuel : forall a b,
  (0 < W)%nat -> length a = length b -> (length a <= fuel)%nat ->
  memcmp_v W fuel a b = memcmp_s a b.
Proof.
  induction fuel as [|f IH]; intros a b HW Hl Hf; cbn [memcmp_v]; [reflexivity|].
  destruct (W <=? length a)%nat eqn:E; [|reflexivity].
  apply Nat.leb_le in E.
  assert (Hfl : length (firstn W a) = length (firstn W b))
    by (rewrite !firstn_length; lia).
  destruct (first_diff (firstn W a) (firstn W b)) eqn:Ed.
  - pose proof (first_diff_some _ _ (skipn W a) (skipn W b) _ Hfl Ed) as Hd.
    rewrite !firstn_skipn in Hd. symmetry. exact Hd.
  - apply first_diff_none_eq in Ed; [|assumption].
    rewrite IH; [|assumption|rewrite !skipn_length; lia|rewrite skipn_length; lia].
    pose proof (memcmp_s_app_eq (firstn W b) (skipn W a) (skipn W b)) as Hd.
    rewrite <- Ed in Hd at 1. rewrite !firstn_skipn in Hd. symmetry. exact Hd.
Qed.

Lemma simd_memcmp_correct W a b : length a = length b -> simd_memcmp W a b = memcmp_s a b.
Proof.
  intros Hl. unfold simd_memcmp. destruct W as [|w]; [reflexivity|].
  destruct (S w <=? length a)%nat; [|reflexivity].
  apply memcmp_v_correct; lia.
Qed.

Lemma compare_v_correct W a b : compare_v W a b = compare_s a b.
Proof.
  unfold compare_v, compare_s, compare_with.
  destruct (length a <? length b)%nat eqn:E1.
  - apply Nat.ltb_lt in E1. rewrite simd_memcmp_correct; [reflexivity|].
    rewrite firstn_length. lia.
  - destruct (length b <? length a)%nat eqn:E2.
    + apply Nat.ltb_lt in E2. rewrite simd_memcmp_correct; [reflexivity|].
      rewrite firstn_length. lia.
    + apply Nat.ltb_ge in E1. apply Nat.ltb_ge in E2.
      apply simd_memcmp_correct. lia.
Qed.

(* compare_s has the sign of the lexicographic order, bytes compared as unsigned numbers *)
Lemma memcmp_s_sign a b :
  length a = length b -> Z.sgn (memcmp_s a b) = lex_sign a b.
Proof.
  revert b; induction a as [|x a IH]; intros [|y b] Hl; cbn [length] in Hl; try discriminate.
  - reflexivity.
  - cbn [memcmp_s lex_sign].
    destruct (N.eqb_spec x y) as [->|Hne].
    + rewrite N.ltb_irrefl. apply IH. lia.
    + destruct (N.ltb_spec x y); [rewrite Z.sgn_neg; lia|].
      destruct (N.ltb_spec y x); [rewrite Z.sgn_pos; lia|lia].
Qed.

Lemma lex_sign_prefix_lt a b :
  (length a < length b)%nat -> lex_sign a (firstn (length a) b) = 0%Z -> lex_sign a b = (-1)%Z.
Proof.
  revert b; induction a as [|x a IH]; intros [|y b] Hl H; cbn [length] in Hl; try (exfalso; lia).
  - reflexivity.
  - cbn [length firstn lex_sign] in *.
    destruct (x <? y); [reflexivity|]. destruct (y <? x); [discriminate|].
    apply IH; [lia|assumption].
Qed.
Lemma lex_sign_prefix_ne a b :
  (length a <= length b)%nat -> lex_sign a (firstn (length a) b) <> 0%Z ->
  lex_sign a b = lex_sign a (firstn (length a) b).
Proof.
  revert b; induction a as [|x a IH]; intros [|y b] Hl H; cbn [length] in Hl; try (exfalso; lia).
  - reflexivity.
  - cbn [length firstn lex_sign] in H. exfalso. apply H. reflexivity.
  - cbn [length firstn lex_sign] in *.
    destruct (x <? y); [reflexivity|]. destruct (y <? x); [reflexivity|].
    apply IH; [lia|assumption].
Qed.
Lemma lex_sign_antisym a b : lex_sign b a = (- lex_sign a b)%Z.
Proof.
  revert b; induction a as [|x a IH]; intros [|y b]; cbn [lex_sign]; try reflexivity.
  destruct (N.ltb_spec x y), (N.ltb_spec y x); try reflexivity; try (exfalso; lia). apply IH.
Qed.

Lemma memcmp_s_antisym a b : memcmp_s b a = (- memcmp_s a b)%Z.
Proof.
  revert b; induction a as [|x a IH]; intros [|y b]; cbn [memcmp_s]; try reflexivity.
  rewrite (N.eqb_sym y x). destruct (x =? y); [apply IH|lia].
Qed.

Lemma compare_s_sign a b : Z.sgn (compare_s a b) = lex_sign a b.
Proof.
  unfold compare_s, compare_with.
  destruct (length a <? length b)%nat eqn:E1.
  - apply Nat.ltb_lt in E1.
    assert (Hl : length a = length (firstn (length a) b)) by (rewrite firstn_length; lia).
    pose proof (memcmp_s_sign a _ Hl) as Hs.
    destruct (Z.eqb_spec (memcmp_s a (firstn (length a) b)) 0) as [Hz|Hz].
    + rewrite Hz in Hs. cbn in Hs. symmetry. rewrite lex_sign_prefix_lt; auto.
    + assert (Hnz : lex_sign a (firstn (length a) b) <> 0%Z).
      { intros Hc. rewrite <- Hs in Hc. apply (proj1 (Z.sgn_null_iff _)) in Hc. exact (Hz Hc). }
      rewrite Hs. symmetry. apply lex_sign_prefix_ne; [lia|exact Hnz].
  - destruct (length b <? length a)%nat eqn:E2.
    + apply Nat.ltb_lt in E2.
      assert (Hl : length b = length (firstn (length b) a)) by (rewrite firstn_length; lia).
      pose proof (memcmp_s_sign b _ Hl) as Hs.
      rewrite (lex_sign_antisym b a).
      rewrite (memcmp_s_antisym (firstn (length b) a) b) in Hs.
      destruct (Z.eqb_spec (memcmp_s (firstn (length b) a) b) 0) as [Hz|Hz].
      * rewrite Hz in Hs. cbn in Hs. rewrite lex_sign_prefix_lt; auto.
      * rewrite Z.sgn_opp in Hs.
        assert (Hnz : lex_sign b (firstn (length b) a) <> 0%Z).
        { intros Hc. rewrite Hc in Hs.
          assert (Hq : Z.sgn (memcmp_s (firstn (length b) a) b) = 0%Z) by lia.
          apply (proj1 (Z.sgn_null_iff _)) in Hq. exact (Hz Hq). }
        rewrite (lex_sign_prefix_ne b a); [lia|lia|exact Hnz].
    + apply Nat.ltb_ge in E1. apply Nat.ltb_ge in E2. apply memcmp_s_sign. lia.
Qed.

(* ---------- copy windows ---------- *)
(* the destination prefix that already equals the source, as an invariant of the window scheme *)
Lemma write_at_prefix src dst off W :
  length dst = length src -> (off + W <= length src)%nat ->
  firstn off dst = firstn off src ->
  firstn (off + W) (write_at dst off (window src off W)) = firstn (off + W) src
  /\ length (write_at dst off (window src off W)) = length src.
Proof.
  intros Hl Hb Hp. unfold write_at, window.
  assert (Hw : length (firstn W (skipn off src)) = W)
    by (rewrite firstn_length, skipn_length; lia).
  rewrite Hw. split.
  - rewrite Hp. rewrite app_assoc.
    rewrite firstn_app.
    assert (Hlen : length (firstn off src ++ firstn W (skipn off src)) = (off + W)%nat)
      by (rewrite app_length, firstn_length, Hw; lia).
    rewrite Hlen, Nat.sub_diag. cbn [firstn]. rewrite app_nil_r.
    rewrite firstn_all2 by lia.
    rewrite <- (firstn_skipn off src) at 3.
    rewrite firstn_app, firstn_length, Nat.min_l by lia.
    rewrite (firstn_all2 (n := (off + W)%nat) (firstn off src)) by (rewrite firstn_length; lia).
    f_equal. replace (off + W - off)%nat with W by lia. reflexivity.
  - rewrite !app_length, firstn_length, Hw, skipn_length. lia.
Qed.

Lemma firstn_le_eq {A} (a b : list A) k off :
  (k <= off)%nat -> firstn off a = firstn off b -> firstn k a = firstn k b.
Proof.
  intros Hk H. rewrite <- (Nat.min_l k off Hk). rewrite <- !firstn_firstn. rewrite H. reflexivity.
Qed.

Lemma copy_middle_inv W src fuel : forall off dst,
  (0 < W)%nat -> length dst = length src -> (off <= length src)%nat ->
  firstn off dst = firstn off src -> (length src - off <= fuel)%nat ->
  let d := copy_middle W fuel off src dst in
  length d = length src /\
  exists off', (length src - W <= off')%nat /\ (off' <= length src)%nat /\ firstn off' d = firstn off' src.
Proof.
  induction fuel as [|f IH]; intros off dst HW Hl Ho Hp Hf; cbn [copy_middle].
  - split; [exact Hl|]. exists off. repeat split; [lia|exact Ho|exact Hp].
  - destruct (off <? length src - W)%nat eqn:E.
    + apply Nat.ltb_lt in E.
      destruct (write_at_prefix src dst off W Hl ltac:(lia) Hp) as [Hp' Hl'].
      apply IH; [exact HW|exact Hl'|lia|exact Hp'|lia].
    + apply Nat.ltb_ge in E. split; [exact Hl|]. exists off. repeat split; [exact E|exact Ho|exact Hp].
Qed.

(* first window, middle windows, overlapping last window: the destination becomes the source *)
Lemma copy_windows_correct W src dst :
  (0 < W)%nat -> (W <= length src)%nat -> length dst = length src -> copy_windows W src dst = src.
Proof.
  intros HW Hlen Hl. unfold copy_windows.
  destruct (write_at_prefix src dst 0 W Hl ltac:(lia) eq_refl) as [Hp1 Hl1].
  cbn [plus] in Hp1.
  set (d1 := write_at dst 0 (window src 0 W)) in *.
  destruct (copy_middle_inv W src (length src) W d1 HW Hl1 Hlen Hp1 ltac:(lia)) as [Hl2 (off' & Ho1 & Ho2 & Hp2)].
  set (d2 := copy_middle W (length src) W src d1) in *.
  destruct (W <? length src)%nat eqn:E.
  - apply Nat.ltb_lt in E.
    assert (Hp3 : firstn (length src - W) d2 = firstn (length src - W) src)
      by (apply (firstn_le_eq _ _ _ off'); assumption).
    destruct (write_at_prefix src d2 (length src - W) W Hl2 ltac:(lia) Hp3) as [Hp4 Hl4].
    replace (length src - W + W)%nat with (length src) in Hp4 by lia.
    rewrite firstn_all2 in Hp4 by lia. rewrite firstn_all in Hp4. exact Hp4.
  - apply Nat.ltb_ge in E. assert (W = length src) by lia. subst W.
    assert (Hd1 : d1 = src).
    { rewrite <- (firstn_all d1), Hl1, Hp1. apply firstn_all. }
    subst d2. rewrite Hd1.
    destruct (length src) as [|n] eqn:En; [lia|].
    cbn [copy_middle]. rewrite En, Nat.sub_diag. reflexivity.
Qed.
