(* C16: helper lemmas (lists, sums over threads, token counting) and the invariant. *)
From ZV.Common Require Import Base.
From ZV.C16 Require Import Model.
Open Scope N_scope.

(* ---------- upd / nth_error / remove_nth ---------- *)
Lemma nth_error_upd_same {A} (l : list A) i x y :
  nth_error l i = Some y -> nth_error (upd l i x) i = Some x.
Proof.
  revert i; induction l as [|a l IH]; intros [|i] H; cbn in *; try discriminate; auto.
Qed.
Lemma nth_error_upd_other {A} (l : list A) i j x :
  i <> j -> nth_error (upd l i x) j = nth_error l j.
Proof.
  revert i j; induction l as [|a l IH]; intros [|i] [|j] H; cbn; auto; try congruence.
Qed.
Lemma In_upd {A} (l : list A) i x y : In y (upd l i x) -> y = x \/ In y l.
Proof.
  revert i; induction l as [|a l IH]; intros [|i] H; cbn in *; auto.
  - destruct H; auto.
  - destruct H as [H|H]; auto. apply IH in H. tauto.
Qed.
Lemma In_nth_error' {A} (l : list A) x : In x l -> exists i, nth_error l i = Some x.
Proof. apply In_nth_error. Qed.

Fixpoint sumf {A} (f : A -> N) (l : list A) : N :=
  match l with [] => 0 | x :: t => f x + sumf f t end.
Lemma sumf_upd {A} (f : A -> N) l i x y :
  nth_error l i = Some x -> sumf f (upd l i y) + f x = sumf f l + f y.
Proof.
  revert i; induction l as [|a l IH]; intros [|i] H; cbn in *; try discriminate.
  - injection H as ->. lia.
  - specialize (IH _ H). lia.
Qed.
Lemma sumf_zero {A} (f : A -> N) l x : sumf f l = 0 -> In x l -> f x = 0.
Proof.
  induction l as [|a l IH]; cbn; intros H Hin; [contradiction|].
  destruct Hin as [->|Hin]; [lia|]. apply IH; auto; lia.
Qed.
Lemma sumf_ge {A} (f : A -> N) l i x : nth_error l i = Some x -> f x <= sumf f l.
Proof.
  revert i; induction l as [|a l IH]; intros [|i] H; cbn in *; try discriminate.
  - injection H as ->. lia.
  - specialize (IH _ H). lia.
Qed.
Lemma sumf_le {A} (f g : A -> N) l : (forall x, f x <= g x) -> sumf f l <= sumf g l.
Proof. intros H; induction l as [|a l IH]; cbn; [lia|]. specialize (H a). lia. Qed.
Lemma sumf_ext_in {A} (f g : A -> N) l : (forall x, In x l -> f x = g x) -> sumf f l = sumf g l.
Proof.
  induction l as [|a l IH]; cbn; intros H; [reflexivity|].
  rewrite (H a) by auto. rewrite IH; auto.
Qed.

(* ---------- counting tokens ---------- *)
Lemma count_kind_nil k : count_kind k [] = 0.
Proof. reflexivity. Qed.
Lemma count_kind_app k a b : count_kind k (a ++ b) = count_kind k a + count_kind k b.
Proof. unfold count_kind. rewrite filter_app, nlen_app. reflexivity. Qed.
Lemma count_kind_cons k t l :
  count_kind k (t :: l) = (if kind_eqb (tk t) k then 1 else 0) + count_kind k l.
Proof.
  unfold count_kind. cbn [filter]. destruct (kind_eqb (tk t) k); cbn [nlen];
  [reflexivity | symmetry; apply N.add_0_l].
Qed.
Lemma count_kind_one k t : count_kind k [t] = if kind_eqb (tk t) k then 1 else 0.
Proof. rewrite count_kind_cons, count_kind_nil. apply N.add_0_r. Qed.
Lemma count_kind_remove_nth k l i t :
  nth_error l i = Some t -> count_kind k l = count_kind k (remove_nth i l) + count_kind k [t].
Proof.
  revert i; induction l as [|a l IH]; intros [|i] H; cbn [nth_error remove_nth] in *; try discriminate.
  - injection H as ->. rewrite count_kind_cons, count_kind_one. apply N.add_comm.
  - rewrite (count_kind_cons k a l), (count_kind_cons k a (remove_nth i l)), (IH _ H). apply N.add_assoc.
Qed.
Lemma Forall_remove_nth {A} (P : A -> Prop) l i : Forall P l -> Forall P (remove_nth i l).
Proof.
  revert i; induction l as [|a l IH]; intros [|i] H; cbn; auto; inversion H; subst; auto.
Qed.
Lemma Forall_nth_error {A} (P : A -> Prop) l i x : Forall P l -> nth_error l i = Some x -> P x.
Proof. intros H E. rewrite Forall_forall in H. apply H. eapply nth_error_In; eauto. Qed.
Lemma count_kind_flat_map k (l : list thread) :
  count_kind k (flat_map tokens_of l) = sumf (fun th => count_kind k (tokens_of th)) l.
Proof.
  induction l as [|a l IH]; cbn [flat_map sumf]; [reflexivity|].
  rewrite count_kind_app, IH. reflexivity.
Qed.
Lemma count_kind_opt k (o : option token) :
  count_kind k (opt_list o) = match o with Some t => if kind_eqb (tk t) k then 1 else 0 | None => 0 end.
Proof. destruct o; cbn [opt_list]; [apply count_kind_one|reflexivity]. Qed.

Lemma kind_eqb_eq a b : kind_eqb a b = true <-> a = b.
Proof. destruct a, b; cbn; split; congruence. Qed.
Lemma kind_eqb_refl a : kind_eqb a a = true.
Proof. destruct a; reflexivity. Qed.

Global Arguments count_kind : simpl never.
Global Arguments tokens_of : simpl never.

(* ---------- the invariant of the fixed access order (fx = true) ---------- *)
Definition tok_ok (s : shared) (t : token) : Prop :=
  tk t <> KRO -> minv s <= tv t /\ tv t <= cur s.

Definition in_cs (l : N) (p : pc) : bool :=
  match p with
  | ALoadAw | ABusyUnlock | ALoadMin _ | AFadd _ _ | AUnlock _ _ _
  | TLoadAr | TLoadAw | TLoadCur | TStore _ | TUnlock => true
  | AInc _ _ _ => requires_sync l
  | _ => false
  end.
(* program counters at which the thread is outside every VersionManager function *)
Definition rest_pc (p : pc) : bool := match p with Idle | WBody => true | _ => false end.

Definition pc_kind_ok (p : pc) : Prop :=
  match p with
  | ALock k | ALoadMin k | AFadd k _ | AUnlock k _ _ | AInc k _ _ => k <> KRO
  | RDec t => tk t <> KRO
  | _ => True
  end.

Definition pc_level_ok (l : N) (p : pc) : Prop :=
  requires_sync l = false ->
  match p with
  | Idle | RDec _ | WBody => True
  | AInc _ m v => m = 1 /\ v = 1
  | _ => False
  end.

Definition pc_facts (s : shared) (p : pc) : Prop :=
  match p with
  | ALoadMin KW | AFadd KW _ | AInc KW _ _ => lvl s = 3 -> aw s = 0
  | TLoadAw => ar s = 0
  | TLoadCur => ar s = 0 /\ aw s = 0
  | TStore c => ar s = 0 /\ aw s = 0 /\ c = cur s
  | _ => True
  end.

(* contribution of a thread to the counters *)
Definition cnt_pc (k : kind) (p : pc) : N :=
  match p with
  | AUnlock k' _ _ => if kind_eqb k' k then 1 else 0
  | RDec t => if kind_eqb (tk t) k then 1 else 0
  | _ => 0
  end.
Definition cnt (k : kind) (th : thread) : N := count_kind k (tokens_of th) + cnt_pc k (tpc th).

(* program counters of the release path: only there may releases be pending *)
Definition release_pc (p : pc) : bool :=
  match p with
  | RDec _ | TLock | TLoadAr | TLoadAw | TLoadCur | TStore _ | TUnlock => true
  | _ => false
  end.

Record tinv (s : shared) (tid : nat) (th : thread) : Prop := {
  i_cs : in_cs (lvl s) (tpc th) = true -> lck s = Some tid;
  i_tok : Forall (tok_ok s) (tokens_of th ++ inflight th);
  i_kind : pc_kind_ok (tpc th);
  i_lvl : pc_level_ok (lvl s) (tpc th);
  i_facts : pc_facts s (tpc th);
  i_pend : release_pc (tpc th) = false -> pend th = []
}.

Record ginv (st : state) : Prop := {
  g_ar : ar (sh st) = sumf (cnt KR) (ths st) + count_kind KR (mail (sh st));
  g_aw : aw (sh st) = sumf (cnt KW) (ths st) + count_kind KW (mail (sh st));
  g_mail : Forall (tok_ok (sh st)) (mail (sh st));
  g_min : minv (sh st) <= cur (sh st);
  g_excl : lvl (sh st) = 3 -> aw (sh st) <= 1;
  g_nosync : requires_sync (lvl (sh st)) = false -> cur (sh st) = 1 /\ minv (sh st) = 1;
  g_th : forall i th, nth_error (ths st) i = Some th -> tinv (sh st) i th
}.
