(* C16: the lazy free list - the loop of process_safe_items with the list's own threshold, the queue's age
   order, and what a step of the concurrent model hands to the free callback. *)
From ZV.Common Require Import Base.
From ZV.C16 Require Import Model ModelLazy ProofsBase ProofsInv ProofsStep ProofsMain.
Open Scope N_scope.

(* ---------- the loop ---------- *)
Lemma psi_split fuel thr m : forall p l,
  fst (psi fuel thr m p l) ++ snd (psi fuel thr m p l) = l /\
  Forall (fun a => a < m) (fst (psi fuel thr m p l)).
Proof.
  induction fuel as [|f IH]; intros p l; cbn [psi].
  - destruct l; cbn; split; auto.
  - destruct l as [|a r]; [cbn; split; auto|].
    destruct (a <? m) eqn:E; [|cbn; split; auto].
    destruct (thr <=? p + 1) eqn:T.
    + cbn. split; [reflexivity|]. constructor; [lia|constructor].
    + specialize (IH (p + 1) r). destruct (psi f thr m (p + 1) r) as [x y]. cbn in *.
      destruct IH as [A B]. split; [rewrite A; reflexivity|]. constructor; [lia|exact B].
Qed.

(* at most max(1, threshold - processed) items per call *)
Lemma psi_bound fuel thr m : forall p l,
  fst (psi fuel thr m p l) = [] \/ p + nlen (fst (psi fuel thr m p l)) <= N.max (p + 1) thr.
Proof.
  induction fuel as [|f IH]; intros p l; cbn [psi].
  - destruct l; cbn; auto.
  - destruct l as [|a r]; [cbn; auto|].
    destruct (a <? m) eqn:E; [|cbn; auto].
    destruct (thr <=? p + 1) eqn:T.
    + right. cbn. lia.
    + right. specialize (IH (p + 1) r). destruct (psi f thr m (p + 1) r) as [x y]. cbn [fst nlen] in *.
      destruct IH as [->|B]; cbn [nlen]; lia.
Qed.

(* the loop stops only at the end of the queue, at an item that may still be seen, or at the limit *)
Lemma psi_stop fuel thr m : forall p l, (length l <= fuel)%nat ->
  snd (psi fuel thr m p l) = [] \/
  (exists b r, snd (psi fuel thr m p l) = b :: r /\ m <= b) \/
  (fst (psi fuel thr m p l) <> [] /\ thr <= p + nlen (fst (psi fuel thr m p l))).
Proof.
  induction fuel as [|f IH]; intros p l L; cbn [psi].
  - destruct l; [cbn; auto|cbn in L; lia].
  - destruct l as [|a r]; [cbn; auto|].
    destruct (a <? m) eqn:E.
    + destruct (thr <=? p + 1) eqn:T.
      * right. right. cbn. split; [discriminate|lia].
      * cbn in L. assert (L' : (length r <= f)%nat) by lia.
        specialize (IH (p + 1) r L'). destruct (psi f thr m (p + 1) r) as [x y]. cbn [fst snd nlen] in *.
        destruct IH as [A|[A|[A B]]]; auto. right. right. split; [discriminate|lia].
    + right. left. exists a, r. cbn. split; [reflexivity|lia].
Qed.

Lemma psi_progress fuel thr m p a r : a < m -> fst (psi (S fuel) thr m p (a :: r)) <> [].
Proof.
  intros H. cbn [psi]. destruct (a <? m) eqn:E; [|lia].
  destruct (thr <=? p + 1); [cbn; discriminate|].
  destruct (psi fuel thr m (p + 1) r). cbn. discriminate.
Qed.

Lemma process_safe_split thr m l :
  fst (process_safe thr m l) ++ snd (process_safe thr m l) = l.
Proof. apply psi_split. Qed.
Lemma process_safe_lt thr m l a : In a (fst (process_safe thr m l)) -> a < m.
Proof.
  intros H. pose proof (proj2 (psi_split (length l) thr m 0 l)) as F. rewrite Forall_forall in F.
  apply (F a H).
Qed.

(* ---------- the statements of Properties.v about the list alone ---------- *)
Lemma process_safe_items_spec_proof :
  forall thr m l,
    let freed := fst (process_safe thr m l) in
    let rest := snd (process_safe thr m l) in
    freed ++ rest = l /\
    (forall a, In a freed -> a < m) /\
    nlen freed <= N.max 1 thr /\
    (rest = [] \/ (exists b r, rest = b :: r /\ m <= b) \/ (freed <> [] /\ thr <= nlen freed)) /\
    (forall a r, l = a :: r -> a < m -> freed <> []).
Proof.
  intros thr m l freed rest. subst freed rest. split; [apply process_safe_split|].
  split; [intros a; apply process_safe_lt|]. split; [|split].
  - destruct (psi_bound (length l) thr m 0 l) as [E|B]; unfold process_safe.
    + rewrite E. cbn. lia.
    + cbn in B. lia.
  - destruct (psi_stop (length l) thr m 0 l (le_n _)) as [A|[A|[A B]]]; unfold process_safe; auto.
  - intros a r -> H. unfold process_safe. cbn [length]. apply psi_progress. exact H.
Qed.

(* ---------- what a step does to the queue ---------- *)
Lemma tstep_lazy fx i s th s' th' :
  tstep fx i s th = Some (s', th') ->
  bulk s' = bulk s /\ cur s <= cur s' /\
  (lazy s' = lazy s \/
   (exists n, lazy s' = lazy s ++ repeat (cur s) n /\ cur s' = cur s) \/
   (lazy s' = snd (process_safe (bulk s) (minv s) (lazy s)) /\ minv s' = minv s)).
Proof.
  unfold tstep. intros H.
  repeat match type of H with
  | context [match ?x with _ => _ end] => destruct x eqn:?; try discriminate
  end; injection H as <- _;
  cbn [set_lck set_cur set_min set_ar set_aw set_lazy set_mail lvl cur minv ar aw lck lazy mail bulk];
  (split; [reflexivity|]); (split; [lia|]);
  try (left; reflexivity);
  try (right; left; exists 1%nat; split; reflexivity);
  try (right; left; exists RETIRE_N; split; reflexivity);
  try (right; right; split; reflexivity).
Qed.

Lemma firstn_app_len {A} (a b : list A) : firstn (length (a ++ b) - length b) (a ++ b) = a.
Proof.
  rewrite app_length. replace (length a + length b - length b)%nat with (length a + 0)%nat by lia.
  rewrite firstn_app_2. cbn. apply app_nil_r.
Qed.

Lemma handed_back_cases fx i s th s' th' :
  tstep fx i s th = Some (s', th') ->
  handed_back s s' = [] \/
  (handed_back s s' = fst (process_safe (bulk s) (minv s) (lazy s)) /\ minv s' = minv s).
Proof.
  intros H. destruct (tstep_lazy _ _ _ _ _ _ H) as (_ & _ & [E|[(n & E & _)|[E EM]]]); unfold handed_back; rewrite E.
  - left. rewrite Nat.sub_diag. reflexivity.
  - left. rewrite app_length. replace (length (lazy s) - (length (lazy s) + length (repeat (cur s) n)))%nat with 0%nat by lia.
    reflexivity.
  - right. split; [|exact EM]. pose proof (process_safe_split (bulk s) (minv s) (lazy s)) as SP.
    rewrite <- SP at 1 3. apply firstn_app_len.
Qed.

(* ---------- the queue is in age order and never ahead of current_version ---------- *)
Definition linv (s : shared) : Prop := sorted_le (lazy s) /\ Forall (fun a => a <= cur s) (lazy s).

Lemma sorted_le_app_repeat l c n :
  sorted_le l -> Forall (fun a => a <= c) l -> sorted_le (l ++ repeat c n).
Proof.
  induction l as [|a r IH]; cbn [app sorted_le]; intros S F.
  - induction n as [|n IHn]; cbn [repeat sorted_le]; auto. split; [|exact IHn].
    clear. induction n; cbn; constructor; auto; lia.
  - destruct S as [S1 S2]. inversion F as [|x y Fa Fr]; subst. split; [|apply IH; auto].
    apply Forall_app. split; [exact S1|]. clear -Fa. induction n; cbn; constructor; auto.
Qed.
Lemma sorted_le_suffix a b : sorted_le (a ++ b) -> sorted_le b.
Proof. induction a as [|x a IH]; cbn [app sorted_le]; [auto|]. intros [_ S]. auto. Qed.

Lemma tstep_linv fx i s th s' th' : tstep fx i s th = Some (s', th') -> linv s -> linv s'.
Proof.
  intros H [S F]. destruct (tstep_lazy _ _ _ _ _ _ H) as (_ & C & [E|[(n & E & C')|[E _]]]); unfold linv; rewrite E.
  - split; [exact S|]. eapply Forall_impl; [|exact F]. cbn. intros; lia.
  - split; [apply sorted_le_app_repeat; assumption|]. rewrite C'. apply Forall_app. split; [exact F|].
    clear. induction n; cbn; constructor; auto; lia.
  - pose proof (process_safe_split (bulk s) (minv s) (lazy s)) as SP.
    split.
    + apply (sorted_le_suffix (fst (process_safe (bulk s) (minv s) (lazy s)))). rewrite SP. exact S.
    + rewrite <- SP in F. apply Forall_app in F. destruct F as [_ F].
      eapply Forall_impl; [|exact F]. cbn. intros; lia.
Qed.

Lemma run_linv fx sched : forall st, linv (sh st) -> linv (sh (run fx sched st)).
Proof.
  unfold run. induction sched as [|t r IH]; intros st L; cbn [fold_left]; [exact L|].
  apply IH. unfold step. destruct (nth_error (ths st) t) as [th|]; [|exact L].
  destruct (tstep fx t (sh st) th) as [[s' th']|] eqn:S; [|exact L].
  cbn [sh]. eapply tstep_linv; eauto.
Qed.

Lemma queue_in_age_order_proof :
  forall fx level b progs sched,
    let st := run fx sched (initb level b progs) in
    sorted_le (lazy (sh st)) /\ Forall (fun a => a <= cur (sh st)) (lazy (sh st)).
Proof. intros. apply run_linv. split; constructor. Qed.

(* ---------- nothing is handed back while a token that can still see it is live ---------- *)
Lemma bulk_reclaim_safe_proof :
  forall level b progs sched a t,
    let st := run true sched (initb level b progs) in
    In a (fst (process_safe (bulk (sh st)) (minv (sh st)) (lazy (sh st)))) ->
    In t (live st) -> tracked t -> a < tv t.
Proof.
  intros level b progs sched a t st Ha Ht K. apply process_safe_lt in Ha.
  pose proof (ginv_min_le_live st t (reachb_inv level b progs sched) Ht K). lia.
Qed.

Lemma handed_back_safe_proof :
  forall level b progs sched tid a t,
    let st := run true sched (initb level b progs) in
    In a (handed_back (sh st) (sh (step true st tid))) ->
    In t (live st) -> tracked t -> a < tv t.
Proof.
  intros level b progs sched tid a t st Ha Ht K. unfold step in Ha.
  destruct (nth_error (ths st) tid) as [th|].
  2:{ unfold handed_back in Ha. rewrite Nat.sub_diag in Ha. contradiction. }
  destruct (tstep true tid (sh st) th) as [[s' th']|] eqn:S.
  2:{ unfold handed_back in Ha. rewrite Nat.sub_diag in Ha. contradiction. }
  cbn [sh] in Ha. destruct (handed_back_cases _ _ _ _ _ _ S) as [E|[E _]]; rewrite E in Ha; [contradiction|].
  eapply bulk_reclaim_safe_proof; eauto.
Qed.

(* ... and the tokens that are live AFTER the step cannot see it either (a token acquired by the very
   step that frees does not exist: a step is one access) *)
Lemma handed_back_safe_after_proof :
  forall level b progs sched tid a t,
    let st := run true sched (initb level b progs) in
    let st' := step true st tid in
    In a (handed_back (sh st) (sh st')) ->
    In t (live st') -> tracked t -> a < tv t.
Proof.
  intros level b progs sched tid a t st st' Ha Ht K. subst st'. unfold step in *.
  destruct (nth_error (ths st) tid) as [th|] eqn:N.
  2:{ unfold handed_back in Ha. rewrite Nat.sub_diag in Ha. contradiction. }
  destruct (tstep true tid (sh st) th) as [[s' th']|] eqn:S.
  2:{ unfold handed_back in Ha. rewrite Nat.sub_diag in Ha. contradiction. }
  cbn [sh] in Ha. destruct (handed_back_cases _ _ _ _ _ _ S) as [E|[E EM]]; rewrite E in Ha; [contradiction|].
  apply process_safe_lt in Ha.
  assert (G' : ginv (St s' (upd (ths st) tid th'))).
  { eapply tstep_inv; eauto. apply reachb_inv. }
  (* a freeing step does not move min_version *)
  pose proof (ginv_min_le_live _ t G' Ht K) as [M _]. cbn [sh] in M.
  lia.
Qed.

(* hypotheses are inhabited: a queue of 70 items, threshold 32, an old reader of version 2 alive *)
Definition hb_prog : list op := [AcqW; RetireN; Drop 0; AcqW; Drop 0; AcqR; RetireN; ReclaimBulk].
Example handed_back_nontrivial :
  let st := run true (repeat 0%nat 36) (initb 4 32 [hb_prog]) in
  live st = [Tok KR 4 3] /\ minv (sh st) = 3 /\ nlen (lazy (sh st)) = 80 /\
  handed_back (sh st) (sh (step true st 0)) = repeat 2 32.
Proof. vm_compute. auto. Qed.
Example process_safe_example :
  process_safe 2 10 [1; 2; 3; 11; 4] = ([1; 2], [3; 11; 4]) /\
  process_safe 0 10 [1; 2; 3] = ([1], [2; 3]) /\
  process_safe U64MAX 10 [1; 2; 3; 11; 4] = ([1; 2; 3], [11; 4]) /\
  should_bulk 0 [] = true /\ should_bulk 32 (repeat 5 63) = false /\ should_bulk 32 (repeat 5 64) = true /\
  should_bulk U64MAX (repeat 5 64) = false.
Proof. vm_compute. repeat split. Qed.

(* with the default threshold the loop is the 32-item prefix scan the first C16 theorems were stated with
   (take_safe BULK_FREE_NUM): reclaim_safe / reclaim_unsafe_refuted speak about the same function *)
Lemma psi_take_safe m thr : forall fuel n p l,
  (1 <= n)%nat -> p + N.of_nat n = thr -> (length l <= fuel)%nat ->
  psi fuel thr m p l = take_safe n m l.
Proof.
  induction fuel as [|fu IH]; intros n p l N1 E L.
  - destruct l; [|cbn in L; lia]. destruct n; reflexivity.
  - destruct l as [|a r]; [destruct n; reflexivity|].
    destruct n as [|n]; [lia|]. cbn [psi take_safe]. destruct (a <? m); [|reflexivity].
    destruct (thr <=? p + 1) eqn:T.
    + assert (n = 0%nat) by lia. subst n. cbn [take_safe]. destruct r; reflexivity.
    + cbn in L. rewrite (IH n (p + 1) r); [reflexivity|lia|lia|lia].
Qed.
Lemma process_safe_default_proof :
  forall m l, process_safe BULK_FREE_N m l = take_safe BULK_FREE_NUM m l.
Proof. intros. apply psi_take_safe; [cbv; lia|reflexivity|lia]. Qed.

(* repeated processing with a min_version above every queued age empties the queue in at most len() calls,
   whatever the threshold (the harness drains every script this way) *)
Fixpoint drain_n (n : nat) (thr m : N) (l : list N) : list N :=
  match n with O => l | S k => drain_n k thr m (snd (process_safe thr m l)) end.
Lemma drain_empties_proof :
  forall n thr m l, Forall (fun a => a < m) l -> (length l <= n)%nat -> drain_n n thr m l = [].
Proof.
  induction n as [|n IH]; intros thr m l F L; cbn [drain_n].
  - destruct l; [reflexivity|cbn in L; lia].
  - pose proof (process_safe_split thr m l) as SP.
    apply IH.
    + rewrite <- SP in F. apply Forall_app in F. tauto.
    + destruct l as [|a r]; [unfold process_safe; cbn; lia|].
      inversion F as [|x y Ha Fr]; subst.
      pose proof (proj2 (proj2 (proj2 (proj2 (process_safe_items_spec_proof thr m (a :: r))))) a r eq_refl Ha) as NE.
      cbv zeta in NE. apply (f_equal (@length N)) in SP. rewrite app_length in SP.
      destruct (fst (process_safe thr m (a :: r))) as [|z zs]; [congruence|]. cbn [length] in *. lia.
Qed.
Example drain_example : drain_n 3 0 10 [1; 2; 3] = [] /\ drain_n 2 0 10 [1; 2; 3] = [3] /\ drain_n 1 U64MAX 10 [1; 2; 3] = [].
Proof. vm_compute. auto. Qed.
