(* C16 mechanism model: src/fsa/version_sync.rs LazyFreeList on its own -
   with_bulk_threshold / new / default, push, len, process_safe_items (the loop of Model.psi with the
   list's own bulk_threshold), should_bulk_process (2 * threshold, saturating), clear_stats - driven by
   the scripts of the harness cell `lazy_free_list`.  Definitions only. *)
From ZV.Common Require Import Base Run.
From ZV.C16 Require Import Model.
Open Scope N_scope.

(* script operations, numbered as in harness/src/c16.rs lazy_case_g *)
Inductive lop :=
| LPush (age : N)        (* 0: push(LazyFreeItem::new(age, id, 8)) *)
| LProcess (m : N)       (* 1: process_safe_items(m, free_fn) *)
| LGated (m : N)         (* 2: if should_bulk_process() { process_safe_items(m, free_fn) } *)
| LClearStats.           (* 3: clear_stats() *)

Record lfl := Lf { l_items : list N; l_thr : N }.   (* ages front first; bulk_threshold *)

(* what the harness records after each operation *)
Definition obs_proc (freed rest : list N) : list N := [1; nlen freed; nlen rest] ++ freed.

Definition lstep (q : lfl) (o : lop) : lfl * list N :=
  match o with
  | LPush a => let l := l_items q ++ [a] in (Lf l (l_thr q), [nlen l])
  | LProcess m =>
      let '(freed, rest) := process_safe (l_thr q) m (l_items q) in
      (Lf rest (l_thr q), obs_proc freed rest)
  | LGated m =>
      if should_bulk (l_thr q) (l_items q) then
        let '(freed, rest) := process_safe (l_thr q) m (l_items q) in
        (Lf rest (l_thr q), obs_proc freed rest)
      else (q, [0; nlen (l_items q)])
  | LClearStats => (q, [nlen (l_items q)])
  end.

Fixpoint lrun (q : lfl) (ops : list lop) : lfl * list (list N) :=
  match ops with
  | [] => (q, [])
  | o :: r => let '(q1, ob) := lstep q o in
              let '(q2, obs) := lrun q1 r in (q2, ob :: obs)
  end.

(* the harness drains the list at the end: process_safe_items(u64::MAX) until it is empty *)
Definition U64MAX : N := W64 - 1.
Fixpoint ldrain (fuel : nat) (q : lfl) : list (list N) :=
  match fuel with
  | O => []
  | S f => match l_items q with
           | [] => []
           | _ => let '(q1, ob) := lstep q (LProcess U64MAX) in ob :: ldrain f q1
           end
  end.

Fixpoint eqb_lln (a b : list (list N)) : bool :=
  match a, b with
  | [], [] => true
  | x :: a', y :: b' => eqb_ln x y && eqb_lln a' b'
  | _, _ => false
  end.

(* a case: threshold, script, what the code showed (per operation, then the drain rounds) *)
Definition lazy_case : Type := (N * list lop * list (list N))%type.
Definition lazy_ok (c : lazy_case) : bool :=
  let '(thr, ops, impl) := c in
  let '(q, obs) := lrun (Lf [] thr) ops in
  eqb_lln (obs ++ ldrain (S (length (l_items q))) q) impl.

(* ---------- what the property talks about ---------- *)
(* the items a step of the concurrent model hands to the free callback: what left the queue's front *)
Definition handed_back (s s' : shared) : list N :=
  firstn (length (lazy s) - length (lazy s')) (lazy s).

(* ages in the queue are in retirement order *)
Fixpoint sorted_le (l : list N) : Prop :=
  match l with
  | [] => True
  | a :: r => Forall (fun b => a <= b) r /\ sorted_le r
  end.
