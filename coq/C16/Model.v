(* C16 mechanism model: src/fsa/version_sync.rs (VersionManager::acquire_reader_token,
   acquire_writer_token, release_reader_token, release_writer_token, try_advance_min_version,
   LazyFreeList::process_safe_items, LazyFreeItem::can_free) and the per-thread TOKEN_CACHE
   of src/fsa/token.rs (TokenManager::acquire_*_token, return_*_token, clear_thread_cache).

   Small-step semantics: ONE shared-memory access per step (an atomic load / RMW / store, a
   mutex acquisition, a mutex release), any number of threads, a schedule is a list of
   thread ids.  Atomics are sequentially consistent here (the code's Relaxed/Acquire/Release
   orderings are not modelled).  A program counter value names the access the thread is
   ABOUT to perform; it corresponds one-to-one to a `sched_point(id)` hook in the code
   (`pc_point`), which is how the harness runs the real code under the same schedule.

   The flag `fx` selects the access order:
     fx = false : the order of the pinned tree (admission check = early load of
                  active_writers; counters incremented after the mutex is released;
                  try_advance_min_version without the mutex)
     fx = true  : the order after the `fix:` commits (admission check, version assignment and
                  counter increment inside one critical section; try_advance_min_version
                  inside the same mutex)
   Definitions only - no proofs in this file. *)
From ZV.Common Require Import Base Run.
Open Scope N_scope.

(* ---------- tokens, operations, program counters ---------- *)
Inductive kind := KR | KW | KRO.   (* reader, writer, read-only reader of level 0 (no callback) *)
Definition kind_eqb (a b : kind) : bool :=
  match a, b with KR, KR | KW, KW | KRO, KRO => true | _, _ => false end.

Record token := Tok { tk : kind; tv : N; tmin : N }.   (* kind, version, min_version at issue *)

Inductive op :=
| AcqR | AcqW            (* VersionManager::acquire_{reader,writer}_token *)
| TmAcqR | TmAcqW        (* TokenManager::acquire_*: thread cache first *)
| Drop (i : nat)         (* drop the i-th token the thread holds *)
| Ret (i : nat)          (* TokenManager::return_*_token of the i-th held token *)
| Clear                  (* TokenManager::clear_thread_cache *)
| Retire                 (* LazyFreeList::push(age = current_version) *)
| Reclaim                (* LazyFreeList::process_safe_items(min_version) *)
(* ---- the operations of the extended histories (harness cells concx/L<level>) ---- *)
| WithR | WithW          (* token::with_{reader,writer}_token: acquire through the thread cache, run the closure
                            (one schedule point while it owns the token), return the token to the cache *)
| Give (i : nat)         (* the i-th held token is moved into a mailbox shared by the threads *)
| Take                   (* the newest token of the mailbox is taken out (Vec::pop) and owned by this thread *)
| RetireN                (* 40 x LazyFreeList::push(age = current_version) *)
| ReclaimBulk            (* if should_bulk_process() { process_safe_items(min_version) } *)
| ClearStats.            (* TokenManager::clear_all_stats: no effect on tokens, counters, versions, queue *)

Inductive pc :=
| Idle
| ALock (k : kind)                 (* acquire: about to lock token_chain_mutex *)
| ALoadAw                          (* writer admission: about to load active_writers *)
| ABusyUnlock                      (* fx: refused inside the critical section, about to unlock *)
| ALoadMin (k : kind)              (* about to load min_version *)
| AFadd (k : kind) (m : N)         (* about to fetch_add current_version *)
| AUnlock (k : kind) (m v : N)     (* about to release the guard *)
| AInc (k : kind) (m v : N)        (* about to increment active_{readers,writers} *)
| RDec (t : token)                 (* release: about to decrement the counter *)
| TLock                            (* fx: try_advance about to lock *)
| TLoadAr | TLoadAw | TLoadCur     (* try_advance loads *)
| TStore (c : N)                   (* about to store min_version := c *)
| TUnlock                          (* fx: try_advance about to unlock *)
| WBody.                           (* with_*_token: inside the closure, the token is in the thread's hands *)

(* hook identifiers, src/fsa/verif_sched.rs `pt` *)
Definition pc_point (p : pc) : N :=
  match p with
  | Idle => 0
  | ALock KW => 11 | ALock _ => 1
  | ALoadAw => 10
  | ABusyUnlock => 16
  | ALoadMin KW => 12 | ALoadMin _ => 2
  | AFadd KW _ => 13 | AFadd _ _ => 3
  | AUnlock KW _ _ => 14 | AUnlock _ _ _ => 4
  | AInc KW _ _ => 15 | AInc _ _ _ => 5
  | RDec t => match tk t with KW => 21 | _ => 20 end
  | TLock => 34 | TLoadAr => 30 | TLoadAw => 31 | TLoadCur => 32 | TStore _ => 33 | TUnlock => 35
  | WBody => 0
  end.

Record thread := Th {
  prog : list op;            (* remaining operations; head = current one *)
  tpc : pc;
  held : list token;         (* tokens owned by the thread's code *)
  cache_r : option token;    (* TOKEN_CACHE.cached_reader *)
  cache_w : option token;    (* TOKEN_CACHE.cached_writer *)
  pend : list token;         (* tokens still to be released by the current operation *)
  res : list Z               (* results of completed operations, oldest first *)
}.

Record shared := Sh {
  lvl : N;                   (* ConcurrencyLevel as u8 *)
  cur : N;                   (* current_version *)
  minv : N;                  (* min_version *)
  ar : N;                    (* active_readers *)
  aw : N;                    (* active_writers *)
  lck : option nat;          (* owner of token_chain_mutex *)
  lazy : list N;             (* ages in the LazyFreeList, front first *)
  mail : list token;         (* tokens handed from thread to thread: owned by no thread, newest first *)
  bulk : N                   (* LazyFreeList::bulk_threshold (usize) *)
}.

Record state := St { sh : shared; ths : list thread }.

(* ---------- small helpers ---------- *)
Definition requires_sync (l : N) : bool := negb ((l =? 0) || (l =? 1)).
Definition dec64 (x : N) : N := if x =? 0 then W64 - 1 else x - 1.   (* fetch_sub(1) on u64 *)
(* fetch_add(1) on u64.  NOT wrapped: 2^64 simultaneously live tokens / 2^64 acquisitions from one
   manager are outside the model (stated as an assumption of the check). *)
Definition inc64 (x : N) : N := x + 1.

Definition opt_list {A} (o : option A) : list A := match o with Some x => [x] | None => [] end.
Fixpoint remove_nth {A} (i : nat) (l : list A) : list A :=
  match l, i with
  | [], _ => []
  | _ :: t, O => t
  | x :: t, S j => x :: remove_nth j t
  end.
Fixpoint upd {A} (l : list A) (i : nat) (x : A) : list A :=
  match l, i with
  | [], _ => []
  | _ :: t, O => x :: t
  | y :: t, S j => y :: upd t j x
  end.

Definition set_pc (th : thread) (p : pc) : thread :=
  Th (prog th) p (held th) (cache_r th) (cache_w th) (pend th) (res th).
Definition set_lck (s : shared) (o : option nat) : shared :=
  Sh (lvl s) (cur s) (minv s) (ar s) (aw s) o (lazy s) (mail s) (bulk s).
Definition set_cur (s : shared) (c : N) : shared :=
  Sh (lvl s) c (minv s) (ar s) (aw s) (lck s) (lazy s) (mail s) (bulk s).
Definition set_min (s : shared) (c : N) : shared :=
  Sh (lvl s) (cur s) c (ar s) (aw s) (lck s) (lazy s) (mail s) (bulk s).
Definition set_ar (s : shared) (c : N) : shared :=
  Sh (lvl s) (cur s) (minv s) c (aw s) (lck s) (lazy s) (mail s) (bulk s).
Definition set_aw (s : shared) (c : N) : shared :=
  Sh (lvl s) (cur s) (minv s) (ar s) c (lck s) (lazy s) (mail s) (bulk s).
Definition set_mail (s : shared) (l : list token) : shared :=
  Sh (lvl s) (cur s) (minv s) (ar s) (aw s) (lck s) (lazy s) l (bulk s).
Definition set_lazy (s : shared) (l : list N) : shared :=
  Sh (lvl s) (cur s) (minv s) (ar s) (aw s) (lck s) l (mail s) (bulk s).

(* the operation a thread is executing / will execute next.  When the program is exhausted
   the thread releases what it still owns (the harness does the same): held tokens first,
   then the cache. *)
Definition cur_op (th : thread) : option op :=
  match prog th with
  | o :: _ => Some o
  | [] => match held th with
          | _ :: _ => Some (Drop 0)
          | [] => match cache_r th, cache_w th with
                  | None, None => None
                  | _, _ => Some Clear
                  end
          end
  end.

(* the current operation is complete: pop it, go idle *)
Definition complete (th : thread) (r : list Z) : thread :=
  Th (tl (prog th)) Idle (held th) (cache_r th) (cache_w th) (pend th) (res th ++ r).

(* continue with the next pending release; read-only tokens have no release callback *)
Fixpoint next_release (l : list token) : option (token * list token) :=
  match l with
  | [] => None
  | t :: r => match tk t with KRO => next_release r | _ => Some (t, r) end
  end.
Definition release_next (th : thread) : thread :=
  match next_release (pend th) with
  | Some (t, r) => Th (prog th) (RDec t) (held th) (cache_r th) (cache_w th) r (res th)
  | None => complete (Th (prog th) (tpc th) (held th) (cache_r th) (cache_w th) [] (res th)) []
  end.
Definition with_pend (th : thread) (l : list token) : thread :=
  Th (prog th) (tpc th) (held th) (cache_r th) (cache_w th) l (res th).

(* the thread is executing with_reader_token / with_writer_token *)
Definition in_with (th : thread) : bool :=
  match prog th with WithR :: _ | WithW :: _ => true | _ => false end.
(* the acquire returns: the token goes to the thread, results are recorded.  Inside with_*_token the
   operation is not over: the closure runs next (program counter WBody). *)
Definition got_token (th : thread) (t : token) : thread :=
  if in_with th then
    Th (prog th) WBody (held th ++ [t]) (cache_r th) (cache_w th) (pend th)
       (res th ++ [Z.of_N (tv t); Z.of_N (tmin t)])
  else
  complete (Th (prog th) (tpc th) (held th ++ [t]) (cache_r th) (cache_w th) (pend th) (res th))
           [Z.of_N (tv t); Z.of_N (tmin t)].
Definition refused (th : thread) : thread := complete th [(-1)%Z; (-1)%Z].

(* TokenManager::return_*_token of the i-th held token: it goes into its slot of the thread cache, the
   token cached there before is dropped, i.e. released inside this operation *)
Definition do_ret (th : thread) (i : nat) : thread :=
  match nth_error (held th) i with
  | None => complete th []
  | Some t =>
      match tk t with
      | KW => release_next
                (Th (prog th) Idle (remove_nth i (held th)) (cache_r th) (Some t) (opt_list (cache_w th)) (res th))
      | _ => release_next
                (Th (prog th) Idle (remove_nth i (held th)) (Some t) (cache_w th) (opt_list (cache_r th)) (res th))
      end
  end.

(* VersionManager::acquire_*_token up to its first shared access *)
Definition begin_acquire (fx : bool) (s : shared) (th : thread) (k : kind) : thread :=
  if lvl s =? 0 then
    match k with
    | KW => refused th                         (* writers not allowed in NoWriteReadOnly *)
    | _ => got_token th (Tok KRO 0 0)          (* ReaderToken::new_readonly, no callback *)
    end
  else if requires_sync (lvl s) then
    match k with
    | KW => if negb fx && (lvl s =? 3) then set_pc th ALoadAw else set_pc th (ALock KW)
    | _ => set_pc th (ALock k)
    end
  else set_pc th (AInc k 1 1).                (* single-threaded levels: (version, min) = (1, 1) *)

(* LazyFreeList::process_safe_items: pop the front while age < min, at most `fuel` items *)
Fixpoint take_safe (fuel : nat) (m : N) (l : list N) : list N * list N :=
  match fuel, l with
  | S f, a :: r => if a <? m then let '(x, y) := take_safe f m r in (a :: x, y) else ([], l)
  | _, _ => ([], l)
  end.
Definition BULK_FREE_NUM : nat := 32.

(* LazyFreeList::process_safe_items with the list's own bulk_threshold, the loop as written:
     while let Some(front) = items.front() {
         if !front.can_free(min) { break }  pop_front; free_fn(item); processed += 1;
         if processed >= bulk_threshold { break } }
   so a threshold of 0 still frees one item per call.  `fuel` = length of the queue. *)
Fixpoint psi (fuel : nat) (thr m processed : N) (l : list N) : list N * list N :=
  match fuel, l with
  | S f, a :: r =>
      if a <? m then
        let p := processed + 1 in
        if thr <=? p then ([a], r)
        else let '(x, y) := psi f thr m p r in (a :: x, y)
      else ([], l)
  | _, _ => ([], l)
  end.
Definition process_safe (thr m : N) (l : list N) : list N * list N := psi (length l) thr m 0 l.
(* LazyFreeList::should_bulk_process: len() >= bulk_threshold.saturating_mul(2)   (usize = u64) *)
Definition should_bulk (thr : N) (l : list N) : bool := N.min (2 * thr) (W64 - 1) <=? nlen l.
Definition BULK_FREE_N : N := 32.
Definition RETIRE_N : nat := 40.

(* ---------- one step of thread `tid` ---------- *)
Definition tstep (fx : bool) (tid : nat) (s : shared) (th : thread) : option (shared * thread) :=
  match tpc th with
  | Idle =>
      match cur_op th with
      | None => None
      | Some AcqR => Some (s, begin_acquire fx s th KR)
      | Some AcqW => Some (s, begin_acquire fx s th KW)
      | Some TmAcqR =>
          match cache_r th with
          | Some t => Some (s, complete (Th (prog th) Idle (held th ++ [t]) None (cache_w th) (pend th) (res th))
                                        [Z.of_N (tv t); Z.of_N (tmin t)])
          | None => Some (s, begin_acquire fx s th KR)
          end
      | Some TmAcqW =>
          match cache_w th with
          | Some t => Some (s, complete (Th (prog th) Idle (held th ++ [t]) (cache_r th) None (pend th) (res th))
                                        [Z.of_N (tv t); Z.of_N (tmin t)])
          | None => Some (s, begin_acquire fx s th KW)
          end
      | Some (Drop i) =>
          match nth_error (held th) i with
          | None => Some (s, complete th [])
          | Some t => Some (s, release_next
                (Th (prog th) Idle (remove_nth i (held th)) (cache_r th) (cache_w th) [t] (res th)))
          end
      | Some (Ret i) => Some (s, do_ret th i)
      | Some Clear =>
          Some (s, release_next
                (Th (prog th) Idle (held th) None None (opt_list (cache_r th) ++ opt_list (cache_w th)) (res th)))
      | Some Retire => Some (set_lazy s (lazy s ++ [cur s]), complete th [])
      | Some Reclaim =>
          let '(freed, rest) := process_safe (bulk s) (minv s) (lazy s) in
          Some (set_lazy s rest, complete th ((1000 + Z.of_nat (length freed))%Z :: map Z.of_N freed))
      | Some WithR =>
          match cache_r th with
          | Some t => Some (s, got_token (Th (prog th) Idle (held th) None (cache_w th) (pend th) (res th)) t)
          | None => Some (s, begin_acquire fx s th KR)
          end
      | Some WithW =>
          match cache_w th with
          | Some t => Some (s, got_token (Th (prog th) Idle (held th) (cache_r th) None (pend th) (res th)) t)
          | None => Some (s, begin_acquire fx s th KW)
          end
      | Some (Give i) =>
          match nth_error (held th) i with
          | None => Some (s, complete th [])
          | Some t => Some (set_mail s (t :: mail s),
                            complete (Th (prog th) Idle (remove_nth i (held th)) (cache_r th) (cache_w th) (pend th) (res th)) [])
          end
      | Some Take =>
          match mail s with
          | [] => Some (s, complete th [])
          | t :: r => Some (set_mail s r,
                            complete (Th (prog th) Idle (held th ++ [t]) (cache_r th) (cache_w th) (pend th) (res th)) [])
          end
      | Some RetireN => Some (set_lazy s (lazy s ++ repeat (cur s) RETIRE_N), complete th [])
      | Some ReclaimBulk =>
          if should_bulk (bulk s) (lazy s) then
            let '(freed, rest) := process_safe (bulk s) (minv s) (lazy s) in
            Some (set_lazy s rest, complete th ((1000 + Z.of_nat (length freed))%Z :: map Z.of_N freed))
          else Some (s, complete th [1000%Z])
      | Some ClearStats => Some (s, complete th [])
      end
  | ALock k =>
      match lck s with
      | Some _ => None                                         (* blocked *)
      | None => Some (set_lck s (Some tid),
                      set_pc th (if fx && kind_eqb k KW && (lvl s =? 3) then ALoadAw else ALoadMin k))
      end
  | ALoadAw =>
      if fx then Some (s, set_pc th (if 0 <? aw s then ABusyUnlock else ALoadMin KW))
      else Some (s, if 0 <? aw s then refused th else set_pc th (ALock KW))
  | ABusyUnlock => Some (set_lck s None, refused th)
  | ALoadMin k => Some (s, set_pc th (AFadd k (minv s)))
  | AFadd k m =>
      let v := cur s + 1 in
      Some (set_cur s v, set_pc th (if fx then AInc k m v else AUnlock k m v))
  | AUnlock k m v =>
      Some (set_lck s None, if fx then got_token th (Tok k v m) else set_pc th (AInc k m v))
  | AInc k m v =>
      let s' := match k with KW => set_aw s (inc64 (aw s)) | _ => set_ar s (inc64 (ar s)) end in
      Some (s', if fx && requires_sync (lvl s) then set_pc th (AUnlock k m v) else got_token th (Tok k v m))
  | RDec t =>
      let s' := match tk t with KW => set_aw s (dec64 (aw s)) | _ => set_ar s (dec64 (ar s)) end in
      Some (s', if requires_sync (lvl s) then set_pc th (if fx then TLock else TLoadAr)
                else release_next th)
  | TLock =>
      match lck s with
      | Some _ => None
      | None => Some (set_lck s (Some tid), set_pc th TLoadAr)
      end
  | TLoadAr =>
      Some (s, if ar s =? 0 then set_pc th TLoadAw
               else if fx then set_pc th TUnlock else release_next th)
  | TLoadAw =>
      Some (s, if aw s =? 0 then set_pc th TLoadCur
               else if fx then set_pc th TUnlock else release_next th)
  | TLoadCur => Some (s, set_pc th (TStore (cur s)))
  | TStore c => Some (set_min s c, if fx then set_pc th TUnlock else release_next th)
  | TUnlock => Some (set_lck s None, release_next th)
  | WBody => Some (s, do_ret th (pred (length (held th))))   (* the closure returns Ok: return_*_token *)
  end.

Definition step (fx : bool) (st : state) (tid : nat) : state :=
  match nth_error (ths st) tid with
  | None => st
  | Some th =>
      match tstep fx tid (sh st) th with
      | None => st                                (* disabled or finished: stutter *)
      | Some (s', th') => St s' (upd (ths st) tid th')
      end
  end.

Definition run (fx : bool) (sched : list nat) (st : state) : state := fold_left (step fx) sched st.

Definition init_thread (p : list op) : thread := Th p Idle [] None None [] [].
(* a fresh manager, an empty mailbox, a LazyFreeList::with_bulk_threshold(b) *)
Definition initb (level b : N) (progs : list (list op)) : state :=
  St (Sh level 1 1 0 0 None [] [] b) (map init_thread progs).
(* LazyFreeList::new(): bulk_threshold = BULK_FREE_NUM *)
Definition init (level : N) (progs : list (list op)) : state := initb level BULK_FREE_N progs.

(* ---------- what the property talks about (spec layer) ---------- *)
(* tokens a thread owns: in its hands, in its cache, or queued for release by the running op *)
Definition tokens_of (th : thread) : list token :=
  held th ++ opt_list (cache_r th) ++ opt_list (cache_w th) ++ pend th.
(* a token whose version has been assigned but which has not been returned yet *)
Definition inflight (th : thread) : list token :=
  match tpc th with
  | AUnlock k m v | AInc k m v => [Tok k v m]
  | _ => []
  end.
Definition live (st : state) : list token := flat_map tokens_of (ths st) ++ mail (sh st).
Definition count_kind (k : kind) (l : list token) : N :=
  nlen (filter (fun t => kind_eqb (tk t) k) l).
Definition tracked (t : token) : Prop := tk t <> KRO.
Definition quiescent (st : state) : Prop := forall th, In th (ths st) -> tpc th = Idle.
Definition all_done (st : state) : Prop :=
  mail (sh st) = [] /\ forall th, In th (ths st) -> tpc th = Idle /\ cur_op th = None.

(* ---------- observation compared with the implementation after every step ---------- *)
Definition point_of (th : thread) : N :=
  match tpc th with
  | Idle => match cur_op th with None => 99 | Some _ => 0 end
  | p => pc_point p
  end.
Definition obs_t : Type := (N * N * N * N * N)%type.   (* point, cur, min, ar, aw *)
Definition observe (st : state) (tid : nat) : obs_t :=
  let s := sh st in
  (match nth_error (ths st) tid with Some th => point_of th | None => 98 end,
   cur s, minv s, ar s, aw s).
Fixpoint run_trace (fx : bool) (sched : list nat) (st : state) : list obs_t * state :=
  match sched with
  | [] => ([], st)
  | t :: r => let st' := step fx st t in
              let '(tr, fin) := run_trace fx r st' in
              (observe st' t :: tr, fin)
  end.

Definition eqb_obs (a b : obs_t) : bool :=
  let '(a1, a2, a3, a4, a5) := a in
  let '(b1, b2, b3, b4, b5) := b in
  (a1 =? b1) && (a2 =? b2) && (a3 =? b3) && (a4 =? b4) && (a5 =? b5).
Fixpoint eqb_trace (a b : list obs_t) : bool :=
  match a, b with
  | [], [] => true
  | x :: a', y :: b' => eqb_obs x y && eqb_trace a' b'
  | _, _ => false
  end.
Fixpoint eqb_llz (a b : list (list Z)) : bool :=
  match a, b with
  | [], [] => true
  | x :: a', y :: b' => eqb_lz x y && eqb_llz a' b'
  | _, _ => false
  end.

(* a case of the correspondence check: level, programs, schedule, what the code showed *)
Definition conc_case : Type := (N * list (list op) * list nat * list obs_t * list (list Z))%type.
Definition conc_ok (fx : bool) (c : conc_case) : bool :=
  let '(level, progs, sched, trace, results) := c in
  let '(tr, fin) := run_trace fx sched (init level progs) in
  eqb_trace tr trace && eqb_llz (map res (ths fin)) results.

(* the same with the bulk threshold of the shared LazyFreeList as a part of the case *)
Definition concb_case : Type := (N * N * list (list op) * list nat * list obs_t * list (list Z))%type.
Definition concb_ok (fx : bool) (c : concb_case) : bool :=
  let '(level, b, progs, sched, trace, results) := c in
  let '(tr, fin) := run_trace fx sched (initb level b progs) in
  eqb_trace tr trace && eqb_llz (map res (ths fin)) results.
