(* C16: the access order of the pinned tree (fx = false) violates the property - explicit schedules.
   The same programs and schedules failed on the real code before the fix: commits (see findings/C16.txt);
   after the fixes the code follows fx = true, for which ProofsMain.v proves the property. *)
From ZV.Common Require Import Base.
From ZV.C16 Require Import Model ModelSeq.
Open Scope N_scope.

(* both writers load active_writers = 0 before either increments it *)
Definition w2_progs : list (list op) := [[AcqW]; [AcqW]].
Definition w2_sched : list nat := [0; 0; 1; 1; 0; 0; 0; 0; 0; 1; 1; 1; 1; 1]%nat.
Lemma two_writers_old : count_kind KW (live (run false w2_sched (init 3 w2_progs))) = 2.
Proof. vm_compute. reflexivity. Qed.

(* thread 1 has its version assigned but is not counted yet; thread 0 acquires and releases and,
   seeing both counters at zero, publishes the newer current_version as min_version *)
Definition mo_progs : list (list op) := [[AcqR; Drop 0]; [AcqR]].
Definition mo_sched : list nat := ([1; 1; 1; 1; 1] ++ repeat 0 12 ++ [1])%nat.
Lemma min_overtakes_old :
  let st := run false mo_sched (init 4 mo_progs) in
  In (Tok KR 2 1) (live st) /\ minv (sh st) = 3.
Proof. vm_compute. split; [left; reflexivity|reflexivity]. Qed.

(* ... and an item retired at version 2 is then handed to the free callback while the token of
   version 2 is live *)
Definition rc_progs : list (list op) := [[Retire; AcqR; Drop 0; Reclaim]; [AcqR]].
Definition rc_sched : list nat := ([1; 1; 1; 1; 1] ++ repeat 0 13 ++ [1])%nat.
Lemma reclaim_unsafe_old :
  let st := run false rc_sched (init 4 rc_progs) in
  In (Tok KR 2 1) (live st) /\
  fst (take_safe BULK_FREE_NUM (minv (sh st)) (lazy (sh st))) = [2].
Proof. vm_compute. split; [left; reflexivity|reflexivity]. Qed.

(* the same schedules are harmless under the fixed order *)
Lemma two_writers_fixed : count_kind KW (live (run true w2_sched (init 3 w2_progs))) <= 1.
Proof. vm_compute. discriminate. Qed.

(* ---------- sequential histories over several managers (pinned tree, fx = false) ---------- *)
(* a token outlives the manager that issued it: its release dereferences the dropped manager *)
Definition dangling_hist : list sop := [SNew true 3; SAcq true KR 0; SDropMgr 0; SDrop 0].
Lemma dangling_release : dangling (srun_ops false dangling_hist sinit) = 1.
Proof. vm_compute. reflexivity. Qed.
(* ... also through the thread cache: manager 0 caches, is dropped, the cache is cleared *)
Definition dangling_cache_hist : list sop := [SNew true 4; SAcq true KW 0; SRet 0; SDropMgr 0; SClear].
Lemma dangling_release_cache : dangling (srun_ops false dangling_cache_hist sinit) = 1.
Proof. vm_compute. reflexivity. Qed.

(* the thread cache is shared by all managers: manager 1 (OneWriteMultiRead) hands out the writer
   token cached by manager 0 and then a fresh one - two live writer tokens from one manager *)
Definition cross_hist : list sop :=
  [SNew true 3; SNew true 3; SAcq true KW 0; SRet 0; SAcq true KW 1; SAcq true KW 1].
Lemma cross_cache_two_writers : handed_writers (srun_ops false cross_hist sinit) 1 = 2.
Proof. vm_compute. reflexivity. Qed.

(* ---------- the statements of coq/C16/Properties.v ---------- *)
Lemma two_writers_refuted_proof :
  exists progs sched, count_kind KW (live (run false sched (init 3 progs))) = 2.
Proof. exists w2_progs, w2_sched. exact two_writers_old. Qed.

Lemma min_version_overtakes_refuted_proof :
  exists level progs sched t,
    let st := run false sched (init level progs) in
    In t (live st) /\ tracked t /\ tv t < minv (sh st).
Proof.
  exists 4, mo_progs, mo_sched, (Tok KR 2 1). cbv zeta. destruct min_overtakes_old as [A B].
  split; [exact A|]. split; [discriminate|]. rewrite B. reflexivity.
Qed.

Lemma reclaim_unsafe_refuted_proof :
  exists level progs sched a t,
    let st := run false sched (init level progs) in
    In a (fst (take_safe BULK_FREE_NUM (minv (sh st)) (lazy (sh st)))) /\
    In t (live st) /\ tracked t /\ tv t <= a.
Proof.
  exists 4, rc_progs, rc_sched, 2, (Tok KR 2 1). cbv zeta. destruct reclaim_unsafe_old as [A B].
  split; [rewrite B; left; reflexivity|]. split; [exact A|]. split; [discriminate|]. cbn. lia.
Qed.

(* the same histories are harmless after the fixes *)
Lemma dangling_fixed : dangling (sfinish true (srun_ops true dangling_hist sinit)) = 0
                       /\ dangling (sfinish true (srun_ops true dangling_cache_hist sinit)) = 0.
Proof. vm_compute. split; reflexivity. Qed.
Lemma cross_cache_fixed : handed_writers (srun_ops true cross_hist sinit) 1 = 1.
Proof. vm_compute. reflexivity. Qed.
