(* C16, sequential part: one thread, several managers, the thread-local TOKEN_CACHE shared by
   all of them (src/fsa/token.rs), tokens that call back into the state of the manager that
   issued them (src/fsa/version_sync.rs TokenReleaseCallback), managers dropped in any order.

   A manager's counters live in a reference-counted VersionState (Arc): one reference is held by
   the VersionManager handle and one by every tracked token it issued; the state is freed when
   the last reference goes.  A TokenManager takes a token from the thread cache only if that
   token was issued by its own VersionManager (TokenCache::get_*_token_for).

   Each VersionManager operation is the sequential summary of the access sequence modelled step
   by step in Model.v (ProofsSolo.v proves that a thread running alone under Model.tstep computes
   exactly these summaries: solo_acquire_refines, solo_release_refines).  `fx` as in Model.v:
   false = pinned tree (raw manager pointer in the token, unfiltered cache).  Definitions only. *)
From ZV.Common Require Import Base Run.
From ZV.C16 Require Import Model.
Open Scope N_scope.

(* VersionManager::acquire_{reader,writer}_token executed without interference *)
Definition acquire_seq (s : shared) (k : kind) : shared * option token :=
  if lvl s =? 0 then
    match k with KW => (s, None) | _ => (s, Some (Tok KRO 0 0)) end
  else if requires_sync (lvl s) then
    match k with
    | KW => if (lvl s =? 3) && (0 <? aw s) then (s, None)
            else let v := cur s + 1 in
                 (set_aw (set_cur s v) (inc64 (aw s)), Some (Tok KW v (minv s)))
    | _ => let v := cur s + 1 in
           (set_ar (set_cur s v) (inc64 (ar s)), Some (Tok k v (minv s)))
    end
  else
    match k with
    | KW => (set_aw s (inc64 (aw s)), Some (Tok KW 1 1))
    | _ => (set_ar s (inc64 (ar s)), Some (Tok k 1 1))
    end.

(* release_{reader,writer}_token + try_advance_min_version executed without interference *)
Definition release_seq (s : shared) (k : kind) : shared :=
  let s1 := match k with KW => set_aw s (dec64 (aw s)) | _ => set_ar s (dec64 (ar s)) end in
  if requires_sync (lvl s1) then
    if (ar s1 =? 0) && (aw s1 =? 0) then set_min s1 (cur s1) else s1
  else s1.

Inductive sop :=
| SNew (is_tm : bool) (level : N)          (* TokenManager::new / VersionManager::new *)
| SAcq (via_cache : bool) (k : kind) (m : nat)
| SRet (i : nat)                           (* return_*_token of the i-th held token *)
| SDrop (i : nat)
| SClear                                   (* clear_thread_cache *)
| SDropMgr (m : nat).                      (* the manager (and its VersionManager) is destroyed *)

(* m_alive: the handle exists; m_refs: strong references to the state (0 = freed) *)
Record mgr := Mg { m_alive : bool; m_tm : bool; m_refs : N; m_sh : shared }.
Record stok := STk { s_tok : token; s_issuer : nat; s_by : nat }.  (* token, issuing manager, manager whose acquire returned it *)

Record sstate := SS {
  mgrs : list mgr;
  sheld : list stok;
  scr : option stok;            (* TOKEN_CACHE.cached_reader *)
  scw : option stok;            (* TOKEN_CACHE.cached_writer *)
  dangling : N                  (* releases aimed at a destroyed manager so far *)
}.

Definition set_mgrs (st : sstate) (l : list mgr) : sstate := SS l (sheld st) (scr st) (scw st) (dangling st).

(* Drop for ReaderToken / WriterToken: call back into the issuing manager *)
Definition release_tok (fx : bool) (st : sstate) (t : stok) : sstate :=
  match tk (s_tok t) with
  | KRO => st                                  (* no callback, no reference *)
  | k =>
      match nth_error (mgrs st) (s_issuer t) with
      | Some g =>
          (* pinned tree (fx = false): the token holds a raw pointer, the state dies with the handle *)
          if (if fx then m_refs g =? 0 else negb (m_alive g)) then
            SS (mgrs st) (sheld st) (scr st) (scw st) (dangling st + 1)   (* would touch freed memory *)
          else
            (* the callback runs on the state, then the token's reference is dropped *)
            set_mgrs st (upd (mgrs st) (s_issuer t)
                             (Mg (m_alive g) (m_tm g) (m_refs g - 1) (release_seq (m_sh g) k)))
      | None => st
      end
  end.
Definition release_opt (fx : bool) (st : sstate) (o : option stok) : sstate :=
  match o with Some t => release_tok fx st t | None => st end.

(* ReaderToken/WriterToken::issued_by: same state; a read-only token belongs to any read-only manager *)
Definition issued_by (st : sstate) (t : stok) (i : nat) (g : mgr) : bool :=
  match tk (s_tok t) with
  | KRO => lvl (m_sh g) =? 0
  | _ => Nat.eqb (s_issuer t) i
  end.

Definition pick_mgr (st : sstate) (m : nat) : option (nat * mgr) :=
  match mgrs st with
  | [] => None
  | _ => let i := Nat.modulo m (length (mgrs st)) in
         match nth_error (mgrs st) i with
         | Some g => if m_alive g then Some (i, g) else None
         | None => None
         end
  end.

(* one operation; returns the new state and the result reported by an acquire *)
Definition sstep (fx : bool) (st : sstate) (o : sop) : sstate * list Z :=
  match o with
  | SNew is_tm level => (set_mgrs st (mgrs st ++ [Mg true is_tm 1 (Sh level 1 1 0 0 None [] [] BULK_FREE_N)]), [])
  | SAcq via k m =>
      match pick_mgr st m with
      | None => (st, [])
      | Some (i, g) =>
          let slot := match k with KW => scw st | _ => scr st end in
          let cached :=
            if via && m_tm g then
              match slot with
              | Some t => if negb fx || issued_by st t i g then Some t else None   (* fx: a foreign token stays cached *)
              | None => None
              end
            else None in
          match cached with
          | Some t =>
              (* cache hit: the cached token (issued by this manager) is handed out again *)
              (SS (mgrs st) (sheld st ++ [STk (s_tok t) (s_issuer t) i])
                  (match k with KW => scr st | _ => None end)
                  (match k with KW => None | _ => scw st end) (dangling st),
               [Z.of_N (tv (s_tok t))])
          | None =>
              match acquire_seq (m_sh g) k with
              | (s', Some t) =>
                  let refs := match tk t with KRO => m_refs g | _ => m_refs g + 1 end in
                  (SS (upd (mgrs st) i (Mg true (m_tm g) refs s')) (sheld st ++ [STk t i i]) (scr st) (scw st) (dangling st),
                   [Z.of_N (tv t)])
              | (s', None) => (st, [(-1)%Z])
              end
          end
      end
  | SRet i =>
      match nth_error (sheld st) i with
      | None => (st, [])
      | Some t =>
          match tk (s_tok t) with
          | KW => (release_opt fx (SS (mgrs st) (remove_nth i (sheld st)) (scr st) (Some t) (dangling st)) (scw st), [])
          | _ => (release_opt fx (SS (mgrs st) (remove_nth i (sheld st)) (Some t) (scw st) (dangling st)) (scr st), [])
          end
      end
  | SDrop i =>
      match nth_error (sheld st) i with
      | None => (st, [])
      | Some t => (release_tok fx (SS (mgrs st) (remove_nth i (sheld st)) (scr st) (scw st) (dangling st)) t, [])
      end
  | SClear =>
      (release_opt fx (release_opt fx (SS (mgrs st) (sheld st) None None (dangling st)) (scr st)) (scw st), [])
  | SDropMgr m =>
      match pick_mgr st m with
      | None => (st, [])
      | Some (i, g) => (set_mgrs st (upd (mgrs st) i (Mg false (m_tm g) (m_refs g - 1) (m_sh g))), [])
      end
  end.

(* end of the history: everything still owned is released (held tokens, then the cache) *)
Definition sfinish_held (fx : bool) (st : sstate) : sstate :=
  fold_left (release_tok fx) (sheld st) (SS (mgrs st) [] (scr st) (scw st) (dangling st)).
Definition sfinish (fx : bool) (st : sstate) : sstate :=
  let st1 := sfinish_held fx st in
  release_opt fx (release_opt fx (SS (mgrs st1) [] None None (dangling st1)) (scr st1)) (scw st1).

Definition sinit : sstate := SS [] [] None None 0.

Definition mgr_obs (g : mgr) : list Z :=
  if m_alive g then
    let s := m_sh g in [Z.of_N (cur s); Z.of_N (minv s); Z.of_N (ar s); Z.of_N (aw s)]
  else [(-2)%Z].
Definition sobs (st : sstate) (r : list Z) : list Z := r ++ flat_map mgr_obs (mgrs st).

(* `leave`: the cache is left to the thread-exit destructor (not observed) *)
Fixpoint srun (fx leave : bool) (ops : list sop) (st : sstate) : list (list Z) * sstate :=
  match ops with
  | [] => let st' := if leave then sfinish_held fx st else sfinish fx st in ([sobs st' []], st')
  | o :: r => let '(st', res) := sstep fx st o in
              let '(tr, fin) := srun fx leave r st' in
              (sobs st' res :: tr, fin)
  end.

Definition seq_case : Type := (bool * list sop * list (list Z))%type.
Definition seq_ok (c : seq_case) : bool :=
  let '(leave, ops, obs) := c in eqb_llz (fst (srun true leave ops sinit)) obs.

(* ---- what the property says about such histories ---- *)
(* writer tokens that manager i's acquire calls have handed out and that are still held *)
Definition handed_writers (st : sstate) (i : nat) : N :=
  nlen (filter (fun t => Nat.eqb (s_by t) i && kind_eqb (tk (s_tok t)) KW) (sheld st)).
Definition srun_ops (fx : bool) (ops : list sop) (st : sstate) : sstate :=
  fold_left (fun s o => fst (sstep fx s o)) ops st.
