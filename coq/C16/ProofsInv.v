(* C16: every step of the fixed access order preserves the invariant. *)
From ZV.Common Require Import Base.
From ZV.C16 Require Import Model ProofsBase.
Open Scope N_scope.

(* ---------- tok_ok under changes of the shared state ---------- *)
Lemma tok_ok_mono s s' t :
  minv s' <= minv s -> cur s <= cur s' -> tok_ok s t -> tok_ok s' t.
Proof. unfold tok_ok. intros H1 H2 H Hk. specialize (H Hk). lia. Qed.
Lemma Forall_tok_ok_mono s s' l :
  minv s' <= minv s -> cur s <= cur s' -> Forall (tok_ok s) l -> Forall (tok_ok s') l.
Proof. intros H1 H2. apply Forall_impl. intros t. apply tok_ok_mono; assumption. Qed.
Lemma tok_ok_kro s t : tk t = KRO -> tok_ok s t.
Proof. unfold tok_ok. congruence. Qed.

(* ---------- frames for the threads that do not move ---------- *)
Lemma facts_not_cs s s' p : in_cs (lvl s) p = false -> lvl s' = lvl s -> pc_facts s' p.
Proof.
  intros H L. destruct p as [|k| | |k|k m|k m v|k m v|t| | | | |c| |]; cbn in *; try discriminate; auto.
  destruct k; auto. intros L3. rewrite L in L3. rewrite L3 in H. discriminate.
Qed.

Lemma tinv_frame_notcs s s' i th :
  tinv s i th -> in_cs (lvl s) (tpc th) = false -> lvl s' = lvl s ->
  Forall (tok_ok s') (tokens_of th ++ inflight th) -> tinv s' i th.
Proof.
  intros [H1 H2 H3 H4 H5 H6] N L F. constructor; auto.
  - rewrite L, N. discriminate.
  - rewrite L. exact H4.
  - eapply facts_not_cs; eauto.
Qed.

Lemma tinv_ext s s' i th :
  lvl s' = lvl s -> cur s' = cur s -> minv s' = minv s -> ar s' = ar s -> aw s' = aw s -> lck s' = lck s ->
  tinv s i th -> tinv s' i th.
Proof.
  intros L C M A W K [H1 H2 H3 H4 H5 H6]. constructor; auto.
  - rewrite L, K. exact H1.
  - eapply Forall_tok_ok_mono; [| |exact H2]; lia.
  - rewrite L. exact H4.
  - destruct (tpc th) as [|k| | |k|k m|k m v|k m v|t| | | | |c| |]; cbn in *; auto;
      try (destruct k; auto; rewrite L, W; exact H5); try (rewrite A; exact H5);
      try (rewrite A, W; exact H5); try (rewrite A, W, C; exact H5).
Qed.

Lemma other_not_cs_locked s t th i thi :
  tinv s t th -> in_cs (lvl s) (tpc th) = true -> i <> t -> tinv s i thi ->
  in_cs (lvl s) (tpc thi) = false.
Proof.
  intros Ht Hc Hne Hi. destruct (in_cs (lvl s) (tpc thi)) eqn:E; [|reflexivity].
  apply (i_cs _ _ _ Ht) in Hc. apply (i_cs _ _ _ Hi) in E. congruence.
Qed.
Lemma other_not_cs_free s i thi :
  lck s = None -> tinv s i thi -> in_cs (lvl s) (tpc thi) = false.
Proof.
  intros Hl Hi. destruct (in_cs (lvl s) (tpc thi)) eqn:E; [|reflexivity].
  apply (i_cs _ _ _ Hi) in E. congruence.
Qed.
Lemma other_not_cs_nosync s i thi :
  requires_sync (lvl s) = false -> tinv s i thi -> in_cs (lvl s) (tpc thi) = false.
Proof.
  intros Hs Hi. pose proof (i_lvl _ _ _ Hi Hs) as H.
  destruct (tpc thi); cbn in *; try contradiction; auto.
Qed.

Lemma others_frame s s' i thi :
  tinv s i thi -> in_cs (lvl s) (tpc thi) = false ->
  lvl s' = lvl s -> minv s' = minv s -> cur s <= cur s' -> tinv s' i thi.
Proof.
  intros Hi N L M C. eapply tinv_frame_notcs; eauto.
  eapply Forall_tok_ok_mono; [| |exact (i_tok _ _ _ Hi)]; lia.
Qed.

(* a decrement of a counter that is at least 1 cannot invalidate a recorded "counter = 0" *)
Lemma tinv_dec_ar s i thi :
  1 <= ar s -> tinv s i thi -> tinv (set_ar s (dec64 (ar s))) i thi.
Proof.
  intros A [H1 H2 H3 H4 H5 H6]. constructor; cbn; auto.
  destruct (tpc thi) as [|k| | |k|k m|k m v|k m v|t| | | | |c| |]; cbn in *; auto; exfalso; lia.
Qed.
Lemma tinv_dec_aw s i thi :
  1 <= aw s -> tinv s i thi -> tinv (set_aw s (dec64 (aw s))) i thi.
Proof.
  intros A [H1 H2 H3 H4 H5 H6]. constructor; cbn; auto.
  destruct (tpc thi) as [|k| | |k|k m|k m v|k m v|t| | | | |c| |]; cbn in *; auto;
    try (destruct k; auto; intros L3; specialize (H5 L3)); exfalso; lia.
Qed.

(* ---------- shapes of the moving thread ---------- *)
Lemma tokens_of_set_pc th p : tokens_of (set_pc th p) = tokens_of th.
Proof. reflexivity. Qed.

Lemma tinv_idle s i th :
  tpc th = Idle -> pend th = [] -> Forall (tok_ok s) (tokens_of th) -> tinv s i th.
Proof.
  intros P E F. constructor; rewrite ?P; cbn; auto; try discriminate.
  - unfold inflight. rewrite P. rewrite app_nil_r. exact F.
  - intros _. exact I.
Qed.
Lemma tinv_wbody s i th :
  tpc th = WBody -> pend th = [] -> Forall (tok_ok s) (tokens_of th) -> tinv s i th.
Proof.
  intros P E F. constructor; rewrite ?P; cbn; auto; try discriminate.
  - unfold inflight. rewrite P. rewrite app_nil_r. exact F.
  - intros _. exact I.
Qed.
Lemma tinv_rdec s i th t :
  tpc th = RDec t -> tk t <> KRO -> Forall (tok_ok s) (tokens_of th) -> tinv s i th.
Proof.
  intros P K F. constructor; rewrite ?P; cbn; auto; try discriminate.
  - unfold inflight. rewrite P. rewrite app_nil_r. exact F.
  - intros _. exact I.
Qed.

Lemma tokens_of_complete th r : tokens_of (complete th r) = tokens_of th.
Proof. reflexivity. Qed.

Lemma next_release_spec l :
  match next_release l with
  | Some (t, r) => tk t <> KRO /\
                   (forall k, k <> KRO -> count_kind k l = count_kind k [t] + count_kind k r) /\
                   (forall P : token -> Prop, Forall P l -> Forall P r)
  | None => forall k, k <> KRO -> count_kind k l = 0
  end.
Proof.
  induction l as [|a l IH]; cbn [next_release].
  - intros; reflexivity.
  - destruct (tk a) eqn:K.
    + split; [congruence|]. split.
      * intros k _. rewrite (count_kind_cons k a l), count_kind_one. reflexivity.
      * intros P H. inversion H; auto.
    + split; [congruence|]. split.
      * intros k _. rewrite (count_kind_cons k a l), count_kind_one. reflexivity.
      * intros P H. inversion H; auto.
    + destruct (next_release l) as [[t r]|].
      * destruct IH as (A & B & C). split; [exact A|]. split.
        -- intros k Hk. rewrite (count_kind_cons k a l), K. rewrite (B k Hk).
           destruct k; try congruence; cbn [kind_eqb]; apply N.add_0_l.
        -- intros P H. inversion H; auto.
      * intros k Hk. rewrite (count_kind_cons k a l), K, (IH k Hk). destruct k; try congruence; reflexivity.
Qed.

(* result of release_next: idle (nothing left to release) or at the next decrement *)
Lemma release_next_tinv s i th :
  Forall (tok_ok s) (tokens_of th) -> tinv s i (release_next th).
Proof.
  intros F. unfold release_next. pose proof (next_release_spec (pend th)) as S.
  destruct (next_release (pend th)) as [[t r]|].
  - destruct S as (A & _ & C). eapply tinv_rdec; [reflexivity|exact A|].
    unfold tokens_of in *. cbn. rewrite !Forall_app in *. intuition.
  - apply tinv_idle; [reflexivity|reflexivity|].
    unfold tokens_of in *. cbn. rewrite !Forall_app in *. intuition.
Qed.
Lemma release_next_cnt k th :
  k <> KRO -> cnt k (release_next th) = count_kind k (tokens_of th).
Proof.
  intros Hk. unfold release_next, cnt. pose proof (next_release_spec (pend th)) as S.
  destruct (next_release (pend th)) as [[t r]|].
  - destruct S as (A & B & _). unfold tokens_of. cbn. rewrite !count_kind_app.
    rewrite (B k Hk), count_kind_one. lia.
  - unfold tokens_of. cbn. rewrite !count_kind_app. rewrite (S k Hk), count_kind_nil. lia.
Qed.

Lemma cnt_idle k th : tpc th = Idle -> cnt k th = count_kind k (tokens_of th).
Proof. intros P. unfold cnt. rewrite P. cbn. lia. Qed.
Lemma cnt_wbody k th : tpc th = WBody -> cnt k th = count_kind k (tokens_of th).
Proof. intros P. unfold cnt. rewrite P. cbn. lia. Qed.

(* ---------- assembling the global invariant after a move of thread t ---------- *)
(* general form: the mailbox may change *)
Lemma ginv_intro_gen st t th s' th' :
  ginv st -> nth_error (ths st) t = Some th ->
  lvl s' = lvl (sh st) ->
  ar s' + cnt KR th + count_kind KR (mail (sh st)) = ar (sh st) + cnt KR th' + count_kind KR (mail s') ->
  aw s' + cnt KW th + count_kind KW (mail (sh st)) = aw (sh st) + cnt KW th' + count_kind KW (mail s') ->
  Forall (tok_ok s') (mail s') ->
  minv s' <= cur s' ->
  (lvl s' = 3 -> aw s' <= 1) ->
  (requires_sync (lvl s') = false -> cur s' = 1 /\ minv s' = 1) ->
  tinv s' t th' ->
  (forall i thi, i <> t -> nth_error (ths st) i = Some thi -> tinv s' i thi) ->
  ginv (St s' (upd (ths st) t th')).
Proof.
  intros G N L A W ML M X S T O. constructor; cbn [sh ths]; auto.
  - pose proof (sumf_upd (cnt KR) _ _ _ th' N). pose proof (g_ar _ G). lia.
  - pose proof (sumf_upd (cnt KW) _ _ _ th' N). pose proof (g_aw _ G). lia.
  - intros i thi E. destruct (Nat.eq_dec i t) as [->|Hne].
    + rewrite (nth_error_upd_same _ _ _ _ N) in E. injection E as <-. exact T.
    + rewrite nth_error_upd_other in E by congruence. eapply O; eauto.
Qed.

(* the usual case: the mailbox is not touched *)
Lemma ginv_intro st t th s' th' :
  ginv st -> nth_error (ths st) t = Some th ->
  mail s' = mail (sh st) ->
  Forall (tok_ok s') (mail (sh st)) ->
  lvl s' = lvl (sh st) ->
  ar s' + cnt KR th = ar (sh st) + cnt KR th' ->
  aw s' + cnt KW th = aw (sh st) + cnt KW th' ->
  minv s' <= cur s' ->
  (lvl s' = 3 -> aw s' <= 1) ->
  (requires_sync (lvl s') = false -> cur s' = 1 /\ minv s' = 1) ->
  tinv s' t th' ->
  (forall i thi, i <> t -> nth_error (ths st) i = Some thi -> tinv s' i thi) ->
  ginv (St s' (upd (ths st) t th')).
Proof.
  intros G N EM ML L A W M X S T O. eapply ginv_intro_gen; eauto; rewrite ?EM; auto; lia.
Qed.

(* the two mailbox premises of ginv_intro when the step does not lower current_version or raise
   min_version *)
Ltac mailok G :=
  first [ exact (g_mail _ G)
        | eapply Forall_tok_ok_mono; [| |exact (g_mail _ G)];
          cbn [set_lck set_cur set_min set_ar set_aw set_lazy set_mail lvl cur minv ar aw lck lazy mail bulk]; lia ].
