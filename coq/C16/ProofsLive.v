(* C16: token_chain_mutex is always held by a thread that can run - no interleaving of the modelled
   operations (extended alphabet) deadlocks. *)
From ZV.Common Require Import Base.
From ZV.C16 Require Import Model ProofsBase ProofsInv ProofsStep ProofsMain.
Open Scope N_scope.

(* a thread cannot move only when it has finished or waits for the mutex *)
Lemma tstep_none i s th :
  tstep true i s th = None ->
  (tpc th = Idle /\ cur_op th = None) \/
  ((exists k, tpc th = ALock k) \/ tpc th = TLock) /\ lck s <> None.
Proof.
  unfold tstep. intros H. destruct (tpc th) eqn:P;
  repeat match type of H with
  | context [match ?x with _ => _ end] => destruct x eqn:?; try discriminate
  end; try discriminate H.
  - left. auto.
  - right. split; [left; eexists; reflexivity|congruence].
  - right. split; [right; reflexivity|congruence].
Qed.

(* a thread inside the critical section can always move *)
Lemma in_cs_enabled i s th :
  in_cs (lvl s) (tpc th) = true -> exists s' th', tstep true i s th = Some (s', th').
Proof.
  intros H. unfold tstep. destruct (tpc th); cbn in H; try discriminate; eexists; eexists; reflexivity.
Qed.

(* what a step does to the mutex *)
Lemma tstep_lck t s th s' th' :
  pc_level_ok (lvl s) (tpc th) ->
  tstep true t s th = Some (s', th') ->
  (lck s' = lck s /\ (in_cs (lvl s) (tpc th) = true -> in_cs (lvl s) (tpc th') = true)) \/
  (lck s = None /\ lck s' = Some t /\ in_cs (lvl s) (tpc th') = true) \/
  lck s' = None.
Proof.
  intros LV S. unfold pc_level_ok in LV. unfold tstep in S. destruct (tpc th) eqn:P.
  - (* Idle: the mutex is not touched *)
    left. split; [|cbn; discriminate].
    repeat match type of S with
    | context [match ?x with _ => _ end] => destruct x eqn:?; try discriminate
    end; injection S as <- _; reflexivity.
  - destruct (lck s) eqn:L; [discriminate|]. injection S as <- <-. right. left.
    split; [reflexivity|]. split; [reflexivity|]. destruct (_ && _); reflexivity.
  - injection S as <- <-. left. split; [reflexivity|]. intros _. destruct (0 <? aw s); reflexivity.
  - injection S as <- <-. right. right. reflexivity.
  - injection S as <- <-. left. split; [reflexivity|]. reflexivity.
  - injection S as <- <-. left. split; [reflexivity|]. intros _. cbn.
    destruct (requires_sync (lvl s)) eqn:RS; [reflexivity|]. exfalso. apply (LV eq_refl).
  - injection S as <- <-. right. right. reflexivity.
  - destruct (requires_sync (lvl s)) eqn:RS; cbn [andb] in S; injection S as <- <-.
    + left. split; [destruct k; reflexivity|]. reflexivity.
    + left. split; [destruct k; reflexivity|]. cbn. rewrite RS. discriminate.
  - left. destruct (requires_sync (lvl s)); injection S as <- <-; (split; [destruct (tk t0); reflexivity|cbn; discriminate]).
  - destruct (lck s) eqn:L; [discriminate|]. injection S as <- <-. right. left. auto.
  - injection S as <- <-. left. split; [reflexivity|]. intros _. destruct (ar s =? 0); reflexivity.
  - injection S as <- <-. left. split; [reflexivity|]. intros _. destruct (aw s =? 0); reflexivity.
  - injection S as <- <-. left. split; reflexivity.
  - injection S as <- <-. left. split; reflexivity.
  - injection S as <- <-. right. right. reflexivity.
  - injection S as <- <-. left. split; [reflexivity|cbn; discriminate].
Qed.

(* the owner recorded in the mutex is a thread inside the critical section *)
Definition own_inv (st : state) : Prop :=
  forall o, lck (sh st) = Some o ->
    exists th, nth_error (ths st) o = Some th /\ in_cs (lvl (sh st)) (tpc th) = true.

Lemma step_own_inv st t : ginv st -> own_inv st -> own_inv (step true st t).
Proof.
  intros G O. unfold step. destruct (nth_error (ths st) t) as [th|] eqn:N; [|exact O].
  destruct (tstep true t (sh st) th) as [[s' th']|] eqn:S; [|exact O].
  pose proof (tstep_lvl _ _ _ _ _ _ S) as L.
  pose proof (i_lvl _ _ _ (g_th _ G _ _ N)) as LV.
  intros o Ho. cbn [sh ths] in *. rewrite L.
  destruct (tstep_lck _ _ _ _ _ LV S) as [[E K]|[(E0 & E1 & K)|E]].
  - rewrite E in Ho. destruct (O o Ho) as (th0 & N0 & C0).
    destruct (Nat.eq_dec o t) as [->|NE].
    + rewrite N in N0. injection N0 as <-. exists th'. split; [eapply nth_error_upd_same; eauto|auto].
    + exists th0. split; [rewrite nth_error_upd_other by congruence; exact N0|exact C0].
  - rewrite E1 in Ho. injection Ho as <-. exists th'. split; [eapply nth_error_upd_same; eauto|exact K].
  - congruence.
Qed.

Lemma run_own_inv sched : forall st, ginv st -> own_inv st -> own_inv (run true sched st).
Proof.
  unfold run. induction sched as [|t r IH]; intros st G O; cbn [fold_left]; [exact O|].
  apply IH; [apply step_inv; exact G|apply step_own_inv; assumption].
Qed.

Lemma deadlock_free_proof :
  forall level b progs sched,
    let st := run true sched (initb level b progs) in
    (exists i th, nth_error (ths st) i = Some th /\ ~ (tpc th = Idle /\ cur_op th = None)) ->
    exists tid th s' th', nth_error (ths st) tid = Some th /\ tstep true tid (sh st) th = Some (s', th').
Proof.
  intros level b progs sched st (i & th & N & U).
  destruct (tstep true i (sh st) th) as [[s' th']|] eqn:S; [exists i, th, s', th'; auto|].
  destruct (tstep_none _ _ _ S) as [F|[_ LK]]; [contradiction|].
  destruct (lck (sh st)) as [o|] eqn:L; [|congruence].
  assert (O : own_inv st).
  { apply run_own_inv; [apply initb_inv|]. intros o' H. discriminate H. }
  destruct (O o L) as (tho & No & Co). destruct (in_cs_enabled o (sh st) tho Co) as (s1 & th1 & S1).
  exists o, tho, s1, th1. auto.
Qed.

(* the mutex is free whenever every thread is between operations *)
Lemma mutex_free_at_quiescence_proof :
  forall level b progs sched,
    let st := run true sched (initb level b progs) in
    quiescent st -> lck (sh st) = None.
Proof.
  intros level b progs sched st Q. destruct (lck (sh st)) as [o|] eqn:L; [|reflexivity].
  assert (O : own_inv st).
  { apply run_own_inv; [apply initb_inv|]. intros o' H. discriminate H. }
  destruct (O o L) as (tho & No & Co). rewrite (Q tho (nth_error_In _ _ No)) in Co. discriminate.
Qed.

Example deadlock_free_nontrivial :
  let st := run true [0; 0; 1; 1; 2; 2]%nat (initb 3 32 [[AcqW]; [AcqR]; [WithW]]) in
  lck (sh st) = Some 0%nat /\
  tstep true 1 (sh st) (nth 1 (ths st) (init_thread [])) = None /\
  tstep true 2 (sh st) (nth 2 (ths st) (init_thread [])) = None /\
  tstep true 0 (sh st) (nth 0 (ths st) (init_thread [])) <> None.
Proof. vm_compute. repeat split; discriminate. Qed.
