(* C16: sequential histories over several managers (fixed code, fx = true): no release ever targets
   a freed manager state, a manager hands out only its own tokens, every manager's counters equal the
   numbers of live tokens it issued, at most one writer token per OneWriteMultiRead manager. *)
From ZV.Common Require Import Base.
From ZV.C16 Require Import Model ModelSeq ProofsBase.
Open Scope N_scope.

Definition sall (st : sstate) : list stok := sheld st ++ opt_list (scr st) ++ opt_list (scw st).
Definition sel (k : kind) (i : nat) (t : stok) : bool :=
  Nat.eqb (s_issuer t) i && kind_eqb (tk (s_tok t)) k.
Definition cI (k : kind) (i : nat) (l : list stok) : N := nlen (filter (sel k i) l).
Definition strk (t : stok) : Prop := tk (s_tok t) <> KRO.

Lemma cI_nil k i : cI k i [] = 0. Proof. reflexivity. Qed.
Lemma cI_app k i a b : cI k i (a ++ b) = cI k i a + cI k i b.
Proof. unfold cI. rewrite filter_app, nlen_app. reflexivity. Qed.
Lemma cI_cons k i t l : cI k i (t :: l) = (if sel k i t then 1 else 0) + cI k i l.
Proof.
  unfold cI. cbn [filter]. destruct (sel k i t); cbn [nlen]; [reflexivity | symmetry; apply N.add_0_l].
Qed.
Lemma cI_one k i t : cI k i [t] = if sel k i t then 1 else 0.
Proof. rewrite cI_cons, cI_nil. apply N.add_0_r. Qed.
Lemma cI_remove_nth k i l j t :
  nth_error l j = Some t -> cI k i l = cI k i (remove_nth j l) + cI k i [t].
Proof.
  revert j; induction l as [|a l IH]; intros [|j] H; cbn [nth_error remove_nth] in *; try discriminate.
  - injection H as ->. rewrite cI_cons, cI_one. apply N.add_comm.
  - rewrite (cI_cons k i a l), (cI_cons k i a (remove_nth j l)), (IH _ H). apply N.add_assoc.
Qed.
Lemma cI_opt k i (o : option stok) :
  cI k i (opt_list o) = match o with Some t => if sel k i t then 1 else 0 | None => 0 end.
Proof. destruct o; cbn [opt_list]; [apply cI_one|reflexivity]. Qed.
Global Arguments cI : simpl never.

Lemma cI_zero k i l : k <> KRO -> Forall (fun t => strk t -> s_issuer t <> i) l -> cI k i l = 0.
Proof.
  intros K F. induction l as [|a l IH]; [reflexivity|]. inversion F as [|x y Ha Hl]; subst.
  rewrite cI_cons, (IH Hl). unfold sel. destruct (Nat.eqb_spec (s_issuer a) i) as [E|E]; cbn [andb]; [|reflexivity].
  destruct (kind_eqb (tk (s_tok a)) k) eqn:Q; [|reflexivity].
  apply kind_eqb_eq in Q. exfalso. apply Ha; [unfold strk; congruence|exact E].
Qed.

Record mgr_ok (g : mgr) (i : nat) (l : list stok) : Prop := {
  mo_ar : ar (m_sh g) = cI KR i l;
  mo_aw : aw (m_sh g) = cI KW i l;
  mo_refs : m_refs g = (if m_alive g then 1 else 0) + ar (m_sh g) + aw (m_sh g);
  mo_excl : lvl (m_sh g) = 3 -> aw (m_sh g) <= 1
}.

(* `ex`: tokens already taken out of the thread's hands/cache whose release is still to run *)
Record SI (st : sstate) (ex : list stok) : Prop := {
  si_dang : dangling st = 0;
  si_own : Forall (fun t => strk t -> s_by t = s_issuer t) (sheld st);
  si_mgr : forall i g, nth_error (mgrs st) i = Some g -> mgr_ok g i (sall st ++ ex);
  si_rng : Forall (fun t => strk t -> (s_issuer t < length (mgrs st))%nat) (sall st ++ ex)
}.

Lemma length_upd {A} (l : list A) i x : length (upd l i x) = length l.
Proof. revert i; induction l as [|a l IH]; intros [|i]; cbn; auto. Qed.

Lemma release_seq_spec s k :
  k <> KRO ->
  lvl (release_seq s k) = lvl s /\
  ar (release_seq s k) = (match k with KW => ar s | _ => dec64 (ar s) end) /\
  aw (release_seq s k) = (match k with KW => dec64 (aw s) | _ => aw s end).
Proof.
  intros K. unfold release_seq.
  destruct k; try congruence; cbn;
    repeat match goal with |- context [if ?c then _ else _] => destruct c end; cbn; auto.
Qed.

Lemma sel_kro k i t : k <> KRO -> tk (s_tok t) = KRO -> sel k i t = false.
Proof. intros K E. unfold sel. rewrite E. destruct k; try congruence; apply andb_false_r. Qed.

Lemma dec64_pos' x : 1 <= x -> dec64 x = x - 1.
Proof. intros H. unfold dec64. destruct (x =? 0) eqn:E; [lia|reflexivity]. Qed.

(* Drop of a token: the callback runs on the (still referenced) state of the issuing manager *)
Lemma release_tok_SI st t ex : SI st (t :: ex) -> SI (release_tok true st t) ex.
Proof.
  intros [D O M R]. unfold release_tok.
  assert (RK : forall k i, k <> KRO -> tk (s_tok t) = KRO ->
               cI k i (sall st ++ t :: ex) = cI k i (sall st ++ ex)).
  { intros k i K E. rewrite !cI_app, cI_cons, (sel_kro k i t K E). cbv iota. lia. }
  assert (R' : Forall (fun t0 => strk t0 -> (s_issuer t0 < length (mgrs st))%nat) (sall st ++ ex)).
  { rewrite Forall_app in *. destruct R as [R1 R2]. inversion R2; subst. tauto. }
  destruct (tk (s_tok t)) eqn:K.
  1,2: (assert (TK : strk t) by (unfold strk; congruence);
        assert (Hj : (s_issuer t < length (mgrs st))%nat)
          by (rewrite Forall_app in R; destruct R as [_ R2]; inversion R2; subst; auto);
        destruct (nth_error (mgrs st) (s_issuer t)) as [g|] eqn:E;
          [|apply nth_error_None in E; lia];
        pose proof (M _ _ E) as [A W F X];
        assert (SELT : sel (tk (s_tok t)) (s_issuer t) t = true)
          by (unfold sel; rewrite Nat.eqb_refl, kind_eqb_refl; reflexivity);
        rewrite K in SELT;
        rewrite !cI_app, cI_cons in A, W;
        unfold sel in A, W; rewrite K, Nat.eqb_refl in A, W; cbn [andb kind_eqb] in A, W).
  - (* reader token *)
    assert (P1 : 1 <= ar (m_sh g)) by lia.
    destruct (m_refs g =? 0) eqn:Z; [exfalso; destruct (m_alive g); lia|].
    destruct (release_seq_spec (m_sh g) KR ltac:(discriminate)) as (L1 & A1 & W1).
    rewrite (dec64_pos' _ P1) in A1.
    constructor; cbn [set_mgrs dangling sheld mgrs]; auto.
    + intros i g' E'. destruct (Nat.eq_dec i (s_issuer t)) as [->|Hne].
      * rewrite (nth_error_upd_same _ _ _ _ E) in E'. injection E' as <-.
        constructor; cbn [m_sh m_refs m_alive].
        -- rewrite A1. unfold sall in *. cbn [set_mgrs sheld scr scw]. rewrite !cI_app in *. lia.
        -- rewrite W1. unfold sall in *. cbn [set_mgrs sheld scr scw]. rewrite !cI_app in *. lia.
        -- rewrite A1, W1. destruct (m_alive g); lia.
        -- rewrite L1, W1. exact X.
      * rewrite nth_error_upd_other in E' by congruence. pose proof (M _ _ E') as [A' W' F' X'].
        constructor; auto; unfold sall in *; cbn [set_mgrs sheld scr scw].
        -- rewrite A'. rewrite !cI_app, cI_cons. unfold sel at 1.
           destruct (Nat.eqb_spec (s_issuer t) i); [congruence|]. cbn [andb]. lia.
        -- rewrite W'. rewrite !cI_app, cI_cons. unfold sel at 1.
           destruct (Nat.eqb_spec (s_issuer t) i); [congruence|]. cbn [andb]. lia.
    + rewrite length_upd. exact R'.
  - (* writer token *)
    assert (P1 : 1 <= aw (m_sh g)) by lia.
    destruct (m_refs g =? 0) eqn:Z; [exfalso; destruct (m_alive g); lia|].
    destruct (release_seq_spec (m_sh g) KW ltac:(discriminate)) as (L1 & A1 & W1).
    rewrite (dec64_pos' _ P1) in W1.
    constructor; cbn [set_mgrs dangling sheld mgrs]; auto.
    + intros i g' E'. destruct (Nat.eq_dec i (s_issuer t)) as [->|Hne].
      * rewrite (nth_error_upd_same _ _ _ _ E) in E'. injection E' as <-.
        constructor; cbn [m_sh m_refs m_alive].
        -- rewrite A1. unfold sall in *. cbn [set_mgrs sheld scr scw]. rewrite !cI_app in *. lia.
        -- rewrite W1. unfold sall in *. cbn [set_mgrs sheld scr scw]. rewrite !cI_app in *. lia.
        -- rewrite A1, W1. destruct (m_alive g); lia.
        -- rewrite L1, W1. intros L3. specialize (X L3). lia.
      * rewrite nth_error_upd_other in E' by congruence. pose proof (M _ _ E') as [A' W' F' X'].
        constructor; auto; unfold sall in *; cbn [set_mgrs sheld scr scw].
        -- rewrite A'. rewrite !cI_app, cI_cons. unfold sel at 1.
           destruct (Nat.eqb_spec (s_issuer t) i); [congruence|]. cbn [andb]. lia.
        -- rewrite W'. rewrite !cI_app, cI_cons. unfold sel at 1.
           destruct (Nat.eqb_spec (s_issuer t) i); [congruence|]. cbn [andb]. lia.
    + rewrite length_upd. exact R'.
  - (* read-only token: no callback *)
    constructor; auto.
    intros i g E. pose proof (M _ _ E) as [A W F X]. constructor; auto.
    + rewrite A. apply RK; [discriminate|reflexivity].
    + rewrite W. apply RK; [discriminate|reflexivity].
Qed.

Lemma release_opt_SI st o ex : SI st (opt_list o ++ ex) -> SI (release_opt true st o) ex.
Proof. destruct o; cbn [opt_list app release_opt]; [apply release_tok_SI|auto]. Qed.

(* ---------- acquisitions ---------- *)
Lemma acquire_seq_spec s k s' t :
  k <> KRO -> acquire_seq s k = (s', Some t) ->
  lvl s' = lvl s /\
  ((tk t = KRO /\ ar s' = ar s /\ aw s' = aw s) \/
   (tk t = KR /\ ar s' = ar s + 1 /\ aw s' = aw s) \/
   (tk t = KW /\ ar s' = ar s /\ aw s' = aw s + 1 /\ (lvl s = 3 -> aw s = 0))).
Proof.
  intros K H. unfold acquire_seq in H.
  destruct (lvl s =? 0) eqn:L0.
  - destruct k; try congruence; injection H as <- <-; split; auto.
  - destruct (requires_sync (lvl s)) eqn:RS.
    + destruct k; try congruence.
      * injection H as <- <-. split; [reflexivity|]. right. left. cbn. unfold inc64. auto.
      * destruct ((lvl s =? 3) && (0 <? aw s)) eqn:B; [discriminate|].
        injection H as <- <-. split; [reflexivity|]. right. right. cbn. unfold inc64.
        repeat split; auto. intros L3. rewrite L3 in B. cbn in B. lia.
    + destruct k; try congruence; injection H as <- <-; (split; [reflexivity|]).
      * right. left. cbn. unfold inc64. auto.
      * right. right. cbn. unfold inc64. repeat split; auto.
        intros L3. rewrite L3 in RS. discriminate.
Qed.

Lemma pick_mgr_spec st m i g :
  pick_mgr st m = Some (i, g) -> nth_error (mgrs st) i = Some g /\ m_alive g = true.
Proof.
  unfold pick_mgr. destruct (mgrs st) eqn:E; [discriminate|]. rewrite <- E.
  destruct (nth_error (mgrs st) (Nat.modulo m (length (mgrs st)))) as [g0|] eqn:N; [|discriminate].
  destruct (m_alive g0) eqn:A; [|discriminate]. intros H. injection H as <- <-. auto.
Qed.

Lemma Forall_sall (P : stok -> Prop) st :
  Forall P (sall st) <-> Forall P (sheld st) /\ Forall P (opt_list (scr st)) /\ Forall P (opt_list (scw st)).
Proof. unfold sall. rewrite !Forall_app. tauto. Qed.
Lemma cI_sall k i st :
  cI k i (sall st) = cI k i (sheld st) + cI k i (opt_list (scr st)) + cI k i (opt_list (scw st)).
Proof. unfold sall. rewrite !cI_app. lia. Qed.

Definition wf_sop (o : sop) : Prop := match o with SAcq _ k _ => k <> KRO | _ => True end.

Lemma rng_mono (n n' : nat) l :
  (n <= n')%nat -> Forall (fun t => strk t -> (s_issuer t < n)%nat) l ->
  Forall (fun t => strk t -> (s_issuer t < n')%nat) l.
Proof. intros H. apply Forall_impl. intros t X S. specialize (X S). lia. Qed.

Ltac sproj := cbn [sheld scr scw mgrs dangling set_mgrs opt_list app] in *.

Theorem sstep_SI st o : wf_sop o -> SI st [] -> SI (fst (sstep true st o)) [].
Proof.
  intros WF I. pose proof I as [D O M R]. rewrite app_nil_r in R.
  assert (M0 : forall i g, nth_error (mgrs st) i = Some g -> mgr_ok g i (sall st)).
  { intros i g E. pose proof (M i g E) as X. rewrite app_nil_r in X. exact X. }
  pose proof R as R0. apply Forall_sall in R0. destruct R0 as (RH & RR & RW).
  destruct o as [is_tm level|via k m|j|j| |m]; cbn [sstep fst].
  - (* SNew *)
    constructor; sproj; auto; rewrite ?app_nil_r.
    + intros i g E.
      assert (SA : sall (set_mgrs st (mgrs st ++ [Mg true is_tm 1 (Sh level 1 1 0 0 None [] [] BULK_FREE_N)])) = sall st) by reflexivity.
      rewrite SA.
      destruct (Nat.lt_ge_cases i (length (mgrs st))) as [Hlt|Hge].
      * rewrite nth_error_app1 in E by exact Hlt. apply M0. exact E.
      * rewrite nth_error_app2 in E by exact Hge.
        destruct (i - length (mgrs st))%nat as [|n] eqn:Z; cbn in E; [|destruct n; discriminate].
        injection E as <-. assert (i = length (mgrs st)) by lia. subst i.
        assert (F : Forall (fun t => strk t -> s_issuer t <> length (mgrs st)) (sall st)).
        { eapply Forall_impl; [|exact R]. intros t X S. specialize (X S). lia. }
        constructor; cbn; rewrite ?(cI_zero KR _ _ ltac:(discriminate) F), ?(cI_zero KW _ _ ltac:(discriminate) F); auto; lia.
    + change (sall (set_mgrs st (mgrs st ++ [Mg true is_tm 1 (Sh level 1 1 0 0 None [] [] BULK_FREE_N)]))) with (sall st).
      rewrite app_length. eapply rng_mono; [|exact R]. lia.
  - (* SAcq *)
    cbn in WF.
    destruct (pick_mgr st m) as [[i g]|] eqn:PK; [|exact I].
    apply pick_mgr_spec in PK. destruct PK as (E & AL).
    pose proof (M0 _ _ E) as [A W F X].
    set (slot := match k with KW => scw st | _ => scr st end).
    destruct (if via && m_tm g
              then match slot with Some t => if negb true || issued_by st t i g then Some t else None | None => None end
              else None) as [t|] eqn:HIT.
    + (* cache hit: the token was issued by this manager *)
      assert (HS : slot = Some t /\ issued_by st t i g = true).
      { destruct (via && m_tm g); [|discriminate]. destruct slot as [t0|]; [|discriminate].
        cbn [negb orb] in HIT. destruct (issued_by st t0 i g) eqn:IB; [|discriminate].
        injection HIT as <-. auto. }
      destruct HS as (HS & IB). cbn [fst].
      assert (TI : strk t -> s_issuer t = i).
      { intros S. unfold issued_by in IB. unfold strk in S.
        destruct (tk (s_tok t)); try congruence; apply Nat.eqb_eq in IB; exact IB. }
      assert (SELEQ : forall k0 i0, sel k0 i0 (STk (s_tok t) (s_issuer t) i) = sel k0 i0 t) by reflexivity.
      unfold slot in HS.
      destruct k; try congruence; rewrite HS in *; sproj.
      * (* reader slot *)
        inversion RR as [|x y RT _]; subst.
        constructor; sproj; auto; rewrite ?app_nil_r.
        -- apply Forall_app. split; [exact O|]. constructor; [|constructor]. cbn. intros S. symmetry. apply TI. exact S.
        -- intros i0 g0 E0. pose proof (M0 _ _ E0) as [A0 W0 F0 X0]. constructor; auto.
           ++ rewrite A0, !cI_sall. sproj. rewrite HS. sproj. rewrite cI_app, !cI_one, SELEQ, cI_nil. lia.
           ++ rewrite W0, !cI_sall. sproj. rewrite HS. sproj. rewrite cI_app, !cI_one, SELEQ, cI_nil. lia.
        -- apply Forall_sall. sproj. split; [|split; [constructor|exact RW]].
           apply Forall_app. split; [exact RH|]. constructor; [|constructor]. exact RT.
      * (* writer slot *)
        inversion RW as [|x y RT _]; subst.
        constructor; sproj; auto; rewrite ?app_nil_r.
        -- apply Forall_app. split; [exact O|]. constructor; [|constructor]. cbn. intros S. symmetry. apply TI. exact S.
        -- intros i0 g0 E0. pose proof (M0 _ _ E0) as [A0 W0 F0 X0]. constructor; auto.
           ++ rewrite A0, !cI_sall. sproj. rewrite HS. sproj. rewrite cI_app, !cI_one, SELEQ, cI_nil. lia.
           ++ rewrite W0, !cI_sall. sproj. rewrite HS. sproj. rewrite cI_app, !cI_one, SELEQ, cI_nil. lia.
        -- apply Forall_sall. sproj. split; [|split; [exact RR|constructor]].
           apply Forall_app. split; [exact RH|]. constructor; [|constructor]. exact RT.
    + (* fresh token from the manager *)
      destruct (acquire_seq (m_sh g) k) as [s' [t|]] eqn:AQ; cbn [fst]; [|exact I].
      destruct (acquire_seq_spec _ _ _ _ WF AQ) as (LV & CASES).
      assert (IL : (i < length (mgrs st))%nat) by (apply nth_error_Some; congruence).
      constructor; sproj; auto; rewrite ?app_nil_r.
      * apply Forall_app. split; [exact O|]. constructor; [|constructor]. reflexivity.
      * intros i0 g0 E0.
        assert (SA : forall k0, cI k0 i0 (sall (SS (upd (mgrs st) i (Mg true (m_tm g) (match tk t with KRO => m_refs g | _ => m_refs g + 1 end) s'))
                                               (sheld st ++ [STk t i i]) (scr st) (scw st) (dangling st)))
                     = cI k0 i0 (sall st) + (if sel k0 i0 (STk t i i) then 1 else 0)).
        { intros k0. rewrite !cI_sall. sproj. rewrite cI_app, cI_one. lia. }
        rewrite AL in F.
        destruct (Nat.eq_dec i0 i) as [->|Hne].
        -- rewrite (nth_error_upd_same _ _ _ _ E) in E0. injection E0 as <-.
           constructor; cbn [m_sh m_refs m_alive]; rewrite ?SA; unfold sel; cbn [s_issuer s_tok]; rewrite ?Nat.eqb_refl; cbn [andb].
           ++ destruct CASES as [(T & A1 & W1)|[(T & A1 & W1)|(T & A1 & W1 & Z)]]; rewrite T; cbn [kind_eqb]; lia.
           ++ destruct CASES as [(T & A1 & W1)|[(T & A1 & W1)|(T & A1 & W1 & Z)]]; rewrite T; cbn [kind_eqb]; lia.
           ++ destruct CASES as [(T & A1 & W1)|[(T & A1 & W1)|(T & A1 & W1 & Z)]]; rewrite T; lia.
           ++ rewrite LV. intros L3. specialize (X L3).
              destruct CASES as [(T & A1 & W1)|[(T & A1 & W1)|(T & A1 & W1 & Z)]]; try lia; specialize (Z L3); lia.
        -- rewrite nth_error_upd_other in E0 by congruence. pose proof (M0 _ _ E0) as [A0 W0 F0 X0].
           constructor; auto; rewrite ?SA; unfold sel; cbn [s_issuer s_tok];
             (destruct (Nat.eqb_spec i i0); [congruence|]); cbn [andb]; lia.
      * rewrite length_upd. apply Forall_sall. sproj. split; [|split; [exact RR|exact RW]].
        apply Forall_app. split; [exact RH|]. constructor; [|constructor]. cbn. intros _. exact IL.
  - (* SRet j *)
    destruct (nth_error (sheld st) j) as [t|] eqn:Hn; [|exact I].
    pose proof (Forall_nth_error _ _ _ _ RH Hn) as RT.
    assert (OH : Forall (fun t0 => strk t0 -> s_by t0 = s_issuer t0) (remove_nth j (sheld st))) by (apply Forall_remove_nth; exact O).
    assert (RH' : Forall (fun t0 => strk t0 -> (s_issuer t0 < length (mgrs st))%nat) (remove_nth j (sheld st))) by (apply Forall_remove_nth; exact RH).
    destruct (tk (s_tok t)) eqn:K; cbn [fst]; apply release_opt_SI; rewrite app_nil_r;
      (constructor; sproj; auto;
       [ intros i0 g0 E0; pose proof (M0 _ _ E0) as [A0 W0 F0 X0]; constructor; auto;
         [ rewrite A0, cI_app, !cI_sall; sproj; rewrite (cI_remove_nth KR _ _ _ _ Hn), !cI_one, ?cI_nil; lia
         | rewrite W0, cI_app, !cI_sall; sproj; rewrite (cI_remove_nth KW _ _ _ _ Hn), !cI_one, ?cI_nil; lia ]
       | apply Forall_app; split; [apply Forall_sall; sproj; repeat split; auto; constructor; auto|]; auto ]).
  - (* SDrop j *)
    destruct (nth_error (sheld st) j) as [t|] eqn:Hn; [|exact I].
    pose proof (Forall_nth_error _ _ _ _ RH Hn) as RT.
    cbn [fst]. apply release_tok_SI.
    constructor; sproj; auto.
    + apply Forall_remove_nth; exact O.
    + intros i0 g0 E0. pose proof (M0 _ _ E0) as [A0 W0 F0 X0]. constructor; auto.
      * rewrite A0, cI_app, !cI_sall. sproj. rewrite (cI_remove_nth KR _ _ _ _ Hn). lia.
      * rewrite W0, cI_app, !cI_sall. sproj. rewrite (cI_remove_nth KW _ _ _ _ Hn). lia.
    + apply Forall_app. split; [apply Forall_sall; sproj; repeat split; auto; apply Forall_remove_nth; exact RH|].
      constructor; [exact RT|constructor].
  - (* SClear *)
    cbn [fst]. apply release_opt_SI. apply release_opt_SI. rewrite app_nil_r.
    constructor; sproj; auto.
    + intros i0 g0 E0. pose proof (M0 _ _ E0) as [A0 W0 F0 X0]. constructor; auto.
      * rewrite A0, !cI_app, !cI_sall. sproj. rewrite !cI_nil. lia.
      * rewrite W0, !cI_app, !cI_sall. sproj. rewrite !cI_nil. lia.
    + apply Forall_app. split; [apply Forall_sall; sproj; repeat split; auto|].
      apply Forall_app. split; auto.
  - (* SDropMgr m *)
    destruct (pick_mgr st m) as [[i g]|] eqn:PK; [|exact I].
    apply pick_mgr_spec in PK. destruct PK as (E & AL). cbn [fst].
    constructor; sproj; auto; rewrite ?app_nil_r.
    + intros i0 g0 E0.
      change (sall (set_mgrs st (upd (mgrs st) i (Mg false (m_tm g) (m_refs g - 1) (m_sh g))))) with (sall st).
      destruct (Nat.eq_dec i0 i) as [->|Hne].
      * rewrite (nth_error_upd_same _ _ _ _ E) in E0. injection E0 as <-.
        pose proof (M0 _ _ E) as [A0 W0 F0 X0]. rewrite AL in F0.
        constructor; cbn [m_sh m_refs m_alive]; auto. lia.
      * rewrite nth_error_upd_other in E0 by congruence. apply M0. exact E0.
    + change (sall (set_mgrs st (upd (mgrs st) i (Mg false (m_tm g) (m_refs g - 1) (m_sh g))))) with (sall st).
      rewrite length_upd. exact R.
Qed.

(* ---------- whole histories ---------- *)
Lemma sinit_SI : SI sinit [].
Proof.
  constructor; cbn; auto.
  - intros i g E. destruct i; discriminate.
Qed.

Lemma srun_ops_SI ops : Forall wf_sop ops -> forall st, SI st [] -> SI (srun_ops true ops st) [].
Proof.
  unfold srun_ops. induction 1 as [|o l WF _ IH]; intros st I; cbn [fold_left]; [exact I|].
  apply IH. apply sstep_SI; assumption.
Qed.

Lemma release_tok_lists st t :
  sheld (release_tok true st t) = sheld st /\ scr (release_tok true st t) = scr st /\ scw (release_tok true st t) = scw st.
Proof.
  unfold release_tok. destruct (tk (s_tok t)); auto;
    destruct (nth_error (mgrs st) (s_issuer t)) as [g|]; auto; destruct (m_refs g =? 0); auto.
Qed.

Lemma fold_release_SI l : forall st ex, SI st (l ++ ex) -> SI (fold_left (release_tok true) l st) ex.
Proof.
  induction l as [|t l IH]; intros st ex I; cbn [fold_left app] in *; [exact I|].
  apply IH. apply release_tok_SI. exact I.
Qed.
Lemma fold_release_lists l : forall st,
  sheld (fold_left (release_tok true) l st) = sheld st /\
  scr (fold_left (release_tok true) l st) = scr st /\ scw (fold_left (release_tok true) l st) = scw st.
Proof.
  induction l as [|t l IH]; intros st; cbn [fold_left]; auto.
  destruct (IH (release_tok true st t)) as (A & B & C). destruct (release_tok_lists st t) as (A' & B' & C').
  rewrite A, B, C. auto.
Qed.

Lemma sfinish_held_SI st : SI st [] -> SI (sfinish_held true st) [].
Proof.
  intros [D O M R]. unfold sfinish_held. apply fold_release_SI. rewrite app_nil_r in *.
  constructor; sproj; auto.
  - intros i g E. pose proof (M i g E) as [A W F X]. rewrite ?app_nil_r in A, W.
    constructor; auto.
    + rewrite A, cI_app, !cI_sall. sproj. rewrite cI_nil. lia.
    + rewrite W, cI_app, !cI_sall. sproj. rewrite cI_nil. lia.
  - apply Forall_sall in R. destruct R as (RH & RR & RW).
    apply Forall_app. split; [apply Forall_sall; sproj; repeat split; auto|exact RH].
Qed.

Lemma sfinish_SI st : SI st [] -> SI (sfinish true st) [] /\ sall (sfinish true st) = [].
Proof.
  intros I. pose proof (sfinish_held_SI st I) as I1. unfold sfinish.
  set (st1 := sfinish_held true st) in *.
  assert (H1 : sheld st1 = []).
  { unfold st1, sfinish_held. destruct (fold_release_lists (sheld st) (SS (mgrs st) [] (scr st) (scw st) (dangling st))) as (A & _ & _).
    rewrite A. reflexivity. }
  split.
  - apply release_opt_SI. apply release_opt_SI. rewrite app_nil_r.
    destruct I1 as [D O M R]. rewrite app_nil_r in *.
    constructor; sproj; auto.
    + intros i g E. pose proof (M i g E) as [A W F X]. rewrite ?app_nil_r in A, W.
      constructor; auto.
      * rewrite A, !cI_app, !cI_sall. sproj. rewrite H1, !cI_nil. lia.
      * rewrite W, !cI_app, !cI_sall. sproj. rewrite H1, !cI_nil. lia.
    + apply Forall_sall in R. destruct R as (RH & RR & RW).
      apply Forall_app. split; [apply Forall_sall; sproj; repeat split; auto|].
      apply Forall_app. split; auto.
  - unfold sall.
    assert (L : forall s o, sheld (release_opt true s o) = sheld s /\ scr (release_opt true s o) = scr s /\ scw (release_opt true s o) = scw s).
    { intros s [t|]; cbn [release_opt]; auto. apply release_tok_lists. }
    destruct (L (release_opt true (SS (mgrs st1) [] None None (dangling st1)) (scr st1)) (scw st1)) as (A & B & C).
    destruct (L (SS (mgrs st1) [] None None (dangling st1)) (scr st1)) as (A' & B' & C').
    rewrite A, B, C, A', B', C'. reflexivity.
Qed.

(* ---------- the statements of coq/C16/Properties.v ---------- *)
Lemma seq_no_dangling_proof :
  forall ops, Forall wf_sop ops ->
    dangling (srun_ops true ops sinit) = 0 /\ dangling (sfinish true (srun_ops true ops sinit)) = 0.
Proof.
  intros ops WF. pose proof (srun_ops_SI ops WF sinit sinit_SI) as I.
  split; [exact (si_dang _ _ I)|]. destruct (sfinish_SI _ I) as (I2 & _). exact (si_dang _ _ I2).
Qed.

Lemma seq_own_tokens_proof :
  forall ops t, Forall wf_sop ops ->
    In t (sheld (srun_ops true ops sinit)) -> tk (s_tok t) <> KRO -> s_by t = s_issuer t.
Proof.
  intros ops t WF Hin K. pose proof (srun_ops_SI ops WF sinit sinit_SI) as I.
  pose proof (si_own _ _ I) as O. rewrite Forall_forall in O. apply O; assumption.
Qed.

Lemma seq_counters_exact_proof :
  forall ops i g, Forall wf_sop ops ->
    let st := srun_ops true ops sinit in
    nth_error (mgrs st) i = Some g ->
    ar (m_sh g) = cI KR i (sall st) /\ aw (m_sh g) = cI KW i (sall st).
Proof.
  intros ops i g WF st E. subst st. pose proof (srun_ops_SI ops WF sinit sinit_SI) as I.
  pose proof (si_mgr _ _ I i g E) as [A W _ _]. rewrite app_nil_r in A, W. auto.
Qed.

Lemma seq_counters_zero_proof :
  forall ops i g, Forall wf_sop ops ->
    nth_error (mgrs (sfinish true (srun_ops true ops sinit))) i = Some g ->
    ar (m_sh g) = 0 /\ aw (m_sh g) = 0.
Proof.
  intros ops i g WF E. pose proof (srun_ops_SI ops WF sinit sinit_SI) as I.
  destruct (sfinish_SI _ I) as (I2 & Z).
  pose proof (si_mgr _ _ I2 i g E) as [A W _ _]. rewrite app_nil_r, Z in A, W. auto.
Qed.

Lemma handed_le_cI st i :
  Forall (fun t => strk t -> s_by t = s_issuer t) (sheld st) -> handed_writers st i <= cI KW i (sheld st).
Proof.
  unfold handed_writers. induction (sheld st) as [|a l IH]; intros F; [rewrite cI_nil; cbn; lia|].
  inversion F as [|x y Ha Hl]; subst. specialize (IH Hl). rewrite cI_cons. cbn [filter].
  destruct (Nat.eqb (s_by a) i && kind_eqb (tk (s_tok a)) KW) eqn:B.
  - apply andb_prop in B. destruct B as (B1 & B2). apply Nat.eqb_eq in B1. apply kind_eqb_eq in B2.
    assert (S : strk a) by (unfold strk; congruence). specialize (Ha S).
    unfold sel. rewrite <- Ha, B1, Nat.eqb_refl, B2. cbn [andb kind_eqb nlen]. lia.
  - destruct (sel KW i a); lia.
Qed.

Lemma seq_writer_exclusion_proof :
  forall ops i g, Forall wf_sop ops ->
    let st := srun_ops true ops sinit in
    nth_error (mgrs st) i = Some g -> lvl (m_sh g) = 3 -> handed_writers st i <= 1.
Proof.
  intros ops i g WF st E L3. subst st. pose proof (srun_ops_SI ops WF sinit sinit_SI) as I.
  pose proof (si_mgr _ _ I i g E) as [A W _ X]. rewrite app_nil_r in A, W. specialize (X L3).
  pose proof (handed_le_cI _ i (si_own _ _ I)) as H. rewrite cI_sall in W. lia.
Qed.
