(* C16 property theorems.  Nothing but statements closed by `exact`, a pin, and Print Assumptions.
   `run true` is the access order of the code after the fix: commits (tied to the code by the
   controlled-scheduler correspondence check); `run false` is the order of the pinned tree. *)
From ZV.Common Require Import Base.
From ZV.C16 Require Import Model ModelSeq ModelLazy ModelSpec ProofsBase ProofsInv ProofsStep ProofsMain ProofsRefute ProofsSeq ProofsSolo ProofsLazy ProofsSpec ProofsRefine ProofsLive.
Open Scope N_scope.

(* (i) one-writer-many-readers: for any number of threads, any programs, any schedule, at most one
   writer token is live (held, cached or being released) at any instant *)
Theorem writer_exclusion :
  forall (progs : list (list op)) (sched : list nat),
    count_kind KW (live (run true sched (init 3 progs))) <= 1.
Proof. exact writer_exclusion_proof. Qed.
Check writer_exclusion :
  forall (progs : list (list op)) (sched : list nat),
    count_kind KW (live (run true sched (init 3 progs))) <= 1.
Print Assumptions writer_exclusion.

(* (i) a request that reaches its admission check while a writer token is live is refused *)
Theorem second_writer_refused :
  forall progs sched i th tok,
    let st := run true sched (init 3 progs) in
    nth_error (ths st) i = Some th -> tpc th = ALoadAw -> In tok (live st) -> tk tok = KW ->
    exists th', tstep true i (sh st) th = Some (sh st, th') /\ tpc th' = ABusyUnlock.
Proof. exact second_writer_refused_proof. Qed.
Check second_writer_refused :
  forall progs sched i th tok,
    let st := run true sched (init 3 progs) in
    nth_error (ths st) i = Some th -> tpc th = ALoadAw -> In tok (live st) -> tk tok = KW ->
    exists th', tstep true i (sh st) th = Some (sh st, th') /\ tpc th' = ABusyUnlock.
Print Assumptions second_writer_refused.

(* (ii) at every level, in every reachable state, min_version <= version of every live tracked token
   (and no version is ahead of current_version) *)
Theorem min_le_live :
  forall level progs sched t,
    let st := run true sched (init level progs) in
    In t (live st) -> tracked t -> minv (sh st) <= tv t /\ tv t <= cur (sh st).
Proof. exact min_le_live_proof. Qed.
Check min_le_live :
  forall level progs sched t,
    let st := run true sched (init level progs) in
    In t (live st) -> tracked t -> minv (sh st) <= tv t /\ tv t <= cur (sh st).
Print Assumptions min_le_live.

(* (ii) whatever LazyFreeList::process_safe_items(min_version) would hand to the free callback in a
   reachable state was retired strictly before the version of every live token *)
Theorem reclaim_safe :
  forall level progs sched a t,
    let st := run true sched (init level progs) in
    In a (fst (take_safe BULK_FREE_NUM (minv (sh st)) (lazy (sh st)))) ->
    In t (live st) -> tracked t -> a < tv t.
Proof. exact reclaim_safe_proof. Qed.
Check reclaim_safe :
  forall level progs sched a t,
    let st := run true sched (init level progs) in
    In a (fst (take_safe BULK_FREE_NUM (minv (sh st)) (lazy (sh st)))) ->
    In t (live st) -> tracked t -> a < tv t.
Print Assumptions reclaim_safe.

(* (iii) whenever no thread is inside an operation the counters equal the numbers of live tokens *)
Theorem counters_exact_at_quiescence :
  forall level progs sched,
    let st := run true sched (init level progs) in
    quiescent st ->
    ar (sh st) = count_kind KR (live st) /\ aw (sh st) = count_kind KW (live st).
Proof. exact counters_exact_at_quiescence_proof. Qed.
Check counters_exact_at_quiescence :
  forall level progs sched,
    let st := run true sched (init level progs) in
    quiescent st ->
    ar (sh st) = count_kind KR (live st) /\ aw (sh st) = count_kind KW (live st).
Print Assumptions counters_exact_at_quiescence.

(* (iii) ... and are zero once every thread has finished and released everything *)
Theorem counters_zero_when_done :
  forall level progs sched,
    let st := run true sched (init level progs) in
    all_done st -> ar (sh st) = 0 /\ aw (sh st) = 0.
Proof. exact counters_zero_when_done_proof. Qed.
Check counters_zero_when_done :
  forall level progs sched,
    let st := run true sched (init level progs) in
    all_done st -> ar (sh st) = 0 /\ aw (sh st) = 0.
Print Assumptions counters_zero_when_done.

(* ---- the access order of the pinned tree violates (i) and (ii): explicit schedules ---- *)
Theorem two_writers_refuted :
  exists progs sched, count_kind KW (live (run false sched (init 3 progs))) = 2.
Proof. exact two_writers_refuted_proof. Qed.
Check two_writers_refuted :
  exists progs sched, count_kind KW (live (run false sched (init 3 progs))) = 2.
Print Assumptions two_writers_refuted.

Theorem min_version_overtakes_refuted :
  exists level progs sched t,
    let st := run false sched (init level progs) in
    In t (live st) /\ tracked t /\ tv t < minv (sh st).
Proof. exact min_version_overtakes_refuted_proof. Qed.
Check min_version_overtakes_refuted :
  exists level progs sched t,
    let st := run false sched (init level progs) in
    In t (live st) /\ tracked t /\ tv t < minv (sh st).
Print Assumptions min_version_overtakes_refuted.

Theorem reclaim_unsafe_refuted :
  exists level progs sched a t,
    let st := run false sched (init level progs) in
    In a (fst (take_safe BULK_FREE_NUM (minv (sh st)) (lazy (sh st)))) /\
    In t (live st) /\ tracked t /\ tv t <= a.
Proof. exact reclaim_unsafe_refuted_proof. Qed.
Check reclaim_unsafe_refuted :
  exists level progs sched a t,
    let st := run false sched (init level progs) in
    In a (fst (take_safe BULK_FREE_NUM (minv (sh st)) (lazy (sh st)))) /\
    In t (live st) /\ tracked t /\ tv t <= a.
Print Assumptions reclaim_unsafe_refuted.

(* ---- sequential histories over several managers, pinned tree: (iv) and (i) fail ---- *)
Theorem dangling_manager_refuted :
  exists ops, dangling (srun_ops false ops sinit) = 1.
Proof. exists dangling_hist. exact dangling_release. Qed.
Check dangling_manager_refuted : exists ops, dangling (srun_ops false ops sinit) = 1.
Print Assumptions dangling_manager_refuted.

Theorem cache_crosses_managers_refuted :
  exists ops, handed_writers (srun_ops false ops sinit) 1 = 2.
Proof. exists cross_hist. exact cross_cache_two_writers. Qed.
Check cache_crosses_managers_refuted : exists ops, handed_writers (srun_ops false ops sinit) 1 = 2.
Print Assumptions cache_crosses_managers_refuted.

(* ---- sequential histories over several managers, code after the fixes (any history whose
        acquire requests are for a reader or a writer) ---- *)
(* (iv) no token release - direct, through the thread cache, at the end of the history - is aimed at
   a manager state that has been freed: a state lives as long as its handle or any token it issued *)
Theorem seq_no_dangling :
  forall ops, Forall wf_sop ops ->
    dangling (srun_ops true ops sinit) = 0 /\ dangling (sfinish true (srun_ops true ops sinit)) = 0.
Proof. exact seq_no_dangling_proof. Qed.
Check seq_no_dangling :
  forall ops, Forall wf_sop ops ->
    dangling (srun_ops true ops sinit) = 0 /\ dangling (sfinish true (srun_ops true ops sinit)) = 0.
Print Assumptions seq_no_dangling.

(* a manager's acquire only ever returns tokens that this manager issued *)
Theorem seq_own_tokens :
  forall ops t, Forall wf_sop ops ->
    In t (sheld (srun_ops true ops sinit)) -> tk (s_tok t) <> KRO -> s_by t = s_issuer t.
Proof. exact seq_own_tokens_proof. Qed.
Check seq_own_tokens :
  forall ops t, Forall wf_sop ops ->
    In t (sheld (srun_ops true ops sinit)) -> tk (s_tok t) <> KRO -> s_by t = s_issuer t.
Print Assumptions seq_own_tokens.

(* (iii) every manager's counters equal the numbers of live tokens (held or cached) it issued *)
Theorem seq_counters_exact :
  forall ops i g, Forall wf_sop ops ->
    let st := srun_ops true ops sinit in
    nth_error (mgrs st) i = Some g ->
    ar (m_sh g) = cI KR i (sall st) /\ aw (m_sh g) = cI KW i (sall st).
Proof. exact seq_counters_exact_proof. Qed.
Check seq_counters_exact :
  forall ops i g, Forall wf_sop ops ->
    let st := srun_ops true ops sinit in
    nth_error (mgrs st) i = Some g ->
    ar (m_sh g) = cI KR i (sall st) /\ aw (m_sh g) = cI KW i (sall st).
Print Assumptions seq_counters_exact.

(* (iii) ... and return to zero once everything has been released *)
Theorem seq_counters_zero :
  forall ops i g, Forall wf_sop ops ->
    nth_error (mgrs (sfinish true (srun_ops true ops sinit))) i = Some g ->
    ar (m_sh g) = 0 /\ aw (m_sh g) = 0.
Proof. exact seq_counters_zero_proof. Qed.
Check seq_counters_zero :
  forall ops i g, Forall wf_sop ops ->
    nth_error (mgrs (sfinish true (srun_ops true ops sinit))) i = Some g ->
    ar (m_sh g) = 0 /\ aw (m_sh g) = 0.
Print Assumptions seq_counters_zero.

(* (i) a OneWriteMultiRead manager never has two live writer tokens handed out by its acquire *)
Theorem seq_writer_exclusion :
  forall ops i g, Forall wf_sop ops ->
    let st := srun_ops true ops sinit in
    nth_error (mgrs st) i = Some g -> lvl (m_sh g) = 3 -> handed_writers st i <= 1.
Proof. exact seq_writer_exclusion_proof. Qed.
Check seq_writer_exclusion :
  forall ops i g, Forall wf_sop ops ->
    let st := srun_ops true ops sinit in
    nth_error (mgrs st) i = Some g -> lvl (m_sh g) = 3 -> handed_writers st i <= 1.
Print Assumptions seq_writer_exclusion.

(* ---- the sequential summaries of ModelSeq.v are what a thread computes under the small-step
        semantics when nobody interferes (ties the two models together) ---- *)
Theorem solo_acquire_refines :
  forall tid s th k rest,
    k <> KRO -> lck s = None -> tpc th = Idle -> prog th = acq_op k :: rest ->
    exists n,
      titer n tid s th =
      Some (match acquire_seq s k with
            | (s', Some t) => (s', got_token th t)
            | (s', None) => (s', refused th)
            end).
Proof. exact solo_acquire_proof. Qed.
Check solo_acquire_refines :
  forall tid s th k rest,
    k <> KRO -> lck s = None -> tpc th = Idle -> prog th = acq_op k :: rest ->
    exists n,
      titer n tid s th =
      Some (match acquire_seq s k with
            | (s', Some t) => (s', got_token th t)
            | (s', None) => (s', refused th)
            end).
Print Assumptions solo_acquire_refines.

Theorem solo_release_refines :
  forall tid s th i t rest,
    lck s = None -> tpc th = Idle -> pend th = [] -> prog th = Drop i :: rest ->
    nth_error (held th) i = Some t -> tk t <> KRO ->
    exists n,
      titer n tid s th =
      Some (release_seq s (tk t),
            Th rest Idle (remove_nth i (held th)) (cache_r th) (cache_w th) [] (res th)).
Proof. exact solo_release_proof. Qed.
Check solo_release_refines :
  forall tid s th i t rest,
    lck s = None -> tpc th = Idle -> pend th = [] -> prog th = Drop i :: rest ->
    nth_error (held th) i = Some t -> tk t <> KRO ->
    exists n,
      titer n tid s th =
      Some (release_seq s (tk t),
            Th rest Idle (remove_nth i (held th)) (cache_r th) (cache_w th) [] (res th)).
Print Assumptions solo_release_refines.

(* the hypotheses of the positive theorems are inhabited by non-trivial runs *)
Example writer_exclusion_nontrivial :
  count_kind KW (live (run true w2_sched (init 3 w2_progs))) = 1.
Proof. vm_compute. reflexivity. Qed.
Example min_le_live_nontrivial :
  In (Tok KR 2 1) (live (run true mo_sched (init 4 mo_progs))).
Proof. vm_compute. left. reflexivity. Qed.
Example seq_nontrivial :
  Forall wf_sop cross_hist /\ handed_writers (srun_ops true cross_hist sinit) 1 = 1
  /\ Forall wf_sop dangling_cache_hist.
Proof. vm_compute. repeat split; repeat constructor; discriminate. Qed.

(* ---- the lazy free list: bulk processing rule, age order, every interleaving (ModelLazy.v, ProofsLazy.v) ---- *)
(* LazyFreeList::process_safe_items with any bulk threshold (the loop as written): what it frees is a prefix of the
   queue (oldest first, nothing lost), every freed age is below min_version, at most max(1, threshold) items per call,
   it stops only at the end of the queue, at an item that may still be seen, or at the limit, and it frees at least one
   item when the oldest one is safe (so repeated calls drain the queue) *)
Theorem process_safe_items_spec :
  forall thr m l,
    let freed := fst (process_safe thr m l) in
    let rest := snd (process_safe thr m l) in
    freed ++ rest = l /\
    (forall a, In a freed -> a < m) /\
    nlen freed <= N.max 1 thr /\
    (rest = [] \/ (exists b r, rest = b :: r /\ m <= b) \/ (freed <> [] /\ thr <= nlen freed)) /\
    (forall a r, l = a :: r -> a < m -> freed <> []).
Proof. exact process_safe_items_spec_proof. Qed.
Check process_safe_items_spec :
  forall thr m l,
    let freed := fst (process_safe thr m l) in
    let rest := snd (process_safe thr m l) in
    freed ++ rest = l /\
    (forall a, In a freed -> a < m) /\
    nlen freed <= N.max 1 thr /\
    (rest = [] \/ (exists b r, rest = b :: r /\ m <= b) \/ (freed <> [] /\ thr <= nlen freed)) /\
    (forall a r, l = a :: r -> a < m -> freed <> []).
Print Assumptions process_safe_items_spec.

(* in every reachable state (either access order, any threshold) the queue is in age order and no item is newer than
   current_version: `break` at the first item that cannot be freed loses nothing *)
Theorem queue_in_age_order :
  forall fx level b progs sched,
    let st := run fx sched (initb level b progs) in
    sorted_le (lazy (sh st)) /\ Forall (fun a => a <= cur (sh st)) (lazy (sh st)).
Proof. exact queue_in_age_order_proof. Qed.
Check queue_in_age_order :
  forall fx level b progs sched,
    let st := run fx sched (initb level b progs) in
    sorted_le (lazy (sh st)) /\ Forall (fun a => a <= cur (sh st)) (lazy (sh st)).
Print Assumptions queue_in_age_order.

(* (ii) for every bulk threshold: whatever process_safe_items(min_version) would free in a reachable state was retired
   strictly before the version of every live token *)
Theorem bulk_reclaim_safe :
  forall level b progs sched a t,
    let st := run true sched (initb level b progs) in
    In a (fst (process_safe (bulk (sh st)) (minv (sh st)) (lazy (sh st)))) ->
    In t (live st) -> tracked t -> a < tv t.
Proof. exact bulk_reclaim_safe_proof. Qed.
Check bulk_reclaim_safe :
  forall level b progs sched a t,
    let st := run true sched (initb level b progs) in
    In a (fst (process_safe (bulk (sh st)) (minv (sh st)) (lazy (sh st)))) ->
    In t (live st) -> tracked t -> a < tv t.
Print Assumptions bulk_reclaim_safe.

(* (ii) every interleaving of retire / acquire / release / with_*_token / hand-over / (gated) bulk processing: an item
   that leaves the queue in a step of any thread is older than every token that is live when the step is taken ... *)
Theorem handed_back_safe :
  forall level b progs sched tid a t,
    let st := run true sched (initb level b progs) in
    In a (handed_back (sh st) (sh (step true st tid))) ->
    In t (live st) -> tracked t -> a < tv t.
Proof. exact handed_back_safe_proof. Qed.
Check handed_back_safe :
  forall level b progs sched tid a t,
    let st := run true sched (initb level b progs) in
    In a (handed_back (sh st) (sh (step true st tid))) ->
    In t (live st) -> tracked t -> a < tv t.
Print Assumptions handed_back_safe.

(* ... and than every token that is live after it *)
Theorem handed_back_safe_after :
  forall level b progs sched tid a t,
    let st := run true sched (initb level b progs) in
    let st' := step true st tid in
    In a (handed_back (sh st) (sh st')) ->
    In t (live st') -> tracked t -> a < tv t.
Proof. exact handed_back_safe_after_proof. Qed.
Check handed_back_safe_after :
  forall level b progs sched tid a t,
    let st := run true sched (initb level b progs) in
    let st' := step true st tid in
    In a (handed_back (sh st) (sh st')) ->
    In t (live st') -> tracked t -> a < tv t.
Print Assumptions handed_back_safe_after.

(* with the default threshold (LazyFreeList::new) the loop is the 32-item prefix scan of the first theorems *)
Theorem process_safe_default_is_take_safe :
  forall m l, process_safe BULK_FREE_N m l = take_safe BULK_FREE_NUM m l.
Proof. exact process_safe_default_proof. Qed.
Check process_safe_default_is_take_safe :
  forall m l, process_safe BULK_FREE_N m l = take_safe BULK_FREE_NUM m l.
Print Assumptions process_safe_default_is_take_safe.

(* ---- refinement to the abstract specification (ModelSpec.v, ProofsSpec.v, ProofsRefine.v) ---- *)
(* the abstract specification (ModelSpec.v: multiset of live reader versions, multiset of live writer versions, threshold;
   steps acquire / release / advance) keeps: at most one writer in OneWriteMultiRead, threshold <= every live version *)
Theorem spec_invariants :
  forall level a, areach level a -> ainv level a.
Proof. exact areach_ainv. Qed.
Check spec_invariants :
  forall level a, areach level a -> ainv level a.
Print Assumptions spec_invariants.

(* REFINEMENT: in every reachable state of the interleaving semantics (fixed access order, any programs over the extended
   alphabet, any threshold, any schedule) every step of every thread is the step of the specification named by `label_of`:
   a token comes into existence at the fetch_add of current_version (or as the (1,1) token of a single-threaded level) and
   ceases to exist at the decrement of its counter; the store in try_advance_min_version is an `advance`; everything else
   - cache traffic, with_*_token, hand-over between threads, retire / reclaim - is invisible *)
Theorem step_refines :
  forall level b progs sched tid,
    let st := run true sched (initb level b progs) in
    astep level (abs st) (label_of st tid) (abs (step true st tid)).
Proof. exact step_refines_run_proof. Qed.
Check step_refines :
  forall level b progs sched tid,
    let st := run true sched (initb level b progs) in
    astep level (abs st) (label_of st tid) (abs (step true st tid)).
Print Assumptions step_refines.

(* ... hence the abstraction of every reachable state is a reachable state of the specification *)
Theorem run_refines :
  forall level b progs sched, areach level (abs (run true sched (initb level b progs))).
Proof. exact run_refines_proof. Qed.
Check run_refines :
  forall level b progs sched, areach level (abs (run true sched (initb level b progs))).
Print Assumptions run_refines.

(* the clauses of the property as corollaries of the specification's invariants: (i) the live writer tokens are among the
   specification's writers, at most one at level 3; (ii) every live token's version is in the specification's multisets, all
   of which are >= the threshold = min_version; (iii) when no operation is in flight the counters are the sizes of the
   specification's multisets *)
Theorem property_from_spec :
  forall level b progs sched,
    let st := run true sched (initb level b progs) in
    ainv level (abs st) /\
    (level = 3 -> count_kind KW (live st) <= nlen (a_wr (abs st)) <= 1) /\
    (forall t, In t (live st) -> tracked t ->
       In (tv t) (a_rd (abs st) ++ a_wr (abs st)) /\ a_lo (abs st) = minv (sh st) /\ minv (sh st) <= tv t) /\
    (quiescent st -> ar (sh st) = nlen (a_rd (abs st)) /\ aw (sh st) = nlen (a_wr (abs st))).
Proof. exact property_from_spec_proof. Qed.
Check property_from_spec :
  forall level b progs sched,
    let st := run true sched (initb level b progs) in
    ainv level (abs st) /\
    (level = 3 -> count_kind KW (live st) <= nlen (a_wr (abs st)) <= 1) /\
    (forall t, In t (live st) -> tracked t ->
       In (tv t) (a_rd (abs st) ++ a_wr (abs st)) /\ a_lo (abs st) = minv (sh st) /\ minv (sh st) <= tv t) /\
    (quiescent st -> ar (sh st) = nlen (a_rd (abs st)) /\ aw (sh st) = nlen (a_wr (abs st))).
Print Assumptions property_from_spec.

(* ---- the mutex (ProofsLive.v) ---- *)
(* no interleaving of the modelled operations deadlocks: in every reachable state, as long as some thread has not finished,
   some thread can take a step (token_chain_mutex is always held by a thread inside the critical section, and such a thread
   is never blocked) *)
Theorem deadlock_free :
  forall level b progs sched,
    let st := run true sched (initb level b progs) in
    (exists i th, nth_error (ths st) i = Some th /\ ~ (tpc th = Idle /\ cur_op th = None)) ->
    exists tid th s' th', nth_error (ths st) tid = Some th /\ tstep true tid (sh st) th = Some (s', th').
Proof. exact deadlock_free_proof. Qed.
Check deadlock_free :
  forall level b progs sched,
    let st := run true sched (initb level b progs) in
    (exists i th, nth_error (ths st) i = Some th /\ ~ (tpc th = Idle /\ cur_op th = None)) ->
    exists tid th s' th', nth_error (ths st) tid = Some th /\ tstep true tid (sh st) th = Some (s', th').
Print Assumptions deadlock_free.

(* ... and the mutex is free whenever no thread is inside an operation *)
Theorem mutex_free_at_quiescence :
  forall level b progs sched,
    let st := run true sched (initb level b progs) in
    quiescent st -> lck (sh st) = None.
Proof. exact mutex_free_at_quiescence_proof. Qed.
Check mutex_free_at_quiescence :
  forall level b progs sched,
    let st := run true sched (initb level b progs) in
    quiescent st -> lck (sh st) = None.
Print Assumptions mutex_free_at_quiescence.

(* ---- two more consequences ---- *)
(* (iii) also while closures of with_*_token own their tokens: whenever every thread is between operations or inside such a
   closure, the counters equal the numbers of live tokens *)
Theorem counters_exact_at_rest :
  forall level b progs sched,
    let st := run true sched (initb level b progs) in
    at_rest st ->
    ar (sh st) = count_kind KR (live st) /\ aw (sh st) = count_kind KW (live st).
Proof. exact counters_exact_at_rest_proof. Qed.
Check counters_exact_at_rest :
  forall level b progs sched,
    let st := run true sched (initb level b progs) in
    at_rest st ->
    ar (sh st) = count_kind KR (live st) /\ aw (sh st) = count_kind KW (live st).
Print Assumptions counters_exact_at_rest.

(* repeated process_safe_items with a min_version above every queued age empties the queue within len() calls, for every
   threshold (0 included) *)
Theorem drain_empties :
  forall n thr m l, Forall (fun a => a < m) l -> (length l <= n)%nat -> drain_n n thr m l = [].
Proof. exact drain_empties_proof. Qed.
Check drain_empties :
  forall n thr m l, Forall (fun a => a < m) l -> (length l <= n)%nat -> drain_n n thr m l = [].
Print Assumptions drain_empties.

(* (iii) at every instant (what the oracle checks after every step): held <= counter <= held + threads in the middle of an
   acquire or a release *)
Theorem counters_bounded_always :
  forall level b progs sched,
    let st := run true sched (initb level b progs) in
    count_kind KR (live st) <= ar (sh st) <= count_kind KR (live st) + nlen (filter busy (ths st)) /\
    count_kind KW (live st) <= aw (sh st) <= count_kind KW (live st) + nlen (filter busy (ths st)).
Proof. exact counters_bounded_always_proof. Qed.
Check counters_bounded_always :
  forall level b progs sched,
    let st := run true sched (initb level b progs) in
    count_kind KR (live st) <= ar (sh st) <= count_kind KR (live st) + nlen (filter busy (ths st)) /\
    count_kind KW (live st) <= aw (sh st) <= count_kind KW (live st) + nlen (filter busy (ths st)).
Print Assumptions counters_bounded_always.

