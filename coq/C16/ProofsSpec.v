(* C16: the clauses of the property are invariants of the abstract specification (ModelSpec.v). *)
From ZV.Common Require Import Base.
From ZV.C16 Require Import Model ModelSpec.
Open Scope N_scope.

Lemma occn_cons x y l : occn x (y :: l) = (if x =? y then 1 else 0) + occn x l.
Proof. unfold occn. cbn [filter]. destruct (x =? y); cbn [nlen]; lia. Qed.
Lemma occn_app x a b : occn x (a ++ b) = occn x a + occn x b.
Proof. unfold occn. rewrite filter_app, nlen_app. reflexivity. Qed.
Lemma occn_nil x : occn x [] = 0.
Proof. reflexivity. Qed.

Lemma occn_In x l : In x l <-> 1 <= occn x l.
Proof.
  induction l as [|y l IH]; [split; [intros []|rewrite occn_nil; lia]|].
  rewrite occn_cons. cbn [In]. destruct (N.eqb_spec x y) as [->|NE].
  - split; [lia|auto].
  - rewrite IH. split; [intros [E|H]; [congruence|lia]|intros H; right; lia].
Qed.

Lemma meq_In l l' x : meq l l' -> In x l -> In x l'.
Proof. intros M H. apply occn_In. rewrite <- (M x). apply occn_In. exact H. Qed.
Lemma meq_sym l l' : meq l l' -> meq l' l.
Proof. intros M x. symmetry. apply M. Qed.

Lemma meq_nlen : forall l l', meq l l' -> nlen l = nlen l'.
Proof.
  induction l as [|x r IH]; intros l' M.
  - destruct l' as [|y l']; [reflexivity|]. specialize (M y). rewrite occn_nil, occn_cons, N.eqb_refl in M. lia.
  - assert (I : In x l').
    { apply occn_In. rewrite <- (M x), occn_cons, N.eqb_refl. lia. }
    apply in_split in I. destruct I as (a & b & ->).
    assert (M' : meq r (a ++ b)).
    { intros y. specialize (M y). rewrite occn_cons, occn_app, occn_cons in M. rewrite occn_app. lia. }
    rewrite (nlen_app a (x :: b)). cbn [nlen]. rewrite (IH _ M'), nlen_app. lia.
Qed.

Lemma astep_ainv level a lb a' : ainv level a -> astep level a lb a' -> ainv level a'.
Proof.
  intros [W L] S. destruct lb as [|v|v|v|v|m]; cbn [astep] in S.
  - destruct S as (R1 & W1 & E). split.
    + intros L3. rewrite (meq_nlen _ _ W1). auto.
    + intros v I. rewrite E. apply L. apply in_app_or in I. apply in_or_app.
      destruct I as [I|I]; [left; eapply meq_In; eauto|right; eapply meq_In; eauto].
  - destruct S as (LO & R1 & W1 & E). split.
    + intros L3. rewrite (meq_nlen _ _ W1). auto.
    + intros x I. rewrite E. apply in_app_or in I. destruct I as [I|I].
      * apply (meq_In _ _ _ R1) in I. destruct I as [<-|I]; [exact LO|]. apply L. apply in_or_app. auto.
      * apply (meq_In _ _ _ W1) in I. apply L. apply in_or_app. auto.
  - destruct S as (LO & X & R1 & W1 & E). split.
    + intros L3. rewrite (meq_nlen _ _ W1), (X L3). cbn. lia.
    + intros x I. rewrite E. apply in_app_or in I. destruct I as [I|I].
      * apply (meq_In _ _ _ R1) in I. apply L. apply in_or_app. auto.
      * apply (meq_In _ _ _ W1) in I. destruct I as [<-|I]; [exact LO|]. apply L. apply in_or_app. auto.
  - destruct S as (R1 & W1 & E). split.
    + intros L3. rewrite (meq_nlen _ _ W1). auto.
    + intros x I. rewrite E. apply L. apply in_app_or in I. apply in_or_app. destruct I as [I|I].
      * left. apply (meq_In _ _ _ (meq_sym _ _ R1)). right. exact I.
      * right. eapply meq_In; eauto.
  - destruct S as (R1 & W1 & E). split.
    + intros L3. specialize (W L3). rewrite (meq_nlen _ _ W1) in W. cbn [nlen] in W. lia.
    + intros x I. rewrite E. apply L. apply in_app_or in I. apply in_or_app. destruct I as [I|I].
      * left. eapply meq_In; eauto.
      * right. apply (meq_In _ _ _ (meq_sym _ _ W1)). right. exact I.
  - destruct S as (LO & X & R1 & W1 & E). split.
    + intros L3. rewrite (meq_nlen _ _ W1). auto.
    + intros x I. rewrite E. apply X. apply in_app_or in I. apply in_or_app.
      destruct I as [I|I]; [left; eapply meq_In; eauto|right; eapply meq_In; eauto].
Qed.

Lemma ainit_ainv level : ainv level ainit.
Proof. split; [intros _; cbn; lia|intros v []]. Qed.

Lemma areach_ainv level a : areach level a -> ainv level a.
Proof. induction 1; [apply ainit_ainv|eapply astep_ainv; eauto]. Qed.
