(* C16: case analysis of one step of the fixed access order. *)
From ZV.Common Require Import Base.
From ZV.C16 Require Import Model ProofsBase ProofsInv.
Open Scope N_scope.

Lemma tinv_tokens s i th : tinv s i th -> Forall (tok_ok s) (tokens_of th).
Proof. intros H. pose proof (i_tok _ _ _ H) as F. rewrite Forall_app in F. tauto. Qed.
Lemma tinv_inflight s i th : tinv s i th -> Forall (tok_ok s) (inflight th).
Proof. intros H. pose proof (i_tok _ _ _ H) as F. rewrite Forall_app in F. tauto. Qed.

Lemma tinv_set_pc s i th p :
  Forall (tok_ok s) (tokens_of th) -> Forall (tok_ok s) (inflight (set_pc th p)) ->
  (in_cs (lvl s) p = true -> lck s = Some i) ->
  pc_kind_ok p -> pc_level_ok (lvl s) p -> pc_facts s p -> (release_pc p = false -> pend th = []) ->
  tinv s i (set_pc th p).
Proof.
  intros F1 F2 C K L X NI. constructor; cbn [set_pc tpc]; auto.
  rewrite tokens_of_set_pc. apply Forall_app. split; assumption.
Qed.

Lemma cnt_set_pc k th p : cnt k (set_pc th p) = count_kind k (tokens_of th) + cnt_pc k p.
Proof. reflexivity. Qed.

Lemma tokens_got k th t r :
  count_kind k (tokens_of (complete (Th (prog th) (tpc th) (held th ++ [t]) (cache_r th) (cache_w th) (pend th) (res th)) r))
  = count_kind k (tokens_of th) + count_kind k [t].
Proof. unfold tokens_of. cbn. rewrite !count_kind_app. lia. Qed.

Lemma got_token_cnt k th t :
  cnt k (got_token th t) = count_kind k (tokens_of th) + count_kind k [t].
Proof.
  unfold got_token. destruct (in_with th).
  - rewrite cnt_wbody by reflexivity. unfold tokens_of. cbn. rewrite !count_kind_app. lia.
  - rewrite cnt_idle by reflexivity. apply tokens_got.
Qed.

Lemma got_token_tinv s i th t :
  pend th = [] -> Forall (tok_ok s) (tokens_of th) -> tok_ok s t -> tinv s i (got_token th t).
Proof.
  intros E F T. unfold got_token. destruct (in_with th).
  - apply tinv_wbody; [reflexivity|exact E|].
    unfold tokens_of in *. cbn. rewrite !Forall_app in *. intuition.
  - apply tinv_idle; [reflexivity|exact E|].
    unfold tokens_of in *. cbn. rewrite !Forall_app in *. intuition.
Qed.

Lemma complete_tinv s i th r :
  pend th = [] -> Forall (tok_ok s) (tokens_of th) -> tinv s i (complete th r).
Proof. intros E F. apply tinv_idle; [reflexivity|exact E|exact F]. Qed.
Lemma complete_cnt k th r : cnt k (complete th r) = count_kind k (tokens_of th).
Proof. rewrite cnt_idle by reflexivity. reflexivity. Qed.

Lemma sync_level_ok l p : requires_sync l = true -> pc_level_ok l p.
Proof. unfold pc_level_ok. intros H H'. congruence. Qed.

Lemma lvl3_sync l : l = 3 -> requires_sync l = true.
Proof. intros ->. reflexivity. Qed.

(* ---- VersionManager::acquire_*_token up to its first shared access ---- *)
Lemma begin_acquire_ok s i th k :
  tinv s i th -> tpc th = Idle -> k <> KRO ->
  (requires_sync (lvl s) = false -> cur s = 1 /\ minv s = 1) ->
  tinv s i (begin_acquire true s th k) /\
  cnt KR (begin_acquire true s th k) = cnt KR th /\
  cnt KW (begin_acquire true s th k) = cnt KW th.
Proof.
  intros T P K NS. pose proof (tinv_tokens _ _ _ T) as F.
  assert (E : pend th = []) by (apply (i_pend _ _ _ T); rewrite P; reflexivity).
  unfold begin_acquire. rewrite !(cnt_idle _ th P).
  destruct (lvl s =? 0) eqn:L0.
  - destruct k; try congruence.
    + split; [apply got_token_tinv; auto; apply tok_ok_kro; reflexivity|].
      rewrite !got_token_cnt, !count_kind_one. cbn. lia.
    + unfold refused. split; [apply complete_tinv; auto|]. rewrite !complete_cnt. auto.
  - destruct (requires_sync (lvl s)) eqn:RS.
    + assert (X : tinv s i (set_pc th (ALock k))).
      { apply tinv_set_pc; cbn; auto; try discriminate; try (apply sync_level_ok; exact RS). }
      destruct k; try congruence; cbn [negb andb]; split; auto; rewrite !cnt_set_pc; cbn; lia.
    + destruct (NS eq_refl) as [C M].
      assert (X : tinv s i (set_pc th (AInc k 1 1))).
      { apply tinv_set_pc; cbn; auto; try discriminate.
        - constructor; [|constructor]. intros _. cbn. lia.
        - rewrite RS. discriminate.
        - intros _. auto.
        - destruct k; auto. intros L3. apply lvl3_sync in L3. congruence. }
      destruct k; try congruence; split; auto; rewrite !cnt_set_pc; cbn; lia.
Qed.

Lemma Forall_tokens_of (P : token -> Prop) th :
  Forall P (tokens_of th) <->
  Forall P (held th) /\ Forall P (opt_list (cache_r th)) /\ Forall P (opt_list (cache_w th)) /\ Forall P (pend th).
Proof. unfold tokens_of. rewrite !Forall_app. tauto. Qed.
Lemma count_tokens_of k th :
  count_kind k (tokens_of th) =
  count_kind k (held th) + count_kind k (opt_list (cache_r th)) + count_kind k (opt_list (cache_w th)) + count_kind k (pend th).
Proof. unfold tokens_of. rewrite !count_kind_app. lia. Qed.

Ltac proj := cbn [held cache_r cache_w pend tpc prog res opt_list complete refused set_pc].

(* TokenManager::return_*_token *)
Lemma do_ret_ok s i th j :
  pend th = [] -> Forall (tok_ok s) (tokens_of th) ->
  tinv s i (do_ret th j) /\
  cnt KR (do_ret th j) = count_kind KR (tokens_of th) /\
  cnt KW (do_ret th j) = count_kind KW (tokens_of th).
Proof.
  intros E F. pose proof F as F0. apply Forall_tokens_of in F. destruct F as (FH & FR & FW & FP).
  unfold do_ret. rewrite !(count_tokens_of _ th), E, !count_kind_nil.
  destruct (nth_error (held th) j) as [x|] eqn:Hn.
  - pose proof (Forall_nth_error _ _ _ _ FH Hn) as OKx.
    pose proof (Forall_remove_nth _ _ j FH) as FH'.
    rewrite (count_kind_remove_nth KR _ _ _ Hn), (count_kind_remove_nth KW _ _ _ Hn).
    destruct (tk x) eqn:Kx; (split; [|split]);
      try (apply release_next_tinv; apply Forall_tokens_of; proj; intuition);
      try (rewrite release_next_cnt by discriminate; rewrite count_tokens_of; proj;
           rewrite !count_kind_one, ?Kx; lia).
  - split.
    + apply complete_tinv; auto.
    + rewrite !complete_cnt, !count_tokens_of, E, !count_kind_nil. auto.
Qed.

(* the operations that move a token between a thread and the mailbox *)
Definition is_mail_op (o : option op) : bool :=
  match o with Some (Give _) | Some Take => true | _ => false end.

(* a step out of Idle never touches current/min version, the counters or the mutex *)
Lemma idle_step s i th s' th' :
  tinv s i th -> tpc th = Idle ->
  (requires_sync (lvl s) = false -> cur s = 1 /\ minv s = 1) ->
  is_mail_op (cur_op th) = false ->
  tstep true i s th = Some (s', th') ->
  (lvl s' = lvl s /\ cur s' = cur s /\ minv s' = minv s /\ ar s' = ar s /\ aw s' = aw s /\ lck s' = lck s /\
   mail s' = mail s) /\
  tinv s i th' /\ cnt KR th' = cnt KR th /\ cnt KW th' = cnt KW th.
Proof.
  intros T P NS MO S. pose proof (tinv_tokens _ _ _ T) as F.
  assert (E : pend th = []) by (apply (i_pend _ _ _ T); rewrite P; reflexivity).
  apply Forall_tokens_of in F. destruct F as (FH & FR & FW & FP).
  unfold tstep in S. rewrite P in S.
  assert (KR1 : KR <> KRO) by discriminate. assert (KW1 : KW <> KRO) by discriminate.
  rewrite !(cnt_idle _ th P), !(count_tokens_of _ th), E, !count_kind_nil.
  destruct (cur_op th) as [o|]; [|discriminate].
  destruct o as [| | | |j|j| | | | | |j| | | |]; try discriminate MO.
  - injection S as <- <-. split; [tauto|].
    pose proof (begin_acquire_ok s i th KR T P KR1 NS) as B.
    rewrite !(cnt_idle _ th P), !(count_tokens_of _ th), E, !count_kind_nil in B. exact B.
  - injection S as <- <-. split; [tauto|].
    pose proof (begin_acquire_ok s i th KW T P KW1 NS) as B.
    rewrite !(cnt_idle _ th P), !(count_tokens_of _ th), E, !count_kind_nil in B. exact B.
  - destruct (cache_r th) as [c|] eqn:C.
    + injection S as <- <-. split; [tauto|]. split.
      * apply tinv_idle; [reflexivity|exact E|]. apply Forall_tokens_of. proj.
        rewrite Forall_app. cbn [opt_list] in FR. intuition.
      * rewrite !cnt_idle by reflexivity. rewrite !count_tokens_of. proj.
        rewrite E, !count_kind_app, !count_kind_nil. split; lia.
    + injection S as <- <-. split; [tauto|].
      pose proof (begin_acquire_ok s i th KR T P KR1 NS) as B.
      rewrite !(cnt_idle _ th P), !(count_tokens_of _ th), E, C, !count_kind_nil in B. exact B.
  - destruct (cache_w th) as [c|] eqn:C.
    + injection S as <- <-. split; [tauto|]. split.
      * apply tinv_idle; [reflexivity|exact E|]. apply Forall_tokens_of. proj.
        rewrite Forall_app. cbn [opt_list] in FW. intuition.
      * rewrite !cnt_idle by reflexivity. rewrite !count_tokens_of. proj.
        rewrite E, !count_kind_app, !count_kind_nil. split; lia.
    + injection S as <- <-. split; [tauto|].
      pose proof (begin_acquire_ok s i th KW T P KW1 NS) as B.
      rewrite !(cnt_idle _ th P), !(count_tokens_of _ th), E, C, !count_kind_nil in B. exact B.
  - (* Drop j *)
    destruct (nth_error (held th) j) as [x|] eqn:Hn.
    + injection S as <- <-. split; [tauto|].
      pose proof (Forall_nth_error _ _ _ _ FH Hn) as OKx.
      split; [|split].
      * apply release_next_tinv. apply Forall_tokens_of. proj. intuition.
        apply Forall_remove_nth; assumption.
      * rewrite release_next_cnt by discriminate. rewrite count_tokens_of. proj.
        rewrite (count_kind_remove_nth KR _ _ _ Hn). lia.
      * rewrite release_next_cnt by discriminate. rewrite count_tokens_of. proj.
        rewrite (count_kind_remove_nth KW _ _ _ Hn). lia.
    + injection S as <- <-. split; [tauto|]. split.
      * apply complete_tinv; auto. apply Forall_tokens_of. tauto.
      * rewrite !complete_cnt, !count_tokens_of, E, !count_kind_nil. auto.
  - (* Ret j *)
    injection S as <- <-. split; [tauto|].
    assert (F0 : Forall (tok_ok s) (tokens_of th)) by (apply Forall_tokens_of; tauto).
    pose proof (do_ret_ok s i th j E F0) as B.
    rewrite !(count_tokens_of _ th), E, !count_kind_nil in B. exact B.
  - (* Clear *)
    injection S as <- <-. split; [tauto|]. split; [|split].
    + apply release_next_tinv. apply Forall_tokens_of. proj. rewrite Forall_app. intuition.
    + rewrite release_next_cnt by discriminate. rewrite count_tokens_of. proj.
      rewrite !count_kind_app, !count_kind_nil. lia.
    + rewrite release_next_cnt by discriminate. rewrite count_tokens_of. proj.
      rewrite !count_kind_app, !count_kind_nil. lia.
  - (* Retire *)
    injection S as <- <-. cbn. split; [tauto|]. split.
    + apply complete_tinv; auto. apply Forall_tokens_of. tauto.
    + rewrite !complete_cnt, !count_tokens_of, E, !count_kind_nil. auto.
  - (* Reclaim *)
    destruct (process_safe (bulk s) (minv s) (lazy s)) as [fr rest].
    injection S as <- <-. cbn. split; [tauto|]. split.
    + apply complete_tinv; auto. apply Forall_tokens_of. tauto.
    + rewrite !complete_cnt, !count_tokens_of, E, !count_kind_nil. auto.
  - (* WithR *)
    destruct (cache_r th) as [c|] eqn:C.
    + injection S as <- <-. split; [tauto|]. split.
      * apply got_token_tinv; [exact E| |cbn [opt_list] in FR; inversion FR; assumption].
        apply Forall_tokens_of. proj. intuition.
      * rewrite !got_token_cnt, !count_tokens_of. proj. rewrite E, !count_kind_nil. split; lia.
    + injection S as <- <-. split; [tauto|].
      pose proof (begin_acquire_ok s i th KR T P KR1 NS) as B.
      rewrite !(cnt_idle _ th P), !(count_tokens_of _ th), E, C, !count_kind_nil in B. exact B.
  - (* WithW *)
    destruct (cache_w th) as [c|] eqn:C.
    + injection S as <- <-. split; [tauto|]. split.
      * apply got_token_tinv; [exact E| |cbn [opt_list] in FW; inversion FW; assumption].
        apply Forall_tokens_of. proj. intuition.
      * rewrite !got_token_cnt, !count_tokens_of. proj. rewrite E, !count_kind_nil. split; lia.
    + injection S as <- <-. split; [tauto|].
      pose proof (begin_acquire_ok s i th KW T P KW1 NS) as B.
      rewrite !(cnt_idle _ th P), !(count_tokens_of _ th), E, C, !count_kind_nil in B. exact B.
  - (* RetireN *)
    injection S as <- <-. cbn. split; [tauto|]. split.
    + apply complete_tinv; auto. apply Forall_tokens_of. tauto.
    + rewrite !complete_cnt, !count_tokens_of, E, !count_kind_nil. auto.
  - (* ReclaimBulk *)
    destruct (should_bulk (bulk s) (lazy s)).
    + destruct (process_safe (bulk s) (minv s) (lazy s)) as [fr rest].
      injection S as <- <-. cbn. split; [tauto|]. split.
      * apply complete_tinv; auto. apply Forall_tokens_of. tauto.
      * rewrite !complete_cnt, !count_tokens_of, E, !count_kind_nil. auto.
    + injection S as <- <-. split; [tauto|]. split.
      * apply complete_tinv; auto. apply Forall_tokens_of. tauto.
      * rewrite !complete_cnt, !count_tokens_of, E, !count_kind_nil. auto.
  - (* ClearStats *)
    injection S as <- <-. split; [tauto|]. split.
    + apply complete_tinv; auto. apply Forall_tokens_of. tauto.
    + rewrite !complete_cnt, !count_tokens_of, E, !count_kind_nil. auto.
Qed.

(* Give / Take: a token moves between the thread and the mailbox; nothing else changes *)
Lemma mail_step s i th s' th' :
  tinv s i th -> tpc th = Idle -> Forall (tok_ok s) (mail s) ->
  is_mail_op (cur_op th) = true ->
  tstep true i s th = Some (s', th') ->
  (lvl s' = lvl s /\ cur s' = cur s /\ minv s' = minv s /\ ar s' = ar s /\ aw s' = aw s /\ lck s' = lck s) /\
  tinv s i th' /\
  cnt KR th' + count_kind KR (mail s') = cnt KR th + count_kind KR (mail s) /\
  cnt KW th' + count_kind KW (mail s') = cnt KW th + count_kind KW (mail s) /\
  Forall (tok_ok s) (mail s').
Proof.
  intros T P FM MO S. pose proof (tinv_tokens _ _ _ T) as F.
  assert (E : pend th = []) by (apply (i_pend _ _ _ T); rewrite P; reflexivity).
  apply Forall_tokens_of in F. destruct F as (FH & FR & FW & FP).
  unfold tstep in S. rewrite P in S.
  rewrite !(cnt_idle _ th P), !(count_tokens_of _ th), E, !count_kind_nil.
  destruct (cur_op th) as [o|]; [|discriminate].
  destruct o as [| | | |j|j| | | | | |j| | | |]; try discriminate MO.
  - (* Give j *)
    destruct (nth_error (held th) j) as [x|] eqn:Hn.
    + injection S as <- <-. cbn [set_mail lvl cur minv ar aw lck mail]. split; [tauto|].
      pose proof (Forall_nth_error _ _ _ _ FH Hn) as OKx.
      split; [|split; [|split]].
      * apply complete_tinv; [exact E|]. apply Forall_tokens_of. proj. intuition.
        apply Forall_remove_nth; assumption.
      * rewrite complete_cnt, count_tokens_of. proj.
        rewrite (count_kind_remove_nth KR _ _ _ Hn), (count_kind_cons KR x (mail s)), count_kind_one, E, count_kind_nil. lia.
      * rewrite complete_cnt, count_tokens_of. proj.
        rewrite (count_kind_remove_nth KW _ _ _ Hn), (count_kind_cons KW x (mail s)), count_kind_one, E, count_kind_nil. lia.
      * constructor; assumption.
    + injection S as <- <-. split; [tauto|]. split; [|split; [|split]].
      * apply complete_tinv; auto. apply Forall_tokens_of. tauto.
      * rewrite complete_cnt, count_tokens_of, E, count_kind_nil. lia.
      * rewrite complete_cnt, count_tokens_of, E, count_kind_nil. lia.
      * exact FM.
  - (* Take *)
    destruct (mail s) as [|x r] eqn:M.
    + injection S as <- <-. rewrite M. split; [tauto|]. split; [|split; [|split]].
      * apply complete_tinv; auto. apply Forall_tokens_of. tauto.
      * rewrite complete_cnt, count_tokens_of, E, count_kind_nil. lia.
      * rewrite complete_cnt, count_tokens_of, E, count_kind_nil. lia.
      * constructor.
    + injection S as <- <-. cbn [set_mail lvl cur minv ar aw lck mail]. split; [tauto|].
      inversion FM as [|x0 r0 OKx Fr]; subst x0 r0.
      split; [|split; [|split]].
      * apply complete_tinv; [exact E|]. apply Forall_tokens_of. proj. rewrite Forall_app. intuition.
      * rewrite complete_cnt, count_tokens_of. proj.
        rewrite count_kind_app, (count_kind_cons KR x r), count_kind_one, E, count_kind_nil. lia.
      * rewrite complete_cnt, count_tokens_of. proj.
        rewrite count_kind_app, (count_kind_cons KW x r), count_kind_one, E, count_kind_nil. lia.
      * exact Fr.
Qed.

Lemma no_tracked_list (l : list token) :
  count_kind KR l = 0 -> count_kind KW l = 0 -> forall s', Forall (tok_ok s') l.
Proof.
  intros A B s'. induction l as [|x l IH]; [constructor|].
  rewrite (count_kind_cons KR x l) in A. rewrite (count_kind_cons KW x l) in B.
  constructor.
  - apply tok_ok_kro. destruct (tk x); cbn in *; auto; lia.
  - apply IH; lia.
Qed.

(* if both counters are zero no thread owns a tracked token *)
Lemma no_tracked_tokens th :
  count_kind KR (tokens_of th) = 0 -> count_kind KW (tokens_of th) = 0 ->
  forall s', Forall (tok_ok s') (tokens_of th).
Proof.
  intros A B s'. induction (tokens_of th) as [|x l IH]; [constructor|].
  rewrite (count_kind_cons KR x l) in A. rewrite (count_kind_cons KW x l) in B.
  constructor.
  - apply tok_ok_kro. destruct (tk x); cbn in *; auto; lia.
  - apply IH; lia.
Qed.

Lemma inflight_not_cs l th : in_cs l (tpc th) = false -> requires_sync l = true -> inflight th = [].
Proof. unfold inflight. destruct (tpc th); cbn; auto; try discriminate. congruence. Qed.

Ltac shs := cbn [set_lck set_cur set_min set_ar set_aw set_lazy set_mail lvl cur minv ar aw lck lazy mail bulk].

Lemma dec64_pos x : 1 <= x -> dec64 x = x - 1.
Proof. intros H. unfold dec64. destruct (x =? 0) eqn:E; [lia|reflexivity]. Qed.

Theorem tstep_inv st t th s' th' :
  ginv st -> nth_error (ths st) t = Some th ->
  tstep true t (sh st) th = Some (s', th') ->
  ginv (St s' (upd (ths st) t th')).
Proof.
  intros G N S. pose proof (g_th _ G _ _ N) as T.
  pose proof (g_min _ G) as GM. pose proof (g_excl _ G) as GX. pose proof (g_nosync _ G) as GN.
  pose proof (tinv_tokens _ _ _ T) as F.
  pose proof (i_kind _ _ _ T) as KK. pose proof (i_facts _ _ _ T) as FX.
  pose proof (i_lvl _ _ _ T) as LV. pose proof (i_pend _ _ _ T) as EP. pose proof (i_cs _ _ _ T) as CS.
  pose proof (tinv_inflight _ _ _ T) as FI. unfold inflight in FI.
  assert (OTH : forall i thi, i <> t -> nth_error (ths st) i = Some thi ->
                in_cs (lvl (sh st)) (tpc th) = true -> in_cs (lvl (sh st)) (tpc thi) = false).
  { intros i thi Hne Ei Hc. eapply other_not_cs_locked; eauto. exact (g_th _ G _ _ Ei). }
  assert (RSX : match tpc th with Idle | RDec _ | AInc _ _ _ | WBody => True | _ => requires_sync (lvl (sh st)) = true end).
  { destruct (tpc th); auto; destruct (requires_sync (lvl (sh st))) eqn:E; auto; exfalso; apply (LV eq_refl). }
  pose proof S as S0.
  destruct (tpc th) eqn:P; cbn in KK, FX, CS, EP, FI; try rename RSX into RS;
    unfold tstep in S; rewrite P in S.
  - (* Idle *)
    destruct (is_mail_op (cur_op th)) eqn:MO.
    + (* Give / Take *)
      destruct (mail_step _ _ _ _ _ T P (g_mail _ G) MO S0) as ((L & C & M & A & W & K) & T' & CR & CW & FM).
      pose proof (g_ar _ G) as GA. pose proof (g_aw _ G) as GW.
      apply ginv_intro_gen with (th := th); [exact G|exact N| | | | | | | | |].
      * exact L.
      * lia.
      * lia.
      * eapply Forall_tok_ok_mono; [| |exact FM]; lia.
      * lia.
      * rewrite L, W. exact GX.
      * rewrite L, C, M. exact GN.
      * eapply tinv_ext; eauto.
      * intros i thi Hne Ei. eapply tinv_ext; eauto. exact (g_th _ G _ _ Ei).
    + destruct (idle_step _ _ _ _ _ T P GN MO S0) as ((L & C & M & A & W & K & ML) & T' & CR & CW).
      apply ginv_intro with (th := th); [exact G|exact N|exact ML| | | | | | | | |].
      * eapply Forall_tok_ok_mono; [| |exact (g_mail _ G)]; lia.
      * exact L.
      * lia.
      * lia.
      * lia.
      * rewrite L, W. exact GX.
      * rewrite L, C, M. exact GN.
      * eapply tinv_ext; eauto.
      * intros i thi Hne Ei. eapply tinv_ext; eauto. exact (g_th _ G _ _ Ei).
  - (* ALock k *)
    destruct (lck (sh st)) eqn:LK; [discriminate|].
    injection S as <- <-.
    apply ginv_intro with (th := th); [exact G|exact N|reflexivity|mailok G| | | | | | | |]; shs.
    + reflexivity.
    + rewrite cnt_set_pc. unfold cnt. rewrite P. destruct (andb _ _); cbn; lia.
    + rewrite cnt_set_pc. unfold cnt. rewrite P. destruct (andb _ _); cbn; lia.
    + lia.
    + exact GX.
    + rewrite RS. discriminate.
    + destruct (kind_eqb k KW && (lvl (sh st) =? 3)) eqn:E.
      * apply tinv_set_pc; shs; cbn; auto; try discriminate; try (apply sync_level_ok; exact RS).
      * apply tinv_set_pc; shs; cbn; auto; try discriminate; try (apply sync_level_ok; exact RS).
        destruct k; auto. intros L3. rewrite L3 in E. cbn in E. discriminate.
    + intros i thi Hne Ei. eapply others_frame;
        [exact (g_th _ G _ _ Ei) | eapply other_not_cs_free; [exact LK|exact (g_th _ G _ _ Ei)] | shs; try reflexivity; lia ..].
  - (* ALoadAw *)
    injection S as <- <-.
    apply ginv_intro with (th := th); [exact G|exact N|reflexivity|mailok G| | | | | | | |].
    + reflexivity.
    + rewrite cnt_set_pc. unfold cnt. rewrite P. destruct (0 <? aw (sh st)); cbn; lia.
    + rewrite cnt_set_pc. unfold cnt. rewrite P. destruct (0 <? aw (sh st)); cbn; lia.
    + lia.
    + exact GX.
    + exact GN.
    + destruct (0 <? aw (sh st)) eqn:E; apply tinv_set_pc; cbn; auto; try discriminate;
        try (apply sync_level_ok; exact RS). intros _. lia.
    + intros i thi Hne Ei. exact (g_th _ G _ _ Ei).
  - (* ABusyUnlock *)
    injection S as <- <-.
    apply ginv_intro with (th := th); [exact G|exact N|reflexivity|mailok G| | | | | | | |]; shs.
    + reflexivity.
    + unfold refused. rewrite complete_cnt. unfold cnt. rewrite P. cbn. lia.
    + unfold refused. rewrite complete_cnt. unfold cnt. rewrite P. cbn. lia.
    + lia.
    + exact GX.
    + exact GN.
    + unfold refused. apply complete_tinv; auto.
    + intros i thi Hne Ei. eapply others_frame;
        [exact (g_th _ G _ _ Ei) | eapply OTH; eauto | shs; try reflexivity; lia ..].
  - (* ALoadMin k *)
    injection S as <- <-.
    apply ginv_intro with (th := th); [exact G|exact N|reflexivity|mailok G| | | | | | | |].
    + reflexivity.
    + rewrite cnt_set_pc. unfold cnt. rewrite P. cbn. lia.
    + rewrite cnt_set_pc. unfold cnt. rewrite P. cbn. lia.
    + lia.
    + exact GX.
    + exact GN.
    + apply tinv_set_pc; cbn; auto; try (apply sync_level_ok; exact RS).
    + intros i thi Hne Ei. exact (g_th _ G _ _ Ei).
  - (* AFadd k m *)
    injection S as <- <-.
    apply ginv_intro with (th := th); [exact G|exact N|reflexivity|mailok G| | | | | | | |]; shs.
    + reflexivity.
    + rewrite cnt_set_pc. unfold cnt. rewrite P. cbn. lia.
    + rewrite cnt_set_pc. unfold cnt. rewrite P. cbn. lia.
    + lia.
    + exact GX.
    + rewrite RS. discriminate.
    + apply tinv_set_pc; shs; auto.
      * eapply Forall_tok_ok_mono; [| |exact F]; shs; lia.
      * cbn. constructor; [|constructor]. intros _. shs. cbn. lia.
      * apply sync_level_ok. exact RS.
    + intros i thi Hne Ei. eapply others_frame;
        [exact (g_th _ G _ _ Ei) | eapply OTH; eauto | shs; try reflexivity; lia ..].
  - (* AUnlock k m v *)
    injection S as <- <-.
    inversion FI as [|x l OKT _]; subst.
    apply ginv_intro with (th := th); [exact G|exact N|reflexivity|mailok G| | | | | | | |]; shs.
    + reflexivity.
    + rewrite got_token_cnt, count_kind_one. unfold cnt. rewrite P. cbn. lia.
    + rewrite got_token_cnt, count_kind_one. unfold cnt. rewrite P. cbn. lia.
    + lia.
    + exact GX.
    + exact GN.
    + apply got_token_tinv; auto.
    + intros i thi Hne Ei. eapply others_frame;
        [exact (g_th _ G _ _ Ei) | eapply OTH; eauto | shs; try reflexivity; lia ..].
  - (* AInc k m v *)
    inversion FI as [|x l OKT _]; subst.
    clear RS. destruct (requires_sync (lvl (sh st))) eqn:RS; cbn [andb] in S.
    + (* synchronised level: still inside the critical section *)
      destruct k; try congruence; injection S as <- <-;
        (apply ginv_intro with (th := th); [exact G|exact N|reflexivity|mailok G| | | | | | | |]; shs; unfold inc64;
         [ reflexivity
         | rewrite cnt_set_pc; unfold cnt; rewrite P; cbn; lia
         | rewrite cnt_set_pc; unfold cnt; rewrite P; cbn; lia
         | lia
         | try exact GX; intros L3; specialize (FX L3); lia
         | rewrite RS; discriminate
         | apply tinv_set_pc; shs; cbn; auto;
           try (constructor; [|constructor]; exact OKT); try (apply sync_level_ok; exact RS)
         | intros i thi Hne Ei; eapply others_frame;
           [exact (g_th _ G _ _ Ei) | eapply OTH; eauto | shs; try reflexivity; lia ..] ]).
    + (* single-threaded level *)
      assert (NL3 : lvl (sh st) = 3 -> False) by (intros L3; apply lvl3_sync in L3; congruence).
      destruct k; try congruence; injection S as <- <-;
        (apply ginv_intro with (th := th); [exact G|exact N|reflexivity|mailok G| | | | | | | |]; shs; unfold inc64;
         [ reflexivity
         | rewrite got_token_cnt, count_kind_one; unfold cnt; rewrite P; cbn; lia
         | rewrite got_token_cnt, count_kind_one; unfold cnt; rewrite P; cbn; lia
         | lia
         | intros L3; exfalso; auto
         | intros _; apply GN; reflexivity
         | apply got_token_tinv; auto
         | intros i thi Hne Ei; eapply others_frame;
           [exact (g_th _ G _ _ Ei) | eapply other_not_cs_nosync; [exact RS|exact (g_th _ G _ _ Ei)] | shs; try reflexivity; lia ..] ]).
  - (* RDec t0 *)
    assert (C1 : tk t0 = KW -> 1 <= aw (sh st)).
    { intros K. rewrite (g_aw _ G). pose proof (sumf_ge (cnt KW) _ _ _ N) as X.
      assert (X1 : 1 <= cnt KW th) by (unfold cnt; rewrite P; cbn; rewrite K; cbn; lia). lia. }
    assert (C2 : tk t0 = KR -> 1 <= ar (sh st)).
    { intros K. rewrite (g_ar _ G). pose proof (sumf_ge (cnt KR) _ _ _ N) as X.
      assert (X1 : 1 <= cnt KR th) by (unfold cnt; rewrite P; cbn; rewrite K; cbn; lia). lia. }
    clear RS. destruct (requires_sync (lvl (sh st))) eqn:RS.
    + destruct (tk t0) eqn:K; try congruence; injection S as <- <-;
        (apply ginv_intro with (th := th); [exact G|exact N|reflexivity|mailok G| | | | | | | |]; shs; rewrite ?dec64_pos by auto;
         [ reflexivity
         | rewrite cnt_set_pc; unfold cnt; rewrite P; cbn; rewrite K; cbn; try specialize (C1 eq_refl); try specialize (C2 eq_refl); lia
         | rewrite cnt_set_pc; unfold cnt; rewrite P; cbn; rewrite K; cbn; try specialize (C1 eq_refl); try specialize (C2 eq_refl); lia
         | lia
         | try exact GX; intros L3; specialize (GX L3); lia
         | rewrite RS; discriminate
         | apply tinv_set_pc; shs; cbn; auto; try discriminate; apply sync_level_ok; exact RS
         | intros i thi Hne Ei; rewrite <- ?dec64_pos by auto; (apply tinv_dec_ar || apply tinv_dec_aw); auto; exact (g_th _ G _ _ Ei) ]).
    + destruct (tk t0) eqn:K; try congruence; injection S as <- <-;
        (apply ginv_intro with (th := th); [exact G|exact N|reflexivity|mailok G| | | | | | | |]; shs; rewrite ?dec64_pos by auto;
         [ reflexivity
         | rewrite release_next_cnt by discriminate; unfold cnt; rewrite P; cbn; rewrite K; cbn; try specialize (C1 eq_refl); try specialize (C2 eq_refl); lia
         | rewrite release_next_cnt by discriminate; unfold cnt; rewrite P; cbn; rewrite K; cbn; try specialize (C1 eq_refl); try specialize (C2 eq_refl); lia
         | lia
         | try exact GX; intros L3; specialize (GX L3); lia
         | intros _; apply GN; reflexivity
         | apply release_next_tinv; auto
         | intros i thi Hne Ei; rewrite <- ?dec64_pos by auto; (apply tinv_dec_ar || apply tinv_dec_aw); auto; exact (g_th _ G _ _ Ei) ]).
  - (* TLock *)
    destruct (lck (sh st)) eqn:LK; [discriminate|].
    injection S as <- <-.
    apply ginv_intro with (th := th); [exact G|exact N|reflexivity|mailok G| | | | | | | |]; shs.
    + reflexivity.
    + rewrite cnt_set_pc. unfold cnt. rewrite P. cbn. lia.
    + rewrite cnt_set_pc. unfold cnt. rewrite P. cbn. lia.
    + lia.
    + exact GX.
    + rewrite RS. discriminate.
    + apply tinv_set_pc; shs; cbn; auto; try discriminate; try (apply sync_level_ok; exact RS).
    + intros i thi Hne Ei. eapply others_frame;
        [exact (g_th _ G _ _ Ei) | eapply other_not_cs_free; [exact LK|exact (g_th _ G _ _ Ei)] | shs; try reflexivity; lia ..].
  - (* TLoadAr *)
    injection S as <- <-.
    apply ginv_intro with (th := th); [exact G|exact N|reflexivity|mailok G| | | | | | | |].
    + reflexivity.
    + destruct (ar (sh st) =? 0); rewrite cnt_set_pc; unfold cnt; rewrite P; cbn; lia.
    + destruct (ar (sh st) =? 0); rewrite cnt_set_pc; unfold cnt; rewrite P; cbn; lia.
    + lia.
    + exact GX.
    + exact GN.
    + destruct (ar (sh st) =? 0) eqn:E; apply tinv_set_pc; cbn; auto; try discriminate;
        try (apply sync_level_ok; exact RS). lia.
    + intros i thi Hne Ei. exact (g_th _ G _ _ Ei).
  - (* TLoadAw *)
    injection S as <- <-.
    apply ginv_intro with (th := th); [exact G|exact N|reflexivity|mailok G| | | | | | | |].
    + reflexivity.
    + destruct (aw (sh st) =? 0); rewrite cnt_set_pc; unfold cnt; rewrite P; cbn; lia.
    + destruct (aw (sh st) =? 0); rewrite cnt_set_pc; unfold cnt; rewrite P; cbn; lia.
    + lia.
    + exact GX.
    + exact GN.
    + destruct (aw (sh st) =? 0) eqn:E; apply tinv_set_pc; cbn; auto; try discriminate;
        try (apply sync_level_ok; exact RS). lia.
    + intros i thi Hne Ei. exact (g_th _ G _ _ Ei).
  - (* TLoadCur *)
    injection S as <- <-.
    apply ginv_intro with (th := th); [exact G|exact N|reflexivity|mailok G| | | | | | | |].
    + reflexivity.
    + rewrite cnt_set_pc. unfold cnt. rewrite P. cbn. lia.
    + rewrite cnt_set_pc. unfold cnt. rewrite P. cbn. lia.
    + lia.
    + exact GX.
    + exact GN.
    + apply tinv_set_pc; cbn; auto; try discriminate; try (apply sync_level_ok; exact RS). tauto.
    + intros i thi Hne Ei. exact (g_th _ G _ _ Ei).
  - (* TStore c *)
    injection S as <- <-.
    destruct FX as (A0 & W0 & ->).
    assert (Z : forall i thi, nth_error (ths st) i = Some thi ->
                forall s0, Forall (tok_ok s0) (tokens_of thi)).
    { intros i thi Ei. apply no_tracked_tokens.
      - pose proof (sumf_ge (cnt KR) _ _ _ Ei) as X. pose proof (g_ar _ G) as Y. unfold cnt in X, Y. lia.
      - pose proof (sumf_ge (cnt KW) _ _ _ Ei) as X. pose proof (g_aw _ G) as Y. unfold cnt in X, Y. lia. }
    assert (ZM : forall s0, Forall (tok_ok s0) (mail (sh st))).
    { apply no_tracked_list.
      - pose proof (g_ar _ G). lia.
      - pose proof (g_aw _ G). lia. }
    apply ginv_intro with (th := th); [exact G|exact N|reflexivity|apply ZM| | | | | | | |]; shs.
    + reflexivity.
    + rewrite cnt_set_pc. unfold cnt. rewrite P. cbn. lia.
    + rewrite cnt_set_pc. unfold cnt. rewrite P. cbn. lia.
    + lia.
    + exact GX.
    + rewrite RS. discriminate.
    + apply tinv_set_pc; shs; cbn; auto; try discriminate; try (apply sync_level_ok; exact RS).
      eapply Z; eauto.
    + intros i thi Hne Ei. eapply tinv_frame_notcs;
        [exact (g_th _ G _ _ Ei) | eapply OTH; eauto | reflexivity |].
      rewrite (inflight_not_cs (lvl (sh st)) thi); [|eapply OTH; eauto|exact RS].
      rewrite app_nil_r. eapply Z; eauto.
  - (* TUnlock *)
    injection S as <- <-.
    apply ginv_intro with (th := th); [exact G|exact N|reflexivity|mailok G| | | | | | | |]; shs.
    + reflexivity.
    + rewrite release_next_cnt by discriminate. unfold cnt. rewrite P. cbn. lia.
    + rewrite release_next_cnt by discriminate. unfold cnt. rewrite P. cbn. lia.
    + lia.
    + exact GX.
    + exact GN.
    + apply release_next_tinv. auto.
    + intros i thi Hne Ei. eapply others_frame;
        [exact (g_th _ G _ _ Ei) | eapply OTH; eauto | shs; try reflexivity; lia ..].
  - (* WBody: the closure of with_*_token returns, the token goes back to the thread cache *)
    injection S as <- <-.
    destruct (do_ret_ok (sh st) t th (pred (length (held th))) (EP eq_refl) F) as (T' & CR & CW).
    apply ginv_intro with (th := th); [exact G|exact N|reflexivity|mailok G| | | | | | | |].
    + reflexivity.
    + rewrite CR. unfold cnt. rewrite P. cbn. lia.
    + rewrite CW. unfold cnt. rewrite P. cbn. lia.
    + lia.
    + exact GX.
    + exact GN.
    + exact T'.
    + intros i thi Hne Ei. exact (g_th _ G _ _ Ei).
Qed.
