(* C16: the sequential summaries used by ModelSeq.v (acquire_seq, release_seq) are exactly what a
   thread computes under the small-step semantics of Model.v when it runs without interference. *)
From ZV.Common Require Import Base.
From ZV.C16 Require Import Model ModelSeq.
Open Scope N_scope.

(* n consecutive steps of the same thread *)
Fixpoint titer (n : nat) (tid : nat) (s : shared) (th : thread) : option (shared * thread) :=
  match n with
  | O => Some (s, th)
  | S m => match tstep true tid s th with
           | Some (s', th') => titer m tid s' th'
           | None => None
           end
  end.

Definition acq_op (k : kind) : op := match k with KW => AcqW | _ => AcqR end.

Ltac crunch E0 E1 E3 EW :=
  repeat (progress (cbn; rewrite ?E0, ?E1, ?E3, ?EW; unfold begin_acquire, requires_sync, got_token, refused, complete, set_pc;
                    cbn; rewrite ?E0, ?E1, ?E3, ?EW)).

Lemma solo_acquire_proof :
  forall tid s th k rest,
    k <> KRO -> lck s = None -> tpc th = Idle -> prog th = acq_op k :: rest ->
    exists n,
      titer n tid s th =
      Some (match acquire_seq s k with
            | (s', Some t) => (s', got_token th t)
            | (s', None) => (s', refused th)
            end).
Proof.
  intros tid [l c m a w lk lz ml bk] [pr pc hd cr cw pd rs] k rest K L P PR. cbn in L, P, PR. subst lk pc pr.
  unfold acquire_seq. cbn [lvl aw].
  destruct (l =? 0) eqn:E0; destruct (l =? 1) eqn:E1; destruct (l =? 3) eqn:E3; destruct (0 <? w) eqn:EW;
    destruct k; try congruence; unfold requires_sync; cbn [acq_op lvl aw ar cur minv]; rewrite ?E0, ?E1, ?E3, ?EW; cbn [negb orb andb];
    first [ exists 1%nat; crunch E0 E1 E3 EW; reflexivity
          | exists 2%nat; crunch E0 E1 E3 EW; reflexivity
          | exists 4%nat; crunch E0 E1 E3 EW; reflexivity
          | exists 6%nat; crunch E0 E1 E3 EW; reflexivity
          | exists 7%nat; crunch E0 E1 E3 EW; reflexivity ].
Qed.

Lemma solo_release_proof :
  forall tid s th i t rest,
    lck s = None -> tpc th = Idle -> pend th = [] -> prog th = Drop i :: rest ->
    nth_error (held th) i = Some t -> tk t <> KRO ->
    exists n,
      titer n tid s th =
      Some (release_seq s (tk t),
            Th rest Idle (remove_nth i (held th)) (cache_r th) (cache_w th) [] (res th)).
Proof.
  intros tid [l c m a w lk lz ml bk] [pr pc hd cr cw pd rs] i t rest L P PD PR H K.
  cbn in L, P, PD, PR, H. subst lk pc pd pr. cbn [held cache_r cache_w res].
  unfold release_seq. cbn [lvl ar aw cur minv set_ar set_aw].
  remember (dec64 a) as da. remember (dec64 w) as dw.
  destruct (tk t) eqn:KT; try congruence; unfold requires_sync; cbn [lvl ar aw cur];
    destruct (l =? 0) eqn:E0; destruct (l =? 1) eqn:E1; cbn [negb orb];
    destruct (da =? 0) eqn:EDA; destruct (w =? 0) eqn:EW0; destruct (a =? 0) eqn:EA0; destruct (dw =? 0) eqn:EDW;
    cbn [andb];
    (let go := (repeat (progress (cbn; unfold requires_sync, release_next, complete, set_pc;
                                  rewrite ?H, ?KT, ?E0, ?E1, ?EDA, ?EW0, ?EA0, ?EDW, ?app_nil_r, <- ?Heqda, <- ?Heqdw));
                reflexivity) in
     first [ exists 2%nat; go | exists 5%nat; go | exists 6%nat; go | exists 8%nat; go ]).
Qed.
