(* C16: the abstract specification of the version / token protocol and the abstraction function from the
   states of Model.v.

   Abstract state: the multiset of versions of the live reader tokens, the multiset of versions of the live
   writer tokens (at most one in OneWriteMultiRead), the reclamation threshold.  Six kinds of step.  The
   three clauses of the property are one-line invariants of this machine (ProofsSpec.v); ProofsRefine.v
   shows that every step of the interleaving semantics of Model.v (fixed access order) is one of them.
   Definitions only. *)
From ZV.Common Require Import Base.
From ZV.C16 Require Import Model.
Open Scope N_scope.

Record aspec := AS { a_rd : list N; a_wr : list N; a_lo : N }.

Inductive alabel :=
| ATau                       (* nothing the specification can see *)
| AAcqR (v : N) | AAcqW (v : N)
| ARelR (v : N) | ARelW (v : N)
| AAdvance (m : N).          (* the threshold moves up to m *)

(* multisets as lists up to the number of occurrences *)
Definition occn (x : N) (l : list N) : N := nlen (filter (N.eqb x) l).
Definition meq (l l' : list N) : Prop := forall x, occn x l = occn x l'.

Definition astep (level : N) (a : aspec) (lb : alabel) (a' : aspec) : Prop :=
  match lb with
  | ATau => meq (a_rd a') (a_rd a) /\ meq (a_wr a') (a_wr a) /\ a_lo a' = a_lo a
  | AAcqR v => a_lo a <= v /\
               meq (a_rd a') (v :: a_rd a) /\ meq (a_wr a') (a_wr a) /\ a_lo a' = a_lo a
  | AAcqW v => a_lo a <= v /\ (level = 3 -> a_wr a = []) /\
               meq (a_rd a') (a_rd a) /\ meq (a_wr a') (v :: a_wr a) /\ a_lo a' = a_lo a
  | ARelR v => meq (a_rd a) (v :: a_rd a') /\ meq (a_wr a') (a_wr a) /\ a_lo a' = a_lo a
  | ARelW v => meq (a_rd a') (a_rd a) /\ meq (a_wr a) (v :: a_wr a') /\ a_lo a' = a_lo a
  | AAdvance m => a_lo a <= m /\ (forall v, In v (a_rd a ++ a_wr a) -> m <= v) /\
                  meq (a_rd a') (a_rd a) /\ meq (a_wr a') (a_wr a) /\ a_lo a' = m
  end.

Definition ainit : aspec := AS [] [] 1.
Inductive areach (level : N) : aspec -> Prop :=
| ar_init : areach level ainit
| ar_step a lb a' : areach level a -> astep level a lb a' -> areach level a'.

(* the invariants of the specification = the clauses of the property *)
Definition ainv (level : N) (a : aspec) : Prop :=
  (level = 3 -> nlen (a_wr a) <= 1) /\
  (forall v, In v (a_rd a ++ a_wr a) -> a_lo a <= v).

(* ---------- abstraction ---------- *)
(* a token exists from the access that assigns its version (fetch_add of current_version; the (1,1) token
   of the single-threaded levels) to the access that decrements its counter *)
Definition releasing (th : thread) : list token :=
  match tpc th with RDec t => [t] | _ => [] end.
Definition owned (th : thread) : list token := tokens_of th ++ inflight th ++ releasing th.
Definition alltok (st : state) : list token := flat_map owned (ths st) ++ mail (sh st).
Definition vers (k : kind) (l : list token) : list N :=
  map tv (filter (fun t => kind_eqb (tk t) k) l).
Definition abs (st : state) : aspec :=
  AS (vers KR (alltok st)) (vers KW (alltok st)) (minv (sh st)).

(* the label of a concrete step of thread tid *)
Definition label_of (st : state) (tid : nat) : alabel :=
  match nth_error (ths st) tid with
  | None => ATau
  | Some th =>
      match tstep true tid (sh st) th with
      | None => ATau
      | Some (_, th') =>
          match tpc th with
          | RDec t => match tk t with KW => ARelW (tv t) | KRO => ATau | _ => ARelR (tv t) end
          | TStore c => AAdvance c
          | _ =>
              match inflight th, inflight th' with
              | [], [t] => match tk t with KW => AAcqW (tv t) | KRO => ATau | _ => AAcqR (tv t) end
              | _, _ => ATau
              end
          end
      end
  end.
