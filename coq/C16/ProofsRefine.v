(* C16: every step of the interleaving semantics (fixed access order) is a step of the abstract
   specification of ModelSpec.v; the clauses of the property follow from the specification's invariants. *)
From ZV.Common Require Import Base.
From ZV.C16 Require Import Model ModelSpec ProofsBase ProofsInv ProofsStep ProofsMain ProofsSpec.
Open Scope N_scope.

(* ---------- counting tokens by an arbitrary predicate ---------- *)
Definition occ (p : token -> bool) (l : list token) : N := nlen (filter p l).
Lemma occ_nil p : occ p [] = 0.
Proof. reflexivity. Qed.
Lemma occ_app p a b : occ p (a ++ b) = occ p a + occ p b.
Proof. unfold occ. rewrite filter_app, nlen_app. reflexivity. Qed.
Lemma occ_cons p t l : occ p (t :: l) = (if p t then 1 else 0) + occ p l.
Proof. unfold occ. cbn [filter]. destruct (p t); cbn [nlen]; lia. Qed.
Lemma occ_one p t : occ p [t] = if p t then 1 else 0.
Proof. rewrite occ_cons, occ_nil. lia. Qed.
Lemma occ_remove_nth p l i t :
  nth_error l i = Some t -> occ p l = occ p (remove_nth i l) + occ p [t].
Proof.
  revert i; induction l as [|a l IH]; intros [|i] H; cbn [nth_error remove_nth] in *; try discriminate.
  - injection H as ->. rewrite occ_cons, occ_one. lia.
  - rewrite (occ_cons p a l), (occ_cons p a (remove_nth i l)), (IH _ H). lia.
Qed.
Lemma occ_flat_map p (l : list thread) :
  occ p (flat_map owned l) = sumf (fun th => occ p (owned th)) l.
Proof. induction l as [|a l IH]; cbn [flat_map sumf]; [reflexivity|]. rewrite occ_app, IH. reflexivity. Qed.

(* predicates that ignore the read-only tokens of level 0 (they have no version and no callback) *)
Definition notro (p : token -> bool) : Prop := forall t, tk t = KRO -> p t = false.

Lemma next_release_occ p l : notro p ->
  match next_release l with
  | Some (t, r) => occ p l = occ p [t] + occ p r
  | None => occ p l = 0
  end.
Proof.
  intros Hp. induction l as [|a l IH]; cbn [next_release]; [reflexivity|].
  destruct (tk a) eqn:K; try (rewrite occ_cons, occ_one; reflexivity).
  rewrite occ_cons, (Hp a K). destruct (next_release l) as [[t r]|]; lia.
Qed.

(* ---------- owned / inflight of the thread states the steps build ---------- *)
Lemma inflight_release_next th : inflight (release_next th) = [].
Proof. unfold release_next. destruct (next_release (pend th)) as [[t r]|]; reflexivity. Qed.
Lemma releasing_complete th r : releasing (complete th r) = [].
Proof. reflexivity. Qed.
Lemma inflight_got_token th t : inflight (got_token th t) = [].
Proof. unfold got_token. destruct (in_with th); reflexivity. Qed.
Lemma inflight_do_ret th j : inflight (do_ret th j) = [].
Proof.
  unfold do_ret. destruct (nth_error (held th) j) as [x|]; [|reflexivity].
  destruct (tk x); apply inflight_release_next.
Qed.
Lemma inflight_begin_acquire s th k :
  inflight (begin_acquire true s th k) =
  if (lvl s =? 0) || requires_sync (lvl s) then [] else [Tok k 1 1].
Proof.
  unfold begin_acquire. destruct (lvl s =? 0); cbn [orb].
  - destruct k; unfold refused; try apply inflight_got_token; reflexivity.
  - destruct (requires_sync (lvl s)); [destruct k; reflexivity|reflexivity].
Qed.

Lemma owned_release_next p th : notro p -> occ p (owned (release_next th)) = occ p (tokens_of th).
Proof.
  intros Hp. unfold release_next. pose proof (next_release_occ p (pend th) Hp) as S.
  destruct (next_release (pend th)) as [[t r]|]; unfold owned, tokens_of, inflight, releasing, complete in *;
    cbn [tpc held cache_r cache_w pend]; rewrite !occ_app, ?occ_nil; lia.
Qed.
Lemma owned_got_token p th t :
  occ p (owned (got_token th t)) = occ p (tokens_of th) + occ p [t].
Proof.
  unfold got_token. destruct (in_with th); unfold owned, tokens_of, inflight, releasing, complete;
    cbn [tpc held cache_r cache_w pend]; rewrite !occ_app, ?occ_nil; lia.
Qed.
Lemma owned_do_ret p th j : notro p -> pend th = [] -> occ p (owned (do_ret th j)) = occ p (tokens_of th).
Proof.
  intros Hp E. unfold do_ret. destruct (nth_error (held th) j) as [x|] eqn:Hn.
  - destruct (tk x); rewrite owned_release_next by exact Hp; unfold tokens_of; cbn [held cache_r cache_w pend];
      rewrite !occ_app, E, (occ_remove_nth p _ _ _ Hn); cbn [opt_list]; rewrite ?occ_nil;
      destruct (cache_r th), (cache_w th); cbn [opt_list]; rewrite ?occ_nil; lia.
  - unfold owned, tokens_of, inflight, releasing, complete. cbn [tpc held cache_r cache_w pend].
    rewrite !occ_app, ?occ_nil. lia.
Qed.
Lemma owned_complete p th r : occ p (owned (complete th r)) = occ p (tokens_of th).
Proof.
  unfold owned, tokens_of, inflight, releasing, complete. cbn [tpc held cache_r cache_w pend].
  rewrite !occ_app, ?occ_nil. lia.
Qed.
Lemma owned_begin_acquire p s th k : notro p -> k <> KRO ->
  occ p (owned (begin_acquire true s th k)) =
  occ p (tokens_of th) + occ p (inflight (begin_acquire true s th k)).
Proof.
  intros Hp K. rewrite inflight_begin_acquire. unfold begin_acquire. destruct (lvl s =? 0); cbn [orb].
  - destruct k; try congruence.
    + rewrite owned_got_token. rewrite occ_one, (Hp (Tok KRO 0 0) eq_refl), occ_nil. lia.
    + unfold refused. rewrite owned_complete, occ_nil. lia.
  - destruct (requires_sync (lvl s)); cbn [orb negb andb].
    + destruct k; try congruence; unfold owned, tokens_of, inflight, releasing, set_pc;
        cbn [tpc held cache_r cache_w pend]; rewrite !occ_app, ?occ_nil; lia.
    + unfold owned, tokens_of, inflight, releasing, set_pc. cbn [tpc held cache_r cache_w pend].
      rewrite !occ_app, ?occ_nil. lia.
Qed.

(* the token the step brings into existence *)
Definition created (th th' : thread) : list token :=
  match inflight th, inflight th' with [], [t] => [t] | _, _ => [] end.

Ltac own := unfold created; unfold owned, tokens_of, inflight, releasing, refused, complete, set_pc;
            cbn [tpc held cache_r cache_w pend prog res mail set_lck set_cur set_min set_ar set_aw set_lazy set_mail].
Ltac fin := own; rewrite ?occ_app, ?occ_nil; cbn [opt_list]; rewrite ?occ_app, ?occ_nil; lia.

(* ---------- one step of one thread: tokens are neither duplicated nor lost ---------- *)
Lemma tstep_owned p s i th s' th' :
  notro p -> tinv s i th -> tstep true i s th = Some (s', th') ->
  occ p (owned th') + occ p (mail s') + occ p (releasing th) =
  occ p (owned th) + occ p (mail s) + occ p (created th th').
Proof.
  intros Hp T S. pose proof (i_pend _ _ _ T) as EP. pose proof (i_kind _ _ _ T) as KK.
  assert (KR1 : KR <> KRO) by discriminate. assert (KW1 : KW <> KRO) by discriminate.
  unfold tstep in S. destruct (tpc th) eqn:P; cbn in EP, KK.
  - (* Idle *)
    specialize (EP eq_refl).
    assert (OW : occ p (owned th) = occ p (tokens_of th)).
    { unfold owned, inflight, releasing. rewrite P, !occ_app, !occ_nil. lia. }
    assert (RL : releasing th = []) by (unfold releasing; rewrite P; reflexivity).
    assert (CR : forall x, created th x = match inflight x with [t] => [t] | _ => [] end).
    { intros x. unfold created, inflight at 1. rewrite P. reflexivity. }
    rewrite OW, RL, CR, occ_nil.
    destruct (cur_op th) as [o|]; [|discriminate].
    destruct o as [| | | |j|j| | | | | |j| | | |].
    + injection S as <- <-. rewrite (owned_begin_acquire p s th KR Hp KR1), inflight_begin_acquire.
      destruct (_ || _); rewrite ?occ_nil; lia.
    + injection S as <- <-. rewrite (owned_begin_acquire p s th KW Hp KW1), inflight_begin_acquire.
      destruct (_ || _); rewrite ?occ_nil; lia.
    + destruct (cache_r th) as [c|] eqn:C.
      * injection S as <- <-. unfold tokens_of. rewrite C. fin.
      * injection S as <- <-. rewrite (owned_begin_acquire p s th KR Hp KR1), inflight_begin_acquire.
        destruct (_ || _); rewrite ?occ_nil; lia.
    + destruct (cache_w th) as [c|] eqn:C.
      * injection S as <- <-. unfold tokens_of. rewrite C. fin.
      * injection S as <- <-. rewrite (owned_begin_acquire p s th KW Hp KW1), inflight_begin_acquire.
        destruct (_ || _); rewrite ?occ_nil; lia.
    + (* Drop *)
      destruct (nth_error (held th) j) as [x|] eqn:Hn; injection S as <- <-.
      * rewrite owned_release_next by exact Hp. rewrite inflight_release_next.
        unfold tokens_of. cbn [held cache_r cache_w pend]. rewrite !occ_app, EP, (occ_remove_nth p _ _ _ Hn), ?occ_nil.
        { lia. }
      * rewrite owned_complete. cbn [set_lazy set_mail mail inflight complete tpc]; rewrite ?occ_nil; lia.
    + (* Ret *)
      injection S as <- <-. rewrite (owned_do_ret p th j Hp EP), inflight_do_ret, occ_nil. lia.
    + (* Clear *)
      injection S as <- <-. rewrite owned_release_next by exact Hp. rewrite inflight_release_next.
      unfold tokens_of. cbn [held cache_r cache_w pend]. rewrite !occ_app, EP, ?occ_nil. cbn [opt_list]. rewrite ?occ_nil. lia.
    + injection S as <- <-. rewrite owned_complete. cbn [set_lazy set_mail mail inflight complete tpc]; rewrite ?occ_nil; lia.
    + destruct (process_safe (bulk s) (minv s) (lazy s)) as [fr rest].
      injection S as <- <-. rewrite owned_complete. cbn [set_lazy set_mail mail inflight complete tpc]; rewrite ?occ_nil; lia.
    + (* WithR *)
      destruct (cache_r th) as [c|] eqn:C.
      * injection S as <- <-. rewrite owned_got_token. rewrite inflight_got_token.
        unfold tokens_of. cbn [held cache_r cache_w pend]. rewrite C, !occ_app. cbn [opt_list]. rewrite ?occ_nil. lia.
      * injection S as <- <-. rewrite (owned_begin_acquire p s th KR Hp KR1), inflight_begin_acquire.
        destruct (_ || _); rewrite ?occ_nil; lia.
    + (* WithW *)
      destruct (cache_w th) as [c|] eqn:C.
      * injection S as <- <-. rewrite owned_got_token. rewrite inflight_got_token.
        unfold tokens_of. cbn [held cache_r cache_w pend]. rewrite C, !occ_app. cbn [opt_list]. rewrite ?occ_nil. lia.
      * injection S as <- <-. rewrite (owned_begin_acquire p s th KW Hp KW1), inflight_begin_acquire.
        destruct (_ || _); rewrite ?occ_nil; lia.
    + (* Give *)
      destruct (nth_error (held th) j) as [x|] eqn:Hn; injection S as <- <-.
      * rewrite owned_complete. cbn [set_mail mail]. unfold tokens_of. cbn [held cache_r cache_w pend inflight complete tpc].
        rewrite !occ_app, (occ_remove_nth p _ _ _ Hn), (occ_cons p x (mail s)), occ_one, occ_nil. lia.
      * rewrite owned_complete. cbn [set_lazy set_mail mail inflight complete tpc]; rewrite ?occ_nil; lia.
    + (* Take *)
      destruct (mail s) as [|x r] eqn:M; injection S as <- <-.
      * rewrite owned_complete, M. cbn [set_lazy set_mail mail inflight complete tpc]; rewrite ?occ_nil; lia.
      * rewrite owned_complete. cbn [set_mail mail]. unfold tokens_of. cbn [held cache_r cache_w pend inflight complete tpc].
        rewrite !occ_app, (occ_cons p x r), occ_one, occ_nil. lia.
    + injection S as <- <-. rewrite owned_complete. cbn [set_lazy set_mail mail inflight complete tpc]; rewrite ?occ_nil; lia.
    + destruct (should_bulk (bulk s) (lazy s)).
      * destruct (process_safe (bulk s) (minv s) (lazy s)) as [fr rest].
        injection S as <- <-. rewrite owned_complete. cbn [set_lazy set_mail mail inflight complete tpc]; rewrite ?occ_nil; lia.
      * injection S as <- <-. rewrite owned_complete. cbn [set_lazy set_mail mail inflight complete tpc]; rewrite ?occ_nil; lia.
    + injection S as <- <-. rewrite owned_complete. cbn [set_lazy set_mail mail inflight complete tpc]; rewrite ?occ_nil; lia.
  - (* ALock *) destruct (lck s); [discriminate|]. injection S as <- <-.
    destruct (_ && _); own; rewrite P; fin.
  - (* ALoadAw *) injection S as <- <-. destruct (0 <? aw s); own; rewrite P; fin.
  - (* ABusyUnlock *) injection S as <- <-. own; rewrite P; fin.
  - (* ALoadMin *) injection S as <- <-. own; rewrite P; fin.
  - (* AFadd *) injection S as <- <-. own; rewrite P; fin.
  - (* AUnlock *) injection S as <- <-. rewrite owned_got_token.
    unfold created. rewrite inflight_got_token. own; rewrite P; fin.
  - (* AInc *) destruct (requires_sync (lvl s)); cbn [andb] in S; injection S as <- <-.
    + destruct k; own; rewrite P; fin.
    + rewrite owned_got_token.
      unfold created. rewrite inflight_got_token. destruct k; own; rewrite P; fin.
  - (* RDec *) destruct (requires_sync (lvl s)); injection S as <- <-.
    + destruct (tk t); own; rewrite P; fin.
    + rewrite owned_release_next by exact Hp. unfold created. rewrite inflight_release_next.
      destruct (tk t); own; rewrite P; fin.
  - (* TLock *) destruct (lck s); [discriminate|]. injection S as <- <-. own; rewrite P; fin.
  - (* TLoadAr *) injection S as <- <-. destruct (ar s =? 0); own; rewrite P; fin.
  - (* TLoadAw *) injection S as <- <-. destruct (aw s =? 0); own; rewrite P; fin.
  - (* TLoadCur *) injection S as <- <-. own; rewrite P; fin.
  - (* TStore *) injection S as <- <-. own; rewrite P; fin.
  - (* TUnlock *) injection S as <- <-. rewrite owned_release_next by exact Hp.
    unfold created. rewrite inflight_release_next. own; rewrite P; fin.
  - (* WBody *) injection S as <- <-. rewrite (owned_do_ret p th _ Hp (EP eq_refl)).
    unfold created. rewrite inflight_do_ret. own; rewrite P; fin.
Qed.

(* ---------- the whole state ---------- *)
Lemma step_alltok p st tid th s' th' :
  notro p -> ginv st -> nth_error (ths st) tid = Some th -> tstep true tid (sh st) th = Some (s', th') ->
  occ p (alltok (St s' (upd (ths st) tid th'))) + occ p (releasing th) =
  occ p (alltok st) + occ p (created th th').
Proof.
  intros Hp G N S. pose proof (tstep_owned p _ _ _ _ _ Hp (g_th _ G _ _ N) S) as O.
  unfold alltok. cbn [sh ths]. rewrite !occ_app, !occ_flat_map.
  pose proof (sumf_upd (fun th => occ p (owned th)) _ _ _ th' N) as U. cbn beta in U. lia.
Qed.

Definition pkx (k : kind) (x : N) (t : token) : bool := kind_eqb (tk t) k && (x =? tv t).
Lemma occn_vers k x l : occn x (vers k l) = occ (pkx k x) l.
Proof.
  induction l as [|t l IH]; [reflexivity|]. rewrite occ_cons. unfold vers, pkx at 1. cbn [filter].
  destruct (kind_eqb (tk t) k); cbn [map andb].
  - rewrite occn_cons. fold (vers k l). rewrite IH. reflexivity.
  - fold (vers k l). rewrite IH. lia.
Qed.
Lemma notro_pkx k x : k <> KRO -> notro (pkx k x).
Proof. intros K t E. unfold pkx. rewrite E. destruct k; try congruence; reflexivity. Qed.

(* min_version moves only in the store of try_advance_min_version *)
Lemma tstep_minv i s th s' th' :
  tstep true i s th = Some (s', th') -> (forall c, tpc th <> TStore c) -> minv s' = minv s.
Proof.
  unfold tstep. intros H NT. destruct (tpc th) eqn:P; try (exfalso; eapply NT; reflexivity);
  repeat match type of H with
  | context [match ?x with _ => _ end] => destruct x; try discriminate
  end; injection H as <- _; reflexivity.
Qed.

(* where tokens come into existence: the fetch_add of current_version, or the (1,1) token of a
   single-threaded level *)
Lemma created_cases i s th s' th' t :
  tstep true i s th = Some (s', th') -> created th th' = [t] ->
  (exists k m, tpc th = AFadd k m /\ t = Tok k (cur s + 1) m) \/
  (exists k, tpc th = Idle /\ requires_sync (lvl s) = false /\ t = Tok k 1 1).
Proof.
  intros S C. unfold created in C. unfold tstep in S. destruct (tpc th) eqn:P;
    unfold inflight at 1 in C; rewrite P in C; try discriminate C;
    repeat match type of S with
    | context [match ?x with _ => _ end] => destruct x eqn:?; try discriminate
    end; injection S as <- <-;
    rewrite ?inflight_release_next, ?inflight_got_token, ?inflight_do_ret, ?inflight_begin_acquire in C;
    try discriminate C;
    try (unfold inflight, refused, complete, set_pc in C; cbn [tpc] in C; try discriminate C).
  all: try (destruct ((lvl s =? 0) || requires_sync (lvl s)) eqn:OR; [discriminate C|];
            apply orb_false_elim in OR; destruct OR as [_ OR]; injection C as <-;
            right; eexists; split; [reflexivity|split; [exact OR|reflexivity]]).
  all: try (injection C as <-; left; eexists; eexists; split; reflexivity).
Qed.

(* ---------- no token of a kind exists when its counter reads zero inside the critical section ---------- *)
Lemma sumf_all_zero {A} (f : A -> N) l : (forall x, In x l -> f x = 0) -> sumf f l = 0.
Proof.
  induction l as [|a l IH]; cbn [sumf]; intros H; [reflexivity|].
  rewrite (H a) by (left; reflexivity). rewrite IH; [reflexivity|]. intros x I. apply H. right. exact I.
Qed.
Definition pk (k : kind) (t : token) : bool := kind_eqb (tk t) k.
Lemma count_occ k l : count_kind k l = occ (pk k) l.
Proof. reflexivity. Qed.

Lemma owned_cnt k th :
  occ (pk k) (owned th) =
  cnt k th + match tpc th with AInc k' _ _ => if kind_eqb k' k then 1 else 0 | _ => 0 end.
Proof.
  unfold cnt, owned, inflight, releasing. rewrite count_occ, !occ_app.
  destruct (tpc th); cbn [cnt_pc]; rewrite ?occ_nil, ?occ_one; unfold pk; cbn [tk]; lia.
Qed.

Lemma no_tokens_of_kind k st t th :
  ginv st -> nth_error (ths st) t = Some th ->
  in_cs (lvl (sh st)) (tpc th) = true -> inflight th = [] ->
  (match k with KW => aw (sh st) | _ => ar (sh st) end) = 0 -> k <> KRO ->
  vers k (alltok st) = [].
Proof.
  intros G N CS IF Z K.
  assert (RS : requires_sync (lvl (sh st)) = true).
  { destruct (requires_sync (lvl (sh st))) eqn:E; [reflexivity|]. exfalso.
    pose proof (i_lvl _ _ _ (g_th _ G _ _ N) E) as LV. unfold in_cs in CS. rewrite E in CS.
    destruct (tpc th); cbn in LV; try contradiction; discriminate. }
  assert (C0 : sumf (cnt k) (ths st) = 0 /\ occ (pk k) (mail (sh st)) = 0).
  { pose proof (g_ar _ G) as A. pose proof (g_aw _ G) as W. rewrite !count_occ in *.
    destruct k; try congruence; lia. }
  destruct C0 as [C0 M0].
  assert (Z0 : occ (pk k) (alltok st) = 0).
  { unfold alltok. rewrite occ_app, occ_flat_map, M0. rewrite sumf_all_zero; [reflexivity|].
    intros x I. apply In_nth_error in I. destruct I as (i & Ei).
    rewrite owned_cnt. rewrite (sumf_zero _ _ x C0) by (eapply nth_error_In; eauto).
    destruct (tpc x) eqn:Px; try reflexivity.
    destruct (Nat.eq_dec i t) as [->|NE].
    - rewrite N in Ei. injection Ei as <-. unfold inflight in IF. rewrite Px in IF. discriminate.
    - pose proof (other_not_cs_locked _ _ _ _ _ (g_th _ G _ _ N) CS NE (g_th _ G _ _ Ei)) as X.
      rewrite Px in X. cbn in X. congruence. }
  unfold vers. unfold occ, pk in Z0. destruct (filter _ (alltok st)); [reflexivity|cbn [nlen] in Z0; lia].
Qed.

(* ---------- every concrete step is a step of the specification ---------- *)
Lemma tau_ok level st st' :
  (forall k, k <> KRO -> forall x, occn x (vers k (alltok st')) = occn x (vers k (alltok st))) ->
  minv (sh st') = minv (sh st) -> astep level (abs st) ATau (abs st').
Proof.
  intros M E. cbn [astep abs a_rd a_wr a_lo]. split; [|split]; [| |exact E]; intros x; apply M; discriminate.
Qed.

Lemma pkx_one k x t : occ (pkx k x) [t] = if kind_eqb (tk t) k then (if x =? tv t then 1 else 0) else 0.
Proof. rewrite occ_one. unfold pkx. destruct (kind_eqb (tk t) k), (x =? tv t); reflexivity. Qed.

Lemma rel_inflight i s th s' th' :
  (exists t, tpc th = RDec t) \/ (exists c, tpc th = TStore c) ->
  tstep true i s th = Some (s', th') -> inflight th' = [].
Proof.
  intros [[t P]|[c P]] S; unfold tstep in S; rewrite P in S.
  - destruct (requires_sync (lvl s)); injection S as _ <-; [reflexivity|apply inflight_release_next].
  - injection S as _ <-. reflexivity.
Qed.

Theorem step_refines_proof :
  forall st tid, ginv st ->
    astep (lvl (sh st)) (abs st) (label_of st tid) (abs (step true st tid)).
Proof.
  intros st tid G. unfold label_of, step.
  destruct (nth_error (ths st) tid) as [th|] eqn:N; [|apply tau_ok; auto].
  destruct (tstep true tid (sh st) th) as [[s' th']|] eqn:S; [|apply tau_ok; auto].
  set (st' := St s' (upd (ths st) tid th')).
  assert (MQ : forall k, k <> KRO -> forall x,
             occn x (vers k (alltok st')) + occ (pkx k x) (releasing th) =
             occn x (vers k (alltok st)) + occ (pkx k x) (created th th')).
  { intros k K x. rewrite !occn_vers. apply step_alltok; auto. apply notro_pkx. exact K. }
  pose proof (g_th _ G _ _ N) as T.
  assert (KR1 : KR <> KRO) by discriminate. assert (KW1 : KW <> KRO) by discriminate.
  assert (OTHER : releasing th = [] -> (forall c, tpc th <> TStore c) ->
    astep (lvl (sh st)) (abs st)
      match inflight th, inflight th' with
      | [], [t] => match tk t with KW => AAcqW (tv t) | KRO => ATau | _ => AAcqR (tv t) end
      | _, _ => ATau
      end (abs st')).
  { intros RL NT. pose proof (tstep_minv _ _ _ _ _ S NT) as EM. rewrite RL in MQ.
    assert (TAU : created th th' = [] -> astep (lvl (sh st)) (abs st) ATau (abs st')).
    { intros C. rewrite C in MQ. apply tau_ok; [|exact EM]. intros k K x. specialize (MQ k K x).
      rewrite !occ_nil in MQ. lia. }
    destruct (inflight th) as [|a l0] eqn:I0; [|apply TAU; unfold created; rewrite I0; reflexivity].
    destruct (inflight th') as [|b [|c l1]] eqn:I1; try (apply TAU; unfold created; rewrite I0, I1; reflexivity).
    assert (C : created th th' = [b]) by (unfold created; rewrite I0, I1; reflexivity).
    rewrite C in MQ.
    assert (FACTS : minv (sh st) <= tv b /\ (tk b = KW -> lvl (sh st) = 3 -> vers KW (alltok st) = [])).
    { destruct (created_cases _ _ _ _ _ _ S C) as [(k & m & P & ->)|(k & P & RS & ->)]; cbn [tv tk].
      - split; [pose proof (g_min _ G); lia|]. intros -> L3.
        pose proof (i_facts _ _ _ T) as FX. rewrite P in FX. cbn in FX.
        apply (no_tokens_of_kind KW st tid th G N);
          [rewrite P; reflexivity|unfold inflight; rewrite P; reflexivity|cbn; auto|discriminate].
      - destruct (g_nosync _ G RS) as [_ ->]. split; [lia|]. intros _ L3. rewrite L3 in RS. discriminate. }
    destruct FACTS as [LO WX].
    destruct (tk b) eqn:KB; cbn [astep abs a_rd a_wr a_lo].
    - (* reader *)
      split; [exact LO|]. split; [|split]; [| |exact EM]; intros x.
      + specialize (MQ KR KR1 x). rewrite pkx_one, KB, occ_nil in MQ. cbn [kind_eqb] in MQ. rewrite occn_cons. lia.
      + specialize (MQ KW KW1 x). rewrite pkx_one, KB, occ_nil in MQ. cbn [kind_eqb] in MQ. lia.
    - (* writer *)
      split; [exact LO|]. split; [intros L3; apply WX; auto|]. split; [|split]; [| |exact EM]; intros x.
      + specialize (MQ KR KR1 x). rewrite pkx_one, KB, occ_nil in MQ. cbn [kind_eqb] in MQ. lia.
      + specialize (MQ KW KW1 x). rewrite pkx_one, KB, occ_nil in MQ. cbn [kind_eqb] in MQ. rewrite occn_cons. lia.
    - (* a read-only token of level 0 is invisible *)
      split; [|split]; [| |exact EM]; intros x.
      + specialize (MQ KR KR1 x). rewrite pkx_one, KB, occ_nil in MQ. cbn [kind_eqb] in MQ. lia.
      + specialize (MQ KW KW1 x). rewrite pkx_one, KB, occ_nil in MQ. cbn [kind_eqb] in MQ. lia. }
  destruct (tpc th) eqn:P; try (apply OTHER; [unfold releasing; rewrite P; reflexivity|intros c; discriminate]).
  - (* RDec t: the token ceases to exist *)
    assert (CR : created th th' = []).
    { unfold created. rewrite (rel_inflight _ _ _ _ _ (or_introl (ex_intro _ t P)) S).
      destruct (inflight th) as [|? [|? ?]]; reflexivity. }
    assert (RL : releasing th = [t]) by (unfold releasing; rewrite P; reflexivity).
    assert (EM : minv s' = minv (sh st)) by (apply (tstep_minv _ _ _ _ _ S); intros c; rewrite P; discriminate).
    rewrite CR, RL in MQ.
    destruct (tk t) eqn:KT; cbn [astep abs a_rd a_wr a_lo].
    + split; [|split]; [| |exact EM]; intros x.
      * specialize (MQ KR KR1 x). rewrite pkx_one, KT, occ_nil in MQ. cbn [kind_eqb] in MQ. rewrite occn_cons. lia.
      * specialize (MQ KW KW1 x). rewrite pkx_one, KT, occ_nil in MQ. cbn [kind_eqb] in MQ. lia.
    + split; [|split]; [| |exact EM]; intros x.
      * specialize (MQ KR KR1 x). rewrite pkx_one, KT, occ_nil in MQ. cbn [kind_eqb] in MQ. lia.
      * specialize (MQ KW KW1 x). rewrite pkx_one, KT, occ_nil in MQ. cbn [kind_eqb] in MQ. rewrite occn_cons. lia.
    + split; [|split]; [| |exact EM]; intros x.
      * specialize (MQ KR KR1 x). rewrite pkx_one, KT, occ_nil in MQ. cbn [kind_eqb] in MQ. lia.
      * specialize (MQ KW KW1 x). rewrite pkx_one, KT, occ_nil in MQ. cbn [kind_eqb] in MQ. lia.
  - (* TStore c: the threshold moves; no token exists *)
    assert (CR : created th th' = []).
    { unfold created. rewrite (rel_inflight _ _ _ _ _ (or_intror (ex_intro _ c P)) S).
      destruct (inflight th) as [|? [|? ?]]; reflexivity. }
    assert (RL : releasing th = []) by (unfold releasing; rewrite P; reflexivity).
    rewrite CR, RL in MQ.
    pose proof (i_facts _ _ _ T) as FX. rewrite P in FX. cbn in FX. destruct FX as (A0 & W0 & ->).
    assert (IF : inflight th = []) by (unfold inflight; rewrite P; reflexivity).
    assert (CS : in_cs (lvl (sh st)) (tpc th) = true) by (rewrite P; reflexivity).
    pose proof (no_tokens_of_kind KR st tid th G N CS IF A0 KR1) as VR.
    pose proof (no_tokens_of_kind KW st tid th G N CS IF W0 KW1) as VW.
    assert (EM : minv s' = cur (sh st)).
    { unfold tstep in S. rewrite P in S. injection S as <- _. reflexivity. }
    cbn [astep abs a_rd a_wr a_lo]. split; [apply (g_min _ G)|]. split.
    + rewrite VR, VW. intros v [].
    + split; [|split]; [| |exact EM]; intros x.
      * specialize (MQ KR KR1 x). rewrite !occ_nil in MQ. lia.
      * specialize (MQ KW KW1 x). rewrite !occ_nil in MQ. lia.
Qed.

(* ---------- runs ---------- *)
Lemma abs_init level b progs : abs (initb level b progs) = ainit.
Proof.
  unfold abs, alltok, initb. cbn [sh ths mail minv].
  assert (E : flat_map owned (map init_thread progs) = []).
  { induction progs as [|p l IH]; [reflexivity|]. cbn [map flat_map]. rewrite IH. reflexivity. }
  rewrite E. reflexivity.
Qed.

Lemma run_areach_gen level sched : forall st,
  ginv st -> lvl (sh st) = level -> areach level (abs st) -> areach level (abs (run true sched st)).
Proof.
  unfold run. induction sched as [|t r IH]; intros st G L A; cbn [fold_left]; [exact A|].
  apply IH.
  - apply step_inv. exact G.
  - rewrite step_lvl. exact L.
  - eapply ar_step; [exact A|]. rewrite <- L. apply step_refines_proof. exact G.
Qed.

Lemma run_refines_proof :
  forall level b progs sched, areach level (abs (run true sched (initb level b progs))).
Proof.
  intros. apply run_areach_gen; [apply initb_inv|reflexivity|]. rewrite abs_init. constructor.
Qed.

Lemma step_refines_run_proof :
  forall level b progs sched tid,
    let st := run true sched (initb level b progs) in
    astep level (abs st) (label_of st tid) (abs (step true st tid)).
Proof.
  intros. pose proof (step_refines_proof st tid (reachb_inv level b progs sched)) as H.
  subst st. rewrite run_lvl in H. exact H.
Qed.

(* ---------- the clauses of the property, through the specification ---------- *)
Lemma nlen_map {A B} (f : A -> B) l : nlen (map f l) = nlen l.
Proof. induction l as [|a l IH]; cbn [map nlen]; [reflexivity|rewrite IH; reflexivity]. Qed.
Lemma nlen_vers k l : nlen (vers k l) = occ (pk k) l.
Proof. unfold vers. rewrite nlen_map. reflexivity. Qed.

Lemma live_sub_alltok st t : In t (live st) -> In t (alltok st).
Proof.
  unfold live, alltok. intros H. apply in_app_or in H. apply in_or_app. destruct H as [H|H]; [left|right; exact H].
  apply in_flat_map in H. destruct H as (th & I & H). apply in_flat_map. exists th. split; [exact I|].
  unfold owned. apply in_or_app. left. exact H.
Qed.
Lemma In_vers k t l : In t l -> tk t = k -> In (tv t) (vers k l).
Proof.
  intros I K. unfold vers. apply in_map. apply filter_In. split; [exact I|]. rewrite K. apply kind_eqb_refl.
Qed.
Lemma live_count_alltok k st : count_kind k (live st) <= occ (pk k) (alltok st).
Proof.
  unfold live, alltok. rewrite count_kind_app, count_kind_flat_map, occ_app, occ_flat_map, count_occ.
  assert (sumf (fun th => count_kind k (tokens_of th)) (ths st) <= sumf (fun th => occ (pk k) (owned th)) (ths st)); [|lia].
  apply sumf_le. intros th. unfold owned. rewrite occ_app, count_occ. lia.
Qed.

Lemma property_from_spec_proof :
  forall level b progs sched,
    let st := run true sched (initb level b progs) in
    ainv level (abs st) /\
    (level = 3 -> count_kind KW (live st) <= nlen (a_wr (abs st)) <= 1) /\
    (forall t, In t (live st) -> tracked t ->
       In (tv t) (a_rd (abs st) ++ a_wr (abs st)) /\ a_lo (abs st) = minv (sh st) /\ minv (sh st) <= tv t) /\
    (quiescent st -> ar (sh st) = nlen (a_rd (abs st)) /\ aw (sh st) = nlen (a_wr (abs st))).
Proof.
  intros level b progs sched st.
  pose proof (areach_ainv _ _ (run_refines_proof level b progs sched)) as AI. fold st in AI.
  split; [exact AI|]. destruct AI as [W L]. split; [|split].
  - intros L3. specialize (W L3). cbn [abs a_wr] in *. rewrite nlen_vers in *.
    pose proof (live_count_alltok KW st). lia.
  - intros t I K. apply live_sub_alltok in I.
    assert (IV : In (tv t) (a_rd (abs st) ++ a_wr (abs st))).
    { cbn [abs a_rd a_wr]. apply in_or_app. unfold tracked in K.
      destruct (tk t) eqn:KT; try congruence; [left|right]; apply In_vers; auto. }
    split; [exact IV|]. split; [reflexivity|]. apply (L _ IV).
  - intros Q. pose proof (reachb_inv level b progs sched) as G. fold st in G.
    cbn [abs a_rd a_wr]. rewrite !nlen_vers. rewrite (g_ar _ G), (g_aw _ G).
    unfold alltok. rewrite !occ_app, !occ_flat_map, !count_occ.
    split; f_equal; apply sumf_ext_in; intros th I; rewrite owned_cnt, (Q th I); lia.
Qed.

Example refinement_nontrivial :
  let st := run true (repeat 0 13 ++ repeat 1 3)%nat (initb 3 32 [[AcqR; AcqW]; [AcqR]]) in
  abs st = AS [2] [3] 1 /\ label_of st 1 = AAcqR 4 /\ abs (step true st 1) = AS [2; 4] [3] 1.
Proof. vm_compute. auto. Qed.
