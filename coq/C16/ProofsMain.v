(* C16: the invariant holds in every reachable state; the statements of the property. *)
From ZV.Common Require Import Base.
From ZV.C16 Require Import Model ProofsBase ProofsInv ProofsStep.
Open Scope N_scope.

Lemma step_inv st t : ginv st -> ginv (step true st t).
Proof.
  intros G. unfold step. destruct (nth_error (ths st) t) as [th|] eqn:N; [|exact G].
  destruct (tstep true t (sh st) th) as [[s' th']|] eqn:S; [|exact G].
  eapply tstep_inv; eauto.
Qed.

Lemma run_inv sched : forall st, ginv st -> ginv (run true sched st).
Proof.
  unfold run. induction sched as [|t r IH]; intros st G; cbn [fold_left]; [exact G|].
  apply IH. apply step_inv. exact G.
Qed.

Lemma sumf_init k progs : sumf (cnt k) (map init_thread progs) = 0.
Proof. induction progs as [|p l IH]; cbn [map sumf]; [reflexivity|]. rewrite IH. reflexivity. Qed.

Lemma initb_inv level b progs : ginv (initb level b progs).
Proof.
  constructor; cbn [initb sh ths lvl cur minv ar aw lck mail].
  - rewrite sumf_init. reflexivity.
  - rewrite sumf_init. reflexivity.
  - constructor.
  - lia.
  - intros _. lia.
  - intros _. split; reflexivity.
  - intros i th E. apply nth_error_In in E. apply in_map_iff in E. destruct E as (p & <- & _).
    apply tinv_idle; [reflexivity|reflexivity|constructor].
Qed.

Lemma init_inv level progs : ginv (init level progs).
Proof. apply initb_inv. Qed.

Lemma reachb_inv level b progs sched : ginv (run true sched (initb level b progs)).
Proof. apply run_inv. apply initb_inv. Qed.
Lemma reach_inv level progs sched : ginv (run true sched (init level progs)).
Proof. apply reachb_inv. Qed.

(* ---------- consequences of the invariant ---------- *)
Lemma live_count_le k st :
  count_kind k (live st) <= sumf (cnt k) (ths st) + count_kind k (mail (sh st)).
Proof.
  unfold live. rewrite count_kind_app, count_kind_flat_map.
  assert (sumf (fun th => count_kind k (tokens_of th)) (ths st) <= sumf (cnt k) (ths st)); [|lia].
  apply sumf_le. intros th. unfold cnt. lia.
Qed.

Lemma ginv_writer_exclusion st : ginv st -> lvl (sh st) = 3 -> count_kind KW (live st) <= 1.
Proof.
  intros G L. pose proof (live_count_le KW st). pose proof (g_excl _ G L). rewrite (g_aw _ G) in *. lia.
Qed.

Lemma ginv_min_le_live st t :
  ginv st -> In t (live st) -> tracked t -> minv (sh st) <= tv t /\ tv t <= cur (sh st).
Proof.
  intros G I K. unfold live in I. apply in_app_or in I. destruct I as [I|I].
  2:{ pose proof (g_mail _ G) as F. rewrite Forall_forall in F. apply (F t I K). }
  apply in_flat_map in I. destruct I as (th & Hth & Ht).
  apply In_nth_error in Hth. destruct Hth as (i & E).
  pose proof (tinv_tokens _ _ _ (g_th _ G _ _ E)) as F. rewrite Forall_forall in F.
  apply (F t Ht K).
Qed.

Lemma ginv_counters_quiescent st :
  ginv st -> quiescent st ->
  ar (sh st) = count_kind KR (live st) /\ aw (sh st) = count_kind KW (live st).
Proof.
  intros G Q. rewrite (g_ar _ G), (g_aw _ G). unfold live. rewrite !count_kind_app, !count_kind_flat_map.
  split; f_equal; apply sumf_ext_in; intros th Hth; apply cnt_idle; apply Q; exact Hth.
Qed.

Lemma all_done_no_tokens st th :
  ginv st -> all_done st -> In th (ths st) -> tokens_of th = [].
Proof.
  intros G [DM D] Hth. destruct (D th Hth) as (P & C).
  apply In_nth_error in Hth. destruct Hth as (i & E).
  assert (EP : pend th = []) by (apply (i_pend _ _ _ (g_th _ G _ _ E)); rewrite P; reflexivity).
  unfold cur_op in C. unfold tokens_of.
  destruct (prog th); [|discriminate]. destruct (held th); [|discriminate].
  destruct (cache_r th); [discriminate|]. destruct (cache_w th); [discriminate|].
  rewrite EP. reflexivity.
Qed.

Lemma ginv_counters_zero st : ginv st -> all_done st -> ar (sh st) = 0 /\ aw (sh st) = 0.
Proof.
  intros G D.
  assert (Q : quiescent st) by (intros th Hth; apply (proj2 D th Hth)).
  destruct (ginv_counters_quiescent st G Q) as (A & W). rewrite A, W.
  unfold live. rewrite (proj1 D), !app_nil_r, !count_kind_flat_map.
  split; (erewrite sumf_ext_in with (g := fun _ => 0);
    [ clear; induction (ths st) as [|a l IH]; cbn [sumf]; [reflexivity|rewrite IH; reflexivity]
    | intros th Hth; rewrite (all_done_no_tokens st th G D Hth); reflexivity ]).
Qed.

Lemma take_safe_lt n m : forall l a, In a (fst (take_safe n m l)) -> a < m.
Proof.
  induction n as [|n IH]; intros l a H; cbn [take_safe] in H.
  - destruct l; cbn in H; contradiction.
  - destruct l as [|x r]; cbn in H; [contradiction|].
    destruct (x <? m) eqn:E.
    + destruct (take_safe n m r) as [p q] eqn:T. cbn in H. destruct H as [<-|H]; [lia|].
      apply (IH r). rewrite T. exact H.
    + cbn in H. contradiction.
Qed.

Lemma ginv_reclaim_safe st a t :
  ginv st -> In a (fst (take_safe BULK_FREE_NUM (minv (sh st)) (lazy (sh st)))) ->
  In t (live st) -> tracked t -> a < tv t.
Proof.
  intros G Ha Ht K. apply take_safe_lt in Ha. pose proof (ginv_min_le_live st t G Ht K). lia.
Qed.

(* a writer request that reaches its admission check while a writer token is live is refused *)
Lemma ginv_second_writer_refused st i th tok :
  ginv st -> nth_error (ths st) i = Some th -> tpc th = ALoadAw ->
  In tok (live st) -> tk tok = KW ->
  exists th', tstep true i (sh st) th = Some (sh st, th') /\ tpc th' = ABusyUnlock.
Proof.
  intros G E P I K.
  assert (1 <= aw (sh st)).
  { rewrite (g_aw _ G). pose proof (live_count_le KW st) as L.
    set (sm := sumf (cnt KW) (ths st) + count_kind KW (mail (sh st))) in *.
    assert (1 <= count_kind KW (live st)); [|lia].
    clear - I K. induction (live st) as [|x l IH]; [contradiction|].
    rewrite (count_kind_cons KW x l). destruct I as [->|I].
    - rewrite K. cbn. lia.
    - specialize (IH I). lia. }
  unfold tstep. rewrite P. destruct (0 <? aw (sh st)) eqn:Z; [|lia].
  eexists. split; reflexivity.
Qed.

(* the concurrency level never changes *)
Lemma tstep_lvl fx i s th s' th' : tstep fx i s th = Some (s', th') -> lvl s' = lvl s.
Proof.
  unfold tstep. intros H.
  repeat match type of H with
  | context [match ?x with _ => _ end] => destruct x; try discriminate
  end; injection H as <- _; reflexivity.
Qed.
Lemma step_lvl fx st t : lvl (sh (step fx st t)) = lvl (sh st).
Proof.
  unfold step. destruct (nth_error (ths st) t) as [th|]; [|reflexivity].
  destruct (tstep fx t (sh st) th) as [[s' th']|] eqn:S; [|reflexivity].
  cbn [sh]. eapply tstep_lvl; eauto.
Qed.
Lemma run_lvl fx sched : forall st, lvl (sh (run fx sched st)) = lvl (sh st).
Proof.
  unfold run. induction sched as [|t r IH]; intros st; cbn [fold_left]; [reflexivity|].
  rewrite IH. apply step_lvl.
Qed.

(* ---------- the statements of coq/C16/Properties.v ---------- *)
Lemma writer_exclusion_proof :
  forall (progs : list (list op)) (sched : list nat),
    count_kind KW (live (run true sched (init 3 progs))) <= 1.
Proof. intros. apply ginv_writer_exclusion; [apply reach_inv|]. rewrite run_lvl. reflexivity. Qed.

Lemma second_writer_refused_proof :
  forall progs sched i th tok,
    let st := run true sched (init 3 progs) in
    nth_error (ths st) i = Some th -> tpc th = ALoadAw -> In tok (live st) -> tk tok = KW ->
    exists th', tstep true i (sh st) th = Some (sh st, th') /\ tpc th' = ABusyUnlock.
Proof. intros. eapply ginv_second_writer_refused; eauto. apply reach_inv. Qed.

Lemma min_le_live_proof :
  forall level progs sched t,
    let st := run true sched (init level progs) in
    In t (live st) -> tracked t -> minv (sh st) <= tv t /\ tv t <= cur (sh st).
Proof. intros. apply ginv_min_le_live; auto. apply reach_inv. Qed.

Lemma reclaim_safe_proof :
  forall level progs sched a t,
    let st := run true sched (init level progs) in
    In a (fst (take_safe BULK_FREE_NUM (minv (sh st)) (lazy (sh st)))) ->
    In t (live st) -> tracked t -> a < tv t.
Proof. intros. eapply ginv_reclaim_safe; eauto. apply reach_inv. Qed.

Lemma counters_exact_at_quiescence_proof :
  forall level progs sched,
    let st := run true sched (init level progs) in
    quiescent st ->
    ar (sh st) = count_kind KR (live st) /\ aw (sh st) = count_kind KW (live st).
Proof. intros. apply ginv_counters_quiescent; auto. apply reach_inv. Qed.

Lemma counters_zero_when_done_proof :
  forall level progs sched,
    let st := run true sched (init level progs) in
    all_done st -> ar (sh st) = 0 /\ aw (sh st) = 0.
Proof. intros. apply ginv_counters_zero; auto. apply reach_inv. Qed.

(* (iii) also while closures of with_*_token run: every thread between accesses of an operation it is not inside
   of (Idle) or inside a closure that owns its token (WBody) *)
Definition at_rest (st : state) : Prop := forall th, In th (ths st) -> rest_pc (tpc th) = true.
Lemma counters_exact_at_rest_proof :
  forall level b progs sched,
    let st := run true sched (initb level b progs) in
    at_rest st ->
    ar (sh st) = count_kind KR (live st) /\ aw (sh st) = count_kind KW (live st).
Proof.
  intros level b progs sched st Q. pose proof (reachb_inv level b progs sched) as G. fold st in G.
  rewrite (g_ar _ G), (g_aw _ G). unfold live. rewrite !count_kind_app, !count_kind_flat_map.
  split; f_equal; apply sumf_ext_in; intros th Hth; specialize (Q th Hth);
    destruct (tpc th) eqn:P; try discriminate Q; first [apply cnt_idle; exact P | apply cnt_wbody; exact P].
Qed.
Example at_rest_nontrivial :
  let st := run true (repeat 0%nat 6) (initb 3 32 [[WithR]]) in
  map tpc (ths st) = [WBody] /\ ar (sh st) = 1 /\ live st = [Tok KR 2 1].
Proof. vm_compute. auto. Qed.

(* (iii) at every instant, not only at quiescence: a counter is at least the number of live tokens of its kind and exceeds it
   by at most the number of threads that are in the middle of an acquire or a release *)
Definition busy (th : thread) : bool := negb (rest_pc (tpc th)).
Lemma cnt_pc_le k th : cnt_pc k (tpc th) <= if busy th then 1 else 0.
Proof.
  unfold busy. destruct (tpc th); cbn; try lia; destruct (kind_eqb _ _); lia.
Qed.
Lemma sumf_busy (l : list thread) : sumf (fun th => if busy th then 1 else 0) l = nlen (filter busy l).
Proof.
  induction l as [|a l IH]; cbn [sumf filter]; [reflexivity|]. rewrite IH. destruct (busy a); cbn [nlen]; lia.
Qed.
Lemma sumf_add {A} (f g : A -> N) l : sumf (fun x => f x + g x) l = sumf f l + sumf g l.
Proof. induction l as [|a l IH]; cbn [sumf]; [reflexivity|]. rewrite IH. lia. Qed.

Lemma counters_bounded_always_proof :
  forall level b progs sched,
    let st := run true sched (initb level b progs) in
    count_kind KR (live st) <= ar (sh st) <= count_kind KR (live st) + nlen (filter busy (ths st)) /\
    count_kind KW (live st) <= aw (sh st) <= count_kind KW (live st) + nlen (filter busy (ths st)).
Proof.
  intros level b progs sched st. pose proof (reachb_inv level b progs sched) as G. fold st in G.
  rewrite (g_ar _ G), (g_aw _ G). unfold live. rewrite !count_kind_app, !count_kind_flat_map, <- sumf_busy.
  assert (E : forall k, sumf (cnt k) (ths st) =
                        sumf (fun th => count_kind k (tokens_of th)) (ths st) + sumf (fun th => cnt_pc k (tpc th)) (ths st)).
  { intros k. unfold cnt. apply sumf_add. }
  assert (B : forall k, sumf (fun th => cnt_pc k (tpc th)) (ths st) <= sumf (fun th => if busy th then 1 else 0) (ths st)).
  { intros k. apply sumf_le. intros th. apply cnt_pc_le. }
  rewrite !E. pose proof (B KR). pose proof (B KW). lia.
Qed.
