(* C08: invariant of the SecureMemoryPool model (thread caches + Treiber stack whose nodes are never
   recycled) and the lemmas about how each kind of shared update affects the other threads. *)
From ZV.Common Require Import Base.
From ZV.C08 Require Import Model ProofsInv ProofsChain ModelSecure.
Open Scope N_scope.

(* ---------- thread table ---------- *)
Lemma supd_same : forall l t x y, nth_error l t = Some y -> nth_error (upd_sthr l t x) t = Some x.
Proof.
  induction l as [|a l IH]; intros [|t] x y H; cbn in *; try discriminate; auto.
  eapply IH; eauto.
Qed.
Lemma supd_other : forall l t t' x, t <> t' -> nth_error (upd_sthr l t x) t' = nth_error l t'.
Proof.
  induction l as [|a l IH]; intros [|t] [|t'] x H; cbn; auto; try congruence.
Qed.

(* ---------- counting serials ---------- *)
Fixpoint occ (x : N) (l : list N) : nat :=
  match l with [] => 0%nat | y :: r => (b2n (N.eqb y x) + occ x r)%nat end.
Lemma occ_app : forall x l r, occ x (l ++ r) = (occ x l + occ x r)%nat.
Proof. induction l as [|y l IH]; intros r; cbn; [reflexivity|]. rewrite IH. lia. Qed.
Lemma occ_in : forall x l, In x l -> (1 <= occ x l)%nat.
Proof.
  induction l as [|y l IH]; cbn; [tauto|]. intros [->|H].
  - rewrite N.eqb_refl. cbn. lia.
  - specialize (IH H). lia.
Qed.
Lemma occ_pos_in : forall x l, (1 <= occ x l)%nat -> In x l.
Proof.
  induction l as [|y l IH]; cbn; [lia|]. intros H.
  destruct (N.eqb_spec y x) as [->|]; [left; reflexivity|right; apply IH; cbn in H; lia].
Qed.

Definition wt (x : N) (l : slocal) : nat := occ x (splaces l).
Fixpoint wsum (x : N) (l : list slocal) : nat :=
  match l with [] => 0%nat | a :: r => (wt x a + wsum x r)%nat end.
Lemma wsum_upd : forall x l t n y, nth_error l t = Some y ->
  (wsum x (upd_sthr l t n) + wt x y = wsum x l + wt x n)%nat.
Proof.
  induction l as [|a l IH]; intros [|t] n y H; cbn in *; try discriminate.
  - inversion H; subst. lia.
  - specialize (IH t n y H). lia.
Qed.
Lemma wsum_ge : forall x l t a, nth_error l t = Some a -> (wt x a <= wsum x l)%nat.
Proof.
  induction l as [|b l IH]; intros [|t] a H; cbn in *; try discriminate.
  - inversion H; subst. lia.
  - specialize (IH t a H). lia.
Qed.
Lemma wsum_ge2 : forall x l t1 t2 a b, t1 <> t2 -> nth_error l t1 = Some a -> nth_error l t2 = Some b ->
  (wt x a + wt x b <= wsum x l)%nat.
Proof.
  induction l as [|y l IH]; intros [|t1] [|t2] a b Hne H1 H2; cbn in *; try discriminate; try congruence.
  - inversion H1; subst. pose proof (wsum_ge x l t2 b H2). lia.
  - inversion H2; subst. pose proof (wsum_ge x l t1 a H1). lia.
  - assert (t1 <> t2) by congruence. specialize (IH t1 t2 a b H H1 H2). lia.
Qed.
Lemma wsum_repeat_idle : forall x n, wsum x (repeat {| spc := SIdle; scache := []; sheld := [] |} n) = 0%nat.
Proof. induction n as [|n IH]; cbn; [reflexivity|exact IH]. Qed.

Definition cstk (x : N) (s : sstate) : nat := occ x (map (fun a => fst (sdata s a)) (sstk s)).

Definition pnode (p : spcT) : option N :=
  match p with
  | SPushStart a _ | SPushLoaded a _ _ | SPushWritten a _ _ => Some a
  | _ => None
  end.

Definition spc_ok (s : sstate) (p : spcT) : Prop :=
  match p with
  | SPopLoaded h => h <> 0 /\ sused s h = true /\ (In h (sstk s) \/ slive s h = false)
  | SPopRead h n => h <> 0 /\ sused s h = true /\ (In h (sstk s) \/ slive s h = false) /\
                    (In h (sstk s) -> snext s h = n)
  | SPushStart a ch | SPushLoaded a _ ch => a <> 0 /\ slive s a = true /\ ~ In a (sstk s) /\ sdata s a = ch
  | SPushWritten a h ch => a <> 0 /\ slive s a = true /\ ~ In a (sstk s) /\ sdata s a = ch /\ snext s a = h
  | _ => True
  end.

Definition sthr_at (s : sstate) (t : nat) (l : slocal) : Prop := nth_error (sthr s) t = Some l.

Record KInv (s : sstate) : Prop := {
  k_chain : lchain 0 (snext s) (shead s) (sstk s);
  k_nodup : NoDup (sstk s);
  k_live : forall a, In a (sstk s) -> slive s a = true;
  k_used : forall a, slive s a = true -> sused s a = true;
  k_thr : forall t l, sthr_at s t l ->
            spc_ok s (spc l) /\ (forall ch, In ch (sheld l) -> sact s (fst ch) = Some (snd ch));
  k_disj : forall t1 t2 l1 l2 a, t1 <> t2 -> sthr_at s t1 l1 -> sthr_at s t2 l2 ->
            pnode (spc l1) = Some a -> pnode (spc l2) <> Some a;
  k_occ : forall x, (wsum x (sthr s) + cstk x s)%nat = b2n (x <? snew s)
}.

Lemma sinit_kinv : forall n, KInv (sinit n).
Proof.
  intros n.
  assert (Hth : forall t l, nth_error (repeat {| spc := SIdle; scache := []; sheld := [] |} n) t = Some l ->
                            l = {| spc := SIdle; scache := []; sheld := [] |}).
  { intros t l H. apply nth_error_In in H. apply repeat_spec in H. assumption. }
  constructor; cbn.
  - reflexivity.
  - constructor.
  - tauto.
  - discriminate.
  - intros t l H. apply Hth in H. subst. cbn. split; [exact I|tauto].
  - intros t1 t2 l1 l2 a _ H1 _ Hp. apply Hth in H1. subst. discriminate.
  - intros x. rewrite wsum_repeat_idle. unfold cstk. cbn. destruct x; reflexivity.
Qed.

(* a serial with weight 1 somewhere is below snew; two places for one serial are impossible *)
Lemma occ_lt_new : forall s x, KInv s -> (1 <= wsum x (sthr s) + cstk x s)%nat -> x < snew s.
Proof.
  intros s x K H. rewrite (k_occ s K x) in H. destruct (N.ltb_spec x (snew s)); [assumption|cbn in H; lia].
Qed.
Lemma occ_le_1 : forall s x, KInv s -> (wsum x (sthr s) + cstk x s <= 1)%nat.
Proof. intros s x K. rewrite (k_occ s K x). destruct (x <? snew s); cbn; lia. Qed.

(* the stack part of the count does not see a node that is not on the stack *)
Lemma cstk_data_ext : forall x (d d' : N -> N * N) (l : list N),
  (forall a, In a l -> d' a = d a) ->
  occ x (map (fun a => fst (d' a)) l) = occ x (map (fun a => fst (d a)) l).
Proof.
  intros x d d' l H. induction l as [|a l IH]; cbn; [reflexivity|].
  rewrite H by (left; reflexivity). rewrite IH; [reflexivity|]. intros b Hb. apply H. right. assumption.
Qed.

(* ---------- how the other threads' facts survive each kind of shared update ---------- *)

(* G1: a node is allocated at a never-used address *)
Lemma spc_ok_alloc : forall s s' a p,
  sused s a = false ->
  (forall x, x <> a -> slive s' x = slive s x /\ sused s' x = sused s x /\ sdata s' x = sdata s x /\ snext s' x = snext s x) ->
  sstk s' = sstk s ->
  (forall x, slive s x = true -> sused s x = true) ->
  (forall x, In x (sstk s) -> slive s x = true) ->
  spc_ok s p -> spc_ok s' p.
Proof.
  intros s s' a p Hu Hsame Hst Hlu Hsl.
  assert (Hne : forall x, sused s x = true -> x <> a) by (intros x Hx ->; congruence).
  assert (Hstk : forall x, In x (sstk s) -> x <> a) by (intros x Hx; apply Hne, Hlu, Hsl, Hx).
  destruct p; cbn; rewrite ?Hst; auto.
  - intros (H1 & H2 & H3). destruct (Hsame h (Hne h H2)) as (E1 & E2 & _). rewrite E1, E2. auto.
  - intros (H1 & H2 & H3 & H4). destruct (Hsame h (Hne h H2)) as (E1 & E2 & _ & E4). rewrite E1, E2, E4. auto.
  - intros (H1 & H2 & H3 & H4). destruct (Hsame a0 (Hne a0 (Hlu a0 H2))) as (E1 & _ & E3 & _). rewrite E1, E3. auto.
  - intros (H1 & H2 & H3 & H4). destruct (Hsame a0 (Hne a0 (Hlu a0 H2))) as (E1 & _ & E3 & _). rewrite E1, E3. auto.
  - intros (H1 & H2 & H3 & H4 & H5). destruct (Hsame a0 (Hne a0 (Hlu a0 H2))) as (E1 & _ & E3 & E4). rewrite E1, E3, E4. auto.
Qed.

(* G2: the link of an in-flight node a (live, not on the stack) is written *)
Lemma spc_ok_link : forall s s' a v p,
  slive s' = slive s -> sused s' = sused s -> sdata s' = sdata s -> sstk s' = sstk s ->
  snext s' = upd_o (snext s) a v ->
  ~ In a (sstk s) -> pnode p <> Some a ->
  spc_ok s p -> spc_ok s' p.
Proof.
  intros s s' a v p E1 E2 E3 E4 E5 Ha Hp.
  destruct p; cbn; rewrite ?E1, ?E2, ?E3, ?E4, ?E5; auto.
  - intros (H1 & H2 & H3 & H4). repeat split; auto. intros Hin. unfold upd_o.
    destruct (N.eqb_spec h a) as [->|]; [contradiction|auto].
  - intros (H1 & H2 & H3 & H4 & H5). repeat split; auto. unfold upd_o.
    destruct (N.eqb_spec a0 a) as [->|]; [cbn in Hp; congruence|assumption].
Qed.

(* G3: the in-flight node a is linked in: head := a, stack := a :: stack *)
Lemma spc_ok_pushed : forall s s' a p,
  slive s' = slive s -> sused s' = sused s -> sdata s' = sdata s -> snext s' = snext s ->
  sstk s' = a :: sstk s ->
  slive s a = true -> ~ In a (sstk s) -> pnode p <> Some a ->
  spc_ok s p -> spc_ok s' p.
Proof.
  intros s s' a p E1 E2 E3 E4 E5 Hl Ha Hp.
  destruct p; cbn; rewrite ?E1, ?E2, ?E3, ?E4, ?E5; cbn [In]; auto.
  - intros (H1 & H2 & H3). repeat split; auto. tauto.
  - intros (H1 & H2 & H3 & H4). repeat split; auto; [tauto|].
    intros [<-|Hin]; [|auto]. destruct H3 as [H3|H3]; [contradiction|congruence].
  - intros (H1 & H2 & H3 & H4). repeat split; auto. intros [<-|Hin]; [cbn in Hp; congruence|contradiction].
  - intros (H1 & H2 & H3 & H4). repeat split; auto. intros [<-|Hin]; [cbn in Hp; congruence|contradiction].
  - intros (H1 & H2 & H3 & H4 & H5). repeat split; auto. intros [<-|Hin]; [cbn in Hp; congruence|contradiction].
Qed.

(* G4: the top node h is unlinked and freed: stack := r where the stack was h :: r *)
Lemma spc_ok_popped : forall s s' h r p,
  sstk s = h :: r -> ~ In h r ->
  slive s' = upd_o (slive s) h false -> sused s' = sused s -> sdata s' = sdata s -> snext s' = snext s ->
  sstk s' = r ->
  spc_ok s p -> spc_ok s' p.
Proof.
  intros s s' h r p Es Hnr E1 E2 E3 E4 E5.
  destruct p; cbn; rewrite ?E1, ?E2, ?E3, ?E4, ?E5, ?Es; cbn [In]; unfold upd_o; auto.
  - intros (H1 & H2 & H3). repeat split; auto.
    destruct (N.eqb_spec h0 h) as [->|Hne]; [right; reflexivity|].
    destruct H3 as [[E|H3]|H3]; [congruence|left; assumption|right; assumption].
  - intros (H1 & H2 & H3 & H4). split; [assumption|]. split; [assumption|]. split.
    + destruct (N.eqb_spec h0 h) as [->|Hne]; [right; reflexivity|].
      destruct H3 as [[E|H3]|H3]; [congruence|left; assumption|right; assumption].
    + intros Hin. apply H4. right. assumption.
  - intros (H1 & H2 & H3 & H4). repeat split; auto.
    destruct (N.eqb_spec a h) as [->|]; [exfalso; apply H3; left; reflexivity|assumption].
  - intros (H1 & H2 & H3 & H4). repeat split; auto.
    destruct (N.eqb_spec a h) as [->|]; [exfalso; apply H3; left; reflexivity|assumption].
  - intros (H1 & H2 & H3 & H4 & H5). repeat split; auto.
    destruct (N.eqb_spec a h) as [->|]; [exfalso; apply H3; left; reflexivity|assumption].
Qed.

(* G0: nothing of the stack changes *)
Lemma spc_ok_same : forall s s' p,
  slive s' = slive s -> sused s' = sused s -> sdata s' = sdata s -> snext s' = snext s -> sstk s' = sstk s ->
  spc_ok s p -> spc_ok s' p.
Proof. intros s s' p E1 E2 E3 E4 E5. destruct p; cbn; rewrite ?E1, ?E2, ?E3, ?E4, ?E5; auto. Qed.

(* ---------- the frame: what a step of thread t must establish ---------- *)
Lemma kinv_frame : forall s s' t l l',
  KInv s -> sthr_at s t l -> sthr s' = upd_sthr (sthr s) t l' ->
  lchain 0 (snext s') (shead s') (sstk s') -> NoDup (sstk s') ->
  (forall a, In a (sstk s') -> slive s' a = true) ->
  (forall a, slive s' a = true -> sused s' a = true) ->
  spc_ok s' (spc l') ->
  (forall ch, In ch (sheld l') -> sact s' (fst ch) = Some (snd ch)) ->
  (forall p, spc_ok s p -> (forall a, pnode (spc l) = Some a -> pnode p <> Some a) -> spc_ok s' p) ->
  (forall t' x ch, t <> t' -> sthr_at s t' x -> In ch (sheld x) -> sact s' (fst ch) = sact s (fst ch)) ->
  (forall a, pnode (spc l') = Some a ->
     pnode (spc l) = Some a \/ forall t' x, t <> t' -> sthr_at s t' x -> pnode (spc x) <> Some a) ->
  (forall x, (wt x l' + cstk x s' + b2n (N.ltb x (snew s)) = wt x l + cstk x s + b2n (N.ltb x (snew s')))%nat) ->
  KInv s'.
Proof.
  intros s s' t l l' K Hl Hthr Hch Hnd Hlv Hus Hpc Hact Hoth Hoact Hdj Hocc.
  pose proof K as K0. destruct K as [Kch Knd Klv Kus Kth Kdj Koc].
  constructor; auto.
  - intros t' x Hat. unfold sthr_at in Hat. rewrite Hthr in Hat.
    destruct (Nat.eq_dec t t') as [<-|Hne].
    + erewrite supd_same in Hat by eassumption. inversion Hat; subst. auto.
    + rewrite supd_other in Hat by assumption.
      destruct (Kth _ _ Hat) as (H1 & H2). split.
      * apply Hoth; [assumption|]. intros a Ha. exact (Kdj _ _ _ _ a Hne Hl Hat Ha).
      * intros ch Hc. rewrite (Hoact _ _ _ Hne Hat Hc). auto.
  - intros t1 t2 l1 l2 a Hne H1 H2 Hp1 Hp2.
    unfold sthr_at in H1, H2. rewrite Hthr in H1, H2.
    destruct (Nat.eq_dec t t1) as [<-|N1]; destruct (Nat.eq_dec t t2) as [<-|N2]; try congruence.
    + erewrite supd_same in H1 by eassumption. inversion H1; subst.
      rewrite supd_other in H2 by assumption.
      destruct (Hdj a Hp1) as [Ho|Ho]; [exact (Kdj _ _ _ _ a Hne Hl H2 Ho Hp2)|exact (Ho _ _ Hne H2 Hp2)].
    + erewrite supd_same in H2 by eassumption. inversion H2; subst.
      rewrite supd_other in H1 by assumption.
      destruct (Hdj a Hp2) as [Ho|Ho]; [exact (Kdj _ _ _ _ a Hne H1 Hl Hp1 Ho)|exact (Ho _ _ N1 H1 Hp1)].
    + rewrite supd_other in H1, H2 by assumption. exact (Kdj _ _ _ _ a Hne H1 H2 Hp1 Hp2).
  - intros x. rewrite Hthr. pose proof (wsum_upd x _ _ l' _ Hl) as U. specialize (Hocc x). specialize (Koc x). lia.
Qed.

(* facts about take_id *)
Lemma take_id_spec : forall id l ch r, take_id id l = Some (ch, r) ->
  In ch l /\ fst ch = id /\ (forall c', In c' r -> In c' l) /\
  (forall x, occ x (map fst l) = (b2n (N.eqb (fst ch) x) + occ x (map fst r))%nat).
Proof.
  induction l as [|y l IH]; intros ch r H; cbn in H; [discriminate|].
  destruct (N.eqb_spec (fst y) id) as [E|E].
  - inversion H; subst. split; [left; reflexivity|]. split; [reflexivity|]. split; [intros; right; assumption|].
    intros x. reflexivity.
  - destruct (take_id id l) as [[c0 r0]|] eqn:T; [|discriminate]. inversion H; subst.
    destruct (IH _ _ eq_refl) as (H1 & H2 & H3 & H4). split; [right; assumption|]. split; [assumption|]. split.
    + intros c' [<-|Hc]; [left; reflexivity|right; auto].
    + intros x. cbn. rewrite H4. lia.
Qed.

Lemma occ_map_in : forall (ch : N * N) l, In ch l -> (1 <= occ (fst ch) (map fst l))%nat.
Proof. intros ch l H. apply occ_in. apply in_map. assumption. Qed.
