(* C08: every step of every thread of the SecureMemoryPool model preserves the invariant when stack
   nodes are never recycled. *)
From ZV.Common Require Import Base.
From ZV.C08 Require Import Model ProofsInv ProofsChain ModelSecure ProofsSecureInv.
Open Scope N_scope.

Lemma b2n_le1 : forall b, (b2n b <= 1)%nat.
Proof. destruct b; cbn; lia. Qed.
Lemma b2n_eqb_refl : forall x, b2n (N.eqb x x) = 1%nat.
Proof. intros. rewrite N.eqb_refl. reflexivity. Qed.
Lemma b2n_ltb_succ : forall x n, b2n (N.ltb x (n + 1)) = (b2n (N.ltb x n) + b2n (N.eqb n x))%nat.
Proof.
  intros x n. destruct (N.ltb_spec x (n + 1)), (N.ltb_spec x n), (N.eqb_spec n x); cbn; lia.
Qed.

Lemma wt_mk : forall x p ca he, wt x (smk p ca he) =
  (occ x (map fst he) + occ x (map fst ca) + occ x (map fst (sinflight p)))%nat.
Proof. intros. unfold wt, splaces, smk. cbn [sheld scache spc]. rewrite !occ_app. lia. Qed.
Lemma wt_rec : forall x p ca he, wt x {| spc := p; scache := ca; sheld := he |} =
  (occ x (map fst he) + occ x (map fst ca) + occ x (map fst (sinflight p)))%nat.
Proof. intros. apply (wt_mk x p ca he). Qed.
Lemma occ_snoc : forall x (l : list (N * N)) ch,
  occ x (map fst (l ++ [ch])) = (occ x (map fst l) + b2n (N.eqb (fst ch) x))%nat.
Proof. intros. rewrite map_app, occ_app. cbn. lia. Qed.

Section SSTEP.
Variable c : scfg.
Hypothesis Hnr : s_reuse c = false.

(* a serial that sits in the moving thread's places and is also held by somebody (else, or again) *)
Lemma held_unique : forall s t l t' x ch id, KInv s ->
  sthr_at s t l -> sthr_at s t' x -> In ch (sheld x) ->
  (* id has weight >= 1 in l beyond what ch contributes when t = t', or on the stack *)
  (t <> t' /\ (1 <= wt id l)%nat \/ t = t' /\ (2 <= wt id l)%nat \/ (1 <= cstk id s)%nat \/ snew s <= id) ->
  fst ch <> id.
Proof.
  intros s t l t' x ch id K Hl Hx Hc Hcase E. subst id.
  assert (Hw : (1 <= wt (fst ch) x)%nat).
  { unfold wt, splaces. rewrite occ_app. pose proof (occ_map_in ch _ Hc). lia. }
  pose proof (occ_le_1 s (fst ch) K) as L1.
  destruct Hcase as [[Hne H1]|[[<- H2]|[H3|H4]]].
  - pose proof (wsum_ge2 (fst ch) _ _ _ _ _ Hne Hl Hx). lia.
  - unfold sthr_at in Hl, Hx. rewrite Hl in Hx. inversion Hx; subst.
    pose proof (wsum_ge (fst ch) _ _ _ Hl). lia.
  - pose proof (wsum_ge (fst ch) _ _ _ Hx). lia.
  - pose proof (wsum_ge (fst ch) _ _ _ Hx).
    assert (fst ch < snew s) by (apply occ_lt_new; [assumption|lia]). lia.
Qed.

Ltac stack_same := cbn [sset sset_thr shead slive sused sdata snext sstk sthr sact snew];
  lazymatch goal with
  | |- forall x : N, (_ = _)%nat => idtac
  | |- forall p : spcT, _ => idtac
  | |- forall a : N, pnode _ = _ -> _ => idtac
  | |- forall (t' : nat) (x : slocal), _ => try (intros; reflexivity)
  | _ => try reflexivity; try assumption; try exact I
  end.

Theorem sstep_kinv : forall s t k, KInv s -> KInv (fst (sstep c s t k)).
Proof.
  intros s t k K. unfold sstep.
  destruct (nth_error (sthr s) t) as [l|] eqn:Hl; [|exact K].
  assert (Hat : sthr_at s t l) by exact Hl.
  destruct (k_thr s K _ _ Hat) as (Hpc & Hact).
  pose proof K as K0. destruct K as [Kch Knd Klv Kus Kth Kdj Koc].
  destruct l as [p ca he]. cbn [spc scache sheld] in *.
  destruct p.
  - (* SIdle *)
    destruct k.
    + exact K0.
    + (* SAlloc *)
      destruct ca as [|ch ca'].
      * cbn [fst].
        eapply kinv_frame with (t := t) (l := {| spc := SIdle; scache := []; sheld := he |})
                               (l' := smk SPopStart [] he); [exact K0|exact Hat|..]; stack_same.
        -- intros q Hq _. eapply spc_ok_same; [..|exact Hq]; reflexivity.
        -- intros a Ha. discriminate.
        -- intros x. rewrite wt_mk, wt_rec. unfold cstk. cbn [sset sdata sstk sinflight]. lia.
      * cbn [fst].
        eapply kinv_frame with (t := t) (l := {| spc := SIdle; scache := ch :: ca'; sheld := he |})
                               (l' := smk SIdle ca' (he ++ [ch])); [exact K0|exact Hat|..]; stack_same.
        -- intros c' Hc'. cbn [smk sheld] in Hc'. rewrite in_app_iff in Hc'. unfold upd_o.
           destruct Hc' as [Hc'|[<-|[]]]; [|rewrite N.eqb_refl; reflexivity].
           destruct (N.eqb_spec (fst c') (fst ch)) as [E|_]; [|auto].
           exfalso. eapply (held_unique s t _ t _ c' (fst ch) K0 Hat Hat Hc'); [|exact E].
           right. left. split; [reflexivity|]. rewrite wt_rec. cbn [map occ fst]. rewrite N.eqb_refl.
           pose proof (occ_map_in c' he Hc'). rewrite E in H. cbn [b2n]. lia.
        -- intros q Hq _. eapply spc_ok_same; [..|exact Hq]; reflexivity.
        -- intros t' x c' Hne Hx Hc'. unfold upd_o.
           destruct (N.eqb_spec (fst c') (fst ch)) as [E|_]; [|reflexivity].
           exfalso. eapply (held_unique s t _ t' x c' (fst ch) K0 Hat Hx Hc'); [|exact E].
           left. split; [assumption|]. rewrite wt_rec. cbn [map occ fst]. rewrite N.eqb_refl. cbn [b2n]. lia.
        -- intros a Ha. discriminate.
        -- intros x. rewrite wt_mk, wt_rec, occ_snoc. unfold cstk. cbn [sset sdata sstk sinflight map occ fst]. lia.
    + (* SFree id a *)
      destruct (take_id id he) as [[ch he']|] eqn:Ht; [|exact K0].
      destruct (take_id_spec _ _ _ _ Ht) as (Hin & Hid & Hsub & Hocc).
      rewrite (Hact ch Hin). rewrite N.eqb_refl. cbn [negb].
      assert (Hown : forall c', In c' he' -> fst c' <> fst ch).
      { intros c' Hc' E. eapply (held_unique s t _ t _ c' (fst ch) K0 Hat Hat (Hsub _ Hc')); [|exact E].
        right. left. split; [reflexivity|]. rewrite wt_rec, Hocc. rewrite N.eqb_refl.
        pose proof (occ_map_in c' he' Hc'). rewrite E in H. cbn [b2n]. lia. }
      assert (Hoth : forall t' x c', t <> t' -> sthr_at s t' x -> In c' (sheld x) -> fst c' <> fst ch).
      { intros t' x c' Hne Hx Hc' E. eapply (held_unique s t _ t' x c' (fst ch) K0 Hat Hx Hc'); [|exact E].
        left. split; [assumption|]. rewrite wt_rec. pose proof (occ_map_in ch he Hin). lia. }
      assert (Hact' : forall c', In c' he' -> upd_o (sact s) (fst ch) None (fst c') = Some (snd c')).
      { intros c' Hc'. unfold upd_o. destruct (N.eqb_spec (fst c') (fst ch)) as [E|_]; [exfalso; exact (Hown _ Hc' E)|].
        apply Hact. apply Hsub. assumption. }
      destruct (nlen ca <? s_lcache c).
      * (* back into the local cache *)
        cbn [fst].
        eapply kinv_frame with (t := t) (l := {| spc := SIdle; scache := ca; sheld := he |})
                               (l' := smk SIdle (ch :: ca) he'); [exact K0|exact Hat|..]; stack_same.
        -- intros q Hq _. eapply spc_ok_same; [..|exact Hq]; reflexivity.
        -- intros t' x c' Hne Hx Hc'. unfold upd_o.
           destruct (N.eqb_spec (fst c') (fst ch)) as [E|_]; [exfalso; exact (Hoth _ _ _ Hne Hx Hc' E)|reflexivity].
        -- intros a0 Ha. discriminate.
        -- intros x. rewrite wt_mk, wt_rec, Hocc. unfold cstk. cbn [sset sdata sstk sinflight map occ fst]. lia.
      * destruct (node_ok c s a) eqn:Hno; [|exact K0].
        unfold node_ok in Hno. rewrite Hnr in Hno. cbn [orb] in Hno.
        apply Bool.andb_true_iff in Hno. destruct Hno as [Hno Hnu].
        apply Bool.andb_true_iff in Hno. destruct Hno as [Hn0 Hnl].
        apply Bool.negb_true_iff in Hn0, Hnl, Hnu. apply N.eqb_neq in Hn0.
        assert (Hnst : ~ In a (sstk s)) by (intro Hi; apply Klv in Hi; congruence).
        cbn [fst].
        eapply kinv_frame with (t := t) (l := {| spc := SIdle; scache := ca; sheld := he |})
                               (l' := smk (SPushStart a ch) ca he'); [exact K0|exact Hat|..]; stack_same.
        -- eapply lchain_ext; [|exact Kch]. intros x Hx. unfold upd_o.
           destruct (N.eqb_spec x a) as [->|]; [contradiction|reflexivity].
        -- intros x Hx. unfold upd_o. destruct (N.eqb_spec x a); [reflexivity|auto].
        -- intros x. unfold upd_o. destruct (N.eqb_spec x a); [reflexivity|auto].
        -- cbn [smk spc spc_ok sset slive sstk sdata]. unfold upd_o. rewrite N.eqb_refl. auto.
        -- intros q Hq _. eapply spc_ok_alloc with (s := s) (a := a); try exact Hq; cbn [sset slive sused sdata snext sstk]; auto.
           intros x Hx. unfold upd_o. apply N.eqb_neq in Hx. rewrite Hx. auto.
        -- intros t' x c' Hne Hx Hc'. unfold upd_o.
           destruct (N.eqb_spec (fst c') (fst ch)) as [E|_]; [exfalso; exact (Hoth _ _ _ Hne Hx Hc' E)|reflexivity].
        -- intros a0 Ha. cbn [smk spc pnode] in Ha. inversion Ha; subst a0. right.
           intros t' x Hne Hx Hp. destruct (Kth _ _ Hx) as (Hq & _).
           destruct (spc x); cbn in Hp; try discriminate; inversion Hp; subst; cbn in Hq; intuition congruence.
        -- intros x. rewrite wt_mk, wt_rec, Hocc. unfold cstk. cbn [sset sdata sstk sinflight map occ fst].
           rewrite (cstk_data_ext x (sdata s) (upd_o (sdata s) a ch) (sstk s)).
           ++ lia.
           ++ intros b Hb. unfold upd_o. destruct (N.eqb_spec b a) as [->|]; [contradiction|reflexivity].
  - (* SPopStart *)
    destruct (N.eqb_spec (shead s) 0) as [He|Hne].
    + (* a new chunk *)
      cbn [fst].
      eapply kinv_frame with (t := t) (l := {| spc := SPopStart; scache := ca; sheld := he |})
                             (l' := smk SIdle ca (he ++ [(snew s, sgen s)])); [exact K0|exact Hat|..]; stack_same.
      * intros c' Hc'. cbn [smk sheld] in Hc'. rewrite in_app_iff in Hc'. unfold upd_o. cbn [fst snd].
        destruct Hc' as [Hc'|[<-|[]]]; [|cbn [fst snd]; rewrite N.eqb_refl; reflexivity].
        destruct (N.eqb_spec (fst c') (snew s)) as [E|_]; [|auto].
        exfalso. eapply (held_unique s t _ t _ c' (snew s) K0 Hat Hat Hc'); [|exact E].
        right. right. right. lia.
      * intros q Hq _. eapply spc_ok_same; [..|exact Hq]; reflexivity.
      * intros t' x c' Hn Hx Hc'. unfold upd_o. cbn [fst].
        destruct (N.eqb_spec (fst c') (snew s)) as [E|_]; [|reflexivity].
        exfalso. eapply (held_unique s t _ t' x c' (snew s) K0 Hat Hx Hc'); [|exact E].
        right. right. right. lia.
      * intros a0 Ha. discriminate.
      * intros x. rewrite wt_mk, wt_rec, occ_snoc. unfold cstk. cbn [sset sdata sstk sinflight map occ fst snew].
        rewrite b2n_ltb_succ. lia.
    + cbn [fst].
      destruct (lchain_head _ _ _ _ Kch Hne) as (r & Er & _).
      assert (Hhin : In (shead s) (sstk s)) by (rewrite Er; left; reflexivity).
      eapply kinv_frame with (t := t) (l := {| spc := SPopStart; scache := ca; sheld := he |})
                             (l' := smk (SPopLoaded (shead s)) ca he); [exact K0|exact Hat|..]; stack_same.
      * cbn. split; [assumption|]. split; [apply Kus, Klv; assumption|left; assumption].
      * intros q Hq _. eapply spc_ok_same; [..|exact Hq]; reflexivity.
      * intros a0 Ha. discriminate.
      * intros x. rewrite wt_mk, wt_rec. unfold cstk. cbn [sset_thr sset sdata sstk sinflight]. lia.
  - (* SPopLoaded *)
    cbn [fst]. cbn in Hpc. destruct Hpc as (H1 & H2 & H3).
    eapply kinv_frame with (t := t) (l := {| spc := SPopLoaded h; scache := ca; sheld := he |})
                           (l' := smk (SPopRead h (snext s h)) ca he); [exact K0|exact Hat|..]; stack_same.
    + cbn. auto.
    + intros q Hq _. eapply spc_ok_same; [..|exact Hq]; reflexivity.
    + intros a0 Ha. discriminate.
    + intros x. rewrite wt_mk, wt_rec. unfold cstk. cbn [sset sdata sstk sinflight]. lia.
  - (* SPopRead *)
    cbn in Hpc. destruct Hpc as (H1 & H2 & H3 & H4).
    destruct (N.eqb_spec (shead s) h) as [He|Hne].
    + cbn [fst].
      destruct (lchain_head _ _ _ _ Kch) as (r & Er & Hr); [rewrite He; assumption|].
      rewrite He in Er, Hr.
      assert (Hhin : In h (sstk s)) by (rewrite Er; left; reflexivity).
      rewrite (H4 Hhin) in Hr.
      pose proof Knd as Knd'. rewrite Er in Knd'. assert (Hnr0 : ~ In h r /\ NoDup r) by (inversion Knd'; auto). destruct Hnr0 as [Hnr0 Hndr].
      assert (Hstk1 : forall x, (cstk x s = b2n (N.eqb (fst (sdata s h)) x) + occ x (map (fun a => fst (sdata s a)) r))%nat).
      { intros x. unfold cstk. rewrite Er. reflexivity. }
      eapply kinv_frame with (t := t) (l := {| spc := SPopRead h n; scache := ca; sheld := he |})
                             (l' := smk SIdle ca (he ++ [sdata s h])); [exact K0|exact Hat|..]; stack_same; rewrite ?Er; cbn [tl].
      * assumption.
      * assumption.
      * intros a0 Ha. unfold upd_o. destruct (N.eqb_spec a0 h) as [->|]; [contradiction|].
        apply Klv. rewrite Er. right. assumption.
      * intros a0. unfold upd_o. destruct (N.eqb_spec a0 h); [discriminate|auto].
      * intros c' Hc'. cbn [smk sheld] in Hc'. rewrite in_app_iff in Hc'. unfold upd_o.
        destruct Hc' as [Hc'|[<-|[]]]; [|rewrite N.eqb_refl; reflexivity].
        destruct (N.eqb_spec (fst c') (fst (sdata s h))) as [E|_]; [|auto].
        exfalso. eapply (held_unique s t _ t _ c' (fst (sdata s h)) K0 Hat Hat Hc'); [|exact E].
        right. right. left. rewrite Hstk1, N.eqb_refl. cbn [b2n]. lia.
      * intros q Hq _. eapply spc_ok_popped with (s := s) (h := h) (r := r); try exact Hq; try reflexivity; assumption.
      * intros t' x c' Hn Hx Hc'. unfold upd_o.
        destruct (N.eqb_spec (fst c') (fst (sdata s h))) as [E|_]; [|reflexivity].
        exfalso. eapply (held_unique s t _ t' x c' (fst (sdata s h)) K0 Hat Hx Hc'); [|exact E].
        right. right. left. rewrite Hstk1, N.eqb_refl. cbn [b2n]. lia.
      * intros a0 Ha. discriminate.
      * intros x. rewrite wt_mk, wt_rec, occ_snoc, Hstk1. unfold cstk. cbn [sset sdata sstk sinflight map occ]. lia.
    + cbn [fst].
      eapply kinv_frame with (t := t) (l := {| spc := SPopRead h n; scache := ca; sheld := he |})
                             (l' := smk SPopStart ca he); [exact K0|exact Hat|..]; stack_same.
      * intros q Hq _. eapply spc_ok_same; [..|exact Hq]; reflexivity.
      * intros a0 Ha. discriminate.
      * intros x. rewrite wt_mk, wt_rec. unfold cstk. cbn [sset_thr sset sdata sstk sinflight]. lia.
  - (* SPushStart *)
    cbn [fst].
    eapply kinv_frame with (t := t) (l := {| spc := SPushStart a ch; scache := ca; sheld := he |})
                           (l' := smk (SPushLoaded a (shead s) ch) ca he); [exact K0|exact Hat|..]; stack_same.
    + intros q Hq _. eapply spc_ok_same; [..|exact Hq]; reflexivity.
    + intros a0 Ha. left. exact Ha.
    + intros x. rewrite wt_mk, wt_rec. unfold cstk. cbn [sset_thr sset sdata sstk sinflight]. lia.
  - (* SPushLoaded: the link of the node in flight is written *)
    cbn [fst]. cbn in Hpc. destruct Hpc as (H1 & H2 & H3 & H4).
    eapply kinv_frame with (t := t) (l := {| spc := SPushLoaded a h ch; scache := ca; sheld := he |})
                           (l' := smk (SPushWritten a h ch) ca he); [exact K0|exact Hat|..]; stack_same.
    + eapply lchain_ext; [|exact Kch]. intros x Hx. unfold upd_o.
      destruct (N.eqb_spec x a) as [->|]; [contradiction|reflexivity].
    + cbn. unfold upd_o. rewrite N.eqb_refl. auto.
    + intros q Hq Hd. eapply spc_ok_link with (s := s) (a := a) (v := h); try exact Hq; try reflexivity; [assumption|].
      apply Hd. reflexivity.
    + intros a0 Ha. left. exact Ha.
    + intros x. rewrite wt_mk, wt_rec. unfold cstk. cbn [sset sdata sstk sinflight]. lia.
  - (* SPushWritten *)
    cbn in Hpc. destruct Hpc as (H1 & H2 & H3 & H4 & H5).
    destruct (N.eqb_spec (shead s) h) as [He|Hne].
    + cbn [fst].
      eapply kinv_frame with (t := t) (l := {| spc := SPushWritten a h ch; scache := ca; sheld := he |})
                             (l' := smk SIdle ca he); [exact K0|exact Hat|..]; stack_same.
      * cbn [lchain]. split; [reflexivity|]. split; [assumption|]. rewrite H5, <- He. exact Kch.
      * constructor; assumption.
      * intros a0 [<-|Ha]; [assumption|auto].
      * intros q Hq Hd. eapply spc_ok_pushed with (s := s) (a := a); try exact Hq; try reflexivity; try assumption.
        apply Hd. reflexivity.
      * intros a0 Ha. discriminate.
      * intros x. rewrite wt_mk, wt_rec. unfold cstk. cbn [sset sdata sstk sinflight map occ]. rewrite H4. lia.
    + cbn [fst].
      eapply kinv_frame with (t := t) (l := {| spc := SPushWritten a h ch; scache := ca; sheld := he |})
                             (l' := smk (SPushStart a ch) ca he); [exact K0|exact Hat|..]; stack_same.
      * cbn. auto.
      * intros q Hq _. eapply spc_ok_same; [..|exact Hq]; reflexivity.
      * intros a0 Ha. left. exact Ha.
      * intros x. rewrite wt_mk, wt_rec. unfold cstk. cbn [sset_thr sset sdata sstk sinflight]. lia.
Qed.

End SSTEP.
