(* C08: the invariant of the fixed-capacity pool's per-class generation-tagged free lists and
   the frame lemmas used by the step proofs, for any number of threads. *)
From ZV.Common Require Import Base.
From ZV.C08 Require Import Model ProofsInv ProofsChain ModelFixedCap.
Open Scope N_scope.

(* ---------- thread table ---------- *)
Lemma fupd_same : forall l t x y, nth_error l t = Some y -> nth_error (upd_fthr l t x) t = Some x.
Proof.
  induction l as [|a l IH]; intros [|t] x y H; cbn in *; try discriminate; auto.
  eapply IH; eauto.
Qed.
Lemma fupd_other : forall l t t' x, t <> t' -> nth_error (upd_fthr l t x) t' = nth_error l t'.
Proof.
  induction l as [|a l IH]; intros [|t] [|t'] x H; cbn; auto; try congruence.
Qed.
Lemma fupd_id : forall l t x, nth_error l t = Some x -> upd_fthr l t x = l.
Proof.
  induction l as [|a l IH]; intros [|t] x H; cbn in *; try discriminate.
  - inversion H; reflexivity.
  - f_equal. auto.
Qed.

Fixpoint fcnt (f : fpc -> bool) (l : list flocal) : nat :=
  match l with [] => 0%nat | x :: r => (b2n (f (fpcv x)) + fcnt f r)%nat end.
Lemma fcnt_upd : forall f l t x y, nth_error l t = Some y ->
  (fcnt f (upd_fthr l t x) + b2n (f (fpcv y)) = fcnt f l + b2n (f (fpcv x)))%nat.
Proof.
  induction l as [|a l IH]; intros [|t] x y H; cbn in *; try discriminate.
  - inversion H; subst. lia.
  - specialize (IH t x y H). lia.
Qed.
Lemma fcnt_all_idle : forall f l, f FIdle = false ->
  Forall (fun x => fpcv x = FIdle) l -> fcnt f l = 0%nat.
Proof.
  intros f l Hf H. induction H as [|x l Hx _ IH]; cbn; [reflexivity|].
  rewrite Hx, Hf, IH. reflexivity.
Qed.
Definition isFPushWon (i : nat) (p : fpc) : bool :=
  match p with FPushWon j => Nat.eqb j i | _ => false end.
Definition isFPopWon (i : nat) (p : fpc) : bool :=
  match p with FPopWon cs _ => Nat.eqb (hd O cs) i | _ => false end.

Lemma updf_same : forall A (f : nat -> A) i v, updf f i v i = v.
Proof. intros. unfold updf. rewrite Nat.eqb_refl. reflexivity. Qed.
Lemma updf_other : forall A (f : nat -> A) i j v, j <> i -> updf f i v j = f j.
Proof. intros. unfold updf. destruct (Nat.eqb_spec j i); [contradiction|reflexivity]. Qed.

Section FINV.
Variable c : fcfg.
Hypothesis Hbs : 0 < fc_bs c.
Hypothesis Htot : fc_total c * fc_bs c <= W32 - 1.

Notation chain := (lchain FC_TAIL).

Definition fthr_at (s : fstate) (t : nat) (l : flocal) : Prop := nth_error (fthr s) t = Some l.

Definition fpc_ok (s : fstate) (p : fpc) : Prop :=
  match p with
  | FPopLoaded cs h g => g <= fgen s (hd O cs) /\ h <> FC_TAIL /\ (g = fgen s (hd O cs) -> fhead s (hd O cs) = h)
  | FPopRead cs h g n => g <= fgen s (hd O cs) /\ h <> FC_TAIL /\
                         (g = fgen s (hd O cs) -> fhead s (hd O cs) = h /\ fnext s h = n)
  | FPushLoaded b ci h g => g <= fgen s ci
  | FPushWritten b ci h g => g <= fgen s ci /\ fnext s b = h
  | _ => True
  end.

Definition fblk_ok (s : fstate) (b : N) : Prop := fblock c b /\ forall i, ~ In b (ffl s i).

Record FInv (s : fstate) : Prop := {
  fi_chain : forall i, chain (fnext s) (fhead s i) (ffl s i);
  fi_nodup : forall i, NoDup (ffl s i);
  fi_sep : forall i j b, i <> j -> In b (ffl s i) -> ~ In b (ffl s j);
  fi_gen : forall i, fgen s i <= fnc s;
  fi_fl : forall i b, In b (ffl s i) -> fblock c b;
  fi_thr : forall t l, fthr_at s t l ->
             NoDup (fholds l) /\ (forall b, In b (fholds l) -> fblk_ok s b) /\ fpc_ok s (fpcv l);
  fi_disj : forall t1 t2 l1 l2 b, t1 <> t2 -> fthr_at s t1 l1 -> fthr_at s t2 l2 ->
             In b (fholds l1) -> ~ In b (fholds l2);
  fi_cons : forall b, fblock c b -> (exists i, In b (ffl s i)) \/ exists t l, fthr_at s t l /\ In b (fholds l);
  fi_cntlt : forall i, fcount s i < W32;
  fi_count : forall i, (fcount s i + N.of_nat (fcnt (isFPushWon i) (fthr s))) mod W32 =
                       (N.of_nat (length (ffl s i)) + N.of_nat (fcnt (isFPopWon i) (fthr s))) mod W32
}.

Lemma fblock_ne_tail : forall b, fblock c b -> b <> FC_TAIL.
Proof. intros b (k & Hk & ->). unfold FC_TAIL. nia. Qed.

(* ---------- the initial state ---------- *)
Definition fnext0 : N -> N := fun b => if b + fc_bs c <? fc_total c * fc_bs c then b + fc_bs c else FC_TAIL.

Lemma fc_blocks_chain : forall n start,
  start + N.of_nat (S n) * fc_bs c = fc_total c * fc_bs c ->
  chain fnext0 start (fc_blocks (S n) start (fc_bs c)).
Proof.
  induction n as [|n IH]; intros start H.
  - cbn [fc_blocks lchain]. split; [reflexivity|]. split; [unfold FC_TAIL; lia|].
    unfold fnext0. destruct (N.ltb_spec (start + fc_bs c) (fc_total c * fc_bs c)); [lia|reflexivity].
  - change (fc_blocks (S (S n)) start (fc_bs c)) with (start :: fc_blocks (S n) (start + fc_bs c) (fc_bs c)).
    cbn [lchain]. split; [reflexivity|]. split; [unfold FC_TAIL; lia|].
    assert (E : fnext0 start = start + fc_bs c).
    { unfold fnext0. destruct (N.ltb_spec (start + fc_bs c) (fc_total c * fc_bs c)); [reflexivity|lia]. }
    rewrite E. apply IH. lia.
Qed.
Lemma fc_blocks_in : forall n start b, In b (fc_blocks n start (fc_bs c)) ->
  exists k, k < N.of_nat n /\ b = start + k * fc_bs c.
Proof.
  induction n as [|n IH]; intros start b H; cbn in H; [contradiction|].
  destruct H as [<-|H]; [exists 0; lia|].
  destruct (IH _ _ H) as (k & Hk & ->). exists (k + 1). lia.
Qed.
Lemma fc_blocks_has : forall n start k, k < N.of_nat n -> In (start + k * fc_bs c) (fc_blocks n start (fc_bs c)).
Proof.
  induction n as [|n IH]; intros start k H; [lia|]. cbn [fc_blocks].
  destruct (N.eq_dec k 0) as [->|Hk]; [left; lia|]. right.
  replace (start + k * fc_bs c) with ((start + fc_bs c) + (k - 1) * fc_bs c) by nia.
  apply IH. lia.
Qed.
Lemma fc_blocks_nodup : forall n start, NoDup (fc_blocks n start (fc_bs c)).
Proof.
  induction n as [|n IH]; intros start; cbn; constructor; [|apply IH].
  intro H. destruct (fc_blocks_in _ _ _ H) as (k & _ & E). nia.
Qed.
Lemma fc_blocks_len : forall n start bs, length (fc_blocks n start bs) = n.
Proof. induction n; intros; cbn; auto. Qed.

Lemma finit_inv : forall n, 0 < fc_total c -> FInv (finit n c).
Proof.
  intros n Hpos.
  assert (Hth : forall t l, nth_error (repeat {| fpcv := FIdle; fheld := [] |} n) t = Some l ->
                            l = {| fpcv := FIdle; fheld := [] |}).
  { intros t l H. apply nth_error_In in H. apply repeat_spec in H. assumption. }
  assert (Hcnt : forall f, f FIdle = false -> fcnt f (repeat {| fpcv := FIdle; fheld := [] |} n) = 0%nat).
  { intros f Hf. clear Hth. induction n as [|m IH]; cbn; [reflexivity|]. rewrite Hf. cbn. apply IH. }
  assert (Hn : exists m, N.to_nat (fc_total c) = S m /\ N.of_nat (S m) = fc_total c).
  { exists (pred (N.to_nat (fc_total c))). split; lia. }
  destruct Hn as (m & Em & Em').
  constructor; cbn [finit fhead fgen fcount fmagic fnext fthr ffl fnc].
  - intros i. destruct (Nat.eqb i (pred (fc_ncls c))).
    + rewrite Em. apply fc_blocks_chain. lia.
    + reflexivity.
  - intros i. destruct (Nat.eqb i (pred (fc_ncls c))); [apply fc_blocks_nodup|constructor].
  - intros i j b Hne Hi Hj.
    destruct (Nat.eqb_spec i (pred (fc_ncls c))), (Nat.eqb_spec j (pred (fc_ncls c))); try contradiction; congruence.
  - intros i. lia.
  - intros i b Hb. destruct (Nat.eqb i (pred (fc_ncls c))); [|contradiction].
    destruct (fc_blocks_in _ _ _ Hb) as (k & Hk & ->). exists k. split; lia.
  - intros t l H. apply Hth in H. subst. cbn. split; [constructor|]. split; [tauto|exact I].
  - intros t1 t2 l1 l2 b _ H1 _. apply Hth in H1. subst. cbn. tauto.
  - intros b (k & Hk & ->). left. exists (pred (fc_ncls c)). rewrite Nat.eqb_refl.
    replace (k * fc_bs c) with (0 + k * fc_bs c) by lia. apply fc_blocks_has. lia.
  - intros i. destruct (Nat.eqb i (pred (fc_ncls c))); unfold W32, FC_TAIL in *; nia.
  - intros i. rewrite !Hcnt by reflexivity.
    destruct (Nat.eqb i (pred (fc_ncls c))); [|reflexivity].
    rewrite fc_blocks_len. f_equal. lia.
Qed.

(* ---------- the general frame: what a step must establish ---------- *)
Lemma finv_frame : forall s s' t l l',
  FInv s -> fthr_at s t l -> fthr s' = upd_fthr (fthr s) t l' ->
  (forall i, chain (fnext s') (fhead s' i) (ffl s' i)) ->
  (forall i, NoDup (ffl s' i)) ->
  (forall i j b, i <> j -> In b (ffl s' i) -> ~ In b (ffl s' j)) ->
  (forall i, fgen s' i <= fnc s') ->
  (forall i b, In b (ffl s' i) -> fblock c b) ->
  NoDup (fholds l') -> (forall b, In b (fholds l') -> fblk_ok s' b) -> fpc_ok s' (fpcv l') ->
  (forall b, fblk_ok s b -> ~ In b (fholds l) -> fblk_ok s' b) ->
  (forall x, (forall b, In b (fholds x) -> fblk_ok s b /\ ~ In b (fholds l)) ->
             fpc_ok s (fpcv x) -> fpc_ok s' (fpcv x)) ->
  (forall b, In b (fholds l') -> In b (fholds l) \/ ~ fblk_ok s b) ->
  (forall i b, In b (ffl s i) -> (exists j, In b (ffl s' j)) \/ In b (fholds l')) ->
  (forall b, In b (fholds l) -> (exists j, In b (ffl s' j)) \/ In b (fholds l')) ->
  (forall i, fcount s' i < W32) ->
  (forall i, (fcount s' i + N.of_nat (fcnt (isFPushWon i) (fthr s'))) mod W32 =
             (N.of_nat (length (ffl s' i)) + N.of_nat (fcnt (isFPopWon i) (fthr s'))) mod W32) ->
  FInv s'.
Proof.
  intros s s' t l l' I Hl Hthr Hch Hnd Hsep Hg Hfl Hnd' Hblk Hpc Hoth Hopc Hnew Hflmv Hhmv Hclt Hcnt.
  destruct I as [Ich Ind Isep Ig Ifl Ith Idj Ico Icl Icn].
  assert (Hother : forall t' x, t <> t' -> fthr_at s t' x ->
                   forall b, In b (fholds x) -> fblk_ok s b /\ ~ In b (fholds l)).
  { intros t' x Hne Hx b Hbx. split.
    - destruct (Ith _ _ Hx) as (_ & H & _). auto.
    - intro Hbl. exact (Idj _ _ _ _ _ Hne Hl Hx Hbl Hbx). }
  constructor; auto.
  - intros t' x Hat. unfold fthr_at in Hat. rewrite Hthr in Hat.
    destruct (Nat.eq_dec t t') as [<-|Hne].
    + erewrite fupd_same in Hat by eassumption. inversion Hat; subst. auto.
    + rewrite fupd_other in Hat by assumption.
      destruct (Ith _ _ Hat) as (H1 & H2 & H3). split; [assumption|]. split.
      * intros b Hbx. destruct (Hother _ _ Hne Hat b Hbx). auto.
      * apply Hopc; [|assumption]. intros b Hbx. exact (Hother _ _ Hne Hat b Hbx).
  - intros t1 t2 l1 l2 b Hne H1 H2 Hb1 Hb2.
    unfold fthr_at in H1, H2. rewrite Hthr in H1, H2.
    destruct (Nat.eq_dec t t1) as [<-|N1]; destruct (Nat.eq_dec t t2) as [<-|N2]; try congruence.
    + erewrite fupd_same in H1 by eassumption. inversion H1; subst.
      rewrite fupd_other in H2 by assumption.
      destruct (Hother _ _ Hne H2 b Hb2) as [Hok Hnl].
      destruct (Hnew b Hb1) as [Hin|Hno]; tauto.
    + erewrite fupd_same in H2 by eassumption. inversion H2; subst.
      rewrite fupd_other in H1 by assumption.
      destruct (Hother _ _ N1 H1 b Hb1) as [Hok Hnl].
      destruct (Hnew b Hb2) as [Hin|Hno]; tauto.
    + rewrite fupd_other in H1, H2 by assumption. exact (Idj _ _ _ _ _ Hne H1 H2 Hb1 Hb2).
  - intros b Hc.
    assert (Hat0 : fthr_at s' t l').
    { unfold fthr_at. rewrite Hthr. eapply fupd_same; eassumption. }
    destruct (Ico b Hc) as [(i & Hf)|(t' & x & Hx & Hbx)].
    + destruct (Hflmv i b Hf); [left; assumption|right; eauto].
    + destruct (Nat.eq_dec t t') as [<-|Hne].
      * unfold fthr_at in Hx, Hl. rewrite Hl in Hx. inversion Hx; subst.
        destruct (Hhmv b Hbx); [left; assumption|right; eauto].
      * right. exists t', x. split; [|assumption]. unfold fthr_at. rewrite Hthr.
        rewrite fupd_other by assumption. assumption.
Qed.

(* the two counting functions after the moving thread changed its program counter *)
Lemma fcnt_move : forall f s s' t l l', fthr_at s t l -> fthr s' = upd_fthr (fthr s) t l' ->
  (fcnt f (fthr s') + b2n (f (fpcv l)) = fcnt f (fthr s) + b2n (f (fpcv l')))%nat.
Proof. intros f s s' t l l' Hl ->. apply fcnt_upd. exact Hl. Qed.

(* ---------- steps that leave heads, lists, generations and counts alone ---------- *)
(* the moving thread keeps the same set of blocks; memory may change at blocks that it holds *)
Lemma finv_quiet : forall s s' t l l',
  FInv s -> fthr_at s t l -> fthr s' = upd_fthr (fthr s) t l' ->
  fhead s' = fhead s -> fgen s' = fgen s -> fcount s' = fcount s -> ffl s' = ffl s -> fnc s' = fnc s ->
  (forall b, ~ In b (fholds l) -> fnext s' b = fnext s b) ->
  (forall b, In b (fholds l') <-> In b (fholds l)) -> NoDup (fholds l') ->
  fpc_ok s' (fpcv l') ->
  (forall i, isFPushWon i (fpcv l') = isFPushWon i (fpcv l)) ->
  (forall i, isFPopWon i (fpcv l') = isFPopWon i (fpcv l)) ->
  FInv s'.
Proof.
  intros s s' t l l' I Hl Hthr Eh Eg Ec Ef En Hmem Hh Hnd Hpc Hw1 Hw2.
  pose proof I as I0. destruct I as [Ich Ind Isep Ig Ifl Ith Idj Ico Icl Icn].
  destruct (Ith _ _ Hl) as (_ & Hblk & _).
  assert (Hfree : forall i b, In b (ffl s i) -> ~ In b (fholds l)).
  { intros i b Hb Hin. destruct (Hblk b Hin) as (_ & Hno). exact (Hno i Hb). }
  eapply finv_frame with (t := t) (l := l) (l' := l'); try eassumption; rewrite ?Eh, ?Eg, ?Ec, ?Ef, ?En; auto.
  - intros i. eapply lchain_ext; [|apply Ich]. intros x Hx. symmetry. apply Hmem. eauto.
  - intros b Hb. apply Hh in Hb. destruct (Hblk b Hb) as (H1 & H2). split; [assumption|].
    rewrite Ef. assumption.
  - intros b (H1 & H2) _. split; [assumption|]. rewrite Ef. assumption.
  - intros x Hx Hp. destruct (fpcv x) eqn:Ep; cbn in *; rewrite ?Eh, ?Eg; auto.
    + destruct Hp as (Ha & Hb & Hc). split; [assumption|]. split; [assumption|].
      intros E. destruct (Hc E) as [Hhd Hn]. split; [assumption|].
      rewrite Hmem; [assumption|]. apply (Hfree (hd O cs)).
      destruct (lchain_head _ _ _ _ (Ich (hd O cs))) as (r & Er & _); [rewrite Hhd; assumption|].
      rewrite Er, Hhd. left. reflexivity.
    + destruct Hp as (Ha & Hb). split; [assumption|].
      rewrite Hmem; [assumption|].
      assert (Hbx : In b (fholds x)) by (unfold fholds; rewrite Ep; cbn; rewrite in_app_iff; cbn; tauto).
      destruct (Hx b Hbx) as [_ Hno]. exact Hno.
  - intros b Hb. left. apply Hh. assumption.
  - intros i b Hb. left. exists i. assumption.
  - intros b Hb. right. apply Hh. assumption.
  - intros i.
    pose proof (fcnt_move (isFPushWon i) _ _ _ _ _ Hl Hthr) as E1.
    pose proof (fcnt_move (isFPopWon i) _ _ _ _ _ Hl Hthr) as E2.
    rewrite Hw1 in E1. rewrite Hw2 in E2.
    replace (fcnt (isFPushWon i) (fthr s')) with (fcnt (isFPushWon i) (fthr s)) by lia.
    replace (fcnt (isFPopWon i) (fthr s')) with (fcnt (isFPopWon i) (fthr s)) by lia.
    apply Icn.
Qed.

End FINV.
