(* C08: the counters the two tagged-stack pools report, on top of the machine of Model.v.

   lockfree_pool.rs (LockFreePoolStats, enable_stats):  after a successful pop exchange, in the same
   step as bin.count.fetch_sub: fast_allocs += 1, cas_successes += 1; after a successful push
   exchange, with bin.count.fetch_add: fast_deallocs += 1, cas_successes += 1; on every failed
   exchange (pop or push): cas_failures += 1; after a successful carve: memory_usage += size.
   five_level_pool.rs LockFreePool: with head.count.fetch_sub / fetch_add:
   fragment_size.fetch_sub(size) / fetch_add(size) (AtomicUsize, wrapping).

   [xstep] runs [step] and applies exactly these updates, in the step of the code in which they
   happen (between the same two schedule points).  The counters are never read by the protocol.
   [g_*] are ghost: g_npush / g_npop count successful exchanges by kind, g_frees the accepted
   free commands, g_got the blocks handed to threads.  Definitions only. *)
From ZV.Common Require Import Base.
From ZV.C08 Require Import Model.
Open Scope N_scope.

Record stats := {
  fast_allocs : N; fast_deallocs : N; cas_ok : N; cas_fail : N; mem_usage : N;
  frag : N;                      (* five-level fragment_size, usize *)
  g_npush : N; g_npop : N; g_frees : N; g_got : N
}.
Definition stats0 : stats :=
  {| fast_allocs := 0; fast_deallocs := 0; cas_ok := 0; cas_fail := 0; mem_usage := 0; frag := 0;
     g_npush := 0; g_npop := 0; g_frees := 0; g_got := 0 |}.

Record xstate := { xs : state; xst : stats }.
Definition xinit (n : nat) (c : cfg) : xstate := {| xs := init n c; xst := stats0 |}.

Definition cas_won (ev : list (N * N)) : bool :=
  match ev with [(_, v)] => v =? 1 | _ => false end.

Definition stats_step (c : cfg) (s : state) (t : nat) (k : cmd) (ev : list (N * N)) (st : stats) : stats :=
  match nth_error (thr s) t with
  | None => st
  | Some l =>
    match pc l with
    | Idle =>
        match k with
        | CPush b | CPushZ b _ =>
            if mem_n b (held l)
            then {| fast_allocs := fast_allocs st; fast_deallocs := fast_deallocs st; cas_ok := cas_ok st;
                    cas_fail := cas_fail st; mem_usage := mem_usage st; frag := frag st;
                    g_npush := g_npush st; g_npop := g_npop st; g_frees := g_frees st + 1; g_got := g_got st |}
            else st
        | _ => st
        end
    | PopRead _ _ _ =>
        if cas_won ev
        then {| fast_allocs := fast_allocs st; fast_deallocs := fast_deallocs st; cas_ok := cas_ok st;
                cas_fail := cas_fail st; mem_usage := mem_usage st; frag := frag st;
                g_npush := g_npush st; g_npop := g_npop st + 1; g_frees := g_frees st; g_got := g_got st |}
        else {| fast_allocs := fast_allocs st; fast_deallocs := fast_deallocs st; cas_ok := cas_ok st;
                cas_fail := cas_fail st + 1; mem_usage := mem_usage st; frag := frag st;
                g_npush := g_npush st; g_npop := g_npop st; g_frees := g_frees st; g_got := g_got st |}
    | PushWritten _ _ _ =>
        if cas_won ev
        then {| fast_allocs := fast_allocs st; fast_deallocs := fast_deallocs st; cas_ok := cas_ok st;
                cas_fail := cas_fail st; mem_usage := mem_usage st; frag := frag st;
                g_npush := g_npush st + 1; g_npop := g_npop st; g_frees := g_frees st; g_got := g_got st |}
        else {| fast_allocs := fast_allocs st; fast_deallocs := fast_deallocs st; cas_ok := cas_ok st;
                cas_fail := cas_fail st + 1; mem_usage := mem_usage st; frag := frag st;
                g_npush := g_npush st; g_npop := g_npop st; g_frees := g_frees st; g_got := g_got st |}
    | PopWon _ =>
        {| fast_allocs := fast_allocs st + 1; fast_deallocs := fast_deallocs st; cas_ok := cas_ok st + 1;
           cas_fail := cas_fail st; mem_usage := mem_usage st; frag := (frag st + W64 - bsize c mod W64) mod W64;
           g_npush := g_npush st; g_npop := g_npop st; g_frees := g_frees st; g_got := g_got st + 1 |}
    | PushWon =>
        {| fast_allocs := fast_allocs st; fast_deallocs := fast_deallocs st + 1; cas_ok := cas_ok st + 1;
           cas_fail := cas_fail st; mem_usage := mem_usage st; frag := (frag st + bsize c) mod W64;
           g_npush := g_npush st; g_npop := g_npop st; g_frees := g_frees st; g_got := g_got st |}
    | PopEmpty | PopBump _ =>
        (* a block was carved in this step iff the bump offset moved *)
        if bump (fst (step c s t k)) =? bump s then st
        else {| fast_allocs := fast_allocs st; fast_deallocs := fast_deallocs st; cas_ok := cas_ok st;
                cas_fail := cas_fail st; mem_usage := mem_usage st + bsize c; frag := frag st;
                g_npush := g_npush st; g_npop := g_npop st; g_frees := g_frees st; g_got := g_got st + 1 |}
    | _ => st
    end
  end.

Definition xstep (c : cfg) (x : xstate) (t : nat) (k : cmd) : xstate * list (N * N) :=
  let '(s', ev) := step c (xs x) t k in
  ({| xs := s'; xst := stats_step c (xs x) t k ev (xst x) |}, ev).

Fixpoint xrun (c : cfg) (x : xstate) (sc : sched) : xstate :=
  match sc with
  | [] => x
  | (t, k) :: r => xrun c (fst (xstep c x t k)) r
  end.

Fixpoint xrun_trace (c : cfg) (x : xstate) (sc : sched) : xstate * list (N * N) :=
  match sc with
  | [] => (x, [])
  | (t, k) :: r =>
      let '(x1, ev) := xstep c x t k in
      let '(x2, ev2) := xrun_trace c x1 r in (x2, ev ++ ev2)
  end.

(* what the pools report: LockFreePoolStats of lockfree_pool.rs, fragment_size of five_level_pool.rs *)
Definition stats_obs (c : cfg) (st : stats) : list N :=
  if lfkind c then [fast_allocs st; fast_deallocs st; cas_ok st; cas_fail st; mem_usage st]
  else [frag st].

(* blocks in the hands of the threads, and threads inside a free *)
Fixpoint held_total (l : list local) : nat :=
  match l with [] => 0%nat | x :: r => (length (held x) + held_total r)%nat end.
