(* C08: the cases written by the harness (harness/src/c08.rs) and how the models are run on them.
   Definitions only. *)
From ZV.Common Require Import Base Run.
From ZV.C08 Require Import Model ModelFixedCap ModelStats ModelSecure ModelMemPool.
Open Scope N_scope.

Definition eqb_oln (a b : option (list N)) : bool :=
  match a, b with Some x, Some y => eqb_ln x y | None, None => true | _, _ => false end.
Fixpoint eqb_lln (a b : list (list N)) : bool :=
  match a, b with [] , [] => true | x :: a', y :: b' => eqb_ln x y && eqb_lln a' b' | _, _ => false end.
Fixpoint eqb_loln (a b : list (option (list N))) : bool :=
  match a, b with [] , [] => true | x :: a', y :: b' => eqb_oln x y && eqb_loln a' b' | _, _ => false end.

(* tagged single-bin stack: kind (0 lockfree_pool.rs, 1 five_level_pool.rs), block size, capacity,
   threads, schedule, observed hook notes (site, value flattened), final [head; count; bump],
   free list, held sets *)
Definition tag_case : Type :=
  N * N * N * nat * list (nat * cmd) * list N * list N * option (list N) * list (list N).
Definition ok_tag (c : tag_case) : bool :=
  let '(kind, bs, capacity, nthr, sc, notes, fin, free, helds) := c in
  let cf := if kind =? 0 then cfg_lockfree bs capacity else cfg_fivelevel bs capacity in
  let '(s, ev) := run_trace cf (init nthr cf) sc in
  let '(f1, f2, f3) := final_obs cf s 64 in
  eqb_ln (flat ev) notes && eqb_ln f1 fin && eqb_oln f2 free && eqb_lln f3 helds.

(* fixed_capacity_pool.rs (alignment 8): classes, block size, blocks, secure_clear, threads, schedule, notes,
   final [packed head; count] per class, free list per class, held sets,
   [allocations; deallocations; active_blocks; peak_blocks; allocation_failures] *)
Definition fc_case : Type :=
  nat * N * N * bool * nat * list (nat * fcmd) * list N * list N * list (option (list N)) *
  list (list N) * list N.
Definition ok_fc (c : fc_case) : bool :=
  let '(ncls, bs, total, clear, nthr, sc, notes, fin, frees, helds, stats) := c in
  let cf := fc_code ncls bs total clear csize8 in
  let '(s, ev) := frun_trace cf (finit nthr cf) sc in
  let '(f1, f2, f3, f4) := ffinal_obs cf s 80 in
  eqb_ln (flat ev) notes && eqb_ln f1 fin && eqb_loln f2 frees && eqb_lln f3 helds && eqb_ln f4 stats.

(* the same with the counters the pool reports at the end (ModelStats.stats_obs) *)
Definition tag2_case : Type := (tag_case * list N)%type.
Definition ok_tag2 (c2 : tag2_case) : bool :=
  let '(c, st) := c2 in
  let '(kind, bs, capacity, nthr, sc, notes, fin, free, helds) := c in
  let cf := if kind =? 0 then cfg_lockfree bs capacity else cfg_fivelevel bs capacity in
  let '(x, ev) := xrun_trace cf (xinit nthr cf) sc in
  let '(f1, f2, f3) := final_obs cf (xs x) 64 in
  eqb_ln (flat ev) notes && eqb_ln f1 fin && eqb_oln f2 free && eqb_lln f3 helds &&
  eqb_ln (stats_obs cf (xst x)) st.

(* secure_pool.rs: local_cache_size, threads, schedule (stack node addresses are the real ones, the
   allocator may reuse them), notes, chunks on the shared stack (serials, top first), held serials per
   thread, cached serials per thread (top first), [alloc_count; dealloc_count; pool_hits; pool_misses;
   local_cache_hits; cross_thread_steals; double_free_detected; active table size] *)
Definition sp_case : Type :=
  N * nat * list (nat * scmd) * list N * option (list N) * list (list N) * list (list N) * list N.
Definition ok_sp (c : sp_case) : bool :=
  let '(lcache, nthr, sc, notes, stack, helds, caches, counters) := c in
  let cf := {| s_lcache := lcache; s_reuse := true |} in
  let '(s, ev) := srun_trace cf (sinit nthr) sc in
  let '(f1, f2, f3, f4) := sfinal_obs s 200 in
  eqb_ln (flat ev) notes && eqb_oln f1 stack && eqb_lln f2 helds && eqb_lln f3 caches && eqb_ln f4 counters.

(* pool.rs MemoryPool: chunk_size, max_chunks, threads, schedule, notes, pooled chunks (serials, front
   first), held serials per thread, [allocated; alloc_count; dealloc_count; pool_hits; pool_misses; lock] *)
Definition mp_case : Type :=
  N * N * nat * list (nat * mcmd) * list N * list N * list (list N) * list N.
Definition ok_mp (c : mp_case) : bool :=
  let '(csize, maxc, nthr, sc, notes, queue, helds, counters) := c in
  let cf := {| m_csize := csize; m_max := maxc |} in
  let '(s, ev) := mrun_trace cf (minit nthr) sc in
  let '(f1, f2, f3) := mfinal_obs s in
  eqb_ln (flat ev) notes && eqb_ln f1 queue && eqb_lln f2 helds && eqb_ln f3 counters.

Inductive xcase :=
| XTag (c : tag_case)
| XTag2 (c : tag2_case)
| XFC (c : fc_case)
| XSP (c : sp_case)
| XMP (c : mp_case).

Definition xok (c : xcase) : bool :=
  match c with
  | XTag c => ok_tag c
  | XTag2 c => ok_tag2 c
  | XFC c => ok_fc c
  | XSP c => ok_sp c
  | XMP c => ok_mp c
  end.
