(* C08: three variants of the tagged-stack machine of Model.v, each a one-line change of the code
   that was seeded as a regression.  They are used for refutations only: they show that the
   corresponding detail of the code is necessary for the property.  Each variant runs [step] and
   then alters the result the way the changed code would.  Definitions only. *)
From ZV.Common Require Import Base.
From ZV.C08 Require Import Model.
Open Scope N_scope.

Inductive variant :=
| VResetGen      (* a pop that empties the list stores a plain LIST_TAIL word: generation 0 *)
| VCountEarly    (* free: count.fetch_add moved before the compare-exchange, inside the retry loop *)
| VZeroLate.     (* deallocate_with_zero: the block is pushed first and scrubbed afterwards *)

Definition with_gen (s : state) (g : N) : state :=
  {| head := head s; gen := g; nxt := nxt s; count := count s; bump := bump s; thr := thr s;
     fl := fl s; ncas := ncas s |}.
Definition with_count (s : state) (n : N) : state :=
  {| head := head s; gen := gen s; nxt := nxt s; count := n; bump := bump s; thr := thr s;
     fl := fl s; ncas := ncas s |}.
Definition with_nxt (s : state) (f : N -> N) : state :=
  {| head := head s; gen := gen s; nxt := f; count := count s; bump := bump s; thr := thr s;
     fl := fl s; ncas := ncas s |}.

Definition pc_of (s : state) (t : nat) : pcT :=
  match nth_error (thr s) t with Some l => pc l | None => Idle end.

(* VZeroLate needs to remember which pushes scrub: the schedule says so with CScribble b 0 given to
   the thread right after its push of b completed (the thread no longer owns b - the variant does
   not check ownership for this command, that is the point) *)
Definition vstep (v : variant) (c : cfg) (s : state) (t : nat) (k : cmd) : state :=
  let s' := fst (step c s t k) in
  match v with
  | VResetGen =>
      match pc_of s t with
      | PopRead h g n => if (head s =? h) && (gen s =? g) && (n =? tail c) then with_gen s' 0 else s'
      | _ => s'
      end
  | VCountEarly =>
      match pc_of s t with
      | PushLoaded _ _ _ => with_count s' ((count s + 1) mod W32)
      | PushWon => with_count s' (count s)
      | _ => s'
      end
  | VZeroLate =>
      match pc_of s t, k with
      | Idle, CScribble b _ => with_nxt s (upd_nxt (nxt s) b 0)
      | _, _ => s'
      end
  end.

Fixpoint vrun (v : variant) (c : cfg) (s : state) (sc : sched) : state :=
  match sc with
  | [] => s
  | (t, k) :: r => vrun v c (vstep v c s t k) r
  end.
