(* C08: the invariant of the generation-tagged free-list stack and its preservation by
   every step of every thread, for any number of threads. *)
From ZV.Common Require Import Base.
From ZV.C08 Require Import Model.
Open Scope N_scope.

(* ---------- thread table ---------- *)
Lemma upd_same : forall l t x y, nth_error l t = Some y -> nth_error (upd_thr l t x) t = Some x.
Proof.
  induction l as [|a l IH]; intros [|t] x y H; cbn in *; try discriminate; auto.
  eapply IH; eauto.
Qed.
Lemma upd_other : forall l t t' x, t <> t' -> nth_error (upd_thr l t x) t' = nth_error l t'.
Proof.
  induction l as [|a l IH]; intros [|t] [|t'] x H; cbn; auto; try congruence.
Qed.

Definition b2n (b : bool) : nat := if b then 1%nat else 0%nat.
Fixpoint cnt (f : pcT -> bool) (l : list local) : nat :=
  match l with [] => 0%nat | x :: r => (b2n (f (pc x)) + cnt f r)%nat end.
Lemma cnt_upd : forall f l t x y, nth_error l t = Some y ->
  (cnt f (upd_thr l t x) + b2n (f (pc y)) = cnt f l + b2n (f (pc x)))%nat.
Proof.
  induction l as [|a l IH]; intros [|t] x y H; cbn in *; try discriminate.
  - inversion H; subst. lia.
  - specialize (IH t x y H). lia.
Qed.
Definition isPushWon (p : pcT) : bool := match p with PushWon => true | _ => false end.
Definition isPopWon (p : pcT) : bool := match p with PopWon _ => true | _ => false end.
Lemma cnt_all_idle : forall f l, (forall p, p <> Idle -> True) -> f Idle = false ->
  Forall (fun x => pc x = Idle) l -> cnt f l = 0%nat.
Proof.
  intros f l _ Hf H. induction H as [|x l Hx _ IH]; cbn; [reflexivity|].
  rewrite Hx, Hf, IH. reflexivity.
Qed.

(* ---------- small list facts ---------- *)
Lemma mem_n_In : forall b l, mem_n b l = true <-> In b l.
Proof.
  induction l as [|x l IH]; cbn; [split; [discriminate|tauto]|].
  rewrite Bool.orb_true_iff, IH, N.eqb_eq. tauto.
Qed.
Lemma remove_n_In : forall b x l, In x (remove_n b l) -> In x l.
Proof.
  induction l as [|y l IH]; cbn; [tauto|].
  destruct (N.eqb_spec y b); cbn; tauto.
Qed.
Lemma remove_n_NoDup : forall b l, NoDup l -> NoDup (remove_n b l) /\ ~ In b (remove_n b l).
Proof.
  induction l as [|y l IH]; cbn; intros H; [split; [constructor|tauto]|].
  inversion H as [|? ? Hy Hl]; subst.
  destruct (N.eqb_spec y b) as [->|Hne]; [split; assumption|].
  destruct (IH Hl) as [H1 H2]. split.
  - constructor; [|assumption]. intro Hin. apply Hy. eapply remove_n_In; eauto.
  - cbn. intros [->|Hin]; [congruence|tauto].
Qed.
Lemma remove_n_keeps : forall b x l, In x l -> x <> b -> In x (remove_n b l).
Proof.
  induction l as [|y l IH]; cbn; [tauto|].
  intros [->|Hin] Hne.
  - destruct (N.eqb_spec x b); [congruence|left; reflexivity].
  - destruct (N.eqb_spec y b); [assumption|right; auto].
Qed.
Lemma NoDup_snoc : forall (l : list N) x, NoDup l -> ~ In x l -> NoDup (l ++ [x]).
Proof.
  induction l as [|y l IH]; cbn; intros x H Hx; [constructor; [tauto|constructor]|].
  inversion H; subst. constructor.
  - rewrite in_app_iff. cbn. intuition congruence.
  - apply IH; tauto.
Qed.
Lemma NoDup_app_l : forall (l r : list N), NoDup (l ++ r) -> NoDup l.
Proof.
  induction l as [|y l IH]; cbn; intros r H; [constructor|].
  inversion H; subst. constructor; [rewrite in_app_iff in *; tauto|eauto].
Qed.
Lemma NoDup_app_notin : forall (l : list N) x, NoDup (l ++ [x]) -> ~ In x l.
Proof.
  induction l as [|y l IH]; cbn; intros x H; [tauto|].
  inversion H as [|? ? Hy Hl]; subst. rewrite in_app_iff in Hy. cbn in Hy.
  intros [->|Hin]; [tauto|]. eapply IH; eauto.
Qed.

Section INV.
Variable c : cfg.
Hypothesis Htail : forall off, bump0 c <= off -> off + bsize c <= cap c -> off <> tail c.
Hypothesis Hbs : 0 < bsize c.

Fixpoint chain (f : N -> N) (h : N) (l : list N) : Prop :=
  match l with
  | [] => h = tail c
  | x :: r => h = x /\ x <> tail c /\ chain f (f x) r
  end.

Lemma chain_ext : forall f f' l h, (forall x, In x l -> f x = f' x) -> chain f h l -> chain f' h l.
Proof.
  induction l as [|x r IH]; cbn; intros h Hf H; [assumption|].
  destruct H as (H1 & H2 & H3). split; [assumption|]. split; [assumption|].
  rewrite <- Hf by tauto. apply IH; auto.
Qed.
Lemma chain_head : forall f h l, chain f h l -> h <> tail c -> exists r, l = h :: r /\ chain f (f h) r.
Proof.
  intros f h [|x r] H Hne; cbn in H; [contradiction|].
  destruct H as (-> & _ & H). eauto.
Qed.
Lemma chain_walk : forall f l h, chain f h l -> walk (length l) (tail c) f h = Some l.
Proof.
  induction l as [|x r IH]; cbn; intros h H.
  - subst. rewrite N.eqb_refl. reflexivity.
  - destruct H as (-> & Hne & H). apply N.eqb_neq in Hne. rewrite Hne.
    rewrite (IH _ H). reflexivity.
Qed.
Lemma walk_more : forall f n h l, walk n (tail c) f h = Some l -> walk (S n) (tail c) f h = Some l.
Proof.
  induction n as [|n IH]; intros h l H.
  - cbn in *. destruct (h =? tail c); [assumption|discriminate].
  - cbn in H. cbn. destruct (h =? tail c); [assumption|].
    destruct (walk n (tail c) f (f h)) eqn:E; [|discriminate].
    apply IH in E. cbn in E. rewrite E. assumption.
Qed.

Definition carved (s : state) (b : N) : Prop :=
  exists k, b = bump0 c + k * bsize c /\ b + bsize c <= cap c /\ b < bump s.

Definition thr_at (s : state) (t : nat) (l : local) : Prop := nth_error (thr s) t = Some l.

Definition pc_ok (s : state) (p : pcT) : Prop :=
  match p with
  | PopLoaded h g => g <= gen s /\ h <> tail c /\ (g = gen s -> head s = h)
  | PopRead h g n => g <= gen s /\ h <> tail c /\ (g = gen s -> head s = h /\ nxt s h = n)
  | PushLoaded b h g => g <= gen s
  | PushWritten b h g => g <= gen s /\ nxt s b = h
  | PopBump cur => cur + bsize c <= cap c
  | _ => True
  end.

Definition blk_ok (s : state) (b : N) : Prop := ~ In b (fl s) /\ b < bump s /\ b <> tail c.

Record Inv (s : state) : Prop := {
  i_chain : chain (nxt s) (head s) (fl s);
  i_nodup : NoDup (fl s);
  i_gen : gen s = ncas s;
  i_bump : exists m, bump s = bump0 c + m * bsize c;
  i_fl : forall b, In b (fl s) -> b < bump s;
  i_thr : forall t l, thr_at s t l ->
            NoDup (holds l) /\ (forall b, In b (holds l) -> blk_ok s b) /\ pc_ok s (pc l);
  i_disj : forall t1 t2 l1 l2 b, t1 <> t2 -> thr_at s t1 l1 -> thr_at s t2 l2 ->
            In b (holds l1) -> ~ In b (holds l2);
  i_cons : forall b, carved s b -> In b (fl s) \/ exists t l, thr_at s t l /\ In b (holds l);
  i_cntlt : count s < W32;
  i_count : (count s + N.of_nat (cnt isPushWon (thr s))) mod W32 =
            (N.of_nat (length (fl s)) + N.of_nat (cnt isPopWon (thr s))) mod W32
}.

Lemma chain_in_ne_tail : forall f l h b, chain f h l -> In b l -> b <> tail c.
Proof.
  induction l as [|x r IH]; cbn; intros h b H Hin; [contradiction|].
  destruct H as (_ & Hne & H). destruct Hin as [<-|Hin]; [assumption|eauto].
Qed.

Lemma init_inv : forall n, Inv (init n c).
Proof.
  intros n.
  assert (Hth : forall t l, nth_error (repeat {| pc := Idle; held := [] |} n) t = Some l ->
                            l = {| pc := Idle; held := [] |}).
  { intros t l H. apply nth_error_In in H. apply repeat_spec in H. assumption. }
  constructor; cbn.
  - reflexivity.
  - constructor.
  - reflexivity.
  - exists 0. lia.
  - tauto.
  - intros t l H. apply Hth in H. subst. cbn. split; [constructor|]. split; [tauto|exact I].
  - intros t1 t2 l1 l2 b _ H1 _. apply Hth in H1. subst. cbn. tauto.
  - intros b (k & Hb & _ & Hlt). cbn in Hlt. exfalso. nia.
  - unfold W32. lia.
  - assert (E : forall f, f Idle = false -> cnt f (repeat {| pc := Idle; held := [] |} n) = 0%nat).
    { intros f Hf. induction n as [|m IH]; cbn; [reflexivity|]. rewrite Hf. cbn. apply IH.
      intros t l H. apply (Hth (S t)). exact H. }
    rewrite !E by reflexivity. reflexivity.
Qed.

(* the part of the invariant that concerns threads other than the one that moved, when
   the free list only shrinks or stays, the generation does not decrease ... : handled
   case by case below with these two tactics *)
Ltac thr_cases Hat t t' :=
  unfold thr_at in Hat; cbn [thr set_thr] in Hat;
  destruct (Nat.eq_dec t t') as [<-|Hne];
  [ erewrite upd_same in Hat by eassumption; inversion Hat; subst; clear Hat
  | rewrite upd_other in Hat by assumption ].

(* ---------- steps that change only the moving thread's program counter ---------- *)
(* new local l' with the same holds; global state unchanged *)
Lemma inv_local : forall s t l l',
  Inv s -> thr_at s t l ->
  (forall b, In b (holds l') <-> In b (holds l)) -> NoDup (holds l') ->
  pc_ok s (pc l') ->
  isPushWon (pc l') = isPushWon (pc l) -> isPopWon (pc l') = isPopWon (pc l) ->
  Inv (set_thr s t l').
Proof.
  intros s t l l' I Hl Hh Hnd Hpc Hw1 Hw2.
  destruct I as [Ich Ind Ig Ib Ifl Ith Idj Ico Icl Icn].
  constructor; cbn [set_thr head gen nxt count bump fl ncas thr]; auto.
  - intros t' x Hat. thr_cases Hat t t'.
    + split; [assumption|]. split; [|assumption].
      intros b Hb. apply Hh in Hb. destruct (Ith _ _ Hl) as (_ & H & _). apply H in Hb. exact Hb.
    + destruct (Ith _ _ Hat) as (H1 & H2 & H3). split; [assumption|]. split; assumption.
  - intros t1 t2 l1 l2 b Hne H1 H2 Hb1 Hb2.
    unfold thr_at in H1, H2. cbn [thr set_thr] in H1, H2.
    destruct (Nat.eq_dec t t1) as [<-|N1]; destruct (Nat.eq_dec t t2) as [<-|N2]; try congruence.
    + erewrite upd_same in H1 by eassumption. inversion H1; subst.
      rewrite upd_other in H2 by assumption.
      apply Hh in Hb1. exact (Idj _ _ _ _ _ Hne Hl H2 Hb1 Hb2).
    + erewrite upd_same in H2 by eassumption. inversion H2; subst.
      rewrite upd_other in H1 by assumption.
      apply Hh in Hb2. exact (Idj _ _ _ _ _ Hne H1 Hl Hb1 Hb2).
    + rewrite upd_other in H1, H2 by assumption. exact (Idj _ _ _ _ _ Hne H1 H2 Hb1 Hb2).
  - intros b Hc. destruct (Ico b Hc) as [H|(t' & x & Hx & Hb)]; [left; assumption|right].
    destruct (Nat.eq_dec t t') as [<-|Hne].
    + exists t, l'. split; [unfold thr_at; cbn; eapply upd_same; eassumption|].
      unfold thr_at in Hx, Hl. rewrite Hl in Hx. inversion Hx; subst. apply Hh. assumption.
    + exists t', x. split; [unfold thr_at; cbn; rewrite upd_other by assumption; assumption|assumption].
  - pose proof (cnt_upd isPushWon _ _ l' _ Hl) as E1. pose proof (cnt_upd isPopWon _ _ l' _ Hl) as E2.
    rewrite Hw1 in E1. rewrite Hw2 in E2.
    replace (cnt isPushWon (upd_thr (thr s) t l')) with (cnt isPushWon (thr s)) by lia.
    replace (cnt isPopWon (upd_thr (thr s) t l')) with (cnt isPopWon (thr s)) by lia.
    assumption.
Qed.

(* ---------- the general frame: what a step must establish ---------- *)
Lemma inv_frame : forall s s' t l l',
  Inv s -> thr_at s t l -> thr s' = upd_thr (thr s) t l' ->
  chain (nxt s') (head s') (fl s') -> NoDup (fl s') -> gen s' = ncas s' ->
  (exists m, bump s' = bump0 c + m * bsize c) ->
  (forall b, In b (fl s') -> b < bump s') ->
  NoDup (holds l') -> (forall b, In b (holds l') -> blk_ok s' b) -> pc_ok s' (pc l') ->
  (forall b, blk_ok s b -> ~ In b (holds l) -> blk_ok s' b) ->
  (forall x, (forall b, In b (holds x) -> blk_ok s b /\ ~ In b (holds l)) ->
             pc_ok s (pc x) -> pc_ok s' (pc x)) ->
  (forall b, In b (holds l') -> In b (holds l) \/ ~ blk_ok s b) ->
  (forall b, carved s' b -> carved s b \/ In b (holds l')) ->
  (forall b, In b (fl s) -> In b (fl s') \/ In b (holds l')) ->
  (forall b, In b (holds l) -> In b (fl s') \/ In b (holds l')) ->
  count s' < W32 ->
  (count s' + N.of_nat (cnt isPushWon (thr s'))) mod W32 =
    (N.of_nat (length (fl s')) + N.of_nat (cnt isPopWon (thr s'))) mod W32 ->
  Inv s'.
Proof.
  intros s s' t l l' I Hl Hthr Hch Hnd Hg Hb Hfl Hnd' Hblk Hpc Hoth Hopc Hnew Hcar Hflmv Hhmv Hclt Hcnt.
  destruct I as [Ich Ind Ig Ib Ifl Ith Idj Ico Icl Icn].
  assert (Hother : forall t' x, t <> t' -> thr_at s t' x ->
                   forall b, In b (holds x) -> blk_ok s b /\ ~ In b (holds l)).
  { intros t' x Hne Hx b Hbx. split.
    - destruct (Ith _ _ Hx) as (_ & H & _). auto.
    - intro Hbl. exact (Idj _ _ _ _ _ Hne Hl Hx Hbl Hbx). }
  constructor; auto.
  - intros t' x Hat. unfold thr_at in Hat. rewrite Hthr in Hat.
    destruct (Nat.eq_dec t t') as [<-|Hne].
    + erewrite upd_same in Hat by eassumption. inversion Hat; subst. auto.
    + rewrite upd_other in Hat by assumption.
      destruct (Ith _ _ Hat) as (H1 & H2 & H3). split; [assumption|]. split.
      * intros b Hbx. destruct (Hother _ _ Hne Hat b Hbx). auto.
      * apply Hopc; [|assumption]. intros b Hbx. exact (Hother _ _ Hne Hat b Hbx).
  - intros t1 t2 l1 l2 b Hne H1 H2 Hb1 Hb2.
    unfold thr_at in H1, H2. rewrite Hthr in H1, H2.
    destruct (Nat.eq_dec t t1) as [<-|N1]; destruct (Nat.eq_dec t t2) as [<-|N2]; try congruence.
    + erewrite upd_same in H1 by eassumption. inversion H1; subst.
      rewrite upd_other in H2 by assumption.
      destruct (Hother _ _ Hne H2 b Hb2) as [Hok Hnl].
      destruct (Hnew b Hb1) as [Hin|Hno]; tauto.
    + erewrite upd_same in H2 by eassumption. inversion H2; subst.
      rewrite upd_other in H1 by assumption.
      destruct (Hother _ _ N1 H1 b Hb1) as [Hok Hnl].
      destruct (Hnew b Hb2) as [Hin|Hno]; tauto.
    + rewrite upd_other in H1, H2 by assumption. exact (Idj _ _ _ _ _ Hne H1 H2 Hb1 Hb2).
  - intros b Hc.
    assert (Hmine : exists t0 l0, thr_at s' t0 l0 /\ l0 = l').
    { exists t, l'. split; [|reflexivity]. unfold thr_at. rewrite Hthr. eapply upd_same; eassumption. }
    destruct Hmine as (t0 & l0 & Hat0 & ->).
    destruct (Hcar b Hc) as [Hold|Hin]; [|right; eauto].
    destruct (Ico b Hold) as [Hf|(t' & x & Hx & Hbx)].
    + destruct (Hflmv b Hf); [left; assumption|right; eauto].
    + destruct (Nat.eq_dec t t') as [<-|Hne].
      * unfold thr_at in Hx, Hl. rewrite Hl in Hx. inversion Hx; subst.
        destruct (Hhmv b Hbx); [left; assumption|right; eauto].
      * right. exists t', x. split; [|assumption]. unfold thr_at. rewrite Hthr.
        rewrite upd_other by assumption. assumption.
Qed.

End INV.
