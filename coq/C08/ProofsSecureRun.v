(* C08: the SecureMemoryPool model over whole schedules: no chunk is lost and none is in two places
   when stack nodes are never recycled; counters; the refutation when the allocator recycles nodes. *)
From ZV.Common Require Import Base.
From ZV.C08 Require Import Model ProofsInv ProofsChain ModelSecure ProofsSecureInv ProofsSecureStep.
Open Scope N_scope.

Lemma srun_kinv : forall c, s_reuse c = false -> forall sc s, KInv s -> KInv (srun c s sc).
Proof.
  intros c Hc. induction sc as [|[t k] sc IH]; intros s K; cbn; [assumption|].
  apply IH. apply sstep_kinv; assumption.
Qed.

Lemma wsum_concat : forall x l, wsum x l = occ x (concat (map splaces l)).
Proof.
  induction l as [|a l IH]; cbn; [reflexivity|]. rewrite occ_app, IH. reflexivity.
Qed.

(* the traversal of the real stack yields the abstract stack *)
Lemma swalk_stk : forall s l h, lchain 0 (snext s) h l -> (forall a, In a l -> slive s a = true) ->
  swalk (length l) s h = Some l.
Proof.
  induction l as [|x r IH]; cbn; intros h H Hl.
  - subst. reflexivity.
  - destruct H as (-> & Hne & H). apply N.eqb_neq in Hne. rewrite Hne.
    rewrite (Hl x) by (left; reflexivity). rewrite (IH _ H); [reflexivity|]. intros a Ha. apply Hl. right. assumption.
Qed.

Section SRUN.
Variable c : scfg.
Hypothesis Hc : s_reuse c = false.

Definition sreach (n : nat) (sc : ssched) : sstate := srun c (sinit n) sc.
Lemma sreach_kinv : forall n sc, KInv (sreach n sc).
Proof. intros. apply srun_kinv; [assumption|apply sinit_kinv]. Qed.

(* every chunk ever created is in exactly one place - a thread's hands, a thread's cache, a push in
   flight, or the shared stack as the code traverses it - and nothing else is anywhere *)
Lemma secure_no_chunk_lost_proof : forall n sc,
  let s := sreach n sc in
  exists stack, swalk (length stack) s (shead s) = Some stack /\ NoDup stack /\
    forall x, (occ x (concat (map splaces (sthr s)) ++ map (fun a => fst (sdata s a)) stack) =
               b2n (N.ltb x (snew s)))%nat.
Proof.
  intros n sc s. pose proof (sreach_kinv n sc) as K. fold s in K.
  exists (sstk s). split; [apply swalk_stk; [apply (k_chain s K)|apply (k_live s K)]|].
  split; [apply (k_nodup s K)|].
  intros x. rewrite occ_app, <- wsum_concat. apply (k_occ s K).
Qed.

(* no chunk is in the hands of two threads, or twice in the hands of one *)
Lemma secure_no_double_owner_proof : forall n sc,
  let s := sreach n sc in
  forall t1 t2 l1 l2 ch1 ch2, t1 <> t2 ->
    nth_error (sthr s) t1 = Some l1 -> nth_error (sthr s) t2 = Some l2 ->
    In ch1 (sheld l1) -> In ch2 (sheld l2) -> fst ch1 <> fst ch2.
Proof.
  intros n sc s t1 t2 l1 l2 ch1 ch2 Hne H1 H2 Hc1 Hc2 E.
  pose proof (sreach_kinv n sc) as K. fold s in K.
  pose proof (occ_le_1 s (fst ch1) K) as L.
  pose proof (wsum_ge2 (fst ch1) _ _ _ _ _ Hne H1 H2) as G.
  assert (W1 : (1 <= wt (fst ch1) l1)%nat).
  { unfold wt, splaces. rewrite occ_app. pose proof (occ_map_in ch1 _ Hc1). lia. }
  assert (W2 : (1 <= wt (fst ch1) l2)%nat).
  { unfold wt, splaces. rewrite occ_app. pose proof (occ_map_in ch2 _ Hc2). rewrite <- E in H. lia. }
  lia.
Qed.

(* a guard drop never runs into the double-free error: the table knows every chunk in a thread's hands *)
Lemma secure_held_in_table_proof : forall n sc,
  let s := sreach n sc in
  forall t l ch, nth_error (sthr s) t = Some l -> In ch (sheld l) -> sact s (fst ch) = Some (snd ch).
Proof.
  intros n sc s t l ch Hl Hin. destruct (k_thr s (sreach_kinv n sc) t l Hl) as (_ & H). auto.
Qed.

End SRUN.

(* ---------- counters ---------- *)
Definition in_pop (p : spcT) : bool :=
  match p with SPopStart | SPopLoaded _ | SPopRead _ _ => true | _ => false end.
Fixpoint scnt_pc (f : spcT -> bool) (l : list slocal) : nat :=
  match l with [] => 0%nat | x :: r => (b2n (f (spc x)) + scnt_pc f r)%nat end.
Lemma scnt_upd : forall f l t x y, nth_error l t = Some y ->
  (scnt_pc f (upd_sthr l t x) + b2n (f (spc y)) = scnt_pc f l + b2n (f (spc x)))%nat.
Proof.
  induction l as [|a l IH]; intros [|t] x y H; cbn in *; try discriminate.
  - inversion H; subst. lia.
  - specialize (IH t x y H). lia.
Qed.
Lemma scnt_idle : forall f l, f SIdle = false -> Forall (fun x => spc x = SIdle) l -> scnt_pc f l = 0%nat.
Proof. intros f l Hf H. induction H as [|x l Hx _ IH]; cbn; [reflexivity|]. rewrite Hx, Hf, IH. reflexivity. Qed.

Record CInv (s : sstate) : Prop := {
  ci_served : c_hits (scnt s) + c_misses (scnt s) + N.of_nat (scnt_pc in_pop (sthr s)) = c_alloc (scnt s);
  ci_hits : c_local (scnt s) + c_steals (scnt s) = c_hits (scnt s);
  ci_dbl : c_dbl (scnt s) = 0
}.

Lemma sstep_cinv : forall c s t k, KInv s -> CInv s -> CInv (fst (sstep c s t k)).
Proof.
  intros c s t k K [C1 C2 C3]. unfold sstep.
  destruct (nth_error (sthr s) t) as [l|] eqn:Hl; [|constructor; assumption].
  destruct (k_thr s K _ _ Hl) as (_ & Hact).
  destruct l as [p ca he]. cbn [spc scache sheld] in *.
  assert (U : forall x, (scnt_pc in_pop (upd_sthr (sthr s) t x) + b2n (in_pop p) = scnt_pc in_pop (sthr s) + b2n (in_pop (spc x)))%nat).
  { intros x. apply (scnt_upd in_pop _ _ x _ Hl). }
  destruct p.
  - destruct k; try (constructor; assumption).
    + destruct ca as [|ch ca']; cbn [fst].
      * specialize (U (smk SPopStart [] he)). cbn in U. constructor; cbn; lia.
      * specialize (U (smk SIdle ca' (he ++ [ch]))). cbn in U. constructor; cbn; lia.
    + destruct (take_id id he) as [[ch he']|] eqn:Ht; [|constructor; assumption].
      destruct (take_id_spec _ _ _ _ Ht) as (Hin & _).
      rewrite (Hact ch Hin), N.eqb_refl. cbn [negb].
      destruct (nlen ca <? s_lcache c); cbn [fst].
      * specialize (U (smk SIdle (ch :: ca) he')). cbn in U. constructor; cbn; lia.
      * destruct (node_ok c s a); cbn [fst]; [|constructor; assumption].
        specialize (U (smk (SPushStart a ch) ca he')). cbn in U. constructor; cbn; lia.
  - destruct (shead s =? 0); cbn [fst].
    + specialize (U (smk SIdle ca (he ++ [(snew s, sgen s)]))). cbn in U. constructor; cbn; lia.
    + specialize (U (smk (SPopLoaded (shead s)) ca he)). cbn in U. constructor; cbn; lia.
  - cbn [fst]. specialize (U (smk (SPopRead h (snext s h)) ca he)). cbn in U. constructor; cbn; lia.
  - destruct (shead s =? h); cbn [fst].
    + specialize (U (smk SIdle ca (he ++ [sdata s h]))). cbn in U. constructor; cbn; lia.
    + specialize (U (smk SPopStart ca he)). cbn in U. constructor; cbn; lia.
  - cbn [fst]. specialize (U (smk (SPushLoaded a (shead s) ch) ca he)). cbn in U. constructor; cbn; lia.
  - cbn [fst]. specialize (U (smk (SPushWritten a h ch) ca he)). cbn in U. constructor; cbn; lia.
  - destruct (shead s =? h); cbn [fst].
    + specialize (U (smk SIdle ca he)). cbn in U. constructor; cbn; lia.
    + specialize (U (smk (SPushStart a ch) ca he)). cbn in U. constructor; cbn; lia.
Qed.

Lemma secure_counters_proof : forall c, s_reuse c = false -> forall n sc,
  let s := srun c (sinit n) sc in squiescent s ->
  c_hits (scnt s) + c_misses (scnt s) = c_alloc (scnt s) /\
  c_local (scnt s) + c_steals (scnt s) = c_hits (scnt s) /\ c_dbl (scnt s) = 0.
Proof.
  intros c Hc n sc.
  assert (G : forall sc s, KInv s -> CInv s -> CInv (srun c s sc)).
  { induction sc0 as [|[t k] sc0 IH]; intros s K C; cbn; [assumption|].
    apply IH; [apply sstep_kinv; assumption|apply sstep_cinv; assumption]. }
  intros s Hq.
  assert (C0 : CInv (sinit n)).
  { constructor; cbn; try reflexivity.
    assert (E : scnt_pc in_pop (repeat {| spc := SIdle; scache := []; sheld := [] |} n) = 0%nat).
    { clear. induction n as [|n IH]; cbn; [reflexivity|exact IH]. }
    rewrite E. reflexivity. }
  destruct (G sc _ (sinit_kinv n) C0) as [C1 C2 C3]. fold s in C1, C2, C3.
  rewrite (scnt_idle in_pop) in C1 by (auto; reflexivity). cbn in C1. rewrite N.add_0_r in C1. auto.
Qed.

(* ---------- an allocator that recycles node addresses: the recorded findings, on this model ---------- *)
Definition sopn (t : nat) (k : scmd) (n : nat) : ssched := (t, k) :: repeat (t, SNone) n.
Definition sreuse_cfg : scfg := {| s_lcache := 0; s_reuse := true |}.
Definition sreuse_sched : ssched :=
  sopn 0 SAlloc 1 ++ sopn 0 SAlloc 1 ++                      (* thread 0 creates chunks 0 and 1 *)
  sopn 0 (SFree 0 1) 3 ++ sopn 0 (SFree 1 2) 3 ++            (* frees them: stack node 2 (chunk 1) -> node 1 (chunk 0) *)
  sopn 0 SAlloc 2 ++                                         (* thread 0: loaded head 2 and its link 1 *)
  sopn 1 SAlloc 3 ++ sopn 1 SAlloc 3 ++                      (* thread 1 pops both nodes (freed) *)
  sopn 1 (SFree 1 2) 3 ++                                    (* and pushes chunk 1 in a node that reuses address 2 *)
  [(0%nat, SNone)] ++                                        (* thread 0's exchange succeeds: head := freed node 1 *)
  sopn 0 SAlloc 3.                                           (* the next pop returns chunk 0, which thread 1 holds *)

Lemma secure_reuse_refuted_proof :
  exists sc l0 l1 ch,
    let s := srun sreuse_cfg (sinit 2) sc in
    nth_error (sthr s) 0 = Some l0 /\ nth_error (sthr s) 1 = Some l1 /\
    In ch (sheld l0) /\ In ch (sheld l1).
Proof.
  exists sreuse_sched. eexists. eexists. exists (0, 1). cbv zeta.
  split; [vm_compute; reflexivity|]. split; [vm_compute; reflexivity|].
  split; vm_compute; tauto.
Qed.

(* non-vacuity: a run of the machine without recycling in which a chunk spills to the shared stack and is
   taken from there by the other thread *)
Example secure_spill_example :
  let c := {| s_lcache := 1; s_reuse := false |} in
  let s := srun c (sinit 2) (sopn 0 SAlloc 1 ++ sopn 0 SAlloc 1 ++ sopn 0 (SFree 0 7) 0 ++ sopn 0 (SFree 1 7) 3 ++ sopn 1 SAlloc 3) in
  map (fun l => map fst (scache l)) (sthr s) = [[0]; []] /\
  map (fun l => map fst (sheld l)) (sthr s) = [[]; [1]] /\ shead s = 0 /\ squiescent s.
Proof. vm_compute. repeat split; try reflexivity. repeat constructor. Qed.
